(* C17 - Retries re-emit exactly the unexecuted matching deposits; executed is final; store errors
   withhold; the executor is never stuck.
   This file contains only the property theorems (each closed by [exact]) and Print Assumptions.

   [step] / [run] / [final] model the REPAIRED code (branch fix-C17); [old_run] the code as found
   (the two [C17_old_*_refuted] theorems; their witnesses are replayed on the implementation by
   corpus/C17).  A state [x] holds the store contents, the REMAINING FAULT SCHEDULE (one entry per
   store call, true = that call fails), the mutex bit and the deliveries made so far: every theorem
   is for all states, hence for every fault assignment.  The only hypothesis on a retried block is
   [nodupk (map (dkey src) ds)]: its deposits are pairwise different (destination, nonce). *)
From Coq Require Import List NArith Bool Permutation.
Import ListNotations.
From SygmaV Require Import Model.C17 Proofs.C17 Proofs.C17_Conc Proofs.C17_Script Proofs.C17_Chan Proofs.C17_Redeliver.
Local Open Scope N_scope.

(* A retry re-emits those and only those deposits of the block that are selected (destination and
   resource of the request; every deposit for RetryV1), are not recorded executed, and whose store
   calls all succeeded.  The MODEL (like the code it follows) keeps the block order (per destination
   domain for RetryV1); the property does not fix the order inside the re-emitted batch and the judge
   of the correspondence run does not look at it (C17_judge_step_retry, C17_judge_step_retry_exact,
   C17_judge_step_order_free below) - a different order shows as model/implementation mismatch only. *)
Theorem C17_filter_exact : forall p src res dest ds x x' em,
  nodupk (map (dkey src) ds) = true ->
  step (Retry p src res dest ds) x = (x', ORetry em) ->
  em = regroup p (expected_retry p src res dest ds (s_kv (st x)) (s_failed (st x'))).
Proof. exact filter_exact. Qed.
Print Assumptions C17_filter_exact.

Theorem C17_filter_exact_nofault : forall p src res dest ds x x' em,
  nodupk (map (dkey src) ds) = true ->
  step (Retry p src res dest ds) x = (x', ORetry em) ->
  s_failed (st x') = [] ->
  em = regroup p (filter (fun d => sel_of p res dest d && negb (is_exec (get (s_kv (st x)) (dkey src d)))) ds).
Proof. exact filter_exact_nofault. Qed.
Print Assumptions C17_filter_exact_nofault.

Theorem C17_executed_not_reemitted : forall p src res dest ds x x' em d,
  nodupk (map (dkey src) ds) = true ->
  step (Retry p src res dest ds) x = (x', ORetry em) ->
  In d em -> is_exec (get (s_kv (st x)) (dkey src d)) = false /\ sel_of p res dest d = true /\ In d ds.
Proof. exact executed_not_reemitted. Qed.
Print Assumptions C17_executed_not_reemitted.

(* Every re-emitted deposit is left missing/failed, i.e. in a status from which the executor starts
   an execution; one that was stuck as pending is now failed ... *)
Theorem C17_pending_released : forall p src res dest ds x x' em d,
  nodupk (map (dkey src) ds) = true ->
  step (Retry p src res dest ds) x = (x', ORetry em) ->
  In d em ->
  startable (get (s_kv (st x')) (dkey src d)) = true /\
  (get (s_kv (st x)) (dkey src d) = Pending -> get (s_kv (st x')) (dkey src d) = Failed).
Proof. exact pending_released. Qed.
Print Assumptions C17_pending_released.

(* ... and delivering it (two store calls without error) selects it for execution. *)
Theorem C17_released_then_delivered : forall k (s : sto) bs,
  startable (get (s_kv s) k) = true -> hd false (s_faults s) = false -> hd false (tl (s_faults s)) = false ->
  snd (step (Deliver [k]) (mkState s false bs)) = ODeliver (Some [k]).
Proof. exact released_then_delivered. Qed.
Print Assumptions C17_released_then_delivered.

(* A deposit one of whose store calls (read or write) failed during the retry is withheld. *)
Theorem C17_store_error_withholds : forall p src res dest ds x x' em d,
  nodupk (map (dkey src) ds) = true ->
  step (Retry p src res dest ds) x = (x', ORetry em) ->
  In (dkey src d) (s_failed (st x')) -> ~ In d em.
Proof. exact store_error_withholds. Qed.
Print Assumptions C17_store_error_withholds.

(* Executed is final: for every list of retry / deliver / exec-ok / exec-fail operations (any
   blocks, any key lists, completions of any delivery in any order, even repeated), from every state
   (any store, any fault schedule, any mutex bit, any earlier deliveries). *)
Theorem C17_executed_absorbing : forall ops x k,
  is_exec (get (s_kv (st x)) k) = true -> is_exec (get (s_kv (st (final ops x))) k) = true.
Proof. exact executed_absorbing. Qed.
Print Assumptions C17_executed_absorbing.

Theorem C17_executed_absorbing_run : forall ops x k,
  is_exec (get (s_kv (st x)) k) = true ->
  Forall (fun ob : obs => is_exec (get (snd ob) k) = true) (run ops x).
Proof. exact executed_absorbing_run. Qed.
Print Assumptions C17_executed_absorbing_run.

(* The executor is never stuck: whatever fails, the mutex is free after every operation list and no
   call blocks. *)
Theorem C17_executor_never_stuck : forall ops x, locked x = false ->
  locked (final ops x) = false /\ Forall (fun ob : obs => fst (fst ob) <> OStuck) (run ops x).
Proof. exact executor_never_stuck. Qed.
Print Assumptions C17_executor_never_stuck.

(* The judge of the correspondence run accepts every run of the model (any key universe) ... *)
Theorem C17_hist_ok_model : forall univ ops x,
  locked x = false -> forallb wf_op ops = true -> hist_ok univ (s_kv (st x)) ops (run ops x) = true.
Proof. exact hist_ok_model. Qed.
Print Assumptions C17_hist_ok_model.

(* ... and whatever observed history it accepts has the stated properties. *)
Theorem C17_hist_ok_executed : forall univ ops pre obs_ k,
  hist_ok univ pre ops obs_ = true -> In k univ -> is_exec (get pre k) = true ->
  Forall (fun ob : obs => is_exec (get (snd ob) k) = true) obs_.
Proof. exact hist_ok_executed. Qed.
Print Assumptions C17_hist_ok_executed.

Theorem C17_hist_ok_not_stuck : forall univ ops pre obs_,
  hist_ok univ pre ops obs_ = true -> Forall (fun ob : obs => fst (fst ob) <> OStuck) obs_.
Proof. exact hist_ok_not_stuck. Qed.
Print Assumptions C17_hist_ok_not_stuck.

(* An accepted retry re-emitted a PERMUTATION of the expected deposits (multiset reading of "those and
   only those": the same deposits, each as often, in any order) and left each of them startable ... *)
Theorem C17_judge_step_retry : forall univ pre p src res dest ds ou failed post,
  judge_step univ pre (Retry p src res dest ds) (ou, failed, post) = true ->
  exists em, ou = ORetry em /\ Permutation em (regroup p (expected_retry p src res dest ds pre failed)) /\
             (forall d, In d em -> startable (get post (dkey src d)) = true).
Proof. exact judge_step_retry. Qed.
Print Assumptions C17_judge_step_retry.

(* ... i.e. for a well-formed block: no deposit twice, and a deposit is re-emitted if and only if it is
   in the block, selected, not recorded executed before the retry and none of its store calls failed. *)
Theorem C17_judge_step_retry_exact : forall univ pre p src res dest ds failed post em,
  wf_op (Retry p src res dest ds) = true ->
  judge_step univ pre (Retry p src res dest ds) (ORetry em, failed, post) = true ->
  NoDup em /\
  forall d, In d em <->
    (In d ds /\ sel_of p res dest d = true /\ is_exec (get pre (dkey src d)) = false /\ ~ In (dkey src d) failed).
Proof. exact judge_step_retry_exact. Qed.
Print Assumptions C17_judge_step_retry_exact.

(* The judge never looks at the order inside the re-emitted batch: it accepts every permutation of an
   accepted batch. *)
Theorem C17_judge_step_order_free : forall univ pre o em em' failed post,
  Permutation em em' ->
  judge_step univ pre o (ORetry em, failed, post) = true ->
  judge_step univ pre o (ORetry em', failed, post) = true.
Proof. exact judge_step_order_free. Qed.
Print Assumptions C17_judge_step_order_free.

(* Non-vacuity of the multiset reading: the batch in nonce order is accepted although the block (and the
   model) has the deposits in the order 2, 1; a batch that lacks one, repeats one or adds an executed
   one is rejected. *)
Example C17_order_free_nonvacuous :
  let blk := [mkDep 2 2 7; mkDep 2 1 7; mkDep 2 3 7] in
  let pre := [((1, 2, 3), Executed)] in
  let u := [(1, 2, 1); (1, 2, 2); (1, 2, 3)] in
  wf_op (Retry PFilter 1 7 2 blk) = true /\
  fst (fst (hd (OExec, [], []) (run [Retry PFilter 1 7 2 blk] (init_state pre [])))) = ORetry [mkDep 2 2 7; mkDep 2 1 7] /\
  judge_step u pre (Retry PFilter 1 7 2 blk) (ORetry [mkDep 2 1 7; mkDep 2 2 7], [], pre) = true /\
  judge_step u pre (Retry PFilter 1 7 2 blk) (ORetry [mkDep 2 2 7; mkDep 2 1 7], [], pre) = true /\
  judge_step u pre (Retry PFilter 1 7 2 blk) (ORetry [mkDep 2 1 7], [], pre) = false /\
  judge_step u pre (Retry PFilter 1 7 2 blk) (ORetry [mkDep 2 1 7; mkDep 2 1 7; mkDep 2 2 7], [], pre) = false /\
  judge_step u pre (Retry PFilter 1 7 2 blk) (ORetry [mkDep 2 1 7; mkDep 2 2 7; mkDep 2 3 7], [], pre) = false.
Proof. vm_compute. repeat split. Qed.

(* ---- concurrent use of one store ----
   Operations on different keys commute: two threads (local states x1, x2: fault schedule, mutex bit,
   deliveries) whose next operations o1, o2 name no common key reach, in either order, the same
   results, the same local states and store contents with the same status for every key. *)
Theorem C17_disjoint_commute : forall o1 o2 x1 x2 m xa oua xb oub xb' oub' xa' oua',
  (forall k, In k (touched (batches x1) o1) -> ~ In k (touched (batches x2) o2)) ->
  step o1 (with_kv m x1) = (xa, oua) -> step o2 (with_kv (s_kv (st xa)) x2) = (xb, oub) ->
  step o2 (with_kv m x2) = (xb', oub') -> step o1 (with_kv (s_kv (st xb')) x1) = (xa', oua') ->
  oua = oua' /\ oub = oub' /\ local xa = local xa' /\ local xb = local xb' /\
  forall k, get (s_kv (st xb)) k = get (s_kv (st xa')) k.
Proof. exact disjoint_commute. Qed.
Print Assumptions C17_disjoint_commute.

(* An operation changes only keys it names (given the deliveries made so far). *)
Theorem C17_step_frame : forall o x k, ~ In k (touched (batches x) o) ->
  get (s_kv (st (fst (step o x)))) k = get (s_kv (st x)) k.
Proof. exact step_frame. Qed.
Print Assumptions C17_step_frame.

(* EVERY interleaving (schedule = which thread makes its next operation; any length, any order) of
   threads laid out as [conc_wf] says - pairwise disjoint own keys, shared keys recorded executed
   (any operation may name them), shared non-pending keys named by retries only: what thread i
   observed is, on the keys it can name, the run of a prefix of its operation list ALONE from the
   initial contents, and the final contents agree with the end of that solo run. *)
Theorem C17_conc_projection : forall Ks RE RO m ts sched i t,
  conc_wf Ks RE RO m ts = true -> nth_error ts i = Some t ->
  exists n,
    obs_sim (view Ks RE RO i) (proj i (fst (crun sched (m, ts)))) (run (firstn n (t_ops t)) (with_kv m (t_x t))) /\
    agree_on (view Ks RE RO i) (fst (snd (crun sched (m, ts))))
             (s_kv (st (final (firstn n (t_ops t)) (with_kv m (t_x t))))).
Proof. exact conc_projection. Qed.
Print Assumptions C17_conc_projection.

(* ... hence the judge of the concurrent correspondence cases (per thread: the sequential judge on its
   own history; what it last saw executed is executed in the final contents) accepts every
   interleaving of the model. *)
Theorem C17_conc_judge_accepts : forall Ks RE RO m ts sched i t,
  conc_wf Ks RE RO m ts = true -> nth_error ts i = Some t ->
  exists n,
    thread_judge (view Ks RE RO i) m (firstn n (t_ops t)) (proj i (fst (crun sched (m, ts))))
                 (fst (snd (crun sched (m, ts)))) = true.
Proof. exact conc_judge_accepts. Qed.
Print Assumptions C17_conc_judge_accepts.

(* Executed is final in every interleaving of ANY threads, whatever keys they share. *)
Theorem C17_conc_executed_absorbing : forall sched c k,
  is_exec (get (fst c) k) = true -> is_exec (get (fst (snd (crun sched c))) k) = true.
Proof. exact conc_executed_absorbing. Qed.
Print Assumptions C17_conc_executed_absorbing.

(* Non-vacuity of the concurrent theorems: a well-formed layout (two threads, a shared executed key
   and a shared read-only key), and both threads see the same in two different interleavings. *)
Example C17_conc_nonvacuous :
  conc_wf cw_Ks cw_RE cw_RO cw_init [cw_t0; cw_t1] = true /\
  map (fun ob : obs => fst ob) (proj 0 (fst (crun [0; 0; 0; 1; 1; 1]%nat (cw_init, [cw_t0; cw_t1]))))
  = map (fun ob : obs => fst ob) (proj 0 (fst (crun [1; 0; 1; 0; 1; 0]%nat (cw_init, [cw_t0; cw_t1])))) /\
  map (fun ob : obs => fst (fst ob)) (proj 1 (fst (crun [1; 0; 1; 0; 1; 0]%nat (cw_init, [cw_t0; cw_t1]))))
  = [ORetry [mkDep 3 1 7; mkDep 3 9 7]; ODeliver (Some [(1, 3, 1)]); OExec] /\
  map (fun ob : obs => fst ob) (proj 0 (fst (crun [1; 0; 1; 0; 1; 0]%nat (cw_init, [cw_t0; cw_t1]))))
  = [(ORetry [mkDep 2 1 7; mkDep 2 2 7], [(1, 2, 9)]); (ODeliver (Some [(1, 2, 1)]), []); (OExec, [])].
Proof. vm_compute. repeat split. Qed.

(* ---- two operations meeting inside a call ----
   The executor holds propMutex around the whole admission of a delivery and around the whole end of an
   execution, so when one of them is let in at a store call of the other the outcome is one of the two
   atomic orders.  In EITHER order: a proposal recorded executed at any point of the history is
   executed at every later point and at the end, the judge accepts the history and no call is stuck -
   this is what the scripted interleavings of the runner are compared with and judged by. *)
Theorem C17_script_executed_absorbing : forall prefix a b suffix ops x k n,
  In ops (script_orders prefix a b suffix) ->
  is_exec (get (s_kv (st (final (firstn n ops) x))) k) = true ->
  is_exec (get (s_kv (st (final ops x))) k) = true /\
  Forall (fun ob : obs => is_exec (get (snd ob) k) = true) (run (skipn n ops) (final (firstn n ops) x)).
Proof. exact script_executed_absorbing. Qed.
Print Assumptions C17_script_executed_absorbing.

Theorem C17_script_judge_accepts : forall univ prefix a b suffix ops x,
  In ops (script_orders prefix a b suffix) -> locked x = false ->
  forallb wf_op (prefix ++ [a; b] ++ suffix) = true ->
  hist_ok univ (s_kv (st x)) ops (run ops x) = true /\
  Forall (fun ob : obs => fst (fst ob) <> OStuck) (run ops x).
Proof. exact script_judge_accepts. Qed.
Print Assumptions C17_script_judge_accepts.

(* The admission at the granularity of its store calls: first the status reads, then the "pending"
   marks, any other operation scheduled in between.  WITH the mutex held from before the reads until
   after the marks (the code), for EVERY schedule of whole operations (retries, which take no mutex,
   included) and halves of admissions: executed is final - between the halves only retries get through,
   and a retry never records anything as executed nor touches an executed status ... *)
Theorem C17_mutex_split_executed_absorbing : forall ops z k, adm_inv z ->
  is_exec (get (s_kv (st (s_x z))) k) = true ->
  is_exec (get (s_kv (st (s_x (sfinal true ops z)))) k) = true /\
  Forall (fun ob : obs => is_exec (get (snd ob) k) = true) (srun true ops z).
Proof. exact mutex_split_executed_absorbing. Qed.
Print Assumptions C17_mutex_split_executed_absorbing.

(* ... the two halves made one right after the other by an idle executor ARE the atomic admission
   (distinct proposals, no store error) ... *)
Theorem C17_split_is_atomic : forall ks m bs, nodupk ks = true ->
  let z := mkS (mkState (mkSto m [] []) false bs) None in
  let z2 := fst (sstep true AdmitWrite (fst (sstep true (AdmitRead ks) z))) in
  s_x z2 = fst (step (Deliver ks) (s_x z)) /\ s_adm z2 = None /\
  snd (sstep true AdmitWrite (fst (sstep true (AdmitRead ks) z))) = snd (step (Deliver ks) (s_x z)).
Proof. exact split_is_atomic. Qed.
Print Assumptions C17_split_is_atomic.

(* ... and an admission that reads the statuses WITHOUT the mutex and takes it only for the marks
   violates the property: deliver, retry (released), the redelivery reads "failed", the first execution
   records "executed", the redelivery marks "pending", its execution fails - the executed deposit is
   failed, re-emitted and admitted again; with the mutex the same schedule makes the first execution's
   end wait. *)
Theorem C17_split_admission_refuted :
  map (fun ob : obs => (fst (fst ob), get (snd ob) w_k)) (srun false w_split_ops (sinit []))
  = [(ODeliver (Some [w_k]), Pending); (ORetry [w_dep], Failed); (OExec, Failed); (OExec, Executed);
     (ODeliver (Some [w_k]), Pending); (OExec, Failed); (ORetry [w_dep], Failed); (ODeliver (Some [w_k]), Pending)] /\
  map (fun ob : obs => (fst (fst ob), get (snd ob) w_k)) (srun true w_split_ops (sinit []))
  = [(ODeliver (Some [w_k]), Pending); (ORetry [w_dep], Failed); (OExec, Failed); (OStuck, Failed);
     (ODeliver (Some [w_k]), Pending); (OExec, Failed); (ORetry [w_dep], Failed); (ODeliver (Some [w_k]), Pending)].
Proof. exact split_admission_refuted. Qed.
Print Assumptions C17_split_admission_refuted.

(* Non-vacuity: the invariant holds at the start and in the middle of an admission, both orders of a
   script are histories of the model that end with the executed status kept. *)
Example C17_script_nonvacuous :
  adm_inv (sinit []) /\
  adm_inv (fst (sstep true (AdmitRead [w_k]) (sinit [(w_k, Failed)]))) /\
  s_adm (fst (sstep true (AdmitRead [w_k]) (sinit [(w_k, Failed)]))) = Some [w_k] /\
  map (fun ops => map (fun ob : obs => (fst (fst ob), get (snd ob) w_k)) (run ops (init_state [] [])))
      (script_orders [Deliver [w_k]; Retry PFilter 1 1 2 [w_dep]] (Deliver [w_k]) (ExecOk 0) [ExecFail 1; Retry PFilter 1 1 2 [w_dep]])
  = [[(ODeliver (Some [w_k]), Pending); (ORetry [w_dep], Failed); (ODeliver (Some [w_k]), Pending); (OExec, Executed); (OExec, Executed); (ORetry [], Executed)];
     [(ODeliver (Some [w_k]), Pending); (ORetry [w_dep], Failed); (OExec, Executed); (ODeliver (Some []), Executed); (OExec, Executed); (ORetry [], Executed)]].
Proof.
  split; [exact I|]. split; [split; [reflexivity|]; intros k [<-|[]]; reflexivity|].
  split; reflexivity.
Qed.

(* The two isExecuted copies (relayer/retry and the EVM RetryV1 handler) are the same function. *)
Theorem C17_is_executed_copies_agree : is_executed_v1 = is_executed_retry.
Proof. exact is_executed_v1_eq. Qed.
Print Assumptions C17_is_executed_copies_agree.

(* The message channel.  The handlers hand the re-emitted batches over with a blocking send, so what
   the reader gets does not depend on the channel's capacity or on when the reader comes to its
   receive: for EVERY capacity and EVERY schedule of sender and reader steps, what the reader has, what
   is in the buffer and what the handler still offers is the handler's batch list, in order (nothing
   lost, nothing twice); once everything is handed over and the buffer is empty the reader has exactly
   that list; on the unbuffered channel a reader that comes to its receive only after the sender got
   to its send gets every batch.  (That is why the cases of the correspondence run that differ only in
   how the channel is read - chan.go - have the same expected observation.)  A send that gives up
   instead of waiting (select/default) loses the batch under that same schedule. *)
Theorem C17_chan_blocking_conserves : forall cap sched bs,
  chan_all (chan_run true cap sched (chan_init bs)) = bs.
Proof. exact chan_blocking_conserves. Qed.
Print Assumptions C17_chan_blocking_conserves.

Theorem C17_chan_blocking_complete : forall cap sched bs,
  c_pending (chan_run true cap sched (chan_init bs)) = [] ->
  c_queue (chan_run true cap sched (chan_init bs)) = [] ->
  c_got (chan_run true cap sched (chan_init bs)) = bs.
Proof. exact chan_blocking_complete. Qed.
Print Assumptions C17_chan_blocking_complete.

Theorem C17_chan_late_reader_delivers : forall bs,
  chan_run true 0 (late_sched (length bs)) (chan_init bs) = mkChan [] [] bs false.
Proof. exact chan_late_reader_delivers. Qed.
Print Assumptions C17_chan_late_reader_delivers.

Theorem C17_chan_nonblocking_refuted :
  exists bs, c_got (chan_run false 0 (late_sched (length bs)) (chan_init bs)) <> bs
             /\ c_pending (chan_run false 0 (late_sched (length bs)) (chan_init bs)) = []
             /\ c_queue (chan_run false 0 (late_sched (length bs)) (chan_init bs)) = [].
Proof. exact chan_nonblocking_refuted. Qed.
Print Assumptions C17_chan_nonblocking_refuted.

(* The code as found: one read error in proposalsForExecution and the next delivery blocks forever;
   a failed second execution of a released proposal overwrites "executed" and the next retry
   re-emits the executed deposit. *)
Theorem C17_old_never_stuck_refuted :
  exists ob, nth_error (old_run w_stuck_ops (init_state [] [true])) 1 = Some ob /\ fst (fst ob) = OStuck.
Proof. exact old_never_stuck_refuted. Qed.
Print Assumptions C17_old_never_stuck_refuted.

Theorem C17_old_executed_absorbing_refuted :
  map (fun ob : obs => get (snd ob) w_k) (old_run w_over_ops (init_state [] []))
  = [Pending; Failed; Pending; Executed; Failed; Failed] /\
  exists ob, nth_error (old_run w_over_ops (init_state [] [])) 5 = Some ob /\ fst (fst ob) = ORetry [w_dep].
Proof. exact old_executed_absorbing_refuted. Qed.
Print Assumptions C17_old_executed_absorbing_refuted.

(* Non-vacuity: the same two histories on the repaired model - the second delivery returns, the
   executed status survives the failed second execution and the next retry re-emits nothing; and a
   block with executed / pending / failed / missing / foreign deposits and one write error. *)
Example C17_nonvacuous :
  map (fun ob : obs => fst (fst ob)) (run w_stuck_ops (init_state [] [true]))
  = [ODeliver None; ODeliver (Some [w_k])] /\
  map (fun ob : obs => (fst (fst ob), get (snd ob) w_k)) (run w_over_ops (init_state [] []))
  = [(ODeliver (Some [w_k]), Pending); (ORetry [w_dep], Failed); (ODeliver (Some [w_k]), Pending);
     (OExec, Executed); (OExec, Executed); (ORetry [], Executed)] /\
  run [Retry PEvm 1 7 2 [mkDep 2 1 7; mkDep 2 2 7; mkDep 2 3 7; mkDep 2 4 7; mkDep 3 5 7; mkDep 2 6 8; mkDep 2 9 7]]
      (init_state [((1, 2, 1), Executed); ((1, 2, 2), Pending); ((1, 2, 3), Failed); ((1, 2, 9), Pending)]
                  [false; false; false; false; false; false; true])
  = [(ORetry [mkDep 2 2 7; mkDep 2 3 7; mkDep 2 4 7], [(1, 2, 9)],
      [((1, 2, 2), Failed); ((1, 2, 1), Executed); ((1, 2, 2), Pending); ((1, 2, 3), Failed); ((1, 2, 9), Pending)])].
Proof. vm_compute. repeat split. Qed.

(* ---- redelivery on ONE long-lived executor (Model/C17.v redeliver_ok, the second judge of the
   sequential histories) ---------------------------------------------------------------------------
   A delivery without a store error takes on every delivered proposal that was recorded neither
   executed nor pending when it arrived - for every store, every earlier history on this executor
   (deliveries whose executions ended early, late, or not at all), every batch. *)
Theorem C17_delivery_selects_startable : forall ks acc s sel s',
  pfe_loop ks acc s = (Some sel, s') ->
  (forall k, In k acc -> In k sel) /\
  (forall k, In k ks -> startable (get (s_kv s) k) = true -> In k sel).
Proof. exact pfe_selects. Qed.
Print Assumptions C17_delivery_selects_startable.

(* Hence the model passes the redelivery judge for ALL states, operation lists, and whatever the judge
   believes to be in progress ([bs]) or to be a whole Execute call that has returned ([lives]). *)
Theorem C17_model_redelivers : forall ops x bs lives,
  redeliver_ok (s_kv (st x)) bs ops lives (run ops x) = true.
Proof. exact redeliver_model. Qed.
Print Assumptions C17_model_redelivers.

(* What the judge demands of an observed delivery: a delivered proposal that is startable in the store
   and is not busy - no execution of it in progress on this executor, and not part of a hook-level
   delivery that ended with a store error - is among the selected ones ... *)
Theorem C17_deliver_ok_sound : forall pre bs ks sel k,
  deliver_ok pre bs ks sel = true -> In k ks ->
  startable (get pre k) = true -> busy bs k = false -> In k sel.
Proof. exact deliver_ok_sound. Qed.
Print Assumptions C17_deliver_ok_sound.

(* ... in particular what a retry re-emitted (the retry judge leaves it startable): "a deposit stuck
   as pending is released for re-execution", on whatever executor object the redelivery arrives. *)
Theorem C17_judge_released_redelivered : forall univ pre p src res dest ds em f post bs ks live sel post2 d,
  judge_step univ pre (Retry p src res dest ds) (ORetry em, f, post) = true ->
  In d em -> In (dkey src d) ks -> busy bs (dkey src d) = false ->
  fst (redeliver_step post bs (Deliver ks) live (ODeliver (Some sel), [], post2)) = true ->
  In (dkey src d) sel.
Proof. exact judge_released_redelivered. Qed.
Print Assumptions C17_judge_released_redelivered.

(* An executor that keeps an in-memory mark of the proposals "being signed" and clears it only where
   an execution reports its broadcast: delivery whose execution fails before the broadcast, retry
   (released and re-emitted), redelivery - the retry judge is satisfied, the redelivery judge is not
   (and the model, on the same operations, satisfies both: non-vacuity). *)
Theorem C17_inflight_marker_refuted :
  let tr := marker_run marker_ops (init_state [] [], []) in
  hist_ok [(1, 2, 5)] [] marker_ops tr = true /\
  redeliver_ok [] jinit marker_ops marker_lives tr = false /\
  redeliver_ok [] jinit marker_ops marker_lives (run marker_ops (init_state [] [])) = true.
Proof. exact marker_refuted. Qed.
Print Assumptions C17_inflight_marker_refuted.

(* ---- the EVM / Substrate executors (no status store): one whole Execute call hands every delivered
   proposal the destination does not report executed to ProposalsHash / signing, for every delivery and
   every place at which the call then fails - the model is stateless, so whatever failed before ... *)
Theorem C17_xexec_processes : forall executed ks f, xdeliver_ok executed ks f false (xexec executed ks f) = true.
Proof. exact xexec_ok. Qed.
Print Assumptions C17_xexec_processes.

(* ... and what the judge demands of an observed call: it returned, and unless one of its own status
   lookups failed, every delivered proposal not reported executed was taken on. *)
Theorem C17_xdeliver_ok_sound : forall executed ks f hung hashed k,
  xdeliver_ok executed ks f hung hashed = true -> xlookup_failed ks f = false ->
  hung = false /\ (In k ks -> memk k executed = false -> In k hashed).
Proof. exact xdeliver_ok_sound. Qed.
Print Assumptions C17_xdeliver_ok_sound.

Example C17_xdeliver_nonvacuous :
  xdeliver_ok [(1, 4, 2)] [(1, 4, 1); (1, 4, 2)] XKeyshare false [(1, 4, 1)] = true /\
  xdeliver_ok [(1, 4, 2)] [(1, 4, 1); (1, 4, 2)] XKeyshare false [] = false /\
  xdeliver_ok [] [(1, 4, 1)] (XQuery 0) false [] = true /\
  xdeliver_ok [] [(1, 4, 1)] XSign true [(1, 4, 1)] = false.
Proof. vm_compute. repeat split. Qed.
