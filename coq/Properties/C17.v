(* C17 - Retries re-emit exactly the unexecuted matching deposits; executed is final; store errors
   withhold; the executor is never stuck.
   This file contains only the property theorems (each closed by [exact]) and Print Assumptions.

   [step] / [run] / [final] model the REPAIRED code (branch fix-C17); [old_run] the code as found
   (the two [C17_old_*_refuted] theorems; their witnesses are replayed on the implementation by
   corpus/C17).  A state [x] holds the store contents, the REMAINING FAULT SCHEDULE (one entry per
   store call, true = that call fails), the mutex bit and the deliveries made so far: every theorem
   is for all states, hence for every fault assignment.  The only hypothesis on a retried block is
   [nodupk (map (dkey src) ds)]: its deposits are pairwise different (destination, nonce). *)
From Coq Require Import List NArith Bool.
Import ListNotations.
From SygmaV Require Import Model.C17 Proofs.C17.
Local Open Scope N_scope.

(* A retry re-emits those and only those deposits of the block that are selected (destination and
   resource of the request; every deposit for RetryV1), are not recorded executed, and whose store
   calls all succeeded - in block order (per destination domain for RetryV1). *)
Theorem C17_filter_exact : forall p src res dest ds x x' em,
  nodupk (map (dkey src) ds) = true ->
  step (Retry p src res dest ds) x = (x', ORetry em) ->
  em = regroup p (expected_retry p src res dest ds (s_kv (st x)) (s_failed (st x'))).
Proof. exact filter_exact. Qed.
Print Assumptions C17_filter_exact.

Theorem C17_filter_exact_nofault : forall p src res dest ds x x' em,
  nodupk (map (dkey src) ds) = true ->
  step (Retry p src res dest ds) x = (x', ORetry em) ->
  s_failed (st x') = [] ->
  em = regroup p (filter (fun d => sel_of p res dest d && negb (is_exec (get (s_kv (st x)) (dkey src d)))) ds).
Proof. exact filter_exact_nofault. Qed.
Print Assumptions C17_filter_exact_nofault.

Theorem C17_executed_not_reemitted : forall p src res dest ds x x' em d,
  nodupk (map (dkey src) ds) = true ->
  step (Retry p src res dest ds) x = (x', ORetry em) ->
  In d em -> is_exec (get (s_kv (st x)) (dkey src d)) = false /\ sel_of p res dest d = true /\ In d ds.
Proof. exact executed_not_reemitted. Qed.
Print Assumptions C17_executed_not_reemitted.

(* Every re-emitted deposit is left missing/failed, i.e. in a status from which the executor starts
   an execution; one that was stuck as pending is now failed ... *)
Theorem C17_pending_released : forall p src res dest ds x x' em d,
  nodupk (map (dkey src) ds) = true ->
  step (Retry p src res dest ds) x = (x', ORetry em) ->
  In d em ->
  startable (get (s_kv (st x')) (dkey src d)) = true /\
  (get (s_kv (st x)) (dkey src d) = Pending -> get (s_kv (st x')) (dkey src d) = Failed).
Proof. exact pending_released. Qed.
Print Assumptions C17_pending_released.

(* ... and delivering it (two store calls without error) selects it for execution. *)
Theorem C17_released_then_delivered : forall k (s : sto) bs,
  startable (get (s_kv s) k) = true -> hd false (s_faults s) = false -> hd false (tl (s_faults s)) = false ->
  snd (step (Deliver [k]) (mkState s false bs)) = ODeliver (Some [k]).
Proof. exact released_then_delivered. Qed.
Print Assumptions C17_released_then_delivered.

(* A deposit one of whose store calls (read or write) failed during the retry is withheld. *)
Theorem C17_store_error_withholds : forall p src res dest ds x x' em d,
  nodupk (map (dkey src) ds) = true ->
  step (Retry p src res dest ds) x = (x', ORetry em) ->
  In (dkey src d) (s_failed (st x')) -> ~ In d em.
Proof. exact store_error_withholds. Qed.
Print Assumptions C17_store_error_withholds.

(* Executed is final: for every list of retry / deliver / exec-ok / exec-fail operations (any
   blocks, any key lists, completions of any delivery in any order, even repeated), from every state
   (any store, any fault schedule, any mutex bit, any earlier deliveries). *)
Theorem C17_executed_absorbing : forall ops x k,
  is_exec (get (s_kv (st x)) k) = true -> is_exec (get (s_kv (st (final ops x))) k) = true.
Proof. exact executed_absorbing. Qed.
Print Assumptions C17_executed_absorbing.

Theorem C17_executed_absorbing_run : forall ops x k,
  is_exec (get (s_kv (st x)) k) = true ->
  Forall (fun ob : obs => is_exec (get (snd ob) k) = true) (run ops x).
Proof. exact executed_absorbing_run. Qed.
Print Assumptions C17_executed_absorbing_run.

(* The executor is never stuck: whatever fails, the mutex is free after every operation list and no
   call blocks. *)
Theorem C17_executor_never_stuck : forall ops x, locked x = false ->
  locked (final ops x) = false /\ Forall (fun ob : obs => fst (fst ob) <> OStuck) (run ops x).
Proof. exact executor_never_stuck. Qed.
Print Assumptions C17_executor_never_stuck.

(* The judge of the correspondence run accepts every run of the model (any key universe) ... *)
Theorem C17_hist_ok_model : forall univ ops x,
  locked x = false -> forallb wf_op ops = true -> hist_ok univ (s_kv (st x)) ops (run ops x) = true.
Proof. exact hist_ok_model. Qed.
Print Assumptions C17_hist_ok_model.

(* ... and whatever observed history it accepts has the stated properties. *)
Theorem C17_hist_ok_executed : forall univ ops pre obs_ k,
  hist_ok univ pre ops obs_ = true -> In k univ -> is_exec (get pre k) = true ->
  Forall (fun ob : obs => is_exec (get (snd ob) k) = true) obs_.
Proof. exact hist_ok_executed. Qed.
Print Assumptions C17_hist_ok_executed.

Theorem C17_hist_ok_not_stuck : forall univ ops pre obs_,
  hist_ok univ pre ops obs_ = true -> Forall (fun ob : obs => fst (fst ob) <> OStuck) obs_.
Proof. exact hist_ok_not_stuck. Qed.
Print Assumptions C17_hist_ok_not_stuck.

Theorem C17_judge_step_retry : forall univ pre p src res dest ds ou failed post,
  judge_step univ pre (Retry p src res dest ds) (ou, failed, post) = true ->
  exists em, ou = ORetry em /\ em = regroup p (expected_retry p src res dest ds pre failed) /\
             (forall d, In d em -> startable (get post (dkey src d)) = true).
Proof. exact judge_step_retry. Qed.
Print Assumptions C17_judge_step_retry.

(* The two isExecuted copies (relayer/retry and the EVM RetryV1 handler) are the same function. *)
Theorem C17_is_executed_copies_agree : is_executed_v1 = is_executed_retry.
Proof. exact is_executed_v1_eq. Qed.
Print Assumptions C17_is_executed_copies_agree.

(* The code as found: one read error in proposalsForExecution and the next delivery blocks forever;
   a failed second execution of a released proposal overwrites "executed" and the next retry
   re-emits the executed deposit. *)
Theorem C17_old_never_stuck_refuted :
  exists ob, nth_error (old_run w_stuck_ops (init_state [] [true])) 1 = Some ob /\ fst (fst ob) = OStuck.
Proof. exact old_never_stuck_refuted. Qed.
Print Assumptions C17_old_never_stuck_refuted.

Theorem C17_old_executed_absorbing_refuted :
  map (fun ob : obs => get (snd ob) w_k) (old_run w_over_ops (init_state [] []))
  = [Pending; Failed; Pending; Executed; Failed; Failed] /\
  exists ob, nth_error (old_run w_over_ops (init_state [] [])) 5 = Some ob /\ fst (fst ob) = ORetry [w_dep].
Proof. exact old_executed_absorbing_refuted. Qed.
Print Assumptions C17_old_executed_absorbing_refuted.

(* Non-vacuity: the same two histories on the repaired model - the second delivery returns, the
   executed status survives the failed second execution and the next retry re-emits nothing; and a
   block with executed / pending / failed / missing / foreign deposits and one write error. *)
Example C17_nonvacuous :
  map (fun ob : obs => fst (fst ob)) (run w_stuck_ops (init_state [] [true]))
  = [ODeliver None; ODeliver (Some [w_k])] /\
  map (fun ob : obs => (fst (fst ob), get (snd ob) w_k)) (run w_over_ops (init_state [] []))
  = [(ODeliver (Some [w_k]), Pending); (ORetry [w_dep], Failed); (ODeliver (Some [w_k]), Pending);
     (OExec, Executed); (OExec, Executed); (ORetry [], Executed)] /\
  run [Retry PEvm 1 7 2 [mkDep 2 1 7; mkDep 2 2 7; mkDep 2 3 7; mkDep 2 4 7; mkDep 3 5 7; mkDep 2 6 8; mkDep 2 9 7]]
      (init_state [((1, 2, 1), Executed); ((1, 2, 2), Pending); ((1, 2, 3), Failed); ((1, 2, 9), Pending)]
                  [false; false; false; false; false; false; true])
  = [(ORetry [mkDep 2 2 7; mkDep 2 3 7; mkDep 2 4 7], [(1, 2, 9)],
      [((1, 2, 2), Failed); ((1, 2, 1), Executed); ((1, 2, 2), Pending); ((1, 2, 3), Failed); ((1, 2, 9), Pending)])].
Proof. vm_compute. repeat split. Qed.
