(* Compact byte-string literals for the C06 case files (round 5).  A byte string is written as its
   length and a list of primitive 63-bit integers holding 7 bytes each (big-endian; the last one holds
   the remaining 1..7 bytes).  Elaborating the hex STRING literal of a deposit's calldata costs Coq
   8.16 about 50 us per character (a 150-case shard spent 11 of its 15 seconds there); a primitive
   integer is one node.  Only the generated cases_<k>.v files use this (no theorem does).  Decoding
   uses primitive shifts / masks and comparisons only. *)
From Coq Require Import List NArith Uint63.
From Coq.Strings Require Import Byte.
Import ListNotations.
From SygmaV Require Import Lib.C01_Bytes.

(* a 4-bit value as N, by comparisons (Uint63.to_Z walks all 63 bits) *)
Definition nibN (n : int) : N :=
  if (n <? 8)%uint63 then
    if (n <? 4)%uint63 then
      if (n <? 2)%uint63 then (if (n =? 0)%uint63 then 0 else 1)%N
      else (if (n =? 2)%uint63 then 2 else 3)%N
    else
      if (n <? 6)%uint63 then (if (n =? 4)%uint63 then 4 else 5)%N
      else (if (n =? 6)%uint63 then 6 else 7)%N
  else
    if (n <? 12)%uint63 then
      if (n <? 10)%uint63 then (if (n =? 8)%uint63 then 8 else 9)%N
      else (if (n =? 10)%uint63 then 10 else 11)%N
    else
      if (n <? 14)%uint63 then (if (n =? 12)%uint63 then 12 else 13)%N
      else (if (n =? 14)%uint63 then 14 else 15)%N.

Definition byte_at_ix (c : int) (ix : int) : byte :=
  n2b (nibN (Uint63.land (Uint63.lsr c (ix * 8 + 4)) 15) * 16 + nibN (Uint63.land (Uint63.lsr c (ix * 8)) 15))%N.

(* the k low bytes of c, most significant first, in front of acc *)
Fixpoint bytes_of_chunk (k : nat) (ix : int) (c : int) (acc : bytes) : bytes :=
  match k with
  | O => acc
  | S k' => bytes_of_chunk k' (ix + 1)%uint63 c (byte_at_ix c ix :: acc)
  end.

Fixpoint unpack (n : nat) (cs : list int) : bytes :=
  match cs with
  | [] => []
  | c :: r => let k := Nat.min 7 n in bytes_of_chunk k 0%uint63 c [] ++ unpack (n - k) r
  end.

(* a packed byte string *)
Inductive pk := PK (len : N) (cs : list int).

Definition unpk (p : pk) : bytes := match p with PK n cs => unpack (N.to_nat n) cs end.

Example unpack_ex : unpack 9 [0x01020304050607%uint63; 0xff09%uint63] = [x01; x02; x03; x04; x05; x06; x07; xff; x09].
Proof. vm_compute. reflexivity. Qed.
Example unpk_ex : unpk (PK 0 []) = [] /\ unpk (PK 3 [0xab00cd%uint63]) = [xab; x00; xcd]
  /\ unpk (PK 7 [0xfffefdfcfbfaf9%uint63]) = [xff; xfe; xfd; xfc; xfb; xfa; xf9].
Proof. vm_compute. repeat split. Qed.
