(* Generic helpers for the correspondence runs (cases_<k>.v files written by the Go runners).
   For every case the runner supplies the input and what the REAL implementation did; the Coq side
   computes
     agree : the executable model, run on the same input, produces the same observation
     judge : the specification predicate (the one the theorems are about) accepts the
             implementation's observation
   and reports, per failing case, (index, code): code 2 = judge rejects the implementation
   (a concrete violation), code 1 = model and implementation differ but the judge accepts
   (correspondence broken).  A histogram of model branch tags is returned as well so that the
   orchestrator can see which branches of the model the generated cases reached. *)
From Coq Require Import List NArith Bool.
Import ListNotations.
Local Open Scope N_scope.

Definition verdict (agree judge : bool) : N :=
  if negb judge then 2 else if negb agree then 1 else 0.

Fixpoint failures_from (i : N) (vs : list N) : list (N * N) :=
  match vs with
  | [] => []
  | v :: vs' => if N.eqb v 0 then failures_from (i + 1) vs' else (i, v) :: failures_from (i + 1) vs'
  end.

Fixpoint bump (t : N) (h : list (N * N)) : list (N * N) :=
  match h with
  | [] => [(t, 1)]
  | (t', n) :: h' => if N.eqb t t' then (t', n + 1) :: h' else (t', n) :: bump t h'
  end.

Definition histogram (tags : list N) : list (N * N) := fold_left (fun h t => bump t h) tags [].

Section Run.
  Context {C : Type}.
  Variables (agree judge : C -> bool) (tag : C -> N).
  Definition check_cases (cs : list C) : list (N * N) * list (N * N) :=
    (failures_from 0 (map (fun c => verdict (agree c) (judge c)) cs), histogram (map tag cs)).
End Run.
