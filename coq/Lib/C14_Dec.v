(* Decimal rendering of naturals as Go's fmt "%d" does it (no sign, no leading zeros, "0" for 0),
   with injectivity, and left-cancellation of string append.  Used for the session ids of C14. *)
From Coq Require Import NArith String DecimalString DecimalN List.
Import ListNotations.
Local Open Scope string_scope.

Definition dec (n : N) : string := NilEmpty.string_of_uint (N.to_uint n).

Lemma dec_inj n m : dec n = dec m -> n = m.
Proof.
  unfold dec; intros H.
  assert (Hu : N.to_uint n = N.to_uint m).
  { pose proof (NilEmpty.usu (N.to_uint n)) as A. pose proof (NilEmpty.usu (N.to_uint m)) as B.
    rewrite H in A. rewrite A in B. inversion B; reflexivity. }
  rewrite <- (DecimalN.Unsigned.of_to n), <- (DecimalN.Unsigned.of_to m), Hu. reflexivity.
Qed.

Lemma append_inj_l (a b c : string) : a ++ b = a ++ c -> b = c.
Proof. induction a as [|x a IH]; cbn; intros H; [exact H | inversion H; auto]. Qed.

Example dec_examples : dec 0 = "0" /\ dec 7 = "7" /\ dec 10 = "10" /\ dec 1203 = "1203".
Proof. vm_compute. repeat split. Qed.
