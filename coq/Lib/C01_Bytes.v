(* Byte strings with Go semantics, for the codec models (C01).
     bytes            list of Coq bytes (every element is < 256 by construction)
     slice a b s      Go's s[a:b] when cap(s) is unknown: SOk / SPanic / SUnspec (len < b: the bytes
                      between len and cap are unknown to the model, and b > cap would panic)
     be_to_N          big.Int.SetBytes            be_bytes    big.Int.Bytes (minimal, 0 -> empty)
     be_fixed k n     the k-byte big-endian form of n mod 256^k   (u256 = be_fixed 32)
     left_pad k l     common.LeftPadBytes: returns l UNCHANGED when k <= len l
     wrap64s          two's-complement reinterpretation of the low 64 bits (int64 arithmetic,
                      big.Int.Int64 on non-negative values)                                        *)
From Coq Require Import List NArith ZArith Bool Lia.
From Coq.Strings Require Import Byte.
Import ListNotations.

Definition bytes := list byte.

Definition b2n (b : byte) : N := Byte.to_N b.
Definition n2b (n : N) : byte :=
  match Byte.of_N (n mod 256) with Some b => b | None => x00 end.

Lemma b2n_lt : forall b, (b2n b < 256)%N.
Proof. intros b. unfold b2n. pose proof (Byte.to_N_bounded b). lia. Qed.

Lemma n2b_b2n : forall b, n2b (b2n b) = b.
Proof.
  intros b. unfold n2b, b2n. rewrite N.mod_small by (pose proof (Byte.to_N_bounded b); lia).
  now rewrite Byte.of_to_N.
Qed.

Lemma b2n_n2b : forall n, b2n (n2b n) = (n mod 256)%N.
Proof.
  intros n. unfold n2b, b2n.
  destruct (Byte.of_N (n mod 256)) as [b|] eqn:E.
  - now apply Byte.to_of_N.
  - apply Byte.of_N_None_iff in E. pose proof (N.mod_lt n 256). lia.
Qed.

Definition bytes_of_Ns (l : list N) : bytes := map n2b l.

(* ---- lengths as Z (Go's int) --------------------------------------------------------------------- *)
Definition len (s : bytes) : Z := Z.of_nat (length s).

(* skipn / firstn at an offset given as N.  Same value as skipn/firstn (N.to_nat off), but an offset
   beyond the end is answered without building the unary number (vm_compute evaluates both
   operands of && , so "guarded" uses are evaluated even when the guard fails). *)
Definition skipN (off : N) (s : bytes) : bytes :=
  if (N.of_nat (length s) <? off)%N then [] else skipn (N.to_nat off) s.
Definition firstN (off : N) (s : bytes) : bytes :=
  if (N.of_nat (length s) <? off)%N then s else firstn (N.to_nat off) s.

Lemma skipN_eq : forall off s, skipN off s = skipn (N.to_nat off) s.
Proof.
  intros off s. unfold skipN. destruct (N.of_nat (length s) <? off)%N eqn:E; [|reflexivity].
  apply N.ltb_lt in E. symmetry. apply skipn_all2. lia.
Qed.
Lemma firstN_eq : forall off s, firstN off s = firstn (N.to_nat off) s.
Proof.
  intros off s. unfold firstN. destruct (N.of_nat (length s) <? off)%N eqn:E; [|reflexivity].
  apply N.ltb_lt in E. symmetry. apply firstn_all2. lia.
Qed.

(* ---- slicing ------------------------------------------------------------------------------------------ *)
Inductive sres := SOk (l : bytes) | SPanic | SUnspec.

Definition slice (a b : Z) (s : bytes) : sres :=
  if ((a <? 0) || (b <? a))%Z then SPanic
  else if (len s <? b)%Z then SUnspec
  else SOk (firstn (Z.to_nat (b - a)) (skipn (Z.to_nat a) s)).

(* s[a:] : the upper bound is len(s), so a > len(s) is a certain panic *)
Definition slice_from (a : Z) (s : bytes) : sres :=
  if ((a <? 0) || (len s <? a))%Z then SPanic else SOk (skipn (Z.to_nat a) s).

(* ---- integers ------------------------------------------------------------------------------------------ *)
Definition be_to_N (l : bytes) : N := fold_left (fun a b => (a * 256 + b2n b)%N) l 0%N.

Fixpoint be_fixed (k : nat) (n : N) : bytes :=
  match k with
  | O => []
  | S k' => be_fixed k' (n / 256) ++ [n2b n]
  end.

Definition byte_len (n : N) : nat := N.to_nat ((N.size n + 7) / 8).

Definition be_bytes (n : N) : bytes := be_fixed (byte_len n) n.

Definition u256 (n : N) : bytes := be_fixed 32 n.

Definition left_pad (k : nat) (l : bytes) : bytes :=
  if (k <=? length l)%nat then l else repeat x00 (k - length l) ++ l.

Definition wrap64s (z : Z) : Z := ((z + 2 ^ 63) mod 2 ^ 64 - 2 ^ 63)%Z.
Definition int64_of_N (n : N) : Z := wrap64s (Z.of_N n).
Definition uint64_of_N (n : N) : N := (n mod 2 ^ 64)%N.

(* ---- lemmas ---------------------------------------------------------------------------------------------- *)

Lemma be_to_N_snoc : forall l b, be_to_N (l ++ [b]) = (be_to_N l * 256 + b2n b)%N.
Proof. intros. unfold be_to_N. now rewrite fold_left_app. Qed.

Lemma fold_be_shift : forall l a,
  fold_left (fun a b => (a * 256 + b2n b)%N) l a = (a * 256 ^ N.of_nat (length l) + be_to_N l)%N.
Proof.
  induction l as [|x r IH]; intros a.
  - cbn. lia.
  - unfold be_to_N. cbn [fold_left length]. rewrite IH, (IH (0 * 256 + b2n x)%N).
    rewrite Nat2N.inj_succ, N.pow_succ_r'. lia.
Qed.

Lemma be_to_N_app : forall a b, be_to_N (a ++ b) = (be_to_N a * 256 ^ N.of_nat (length b) + be_to_N b)%N.
Proof. intros. unfold be_to_N at 1. rewrite fold_left_app. apply fold_be_shift. Qed.

Lemma be_to_N_lt : forall l, (be_to_N l < 256 ^ N.of_nat (length l))%N.
Proof.
  intros l. induction l as [|b r IH] using rev_ind.
  - cbn. lia.
  - rewrite be_to_N_snoc, app_length. cbn [length]. rewrite Nat.add_1_r, Nat2N.inj_succ, N.pow_succ_r'.
    pose proof (b2n_lt b). lia.
Qed.

Lemma length_be_fixed : forall k n, length (be_fixed k n) = k.
Proof.
  induction k as [|k IH]; intros n; cbn [be_fixed]; [reflexivity|].
  rewrite app_length, IH. cbn. lia.
Qed.

Lemma be_to_N_be_fixed : forall k n, be_to_N (be_fixed k n) = (n mod 256 ^ N.of_nat k)%N.
Proof.
  induction k as [|k IH]; intros n.
  - cbn. now rewrite N.mod_1_r.
  - cbn [be_fixed]. rewrite be_to_N_snoc, IH, b2n_n2b, Nat2N.inj_succ, N.pow_succ_r'.
    set (m := (256 ^ N.of_nat k)%N). assert (m <> 0)%N by (apply N.pow_nonzero; lia).
    rewrite (N.mod_mul_r n 256 m) by lia. lia.
Qed.

Lemma be_fixed_be_to_N : forall l, be_fixed (length l) (be_to_N l) = l.
Proof.
  intros l. induction l as [|b r IH] using rev_ind; [reflexivity|].
  rewrite app_length. cbn [length]. rewrite Nat.add_1_r. cbn [be_fixed].
  rewrite be_to_N_snoc.
  replace ((be_to_N r * 256 + b2n b) / 256)%N with (be_to_N r).
  2:{ pose proof (b2n_lt b). symmetry. rewrite N.div_add_l by lia.
      rewrite N.div_small by lia. lia. }
  rewrite IH. f_equal. f_equal.
  unfold n2b. rewrite N.add_comm, N.mod_add by lia. rewrite N.mod_small by apply b2n_lt.
  unfold b2n. now rewrite Byte.of_to_N.
Qed.

Lemma be_fixed_zero : forall k, be_fixed k 0 = repeat x00 k.
Proof.
  induction k as [|k IH]; [reflexivity|].
  cbn [be_fixed]. change (0 / 256)%N with 0%N. rewrite IH.
  change [n2b 0] with (repeat x00 1). rewrite <- repeat_app. f_equal. lia.
Qed.

Lemma be_fixed_small : forall j d n, (n < 256 ^ N.of_nat j)%N ->
  be_fixed (d + j) n = repeat x00 d ++ be_fixed j n.
Proof.
  induction j as [|j IH]; intros d n Hn.
  - cbn in Hn. assert (n = 0%N) by lia. subst. rewrite Nat.add_0_r, be_fixed_zero. cbn. now rewrite app_nil_r.
  - rewrite Nat.add_succ_r. cbn [be_fixed].
    rewrite IH.
    + now rewrite app_assoc.
    + rewrite Nat2N.inj_succ, N.pow_succ_r' in Hn. apply N.div_lt_upper_bound; lia.
Qed.

Lemma byte_len_bound : forall n, (n < 256 ^ N.of_nat (byte_len n))%N.
Proof.
  intros n. unfold byte_len. rewrite N2Nat.id.
  pose proof (N.size_gt n) as H.
  eapply N.lt_le_trans; [exact H|].
  change 256%N with (2 ^ 8)%N. rewrite <- N.pow_mul_r.
  apply N.pow_le_mono_r; [lia|].
  pose proof (N.div_mod (N.size n + 7) 8). pose proof (N.mod_lt (N.size n + 7) 8). lia.
Qed.

Lemma byte_len_min : forall n k, (n < 256 ^ N.of_nat k)%N -> (byte_len n <= k)%nat.
Proof.
  intros n k H. unfold byte_len.
  destruct (N.eq_dec n 0) as [->|Hn]; [cbn; lia|].
  assert (Hs : (N.size n <= 8 * N.of_nat k)%N).
  { rewrite N.size_log2 by assumption.
    change 256%N with (2 ^ 8)%N in H. rewrite <- N.pow_mul_r in H.
    apply N.log2_lt_pow2 in H; lia. }
  assert ((N.size n + 7) / 8 <= N.of_nat k)%N.
  { apply N.lt_succ_r. apply N.div_lt_upper_bound; lia. }
  lia.
Qed.

Lemma be_to_N_be_bytes : forall n, be_to_N (be_bytes n) = n.
Proof.
  intros n. unfold be_bytes. rewrite be_to_N_be_fixed. apply N.mod_small, byte_len_bound.
Qed.

Lemma length_be_bytes_le : forall n k, (n < 256 ^ N.of_nat k)%N -> (length (be_bytes n) <= k)%nat.
Proof. intros. unfold be_bytes. rewrite length_be_fixed. now apply byte_len_min. Qed.

(* common.LeftPadBytes(x.Bytes(), k) is the fixed-width form whenever the value fits *)
Lemma left_pad_be_bytes : forall k n, (n < 256 ^ N.of_nat k)%N -> left_pad k (be_bytes n) = be_fixed k n.
Proof.
  intros k n H. unfold left_pad, be_bytes. rewrite length_be_fixed.
  pose proof (byte_len_min n k H) as Hle.
  destruct (k <=? byte_len n)%nat eqn:E.
  - apply Nat.leb_le in E. assert (byte_len n = k) as -> by lia. reflexivity.
  - replace k with ((k - byte_len n) + byte_len n)%nat at 2 by lia.
    now rewrite be_fixed_small by apply byte_len_bound.
Qed.

Lemma left_pad_id : forall k l, (k <= length l)%nat -> left_pad k l = l.
Proof. intros k l H. unfold left_pad. apply Nat.leb_le in H. now rewrite H. Qed.

Lemma length_left_pad : forall k l, length (left_pad k l) = Nat.max k (length l).
Proof.
  intros k l. unfold left_pad. destruct (k <=? length l)%nat eqn:E.
  - apply Nat.leb_le in E. lia.
  - apply Nat.leb_gt in E. rewrite app_length, repeat_length. lia.
Qed.

Lemma be_to_N_repeat0 : forall k l, be_to_N (repeat x00 k ++ l) = be_to_N l.
Proof.
  intros k l. rewrite be_to_N_app.
  assert (be_to_N (repeat x00 k) = 0%N) as ->; [|lia].
  induction k as [|k IH]; [reflexivity|].
  change (repeat x00 (S k)) with ([x00] ++ repeat x00 k). rewrite be_to_N_app, IH. cbn. lia.
Qed.

Lemma be_to_N_left_pad : forall k l, be_to_N (left_pad k l) = be_to_N l.
Proof. intros k l. unfold left_pad. destruct (k <=? length l)%nat; [reflexivity | apply be_to_N_repeat0]. Qed.

(* a fixed-width word read back and re-emitted through big.Int is the word itself *)
Lemma left_pad_be_bytes_word : forall w, left_pad (length w) (be_bytes (be_to_N w)) = w.
Proof. intros w. rewrite left_pad_be_bytes by apply be_to_N_lt. apply be_fixed_be_to_N. Qed.

Lemma u256_be_to_N : forall w, length w = 32%nat -> u256 (be_to_N w) = w.
Proof. intros w H. unfold u256. rewrite <- H. apply be_fixed_be_to_N. Qed.

(* ---- slices of concatenations -------------------------------------------------------------------------------- *)

Lemma len_app : forall a b, len (a ++ b) = (len a + len b)%Z.
Proof. intros. unfold len. rewrite app_length. lia. Qed.

Lemma len_nonneg : forall s, (0 <= len s)%Z.
Proof. intros. unfold len. lia. Qed.

Lemma slice_ok : forall a b s, (0 <= a <= b)%Z -> (b <= len s)%Z ->
  slice a b s = SOk (firstn (Z.to_nat (b - a)) (skipn (Z.to_nat a) s)).
Proof.
  intros a b s H1 H2. unfold slice.
  assert ((a <? 0) = false)%Z as -> by lia. assert ((b <? a) = false)%Z as -> by lia.
  assert ((len s <? b) = false)%Z as -> by lia. reflexivity.
Qed.

Lemma skipn_len_app : forall (p s : bytes) n, n = length p -> skipn n (p ++ s) = s.
Proof. intros p s n ->. rewrite skipn_app, skipn_all, Nat.sub_diag. reflexivity. Qed.

Lemma firstn_len_app : forall (p s : bytes) n, n = length p -> firstn n (p ++ s) = p.
Proof. intros p s n ->. rewrite firstn_app, firstn_all, Nat.sub_diag. cbn. apply app_nil_r. Qed.

(* the middle part of p ++ m ++ s *)
Lemma slice_mid : forall p m s a b, a = len p -> b = (len p + len m)%Z ->
  slice a b (p ++ m ++ s) = SOk m.
Proof.
  intros p m s a b -> ->. rewrite slice_ok.
  - f_equal. rewrite skipn_len_app by (unfold len; lia). apply firstn_len_app. unfold len. lia.
  - pose proof (len_nonneg p). pose proof (len_nonneg m). lia.
  - rewrite !len_app. pose proof (len_nonneg s). lia.
Qed.

Lemma slice_from_app : forall p s a, a = len p -> slice_from a (p ++ s) = SOk s.
Proof.
  intros p s a ->. unfold slice_from. rewrite len_app.
  pose proof (len_nonneg p). pose proof (len_nonneg s).
  assert ((len p <? 0) = false)%Z as -> by lia. assert ((len p + len s <? len p) = false)%Z as -> by lia.
  cbn. f_equal. apply skipn_len_app. unfold len. lia.
Qed.

Lemma wrap64s_small : forall z, (- 2 ^ 63 <= z < 2 ^ 63)%Z -> wrap64s z = z.
Proof. intros z H. unfold wrap64s. rewrite Z.mod_small; lia. Qed.
