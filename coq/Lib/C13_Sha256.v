(* SHA-256 (FIPS 180-4) on byte lists (bytes are N in [0,256)), executable under vm_compute.
   Used by the C13 model and judge to recompute the hash of a fetched ciphertext inside the kernel;
   the C13 theorems themselves are stated for an arbitrary hash function.  Validated against Go's
   crypto/sha256 on every C13 correspondence run (genuine refreshes are adopted only if both agree). *)
From Coq Require Import List NArith.
Import ListNotations.
Local Open Scope N_scope.

Definition mask32 : N := 4294967295.
(* reduction modulo 2^32 as a bit mask (much faster than N.modulo under vm_compute) *)
Definition add32 (a b : N) : N := N.land (a + b) mask32.
Definition rotr (n x : N) : N := N.lor (N.shiftr x n) (N.land (N.shiftl x (32 - n)) mask32).
Definition not32 (x : N) : N := N.lxor x mask32.

Definition ch (x y z : N) := N.lxor (N.land x y) (N.land (not32 x) z).
Definition maj (x y z : N) := N.lxor (N.lxor (N.land x y) (N.land x z)) (N.land y z).
Definition bsig0 x := N.lxor (N.lxor (rotr 2 x) (rotr 13 x)) (rotr 22 x).
Definition bsig1 x := N.lxor (N.lxor (rotr 6 x) (rotr 11 x)) (rotr 25 x).
Definition ssig0 x := N.lxor (N.lxor (rotr 7 x) (rotr 18 x)) (N.shiftr x 3).
Definition ssig1 x := N.lxor (N.lxor (rotr 17 x) (rotr 19 x)) (N.shiftr x 10).

Definition K : list N := [
 0x428a2f98; 0x71374491; 0xb5c0fbcf; 0xe9b5dba5; 0x3956c25b; 0x59f111f1; 0x923f82a4; 0xab1c5ed5;
 0xd807aa98; 0x12835b01; 0x243185be; 0x550c7dc3; 0x72be5d74; 0x80deb1fe; 0x9bdc06a7; 0xc19bf174;
 0xe49b69c1; 0xefbe4786; 0x0fc19dc6; 0x240ca1cc; 0x2de92c6f; 0x4a7484aa; 0x5cb0a9dc; 0x76f988da;
 0x983e5152; 0xa831c66d; 0xb00327c8; 0xbf597fc7; 0xc6e00bf3; 0xd5a79147; 0x06ca6351; 0x14292967;
 0x27b70a85; 0x2e1b2138; 0x4d2c6dfc; 0x53380d13; 0x650a7354; 0x766a0abb; 0x81c2c92e; 0x92722c85;
 0xa2bfe8a1; 0xa81a664b; 0xc24b8b70; 0xc76c51a3; 0xd192e819; 0xd6990624; 0xf40e3585; 0x106aa070;
 0x19a4c116; 0x1e376c08; 0x2748774c; 0x34b0bcb5; 0x391c0cb3; 0x4ed8aa4a; 0x5b9cca4f; 0x682e6ff3;
 0x748f82ee; 0x78a5636f; 0x84c87814; 0x8cc70208; 0x90befffa; 0xa4506ceb; 0xbef9a3f7; 0xc67178f2].

Definition H0 : list N :=
 [0x6a09e667; 0xbb67ae85; 0x3c6ef372; 0xa54ff53a; 0x510e527f; 0x9b05688c; 0x1f83d9ab; 0x5be0cd19].

(* big-endian words of a 64-byte block *)
Fixpoint words (b : list N) : list N :=
  match b with
  | a :: b1 :: c :: d :: r => (((a * 256 + b1) * 256 + c) * 256 + d) :: words r
  | _ => []
  end.

(* message schedule, most recent word first *)
Fixpoint extend (n : nat) (wrev : list N) : list N :=
  match n with
  | O => wrev
  | S n' =>
      let w := add32 (add32 (ssig1 (nth 1 wrev 0)) (nth 6 wrev 0))
                     (add32 (ssig0 (nth 14 wrev 0)) (nth 15 wrev 0)) in
      extend n' (w :: wrev)
  end.

Definition schedule (block : list N) : list N := rev (extend 48 (rev (words block))).

Definition round (s : list N) (kw : N * N) : list N :=
  match s with
  | [a; b; c; d; e; f; g; h] =>
      let t1 := add32 (add32 (add32 h (bsig1 e)) (add32 (ch e f g) (fst kw))) (snd kw) in
      let t2 := add32 (bsig0 a) (maj a b c) in
      [add32 t1 t2; a; b; c; add32 d t1; e; f; g]
  | _ => s
  end.

Fixpoint add_all (a b : list N) : list N :=
  match a, b with
  | x :: a', y :: b' => add32 x y :: add_all a' b'
  | _, _ => []
  end.

Definition compress (h : list N) (block : list N) : list N :=
  add_all h (fold_left round (combine K (schedule block)) h).

Fixpoint be_bytes (n : nat) (x : N) : list N :=
  match n with
  | O => []
  | S n' => be_bytes n' (x / 256) ++ [x mod 256]
  end.

Definition pad (msg : list N) : list N :=
  let l := N.of_nat (length msg) in
  let zeros := N.to_nat ((119 - (l mod 64)) mod 64) in
  msg ++ [128] ++ repeat 0 zeros ++ be_bytes 8 (l * 8).

Fixpoint blocks (fuel : nat) (b : list N) : list (list N) :=
  match fuel with
  | O => []
  | S f => match b with
           | [] => []
           | _ => firstn 64 b :: blocks f (skipn 64 b)
           end
  end.

Definition sha256 (msg : list N) : list N :=
  let p := pad msg in
  flat_map (be_bytes 4) (fold_left compress (blocks (S (Nat.div (length p) 64)) p) H0).
