(* Compact byte-string literals for the C16 case files: a byte string is written as its length and a
   list of primitive 63-bit integers holding 7 bytes each (big-endian; the last one holds the
   remaining 1..7 bytes).  Parsing a 64-character string literal costs ~4 ms in Coq 8.16, a
   primitive integer ~40 us; only the generated cases_<k>.v files use this (no theorem does).
   Decoding uses primitive shifts / masks only (round 4: sets of thousands of UTXOs). *)
From Coq Require Import List ZArith NArith Uint63.
Import ListNotations.

(* a 4-bit value as N, by comparisons (Uint63.to_Z walks all 63 bits) *)
Definition nibN (n : int) : N :=
  if (n <? 8)%uint63 then
    if (n <? 4)%uint63 then
      if (n <? 2)%uint63 then (if (n =? 0)%uint63 then 0 else 1)%N
      else (if (n =? 2)%uint63 then 2 else 3)%N
    else
      if (n <? 6)%uint63 then (if (n =? 4)%uint63 then 4 else 5)%N
      else (if (n =? 6)%uint63 then 6 else 7)%N
  else
    if (n <? 12)%uint63 then
      if (n <? 10)%uint63 then (if (n =? 8)%uint63 then 8 else 9)%N
      else (if (n =? 10)%uint63 then 10 else 11)%N
    else
      if (n <? 14)%uint63 then (if (n =? 12)%uint63 then 12 else 13)%N
      else (if (n =? 14)%uint63 then 14 else 15)%N.

Definition hi_nib (c : int) (byte_ix : int) : N := nibN (Uint63.land (Uint63.lsr c (byte_ix * 8 + 4)) 15).
Definition lo_nib (c : int) (byte_ix : int) : N := nibN (Uint63.land (Uint63.lsr c (byte_ix * 8)) 15).

(* the k low bytes of c, most significant first, in front of acc *)
Fixpoint bytes_of_chunk (k : nat) (ix : int) (c : int) (acc : list N) : list N :=
  match k with
  | O => acc
  | S k' => bytes_of_chunk k' (ix + 1)%uint63 c ((hi_nib c ix * 16 + lo_nib c ix)%N :: acc)
  end.

Fixpoint unpack (n : nat) (cs : list int) : list N :=
  match cs with
  | [] => []
  | c :: r => let k := Nat.min 7 n in bytes_of_chunk k 0%uint63 c [] ++ unpack (n - k) r
  end.

(* lower-case hex digits (ASCII codes) of a byte string *)
Definition hexdigit_code (n : N) : N := if (n <? 10)%N then (48 + n)%N else (87 + n)%N.
Fixpoint hex_codes (l : list N) : list N :=
  match l with
  | [] => []
  | b :: r => hexdigit_code (b / 16)%N :: hexdigit_code (b mod 16)%N :: hex_codes r
  end.

(* the 2k hex digits of the k low bytes of c, most significant first, in front of acc *)
Fixpoint hex_of_chunk (k : nat) (ix : int) (c : int) (acc : list N) : list N :=
  match k with
  | O => acc
  | S k' => hex_of_chunk k' (ix + 1)%uint63 c
              (hexdigit_code (hi_nib c ix) :: hexdigit_code (lo_nib c ix) :: acc)
  end.

Fixpoint hexid_go (n : nat) (cs : list int) : list N :=
  match cs with
  | [] => []
  | c :: r => let k := Nat.min 7 n in hex_of_chunk k 0%uint63 c [] ++ hexid_go (n - k) r
  end.

(* a canonical transaction id: 64 lower-case hex digits, given by its 32 bytes *)
Definition hexid (cs : list int) : list N := hexid_go 32 cs.

Example unpack_ex : unpack 9 [0x01020304050607%uint63; 0x0809%uint63] = [1;2;3;4;5;6;7;8;9]%N.
Proof. vm_compute. reflexivity. Qed.
Example hexid_ex : hex_codes [171; 5]%N = [97; 98; 48; 53]%N.
Proof. vm_compute. reflexivity. Qed.
Example hexid_ex2 : hexid [0xab05ff00102030%uint63; 0x0809%uint63] = hex_codes (unpack 32 [0xab05ff00102030%uint63; 0x0809%uint63]).
Proof. vm_compute. reflexivity. Qed.
Example hexid_ex3 : hexid_go 9 [0x01020304050607%uint63; 0xa8f9%uint63]
  = [48;49;48;50;48;51;48;52;48;53;48;54;48;55;97;56;102;57]%N.
Proof. vm_compute. reflexivity. Qed.
