(* Compact byte-string literals for the C16 case files: a byte string is written as its length and a
   list of primitive 63-bit integers holding 7 bytes each (big-endian; the last one holds the
   remaining 1..7 bytes).  Parsing a 64-character string literal costs ~4 ms in Coq 8.16, a
   primitive integer ~40 us; only the generated cases_<k>.v files use this (no theorem does). *)
From Coq Require Import List ZArith NArith Uint63.
Import ListNotations.

Fixpoint bytes_be (k : nat) (z : Z) (acc : list N) : list N :=
  match k with
  | O => acc
  | S k' => bytes_be k' (z / 256)%Z (Z.to_N (z mod 256)%Z :: acc)
  end.

Fixpoint unpack (n : nat) (cs : list int) : list N :=
  match cs with
  | [] => []
  | c :: r => let k := Nat.min 7 n in bytes_be k (Uint63.to_Z c) [] ++ unpack (n - k) r
  end.

(* lower-case hex digits (ASCII codes) of a byte string *)
Definition hexdigit_code (n : N) : N := if (n <? 10)%N then (48 + n)%N else (87 + n)%N.
Fixpoint hex_codes (l : list N) : list N :=
  match l with
  | [] => []
  | b :: r => hexdigit_code (b / 16)%N :: hexdigit_code (b mod 16)%N :: hex_codes r
  end.

(* a canonical transaction id: 64 lower-case hex digits, given by its 32 bytes *)
Definition hexid (cs : list int) : list N := hex_codes (unpack 32 cs).

Example unpack_ex : unpack 9 [0x01020304050607%uint63; 0x0809%uint63] = [1;2;3;4;5;6;7;8;9]%N.
Proof. vm_compute. reflexivity. Qed.
Example hexid_ex : hex_codes [171; 5]%N = [97; 98; 48; 53]%N.
Proof. vm_compute. reflexivity. Qed.
