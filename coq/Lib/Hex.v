(* Hex literals <-> byte lists (bytes are N in [0,256)).  Total: a bad digit decodes as 0 and an odd
   trailing digit is dropped; the Go runners only ever emit well-formed lower-case literals. *)
From Coq Require Import List NArith String Ascii Bool.
Import ListNotations.
Local Open Scope N_scope.
Local Open Scope bool_scope.

Definition hexval (c : ascii) : N :=
  let n := N_of_ascii c in
  if (48 <=? n) && (n <=? 57) then n - 48
  else if (97 <=? n) && (n <=? 102) then n - 87
  else if (65 <=? n) && (n <=? 70) then n - 55
  else 0.

Fixpoint unhex (s : string) : list N :=
  match s with
  | String a (String b r) => (hexval a * 16 + hexval b) :: unhex r
  | _ => []
  end.

Definition hexdigit (n : N) : ascii :=
  if n <? 10 then ascii_of_N (48 + n) else ascii_of_N (87 + n).

Fixpoint tohex (l : list N) : string :=
  match l with
  | [] => EmptyString
  | b :: r => String (hexdigit (b / 16)) (String (hexdigit (b mod 16)) (tohex r))
  end.

Fixpoint bytes_of_string (s : string) : list N :=
  match s with
  | EmptyString => []
  | String a r => N_of_ascii a :: bytes_of_string r
  end.

Fixpoint string_of_bytes (l : list N) : string :=
  match l with
  | [] => EmptyString
  | b :: r => String (ascii_of_N b) (string_of_bytes r)
  end.
