(* Executable SHA-256 (FIPS 180-4) over byte lists; bytes and 32-bit words are N, every word
   operation reduces mod 2^32 explicitly.  Used by Model/C15.v for the deposit nonce; validated
   against Go's crypto/sha256 by the C15 correspondence run (and by the two test vectors below). *)
From Coq Require Import List NArith Bool.
Import ListNotations.
Local Open Scope N_scope.

Definition M32 : N := 4294967296.
Definition mask32 : N := 4294967295.
(* [N.land _ mask32] is [_ mod 2^32] (N.land_ones), computed without a division *)
Definition add32 (a b : N) : N := N.land (a + b) mask32.
Definition rotr (n x : N) : N := N.lor (N.shiftr x n) (N.land (N.shiftl x (32 - n)) mask32).
Definition not32 (x : N) : N := N.lxor x mask32.
Definition ch (x y z : N) : N := N.lxor (N.land x y) (N.land (not32 x) z).
Definition maj (x y z : N) : N := N.lxor (N.lxor (N.land x y) (N.land x z)) (N.land y z).
Definition bsig0 x := N.lxor (N.lxor (rotr 2 x) (rotr 13 x)) (rotr 22 x).
Definition bsig1 x := N.lxor (N.lxor (rotr 6 x) (rotr 11 x)) (rotr 25 x).
Definition ssig0 x := N.lxor (N.lxor (rotr 7 x) (rotr 18 x)) (N.shiftr x 3).
Definition ssig1 x := N.lxor (N.lxor (rotr 17 x) (rotr 19 x)) (N.shiftr x 10).

Definition K256 : list N := [
  0x428a2f98; 0x71374491; 0xb5c0fbcf; 0xe9b5dba5; 0x3956c25b; 0x59f111f1; 0x923f82a4; 0xab1c5ed5;
  0xd807aa98; 0x12835b01; 0x243185be; 0x550c7dc3; 0x72be5d74; 0x80deb1fe; 0x9bdc06a7; 0xc19bf174;
  0xe49b69c1; 0xefbe4786; 0x0fc19dc6; 0x240ca1cc; 0x2de92c6f; 0x4a7484aa; 0x5cb0a9dc; 0x76f988da;
  0x983e5152; 0xa831c66d; 0xb00327c8; 0xbf597fc7; 0xc6e00bf3; 0xd5a79147; 0x06ca6351; 0x14292967;
  0x27b70a85; 0x2e1b2138; 0x4d2c6dfc; 0x53380d13; 0x650a7354; 0x766a0abb; 0x81c2c92e; 0x92722c85;
  0xa2bfe8a1; 0xa81a664b; 0xc24b8b70; 0xc76c51a3; 0xd192e819; 0xd6990624; 0xf40e3585; 0x106aa070;
  0x19a4c116; 0x1e376c08; 0x2748774c; 0x34b0bcb5; 0x391c0cb3; 0x4ed8aa4a; 0x5b9cca4f; 0x682e6ff3;
  0x748f82ee; 0x78a5636f; 0x84c87814; 0x8cc70208; 0x90befffa; 0xa4506ceb; 0xbef9a3f7; 0xc67178f2].

Definition H0 : list N :=
  [0x6a09e667; 0xbb67ae85; 0x3c6ef372; 0xa54ff53a; 0x510e527f; 0x9b05688c; 0x1f83d9ab; 0x5be0cd19].

(* big-endian *)
Definition be_to_N (l : list N) : N :=
  fold_left (fun acc b => acc * 256 + b) l 0.

Fixpoint words_of (l : list N) : list N :=
  match l with
  | a :: b :: c :: d :: r => (((a * 256 + b) * 256 + c) * 256 + d) :: words_of r
  | _ => []
  end.

Definition be_bytes4 (w : N) : list N :=
  [N.land (N.shiftr w 24) 255; N.land (N.shiftr w 16) 255; N.land (N.shiftr w 8) 255; N.land w 255].

Definition be_bytes8 (w : N) : list N :=
  be_bytes4 (N.land (N.shiftr w 32) mask32) ++ be_bytes4 (N.land w mask32).

(* message schedule: [ws] holds W[t-1], W[t-2], ... (newest first) *)
Fixpoint schedule (n : nat) (ws : list N) : list N :=
  match n with
  | O => ws
  | S n' =>
      let w := add32 (add32 (ssig1 (nth 1 ws 0)) (nth 6 ws 0)) (add32 (ssig0 (nth 14 ws 0)) (nth 15 ws 0)) in
      schedule n' (w :: ws)
  end.

Definition round (st : list N) (kw : N * N) : list N :=
  match st with
  | [a; b; c; d; e; f; g; h] =>
      let t1 := add32 (add32 (add32 h (bsig1 e)) (add32 (ch e f g) (fst kw))) (snd kw) in
      let t2 := add32 (bsig0 a) (maj a b c) in
      [add32 t1 t2; a; b; c; add32 d t1; e; f; g]
  | _ => st
  end.

Definition compress (h : list N) (block : list N) : list N :=
  let w := rev (schedule 48 (rev (words_of block))) in
  let st := fold_left round (combine K256 w) h in
  map (fun p => add32 (fst p) (snd p)) (combine h st).

Definition pad (msg : list N) : list N :=
  let len := N.of_nat (length msg) in
  let z := (64 - ((len + 9) mod 64)) mod 64 in
  msg ++ [128] ++ repeat 0 (N.to_nat z) ++ be_bytes8 (len * 8).

Fixpoint blocks (fuel : nat) (h : list N) (l : list N) : list N :=
  match fuel with
  | O => h
  | S f =>
      match l with
      | [] => h
      | _ => blocks f (compress h (firstn 64 l)) (skipn 64 l)
      end
  end.

Definition sha256 (msg : list N) : list N :=
  let p := pad msg in
  flat_map be_bytes4 (blocks (length p) H0 p).

Example sha256_empty :
  sha256 [] = [0xe3;0xb0;0xc4;0x42;0x98;0xfc;0x1c;0x14;0x9a;0xfb;0xf4;0xc8;0x99;0x6f;0xb9;0x24;
               0x27;0xae;0x41;0xe4;0x64;0x9b;0x93;0x4c;0xa4;0x95;0x99;0x1b;0x78;0x52;0xb8;0x55].
Proof. vm_compute. reflexivity. Qed.

Example sha256_abc :
  sha256 [97; 98; 99] =
    [0xba;0x78;0x16;0xbf;0x8f;0x01;0xcf;0xea;0x41;0x41;0x40;0xde;0x5d;0xae;0x22;0x23;
     0xb0;0x03;0x61;0xa3;0x96;0x17;0x7a;0x9c;0xb4;0x10;0xff;0x61;0xf2;0x00;0x15;0xad].
Proof. vm_compute. reflexivity. Qed.
