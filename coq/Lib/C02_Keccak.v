(* Executable Keccak-256 (the original Keccak padding 0x01 .. 0x80, as used by Ethereum) over
   byte lists.  Bytes and 64-bit lanes are N; every lane operation reduces mod 2^64 explicitly
   ([N.land _ mask64] is [_ mod 2^64], N.land_ones).  The state is the list of the 25 lanes,
   lane (x, y) at index x + 5 y.
   Validated against go-ethereum's crypto.Keccak256 by the C02 correspondence run (lengths 0..300
   around the 136-byte rate boundary) and by the test vectors at the end of this file.
   The theorems of C02 never unfold these definitions: they hold for an arbitrary hash function
   with 32-byte output; [keccak256_length] discharges that hypothesis for this one. *)
From Coq Require Import List NArith Bool Lia.
Import ListNotations.
Local Open Scope N_scope.

Definition mask64 : N := 18446744073709551615.
Definition rotl64 (x n : N) : N :=
  if N.eqb n 0 then x else N.lor (N.land (N.shiftl x n) mask64) (N.shiftr x (64 - n)).
Definition not64 (x : N) : N := N.lxor x mask64.

Definition RC : list N := [
  0x0000000000000001; 0x0000000000008082; 0x800000000000808A; 0x8000000080008000;
  0x000000000000808B; 0x0000000080000001; 0x8000000080008081; 0x8000000000008009;
  0x000000000000008A; 0x0000000000000088; 0x0000000080008009; 0x000000008000000A;
  0x000000008000808B; 0x800000000000008B; 0x8000000000008089; 0x8000000000008003;
  0x8000000000008002; 0x8000000000000080; 0x000000000000800A; 0x800000008000000A;
  0x8000000080008081; 0x8000000000008080; 0x0000000080000001; 0x8000000080008008].

(* rotation offsets r[x + 5 y] *)
Definition ROT : list N := [
   0;  1; 62; 28; 27;
  36; 44;  6; 55; 20;
   3; 10; 43; 25; 39;
  41; 45; 15; 21;  8;
  18;  2; 61; 56; 14].

Definition idx : list nat := seq 0 25.
Definition lane (a : list N) (i : nat) : N := nth i a 0.

(* index arithmetic on nat *)
Definition m5 (i : nat) : nat := Nat.modulo i 5.
Definition plus (i j : nat) : nat := Nat.add i j.

(* theta *)
Definition theta (a : list N) : list N :=
  let c := map (fun x : nat =>
                  N.lxor (N.lxor (N.lxor (lane a x) (lane a (plus x 5)))
                                 (N.lxor (lane a (plus x 10)) (lane a (plus x 15))))
                         (lane a (plus x 20))) (seq 0 5) in
  let d := map (fun x : nat => N.lxor (lane c (m5 (plus x 4))) (rotl64 (lane c (m5 (plus x 1))) 1))
               (seq 0 5) in
  map (fun i : nat => N.lxor (lane a i) (lane d (m5 i))) idx.

(* rho and pi: B[X + 5 Y] = rot (A[x + 5 y], r[x + 5 y]) with x = (X + 3 Y) mod 5, y = X *)
Definition rho_pi_src : list nat :=
  map (fun i : nat => let X := m5 i in let Y := Nat.div i 5 in
                      plus (m5 (plus X (Nat.mul 3 Y))) (Nat.mul 5 X)) idx.
Definition rho_pi (a : list N) : list N :=
  map (fun s : nat => rotl64 (lane a s) (nth s ROT 0)) rho_pi_src.

(* chi *)
Definition chi (b : list N) : list N :=
  map (fun i : nat => let x := m5 i in let y5 := Nat.sub i x in
                N.lxor (lane b i) (N.land (not64 (lane b (plus y5 (m5 (plus x 1)))))
                                          (lane b (plus y5 (m5 (plus x 2)))))) idx.

Definition iota (rc : N) (a : list N) : list N :=
  match a with
  | a0 :: r => N.lxor a0 rc :: r
  | [] => []
  end.

Definition keccak_round (a : list N) (rc : N) : list N := iota rc (chi (rho_pi (theta a))).
Definition keccak_f (a : list N) : list N := fold_left keccak_round RC a.

(* little-endian lanes *)
Fixpoint le_to_N (l : list N) : N :=
  match l with
  | [] => 0
  | b :: r => b + 256 * le_to_N r
  end.
Fixpoint lanes_of (n : nat) (l : list N) : list N :=
  match n with
  | O => []
  | S n' => le_to_N (firstn 8 l) :: lanes_of n' (skipn 8 l)
  end.
Definition le_bytes8 (w : N) : list N :=
  map (fun k : nat => N.land (N.shiftr w (8 * N.of_nat k)) 255) (seq 0 8).

Definition rate : nat := 136.

Fixpoint xor_lanes (a b : list N) : list N :=
  match a, b with
  | x :: a', y :: b' => N.lxor x y :: xor_lanes a' b'
  | _, [] => a
  | [], _ => []
  end.

Definition pad (msg : list N) : list N :=
  let r := Nat.sub rate (Nat.modulo (length msg) rate) in (* 1 .. rate bytes of padding *)
  if Nat.eqb r 1 then msg ++ [129]
  else msg ++ [1] ++ repeat 0 (Nat.sub r 2) ++ [128].

Fixpoint absorb (fuel : nat) (st : list N) (l : list N) : list N :=
  match fuel with
  | O => st
  | S f =>
      match l with
      | [] => st
      | _ => absorb f (keccak_f (xor_lanes st (lanes_of 17 (firstn rate l)))) (skipn rate l)
      end
  end.

Definition keccak256_raw (msg : list N) : list N :=
  let p := pad msg in
  let st := absorb (length p) (repeat 0 25) p in
  flat_map le_bytes8 (firstn 4 st).

(* exactly 32 bytes whatever the input ([fit32] is the identity on 32-byte lists) *)
Definition fit32 (l : list N) : list N := firstn 32 (l ++ repeat 0 32).
Definition keccak256 (msg : list N) : list N := fit32 (keccak256_raw msg).

Lemma keccak256_length : forall m, length (keccak256 m) = 32%nat.
Proof.
  intros m. unfold keccak256, fit32. rewrite firstn_length, app_length, repeat_length. lia.
Qed.


Example keccak256_empty :
  keccak256_raw [] =
    [0xc5;0xd2;0x46;0x01;0x86;0xf7;0x23;0x3c;0x92;0x7e;0x7d;0xb2;0xdc;0xc7;0x03;0xc0;
     0xe5;0x00;0xb6;0x53;0xca;0x82;0x27;0x3b;0x7b;0xfa;0xd8;0x04;0x5d;0x85;0xa4;0x70].
Proof. vm_compute. reflexivity. Qed.

(* "abc" *)
Example keccak256_abc :
  keccak256 [97; 98; 99] =
    [0x4e;0x03;0x65;0x7a;0xea;0x45;0xa9;0x4f;0xc7;0xd4;0x7b;0xa8;0x26;0xc8;0xd6;0x67;
     0xc0;0xd1;0xe6;0xe3;0x3a;0x64;0xa0;0x36;0xec;0x44;0xf5;0x8f;0xa1;0x2d;0x6c;0x45].
Proof. vm_compute. reflexivity. Qed.
