(* C05 - the arguments app.Run hands to blockstore.GetStartBlock (Model/C05.v start_call): a call that
   tells GetStartBlock the truth leaves the configuration as it is, so the theorems about [run w c]
   are theorems about the relayer as app.go wires it; a call with the two flags exchanged is refuted. *)
From Coq Require Import List ZArith NArith Bool.
Import ListNotations.
From SygmaV Require Import Model.C05 Proofs.C05.
Local Open Scope Z_scope.

Lemma start_call_canonical sc c : start_call_ok sc = true -> sc_cfg sc c = c.
Proof.
  intro Hok. unfold start_call_ok in Hok.
  apply andb_true_iff in Hok. destruct Hok as [Hok Hff].
  apply andb_true_iff in Hok. destruct Hok as [Hok _].
  apply andb_true_iff in Hok. destruct Hok as [Hb _].
  destruct c as [k i cf n cs l f]. destruct sc as [b el ef].
  cbn [sc_block] in Hb. destruct b; try discriminate Hb.
  unfold flags_faithful in Hff. cbn [forallb fst snd sc_latest sc_fresh] in Hff.
  repeat rewrite andb_true_iff in Hff.
  destruct Hff as [[Hff1 Hff2] [[Hff3 Hff4] [[Hff5 Hff6] [[Hff7 Hff8] _]]]].
  apply eqb_prop in Hff1, Hff2, Hff3, Hff4, Hff5, Hff6, Hff7, Hff8.
  unfold sc_cfg. cbn [kd ival conf nh cstart latest fresh sc_block sc_latest sc_fresh block_val].
  destruct l, f; congruence.
Qed.

Lemma canonical_start_ok : start_call_ok canonical_start = true.
Proof. vm_compute. reflexivity. Qed.

Lemma wired_trace_ok w sc c stored0 evs :
  wiring_ok w = true -> start_call_ok sc = true -> wf_cfg c = true -> latest c = false ->
  trace_ok c stored0 (run w (sc_cfg sc c) stored0 evs) = true.
Proof.
  intros Hw Hsc Hwf Hl. rewrite (start_call_canonical sc c Hsc). apply model_trace_ok; assumption.
Qed.

Lemma wired_trace_ok_all w sc c stored0 evs :
  start_call_ok sc = true -> wf_cfg c = true -> (wiring_ok w = true \/ latest c = true) ->
  trace_ok c stored0 (run w (sc_cfg sc c) stored0 evs) = true.
Proof.
  intros Hsc Hwf H. rewrite (start_call_canonical sc c Hsc). apply model_trace_ok_all; assumption.
Qed.

(* GetStartBlock(id, config.StartBlock, FRESH, LATEST): a fresh start is taken for `latest` *)
Definition swapped_start : start_call :=
  {| sc_block := BConfigured; sc_latest := FFresh; sc_fresh := FLatest |}.

Definition good_btc_wiring : wiring :=
  {| reads_store := true; head_if_nil := false; align_arg := AlignNone; aligns_known := false; aligns_head := false;
     chain_arg := ChainStart; steps_by_interval := true |}.

Definition fresh_cfg : cfg :=
  {| kd := Btc; ival := 1; conf := 1; nh := 1; cstart := 100; latest := false; fresh := true |}.

Lemma swapped_start_refuted :
  exists c stored0 evs, wiring_ok good_btc_wiring = true /\ wf_cfg c = true /\ latest c = false /\
    trace_ok c stored0 (run good_btc_wiring (sc_cfg swapped_start c) stored0 evs) = false.
Proof.
  exists fresh_cfg, None, [Head 120; Head 121; Handler true]. vm_compute. repeat split.
Qed.
