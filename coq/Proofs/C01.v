(* C01 proofs. *)
From Coq Require Import List NArith ZArith Bool Lia.
From Coq.Strings Require Import Byte.
Import ListNotations.
From SygmaV Require Import Lib.C01_Bytes Model.C01.

(* ---- small facts ----------------------------------------------------------------------------------------------- *)

Lemma bytes_eqb_refl : forall a, bytes_eqb a a = true.
Proof.
  induction a as [|x r IH]; [reflexivity|]. cbn [bytes_eqb]. rewrite IH, andb_true_r.
  apply Byte.byte_dec_lb. reflexivity.
Qed.

Lemma bytes_eqb_eq : forall a b, bytes_eqb a b = true <-> a = b.
Proof.
  split.
  - revert b. induction a as [|x r IH]; intros [|y s] H; try reflexivity; try discriminate.
    cbn [bytes_eqb] in H. apply andb_true_iff in H. destruct H as [H1 H2].
    apply Byte.byte_dec_bl in H1. subst. f_equal. auto.
  - intros ->. apply bytes_eqb_refl.
Qed.

Lemma sl_parts : forall P M S a b, a = len P -> b = (len P + len M)%Z -> sl a b (P ++ M ++ S) = Ok M.
Proof. intros. unfold sl. now rewrite (slice_mid P M S a b). Qed.

Lemma sl_head : forall M S b, b = len M -> sl 0 b (M ++ S) = Ok M.
Proof. intros M S b ->. apply (sl_parts [] M S); reflexivity. Qed.

Lemma sl_from_parts : forall P S a, a = len P -> sl_from a (P ++ S) = Ok S.
Proof. intros. unfold sl_from. now rewrite (slice_from_app P S a). Qed.

Lemma len_length : forall s n, length s = n -> len s = Z.of_nat n.
Proof. intros s n <-. reflexivity. Qed.

Lemma len_32 : forall s, length s = 32%nat -> len s = 32%Z.
Proof. intros s H. unfold len. rewrite H. reflexivity. Qed.

Lemma int64_small : forall n, (n < 2 ^ 62)%N -> int64_of_N n = Z.of_N n.
Proof. intros n H. unfold int64_of_N. apply wrap64s_small. lia. Qed.

Lemma len_word_of : forall W R, be_to_N W = N.of_nat (length R) -> length W = 32%nat -> len_word R = W.
Proof.
  intros W R H HW. unfold len_word. rewrite <- H. rewrite <- HW at 1. apply left_pad_be_bytes_word.
Qed.

Lemma skipN_app_len : forall P S off, off = N.of_nat (length P) -> skipN off (P ++ S) = S.
Proof. intros P S off ->. rewrite skipN_eq, Nat2N.id. now apply skipn_len_app. Qed.

Lemma firstN_app_len : forall P S off, off = N.of_nat (length P) -> firstN off (P ++ S) = P.
Proof. intros P S off ->. rewrite firstN_eq, Nat2N.id. now apply firstn_len_app. Qed.

(* splitting a byte string at a position inside it *)
Lemma split_at : forall (s : bytes) n, (n <= length s)%nat ->
  exists a b, s = a ++ b /\ length a = n.
Proof.
  intros s n H. exists (firstn n s), (skipn n s). split.
  - symmetry. apply firstn_skipn.
  - apply firstn_length_le. exact H.
Qed.

Lemma nlen_app : forall a b, nlen (a ++ b) = (nlen a + nlen b)%N.
Proof. intros. unfold nlen. rewrite app_length. lia. Qed.

(* ================================================================================================================
   ERC20 source *)

Definition hr_amount (A hr amt : bytes) : Prop :=
  (hr = [] /\ amt = A) \/ (exists rest, hr = amt ++ rest /\ length amt = 32%nat).

Lemma erc20_decode_parts : forall src dst nonce rid am A W R T hr amt,
  length A = 32%nat -> length W = 32%nat -> be_to_N W = N.of_nat (length R) ->
  (84 <= length (A ++ W ++ R ++ T))%nat -> (nlen (A ++ W ++ R ++ T) < 2 ^ 62)%N ->
  hr_amount A hr amt ->
  (T = [] /\
   erc20_decode (mkDep src dst nonce rid (A ++ W ++ R ++ T) hr am) =
   Ok (mkMsg src dst nonce rid Fungible [PB amt; PB R] None))
  \/
  (T <> [] /\ forall F M, T = F ++ M -> length F = 32%nat -> M <> [] ->
   (be_to_N F + OPTIONAL_REVERT_GAS < 2 ^ 256)%N ->
   erc20_decode (mkDep src dst nonce rid (A ++ W ++ R ++ T) hr am) =
   Ok (mkMsg src dst nonce rid Fungible
         [PB amt; PB R; PB (u256 (be_to_N F + OPTIONAL_REVERT_GAS) ++ M)]
         (Some (uint64_of_N (be_to_N F + OPTIONAL_REVERT_GAS))))).
Proof.
  intros src dst nonce rid am A W R T hr amt HA HW Hrl H84 Hsane Hhr.
  assert (Hlen : len (A ++ W ++ R ++ T) = (64 + len R + len T)%Z).
  { rewrite !len_app. rewrite (len_32 A HA), (len_32 W HW). lia. }
  assert (HlenN : (N.of_nat (length R) < 2 ^ 62)%N).
  { unfold nlen in Hsane. rewrite !app_length in Hsane. lia. }
  assert (Hrl64 : int64_of_N (be_to_N W) = len R).
  { rewrite Hrl, int64_small by exact HlenN. unfold len. lia. }
  assert (HlenR : (0 <= len R < 2 ^ 62)%Z).
  { unfold len. split; [lia|]. apply N2Z.inj_lt in HlenN. rewrite nat_N_Z in HlenN. exact HlenN. }
  assert (He : wrap64s (64 + len R) = (64 + len R)%Z) by (apply wrap64s_small; lia).
  assert (He2 : wrap64s (96 + len R) = (96 + len R)%Z) by (apply wrap64s_small; lia).
  assert (Hamt : (if (0 <? len hr)%Z then sl 0 32 hr else sl 0 32 (A ++ W ++ R ++ T)) = Ok amt).
  { destruct Hhr as [[-> ->]|[rest [-> Hl]]].
    - cbn. apply sl_head. now rewrite (len_32 A HA).
    - rewrite len_app, (len_32 amt Hl).
      assert ((0 <? 32 + len rest)%Z = true) as -> by (pose proof (len_nonneg rest); lia).
      apply sl_head. now rewrite (len_32 amt Hl). }
  assert (HsW : sl 32 64 (A ++ W ++ R ++ T) = Ok W).
  { apply sl_parts; rewrite ?(len_32 A HA), ?(len_32 W HW); reflexivity. }
  assert (HsR : sl 64 (64 + len R) (A ++ W ++ R ++ T) = Ok R).
  { replace (A ++ W ++ R ++ T) with ((A ++ W) ++ R ++ T) by now rewrite <- app_assoc.
    apply sl_parts; rewrite len_app, (len_32 A HA), (len_32 W HW); lia. }
  assert (Hguard : (len (A ++ W ++ R ++ T) <? 84)%Z = false).
  { unfold len. apply Z.ltb_ge. lia. }
  destruct T as [|t0 T'] eqn:ET.
  - left. split; [reflexivity|].
    unfold erc20_decode, erc20_body. cbn [d_data d_hr].
    rewrite Hguard, Hamt. cbn [bind]. rewrite HsW. cbn [bind]. rewrite Hrl64, He, HsR. cbn [bind].
    rewrite He2. assert ((96 + len R <? len (A ++ W ++ R ++ []))%Z = false) as ->.
    { rewrite Hlen. change (len []) with 0%Z. apply Z.ltb_ge. lia. }
    reflexivity.
  - right. split; [discriminate|]. rewrite <- ET in *. clear ET t0 T'.
    intros F M -> HF HM Hfee.
    assert (HlenM : (0 < len M)%Z). { unfold len. destruct M; [contradiction|cbn; lia]. }
    unfold erc20_decode, erc20_body. cbn [d_data d_hr].
    rewrite Hguard, Hamt. cbn [bind]. rewrite HsW. cbn [bind]. rewrite Hrl64, He, HsR. cbn [bind].
    rewrite He2. assert ((96 + len R <? len (A ++ W ++ R ++ F ++ M))%Z = true) as ->.
    { rewrite Hlen, len_app, (len_32 F HF). apply Z.ltb_lt. lia. }
    assert (HsF : sl (64 + len R) (96 + len R) (A ++ W ++ R ++ F ++ M) = Ok F).
    { replace (A ++ W ++ R ++ F ++ M) with ((A ++ W ++ R) ++ F ++ M) by now rewrite <- !app_assoc.
      apply sl_parts; rewrite !len_app, (len_32 A HA), (len_32 W HW), ?(len_32 F HF); lia. }
    rewrite HsF. cbn [bind].
    assert (Hrest : sl_from (64 + len R) (A ++ W ++ R ++ F ++ M) = Ok (F ++ M)).
    { replace (A ++ W ++ R ++ F ++ M) with ((A ++ W ++ R) ++ F ++ M) by now rewrite <- !app_assoc.
      apply sl_from_parts. rewrite !len_app, (len_32 A HA), (len_32 W HW). lia. }
    rewrite Hrest. cbn [bind].
    rewrite left_pad_be_bytes by (change (N.of_nat 32) with 32%N; change (256 ^ 32)%N with (2 ^ 256)%N; exact Hfee).
    rewrite firstn_all2 by (rewrite length_be_fixed; lia).
    rewrite (skipn_len_app F M 32) by (symmetry; exact HF).
    reflexivity.
Qed.

(* the reference, computed on the parts *)
Lemma word_at_parts : forall P Wd S off, off = N.of_nat (length P) -> length Wd = 32%nat ->
  word_at off (P ++ Wd ++ S) = be_to_N Wd.
Proof.
  intros P Wd S off Hoff HW. unfold word_at. rewrite (skipN_app_len P (Wd ++ S) off Hoff).
  now rewrite firstn_len_app by (symmetry; exact HW).
Qed.

Lemma cd1_parts : forall A W R T hr amt, length A = 32%nat -> hr_amount A hr amt ->
  (if (nlen hr =? 0)%N then A ++ W ++ R ++ T else replace_at 0 (firstn 32 hr) (A ++ W ++ R ++ T))
  = amt ++ W ++ R ++ T.
Proof.
  intros A W R T hr amt HA [[-> ->]|[rest [-> Hl]]].
  - reflexivity.
  - assert ((nlen (amt ++ rest) =? 0)%N = false) as ->
      by (apply N.eqb_neq; unfold nlen; rewrite app_length, Hl; lia).
    rewrite firstn_len_app by (symmetry; exact Hl).
    unfold replace_at. rewrite firstN_eq. cbn [N.to_nat firstn app].
    rewrite Hl. rewrite (skipN_app_len A (W ++ R ++ T)) by (rewrite HA; reflexivity). reflexivity.
Qed.

Lemma spec_erc20_notail : forall src dst nonce rid am A W R hr amt,
  length A = 32%nat -> length W = 32%nat -> be_to_N W = N.of_nat (length R) -> hr_amount A hr amt ->
  let d := mkDep src dst nonce rid (A ++ W ++ R ++ []) hr am in
  erc20_has_tail d = false /\ spec_erc20_data d = amt ++ W ++ R /\ spec_erc20_gas d = None.
Proof.
  intros src dst nonce rid am A W R hr amt HA HW Hrl Hhr d.
  assert (Hr : erc20_rl d = N.of_nat (length R)).
  { unfold erc20_rl, d. cbn [d_data]. rewrite (word_at_parts A W (R ++ [])); [exact Hrl | now rewrite HA | exact HW]. }
  assert (Ht : erc20_has_tail d = false).
  { unfold erc20_has_tail. rewrite Hr. unfold d. cbn [d_data]. unfold nlen. rewrite !app_length, HA, HW.
    cbn [length]. apply negb_false_iff, N.eqb_eq. lia. }
  split; [exact Ht|]. split.
  - unfold spec_erc20_data. rewrite Ht. unfold d. cbn [d_data d_hr].
    etransitivity; [exact (cd1_parts A W R [] hr amt HA Hhr)|]. now rewrite app_nil_r.
  - unfold spec_erc20_gas. now rewrite Ht.
Qed.

Lemma spec_erc20_tail : forall src dst nonce rid am A W R F M hr amt,
  length A = 32%nat -> length W = 32%nat -> be_to_N W = N.of_nat (length R) -> hr_amount A hr amt ->
  length F = 32%nat -> M <> [] ->
  let d := mkDep src dst nonce rid (A ++ W ++ R ++ F ++ M) hr am in
  erc20_has_tail d = true /\
  spec_erc20_data d = amt ++ W ++ R ++ u256 (be_to_N F + OPTIONAL_REVERT_GAS) ++ M /\
  spec_erc20_gas d = Some (uint64_of_N (be_to_N F + OPTIONAL_REVERT_GAS)).
Proof.
  intros src dst nonce rid am A W R F M hr amt HA HW Hrl Hhr HF HM d.
  assert (Hr : erc20_rl d = N.of_nat (length R)).
  { unfold erc20_rl, d. cbn [d_data]. rewrite (word_at_parts A W (R ++ F ++ M)); [exact Hrl | now rewrite HA | exact HW]. }
  assert (Ht : erc20_has_tail d = true).
  { unfold erc20_has_tail. rewrite Hr. unfold d. cbn [d_data]. unfold nlen. rewrite !app_length, HA, HW, HF.
    apply negb_true_iff, N.eqb_neq. destruct M; [contradiction|cbn [length]; lia]. }
  assert (Hfee : erc20_fee d = be_to_N F).
  { unfold erc20_fee. rewrite Hr. unfold d. cbn [d_data].
    replace (A ++ W ++ R ++ F ++ M) with ((A ++ W ++ R) ++ F ++ M) by now rewrite <- !app_assoc.
    apply word_at_parts; [|exact HF]. rewrite !app_length, HA, HW. lia. }
  split; [exact Ht|]. split.
  - unfold spec_erc20_data. rewrite Ht, Hfee, Hr. unfold d. cbn [d_data d_hr].
    assert (Hamt : length amt = 32%nat).
    { destruct Hhr as [[_ ->]|[rest [_ Hl]]]; assumption. }
    match goal with |- replace_at ?o ?n ?x = _ => replace x with (amt ++ W ++ R ++ F ++ M) by (symmetry; exact (cd1_parts A W R (F ++ M) hr amt HA Hhr)) end.
    unfold replace_at.
    replace (amt ++ W ++ R ++ F ++ M) with ((amt ++ W ++ R) ++ F ++ M) by now rewrite <- !app_assoc.
    rewrite firstN_app_len by (rewrite !app_length, Hamt, HW; lia).
    replace ((amt ++ W ++ R) ++ F ++ M) with (((amt ++ W ++ R) ++ F) ++ M) by now rewrite <- !app_assoc.
    rewrite skipN_app_len.
    + now rewrite <- !app_assoc.
    + unfold u256. rewrite length_be_fixed, !app_length, Hamt, HW, HF. lia.
  - unfold spec_erc20_gas. now rewrite Ht, Hfee.
Qed.

(* a well-formed ERC20 deposit, taken apart *)
Lemma wf_erc20_view : forall d, wf_erc20 d = true ->
  exists A W R T amt,
    d_data d = A ++ W ++ R ++ T /\ length A = 32%nat /\ length W = 32%nat /\
    be_to_N W = N.of_nat (length R) /\ (84 <= length (d_data d))%nat /\ (nlen (d_data d) < 2 ^ 62)%N /\
    hr_amount A (d_hr d) amt /\
    (T = [] \/ exists F M, T = F ++ M /\ length F = 32%nat /\ M <> [] /\
                           (be_to_N F + OPTIONAL_REVERT_GAS < 2 ^ 256)%N).
Proof.
  intros d H. unfold wf_erc20 in H. cbv zeta in H.
  apply andb_true_iff in H as [H Htail]. apply andb_true_iff in H as [H Hfit].
  apply andb_true_iff in H as [H Hhr]. apply andb_true_iff in H as [H Hsanehr].
  apply andb_true_iff in H as [H84 Hsane].
  apply N.leb_le in H84. unfold sane_len in Hsane. apply N.ltb_lt in Hsane. apply N.leb_le in Hfit.
  unfold nlen in *.
  destruct (split_at (d_data d) 32) as [A [r1 [E1 HA]]]; [lia|].
  assert (Hr1 : (length r1 = length (d_data d) - 32)%nat) by (rewrite E1, app_length; lia).
  destruct (split_at r1 32) as [W [r2 [E2 HW]]]; [lia|].
  assert (Hr2 : (length r2 = length (d_data d) - 64)%nat) by (rewrite E2, app_length in Hr1; lia).
  assert (Hrl : erc20_rl d = be_to_N W).
  { unfold erc20_rl. rewrite E1, E2. apply word_at_parts; [now rewrite HA | exact HW]. }
  rewrite Hrl in *.
  destruct (split_at r2 (N.to_nat (be_to_N W))) as [R [T [E3 HR]]]; [lia|].
  assert (HT : (length T = length (d_data d) - 64 - N.to_nat (be_to_N W))%nat)
    by (rewrite E3, app_length in Hr2; lia).
  exists A, W, R, T.
  assert (Hamt : exists amt, hr_amount A (d_hr d) amt).
  { apply orb_true_iff in Hhr. destruct Hhr as [Hz|Hge].
    - apply N.eqb_eq in Hz. exists A. left. split; [|reflexivity].
      destruct (d_hr d); [reflexivity | cbn in Hz; lia].
    - apply N.leb_le in Hge. destruct (split_at (d_hr d) 32) as [amt [rest [Eh Hl]]]; [lia|].
      exists amt. right. exists rest. split; assumption. }
  destruct Hamt as [amt Hamt]. exists amt.
  split; [rewrite E1, E2, E3; reflexivity|].
  split; [exact HA|]. split; [exact HW|]. split; [lia|]. split; [lia|]. split; [lia|]. split; [exact Hamt|].
  apply orb_true_iff in Htail. destruct Htail as [Heq|Hgt].
  - left. apply N.eqb_eq in Heq. destruct T; [reflexivity | cbn [length] in HT; lia].
  - right. apply andb_true_iff in Hgt. destruct Hgt as [Hgt Hfee]. apply N.ltb_lt in Hgt. apply N.ltb_lt in Hfee.
    destruct (split_at T 32) as [F [M [E4 HF]]]; [lia|].
    exists F, M. split; [exact E4|]. split; [exact HF|]. split.
    + intros ->. rewrite E4, app_length, HF in HT. cbn [length] in HT. lia.
    + assert (Hf : erc20_fee d = be_to_N F).
      { unfold erc20_fee. rewrite Hrl, E1, E2, E3, E4.
        replace (A ++ W ++ R ++ F ++ M) with ((A ++ W ++ R) ++ F ++ M) by now rewrite <- !app_assoc.
        apply word_at_parts; [|exact HF]. rewrite !app_length, HA, HW, HR. lia. }
      now rewrite <- Hf.
Qed.

(* ================================================================================================================
   Destination side on a fungible message *)

Lemma evm_fungible2 : forall s t n r g amt R W, length amt = 32%nat -> len_word R = W ->
  evm_encode (mkMsg s t n r Fungible [PB amt; PB R] g) = Ok (mkProp s t n r g (DBytes (amt ++ W ++ R))).
Proof.
  intros s t n r g amt R W Ha <-. cbn. now rewrite left_pad_id by lia.
Qed.

Lemma evm_fungible3 : forall s t n r g amt R W opt, length amt = 32%nat -> len_word R = W ->
  evm_encode (mkMsg s t n r Fungible [PB amt; PB R; PB opt] g) =
  Ok (mkProp s t n r g (DBytes (amt ++ W ++ R ++ opt))).
Proof.
  intros s t n r g amt R W opt Ha <-. cbn. rewrite left_pad_id by lia. now rewrite <- !app_assoc.
Qed.

Lemma sub_fungible2 : forall s t n r g amt R W, length amt = 32%nat -> len_word R = W ->
  sub_encode (mkMsg s t n r Fungible [PB amt; PB R] g) = Ok (mkProp s t n r g (DBytes (amt ++ W ++ R))).
Proof.
  intros s t n r g amt R W Ha <-. cbn. now rewrite left_pad_id by lia.
Qed.

Lemma btc_fungible2 : forall s t n r g amt R,
  btc_encode (mkMsg s t n r Fungible [PB amt; PB R] g) =
  Ok (mkProp s t n r None (DBtc (uint64_of_N (be_to_N amt / BTC_SCALE)) R)).
Proof. reflexivity. Qed.

Lemma uint64_fits : forall a, fits_btc a = true -> uint64_of_N (a / BTC_SCALE) = (a / BTC_SCALE)%N.
Proof.
  intros a H. unfold fits_btc in H. apply N.ltb_lt in H. unfold uint64_of_N.
  apply N.mod_small. apply N.div_lt_upper_bound; [discriminate|]. unfold BTC_SCALE in *. lia.
Qed.

Lemma hr_amount_len : forall A hr amt, length A = 32%nat -> hr_amount A hr amt -> length amt = 32%nat.
Proof. intros A hr amt HA [[_ ->]|[rest [_ Hl]]]; assumption. Qed.

(* ---- ERC20 source, the three destinations --------------------------------------------------------------------- *)

Lemma erc20_relay_evm : forall d, wf_erc20 d = true ->
  relay SErc20 DEvm d = Ok (spec_proposal SErc20 DEvm d).
Proof.
  intros d Hwf. destruct (wf_erc20_view d Hwf) as (A & W & R & T & amt & E & HA & HW & Hrl & H84 & Hsane & Hhr & HT).
  destruct d as [src dst nonce rid data hr am]. cbn [d_data d_hr] in *. subst data.
  pose proof (hr_amount_len A hr amt HA Hhr) as Hamt.
  pose proof (len_word_of W R Hrl HW) as Hlw.
  unfold relay, decode, encode, spec_proposal, spec_dst, spec_gas, spec_data, spec_fungible_data.
  cbn [d_src d_dst d_nonce d_rid].
  destruct (erc20_decode_parts src dst nonce rid am A W R T hr amt HA HW Hrl H84 Hsane Hhr) as [[-> Hd]|[Hne Hd]].
  - rewrite Hd. cbn [bind]. rewrite (evm_fungible2 _ _ _ _ _ amt R W Hamt Hlw).
    destruct (spec_erc20_notail src dst nonce rid am A W R hr amt HA HW Hrl Hhr) as (_ & Hs & Hg).
    cbv zeta in Hs, Hg. now rewrite Hs, Hg.
  - destruct HT as [->|(F & M & -> & HF & HM & Hfee)]; [contradiction|].
    rewrite (Hd F M eq_refl HF HM Hfee). cbn [bind].
    rewrite (evm_fungible3 _ _ _ _ _ amt R W _ Hamt Hlw).
    destruct (spec_erc20_tail src dst nonce rid am A W R F M hr amt HA HW Hrl Hhr HF HM) as (_ & Hs & Hg).
    cbv zeta in Hs, Hg. now rewrite Hs, Hg.
Qed.

Lemma erc20_notail_T : forall d A W R T, d_data d = A ++ W ++ R ++ T ->
  length A = 32%nat -> length W = 32%nat -> be_to_N W = N.of_nat (length R) ->
  erc20_has_tail d = false -> T = [].
Proof.
  intros d A W R T E HA HW Hrl Ht. unfold erc20_has_tail in Ht. apply negb_false_iff, N.eqb_eq in Ht.
  unfold erc20_rl in Ht. rewrite E in Ht. rewrite (word_at_parts A W (R ++ T)) in Ht; [|now rewrite HA|exact HW].
  unfold nlen in Ht. rewrite !app_length, HA, HW in Ht. destruct T; [reflexivity | cbn [length] in Ht; lia].
Qed.

Lemma erc20_relay_sub : forall d, wf_erc20 d = true -> erc20_has_tail d = false ->
  relay SErc20 DSub d = Ok (spec_proposal SErc20 DSub d).
Proof.
  intros d Hwf Hnt. destruct (wf_erc20_view d Hwf) as (A & W & R & T & amt & E & HA & HW & Hrl & H84 & Hsane & Hhr & HT).
  pose proof (erc20_notail_T d A W R T E HA HW Hrl Hnt) as ->.
  destruct d as [src dst nonce rid data hr am]. cbn [d_data d_hr] in *. subst data.
  pose proof (hr_amount_len A hr amt HA Hhr) as Hamt.
  pose proof (len_word_of W R Hrl HW) as Hlw.
  unfold relay, decode, encode, spec_proposal, spec_dst, spec_gas, spec_data, spec_fungible_data.
  cbn [d_src d_dst d_nonce d_rid].
  destruct (erc20_decode_parts src dst nonce rid am A W R [] hr amt HA HW Hrl H84 Hsane Hhr) as [[_ Hd]|[Hne _]];
    [|contradiction].
  rewrite Hd. cbn [bind]. rewrite (sub_fungible2 _ _ _ _ _ amt R W Hamt Hlw).
  destruct (spec_erc20_notail src dst nonce rid am A W R hr amt HA HW Hrl Hhr) as (_ & Hs & Hg).
  cbv zeta in Hs, Hg. now rewrite Hs, Hg.
Qed.

Lemma erc20_relay_btc : forall d, wf_erc20 d = true -> erc20_has_tail d = false ->
  fits_btc (be_to_N (firstn 32 (spec_erc20_data d))) = true ->
  relay SErc20 DBtcK d = Ok (spec_proposal SErc20 DBtcK d).
Proof.
  intros d Hwf Hnt Hfit. destruct (wf_erc20_view d Hwf) as (A & W & R & T & amt & E & HA & HW & Hrl & H84 & Hsane & Hhr & HT).
  pose proof (erc20_notail_T d A W R T E HA HW Hrl Hnt) as ->.
  destruct d as [src dst nonce rid data hr am]. cbn [d_data d_hr] in *. subst data.
  pose proof (hr_amount_len A hr amt HA Hhr) as Hamt.
  destruct (spec_erc20_notail src dst nonce rid am A W R hr amt HA HW Hrl Hhr) as (_ & Hs & Hg).
  cbv zeta in Hs, Hg. rewrite Hs in Hfit.
  unfold relay, decode, encode, spec_proposal, spec_dst, spec_gas, spec_data, spec_fungible_data.
  cbn [d_src d_dst d_nonce d_rid].
  destruct (erc20_decode_parts src dst nonce rid am A W R [] hr amt HA HW Hrl H84 Hsane Hhr) as [[_ Hd]|[Hne _]];
    [|contradiction].
  rewrite Hd. cbn [bind]. rewrite btc_fungible2, Hs.
  rewrite firstn_len_app in * by (symmetry; exact Hamt).
  rewrite (uint64_fits _ Hfit).
  replace (amt ++ W ++ R) with ((amt ++ W) ++ R) by now rewrite <- app_assoc.
  rewrite (skipn_len_app (amt ++ W) R 64) by (rewrite app_length, Hamt, HW; reflexivity).
  reflexivity.
Qed.

(* ================================================================================================================
   Substrate source *)

Lemma be_to_N_cons : forall b r, be_to_N (b :: r) = (b2n b * 256 ^ N.of_nat (length r) + be_to_N r)%N.
Proof. intros. change (b :: r) with ([b] ++ r). rewrite be_to_N_app. cbn. f_equal. Qed.

Lemma sub_len_small : forall W, length W = 32%nat -> (be_to_N W < 2 ^ 62)%N ->
  sub_len_int64 W = Z.of_N (be_to_N W).
Proof.
  intros W HW Hs. destruct W as [|b r]; [discriminate|]. unfold sub_len_int64.
  assert ((b2n b <? 128)%N = true) as ->.
  { apply N.ltb_lt. rewrite be_to_N_cons in Hs. cbn [length] in HW.
    assert (length r = 31%nat) as Hr by lia. rewrite Hr in Hs.
    destruct (N.lt_ge_cases (b2n b) 128) as [Hlt|Hge]; [exact Hlt|].
    exfalso. assert (128 * 256 ^ N.of_nat 31 <= b2n b * 256 ^ N.of_nat 31)%N by (apply N.mul_le_mono_r; exact Hge).
    change (128 * 256 ^ N.of_nat 31)%N with (2 ^ 255)%N in H.
    assert (2 ^ 62 < 2 ^ 255)%N by (apply N.pow_lt_mono_r; lia). lia. }
  now apply int64_small.
Qed.

Lemma wf_sub_view : forall d, wf_sub d = true ->
  exists A W R, d_data d = A ++ W ++ R /\ length A = 32%nat /\ length W = 32%nat /\
                be_to_N W = N.of_nat (length R) /\ (84 <= length (d_data d))%nat /\ (nlen (d_data d) < 2 ^ 62)%N.
Proof.
  intros d H. unfold wf_sub in H. cbv zeta in H.
  apply andb_true_iff in H as [H Heq]. apply andb_true_iff in H as [H84 Hsane].
  apply N.leb_le in H84. unfold sane_len in Hsane. apply N.ltb_lt in Hsane. apply N.eqb_eq in Heq.
  unfold nlen in *.
  destruct (split_at (d_data d) 32) as [A [r1 [E1 HA]]]; [lia|].
  assert (Hr1 : (length r1 = length (d_data d) - 32)%nat) by (rewrite E1, app_length; lia).
  destruct (split_at r1 32) as [W [R [E2 HW]]]; [lia|].
  assert (Hr2 : (length R = length (d_data d) - 64)%nat) by (rewrite E2, app_length in Hr1; lia).
  exists A, W, R. split; [rewrite E1, E2; reflexivity|]. split; [exact HA|]. split; [exact HW|].
  assert (Hw : word_at 32 (d_data d) = be_to_N W).
  { rewrite E1, E2. apply word_at_parts; [now rewrite HA | exact HW]. }
  rewrite Hw in Heq. split; [lia|]. split; lia.
Qed.

Lemma sub_decode_parts : forall src dst nonce rid hr am A W R,
  length A = 32%nat -> length W = 32%nat -> be_to_N W = N.of_nat (length R) ->
  (84 <= length (A ++ W ++ R))%nat -> (nlen (A ++ W ++ R) < 2 ^ 62)%N ->
  sub_decode (mkDep src dst nonce rid (A ++ W ++ R) hr am) =
  Ok (mkMsg src dst nonce rid Fungible [PB A; PB R] None).
Proof.
  intros src dst nonce rid hr am A W R HA HW Hrl H84 Hsane.
  assert (HlenN : (N.of_nat (length R) < 2 ^ 62)%N).
  { unfold nlen in Hsane. rewrite !app_length in Hsane. lia. }
  assert (Hrl64 : sub_len_int64 W = len R).
  { rewrite sub_len_small by (try exact HW; rewrite Hrl; exact HlenN). rewrite Hrl. unfold len. lia. }
  assert (HlenR : (0 <= len R < 2 ^ 62)%Z).
  { unfold len. split; [lia|]. apply N2Z.inj_lt in HlenN. rewrite nat_N_Z in HlenN. exact HlenN. }
  unfold sub_decode, sub_body. cbn [d_data].
  assert ((len (A ++ W ++ R) <? 84)%Z = false) as -> by (unfold len; apply Z.ltb_ge; lia).
  rewrite (sl_head A (W ++ R) 32) by (now rewrite (len_32 A HA)). cbn [bind].
  rewrite (sl_parts A W R 32 64) by (rewrite ?(len_32 A HA), ?(len_32 W HW); reflexivity). cbn [bind].
  rewrite Hrl64, wrap64s_small by lia.
  replace (A ++ W ++ R) with ((A ++ W) ++ R ++ []) by now rewrite app_nil_r, <- app_assoc.
  rewrite (sl_parts (A ++ W) R [] 64 (64 + len R)) by (rewrite len_app, (len_32 A HA), (len_32 W HW); lia).
  reflexivity.
Qed.

Lemma sub_relay_evm : forall d, wf_sub d = true -> relay SSub DEvm d = Ok (spec_proposal SSub DEvm d).
Proof.
  intros d Hwf. destruct (wf_sub_view d Hwf) as (A & W & R & E & HA & HW & Hrl & H84 & Hsane).
  destruct d as [src dst nonce rid data hr am]. cbn [d_data] in *. subst data.
  unfold relay, decode, encode, spec_proposal, spec_dst, spec_gas, spec_data. cbn [d_src d_dst d_nonce d_rid d_data].
  rewrite sub_decode_parts by assumption. cbn [bind].
  now rewrite (evm_fungible2 _ _ _ _ _ A R W HA (len_word_of W R Hrl HW)).
Qed.

Lemma sub_relay_sub : forall d, wf_sub d = true -> relay SSub DSub d = Ok (spec_proposal SSub DSub d).
Proof.
  intros d Hwf. destruct (wf_sub_view d Hwf) as (A & W & R & E & HA & HW & Hrl & H84 & Hsane).
  destruct d as [src dst nonce rid data hr am]. cbn [d_data] in *. subst data.
  unfold relay, decode, encode, spec_proposal, spec_dst, spec_gas, spec_data. cbn [d_src d_dst d_nonce d_rid d_data].
  rewrite sub_decode_parts by assumption. cbn [bind].
  now rewrite (sub_fungible2 _ _ _ _ _ A R W HA (len_word_of W R Hrl HW)).
Qed.

Lemma sub_relay_btc : forall d, wf_sub d = true -> fits_btc (word_at 0 (d_data d)) = true ->
  relay SSub DBtcK d = Ok (spec_proposal SSub DBtcK d).
Proof.
  intros d Hwf Hfit. destruct (wf_sub_view d Hwf) as (A & W & R & E & HA & HW & Hrl & H84 & Hsane).
  destruct d as [src dst nonce rid data hr am]. cbn [d_data] in *. subst data.
  assert (Hw : word_at 0 (A ++ W ++ R) = be_to_N A).
  { apply (word_at_parts [] A (W ++ R)); [reflexivity | exact HA]. }
  rewrite Hw in Hfit.
  unfold relay, decode, encode, spec_proposal, spec_dst, spec_gas, spec_data, spec_fungible_data.
  cbn [d_src d_dst d_nonce d_rid d_data].
  rewrite sub_decode_parts by assumption. cbn [bind].
  rewrite btc_fungible2, (uint64_fits _ Hfit).
  rewrite firstn_len_app by (symmetry; exact HA).
  replace (A ++ W ++ R) with ((A ++ W) ++ R) by now rewrite <- app_assoc.
  rewrite (skipn_len_app (A ++ W) R 64) by (rewrite app_length, HA, HW; reflexivity).
  reflexivity.
Qed.

(* ================================================================================================================
   ERC721 *)

Lemma wf_erc721_view : forall d, wf_erc721 d = true ->
  exists A W R L Mt, d_data d = A ++ W ++ R ++ L ++ Mt /\ length A = 32%nat /\ length W = 32%nat /\
     length L = 32%nat /\ be_to_N W = N.of_nat (length R) /\ be_to_N L = N.of_nat (length Mt) /\
     (nlen (d_data d) < 2 ^ 62)%N.
Proof.
  intros d H. unfold wf_erc721 in H. cbv zeta in H.
  apply andb_true_iff in H as [H Heq]. apply andb_true_iff in H as [H Hfit].
  apply andb_true_iff in H as [H96 Hsane].
  apply N.leb_le in H96. unfold sane_len in Hsane. apply N.ltb_lt in Hsane.
  apply N.leb_le in Hfit. apply N.eqb_eq in Heq. unfold nlen in *.
  destruct (split_at (d_data d) 32) as [A [r1 [E1 HA]]]; [lia|].
  assert (Hr1 : (length r1 = length (d_data d) - 32)%nat) by (rewrite E1, app_length; lia).
  destruct (split_at r1 32) as [W [r2 [E2 HW]]]; [lia|].
  assert (Hr2 : (length r2 = length (d_data d) - 64)%nat) by (rewrite E2, app_length in Hr1; lia).
  assert (Hw : word_at 32 (d_data d) = be_to_N W).
  { rewrite E1, E2. apply word_at_parts; [now rewrite HA | exact HW]. }
  rewrite Hw in *.
  destruct (split_at r2 (N.to_nat (be_to_N W))) as [R [r3 [E3 HR]]]; [lia|].
  assert (Hr3 : (length r3 = length (d_data d) - 64 - N.to_nat (be_to_N W))%nat)
    by (rewrite E3, app_length in Hr2; lia).
  destruct (split_at r3 32) as [L [Mt [E4 HL]]]; [lia|].
  assert (HMt : (length Mt = length (d_data d) - 96 - N.to_nat (be_to_N W))%nat)
    by (rewrite E4, app_length in Hr3; lia).
  assert (Hl : word_at (64 + be_to_N W) (d_data d) = be_to_N L).
  { rewrite E1, E2, E3, E4.
    replace (A ++ W ++ R ++ L ++ Mt) with ((A ++ W ++ R) ++ L ++ Mt) by now rewrite <- !app_assoc.
    apply word_at_parts; [|exact HL]. rewrite !app_length, HA, HW, HR. lia. }
  rewrite Hl in Heq.
  exists A, W, R, L, Mt. split; [rewrite E1, E2, E3, E4; reflexivity|].
  repeat split; try assumption; lia.
Qed.

Lemma erc721_relay_evm : forall d, wf_erc721 d = true ->
  relay SErc721 DEvm d = Ok (spec_proposal SErc721 DEvm d).
Proof.
  intros d Hwf.
  destruct (wf_erc721_view d Hwf) as (A & W & R & L & Mt & E & HA & HW & HL & Hrl & Hml & Hsane).
  destruct d as [src dst nonce rid data hr am]. cbn [d_data] in *. subst data.
  assert (HRN : (N.of_nat (length R) < 2 ^ 62)%N) by (unfold nlen in Hsane; rewrite !app_length in Hsane; lia).
  assert (HMN : (N.of_nat (length Mt) < 2 ^ 62)%N) by (unfold nlen in Hsane; rewrite !app_length in Hsane; lia).
  assert (HlenR : (0 <= len R < 2 ^ 62)%Z).
  { unfold len. split; [lia|]. apply N2Z.inj_lt in HRN. rewrite nat_N_Z in HRN. exact HRN. }
  assert (HlenM : (0 <= len Mt < 2 ^ 62)%Z).
  { unfold len. split; [lia|]. apply N2Z.inj_lt in HMN. rewrite nat_N_Z in HMN. exact HMN. }
  assert (Hrl64 : int64_of_N (be_to_N W) = len R).
  { rewrite Hrl, int64_small by exact HRN. unfold len. lia. }
  assert (Hml64 : int64_of_N (be_to_N L) = len Mt).
  { rewrite Hml, int64_small by exact HMN. unfold len. lia. }
  unfold relay, decode, encode, spec_proposal, spec_dst, spec_gas, spec_data.
  cbn [d_src d_dst d_nonce d_rid d_data].
  unfold erc721_decode, erc721_body. cbn [d_data].
  set (cd := A ++ W ++ R ++ L ++ Mt).
  assert (Hlen : len cd = (96 + len R + len Mt)%Z).
  { unfold cd. rewrite !len_app, (len_32 A HA), (len_32 W HW), (len_32 L HL). lia. }
  assert (Hcd : (len cd < 2 ^ 62)%Z).
  { unfold len. apply N2Z.inj_lt in Hsane. unfold nlen in Hsane. rewrite nat_N_Z in Hsane. exact Hsane. }
  assert ((len cd <? 64)%Z = false) as -> by (apply Z.ltb_ge; lia).
  assert (S1 : sl 0 32 cd = Ok A) by (apply sl_head; now rewrite (len_32 A HA)).
  assert (S2 : sl 32 64 cd = Ok W) by (apply sl_parts; rewrite ?(len_32 A HA), ?(len_32 W HW); reflexivity).
  assert (S3 : sl 64 (64 + len R) cd = Ok R).
  { unfold cd. replace (A ++ W ++ R ++ L ++ Mt) with ((A ++ W) ++ R ++ L ++ Mt) by now rewrite <- app_assoc.
    apply sl_parts; rewrite len_app, (len_32 A HA), (len_32 W HW); lia. }
  assert (S4 : sl (64 + len R) (64 + len R + 32) cd = Ok L).
  { unfold cd. replace (A ++ W ++ R ++ L ++ Mt) with ((A ++ W ++ R) ++ L ++ Mt) by now rewrite <- !app_assoc.
    apply sl_parts; rewrite !len_app, (len_32 A HA), (len_32 W HW), ?(len_32 L HL); lia. }
  assert (S5 : sl (64 + len R + 32) (64 + len R + 32 + len Mt) cd = Ok Mt).
  { unfold cd. replace (A ++ W ++ R ++ L ++ Mt) with ((A ++ W ++ R ++ L) ++ Mt ++ []) by now rewrite app_nil_r, <- !app_assoc.
    apply sl_parts; rewrite !len_app, (len_32 A HA), (len_32 W HW), (len_32 L HL); lia. }
  rewrite S1. cbn [bind]. rewrite S2. cbn [bind]. rewrite Hrl64.
  rewrite (wrap64s_small (64 + len R)) by lia. rewrite S3. cbn [bind].
  rewrite (wrap64s_small (64 + len R + 32)) by lia. rewrite S4. cbn [bind].
  assert (Hmeta : (if (0 <? be_to_N L)%N
                   then sl (64 + len R + 32) (wrap64s (64 + len R + 32 + int64_of_N (be_to_N L))) cd
                   else Ok []) = Ok Mt).
  { destruct (0 <? be_to_N L)%N eqn:Ez.
    - rewrite Hml64, wrap64s_small by lia. exact S5.
    - apply N.ltb_ge in Ez. rewrite Hml in Ez. destruct Mt; [reflexivity | cbn [length] in Ez; lia]. }
  rewrite Hmeta. cbn [bind].
  cbn. rewrite left_pad_id by lia.
  rewrite (len_word_of W R Hrl HW), (len_word_of L Mt Hml HL). reflexivity.
Qed.

(* ================================================================================================================
   Permissionless generic *)

Lemma be_to_N_single : forall c, be_to_N [c] = b2n c.
Proof. intros. cbn. reflexivity. Qed.

Lemma split_one : forall (s : bytes), (1 <= length s)%nat -> exists c r, s = c :: r.
Proof. intros [|c r] H; [cbn in H; lia | eauto]. Qed.

Lemma byte_at_parts : forall P c S off, off = N.of_nat (length P) -> byte_at off (P ++ c :: S) = b2n c.
Proof. intros P c S off H. unfold byte_at. rewrite (skipN_app_len P (c :: S) off H). apply be_to_N_single. Qed.

Lemma wf_generic_view : forall d, wf_generic d = true ->
  exists F S2 FS c CA dd DP EX,
    d_data d = F ++ S2 ++ FS ++ [c] ++ CA ++ [dd] ++ DP ++ EX /\
    length F = 32%nat /\ length S2 = 2%nat /\ be_to_N S2 = N.of_nat (length FS) /\
    b2n c = N.of_nat (length CA) /\ b2n dd = N.of_nat (length DP) /\
    (76 <= length (d_data d))%nat /\ (nlen (d_data d) < 2 ^ 62)%N.
Proof.
  intros d H. unfold wf_generic in H. cbv zeta in H.
  apply andb_true_iff in H as [H Hrest]. apply andb_true_iff in H as [H76 Hsane].
  apply andb_true_iff in Hrest as [Hp Hrest]. apply andb_true_iff in Hrest as [H2q H3].
  apply N.leb_le in H76. unfold sane_len in Hsane. apply N.ltb_lt in Hsane.
  apply N.leb_le in Hp. apply N.leb_le in H2q. apply N.leb_le in H3. unfold nlen in *.
  destruct (split_at (d_data d) 32) as [F [r1 [E1 HF]]]; [lia|].
  assert (Hr1 : (length r1 = length (d_data d) - 32)%nat) by (rewrite E1, app_length; lia).
  destruct (split_at r1 2) as [S2 [r2 [E2 HS2]]]; [lia|].
  assert (Hr2 : (length r2 = length (d_data d) - 34)%nat) by (rewrite E2, app_length in Hr1; lia).
  assert (Hs : be_to_N (firstn 2 (skipn 32 (d_data d))) = be_to_N S2).
  { rewrite E1, E2. rewrite (skipn_len_app F (S2 ++ r2) 32) by (symmetry; exact HF).
    now rewrite firstn_len_app by (symmetry; exact HS2). }
  rewrite Hs in *.
  destruct (split_at r2 (N.to_nat (be_to_N S2))) as [FS [r3 [E3 HFS]]]; [lia|].
  assert (Hr3 : (length r3 = length (d_data d) - 34 - N.to_nat (be_to_N S2))%nat)
    by (rewrite E3, app_length in Hr2; lia).
  destruct (split_one r3) as [c [r4 E4]]; [lia|].
  assert (Hr4 : (length r4 = length r3 - 1)%nat) by (rewrite E4; cbn [length]; lia).
  assert (Hc : byte_at (34 + be_to_N S2) (d_data d) = b2n c).
  { rewrite E1, E2, E3, E4.
    replace (F ++ S2 ++ FS ++ c :: r4) with ((F ++ S2 ++ FS) ++ c :: r4) by now rewrite <- !app_assoc.
    apply byte_at_parts. rewrite !app_length, HF, HS2, HFS. lia. }
  rewrite Hc in *.
  destruct (split_at r4 (N.to_nat (b2n c))) as [CA [r5 [E5 HCA]]]; [lia|].
  assert (Hr5 : (length r5 = length r4 - N.to_nat (b2n c))%nat) by (rewrite E5, app_length; lia).
  destruct (split_one r5) as [dd [r6 E6]]; [lia|].
  assert (Hr6 : (length r6 = length r5 - 1)%nat) by (rewrite E6; cbn [length]; lia).
  assert (Hd : byte_at (34 + be_to_N S2 + 1 + b2n c) (d_data d) = b2n dd).
  { rewrite E1, E2, E3, E4, E5, E6.
    replace (F ++ S2 ++ FS ++ c :: CA ++ dd :: r6) with ((F ++ S2 ++ FS ++ c :: CA) ++ dd :: r6)
      by (repeat rewrite <- app_assoc; cbn [app]; repeat rewrite <- app_assoc; reflexivity).
    apply byte_at_parts. rewrite !app_length. cbn [length]. rewrite HF, HS2, HFS, HCA. lia. }
  rewrite Hd in *.
  destruct (split_at r6 (N.to_nat (b2n dd))) as [DP [EX [E7 HDP]]]; [lia|].
  exists F, S2, FS, c, CA, dd, DP, EX.
  split; [rewrite E1, E2, E3, E4, E5, E6, E7; reflexivity|].
  repeat split; try assumption; lia.
Qed.

Lemma len_byte_of : forall c X, b2n c = N.of_nat (length X) -> len_byte X = c.
Proof. intros c X H. unfold len_byte. rewrite <- H. apply n2b_b2n. Qed.

Lemma generic_relay_evm : forall d, wf_generic d = true ->
  relay SGeneric DEvm d = Ok (spec_proposal SGeneric DEvm d).
Proof.
  intros d Hwf.
  destruct (wf_generic_view d Hwf) as (F & S2 & FS & c & CA & dd & DP & EX & E & HF & HS2 & Hfs & Hc & Hd & H76 & Hsane).
  destruct d as [src dst nonce rid data hr am]. cbn [d_data] in *. subst data.
  set (cd := F ++ S2 ++ FS ++ [c] ++ CA ++ [dd] ++ DP ++ EX) in *.
  assert (Hlen : len cd = (32 + 2 + len FS + 1 + len CA + 1 + len DP + len EX)%Z).
  { unfold cd. rewrite !len_app, (len_32 F HF). change (len [c]) with 1%Z. change (len [dd]) with 1%Z.
    assert (len S2 = 2%Z) as -> by (unfold len; now rewrite HS2). lia. }
  assert (Hcd : (len cd < 2 ^ 62)%Z).
  { unfold len. apply N2Z.inj_lt in Hsane. unfold nlen in Hsane. rewrite nat_N_Z in Hsane. exact Hsane. }
  pose proof (len_nonneg FS). pose proof (len_nonneg CA). pose proof (len_nonneg DP). pose proof (len_nonneg EX).
  assert (Hfs64 : int64_of_N (be_to_N S2) = len FS).
  { rewrite Hfs, int64_small. - unfold len. lia. - unfold len in *. lia. }
  assert (Hc64 : int64_of_N (b2n c) = len CA).
  { rewrite Hc, int64_small. - unfold len. lia. - unfold len in *. lia. }
  assert (Hd64 : int64_of_N (b2n dd) = len DP).
  { rewrite Hd, int64_small. - unfold len. lia. - unfold len in *. lia. }
  assert (HlS2 : len S2 = 2%Z) by (unfold len; now rewrite HS2).
  assert (S1 : sl 0 32 cd = Ok F) by (apply sl_head; now rewrite (len_32 F HF)).
  assert (S2' : sl 32 34 cd = Ok S2) by (apply sl_parts; rewrite ?(len_32 F HF), ?HlS2; reflexivity).
  assert (S3 : sl 34 (34 + len FS) cd = Ok FS).
  { unfold cd. replace (F ++ S2 ++ FS ++ [c] ++ CA ++ [dd] ++ DP ++ EX) with ((F ++ S2) ++ FS ++ [c] ++ CA ++ [dd] ++ DP ++ EX)
      by now rewrite <- app_assoc.
    apply sl_parts; rewrite len_app, (len_32 F HF), HlS2; lia. }
  assert (S4 : sl (34 + len FS) (34 + len FS + 1) cd = Ok [c]).
  { unfold cd. replace (F ++ S2 ++ FS ++ [c] ++ CA ++ [dd] ++ DP ++ EX) with ((F ++ S2 ++ FS) ++ [c] ++ CA ++ [dd] ++ DP ++ EX)
      by now rewrite <- !app_assoc.
    apply sl_parts; rewrite !len_app, (len_32 F HF), HlS2; [lia | change (len [c]) with 1%Z; lia]. }
  assert (S5 : sl (34 + len FS + 1) (34 + len FS + 1 + len CA) cd = Ok CA).
  { unfold cd. replace (F ++ S2 ++ FS ++ [c] ++ CA ++ [dd] ++ DP ++ EX) with ((F ++ S2 ++ FS ++ [c]) ++ CA ++ [dd] ++ DP ++ EX)
      by now rewrite <- !app_assoc.
    apply sl_parts; rewrite !len_app, (len_32 F HF), HlS2; change (len [c]) with 1%Z; lia. }
  assert (S6 : sl (34 + len FS + 1 + len CA) (34 + len FS + 1 + len CA + 1) cd = Ok [dd]).
  { unfold cd. replace (F ++ S2 ++ FS ++ [c] ++ CA ++ [dd] ++ DP ++ EX) with ((F ++ S2 ++ FS ++ [c] ++ CA) ++ [dd] ++ DP ++ EX)
      by now rewrite <- !app_assoc.
    apply sl_parts; rewrite !len_app, (len_32 F HF), HlS2; change (len [c]) with 1%Z; [lia | change (len [dd]) with 1%Z; lia]. }
  assert (S7 : sl (34 + len FS + 1 + len CA + 1) (34 + len FS + 1 + len CA + 1 + len DP) cd = Ok DP).
  { unfold cd. replace (F ++ S2 ++ FS ++ [c] ++ CA ++ [dd] ++ DP ++ EX) with ((F ++ S2 ++ FS ++ [c] ++ CA ++ [dd]) ++ DP ++ EX)
      by now rewrite <- !app_assoc.
    apply sl_parts; rewrite !len_app, (len_32 F HF), HlS2; change (len [c]) with 1%Z; change (len [dd]) with 1%Z; lia. }
  assert (S8 : sl_from (34 + len FS + 1 + len CA + 1 + len DP) cd = Ok EX).
  { unfold cd. replace (F ++ S2 ++ FS ++ [c] ++ CA ++ [dd] ++ DP ++ EX) with ((F ++ S2 ++ FS ++ [c] ++ CA ++ [dd] ++ DP) ++ EX)
      by now rewrite <- !app_assoc.
    apply sl_from_parts; rewrite !len_app, (len_32 F HF), HlS2; change (len [c]) with 1%Z; change (len [dd]) with 1%Z; lia. }
  unfold relay, decode, encode, spec_proposal, spec_dst, spec_gas, spec_data.
  cbn [d_src d_dst d_nonce d_rid d_data].
  unfold generic_decode, generic_body. cbn [d_data]. fold cd.
  assert ((len cd <? 76)%Z = false) as -> by (apply Z.ltb_ge; unfold len; lia).
  rewrite S1. cbn [bind]. rewrite S2'. cbn [bind]. rewrite Hfs64.
  rewrite (wrap64s_small (34 + len FS)) by lia. rewrite S3. cbn [bind].
  rewrite (wrap64s_small (34 + len FS + 1)) by lia. rewrite S4. cbn [bind].
  rewrite be_to_N_single, Hc64.
  rewrite (wrap64s_small (34 + len FS + 1 + len CA)) by lia. rewrite S5. cbn [bind].
  rewrite (wrap64s_small (34 + len FS + 1 + len CA + 1)) by lia. rewrite S6. cbn [bind].
  rewrite be_to_N_single, Hd64.
  rewrite (wrap64s_small (34 + len FS + 1 + len CA + 1 + len DP)) by lia. rewrite S7. cbn [bind].
  rewrite S8. cbn [bind].
  assert (Hw0 : word_at 0 cd = be_to_N F) by (apply (word_at_parts [] F); [reflexivity | exact HF]).
  rewrite Hw0.
  cbn. rewrite left_pad_id by lia.
  assert (Hlp2 : left_pad 2 (be_bytes (N.of_nat (length FS))) = S2).
  { rewrite <- Hfs. rewrite <- HS2 at 1. apply left_pad_be_bytes_word. }
  rewrite Hlp2, (len_byte_of c CA Hc), (len_byte_of dd DP Hd).
  unfold cd. cbn [app]. repeat rewrite <- app_assoc. reflexivity.
Qed.

(* ================================================================================================================
   Bitcoin source *)

Lemma split_us_clean : forall s cur, forallb (fun c => negb (Byte.eqb c ch_us)) s = true ->
  split_us s cur = [rev cur ++ s].
Proof.
  induction s as [|c r IH]; intros cur H; cbn [split_us].
  - now rewrite app_nil_r.
  - cbn [forallb] in H. apply andb_true_iff in H as [Hc Hr]. apply negb_true_iff in Hc. rewrite Hc.
    rewrite (IH (c :: cur) Hr). cbn [rev]. now rewrite <- app_assoc.
Qed.

Lemma split_us_first : forall P S cur, forallb (fun c => negb (Byte.eqb c ch_us)) P = true ->
  split_us (P ++ ch_us :: S) cur = (rev cur ++ P) :: split_us S [].
Proof.
  induction P as [|c r IH]; intros S cur H; cbn [split_us app].
  - assert (Byte.eqb ch_us ch_us = true) as -> by reflexivity. now rewrite app_nil_r.
  - cbn [forallb] in H. apply andb_true_iff in H as [Hc Hr]. apply negb_true_iff in Hc. rewrite Hc.
    rewrite (IH S (c :: cur) Hr). cbn [rev]. now rewrite <- app_assoc.
Qed.

Lemma byte_eqb_eq : forall a b, Byte.eqb a b = true -> a = b.
Proof. intros a b H. now apply Byte.byte_dec_bl. Qed.

Lemma hex_not_us : forall c, is_hex c = true -> negb (Byte.eqb c ch_us) = true.
Proof.
  intros c H. apply negb_true_iff. destruct (Byte.eqb c ch_us) eqn:E; [|reflexivity].
  apply byte_eqb_eq in E. subst c. discriminate H.
Qed.

Lemma digit_not_us : forall c, is_digit c = true -> negb (Byte.eqb c ch_us) = true.
Proof.
  intros c H. apply negb_true_iff. destruct (Byte.eqb c ch_us) eqn:E; [|reflexivity].
  apply byte_eqb_eq in E. subst c. discriminate H.
Qed.

Lemma forallb_impl : forall (f g : byte -> bool) l, (forall c, f c = true -> g c = true) ->
  forallb f l = true -> forallb g l = true.
Proof.
  intros f g l Hfg H. rewrite forallb_forall in *. auto.
Qed.

(* on an even-length string of hex digits the lenient decoder (Go) and the strict one agree *)
Lemma hex_lenient_strict : forall n s, length s = (2 * n)%nat -> forallb is_hex s = true ->
  hex_lenient s = hex_strict s /\ length (hex_strict s) = n.
Proof.
  induction n as [|n IH]; intros s Hl Hh.
  - destruct s; [split; reflexivity | cbn in Hl; lia].
  - destruct s as [|a [|b r]]; try (cbn in Hl; lia).
    cbn [forallb] in Hh. apply andb_true_iff in Hh as [Ha Hh]. apply andb_true_iff in Hh as [Hb Hr].
    assert (Hlr : length r = (2 * n)%nat) by (cbn [length] in Hl; lia).
    destruct (IH r Hlr Hr) as [E L].
    unfold is_hex in Ha, Hb. cbn [hex_lenient hex_strict].
    destruct (hexval a); [|discriminate]. destruct (hexval b); [|discriminate].
    rewrite E. split; [reflexivity | cbn [length]; lia].
Qed.

Lemma wf_btc_view : forall d, wf_btc d = true ->
  exists H40 D, d_data d = "0"%byte :: "x"%byte :: H40 ++ ch_us :: D /\ length H40 = 40%nat /\
     forallb is_hex H40 = true /\ forallb is_digit D = true /\ D <> [] /\ (dec_value D <= 255)%N /\
     btc_addr_part d = H40 /\ btc_dom_part d = D /\ (d_amount d * BTC_SCALE < 2 ^ 256)%N.
Proof.
  intros d H. unfold wf_btc in H. cbv zeta in H.
  apply andb_true_iff in H as [H Ham]. apply andb_true_iff in H as [H Hdv]. apply andb_true_iff in H as [H Hdig].
  apply andb_true_iff in H as [H Hus]. apply andb_true_iff in H as [H Hhex]. apply andb_true_iff in H as [Hlen H0x].
  apply Nat.ltb_lt in Hlen. apply N.leb_le in Hdv. apply N.ltb_lt in Ham.
  unfold btc_addr_part, btc_dom_part in *.
  destruct (d_data d) as [|a [|b r]] eqn:Es; try discriminate.
  apply andb_true_iff in H0x as [Ha Hb]. apply byte_eqb_eq in Ha. apply byte_eqb_eq in Hb. subst a b.
  cbn [length] in Hlen. cbn [skipn] in Hhex.
  change (nth_error ("0"%byte :: "x"%byte :: r) 42) with (nth_error r 40) in Hus.
  change (skipn 43 ("0"%byte :: "x"%byte :: r)) with (skipn 41 r) in *.
  destruct (split_at r 40) as [H40 [r2 [E2 HH]]]; [lia|].
  rewrite E2 in Hus. rewrite nth_error_app2 in Hus by lia. rewrite HH, Nat.sub_diag in Hus.
  destruct r2 as [|c D]; [discriminate|]. cbn [nth_error] in Hus. apply byte_eqb_eq in Hus. subst c.
  assert (Hsk : skipn 41 r = D).
  { rewrite E2. replace (H40 ++ ch_us :: D) with ((H40 ++ [ch_us]) ++ D) by now rewrite <- app_assoc.
    apply skipn_len_app. rewrite app_length, HH. reflexivity. }
  assert (Hf : firstn 40 r = H40) by (rewrite E2; apply firstn_len_app; symmetry; exact HH).
  rewrite Hsk in *. rewrite Hf in *.
  exists H40, D. split; [now rewrite E2|]. split; [exact HH|]. split; [exact Hhex|]. split; [exact Hdig|].
  split.
  - intros ->. rewrite E2, app_length, HH in Hlen. cbn [length] in Hlen. lia.
  - repeat split; assumption.
Qed.

Lemma btc_decode_parts : forall src dst nonce rid hr am H40 D,
  length H40 = 40%nat -> forallb is_hex H40 = true -> forallb is_digit D = true -> D <> [] ->
  (dec_value D <= 255)%N ->
  btc_decode (mkDep src dst nonce rid ("0"%byte :: "x"%byte :: H40 ++ ch_us :: D) hr am) =
  Ok (mkMsg src (dec_value D) nonce rid Fungible [PB (be_bytes (am * BTC_SCALE)); PB (hex_strict H40)] None)
  /\ length (hex_strict H40) = 20%nat.
Proof.
  intros src dst nonce rid hr am H40 D HH Hhex Hdig HD Hdv.
  destruct (hex_lenient_strict 20 H40 HH Hhex) as [Els L20].
  split; [|exact L20].
  unfold btc_decode, btc_body. cbn [d_data d_amount].
  change ("0"%byte :: "x"%byte :: H40 ++ ch_us :: D) with (("0"%byte :: "x"%byte :: H40) ++ ch_us :: D).
  rewrite split_us_first.
  2:{ cbn [forallb]. apply (forallb_impl is_hex); [apply hex_not_us | exact Hhex]. }
  rewrite split_us_clean by (apply (forallb_impl is_digit); [apply digit_not_us | exact Hdig]).
  cbn [rev app].
  assert (Hp : parse_uint8 D = Some (dec_value D)).
  { unfold parse_uint8. destruct D; [contradiction|]. rewrite Hdig. apply N.leb_le in Hdv. now rewrite Hdv. }
  rewrite Hp.
  assert (Ha : hex_to_address ("0"%byte :: "x"%byte :: H40) = hex_strict H40).
  { unfold hex_to_address. cbn [strip0x]. change (Byte.eqb "0" "0" && (Byte.eqb "x" "x" || Byte.eqb "x" "X")) with true.
    cbv iota. rewrite HH. cbn [Nat.odd]. change (Nat.odd 40) with false. cbv iota.
    rewrite Els. unfold lastn. rewrite L20. cbn [Nat.sub skipn]. apply left_pad_id. lia. }
  rewrite Ha. reflexivity.
Qed.

Lemma u256_len_word20 : forall a, length a = 20%nat -> len_word a = u256 20.
Proof. intros a H. unfold len_word. rewrite H. apply left_pad_be_bytes. reflexivity. Qed.

Lemma btc_relay : forall dk d, wf SBtc dk d = true -> relay SBtc dk d = Ok (spec_proposal SBtc dk d).
Proof.
  intros dk d Hwf.
  assert (Hw : wf_btc d = true).
  { destruct dk; cbn [wf] in Hwf; try exact Hwf. now apply andb_true_iff in Hwf as [Hwf _]. }
  destruct (wf_btc_view d Hw) as (H40 & D & E & HH & Hhex & Hdig & HD & Hdv & Hap & Hdp & Ham).
  destruct d as [src dst nonce rid data hr am]. cbn [d_data d_amount] in *. subst data.
  destruct (btc_decode_parts src dst nonce rid hr am H40 D HH Hhex Hdig HD Hdv) as [Hdec L20].
  unfold relay, decode, spec_proposal, spec_dst, spec_gas, spec_data, spec_fungible_data.
  rewrite Hdec. cbn [bind d_src d_dst d_nonce d_rid d_amount]. rewrite Hap, Hdp.
  assert (Hlp : left_pad 32 (be_bytes (am * BTC_SCALE)) = u256 (am * BTC_SCALE)).
  { apply left_pad_be_bytes. exact Ham. }
  destruct dk; cbn [encode wf] in *.
  - cbn. rewrite Hlp, (u256_len_word20 _ L20). reflexivity.
  - cbn. rewrite Hlp, (u256_len_word20 _ L20). reflexivity.
  - apply andb_true_iff in Hwf as [_ Hfit]. cbn [d_amount] in Hfit. rewrite btc_fungible2.
    rewrite be_to_N_be_bytes.
    rewrite (uint64_fits _ Hfit).
    rewrite firstn_len_app by (unfold u256; now rewrite length_be_fixed).
    unfold u256 at 1. rewrite be_to_N_be_fixed. rewrite N.mod_small by exact Ham.
    replace (u256 (am * BTC_SCALE) ++ u256 20 ++ hex_strict H40) with ((u256 (am * BTC_SCALE) ++ u256 20) ++ hex_strict H40)
      by now rewrite <- app_assoc.
    rewrite (skipn_len_app _ (hex_strict H40) 64) by (unfold u256; rewrite app_length, !length_be_fixed; reflexivity).
    reflexivity.
Qed.

(* ================================================================================================================
   ERC1155: (uint256[], uint256[], bytes, bytes) *)

Lemma length_u256 : forall n, length (u256 n) = 32%nat.
Proof. intros. apply length_be_fixed. Qed.

Lemma be_to_N_u256 : forall n, (n < 2 ^ 256)%N -> be_to_N (u256 n) = n.
Proof. intros n H. unfold u256. rewrite be_to_N_be_fixed. apply N.mod_small. exact H. Qed.

Lemma length_flat_u256 : forall l, length (flat_map u256 l) = (32 * length l)%nat.
Proof. induction l as [|x r IH]; [reflexivity|]. cbn [flat_map length]. rewrite app_length, length_u256, IH. lia. Qed.

Lemma abi_words_flat : forall l rest, forallb (fun x => x <? 2 ^ 256)%N l = true ->
  abi_words (length l) (flat_map u256 l ++ rest) = l.
Proof.
  induction l as [|x r IH]; intros rest H; [reflexivity|].
  cbn [forallb] in H. apply andb_true_iff in H as [Hx Hr]. apply N.ltb_lt in Hx.
  cbn [length abi_words flat_map]. rewrite <- app_assoc.
  rewrite firstn_len_app by (now rewrite length_u256).
  rewrite (skipn_len_app (u256 x) _ 32) by (now rewrite length_u256).
  rewrite be_to_N_u256 by exact Hx. f_equal. apply IH. exact Hr.
Qed.

Lemma abi_len_prefix_at : forall P Hd Q Lw S o n,
  length Hd = 32%nat -> length Lw = 32%nat -> be_to_N Hd = o -> be_to_N Lw = n ->
  Z.of_N o = len (P ++ Hd ++ Q) ->
  (Z.of_N (o + 32 + n) <= len (P ++ Hd ++ Q ++ Lw ++ S))%Z -> (o + 32 + n < 2 ^ 63)%N ->
  abi_len_prefix (len P) (P ++ Hd ++ Q ++ Lw ++ S) = Ok ((Z.of_N o + 32)%Z, Z.of_N n).
Proof.
  intros P Hd Q Lw S o n HH HL Ho Hn Hoff Hfit Hbits.
  unfold abi_len_prefix.
  rewrite (sl_parts P Hd (Q ++ Lw ++ S)) by (rewrite ?(len_32 Hd HH); lia). cbn [bind].
  rewrite Ho.
  assert (Hlen : len (P ++ Hd ++ Q ++ Lw ++ S) = (Z.of_N o + 32 + len S)%Z).
  { replace (P ++ Hd ++ Q ++ Lw ++ S) with ((P ++ Hd ++ Q) ++ Lw ++ S) by now rewrite <- !app_assoc.
    rewrite len_app, <- Hoff, len_app, (len_32 Lw HL). lia. }
  pose proof (len_nonneg S).
  assert ((len (P ++ Hd ++ Q ++ Lw ++ S) <? Z.of_N (o + 32))%Z = false) as -> by (apply Z.ltb_ge; lia).
  unfold bitlen_gt63.
  assert ((2 ^ 63 <=? o + 32)%N = false) as -> by (apply N.leb_gt; lia).
  assert (HsL : sl (Z.of_N (o + 32) - 32) (Z.of_N (o + 32)) (P ++ Hd ++ Q ++ Lw ++ S) = Ok Lw).
  { replace (P ++ Hd ++ Q ++ Lw ++ S) with ((P ++ Hd ++ Q) ++ Lw ++ S) by now rewrite <- !app_assoc.
    apply sl_parts; rewrite <- Hoff, ?(len_32 Lw HL); lia. }
  rewrite HsL. cbn [bind]. rewrite Hn.
  assert ((2 ^ 63 <=? o + 32 + n)%N = false) as -> by (apply N.leb_gt; lia).
  assert ((len (P ++ Hd ++ Q ++ Lw ++ S) <? Z.of_N (o + 32 + n))%Z = false) as -> by (apply Z.ltb_ge; lia).
  f_equal. f_equal. lia.
Qed.

Lemma abi_uint_array_at : forall P Hd Q l S o,
  length Hd = 32%nat -> be_to_N Hd = o -> Z.of_N o = len (P ++ Hd ++ Q) ->
  forallb (fun x => x <? 2 ^ 256)%N l = true -> (N.of_nat (length l) < 2 ^ 32)%N -> (o < 2 ^ 62)%N ->
  abi_uint_array (len P) (P ++ Hd ++ Q ++ u256 (N.of_nat (length l)) ++ flat_map u256 l ++ S) = Ok l.
Proof.
  intros P Hd Q l S o HH Ho Hoff Hl Hn Hob.
  set (Lw := u256 (N.of_nat (length l))). set (body := flat_map u256 l ++ S).
  assert (HLw : length Lw = 32%nat) by apply length_u256.
  assert (Hn2 : (N.of_nat (length l) < 2 ^ 256)%N).
  { eapply N.lt_trans; [exact Hn|]. apply N.pow_lt_mono_r; lia. }
  assert (HbL : be_to_N Lw = N.of_nat (length l)) by (apply be_to_N_u256; exact Hn2).
  assert (Hlen : len (P ++ Hd ++ Q ++ Lw ++ body) = (Z.of_N o + 32 + len body)%Z).
  { replace (P ++ Hd ++ Q ++ Lw ++ body) with ((P ++ Hd ++ Q) ++ Lw ++ body) by now rewrite <- !app_assoc.
    rewrite len_app, <- Hoff, len_app, (len_32 Lw HLw). lia. }
  assert (Hbody : len body = (32 * Z.of_nat (length l) + len S)%Z).
  { unfold body. rewrite len_app. unfold len at 1. rewrite length_flat_u256. lia. }
  pose proof (len_nonneg S). pose proof (len_nonneg P). pose proof (len_nonneg Q).
  unfold abi_uint_array.
  assert ((len (P ++ Hd ++ Q ++ Lw ++ body) <? len P + 32)%Z = false) as ->.
  { apply Z.ltb_ge. rewrite Hlen, Hoff, !len_app, (len_32 Hd HH). pose proof (len_nonneg body). lia. }
  rewrite (abi_len_prefix_at P Hd Q Lw body o (N.of_nat (length l)) HH HLw Ho HbL Hoff).
  2:{ rewrite Hlen, Hbody. lia. }
  2:{ assert (2 ^ 32 < 2 ^ 62)%N by (apply N.pow_lt_mono_r; lia).
      assert (2 ^ 62 + 2 ^ 62 = 2 ^ 63)%N by reflexivity. lia. }
  cbn [bind].
  replace (P ++ Hd ++ Q ++ Lw ++ body) with ((P ++ Hd ++ Q ++ Lw) ++ body) by now rewrite <- !app_assoc.
  rewrite (sl_from_parts (P ++ Hd ++ Q ++ Lw) body).
  2:{ replace (P ++ Hd ++ Q ++ Lw) with ((P ++ Hd ++ Q) ++ Lw) by now rewrite <- !app_assoc.
      rewrite len_app, <- Hoff, (len_32 Lw HLw). reflexivity. }
  cbn [bind].
  assert ((len body <? 32 * Z.of_N (N.of_nat (length l)))%Z = false) as -> by (apply Z.ltb_ge; rewrite Hbody; lia).
  rewrite nat_N_Z, Nat2Z.id. unfold body. now rewrite abi_words_flat.
Qed.

Lemma abi_bytes_at : forall P Hd Q b S o,
  length Hd = 32%nat -> be_to_N Hd = o -> Z.of_N o = len (P ++ Hd ++ Q) ->
  (N.of_nat (length b) < 2 ^ 32)%N -> (o < 2 ^ 62)%N ->
  abi_bytes (len P) (P ++ Hd ++ Q ++ u256 (N.of_nat (length b)) ++ b ++ S) = Ok b.
Proof.
  intros P Hd Q b S o HH Ho Hoff Hn Hob.
  set (Lw := u256 (N.of_nat (length b))).
  assert (HLw : length Lw = 32%nat) by apply length_u256.
  assert (Hn2 : (N.of_nat (length b) < 2 ^ 256)%N).
  { eapply N.lt_trans; [exact Hn|]. apply N.pow_lt_mono_r; lia. }
  assert (HbL : be_to_N Lw = N.of_nat (length b)) by (apply be_to_N_u256; exact Hn2).
  assert (Hlen : len (P ++ Hd ++ Q ++ Lw ++ b ++ S) = (Z.of_N o + 32 + len b + len S)%Z).
  { replace (P ++ Hd ++ Q ++ Lw ++ b ++ S) with ((P ++ Hd ++ Q) ++ Lw ++ b ++ S) by now rewrite <- !app_assoc.
    rewrite len_app, <- Hoff, !len_app, (len_32 Lw HLw). lia. }
  pose proof (len_nonneg S). pose proof (len_nonneg P). pose proof (len_nonneg Q). pose proof (len_nonneg b).
  unfold abi_bytes.
  assert ((len (P ++ Hd ++ Q ++ Lw ++ b ++ S) <? len P + 32)%Z = false) as ->.
  { apply Z.ltb_ge. rewrite Hlen, Hoff, !len_app, (len_32 Hd HH). lia. }
  rewrite (abi_len_prefix_at P Hd Q Lw (b ++ S) o (N.of_nat (length b)) HH HLw Ho HbL Hoff).
  2:{ rewrite Hlen. change (len b) with (Z.of_nat (length b)). lia. }
  2:{ assert (2 ^ 32 < 2 ^ 62)%N by (apply N.pow_lt_mono_r; lia).
      assert (2 ^ 62 + 2 ^ 62 = 2 ^ 63)%N by reflexivity. lia. }
  cbn [bind].
  replace (P ++ Hd ++ Q ++ Lw ++ b ++ S) with ((P ++ Hd ++ Q ++ Lw) ++ b ++ S) by now rewrite <- !app_assoc.
  apply sl_parts.
  - replace (P ++ Hd ++ Q ++ Lw) with ((P ++ Hd ++ Q) ++ Lw) by now rewrite <- !app_assoc.
    rewrite len_app, <- Hoff, (len_32 Lw HLw). reflexivity.
  - replace (P ++ Hd ++ Q ++ Lw) with ((P ++ Hd ++ Q) ++ Lw) by now rewrite <- !app_assoc.
    rewrite len_app, <- Hoff, (len_32 Lw HLw). change (len b) with (Z.of_nat (length b)). lia.
Qed.

Ltac reassoc := repeat rewrite <- app_assoc; cbn [app]; repeat rewrite <- app_assoc; reflexivity.

Lemma length_pad_right32 : forall b, (length b <= length (pad_right32 b) <= length b + 32)%nat.
Proof.
  intros b. unfold pad_right32. rewrite app_length, repeat_length.
  pose proof (Nat.mod_upper_bound (32 - length b mod 32) 32). lia.
Qed.

Lemma erc1155_roundtrip_decode : forall src dst nonce rid hr am ids ams rc td,
  wf_erc1155_parts ids ams rc td = true ->
  erc1155_decode (mkDep src dst nonce rid (abi_encode ids ams rc td) hr am) =
  Ok (mkMsg src dst nonce rid SemiFungible [PI ids; PI ams; PB rc; PB td] None).
Proof.
  intros src dst nonce rid hr am ids ams rc td Hwf.
  unfold wf_erc1155_parts in Hwf.
  apply andb_true_iff in Hwf as [Hwf Htd]. apply andb_true_iff in Hwf as [Hwf Hn2].
  apply andb_true_iff in Hwf as [Hwf Hn1]. apply andb_true_iff in Hwf as [Hwf Hrc].
  apply andb_true_iff in Hwf as [Hids Hams].
  apply N.ltb_lt in Htd. apply N.ltb_lt in Hn2. apply N.ltb_lt in Hn1. apply Nat.eqb_eq in Hrc.
  unfold nlen in Htd.
  unfold erc1155_decode, erc1155_body. cbn [d_data].
  unfold abi_encode. cbv zeta.
  set (f1 := flat_map u256 ids). set (f2 := flat_map u256 ams).
  set (p3 := pad_right32 rc). set (p4 := pad_right32 td).
  unfold abi_enc_array, abi_enc_bytes. fold f1 f2 p3 p4.
  set (L1 := u256 (N.of_nat (length ids))). set (L2 := u256 (N.of_nat (length ams))).
  set (L3 := u256 (N.of_nat (length rc))). set (L4 := u256 (N.of_nat (length td))).
  assert (Hf1 : length f1 = (32 * length ids)%nat) by apply length_flat_u256.
  assert (Hf2 : length f2 = (32 * length ams)%nat) by apply length_flat_u256.
  pose proof (length_pad_right32 rc) as Hp3. fold p3 in Hp3.
  pose proof (length_pad_right32 td) as Hp4. fold p4 in Hp4.
  assert (HL1 : length L1 = 32%nat) by apply length_u256. assert (HL2 : length L2 = 32%nat) by apply length_u256.
  assert (HL3 : length L3 = 32%nat) by apply length_u256. assert (HL4 : length L4 = 32%nat) by apply length_u256.
  rewrite !app_length, HL1, HL2, HL3, Hf1, Hf2.
  set (o1 := 128%nat). set (o2 := (o1 + (32 + 32 * length ids))%nat).
  set (o3 := (o2 + (32 + 32 * length ams))%nat). set (o4 := (o3 + (32 + length p3))%nat).
  set (H1 := u256 (N.of_nat o1)). set (H2 := u256 (N.of_nat o2)). set (H3 := u256 (N.of_nat o3)). set (H4 := u256 (N.of_nat o4)).
  assert (HH1 : length H1 = 32%nat) by apply length_u256. assert (HH2 : length H2 = 32%nat) by apply length_u256.
  assert (HH3 : length H3 = 32%nat) by apply length_u256. assert (HH4 : length H4 = 32%nat) by apply length_u256.
  assert (P32 : (2 ^ 32 < 2 ^ 62)%N) by (apply N.pow_lt_mono_r; lia).
  assert (P62 : (2 ^ 62 < 2 ^ 256)%N) by (apply N.pow_lt_mono_r; lia).
  assert (P40 : (2 ^ 32 * 64 + 1000 < 2 ^ 62)%N) by (vm_compute; reflexivity).
  assert (Bo1 : (N.of_nat o1 < 2 ^ 62)%N) by (unfold o1; lia).
  assert (Bo2 : (N.of_nat o2 < 2 ^ 62)%N) by (unfold o2, o1; lia).
  assert (Bo3 : (N.of_nat o3 < 2 ^ 62)%N) by (unfold o3, o2, o1; lia).
  assert (Bo4 : (N.of_nat o4 < 2 ^ 62)%N) by (unfold o4, o3, o2, o1; lia).
  assert (Hrc32 : (N.of_nat (length rc) < 2 ^ 32)%N) by (rewrite Hrc; vm_compute; reflexivity).
  set (cd := H1 ++ H2 ++ H3 ++ H4 ++ (L1 ++ f1) ++ (L2 ++ f2) ++ (L3 ++ p3) ++ L4 ++ p4).
  (* ids *)
  assert (A1 : abi_uint_array 0 cd = Ok ids).
  { replace cd with ([] ++ H1 ++ (H2 ++ H3 ++ H4) ++ L1 ++ f1 ++ ((L2 ++ f2) ++ (L3 ++ p3) ++ L4 ++ p4)) by (unfold cd; reassoc).
    apply (abi_uint_array_at [] H1 (H2 ++ H3 ++ H4) ids _ (N.of_nat o1)); try assumption.
    - apply be_to_N_u256. lia.
    - cbn [app]. unfold len. rewrite !app_length, HH1, HH2, HH3, HH4. reflexivity. }
  assert (A2 : abi_uint_array 32 cd = Ok ams).
  { replace cd with (H1 ++ H2 ++ (H3 ++ H4 ++ L1 ++ f1) ++ L2 ++ f2 ++ ((L3 ++ p3) ++ L4 ++ p4)) by (unfold cd; reassoc).
    replace 32%Z with (len H1) by (now rewrite (len_32 H1 HH1)).
    apply (abi_uint_array_at H1 H2 (H3 ++ H4 ++ L1 ++ f1) ams _ (N.of_nat o2)); try assumption.
    - apply be_to_N_u256. lia.
    - unfold len. rewrite !app_length, HH1, HH2, HH3, HH4, HL1, Hf1. unfold o2, o1. lia. }
  assert (A3 : abi_bytes 64 cd = Ok rc).
  { replace cd with ((H1 ++ H2) ++ H3 ++ (H4 ++ L1 ++ f1 ++ L2 ++ f2) ++ L3 ++ rc ++
                     (repeat x00 ((32 - length rc mod 32) mod 32) ++ L4 ++ p4)) by (unfold cd, p3, pad_right32; reassoc).
    replace 64%Z with (len (H1 ++ H2)) by (now rewrite len_app, (len_32 H1 HH1), (len_32 H2 HH2)).
    apply (abi_bytes_at (H1 ++ H2) H3 (H4 ++ L1 ++ f1 ++ L2 ++ f2) rc _ (N.of_nat o3)); try assumption.
    - apply be_to_N_u256. lia.
    - unfold len. rewrite !app_length, HH1, HH2, HH3, HH4, HL1, Hf1, HL2, Hf2. unfold o3, o2, o1. lia. }
  assert (A4 : abi_bytes 96 cd = Ok td).
  { replace cd with ((H1 ++ H2 ++ H3) ++ H4 ++ (L1 ++ f1 ++ L2 ++ f2 ++ L3 ++ p3) ++ L4 ++ td ++
                     (repeat x00 ((32 - length td mod 32) mod 32))) by (unfold cd, p4, pad_right32; reassoc).
    replace 96%Z with (len (H1 ++ H2 ++ H3)) by (now rewrite !len_app, (len_32 H1 HH1), (len_32 H2 HH2), (len_32 H3 HH3)).
    apply (abi_bytes_at (H1 ++ H2 ++ H3) H4 (L1 ++ f1 ++ L2 ++ f2 ++ L3 ++ p3) td _ (N.of_nat o4)); try assumption.
    - apply be_to_N_u256. lia.
    - unfold len. rewrite !app_length, HH1, HH2, HH3, HH4, HL1, Hf1, HL2, Hf2, HL3. unfold o4, o3, o2, o1. lia. }
  fold cd. rewrite A1. cbn [bind]. rewrite A2. cbn [bind]. rewrite A3. cbn [bind]. rewrite A4. reflexivity.
Qed.

(* ---- envelopes (for ALL inputs, well-formed or not) --------------------------------------------------------------- *)

Ltac inv_ok :=
  repeat match goal with
  | H : Ok _ = Ok _ |- _ => injection H as <-
  | H : bind ?e _ = Ok _ |- _ => destruct e eqn:?; cbn [bind] in H; try discriminate H
  | H : (if ?c then _ else _) = Ok _ |- _ => destruct c eqn:?; try discriminate H
  | H : (let '(_, _) := ?x in _) = Ok _ |- _ => destruct x
  | H : match ?x with _ => _ end = Ok _ |- _ => destruct x eqn:?; try discriminate H
  end.

Definition env_of (d : deposit) (m : message) : Prop :=
  m_src m = d_src d /\ m_nonce m = d_nonce d /\ m_rid m = d_rid d.

Lemma wrap_env : forall d t r m, wrap d t r = Ok m ->
  env_of d m /\ m_dst m = d_dst d /\ m_type m = t /\ r = Ok (m_payload m, m_gas m).
Proof.
  intros d t r m H. unfold wrap in H. destruct r as [[p g]| | |]; try discriminate.
  injection H as <-. repeat split; reflexivity.
Qed.

Lemma decode_env : forall sk d m, decode sk d = Ok m ->
  env_of d m /\ (sk <> SBtc -> m_dst m = d_dst d).
Proof.
  intros sk d m H. destruct sk; cbn [decode] in H;
    try (apply wrap_env in H; destruct H as (He & Hd & _); split; [exact He | intros _; exact Hd]).
  unfold btc_decode in H. destruct (btc_body (d_data d) (d_amount d)) as [[dst p]| | |]; try discriminate.
  injection H as <-. split; [repeat split; reflexivity | intros C; contradiction].
Qed.

Lemma encode_env : forall dk m p, encode dk m = Ok p ->
  p_src p = m_src m /\ p_dst p = m_dst m /\ p_nonce p = m_nonce m /\ p_rid p = m_rid m.
Proof.
  intros dk m p H. destruct dk; cbn [encode] in H.
  - unfold evm_encode in H. destruct (m_type m).
    + unfold evm_erc20 in H. inv_ok; repeat split; reflexivity.
    + unfold evm_erc721 in H. inv_ok; repeat split; reflexivity.
    + unfold evm_erc1155 in H. inv_ok; repeat split; reflexivity.
    + unfold evm_generic in H. inv_ok; repeat split; reflexivity.
  - unfold sub_encode in H. inv_ok; repeat split; reflexivity.
  - unfold btc_encode in H. inv_ok; repeat split; reflexivity.
Qed.

Lemma relay_envelope : forall sk dk d p, relay sk dk d = Ok p ->
  p_src p = d_src d /\ p_nonce p = d_nonce d /\ p_rid p = d_rid d /\ (sk <> SBtc -> p_dst p = d_dst d).
Proof.
  intros sk dk d p H. unfold relay in H.
  destruct (decode sk d) as [m| | |] eqn:Ed; cbn [bind] in H; try discriminate.
  destruct (decode_env sk d m Ed) as [(E1 & E2 & E3) E4].
  destruct (encode_env dk m p H) as (F1 & F2 & F3 & F4).
  repeat split; try congruence. intros Hs. rewrite F2. auto.
Qed.

(* ---- ERC1155 through the relay --------------------------------------------------------------------------------------- *)

Lemma erc1155_relay_evm : forall d, wf_erc1155 d = true ->
  relay SErc1155 DEvm d = Ok (spec_proposal SErc1155 DEvm d).
Proof.
  intros d Hwf. unfold wf_erc1155 in Hwf.
  destruct (erc1155_decode d) as [m| | |] eqn:Ed; try discriminate.
  destruct (decode_env SErc1155 d m Ed) as [(E1 & E2 & E3) E4]. specialize (E4 ltac:(discriminate)).
  assert (Ety : m_type m = SemiFungible /\ m_gas m = None).
  { unfold erc1155_decode in Ed. apply wrap_env in Ed. destruct Ed as (_ & _ & Ht & Hr). split; [exact Ht|].
    unfold erc1155_body in Hr. inv_ok. injection Hr as _ Hg. now rewrite <- Hg. }
  destruct Ety as [Ety Egas].
  destruct m as [s t n r ty pl g]. cbn [m_src m_dst m_nonce m_rid m_type m_gas] in *. subst.
  destruct pl as [|[?|ids] [|[?|ams] [|[rc|?] [|[td|?] [|? ?]]]]]; try discriminate.
  apply andb_true_iff in Hwf as [Hparts Heq]. apply bytes_eqb_eq in Heq.
  unfold wf_erc1155_parts in Hparts.
  assert (Hrc : (length rc =? 20)%nat = true).
  { repeat (apply andb_true_iff in Hparts as [Hparts ?]). assumption. }
  unfold relay, decode. rewrite Ed. cbn [bind encode evm_encode m_type].
  unfold evm_erc1155. cbn [m_payload length Nat.eqb negb pint pb nth_error bind]. rewrite Hrc. cbn [negb bind].
  unfold spec_proposal, spec_dst, spec_gas, spec_data, mk_prop. cbn [m_src m_dst m_nonce m_rid m_gas].
  now rewrite Heq.
Qed.

Lemma wf_erc1155_canonical : forall src dst nonce rid hr am ids ams rc td,
  wf_erc1155_parts ids ams rc td = true ->
  wf_erc1155 (mkDep src dst nonce rid (abi_encode ids ams rc td) hr am) = true.
Proof.
  intros. unfold wf_erc1155. rewrite erc1155_roundtrip_decode by assumption.
  cbn [d_data]. rewrite H. apply bytes_eqb_refl.
Qed.

(* ---- everything together ------------------------------------------------------------------------------------------------ *)

Lemma relay_spec : forall sk dk d, wf sk dk d = true -> relay sk dk d = Ok (spec_proposal sk dk d).
Proof.
  intros sk dk d H. destruct sk, dk; cbn [wf] in H; try discriminate.
  - now apply erc20_relay_evm.
  - apply andb_true_iff in H as [H1 H2]. apply negb_true_iff in H2. now apply erc20_relay_sub.
  - apply andb_true_iff in H as [H H3]. apply andb_true_iff in H as [H1 H2]. apply negb_true_iff in H2.
    now apply erc20_relay_btc.
  - now apply erc721_relay_evm.
  - now apply erc1155_relay_evm.
  - now apply generic_relay_evm.
  - now apply sub_relay_evm.
  - now apply sub_relay_sub.
  - apply andb_true_iff in H as [H1 H2]. now apply sub_relay_btc.
  - now apply (btc_relay DEvm).
  - now apply (btc_relay DSub).
  - now apply (btc_relay DBtcK).
Qed.

Lemma optN_eqb_eq : forall a b, optN_eqb a b = true <-> a = b.
Proof.
  intros [x|] [y|]; cbn; split; intros H; try discriminate; try reflexivity.
  - apply N.eqb_eq in H. now subst.
  - injection H as ->. apply N.eqb_refl.
Qed.

Lemma pdata_eqb_eq : forall a b, pdata_eqb a b = true <-> a = b.
Proof.
  intros [x|x r] [y|y s]; cbn; split; intros H; try discriminate.
  - apply bytes_eqb_eq in H. now subst.
  - injection H as ->. apply bytes_eqb_refl.
  - apply andb_true_iff in H as [H1 H2]. apply N.eqb_eq in H1. apply bytes_eqb_eq in H2. now subst.
  - injection H as -> ->. now rewrite N.eqb_refl, bytes_eqb_refl.
Qed.

Lemma proposal_eqb_eq : forall a b, proposal_eqb a b = true <-> a = b.
Proof.
  intros [a1 a2 a3 a4 a5 a6] [b1 b2 b3 b4 b5 b6]. unfold proposal_eqb.
  cbn [p_src p_dst p_nonce p_rid p_gas p_data]. split.
  - intros H. repeat (apply andb_true_iff in H as [H ?]).
    apply N.eqb_eq in H. apply N.eqb_eq in H4. apply N.eqb_eq in H3. apply bytes_eqb_eq in H2.
    apply optN_eqb_eq in H1. apply pdata_eqb_eq in H0. now subst.
  - intros H. injection H as -> -> -> -> -> ->.
    rewrite !N.eqb_refl, bytes_eqb_refl. cbn [andb].
    assert (optN_eqb b5 b5 = true) as -> by now apply optN_eqb_eq.
    now apply pdata_eqb_eq.
Qed.

Lemma spec_ok_model : forall sk dk d, spec_ok sk dk d (relay sk dk d) = true.
Proof.
  intros sk dk d. unfold spec_ok. destruct (wf sk dk d) eqn:Hwf; [|reflexivity].
  rewrite (relay_spec sk dk d Hwf). now apply proposal_eqb_eq.
Qed.

Lemma spec_ok_sound : forall sk dk d impl, spec_ok sk dk d impl = true -> wf sk dk d = true ->
  impl = Ok (spec_proposal sk dk d).
Proof.
  intros sk dk d impl H Hwf. unfold spec_ok in H. rewrite Hwf in H.
  destruct impl as [p| | |]; try discriminate. apply proposal_eqb_eq in H. now subst.
Qed.

(* ---- the named statements of DESIGN.md section 5 ---------------------------------------------------------------------- *)

Lemma erc20_relay_data : forall d, wf_erc20 d = true ->
  exists p, relay SErc20 DEvm d = Ok p /\ p_data p = DBytes (spec_erc20_data d) /\ p_gas p = spec_erc20_gas d.
Proof. intros d H. eexists. split; [apply erc20_relay_evm; exact H|]. split; reflexivity. Qed.

(* the reference spelled out on the parts of the calldata *)
Lemma erc20_spec_explicit : forall src dst nonce rid am A W R F M hr amt,
  length A = 32%nat -> length W = 32%nat -> be_to_N W = N.of_nat (length R) -> hr_amount A hr amt ->
  length F = 32%nat -> M <> [] ->
  spec_erc20_data (mkDep src dst nonce rid (A ++ W ++ R ++ []) hr am) = amt ++ W ++ R /\
  spec_erc20_data (mkDep src dst nonce rid (A ++ W ++ R ++ F ++ M) hr am)
    = amt ++ W ++ R ++ u256 (be_to_N F + OPTIONAL_REVERT_GAS) ++ M.
Proof.
  intros. split.
  - now apply (spec_erc20_notail src dst nonce rid am A W R hr amt).
  - now apply (spec_erc20_tail src dst nonce rid am A W R F M hr amt).
Qed.

Lemma erc721_roundtrip : forall d, wf_erc721 d = true ->
  exists p, relay SErc721 DEvm d = Ok p /\ p_data p = DBytes (d_data d) /\ p_gas p = None.
Proof. intros d H. eexists. split; [apply erc721_relay_evm; exact H|]. split; reflexivity. Qed.

Lemma generic_roundtrip : forall d, wf_generic d = true ->
  exists p, relay SGeneric DEvm d = Ok p /\ p_data p = DBytes (d_data d) /\
            p_gas p = Some (word_at 0 (d_data d) mod 2 ^ 64)%N.
Proof. intros d H. eexists. split; [apply generic_relay_evm; exact H|]. split; reflexivity. Qed.

Lemma erc1155_roundtrip : forall src dst nonce rid hr am ids ams rc td,
  wf_erc1155_parts ids ams rc td = true ->
  relay SErc1155 DEvm (mkDep src dst nonce rid (abi_encode ids ams rc td) hr am) =
  Ok (mkProp src dst nonce rid None (DBytes (abi_encode ids ams rc td))).
Proof.
  intros. rewrite erc1155_relay_evm by (now apply wf_erc1155_canonical). reflexivity.
Qed.

Lemma substrate_relay_data : forall d dk, wf_sub d = true -> dk <> DBtcK ->
  exists p, relay SSub dk d = Ok p /\ p_data p = DBytes (d_data d).
Proof.
  intros d dk H Hk. destruct dk; [| |contradiction]; eexists.
  - split; [now apply sub_relay_evm | reflexivity].
  - split; [now apply sub_relay_sub | reflexivity].
Qed.

Lemma btc_source_scaled : forall d, wf_btc d = true ->
  exists p addr, relay SBtc DEvm d = Ok p /\ length addr = 20%nat /\
    p_data p = DBytes (u256 (d_amount d * BTC_SCALE) ++ u256 20 ++ addr) /\
    be_to_N (u256 (d_amount d * BTC_SCALE)) = (d_amount d * BTC_SCALE)%N /\
    p_dst p = dec_value (btc_dom_part d).
Proof.
  intros d H. destruct (wf_btc_view d H) as (H40 & D & E & HH & Hhex & Hdig & HD & Hdv & Hap & Hdp & Ham).
  exists (spec_proposal SBtc DEvm d), (hex_strict (btc_addr_part d)).
  split; [apply (btc_relay DEvm); exact H|]. split.
  - rewrite Hap. apply (hex_lenient_strict 20 H40 HH Hhex).
  - split; [reflexivity|]. split; [apply be_to_N_u256; exact Ham | reflexivity].
Qed.

Lemma btc_dest_scaled : forall sk d, wf sk DBtcK d = true ->
  exists p, relay sk DBtcK d = Ok p /\
    p_data p = DBtc (be_to_N (firstn 32 (spec_fungible_data sk d)) / BTC_SCALE) (skipn 64 (spec_fungible_data sk d)).
Proof. intros sk d H. eexists. split; [apply relay_spec; exact H | reflexivity]. Qed.

Lemma gas_limit_meta : forall sk dk d p, wf sk dk d = true -> relay sk dk d = Ok p -> p_gas p = spec_gas sk dk d.
Proof. intros sk dk d p H E. rewrite (relay_spec sk dk d H) in E. injection E as <-. reflexivity. Qed.

(* ---- sequences --------------------------------------------------------------------------------------------------------- *)

Lemma forallb_ext_local : forall (A : Type) (f g : A -> bool) (l : list A),
  (forall a, f a = g a) -> forallb f l = forallb g l.
Proof. intros A f g l H. induction l as [|a l IH]; [reflexivity|]. cbn [forallb]. now rewrite H, IH. Qed.

Definition read_ok_it (it : item) (fr : bool * res proposal) : bool :=
  let '(sk, dk, d) := it in read_ok sk dk d (fst fr) (snd fr).

Lemma item_ok_fast_eq : forall it rs, item_ok_fast it rs = forallb (read_ok_it it) rs.
Proof.
  intros [[sk dk] d] rs. destruct rs as [|fr0 rs0]; [reflexivity|].
  set (rs := fr0 :: rs0). unfold item_ok_fast. fold rs.
  assert (Hgoal : (if wf sk dk d then
            let sp := spec_proposal sk dk d in
            forallb (fun fr => match snd fr with Ok p => proposal_eqb p sp | Err => fst fr | _ => false end) rs
          else true) = forallb (read_ok_it (sk, dk, d)) rs).
  { destruct (wf sk dk d) eqn:Hwf.
    - cbv zeta. apply forallb_ext_local. intros [f r]. unfold read_ok_it, read_ok, spec_ok. rewrite Hwf. cbn [fst snd].
      destruct r as [p| | |]; cbn [is_err].
      + now rewrite Bool.andb_false_r.
      + now rewrite Bool.andb_true_r, Bool.orb_false_r.
      + now rewrite Bool.andb_false_r.
      + now rewrite Bool.andb_false_r.
    - symmetry. apply forallb_forall. intros [f r] _. unfold read_ok_it, read_ok, spec_ok. rewrite Hwf.
      apply Bool.orb_true_r. }
  exact Hgoal.
Qed.

Lemma reads_of_forallb : forall (P : bool * res proposal -> bool) occs i,
  forallb P (reads_of occs i) = true <->
  (forall o, In o occs -> o_dep o = i -> forall r, In r (o_reads o) -> P (o_fail o, r) = true).
Proof.
  intros P occs i. rewrite forallb_forall. unfold reads_of. split.
  - intros H o Ho Hi r Hr. apply H. apply in_flat_map. exists o. split; [exact Ho|].
    rewrite <- Hi, Nat.eqb_refl. now apply in_map.
  - intros H fr Hfr. apply in_flat_map in Hfr. destruct Hfr as (o & Ho & Hin).
    destruct (Nat.eqb (o_dep o) i) eqn:E; [|contradiction].
    apply Nat.eqb_eq in E. apply in_map_iff in Hin. destruct Hin as (r & <- & Hr). now apply (H o).
Qed.

Lemma items_ok_fast_spec : forall pool occs i,
  items_ok_fast pool occs i = true <->
  (forall j it, nth_error pool j = Some it -> forallb (read_ok_it it) (reads_of occs (i + j)) = true).
Proof.
  induction pool as [|it0 rest IH]; intros occs i; cbn [items_ok_fast].
  - split; [|reflexivity]. intros _ j it Hj. destruct j; discriminate.
  - rewrite Bool.andb_true_iff, item_ok_fast_eq, IH. split.
    + intros [H0 HS] j it Hj. destruct j as [|j].
      * cbn in Hj. injection Hj as <-. now rewrite Nat.add_0_r.
      * cbn in Hj. rewrite Nat.add_succ_r. now apply (HS j).
    + intros H. split.
      * specialize (H 0%nat it0 eq_refl). now rewrite Nat.add_0_r in H.
      * intros j it Hj. specialize (H (S j) it Hj). now rewrite Nat.add_succ_r in H.
Qed.

Lemma seq_ok_fast_eq : forall pool occs, seq_ok_fast pool occs = seq_ok pool occs.
Proof.
  intros pool occs. apply Bool.eq_iff_eq_true. unfold seq_ok_fast, seq_ok.
  rewrite Bool.andb_true_iff, items_ok_fast_spec, !forallb_forall. split.
  - intros [Hr Hi] o Ho. specialize (Hr o Ho). apply Nat.ltb_lt in Hr.
    unfold occ_ok. destruct (nth_error pool (o_dep o)) as [it|] eqn:E.
    + specialize (Hi _ _ E). cbn [Nat.add] in Hi.
      destruct it as [[sk dk] d]. apply forallb_forall. intros r Hrd.
      exact (proj1 (reads_of_forallb _ occs (o_dep o)) Hi o Ho eq_refl r Hrd).
    + apply nth_error_None in E. lia.
  - intros H. split.
    + intros o Ho. specialize (H o Ho). unfold occ_ok in H. apply Nat.ltb_lt.
      destruct (nth_error pool (o_dep o)) eqn:E; [|discriminate].
      apply nth_error_Some. congruence.
    + intros j it Hj. cbn [Nat.add]. apply reads_of_forallb. intros o Ho Hd r Hrd.
      specialize (H o Ho). unfold occ_ok in H. rewrite Hd, Hj in H. destruct it as [[sk dk] d].
      rewrite forallb_forall in H. exact (H r Hrd).
Qed.

Lemma step_relay_ok : forall pool s, fst s < length pool ->
  occ_ok pool (mkOcc (fst s) (snd s) [step_relay pool s]) = true.
Proof.
  intros pool [i f] Hlt. cbn [fst snd] in *. unfold occ_ok, step_relay. cbn [o_dep o_fail o_reads fst snd].
  destruct (nth_error pool i) as [[[sk dk] d]|] eqn:E.
  - cbn [forallb]. rewrite Bool.andb_true_r. unfold read_ok. destruct f; [reflexivity|].
    cbn [andb orb]. apply spec_ok_model.
  - apply nth_error_None in E. lia.
Qed.

Lemma seq_ok_model : forall pool steps, steps_wf pool steps = true ->
  seq_ok pool (map (model_occ pool) steps) = true.
Proof.
  intros pool steps Hwf. unfold seq_ok. apply forallb_forall. intros o Ho.
  apply in_map_iff in Ho. destruct Ho as ([s k] & <- & Hin).
  unfold steps_wf in Hwf. rewrite forallb_forall in Hwf. specialize (Hwf _ Hin). cbn [fst] in Hwf.
  apply Nat.ltb_lt in Hwf. pose proof (step_relay_ok pool s Hwf) as H1.
  unfold occ_ok, model_occ in *. cbn [o_dep o_fail o_reads fst snd] in *.
  destruct (nth_error pool (fst s)) as [[[sk dk] d]|]; [|discriminate].
  cbn [forallb] in H1. rewrite Bool.andb_true_r in H1.
  apply forallb_forall. intros r Hr. apply repeat_spec in Hr. now subst r.
Qed.

(* the model's answer for a step depends on that step's deposit alone: not on its position, not on the other
   steps, not on the other deposits of the pool *)
Lemma seq_relay_pointwise : forall pool pre s post,
  nth_error (seq_relay pool (pre ++ s :: post)) (length pre) = Some (step_relay pool s).
Proof.
  intros pool pre s post. unfold seq_relay. rewrite map_app. cbn [map].
  rewrite nth_error_app2; rewrite map_length; [|lia]. now rewrite Nat.sub_diag.
Qed.

Lemma step_relay_local : forall pool pool' i sk dk d,
  nth_error pool i = Some (sk, dk, d) -> nth_error pool' i = Some (sk, dk, d) ->
  step_relay pool (i, false) = relay sk dk d /\ step_relay pool' (i, false) = relay sk dk d.
Proof. intros pool pool' i sk dk d H H'. unfold step_relay. cbn [fst snd]. unfold item in *. rewrite H, H'. split; reflexivity. Qed.

Lemma seq_position_independent : forall pool pool' pre pre' post post' i j sk dk d,
  nth_error pool i = Some (sk, dk, d) -> nth_error pool' j = Some (sk, dk, d) ->
  nth_error (seq_relay pool (pre ++ (i, false) :: post)) (length pre) = Some (relay sk dk d) /\
  nth_error (seq_relay pool' (pre' ++ (j, false) :: post')) (length pre') = Some (relay sk dk d).
Proof.
  intros pool pool' pre pre' post post' i j sk dk d H H'. rewrite !seq_relay_pointwise.
  unfold step_relay. cbn [fst snd]. unfold item in *. rewrite H, H'. split; reflexivity.
Qed.

(* what the judge accepts: every reading of every step on a well-formed deposit is the reference proposal
   (or nothing, where the lookup was made to fail); hence a deposit handled twice gives equal proposals and a
   proposal read twice is unchanged *)
Lemma seq_ok_sound : forall pool occs o sk dk d r,
  seq_ok pool occs = true -> In o occs -> nth_error pool (o_dep o) = Some (sk, dk, d) -> wf sk dk d = true ->
  In r (o_reads o) -> r = Ok (spec_proposal sk dk d) \/ (o_fail o = true /\ r = Err).
Proof.
  intros pool occs o sk dk d r H Ho E Hwf Hr. unfold seq_ok in H. rewrite forallb_forall in H.
  specialize (H o Ho). unfold occ_ok in H. rewrite E in H. rewrite forallb_forall in H. specialize (H r Hr).
  unfold read_ok in H. apply Bool.orb_true_iff in H. destruct H as [H|H].
  - right. apply Bool.andb_true_iff in H. destruct H as [Hf He]. split; [exact Hf|].
    destruct r; try discriminate. reflexivity.
  - left. now apply spec_ok_sound.
Qed.

Lemma seq_repeat_equal : forall pool occs o1 o2 sk dk d r1 r2,
  seq_ok pool occs = true -> In o1 occs -> In o2 occs ->
  nth_error pool (o_dep o1) = Some (sk, dk, d) -> nth_error pool (o_dep o2) = Some (sk, dk, d) ->
  wf sk dk d = true -> In r1 (o_reads o1) -> In r2 (o_reads o2) -> r1 <> Err -> r2 <> Err -> r1 = r2.
Proof.
  intros pool occs o1 o2 sk dk d r1 r2 H H1 H2 E1 E2 Hwf R1 R2 N1 N2.
  destruct (seq_ok_sound _ _ _ _ _ _ _ H H1 E1 Hwf R1) as [->|[_ ->]]; [|contradiction].
  destruct (seq_ok_sound _ _ _ _ _ _ _ H H2 E2 Hwf R2) as [->|[_ ->]]; [|contradiction].
  reflexivity.
Qed.

(* ---- inputs a handler is not supposed to look at --------------------------------------------------------------------
   The deposit record carries every input some handler uses; what a handler of ANOTHER kind does with it: nothing.
   The handler response is an input of the ERC20 / native handler only (rewrite 1), the separate amount of the
   Bitcoin handler only, and the Bitcoin handler takes the destination from the payload.  Neither the relay, nor
   the wire format, nor the reference depend on the other fields. *)
Definition with_hr (d : deposit) (hr : bytes) : deposit :=
  mkDep (d_src d) (d_dst d) (d_nonce d) (d_rid d) (d_data d) hr (d_amount d).
Definition with_amount (d : deposit) (a : N) : deposit :=
  mkDep (d_src d) (d_dst d) (d_nonce d) (d_rid d) (d_data d) (d_hr d) a.
Definition with_dst (d : deposit) (x : N) : deposit :=
  mkDep (d_src d) x (d_nonce d) (d_rid d) (d_data d) (d_hr d) (d_amount d).

Lemma hr_ignored : forall sk dk d hr, sk <> SErc20 ->
  relay sk dk (with_hr d hr) = relay sk dk d /\ wf sk dk (with_hr d hr) = wf sk dk d /\
  spec_proposal sk dk (with_hr d hr) = spec_proposal sk dk d.
Proof.
  intros sk dk [s t n r cd h a] hr Hk. destruct sk; try congruence; destruct dk; repeat split; reflexivity.
Qed.

Lemma amount_ignored : forall sk dk d a, sk <> SBtc ->
  relay sk dk (with_amount d a) = relay sk dk d /\ wf sk dk (with_amount d a) = wf sk dk d /\
  spec_proposal sk dk (with_amount d a) = spec_proposal sk dk d.
Proof.
  intros sk dk [s t n r cd h a0] a Hk. destruct sk; try congruence; destruct dk; repeat split; reflexivity.
Qed.

Lemma btc_dst_ignored : forall dk d x,
  relay SBtc dk (with_dst d x) = relay SBtc dk d /\ wf SBtc dk (with_dst d x) = wf SBtc dk d /\
  spec_proposal SBtc dk (with_dst d x) = spec_proposal SBtc dk d.
Proof. intros dk [s t n r cd h a] x. destruct dk; repeat split; reflexivity. Qed.
