From Coq Require Import List ZArith NArith Bool Lia.
Import ListNotations.
From SygmaV Require Import Model.C04.
Local Open Scope Z_scope.

Lemma accept_safe_conf p head blk conf :
  uses_conf p = true -> accept p head blk conf = true -> conf <= confirmations head blk.
Proof.
  unfold confirmations; destruct p; cbn; intros Hu Ha; try discriminate;
    try (apply negb_true_iff, Z.ltb_ge in Ha; lia);
    apply Z.gtb_lt in Ha.
  (* the retry paths compare with [blk + conf]; conf may be any integer *)
  all: lia.
Qed.

Lemma accept_safe_finalized p head blk conf :
  uses_conf p = false -> accept p head blk conf = true -> blk <= head.
Proof.
  destruct p; cbn; intros Hu Ha; try discriminate.
  - apply Z.gtb_lt in Ha; lia.
  - apply negb_true_iff, Z.ltb_ge in Ha; lia.
Qed.

Lemma btc_scan_exact head blk conf :
  accept BtcScan head blk conf = true <-> conf + 1 <= confirmations head blk.
Proof.
  unfold confirmations; cbn. rewrite negb_true_iff, Z.ltb_ge. lia.
Qed.

Lemma retry_exact p head blk conf :
  (p = EvmRetryTx \/ p = EvmRetryMsg \/ p = BtcRetryMsg) ->
  (accept p head blk conf = true <-> conf + 2 <= confirmations head blk).
Proof.
  unfold confirmations; intros [-> | [-> | ->]]; cbn; rewrite Z.gtb_lt; lia.
Qed.

Lemma sub_retry_msg_exact head blk conf :
  accept SubRetryMsg head blk conf = true <-> blk < head.
Proof. cbn; rewrite Z.gtb_lt; lia. Qed.

Lemma sub_retry_evt_exact head blk conf :
  accept SubRetryEvt head blk conf = true <-> blk <= head.
Proof. cbn; rewrite negb_true_iff, Z.ltb_ge; lia. Qed.

Lemma accept_buried p head blk conf : accept p head blk conf = true -> buried p head blk conf = true.
Proof.
  intros Ha. unfold buried. destruct (uses_conf p) eqn:Hu; apply Z.leb_le.
  - eapply accept_safe_conf; eauto.
  - eapply accept_safe_finalized; eauto.
Qed.

(* Prop-level reading of [buried]. *)
Lemma buried_spec p head b conf :
  buried p head b conf = true ->
  (uses_conf p = true -> conf <= confirmations head b) /\ (uses_conf p = false -> b <= head).
Proof.
  unfold buried. destruct (uses_conf p); intros Hb; apply Z.leb_le in Hb;
    split; intros Hu; try discriminate; exact Hb.
Qed.

Lemma single_ok_model p head blk conf :
  single_ok p head blk conf (processed p head blk conf) = true.
Proof.
  unfold single_ok, processed. apply andb_true_iff; split.
  - destruct (accept p head blk conf) eqn:Ha; [|reflexivity].
    apply accept_buried in Ha. destruct (range_path p); cbn; rewrite Ha; reflexivity.
  - destruct p; try reflexivity.
    destruct (conf + 1 <=? confirmations head blk) eqn:Hc; [|reflexivity].
    apply Z.leb_le in Hc. apply btc_scan_exact in Hc. rewrite Hc. cbn. rewrite Z.eqb_refl. reflexivity.
Qed.

(* Whatever the judge accepts: every block the implementation processed is buried deep enough. *)
Lemma single_ok_safe p head blk conf blocks b :
  single_ok p head blk conf blocks = true -> In b blocks ->
  (uses_conf p = true -> conf <= confirmations head b) /\ (uses_conf p = false -> b <= head).
Proof.
  unfold single_ok. intros Hok Hin. apply andb_true_iff in Hok as [Hs _].
  rewrite forallb_forall in Hs. apply buried_spec. apply Hs. exact Hin.
Qed.

(* ... and the regular scan did process the cursor block once it had the extra confirmation. *)
Lemma single_ok_live head blk conf blocks :
  single_ok BtcScan head blk conf blocks = true -> conf + 1 <= confirmations head blk -> In blk blocks.
Proof.
  unfold single_ok. intros Hok Hc. apply andb_true_iff in Hok as [_ Hl].
  apply Z.leb_le in Hc. rewrite Hc in Hl. apply existsb_exists in Hl as [x [Hin Hx]].
  apply Z.eqb_eq in Hx. subst. exact Hin.
Qed.

(* The model processes nothing but the block it was asked about. *)
Lemma processed_only_blk p head blk conf b : In b (processed p head blk conf) -> b = blk.
Proof.
  unfold processed. destruct (accept p head blk conf); [|contradiction].
  destruct (range_path p); cbn; intuition.
Qed.

(* Width: an in-domain Substrate retry height that the guards accept fits the 32-bit block number
   (so the Uint64() conversion on the way to GetBlockHash is exact), and an accepted BTC retry
   height / scan block is below 2^63 whenever the confirmations are not negative. *)
Lemma sub_evt_fetch_exact head blk conf :
  in_domain SubRetryEvt head blk = true -> accept SubRetryEvt head blk conf = true ->
  0 <= blk < 2 ^ 32.
Proof.
  unfold in_domain, in_uint32, in_u128. cbn [accept]. intros Hd Ha.
  apply negb_true_iff, Z.ltb_ge in Ha.
  apply andb_true_iff in Hd as [Hh Hb].
  apply andb_true_iff in Hh as [Hh0 Hh1]. apply andb_true_iff in Hb as [Hb0 Hb1].
  apply Z.leb_le in Hh0, Hb0. apply Z.ltb_lt in Hh1, Hb1. lia.
Qed.

Lemma btc_accept_fits_int64 p head blk conf :
  (p = BtcScan \/ p = BtcRetryMsg) -> in_domain p head blk = true -> 0 <= conf ->
  accept p head blk conf = true -> blk < 2 ^ 63.
Proof.
  intros Hp Hd Hc Ha.
  assert (Hh : head < 2 ^ 63).
  { destruct Hp as [-> | ->]; cbn in Hd; unfold in_int64 in Hd;
      apply andb_true_iff in Hd as [_ Hd]; apply Z.ltb_lt in Hd; exact Hd. }
  destruct Hp as [-> | ->]; cbn in Ha.
  - apply negb_true_iff, Z.ltb_ge in Ha. lia.
  - apply Z.gtb_lt in Ha. lia.
Qed.

(* ---- the scan loop over arbitrary poll histories (answered and failed head lookups) ---- *)

Lemma scan_index_ge cur conf k polls k' b :
  In (k', b) (scan cur conf k polls) -> (k <= k')%N.
Proof.
  revert cur k; induction polls as [|[h|] r IH]; cbn; intros cur k Hin; [contradiction| |].
  - destruct (h - _ <? conf).
    + apply IH in Hin; lia.
    + destruct Hin as [Heq | Hin]; [inversion Heq; lia | apply IH in Hin; lia].
  - apply IH in Hin; lia.
Qed.

(* Safety: whatever the history, a block is handled only at a poll that was answered, and the head
   of that very poll gives it at least conf (in fact conf+1) confirmations. *)
Lemma scan_safe cur conf k polls k' b :
  In (k', b) (scan cur conf k polls) ->
  exists h, nth_error polls (N.to_nat (k' - k)) = Some (Some h) /\ conf + 1 <= confirmations h b.
Proof.
  revert cur k; induction polls as [|[h|] r IH]; cbn; intros cur k Hin; [contradiction| |].
  - set (c := match cur with Some c => c | None => h end) in *.
    destruct (h - c <? conf) eqn:Hlt.
    + pose proof (scan_index_ge _ _ _ _ _ _ Hin) as Hge.
      destruct (IH _ _ Hin) as [h' [Hn Hc]]. exists h'; split; [|exact Hc].
      replace (N.to_nat (k' - k)) with (S (N.to_nat (k' - (k + 1)))) by lia. exact Hn.
    + destruct Hin as [Heq | Hin].
      * inversion Heq; subst. exists h. replace (k' - k')%N with 0%N by lia. split; [reflexivity|].
        apply Z.ltb_ge in Hlt. unfold confirmations. lia.
      * pose proof (scan_index_ge _ _ _ _ _ _ Hin) as Hge.
        destruct (IH _ _ Hin) as [h' [Hn Hc]]. exists h'; split; [|exact Hc].
        replace (N.to_nat (k' - k)) with (S (N.to_nat (k' - (k + 1)))) by lia. exact Hn.
  - pose proof (scan_index_ge _ _ _ _ _ _ Hin) as Hge.
    destruct (IH _ _ Hin) as [h' [Hn Hc]]. exists h'; split; [|exact Hc].
    replace (N.to_nat (k' - k)) with (S (N.to_nat (k' - (k + 1)))) by lia. exact Hn.
Qed.

(* A failed poll handles nothing. *)
Lemma scan_failed_poll cur conf k r b : ~ In (k, b) (scan cur conf k (None :: r)).
Proof. cbn. intros Hin. apply scan_index_ge in Hin. lia. Qed.

(* Blocks are handled in order, contiguously from the cursor, one per poll at most. *)
Lemma scan_contiguous c conf k polls :
  map snd (scan (Some c) conf k polls) =
  map (fun i => c + Z.of_nat i) (seq 0 (length (scan (Some c) conf k polls))).
Proof.
  revert c k; induction polls as [|[h|] r IH]; cbn; intros c k; [reflexivity| |apply IH].
  destruct (h - c <? conf); [apply IH|].
  cbn. f_equal; [lia|]. rewrite IH. rewrite <- seq_shift, map_map.
  apply map_ext; intros; lia.
Qed.

(* Liveness: at the first answered poll (the loop's current iteration) where the cursor block has one
   more confirmation than required, it is handled at that very poll. *)
Lemma scan_live_now c conf k h r :
  conf + 1 <= confirmations h c -> In (k, c) (scan (Some c) conf k (Some h :: r)).
Proof.
  unfold confirmations; intros Hc; cbn.
  destruct (h - c <? conf) eqn:Hlt; [apply Z.ltb_lt in Hlt; lia | left; reflexivity].
Qed.

Lemma learn_ge best h m : learn best (Some h) = Some m -> h <= m.
Proof. destruct best as [x|]; cbn; intros H; inversion H; lia. Qed.

(* the entries of the model's output that follow a poll belong to later polls *)
Lemma at_poll_later cur conf k polls : at_poll k (scan cur conf (k + 1)%N polls) = false.
Proof.
  destruct (scan cur conf (k + 1)%N polls) as [|[k' b] l] eqn:Hs; [reflexivity|]. cbn.
  assert (Hk : (k + 1 <= k')%N) by (eapply scan_index_ge; rewrite Hs; left; reflexivity).
  apply N.eqb_neq. lia.
Qed.

Lemma take_poll_later k c m conf obs : at_poll k obs = false -> take_poll k c m conf obs = Some (c, obs).
Proof. destruct obs as [|[k' b] l]; cbn; [reflexivity|]. intros ->. reflexivity. Qed.

Lemma hist_ok_model cur best conf k polls : hist_ok cur best conf k polls (scan cur conf k polls) = true.
Proof.
  revert cur best k; induction polls as [|[h|] r IH]; cbn [hist_ok scan]; intros cur best k; [reflexivity| |].
  - set (c := match cur with Some c => c | None => h end).
    assert (Hcur : match cur with Some c0 => Some c0 | None => Some h end = Some c) by (destruct cur; reflexivity).
    rewrite Hcur.
    destruct (learn best (Some h)) as [m|] eqn:Hl; [|destruct best; discriminate].
    apply learn_ge in Hl as Hm.
    destruct (h - c <? conf) eqn:Hlt.
    + rewrite at_poll_later.
      replace (conf + 1 <=? confirmations h c) with false
        by (symmetry; apply Z.leb_gt; apply Z.ltb_lt in Hlt; unfold confirmations; lia).
      cbn. apply IH.
    + cbn [at_poll]. rewrite N.eqb_refl. cbn [take_poll]. rewrite N.eqb_refl, Z.eqb_refl.
      apply Z.ltb_ge in Hlt.
      replace (conf <=? confirmations m c) with true
        by (symmetry; apply Z.leb_le; unfold confirmations; lia).
      cbn [andb]. rewrite take_poll_later by apply at_poll_later. apply IH.
  - rewrite at_poll_later.
    replace (match cur with Some c => Some c | None => None end) with cur by (destruct cur; reflexivity).
    destruct cur; cbn; apply IH.
Qed.

Lemma learn_cases best a m :
  learn best a = Some m -> best = Some m \/ a = Some m.
Proof.
  destruct best as [x|], a as [h|]; cbn; intros H; inversion H; subst; auto.
  destruct (Z.max_spec x h) as [[_ ->]|[_ ->]]; auto.
Qed.

(* what [take_poll] consumes was handled at poll k and is buried under m *)
Lemma take_poll_spec k c m conf obs c' rest k' b :
  take_poll k c m conf obs = Some (c', rest) -> In (k', b) obs ->
  (k' = k /\ conf <= confirmations m b) \/ In (k', b) rest.
Proof.
  revert c; induction obs as [|[k1 b1] l IH]; cbn; intros c Ht Hin; [contradiction|].
  destruct (N.eqb_spec k1 k) as [->|Hne].
  - destruct (Z.eqb b1 c && (conf <=? confirmations m b1)) eqn:Hc; [|discriminate].
    apply andb_true_iff in Hc as [_ Hc]. apply Z.leb_le in Hc.
    destruct Hin as [Heq|Hin]; [inversion Heq; subst; left; split; [reflexivity|exact Hc]|].
    eapply IH; eauto.
  - inversion Ht; subst. right. exact Hin.
Qed.

(* The judge is sound w.r.t. the Prop-level reading: if it accepts an observation, every handled
   block had conf confirmations under a head the loop had been served by then - at that poll or at
   an earlier one (or the head [best] known before the history starts). *)
Lemma hist_ok_safe_gen cur best conf k polls obs k' b :
  hist_ok cur best conf k polls obs = true -> In (k', b) obs ->
  (k <= k')%N /\
  ((exists m, best = Some m /\ conf <= confirmations m b) \/
   (exists j h, (j <= N.to_nat (k' - k))%nat /\ nth_error polls j = Some (Some h) /\ conf <= confirmations h b)).
Proof.
  revert cur best k obs; induction polls as [|a r IH]; cbn [hist_ok]; intros cur best k obs Hok Hin.
  - destruct obs; [contradiction|discriminate].
  - set (best' := learn best a) in *.
    set (cur' := match cur with Some c => Some c | None => a end) in *.
    assert (Hlater : forall cur2 obs2, hist_ok cur2 best' conf (k + 1)%N r obs2 = true -> In (k', b) obs2 ->
      (k <= k')%N /\
      ((exists m, best = Some m /\ conf <= confirmations m b) \/
       (exists j h, (j <= N.to_nat (k' - k))%nat /\ nth_error (a :: r) j = Some (Some h) /\ conf <= confirmations h b))).
    { intros cur2 obs2 Hok2 Hin2. destruct (IH _ _ _ _ Hok2 Hin2) as [Hk [[m [Hb Hc]]|[j [h [Hj [Hn Hc]]]]]].
      - split; [lia|]. apply learn_cases in Hb as [Hb| ->].
        + left. exists m. split; [exact Hb|exact Hc].
        + right. exists 0%nat, m. split; [lia|]. split; [reflexivity|exact Hc].
      - split; [lia|]. right. exists (S j), h. split; [lia|]. split; [exact Hn|exact Hc]. }
    destruct (at_poll k obs) eqn:Hat.
    + destruct cur' as [c|]; [|discriminate]. destruct best' as [m|] eqn:Hb; [|discriminate].
      destruct (take_poll k c m conf obs) as [[c' rest]|] eqn:Ht; [|discriminate].
      destruct (take_poll_spec _ _ _ _ _ _ _ _ _ Ht Hin) as [[-> Hc]|Hrest].
      * split; [lia|]. apply learn_cases in Hb as [Hb| ->].
        -- left. exists m. split; [exact Hb|exact Hc].
        -- right. exists 0%nat, m. split; [lia|]. split; [reflexivity|exact Hc].
      * eapply Hlater; eauto.
    + apply andb_true_iff in Hok as [_ Hok]. eapply Hlater; eauto.
Qed.

Lemma hist_ok_safe cur conf k polls obs k' b :
  hist_ok cur None conf k polls obs = true -> In (k', b) obs ->
  exists j h, (j <= N.to_nat (k' - k))%nat /\ nth_error polls j = Some (Some h) /\
    conf <= confirmations h b /\ (k <= k')%N.
Proof.
  intros Hok Hin. destruct (hist_ok_safe_gen _ _ _ _ _ _ _ _ Hok Hin) as [Hk [[m [Hb _]]|[j [h [Hj [Hn Hc]]]]]].
  - discriminate.
  - exists j, h. repeat split; assumption.
Qed.

(* ... and a poll that was served a head under which the cursor block has the extra confirmation
   did handle it: the first entry the judge accepts for such a poll is the cursor block. *)
Lemma hist_ok_live c best conf k h r obs :
  hist_ok (Some c) best conf k (Some h :: r) obs = true -> conf + 1 <= confirmations h c -> In (k, c) obs.
Proof.
  cbn [hist_ok]. intros Hok Hc.
  destruct (at_poll k obs) eqn:Hat.
  - destruct obs as [|[k1 b1] l]; [discriminate|]. cbn in Hat. apply N.eqb_eq in Hat. subst k1.
    destruct (learn best (Some h)) as [m|]; [|discriminate].
    cbn [take_poll] in Hok. rewrite N.eqb_refl in Hok.
    destruct (Z.eqb_spec b1 c) as [->|Hne]; [left; reflexivity|]. cbn in Hok. discriminate.
  - apply Z.leb_le in Hc. rewrite Hc in Hok. discriminate.
Qed.

(* ---- several evaluations: batches, sequences, concurrent schedules ---- *)
From Coq Require Import Permutation.

Lemma all2_Forall2 {A B : Type} (f : A -> B -> bool) l l' :
  all2 f l l' = true <-> Forall2 (fun a b => f a b = true) l l'.
Proof.
  revert l'; induction l as [|a r IH]; intros [|b r']; cbn; split; intros H;
    try discriminate; try constructor; try solve [inversion H].
  - apply andb_true_iff in H as [H _]; exact H.
  - apply andb_true_iff in H as [_ H]; apply IH; exact H.
  - inversion H as [|? ? ? ? Hab Hr]; subst. apply andb_true_iff; split; [exact Hab|apply IH; exact Hr].
Qed.

(* The judge of a batch / sequence / concurrent schedule IS the single-evaluation judge applied to
   every evaluation with the head that evaluation was served and the blocks that evaluation
   processed - nothing else enters. *)
Lemma multi_pointwise conf evs obs :
  multi_ok conf evs obs = true <-> Forall2 (fun e o => eval_judge conf e o = true) evs obs.
Proof. unfold multi_ok. apply all2_Forall2. Qed.

Lemma eval_ok_model p oh ob conf : eval_ok p oh ob conf (processed_opt p oh ob conf) = true.
Proof.
  unfold eval_ok, processed_opt. destruct oh as [h|]; [|reflexivity].
  destruct ob as [b|]; [apply single_ok_model|reflexivity].
Qed.

Lemma multi_ok_model conf evs : multi_ok conf evs (multi_model conf evs) = true.
Proof.
  unfold multi_ok, multi_model. induction evs as [|[[p oh] ob] r IH]; cbn; [reflexivity|].
  rewrite eval_ok_model. exact IH.
Qed.

(* Whatever the judge accepts for one evaluation: something was processed only if both the head and
   the event block were known, and every processed block is buried deep enough under THAT head. *)
Lemma eval_ok_safe p oh ob conf blocks b :
  eval_ok p oh ob conf blocks = true -> In b blocks ->
  exists head blk, oh = Some head /\ ob = Some blk /\
    (uses_conf p = true -> conf <= confirmations head b) /\ (uses_conf p = false -> b <= head).
Proof.
  unfold eval_ok. intros Hok Hin.
  destruct oh as [h|]; [destruct ob as [k|]|].
  - exists h, k. split; [reflexivity|]. split; [reflexivity|]. eapply single_ok_safe; eauto.
  - destruct blocks; [contradiction|discriminate].
  - destruct blocks; [contradiction|discriminate].
Qed.

Lemma multi_ok_safe conf evs obs p oh ob o b :
  multi_ok conf evs obs = true -> In ((p, oh, ob), o) (combine evs obs) -> In b o ->
  exists head blk, oh = Some head /\ ob = Some blk /\
    (uses_conf p = true -> conf <= confirmations head b) /\ (uses_conf p = false -> b <= head).
Proof.
  intros Hok Hin Hb. apply multi_pointwise in Hok.
  induction Hok as [|e o' evs' obs' He Hr IH]; cbn in Hin; [contradiction|].
  destruct Hin as [Heq|Hin]; [|apply IH; exact Hin].
  inversion Heq; subst. cbn in He. eapply eval_ok_safe; eauto.
Qed.

Lemma all2_combine {A B : Type} (f : A -> B -> bool) l l' :
  length l = length l' -> all2 f l l' = forallb (fun ab => f (fst ab) (snd ab)) (combine l l').
Proof.
  revert l'; induction l as [|a r IH]; intros [|b r'] Hlen; cbn in *; try discriminate; [reflexivity|].
  rewrite IH by (injection Hlen; auto). reflexivity.
Qed.

Lemma forallb_perm {A : Type} (f : A -> bool) l l' : Permutation l l' -> forallb f l = forallb f l'.
Proof.
  induction 1 as [|x l l' _ IH|x y l|l l' l'' _ IH1 _ IH2]; cbn.
  - reflexivity.
  - rewrite IH; reflexivity.
  - destruct (f x), (f y); reflexivity.
  - rewrite IH1; exact IH2.
Qed.

(* The verdict does not depend on the order in which the evaluations are listed: whichever schedule
   (order of arrival, of completion, any interleaving) pairs each evaluation with its own head and
   its own processed blocks gives the same verdict. *)
Lemma multi_schedule_independent conf evs obs evs' obs' :
  length evs = length obs -> length evs' = length obs' ->
  Permutation (combine evs obs) (combine evs' obs') ->
  multi_ok conf evs obs = multi_ok conf evs' obs'.
Proof.
  intros Hl Hl' Hp. unfold multi_ok. rewrite !all2_combine by assumption. apply forallb_perm. exact Hp.
Qed.

(* one head, several requests, flat observation *)
Lemma batch_ok_model p head conf blks : batch_ok p head conf (batch_model p head conf blks) = true.
Proof.
  unfold batch_ok, batch_model. induction blks as [|b r IH]; cbn; [reflexivity|].
  rewrite forallb_app, IH, andb_true_r.
  unfold processed. destruct (accept p head b conf) eqn:Ha; [|reflexivity].
  apply accept_buried in Ha. destruct (range_path p); cbn; rewrite Ha; reflexivity.
Qed.

Lemma batch_ok_safe p head conf blocks b :
  batch_ok p head conf blocks = true -> In b blocks ->
  (uses_conf p = true -> conf <= confirmations head b) /\ (uses_conf p = false -> b <= head).
Proof.
  unfold batch_ok. intros Hok Hin. rewrite forallb_forall in Hok. apply buried_spec. apply Hok. exact Hin.
Qed.

(* judging the flat observation = judging every request's share of it, however it is split *)
Lemma batch_pointwise p head conf (obs : list (list Z)) :
  batch_ok p head conf (concat obs) = forallb (batch_ok p head conf) obs.
Proof.
  unfold batch_ok. induction obs as [|o r IH]; cbn; [reflexivity|]. rewrite forallb_app, IH. reflexivity.
Qed.

(* ---- the lookups that establish the bound ---- *)

Lemma best_known_from best l m : fold_left learn l best = Some m -> best = Some m \/ In (Some m) l.
Proof.
  revert best; induction l as [|a l IH]; cbn; intros best H; [left; exact H|].
  apply IH in H as [H|H]; [|right; right; exact H].
  apply learn_cases in H as [H|H]; [left; exact H|right; left; exact H].
Qed.

(* the bound the judge uses is a head that was really served *)
Lemma best_known_served answers m : best_known answers = Some m -> In (Some m) answers.
Proof. unfold best_known. intros H. apply best_known_from in H as [H|H]; [discriminate|exact H]. Qed.

Lemma is_nil_spec {A : Type} (l : list A) : is_nil l = true -> l = [].
Proof. destruct l; [reflexivity|discriminate]. Qed.

Lemma buried_mono p h m b conf : h <= m -> buried p h b conf = true -> buried p m b conf = true.
Proof.
  unfold buried, confirmations. intros Hm. destruct (uses_conf p); rewrite !Z.leb_le; lia.
Qed.

Lemma learn_fold_ge l best h : best = Some h -> exists m, fold_left learn l best = Some m /\ h <= m.
Proof.
  revert best h; induction l as [|a l IH]; cbn; intros best h ->; [exists h; split; [reflexivity|lia]|].
  destruct a as [x|]; cbn.
  - destruct (IH (Some (Z.max h x)) _ eq_refl) as [m [Hm Hle]]. exists m. split; [exact Hm|lia].
  - apply IH. reflexivity.
Qed.

Lemma bound_ok_safe p obound conf blocks b :
  bound_ok p obound conf blocks = true -> In b blocks ->
  exists h, obound = Some h /\
    (uses_conf p = true -> conf <= confirmations h b) /\ (uses_conf p = false -> b <= h).
Proof.
  unfold bound_ok. destruct obound as [h|]; intros Hok Hin.
  - exists h. split; [reflexivity|]. eapply batch_ok_safe; eauto.
  - apply is_nil_spec in Hok. subst. contradiction.
Qed.

(* Without an answered lookup nothing may be processed. *)
Lemma bound_ok_unknown p conf blocks : bound_ok p None conf blocks = true -> blocks = [].
Proof. apply is_nil_spec. Qed.

Lemma batch_opt_model p ohead conf blks : bound_ok p ohead conf (batch_model_opt p ohead conf blks) = true.
Proof. destruct ohead as [h|]; cbn; [apply batch_ok_model|reflexivity]. Qed.

Lemma best_known_ge answers h : In (Some h) answers -> exists m, best_known answers = Some m /\ h <= m.
Proof.
  unfold best_known. generalize (@None Z) as best.
  induction answers as [|a l IH]; cbn; intros best Hin; [contradiction|].
  destruct Hin as [->|Hin]; [|apply IH; exact Hin].
  destruct (learn best (Some h)) as [x|] eqn:Hl; [|destruct best; discriminate].
  apply learn_ge in Hl. destruct (learn_fold_ge l (Some x) x eq_refl) as [m [Hm Hle]].
  exists m. split; [exact Hm|lia].
Qed.

(* The code as it is - one lookup per evaluation, decided on its answer, an error ends the evaluation -
   is accepted whatever else the handler has been served, before or afterwards. *)
Lemma lookup_ok_model p answers a oblk conf :
  In a answers -> lookup_ok p answers oblk conf (processed_opt p a oblk conf) = true.
Proof.
  unfold lookup_ok, processed_opt. intros Hin.
  destruct oblk as [blk|]; [|destruct a; reflexivity].
  destruct a as [h|].
  - destruct (best_known_ge _ _ Hin) as [m [-> Hle]]. cbn [bound_ok].
    unfold batch_ok, processed. destruct (accept p h blk conf) eqn:Ha; [|reflexivity].
    apply accept_buried in Ha. apply (buried_mono _ _ m _ _ Hle) in Ha.
    destruct (range_path p); cbn; rewrite Ha; reflexivity.
  - destruct (best_known answers); reflexivity.
Qed.

(* a sequence of evaluations on one handler is judged evaluation by evaluation *)
Lemma scripted_pointwise p conf evs :
  scripted_ok p conf evs = true <->
  Forall (fun e => match e with (oblk, served, blocks) => lookup_ok p served oblk conf blocks = true end) evs.
Proof.
  unfold scripted_ok. rewrite forallb_forall, Forall_forall.
  split; intros H [[oblk served] blocks] Hin; apply (H _ Hin).
Qed.

Lemma scripted_ok_model_gen p conf seen script blks :
  scripted_ok p conf
    (combine (combine blks (served_so_far seen script blks)) (scripted_model p conf script blks)) = true.
Proof.
  revert seen script; induction blks as [|ob r IH]; intros seen script; [reflexivity|].
  cbn [served_so_far scripted_model combine]. unfold scripted_ok. cbn [forallb].
  apply andb_true_iff; split; [|apply IH].
  destruct script as [|a more]; cbn [lookup_model firstn].
  - destruct ob; unfold lookup_ok; [|reflexivity]. destruct (best_known (seen ++ [])); reflexivity.
  - apply lookup_ok_model. apply in_or_app. right. left. reflexivity.
Qed.

(* Whatever the judge accepts: something was processed only if the event block was known and a
   lookup was answered, and every processed block is buried deep enough under a head that was
   really served to this evaluation. *)
Lemma lookup_ok_safe p answers oblk conf blocks b :
  lookup_ok p answers oblk conf blocks = true -> In b blocks ->
  exists h blk, In (Some h) answers /\ oblk = Some blk /\
    (uses_conf p = true -> conf <= confirmations h b) /\ (uses_conf p = false -> b <= h).
Proof.
  unfold lookup_ok. destruct oblk as [blk|]; intros Hok Hin.
  - destruct (bound_ok_safe _ _ _ _ _ Hok Hin) as [h [Hb Hs]].
    exists h, blk. split; [apply best_known_served; exact Hb|]. split; [reflexivity|exact Hs].
  - apply is_nil_spec in Hok. subst. contradiction.
Qed.

(* All lookups failed (or none was made): nothing may be processed. *)
Lemma lookup_ok_all_failed p answers oblk conf blocks :
  (forall a, In a answers -> a = None) -> lookup_ok p answers oblk conf blocks = true -> blocks = [].
Proof.
  intros Hall Hok. destruct blocks as [|b l]; [reflexivity|].
  destruct (lookup_ok_safe _ _ _ _ _ b Hok (or_introl eq_refl)) as [h [_ [Hin _]]].
  apply Hall in Hin. discriminate.
Qed.

(* EVM retry by transaction hash, receipts with logs *)
Lemma mine_idx_nth logs k i :
  In i (mine_idx logs k) -> exists lb, nth_error logs (N.to_nat (i - k)) = Some (true, lb) /\ (k <= i)%N.
Proof.
  revert k; induction logs as [|[m lb] r IH]; cbn; intros k Hin; [contradiction|].
  apply in_app_or in Hin as [Hin|Hin].
  - destruct m; [|contradiction]. destruct Hin as [<-|[]]. exists lb.
    replace (k - k)%N with 0%N by lia. split; [reflexivity|lia].
  - destruct (IH _ Hin) as [lb' [Hn Hk]]. exists lb'. split; [|lia].
    replace (N.to_nat (i - k)) with (S (N.to_nat (i - (k + 1)))) by lia. exact Hn.
Qed.

Lemma tx_ok_model conf e : tx_ok conf e (tx_model conf e) = true.
Proof.
  destruct e as [[[served oh] orb] logs]. unfold tx_ok, tx_model.
  destruct served; [|reflexivity]. destruct oh as [h|]; [|reflexivity]. destruct orb as [rb|]; [|reflexivity].
  destruct (accept EvmRetryTx h rb conf) eqn:Ha; [|reflexivity].
  apply forallb_forall. intros i Hin. apply mine_idx_nth in Hin as [lb [Hn _]].
  rewrite N.sub_0_r in Hn. rewrite Hn. cbn [known_buried].
  apply accept_buried in Ha. rewrite Ha. reflexivity.
Qed.

Lemma txs_ok_model conf evs : txs_ok conf evs (txs_model conf evs) = true.
Proof.
  unfold txs_ok, txs_model. induction evs as [|e r IH]; cbn; [reflexivity|].
  rewrite tx_ok_model. exact IH.
Qed.

Lemma known_buried_spec oh ob conf :
  known_buried oh ob conf = true -> exists h b, oh = Some h /\ ob = Some b /\ conf <= confirmations h b.
Proof.
  unfold known_buried. destruct oh as [h|]; [|discriminate]. destruct ob as [b|]; [|discriminate].
  intros Hb. exists h, b. split; [reflexivity|]. split; [reflexivity|].
  apply buried_spec in Hb as [Hc _]. apply Hc. reflexivity.
Qed.

(* Whatever the judge accepts: the deposit of a log became a message only if the head was known and a
   block the log is known to be in (by the receipt or by the log itself) has >= conf confirmations. *)
Lemma tx_ok_safe conf served oh orb logs obs i :
  tx_ok conf (served, oh, orb, logs) obs = true -> In i obs ->
  exists h m lb b, oh = Some h /\ nth_error logs (N.to_nat i) = Some (m, lb) /\
    (orb = Some b \/ lb = Some b) /\ conf <= confirmations h b.
Proof.
  unfold tx_ok. intros Hok Hin. rewrite forallb_forall in Hok. specialize (Hok _ Hin).
  destruct (nth_error logs (N.to_nat i)) as [[m lb]|]; [|discriminate].
  apply orb_true_iff in Hok as [Hk|Hk]; apply known_buried_spec in Hk as [h [b [Hh [Hb Hc]]]];
    exists h, m, lb, b; (split; [exact Hh|]); (split; [reflexivity|]); (split; [|exact Hc]); [left|right]; exact Hb.
Qed.

Lemma txs_pointwise conf evs obs :
  txs_ok conf evs obs = true <-> Forall2 (fun e o => tx_ok conf e o = true) evs obs.
Proof. unfold txs_ok. apply all2_Forall2. Qed.
