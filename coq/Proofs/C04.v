From Coq Require Import List ZArith NArith Bool Lia.
Import ListNotations.
From SygmaV Require Import Model.C04.
Local Open Scope Z_scope.

Lemma accept_safe_conf p head blk conf :
  uses_conf p = true -> accept p head blk conf = true -> conf <= confirmations head blk.
Proof.
  unfold confirmations; destruct p; cbn; intros Hu Ha; try discriminate;
    try (apply negb_true_iff, Z.ltb_ge in Ha; lia);
    apply Z.gtb_lt in Ha.
  (* the retry paths compare with [blk + conf]; conf may be any integer *)
  all: lia.
Qed.

Lemma accept_safe_finalized p head blk conf :
  uses_conf p = false -> accept p head blk conf = true -> blk <= head.
Proof.
  destruct p; cbn; intros Hu Ha; try discriminate.
  - apply Z.gtb_lt in Ha; lia.
  - apply negb_true_iff, Z.ltb_ge in Ha; lia.
Qed.

Lemma btc_scan_exact head blk conf :
  accept BtcScan head blk conf = true <-> conf + 1 <= confirmations head blk.
Proof.
  unfold confirmations; cbn. rewrite negb_true_iff, Z.ltb_ge. lia.
Qed.

Lemma retry_exact p head blk conf :
  (p = EvmRetryTx \/ p = EvmRetryMsg \/ p = BtcRetryMsg) ->
  (accept p head blk conf = true <-> conf + 2 <= confirmations head blk).
Proof.
  unfold confirmations; intros [-> | [-> | ->]]; cbn; rewrite Z.gtb_lt; lia.
Qed.

Lemma sub_retry_msg_exact head blk conf :
  accept SubRetryMsg head blk conf = true <-> blk < head.
Proof. cbn; rewrite Z.gtb_lt; lia. Qed.

Lemma sub_retry_evt_exact head blk conf :
  accept SubRetryEvt head blk conf = true <-> blk <= head.
Proof. cbn; rewrite negb_true_iff, Z.ltb_ge; lia. Qed.

Lemma accept_buried p head blk conf : accept p head blk conf = true -> buried p head blk conf = true.
Proof.
  intros Ha. unfold buried. destruct (uses_conf p) eqn:Hu; apply Z.leb_le.
  - eapply accept_safe_conf; eauto.
  - eapply accept_safe_finalized; eauto.
Qed.

(* Prop-level reading of [buried]. *)
Lemma buried_spec p head b conf :
  buried p head b conf = true ->
  (uses_conf p = true -> conf <= confirmations head b) /\ (uses_conf p = false -> b <= head).
Proof.
  unfold buried. destruct (uses_conf p); intros Hb; apply Z.leb_le in Hb;
    split; intros Hu; try discriminate; exact Hb.
Qed.

Lemma single_ok_model p head blk conf :
  single_ok p head blk conf (processed p head blk conf) = true.
Proof.
  unfold single_ok, processed. apply andb_true_iff; split.
  - destruct (accept p head blk conf) eqn:Ha; [|reflexivity].
    apply accept_buried in Ha. destruct (range_path p); cbn; rewrite Ha; reflexivity.
  - destruct p; try reflexivity.
    destruct (conf + 1 <=? confirmations head blk) eqn:Hc; [|reflexivity].
    apply Z.leb_le in Hc. apply btc_scan_exact in Hc. rewrite Hc. cbn. rewrite Z.eqb_refl. reflexivity.
Qed.

(* Whatever the judge accepts: every block the implementation processed is buried deep enough. *)
Lemma single_ok_safe p head blk conf blocks b :
  single_ok p head blk conf blocks = true -> In b blocks ->
  (uses_conf p = true -> conf <= confirmations head b) /\ (uses_conf p = false -> b <= head).
Proof.
  unfold single_ok. intros Hok Hin. apply andb_true_iff in Hok as [Hs _].
  rewrite forallb_forall in Hs. apply buried_spec. apply Hs. exact Hin.
Qed.

(* ... and the regular scan did process the cursor block once it had the extra confirmation. *)
Lemma single_ok_live head blk conf blocks :
  single_ok BtcScan head blk conf blocks = true -> conf + 1 <= confirmations head blk -> In blk blocks.
Proof.
  unfold single_ok. intros Hok Hc. apply andb_true_iff in Hok as [_ Hl].
  apply Z.leb_le in Hc. rewrite Hc in Hl. apply existsb_exists in Hl as [x [Hin Hx]].
  apply Z.eqb_eq in Hx. subst. exact Hin.
Qed.

(* The model processes nothing but the block it was asked about. *)
Lemma processed_only_blk p head blk conf b : In b (processed p head blk conf) -> b = blk.
Proof.
  unfold processed. destruct (accept p head blk conf); [|contradiction].
  destruct (range_path p); cbn; intuition.
Qed.

(* Width: an in-domain Substrate retry height that the guards accept fits the 32-bit block number
   (so the Uint64() conversion on the way to GetBlockHash is exact), and an accepted BTC retry
   height / scan block is below 2^63 whenever the confirmations are not negative. *)
Lemma sub_evt_fetch_exact head blk conf :
  in_domain SubRetryEvt head blk = true -> accept SubRetryEvt head blk conf = true ->
  0 <= blk < 2 ^ 32.
Proof.
  unfold in_domain, in_uint32, in_u128. cbn [accept]. intros Hd Ha.
  apply negb_true_iff, Z.ltb_ge in Ha.
  apply andb_true_iff in Hd as [Hh Hb].
  apply andb_true_iff in Hh as [Hh0 Hh1]. apply andb_true_iff in Hb as [Hb0 Hb1].
  apply Z.leb_le in Hh0, Hb0. apply Z.ltb_lt in Hh1, Hb1. lia.
Qed.

Lemma btc_accept_fits_int64 p head blk conf :
  (p = BtcScan \/ p = BtcRetryMsg) -> in_domain p head blk = true -> 0 <= conf ->
  accept p head blk conf = true -> blk < 2 ^ 63.
Proof.
  intros Hp Hd Hc Ha.
  assert (Hh : head < 2 ^ 63).
  { destruct Hp as [-> | ->]; cbn in Hd; unfold in_int64 in Hd;
      apply andb_true_iff in Hd as [_ Hd]; apply Z.ltb_lt in Hd; exact Hd. }
  destruct Hp as [-> | ->]; cbn in Ha.
  - apply negb_true_iff, Z.ltb_ge in Ha. lia.
  - apply Z.gtb_lt in Ha. lia.
Qed.

(* ---- the scan loop over arbitrary head histories ---- *)

Lemma scan_index_ge cur conf k heads k' b :
  In (k', b) (scan cur conf k heads) -> (k <= k')%N.
Proof.
  revert cur k; induction heads as [|h r IH]; cbn; intros cur k Hin; [contradiction|].
  destruct (h - _ <? conf).
  - apply IH in Hin; lia.
  - destruct Hin as [Heq | Hin]; [inversion Heq; lia | apply IH in Hin; lia].
Qed.

(* Safety: whatever the history, a block is handled only at a poll whose head gives it at least
   conf (in fact conf+1) confirmations. *)
Lemma scan_safe cur conf k heads k' b :
  In (k', b) (scan cur conf k heads) ->
  exists h, nth_error heads (N.to_nat (k' - k)) = Some h /\ conf + 1 <= confirmations h b.
Proof.
  revert cur k; induction heads as [|h r IH]; cbn; intros cur k Hin; [contradiction|].
  set (c := match cur with Some c => c | None => h end) in *.
  destruct (h - c <? conf) eqn:Hlt.
  - pose proof (scan_index_ge _ _ _ _ _ _ Hin) as Hge.
    destruct (IH _ _ Hin) as [h' [Hn Hc]]. exists h'; split; [|exact Hc].
    replace (N.to_nat (k' - k)) with (S (N.to_nat (k' - (k + 1)))) by lia. exact Hn.
  - destruct Hin as [Heq | Hin].
    + inversion Heq; subst. exists h. replace (k' - k')%N with 0%N by lia. split; [reflexivity|].
      apply Z.ltb_ge in Hlt. unfold confirmations. lia.
    + pose proof (scan_index_ge _ _ _ _ _ _ Hin) as Hge.
      destruct (IH _ _ Hin) as [h' [Hn Hc]]. exists h'; split; [|exact Hc].
      replace (N.to_nat (k' - k)) with (S (N.to_nat (k' - (k + 1)))) by lia. exact Hn.
Qed.

(* Blocks are handled in order, contiguously from the cursor, one per poll at most. *)
Lemma scan_contiguous c conf k heads :
  map snd (scan (Some c) conf k heads) =
  map (fun i => c + Z.of_nat i) (seq 0 (length (scan (Some c) conf k heads))).
Proof.
  revert c k; induction heads as [|h r IH]; cbn; intros c k; [reflexivity|].
  destruct (h - c <? conf); [apply IH|].
  cbn. f_equal; [lia|]. rewrite IH. rewrite <- seq_shift, map_map.
  apply map_ext; intros; lia.
Qed.

(* Liveness: at the first poll (the loop's current iteration) where the cursor block has one more
   confirmation than required, it is handled at that very poll. *)
Lemma scan_live_now c conf k h r :
  conf + 1 <= confirmations h c -> In (k, c) (scan (Some c) conf k (h :: r)).
Proof.
  unfold confirmations; intros Hc; cbn.
  destruct (h - c <? conf) eqn:Hlt; [apply Z.ltb_lt in Hlt; lia | left; reflexivity].
Qed.

Lemma hist_ok_model cur conf k heads : hist_ok cur conf k heads (scan cur conf k heads) = true.
Proof.
  revert cur k; induction heads as [|h r IH]; cbn; intros cur k; [reflexivity|].
  set (c := match cur with Some c => c | None => h end) in *.
  destruct (h - c <? conf) eqn:Hlt.
  - assert (Hn : negb (conf + 1 <=? confirmations h c) = true).
    { apply negb_true_iff, Z.leb_gt. apply Z.ltb_lt in Hlt. unfold confirmations; lia. }
    destruct (scan (Some c) conf (k + 1)%N r) as [|[k' b] obs'] eqn:Hs.
    + rewrite Hn. cbn. rewrite <- Hs. apply IH.
    + assert (Hk : (k + 1 <= k')%N).
      { apply (scan_index_ge (Some c) conf (k + 1)%N r k' b). rewrite Hs; left; reflexivity. }
      destruct (N.eqb_spec k' k); [lia|]. rewrite Hn. cbn. rewrite <- Hs. apply IH.
  - rewrite N.eqb_refl, Z.eqb_refl. cbn.
    apply Z.ltb_ge in Hlt.
    replace (conf <=? confirmations h c) with true
      by (symmetry; apply Z.leb_le; unfold confirmations; lia).
    cbn. apply IH.
Qed.

(* The judge is sound w.r.t. the Prop-level reading: if it accepts an observation, every handled
   block had conf confirmations at its poll. *)
Lemma hist_ok_safe cur conf k heads obs k' b :
  hist_ok cur conf k heads obs = true -> In (k', b) obs ->
  exists h, nth_error heads (N.to_nat (k' - k)) = Some h /\ conf <= confirmations h b /\ (k <= k')%N.
Proof.
  revert cur k obs; induction heads as [|h r IH]; cbn; intros cur k obs Hok Hin.
  - destruct obs; [contradiction|discriminate].
  - set (c := match cur with Some c => c | None => h end) in *.
    destruct obs as [|[k1 b1] obs']; [contradiction|].
    destruct (N.eqb_spec k1 k) as [->|Hne].
    + apply andb_true_iff in Hok as [Hok Hrest]. apply andb_true_iff in Hok as [Hb Hc].
      destruct Hin as [Heq|Hin].
      * inversion Heq; subst. exists h. replace (k' - k')%N with 0%N by lia.
        split; [reflexivity|]. apply Z.leb_le in Hc. split; [exact Hc|lia].
      * destruct (IH _ _ _ Hrest Hin) as [h' [Hn [Hc' Hk]]]. exists h'.
        replace (N.to_nat (k' - k)) with (S (N.to_nat (k' - (k + 1)))) by lia.
        repeat split; [exact Hn|exact Hc'|lia].
    + apply andb_true_iff in Hok as [_ Hrest].
      destruct (IH _ _ _ Hrest Hin) as [h' [Hn [Hc' Hk]]]. exists h'.
      replace (N.to_nat (k' - k)) with (S (N.to_nat (k' - (k + 1)))) by lia.
      repeat split; [exact Hn|exact Hc'|lia].
Qed.
