(* C20 - proofs about Model/C20Num.v *)
From Coq Require Import List ZArith NArith Bool String Ascii Lia ZifyBool.
Import ListNotations.
From SygmaV Require Import Model.C20 Proofs.C20 Model.C20Num.
Local Open Scope Z_scope.

(* ---------------------------------------------------------------------------------------------- *)
(* the table *)

Lemma nfield_sane : forall k f nf, nfield_of k f = Some nf -> nf_sane nf = true.
Proof. intros k f nf H. destruct k, f; inversion H; subst; reflexivity. Qed.

Lemma wrap_small : forall z, min_i64 <= z <= max_i64 -> wrap_i64 z = z.
Proof.
  intros z Hz. unfold wrap_i64, min_i64, max_i64, two63, two64 in *.
  rewrite Z.mod_small by lia. lia.
Qed.

Lemma wrap_high : forall z, max_i64 < z <= max_u64 -> wrap_i64 z = z - two64.
Proof.
  intros z Hz. unfold wrap_i64, max_i64, max_u64, two63, two64 in *.
  replace (z + 9223372036854775808) with ((z - 9223372036854775808) + 1 * 18446744073709551616) by lia.
  rewrite Z.mod_add by lia. rewrite Z.mod_small by lia. lia.
Qed.

Lemma nval_eqb_refl1 : forall x, nval_eqb (x, 1%positive) (x * 1, 1%positive) = true.
Proof. intro x. unfold nval_eqb. cbn [fst snd]. lia. Qed.

(* ---------------------------------------------------------------------------------------------- *)
(* the model meets the specification *)

(* an integer setting whose decoded integer is the written one *)
Lemma load_int_ok : forall nf w z,
  nf_sane nf = true -> nf_ty nf <> TF64 ->
  decode (nf_ty nf) w = Some (z, 1%positive) -> reading w = Some (z, 1%positive) ->
  num_ok_field nf w (load_num nf w) = true.
Proof.
  intros nf w z Hs Hty Hd Hr.
  unfold load_num, load_num_with, num_ok_field. rewrite Hd, Hr. cbn [fst snd].
  unfold nf_sane in Hs.
  destruct nf as [ty dflt mn mx secs]. cbn [nf_ty nf_default nf_min nf_max nf_secs] in *.
  unfold scale_of. cbn [nf_secs nf_default].
  destruct ty; [| |contradiction]; clear Hty.
  - (* TI64 *)
    destruct secs; [lia|].
    destruct ((z =? 0) && negb (dflt =? 0)) eqn:E0; cbn [fst snd];
      destruct (below mn _ || above mx _); try reflexivity;
      unfold nval_eqb; cbn [fst snd]; lia.
  - (* TU64 *)
    destruct secs.
    + destruct ((z =? 0) && negb (dflt =? 0)) eqn:E0; cbn [fst snd];
        destruct (below mn _ || above mx _); try reflexivity;
        match goal with |- context [max_secs <? ?x] => destruct (max_secs <? x) end; try reflexivity;
        unfold nval_eqb, giga; cbn [fst snd]; lia.
    + destruct ((z =? 0) && negb (dflt =? 0)) eqn:E0; cbn [fst snd];
        destruct (below mn _ || above mx _); try reflexivity;
        unfold nval_eqb; cbn [fst snd]; lia.
Qed.

Lemma load_none_ok : forall nf w, decode (nf_ty nf) w = None -> num_ok_field nf w (load_num nf w) = true.
Proof. intros nf w H. unfold load_num, load_num_with. rewrite H. reflexivity. Qed.

(* the float64 setting *)
Lemma load_float_ok : forall nf w n d, nf_sane nf = true -> nf_ty nf = TF64 ->
  decode TF64 w = Some (n, d) -> reading w = Some (n, d) ->
  num_ok_field nf w (load_num nf w) = true.
Proof.
  intros nf w n d Hs Ety Hd Hr.
  unfold load_num, load_num_with, num_ok_field. rewrite Ety, Hd, Hr. cbn [fst snd].
  assert (Hsec : nf_secs nf = false).
  { unfold nf_sane in Hs. rewrite Ety in Hs. destruct (nf_secs nf); [lia|reflexivity]. }
  unfold scale_of. rewrite Hsec.
  destruct ((n =? 0) && negb (nf_default nf =? 0)) eqn:E0; unfold nval_eqb; cbn [fst snd]; lia.
Qed.

Lemma num_ok_field_model : forall nf w, nf_sane nf = true -> num_wf nf w = true ->
  num_ok_field nf w (load_num nf w) = true.
Proof.
  intros nf w Hs Hw.
  destruct w as [z h|n d|s|b|].
  - (* an integer *)
    destruct (nf_ty nf) eqn:Ety.
    + assert (Hty : nf_ty nf <> TF64) by (rewrite Ety; discriminate).
      destruct h.
      * destruct ((min_i64 <=? z) && (z <=? max_i64)) eqn:Er.
        -- eapply load_int_ok with (z := z); auto. rewrite Ety. cbn [decode]. rewrite Er. reflexivity.
        -- apply load_none_ok. rewrite Ety. cbn [decode]. rewrite Er. reflexivity.
      * cbn [num_wf] in Hw. assert (Hr : round53 z = z) by (unfold exact53 in Hw; lia).
        destruct ((min_i64 <=? z) && (z <=? max_i64)) eqn:Er.
        -- eapply load_int_ok with (z := z); auto. rewrite Ety. cbn [decode]. rewrite Hr, Er. reflexivity.
        -- apply load_none_ok. rewrite Ety. cbn [decode]. rewrite Hr, Er. reflexivity.
    + assert (Hty : nf_ty nf <> TF64) by (rewrite Ety; discriminate).
      destruct h.
      * destruct ((0 <=? z) && (z <=? max_u64)) eqn:Er.
        -- eapply load_int_ok with (z := z); auto. rewrite Ety. cbn [decode]. rewrite Er. reflexivity.
        -- apply load_none_ok. rewrite Ety. cbn [decode]. rewrite Er. reflexivity.
      * cbn [num_wf] in Hw. assert (Hr : round53 z = z) by (unfold exact53 in Hw; lia).
        destruct ((0 <=? z) && (z <=? max_u64)) eqn:Er.
        -- eapply load_int_ok with (z := z); auto. rewrite Ety. cbn [decode]. rewrite Hr, Er. reflexivity.
        -- apply load_none_ok. rewrite Ety. cbn [decode]. rewrite Hr, Er. reflexivity.
    + assert (Hr : round53 z = z).
      { destruct h; cbn [num_wf] in Hw; try rewrite Ety in Hw; unfold exact53 in Hw; lia. }
      eapply load_float_ok with (n := z) (d := 1%positive); auto.
      destruct h; cbn [decode]; rewrite Hr; reflexivity.
  - (* a fraction *)
    destruct (nf_ty nf) eqn:Ety.
    + apply load_none_ok. rewrite Ety. reflexivity.
    + apply load_none_ok. rewrite Ety. reflexivity.
    + eapply load_float_ok with (n := n) (d := d); auto.
  - apply load_none_ok. destruct (nf_ty nf); reflexivity.
  - apply load_none_ok. destruct (nf_ty nf); reflexivity.
  - (* absent *)
    destruct (nf_ty nf) eqn:Ety.
    + eapply load_int_ok with (z := 0); [exact Hs|rewrite Ety; discriminate|rewrite Ety; reflexivity|reflexivity].
    + eapply load_int_ok with (z := 0); [exact Hs|rewrite Ety; discriminate|rewrite Ety; reflexivity|reflexivity].
    + eapply load_float_ok with (n := 0) (d := 1%positive); auto.
Qed.

Lemma num_ok_model : forall k f nf w, nfield_of k f = Some nf -> num_wf nf w = true ->
  num_ok k f w (model_num k f w) = true.
Proof.
  intros k f nf w Hf Hw. unfold num_ok, model_num. rewrite Hf.
  apply num_ok_field_model; [eapply nfield_sane; eauto|exact Hw].
Qed.

(* the specification says what it reads *)
Lemma num_ok_sound : forall k f nf w v q, nfield_of k f = Some nf ->
  num_ok k f w (Some v) = true -> reading w = Some q ->
  fst v * Zpos (snd q) = fst q * scale_of nf * Zpos (snd v)
  \/ (fst q = 0 /\ fst v = nf_default nf * scale_of nf * Zpos (snd v)).
Proof.
  intros k f nf w v q Hf H Hr. unfold num_ok in H. rewrite Hf in H.
  unfold num_ok_field in H. rewrite Hr in H. unfold nval_eqb in H. cbn [fst snd] in H. lia.
Qed.

(* the value the decoder is handed for a written integer *)
Definition handed (z : Z) (h : how) : Z := match h with AsInt => z | AsFloat => round53 z end.

(* a negative number written for an unsigned setting is rejected *)
Lemma unsigned_negative_rejected : forall k f nf z h, nfield_of k f = Some nf -> nf_ty nf = TU64 -> handed z h < 0 ->
  model_num k f (WNum z h) = None
  /\ forall v, z < 0 -> num_ok k f (WNum z h) (Some v) = true -> fst v < 0.
Proof.
  intros k f nf z h Hf Hty Hz. unfold model_num, num_ok. rewrite Hf. split.
  - unfold load_num, load_num_with. rewrite Hty. destruct h; cbn [decode handed] in *.
    + assert (Hn : (0 <=? z) && (z <=? max_u64) = false) by lia. rewrite Hn. reflexivity.
    + assert (Hn : (0 <=? round53 z) && (round53 z <=? max_u64) = false) by lia. rewrite Hn. reflexivity.
  - intros v Hneg H. unfold num_ok_field in H. cbn [reading fst snd] in H. unfold nval_eqb in H. cbn [fst snd] in H.
    assert (Hsc : 0 < scale_of nf) by (unfold scale_of, giga; destruct (nf_secs nf); lia).
    nia.
Qed.

(* THE REPAIR, for every integer setting: a fraction is rejected ... *)
Lemma num_fraction_rejected : forall k f nf n d, nfield_of k f = Some nf -> nf_ty nf <> TF64 ->
  model_num k f (WFrac n d) = None.
Proof.
  intros k f nf n d Hf Hty. unfold model_num. rewrite Hf. unfold load_num, load_num_with.
  destruct (nf_ty nf); [reflexivity|reflexivity|contradiction].
Qed.

(* ... a number outside the range of the Go type is rejected ... *)
Lemma num_out_of_range_rejected : forall k f nf z h, nfield_of k f = Some nf ->
  (nf_ty nf = TI64 /\ (handed z h < min_i64 \/ max_i64 < handed z h))
  \/ (nf_ty nf = TU64 /\ (handed z h < 0 \/ max_u64 < handed z h)) ->
  model_num k f (WNum z h) = None.
Proof.
  intros k f nf z h Hf H. unfold model_num. rewrite Hf. unfold load_num, load_num_with.
  destruct H as [[Hty Hr]|[Hty Hr]]; rewrite Hty; destruct h; cbn [decode handed] in *.
  - assert (Hn : (min_i64 <=? z) && (z <=? max_i64) = false) by lia. rewrite Hn. reflexivity.
  - assert (Hn : (min_i64 <=? round53 z) && (round53 z <=? max_i64) = false) by lia. rewrite Hn. reflexivity.
  - assert (Hn : (0 <=? z) && (z <=? max_u64) = false) by lia. rewrite Hn. reflexivity.
  - assert (Hn : (0 <=? round53 z) && (round53 z <=? max_u64) = false) by lia. rewrite Hn. reflexivity.
Qed.

(* ... an accepted integer setting holds exactly the number the decoder was handed, or the default for 0
   (seconds: that many, and at most [max_secs]) *)
Lemma num_accepted_exact : forall k f nf z h v, nfield_of k f = Some nf -> nf_ty nf <> TF64 ->
  model_num k f (WNum z h) = Some v ->
  snd v = 1%positive /\
  (fst v = handed z h * scale_of nf \/ (handed z h = 0 /\ fst v = nf_default nf * scale_of nf)) /\
  (nf_secs nf = true -> fst v <= max_secs * giga).
Proof.
  intros k f nf z h v Hf Hty H. unfold model_num in H. rewrite Hf in H.
  pose proof (nfield_sane _ _ _ Hf) as Hs. unfold nf_sane in Hs.
  unfold load_num, load_num_with in H.
  assert (Hd : exists x, decode (nf_ty nf) (WNum z h) = Some (x, 1%positive) /\ x = handed z h
                         \/ decode (nf_ty nf) (WNum z h) = None).
  { exists (handed z h). destruct (nf_ty nf); [| |contradiction]; destruct h; cbn [decode handed];
      match goal with |- context [if ?c then _ else _] => destruct c end; auto. }
  destruct Hd as [x [[Hd ->]|Hd]]; rewrite Hd in H; [|discriminate].
  cbn [fst snd] in H. unfold scale_of.
  destruct nf as [ty dflt mn mx secs]. cbn [nf_ty nf_default nf_min nf_max nf_secs] in *.
  destruct ty; [| |contradiction];
    destruct ((handed z h =? 0) && negb (dflt =? 0)) eqn:E0; cbn [fst snd] in H;
    destruct (below mn _ || above mx _); try discriminate;
    destruct secs; try lia;
    try (match type of H with context [max_secs <? ?x] => destruct (max_secs <? x) eqn:Em end; try discriminate);
    inversion H; subst; cbn [fst snd]; unfold giga, max_secs in *; (split; [reflexivity|split; [lia|intro; lia]]).
Qed.

(* ... and more seconds of blockRetryInterval than a time.Duration holds are rejected *)
Lemma num_retry_interval_bound : forall k z h, max_secs < handed z h ->
  model_num k FRetryInterval (WNum z h) = None.
Proof.
  intros k z h Hz.
  destruct (model_num k FRetryInterval (WNum z h)) as [v|] eqn:E; [|reflexivity].
  assert (Hf : nfield_of k FRetryInterval = Some (mkNF TU64 5 None None true)) by (destruct k; reflexivity).
  pose proof (num_accepted_exact _ _ _ _ _ _ Hf ltac:(discriminate) E) as [_ [Hv Hb]].
  specialize (Hb eq_refl). unfold scale_of in Hv. cbn [nf_secs nf_default] in Hv. unfold giga, max_secs in *. lia.
Qed.

(* ---- the constructors BEFORE the repair (witnesses) ----------------------------------------------- *)

Lemma old_num_fraction_truncated_refuted :
  old_model_num Evm FMaxGasPrice (WFrac 3 2) = Some (1, 1%positive) /\
  num_ok Evm FMaxGasPrice (WFrac 3 2) (old_model_num Evm FMaxGasPrice (WFrac 3 2)) = false /\
  old_model_num Btc FConfs (WFrac 3 2) = Some (1, 1%positive) /\
  num_ok Btc FConfs (WFrac 3 2) (old_model_num Btc FConfs (WFrac 3 2)) = false /\
  old_model_num Evm FInterval (WFrac 1 2) = Some (5, 1%positive) /\
  model_num Evm FMaxGasPrice (WFrac 3 2) = None /\ model_num Btc FConfs (WFrac 3 2) = None.
Proof. vm_compute. repeat split. Qed.

Lemma old_num_int64_wrap_refuted :
  old_model_num Evm FGasLimit (WNum two63 AsFloat) = Some (min_i64, 1%positive) /\
  num_ok Evm FGasLimit (WNum two63 AsFloat) (old_model_num Evm FGasLimit (WNum two63 AsFloat)) = false /\
  old_model_num Evm FTransferGas (WNum two64 AsFloat) = Some (two63, 1%positive) /\
  num_ok Evm FTransferGas (WNum two64 AsFloat) (old_model_num Evm FTransferGas (WNum two64 AsFloat)) = false /\
  old_model_num Evm FStartBlock (WNum two63 AsInt) = Some (min_i64, 1%positive) /\
  old_model_num Evm FMaxGasPrice (WNum max_i64 AsFloat) = Some (min_i64, 1%positive) /\
  model_num Evm FGasLimit (WNum two63 AsFloat) = None /\ model_num Evm FTransferGas (WNum two64 AsFloat) = None /\
  model_num Evm FStartBlock (WNum two63 AsInt) = None /\ model_num Evm FMaxGasPrice (WNum max_i64 AsFloat) = None.
Proof. vm_compute. repeat split. Qed.

Lemma old_num_retry_interval_wrap_refuted :
  old_model_num Btc FRetryInterval (WNum 9223372037 AsFloat) = Some (-9223372036709551616, 1%positive) /\
  num_ok Btc FRetryInterval (WNum 9223372037 AsFloat) (old_model_num Btc FRetryInterval (WNum 9223372037 AsFloat)) = false /\
  model_num Btc FRetryInterval (WNum 9223372037 AsFloat) = None /\
  model_num Btc FRetryInterval (WNum 9223372036 AsFloat) = Some (9223372036000000000, 1%positive).
Proof. vm_compute. repeat split. Qed.

(* ---- what the code as it is does NOT meet (open) ---------------------------------------------------- *)

Lemma num_float_rounding_refuted :
  model_num Sub FChainID (WNum 9007199254740993 AsFloat) = Some (9007199254740992, 1%positive) /\
  num_ok Sub FChainID (WNum 9007199254740993 AsFloat) (model_num Sub FChainID (WNum 9007199254740993 AsFloat)) = false /\
  exact53 9007199254740993 = false /\ exact53 9007199254740992 = true.
Proof. vm_compute. repeat split. Qed.

(* ---------------------------------------------------------------------------------------------- *)
(* fee amounts *)

Lemma fee_ok_model : forall s, fee_ok s (parse_fee s) = true.
Proof.
  intro s. unfold fee_ok, parse_fee. destruct (parse_int_text s) as [v|]; [|reflexivity]. apply Z.eqb_refl.
Qed.

Lemma fee_ok_sound : forall s v q, fee_ok s (Some v) = true -> parse_int_text s = Some q -> v = q.
Proof. intros s v q H Hq. unfold fee_ok in H. rewrite Hq in H. lia. Qed.

Lemma fee_roundtrip : forall z, parse_fee (print_Z z) = Some z.
Proof. intro z. apply parse_int_text_print_Z. Qed.

(* a parser with Go's base-0 syntax in that place reads a zero-padded decimal as octal: rejected *)
Lemma fee_base0_refuted :
  parse_fee "0100" = Some 100 /\ parse_uint0 max_u64 "0100" = Some 64 /\
  fee_ok "0100" (parse_uint0 max_u64 "0100") = false /\ fee_ok "0100" (parse_fee "0100") = true.
Proof. vm_compute. repeat split. Qed.

(* ---------------------------------------------------------------------------------------------- *)
(* Go's base-0 syntax *)

Lemma digit_val_nonneg : forall c d, digit_val c = Some d -> 0 <= d.
Proof.
  intros c d. unfold digit_val.
  repeat match goal with |- (if ?c then _ else _) = _ -> _ => destruct c end;
    intro H; inversion H; subst; lia.
Qed.

Lemma digits_loop_nonneg : forall s base acc, 0 <= base -> 0 <= acc ->
  forall v, digits_loop base acc s = Some v -> 0 <= v.
Proof.
  induction s as [|c r IH]; intros base acc Hb Ha v; cbn [digits_loop].
  - intro H. inversion H; subst. exact Ha.
  - destruct (is_us c); [intro H; exact (IH _ _ Hb Ha _ H)|].
    destruct (digit_val c) as [d|] eqn:Ed; [|discriminate].
    destruct (d <? base) eqn:El; [|discriminate].
    intro H. eapply IH; [exact Hb| |exact H].
    pose proof (digit_val_nonneg _ _ Ed). nia.
Qed.

Lemma read_uint0_nonneg : forall s v, read_uint0 s = Some v -> 0 <= v.
Proof.
  intros s v H. unfold read_uint0 in H.
  assert (Hf : forall base whole body, 0 <= base -> finish_uint0 base whole body = Some v -> 0 <= v).
  { intros base whole body Hb Hfin. unfold finish_uint0 in Hfin.
    destruct (digits_loop base 0 body) as [x|] eqn:Ed; [|discriminate].
    pose proof (digits_loop_nonneg _ _ _ Hb (Z.le_refl 0) _ Ed).
    destruct (has_us body && negb (underscore_ok whole)); [discriminate|].
    inversion Hfin; subst. assumption. }
  destruct s as [|c r]; [discriminate|].
  destruct (N.eqb (N_of_ascii c) 48).
  - destruct r as [|p [|c2 r2]]; try (eapply Hf; [|exact H]; lia).
    destruct (prefix_base p) as [b|] eqn:Ep; [|eapply Hf; [|exact H]; lia].
    eapply Hf; [|exact H]. unfold prefix_base in Ep.
    repeat match type of Ep with (if ?c then _ else _) = _ => destruct c end; try discriminate;
      inversion Ep; subst; lia.
  - eapply Hf; [|exact H]. lia.
Qed.

Lemma parse_uint0_range : forall m s v, parse_uint0 m s = Some v -> 0 <= v <= m.
Proof.
  intros m s v H. unfold parse_uint0 in H.
  destruct (read_uint0 s) as [x|] eqn:Er; [|discriminate].
  pose proof (read_uint0_nonneg _ _ Er).
  destruct (x <=? m) eqn:El; [|discriminate]. inversion H; subst. lia.
Qed.

(* every canonical decimal 0..65535 is read as itself (finite domain, enumerated completely) *)
Fixpoint canon_from (fuel : nat) (v : Z) : bool :=
  match fuel with
  | O => true
  | S f => (match parse_port0 (print_Z v) with Some p => p =? v | None => false end) && canon_from f (v + 1)
  end.

Lemma canon_from_spec : forall fuel v0, canon_from fuel v0 = true ->
  forall v, v0 <= v < v0 + Z.of_nat fuel -> parse_port0 (print_Z v) = Some v.
Proof.
  induction fuel as [|f IH]; intros v0 H v Hv; [lia|].
  cbn [canon_from] in H. apply andb_prop in H. destruct H as [H1 H2].
  destruct (Z.eq_dec v v0) as [->|Hne].
  - destruct (parse_port0 (print_Z v0)) as [p|]; [|discriminate]. f_equal. lia.
  - apply (IH (v0 + 1) H2). lia.
Qed.

Lemma canon_all : canon_from (Z.to_nat 65536) 0 = true.
Proof. vm_compute. reflexivity. Qed.

Lemma port0_canonical : forall v, 0 <= v <= 65535 -> parse_port0 (print_Z v) = Some v.
Proof.
  intros v Hv. apply (canon_from_spec (Z.to_nat 65536) 0 canon_all).
  rewrite Z2Nat.id by lia. lia.
Qed.

(* for EVERY text the port as the code reads it meets the base-0 specification *)
Lemma port0_ok_model : forall s, port0_ok s (parse_port0 s) = true.
Proof.
  intro s. unfold port0_ok, parse_port0, parse_uint0.
  destruct (read_uint0 s) as [v|] eqn:Er.
  - destruct (v <=? 65535) eqn:El.
    + rewrite Z.eqb_refl. reflexivity.
    + rewrite andb_false_r. reflexivity.
  - unfold port_ok. destruct (parse_int_text s) as [v|] eqn:Ei; [|reflexivity].
    destruct ((1 <=? v) && (v <=? 65535)) eqn:E2; [|reflexivity].
    destruct (String.eqb s (print_Z v)) eqn:E3; [|reflexivity].
    apply String.eqb_eq in E3. pose proof (port0_canonical v ltac:(lia)) as Hc.
    unfold parse_port0, parse_uint0 in Hc. rewrite <- E3, Er in Hc. discriminate.
Qed.

Lemma port0_ok_sound : forall s v impl, read_uint0 s = Some v -> port0_ok s impl = true ->
  forall p, impl = Some p -> p = v /\ 0 <= v <= 65535.
Proof.
  intros s v impl Hr H p ->. unfold port0_ok in H. rewrite Hr in H.
  pose proof (read_uint0_nonneg _ _ Hr). lia.
Qed.

(* on the canonical decimals the base-0 reading and the decimal model of Model/C20.v coincide *)
Lemma port0_agrees : forall v, parse_port0 (print_Z v) = parse_port (print_Z v) \/ v < 0 \/ 65535 < v.
Proof.
  intro v. destruct (Z_lt_dec v 0); [right; left; assumption|].
  destruct (Z_lt_dec 65535 v); [right; right; assumption|]. left.
  rewrite port0_canonical by lia. symmetry. apply port_accept_iff. lia.
Qed.

(* the base-0 reading of zero-padded and prefixed texts (a leading 0 is octal notation) *)
Lemma port0_readings :
  parse_port0 "017" = Some 15 /\ port0_ok "017" (Some 15) = true /\ port0_ok "017" (Some 17) = false /\
  port_ok "017" (Some 15) = false /\
  parse_port0 "0100" = Some 64 /\ parse_port0 "08" = None /\ parse_port0 "007" = Some 7 /\
  parse_port0 "0x1F90" = Some 8080 /\ parse_port0 "1_000" = Some 1000 /\ parse_port0 "_1" = None /\
  parse_port0 "1__0" = None /\ parse_port0 "0x_1" = Some 1 /\ parse_port0 "0b101" = Some 5 /\ parse_port0 "0o17" = Some 15 /\
  parse_port0 "0" = Some 0 /\ parse_port0 "0x" = None /\ parse_port0 "+1" = None /\ parse_port0 "" = None /\
  parse_port0 "65536" = None /\ parse_port0 "0xFFFF" = Some 65535 /\ parse_port0 "0x10000" = None /\ parse_port0 "0_7" = Some 7.
Proof. vm_compute. repeat split. Qed.

(* ---------------------------------------------------------------------------------------------- *)
(* uploaderConfig.maxRetries *)

Lemma retries_ok_model : forall w, retries_wf w = true -> retries_ok w (model_retries w) = true.
Proof.
  intros w Hw. unfold retries_ok, model_retries, load_retries.
  destruct w as [z h|n d|s|b|].
  - assert (Hh : handed z h = z).
    { destruct h; [reflexivity|]. cbn [retries_wf] in Hw. unfold exact53 in Hw. cbn [handed]. lia. }
    cbn [decode_weak]. fold (handed z h). rewrite Hh.
    destruct ((0 <=? z) && (z <=? max_u64)); [|reflexivity].
    cbn [fst reading0 reading]. destruct (z =? 0) eqn:E0; unfold nval_eqb; cbn [fst snd]; lia.
  - reflexivity.
  - cbn [decode_weak reading0].
    destruct s as [|c r]; [vm_compute; reflexivity|].
    unfold parse_uint0. destruct (read_uint0 (String c r)) as [v|]; [|reflexivity].
    destruct (v <=? max_u64); [|reflexivity]. cbn [option_map fst].
    destruct (v =? 0) eqn:E0; unfold nval_eqb; cbn [fst snd]; lia.
  - destruct b; reflexivity.
  - vm_compute. reflexivity.
Qed.

Lemma retries_ok_sound : forall w v q, retries_ok w (Some v) = true -> reading0 w = Some q ->
  fst v * Zpos (snd q) = fst q * Zpos (snd v) \/ (fst q = 0 /\ fst v = 5 * Zpos (snd v)).
Proof.
  intros w v q H Hr. unfold retries_ok in H. rewrite Hr in H. unfold nval_eqb in H. cbn [fst snd] in H. lia.
Qed.

(* THE REPAIR: a negative, non-integral or too large number is rejected *)
Lemma retries_bad_number_rejected : forall z h n d,
  (handed z h < 0 \/ max_u64 < handed z h -> model_retries (WNum z h) = None) /\ model_retries (WFrac n d) = None.
Proof.
  intros z h n d. split; [|reflexivity]. intro Hz. unfold model_retries, load_retries. cbn [decode_weak].
  fold (handed z h). assert (Hn : (0 <=? handed z h) && (handed z h <=? max_u64) = false) by lia.
  rewrite Hn. reflexivity.
Qed.

(* before the repair the weak decoder wrapped a negative number and cut a fraction off *)
Lemma old_retries_wrap_refuted :
  old_model_retries (WNum (-1) AsFloat) = Some (max_u64, 1%positive) /\
  retries_ok (WNum (-1) AsFloat) (old_model_retries (WNum (-1) AsFloat)) = false /\
  old_model_retries (WFrac 3 2) = Some (1, 1%positive) /\
  retries_ok (WFrac 3 2) (old_model_retries (WFrac 3 2)) = false /\
  old_model_retries (WNum two64 AsFloat) = Some (two63, 1%positive) /\
  model_retries (WNum (-1) AsFloat) = None /\ model_retries (WFrac 3 2) = None /\ model_retries (WNum two64 AsFloat) = None /\
  model_retries (WNum 7 AsFloat) = Some (7, 1%positive) /\ model_retries (WStr "0x10") = Some (16, 1%positive) /\
  model_retries (WStr "") = Some (5, 1%positive) /\ model_retries WAbsent = Some (5, 1%positive).
Proof. vm_compute. repeat split. Qed.
