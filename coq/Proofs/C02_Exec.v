(* C02 - a whole call of Execute: lemmas. *)
From Coq Require Import List NArith Bool Arith Lia.
From SygmaV Require Import Lib.Hex Model.C02 Proofs.C02.
Import ListNotations.

Lemma exec_ok_sound H d ss crashed : exec_ok H d ss crashed = true ->
  crashed = false /\ forall s, In s ss -> session_ok H d s = true.
Proof.
  unfold exec_ok. intros E. apply andb_prop in E as [E1 E2]. split.
  - destruct crashed; [discriminate|reflexivity].
  - rewrite forallb_forall in E1. exact E1.
Qed.

Lemma exec_ok_model H d bs : exec_ok H d (fst (model_exec H d bs)) (snd (model_exec H d bs)) = true.
Proof.
  unfold exec_ok, model_exec. cbn [fst snd negb]. rewrite andb_true_r.
  apply forallb_forall. intros s Hin. apply in_map_iff in Hin as [b [<- _]]. apply session_ok_model.
Qed.

(* without an empty batch the up-front slice is indexed like the batch list: nothing shows *)
Lemma indexed_sessions_no_empty H d pre bs :
  forallb nonempty_batch bs = true ->
  indexed_sessions d (pre ++ map (digest H d) bs) (length pre) bs = (map (model_session H d) bs, false).
Proof.
  revert pre. induction bs as [|b r IH]; intros pre Hne; [reflexivity|].
  cbn [forallb] in Hne. apply andb_prop in Hne as [Hb Hr].
  cbn [indexed_sessions map]. rewrite Hb.
  rewrite nth_error_app2 by lia. rewrite Nat.sub_diag. cbn [nth_error].
  specialize (IH (pre ++ [digest H d b]) Hr). rewrite <- app_assoc in IH. cbn [app] in IH.
  rewrite app_length in IH. cbn [length] in IH. rewrite Nat.add_1_r in IH. rewrite IH. reflexivity.
Qed.

Lemma filter_all {A : Type} (p : A -> bool) l : forallb p l = true -> filter p l = l.
Proof.
  induction l as [|a l IH]; [reflexivity|]. cbn. intros E. apply andb_prop in E as [Ea El].
  rewrite Ea, (IH El). reflexivity.
Qed.

Lemma filtered_index_no_empty H d bs :
  forallb nonempty_batch bs = true -> filtered_index_exec H d bs = model_exec H d bs.
Proof.
  intros Hne. unfold filtered_index_exec, model_exec. rewrite (filter_all _ _ Hne).
  exact (indexed_sessions_no_empty H d [] bs Hne).
Qed.

(* with a leading empty batch: [q1] is signed with the digest of [q2], the look-up for [q2] is out of range *)
Definition mix32 (x : list N) : list N := u256 (fold_left (fun a b => a * 3 + b + 1) x 0 mod 2 ^ 256)%N.

Lemma mix32_length x : length (mix32 x) = 32%nat.
Proof. unfold mix32. apply u256_length. apply N.mod_upper_bound. discriminate. Qed.

Lemma filtered_index_refuted :
  exists (H : list N -> list N) d bs,
    (forall x, length (H x) = 32%nat) /\
    exec_ok H d (fst (filtered_index_exec H d bs)) (snd (filtered_index_exec H d bs)) = false /\
    exec_ok H d (fst (filtered_index_exec H d bs)) false = false.
Proof.
  exists mix32, (bridge_domain 5 (repeat 17%N 20)),
    [[]; [{| p_origin := 1; p_nonce := 7; p_rid := repeat 3%N 32; p_data := [] |}];
         [{| p_origin := 1; p_nonce := 8; p_rid := repeat 3%N 32; p_data := [] |}]].
  split; [exact mix32_length|]. split; vm_compute; reflexivity.
Qed.
