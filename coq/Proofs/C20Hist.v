(* C20 - proofs about Model/C20Hist.v (histories of loads against one shared configuration) *)
From Coq Require Import List ZArith Bool String.
Import ListNotations.
From SygmaV Require Import Model.C20 Proofs.C20 Model.C20Hist.
Local Open Scope string_scope.
Local Open Scope Z_scope.
Local Open Scope list_scope.

(* the judge of a history is the judge of one load, for every load of the history *)
Lemma merge_hist_ok_every_load : forall shared h, merge_hist_ok shared h = true ->
  forall l impl, In (l, impl) h -> merge_ok l shared impl = true.
Proof.
  intros shared h H l impl Hin. unfold merge_hist_ok in H. rewrite forallb_forall in H.
  exact (H _ Hin).
Qed.

Lemma merge_hist_ok_app : forall shared a b,
  merge_hist_ok shared (a ++ b) = merge_hist_ok shared a && merge_hist_ok shared b.
Proof. intros shared a b. unfold merge_hist_ok. apply forallb_app. Qed.

(* the model passes, for every history of documents that are well formed one by one *)
Lemma merge_hist_ok_model : forall shared docs,
  forallb (fun l => wf_merge l shared) docs = true ->
  merge_hist_ok shared (combine docs (hist_model shared docs)) = true.
Proof.
  intros shared docs. induction docs as [|l docs IH]; intro H; [reflexivity|].
  cbn [forallb] in H. apply andb_prop in H as [Hl H].
  cbn [hist_model map combine]. unfold merge_hist_ok. cbn [forallb fst snd].
  rewrite (merge_ok_model _ _ Hl). cbn [andb]. exact (IH H).
Qed.

(* what the model returns for a document does not depend on where in the history the document is
   loaded, nor on what was loaded before or after *)
Lemma hist_model_pure : forall shared before after l,
  hist_model shared (before ++ l :: after)
  = hist_model shared before ++ process l shared :: hist_model shared after.
Proof. intros shared before after l. unfold hist_model. now rewrite map_app. Qed.

Lemma hist_model_nth : forall shared docs n l, nth_error docs n = Some l ->
  nth_error (hist_model shared docs) n = Some (process l shared).
Proof.
  intros shared docs n l H. unfold hist_model.
  exact (map_nth_error (fun x => process x shared) n docs H).
Qed.
