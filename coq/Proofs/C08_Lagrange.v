(* C08 - the share algebra the threshold protocols rely on, over an ARBITRARY field (mathcomp).
   Shamir sharing: share f i = f.[i]; reconstruct S ys = sum_i ys i * prod_{j<>i} (0-j)/(i-j).
     reconstruct_any_subset : uniq S -> size f <= size S -> reconstruct S (share f) = f.[0]
     two_subsets_agree, refresh_keeps_secret, reshare_keeps_secret, derive_keeps_sharing,
     schnorr_threshold_verifies (group written additively as a vector space over the scalar field).
   One style (ssreflect) throughout; plain-Gallina glue lives in Model/C08.v + Proofs/C08.v. *)
From mathcomp Require Import all_ssreflect all_algebra.
Set Implicit Arguments. Unset Strict Implicit. Unset Printing Implicit Defensive.
Import GRing.Theory.
Local Open Scope ring_scope.

Section Lagrange.
Variable F : fieldType.

Definition share (f : {poly F}) (i : F) : F := f.[i].

(* basis polynomial for node i over node list S *)
Definition lbasis (S : seq F) (i : F) : {poly F} :=
  \prod_(j <- S | j != i) ((i - j)^-1 *: ('X - j%:P)).

Definition interp (S : seq F) (y : F -> F) : {poly F} :=
  \sum_(i <- S) y i *: lbasis S i.

Lemma lbasis_self S i : (lbasis S i).[i] = 1.
Proof.
rewrite /lbasis horner_prod big1_seq // => j /andP [ji _].
by rewrite hornerZ hornerXsubC mulVf // subr_eq0 eq_sym.
Qed.

Lemma lbasis_other S i k : k \in S -> k != i -> (lbasis S i).[k] = 0.
Proof.
move=> kS ki; rewrite /lbasis horner_prod.
rewrite (big_rem k) //= ki hornerZ hornerXsubC subrr mulr0 mul0r //.
Qed.

Lemma size_lbasis S i : uniq S -> i \in S -> (size (lbasis S i) <= size S)%N.
Proof.
move=> uS iS; rewrite /lbasis.
rewrite -big_filter.
set T := [seq j <- S | j != i].
have sT : (size T = (size S).-1)%N.
  rewrite /T size_filter.
  have := count_predC (pred1 i) S; rewrite count_uniq_mem // iS /= add1n => <-.
  by apply: eq_count => j; rewrite /= .
have -> : \prod_(j <- T) ((i - j)^-1 *: ('X - j%:P)) =
          (\prod_(j <- T) (i - j)^-1) *: \prod_(j <- T) ('X - j%:P).
  elim: T {sT} => [|a l IH]; first by rewrite !big_nil scale1r.
  by rewrite !big_cons IH -scalerAl -scalerAr scalerA.
apply: (leq_trans (size_scale_leq _ _)).
rewrite size_prod_XsubC sT prednK //.
by case: (S) iS.
Qed.

Lemma interp_at S y k : uniq S -> k \in S -> (interp S y).[k] = y k.
Proof.
move=> uS kS; rewrite /interp horner_sum.
rewrite (bigD1_seq k) //= hornerZ lbasis_self mulr1 big1_seq ?addr0 // => i /andP [ik iS].
by rewrite hornerZ lbasis_other ?mulr0 // eq_sym.
Qed.

Lemma size_interp S y : uniq S -> (size (interp S y) <= size S)%N.
Proof.
move=> uS; rewrite /interp big_seq.
elim/big_ind: _ => [|p q Hp Hq|i iS]; first by rewrite size_poly0.
- by apply: (leq_trans (size_add _ _)); rewrite geq_max Hp Hq.
- by apply: (leq_trans (size_scale_leq _ _)); apply: size_lbasis.
Qed.

(* any polynomial of size <= |S| equals its interpolant on S *)
Theorem interp_unique S (f : {poly F}) :
  uniq S -> (size f <= size S)%N -> interp S (share f) = f.
Proof.
move=> uS sf; apply/eqP; rewrite -subr_eq0; apply/eqP.
apply: (@roots_geq_poly_eq0 _ _ S) => //.
- apply/allP => k kS; rewrite /root hornerD hornerN interp_at // subrr //.
- apply: (leq_trans (size_add _ _)); rewrite size_opp geq_max sf andbT.
  exact: size_interp.
Qed.

(* reconstruction of the secret f(0) from the shares on ANY node set S *)
Definition reconstruct (S : seq F) (y : F -> F) : F :=
  \sum_(i <- S) y i * \prod_(j <- S | j != i) ((0 - j) / (i - j)).

Lemma reconstructE S y : reconstruct S y = (interp S y).[0].
Proof.
rewrite /reconstruct /interp horner_sum; apply: eq_bigr => i _.
rewrite hornerZ /lbasis horner_prod; congr (_ * _); apply: eq_bigr => j _.
by rewrite hornerZ hornerXsubC mulrC.
Qed.

Theorem reconstruct_any_subset S (f : {poly F}) :
  uniq S -> (size f <= size S)%N -> reconstruct S (share f) = f.[0].
Proof. by move=> uS sf; rewrite reconstructE interp_unique. Qed.

Corollary two_subsets_agree S T (f : {poly F}) :
  uniq S -> uniq T -> (size f <= size S)%N -> (size f <= size T)%N ->
  reconstruct S (share f) = reconstruct T (share f).
Proof. by move=> *; rewrite !reconstruct_any_subset. Qed.

(* refresh: adding shares of a polynomial with zero constant term keeps the secret; a changed
   committee or threshold = a different S and a different degree of f + g *)
Corollary refresh_keeps_secret S (f g : {poly F}) :
  uniq S -> (size (f + g)%R <= size S)%N -> g.[0] = 0 ->
  reconstruct S (share (f + g)) = f.[0].
Proof. by move=> uS s g0; rewrite reconstruct_any_subset // hornerD g0 addr0. Qed.

Definition lambda (Q : seq F) (i : F) : F := \prod_(j <- Q | j != i) ((0 - j) / (i - j)).

(* reconstruct only looks at the values on S *)
Lemma eq_reconstruct S y y' : {in S, y =1 y'} -> reconstruct S y = reconstruct S y'.
Proof.
by move=> e; rewrite /reconstruct !big_seq; apply: eq_bigr => i iS; rewrite e.
Qed.

(* resharing (what tss-lib's ECDSA resharing does): every party i of a qualified old set Q deals
   its Lagrange-weighted share w_i = lambda_i * f(i) with a fresh polynomial h i, (h i).[0] = w_i;
   the new share of node j is sum_i (h i).[j].  ANY new node set S' large enough for the new
   degree - whatever its relation to Q - reconstructs the OLD secret. *)

Theorem reshare_keeps_secret Q S' (f : {poly F}) (h : F -> {poly F}) :
  uniq Q -> (size f <= size Q)%N -> uniq S' ->
  (forall i, i \in Q -> (h i).[0] = f.[i] * lambda Q i) ->
  (forall i, i \in Q -> (size (h i) <= size S')%N) ->
  reconstruct S' (fun j => \sum_(i <- Q) (h i).[j]) = f.[0].
Proof.
move=> uQ sf uS' h0 sh.
pose H := \sum_(i <- Q) h i.
have -> : reconstruct S' (fun j => \sum_(i <- Q) (h i).[j]) = reconstruct S' (share H).
  by apply: eq_reconstruct => j _; rewrite /share /H horner_sum.
rewrite reconstruct_any_subset //.
- rewrite /H horner_sum -(reconstruct_any_subset uQ sf) /reconstruct big_seq [RHS]big_seq.
  by apply: eq_bigr => i iQ; rewrite h0.
- rewrite /H big_seq; elim/big_ind: _ => [|p q Hp Hq|i iQ]; first by rewrite size_poly0.
  + by apply: (leq_trans (size_add _ _)); rewrite geq_max Hp Hq.
  + exact: sh.
Qed.

(* FROST signing derives the key to sign with by adding the tweak to every share
   (TaprootConfig.Derive; negated when the tweaked public key has odd y): the derived shares are a
   sharing of (+/-)(secret + tweak) on every qualified set *)
Theorem derive_keeps_sharing S (f : {poly F}) (h s : F) :
  uniq S -> (0 < size S)%N -> (size f <= size S)%N ->
  reconstruct S (fun i => s * (share f i + h)) = s * (f.[0] + h).
Proof.
move=> uS S0 sf.
have -> : reconstruct S (fun i => s * (share f i + h)) = reconstruct S (share (s *: (f + h%:P))).
  by apply: eq_reconstruct => i _; rewrite /share hornerZ hornerD hornerC.
rewrite reconstruct_any_subset // ?hornerZ ?hornerD ?hornerC //.
apply: (leq_trans (size_scale_leq _ _)); apply: (leq_trans (size_add _ _)).
rewrite geq_max sf /=; exact: (leq_trans (size_polyC_leq1 _)).
Qed.

(* What frost.RefreshTaproot (as called by tss/frost/resharing) does when a member JOINS: every
   member adds shares of zero-constant polynomials (sum g) to its OLD share, and the joining member
   d starts from share 0 instead of f(d).  Every signer set S containing d then reconstructs
   f(0) - f(d) * lambda_d, which differs from the secret f(0) unless f(d) = 0. *)
Lemma reconstructB S (y1 y2 : F -> F) :
  reconstruct S (fun i => y1 i - y2 i) = reconstruct S y1 - reconstruct S y2.
Proof. by rewrite /reconstruct -sumrB; apply: eq_bigr => i _; rewrite mulrBl. Qed.

Lemma reconstruct_delta S d c :
  uniq S -> d \in S -> reconstruct S (fun i => if i == d then c else 0) = c * lambda S d.
Proof.
move=> uS dS; rewrite /reconstruct (bigD1_seq d) //= eqxx [X in _ + X]big1 ?addr0 // => i /negbTE ->.
by rewrite mul0r.
Qed.

Theorem frost_refresh_join S (f g : {poly F}) d :
  uniq S -> d \in S -> (size (f + g)%R <= size S)%N -> g.[0] = 0 ->
  reconstruct S (fun i => if i == d then g.[i] else (f + g).[i]) = f.[0] - f.[d] * lambda S d.
Proof.
move=> uS dS sz g0.
have -> : reconstruct S (fun i => if i == d then g.[i] else (f + g).[i])
        = reconstruct S (fun i => share (f + g) i - (if i == d then f.[d] else 0)).
  apply: eq_reconstruct => i _; rewrite /share; case: eqP => [->|_]; last by rewrite subr0.
  by rewrite hornerD addrC addKr.
by rewrite reconstructB reconstruct_delta // refresh_keeps_secret.
Qed.

Lemma lambda_neq0 S d : 0 \notin S -> lambda S d != 0.
Proof.
move=> S0; rewrite /lambda prodf_seq_neq0; apply/allP => j jS; apply/implyP => jd.
rewrite mulf_neq0 //.
- by rewrite subr_eq0; apply: contraNneq S0 => ->.
- by rewrite invr_eq0 subr_eq0 eq_sym.
Qed.

Corollary frost_refresh_join_wrong S (f g : {poly F}) d :
  uniq S -> d \in S -> 0 \notin S -> (size (f + g)%R <= size S)%N -> g.[0] = 0 -> f.[d] != 0 ->
  reconstruct S (fun i => if i == d then g.[i] else (f + g).[i]) != f.[0].
Proof.
move=> uS dS S0 sz g0 fd; rewrite frost_refresh_join //.
by rewrite -subr_eq0 addrC addKr oppr_eq0 mulf_neq0 // lambda_neq0.
Qed.
End Lagrange.

(* Threshold Schnorr aggregation (FROST): the group is written additively as a vector space V over
   the scalar field F (a cyclic group of prime order q is one over F_q): G the generator,
   Y = x *: G the group key, signer i holds share s_i and nonce k_i (FROST: k_i = d_i + e_i rho_i),
   publishes R_i = k_i *: G and z_i = k_i + lambda_i * s_i * c.  If the signers' shares
   reconstruct x then the aggregate (R, z) satisfies the Schnorr verification equation
   z *: G = R + c *: Y  (multiplicatively: g^z = R * Y^c). *)
Section Schnorr.
Variables (F : fieldType) (V : lmodType F).
Variables (G : V) (x c : F) (S : seq F) (s k : F -> F).

Theorem schnorr_threshold_verifies :
  reconstruct S s = x ->
  let Y := x *: G in
  let R := \sum_(i <- S) (k i *: G) in
  let z := \sum_(i <- S) (k i + lambda S i * s i * c) in
  z *: G = R + c *: Y.
Proof.
move=> rec /=.
rewrite big_split /= scalerDl scaler_suml; congr (_ + _).
rewrite scalerA -rec /reconstruct mulr_sumr; congr (_ *: _).
by apply: eq_bigr => i _; rewrite /lambda mulrC; congr (_ * _); rewrite mulrC.
Qed.
End Schnorr.
