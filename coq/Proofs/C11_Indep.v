(* C11 - the replacement attempt is independent of what excluded peers send (Model/C11.v: uninfluenced,
   indep_ok). *)
From Coq Require Import List ZArith NArith Bool Lia.
Import ListNotations.
From SygmaV Require Import Model.C07 Proofs.C07 Model.C11 Proofs.C11.

(* waitForStart told [c2], the watcher told the empty id: a message of anybody else changes nothing *)
Lemma wait_step2_other : forall c2 st m,
  N.eqb (msg_from m) c2 = false -> wait_step2 None (Some c2) st m = (st, []).
Proof.
  intros c2 st m H. destruct st, m as [f|f p|f]; cbn [msg_from] in H;
    unfold wait_step2, from_ok, fail_ok; rewrite ?H; reflexivity.
Qed.

(* the wait of C07 without arrival times: for ALL message sequences *)
Lemma run_wait2_drop : forall c2 (keep : wmsg -> bool) msgs st,
  (forall m, keep m = false -> N.eqb (msg_from m) c2 = false) ->
  run_wait2 None (Some c2) st msgs = run_wait2 None (Some c2) st (filter keep msgs).
Proof.
  intros c2 keep msgs. induction msgs as [|m r IH]; intros st Hk; [reflexivity|].
  cbn [filter]. destruct (keep m) eqn:Hm.
  - cbn [run_wait2]. destruct (wait_step2 None (Some c2) st m) as [st' o]. rewrite (IH st' Hk). reflexivity.
  - cbn [run_wait2]. rewrite (wait_step2_other c2 st m (Hk m Hm)). rewrite (IH st Hk).
    destruct (run_wait2 None (Some c2) st (filter keep r)). reflexivity.
Qed.

Lemma timed_run_finished : forall wc c timeout watch deadline msgs,
  tr_outs (timed_run wc c timeout watch deadline Finished msgs) = []
  /\ tr_late (timed_run wc c timeout watch deadline Finished msgs) = false.
Proof. intros. destruct msgs as [|[a m] r]; cbn; auto. Qed.

Lemma timed_run_drop : forall c2 (keep : N * wmsg -> bool) timeout watch msgs deadline st,
  (forall x, keep x = false -> N.eqb (msg_from (snd x)) c2 = false) ->
  (timeout <= deadline)%N -> timely timeout watch msgs = true ->
  tr_outs (timed_run None (Some c2) timeout watch deadline st msgs)
    = tr_outs (timed_run None (Some c2) timeout watch deadline st (filter keep msgs))
  /\ tr_late (timed_run None (Some c2) timeout watch deadline st msgs) = false
  /\ tr_late (timed_run None (Some c2) timeout watch deadline st (filter keep msgs)) = false.
Proof.
  intros c2 keep timeout watch msgs. induction msgs as [|[at_ m] r IH]; intros deadline st Hk Hd Ht.
  - cbn. auto.
  - unfold timely in Ht. cbn [forallb fst] in Ht. apply andb_true_iff in Ht. destruct Ht as [Ha Hr].
    apply andb_true_iff in Ha. destruct Ha as [Ha1 Ha2].
    apply N.ltb_lt in Ha1. apply N.ltb_lt in Ha2.
    assert (Hw : (watch <=? at_)%N = false) by (apply N.leb_gt; lia).
    assert (Hdl : (deadline <=? at_)%N = false) by (apply N.leb_gt; lia).
    destruct st.
    + (* Waiting *)
      cbn [filter]. destruct (keep (at_, m)) eqn:Hm.
      * cbn [timed_run]. rewrite Hw, Hdl. cbn [is_waiting andb].
        destruct (wait_step2 None (Some c2) Waiting m) as [st' o] eqn:Hs.
        set (d' := match m with MInitiate f => if from_ok (Some c2) f then (at_ + timeout)%N else deadline | _ => deadline end).
        assert (Hd' : (timeout <= d')%N) by (subst d'; destruct m; try destruct (from_ok (Some c2) from); lia).
        destruct (IH d' st' Hk Hd' Hr) as [E [L1 L2]].
        cbn [tr_outs tr_late]. rewrite E, L1, L2. auto.
      * pose proof (Hk _ Hm) as Hf. cbn [snd] in Hf.
        cbn [timed_run]. rewrite Hw, Hdl. cbn [is_waiting andb].
        rewrite (wait_step2_other c2 Waiting m Hf).
        assert (Hsame : match m with MInitiate f => if from_ok (Some c2) f then (at_ + timeout)%N else deadline | _ => deadline end = deadline).
        { destruct m; try reflexivity. cbn [msg_from] in Hf. unfold from_ok. rewrite Hf. reflexivity. }
        rewrite Hsame. cbn [tr_outs tr_late app].
        exact (IH deadline Waiting Hk Hd Hr).
    + (* Running *)
      cbn [filter]. destruct (keep (at_, m)) eqn:Hm.
      * cbn [timed_run]. rewrite Hw. cbn [is_waiting andb].
        destruct (wait_step2 None (Some c2) Running m) as [st' o] eqn:Hs.
        destruct (IH deadline st' Hk Hd Hr) as [E [L1 L2]].
        cbn [tr_outs tr_late]. rewrite E, L1, L2. auto.
      * pose proof (Hk _ Hm) as Hf. cbn [snd] in Hf.
        cbn [timed_run]. rewrite Hw. cbn [is_waiting andb].
        rewrite (wait_step2_other c2 Running m Hf). cbn [tr_outs tr_late app].
        exact (IH deadline Running Hk Hd Hr).
    + (* Finished *)
      destruct (timed_run_finished None (Some c2) timeout watch deadline ((at_, m) :: r)) as [E1 L1].
      destruct (timed_run_finished None (Some c2) timeout watch deadline (filter keep ((at_, m) :: r))) as [E2 L2].
      rewrite E1, E2, L1, L2. auto.
Qed.

Lemma has_bad_app : forall a b, has_bad (a ++ b) = has_bad a || has_bad b.
Proof. intros a b. unfold has_bad. apply existsb_app. Qed.

(* a wait told [c2] next to a watcher told the empty id: only an undecodable start message of [c2] itself
   ends it with an error *)
Lemma timed_run_no_bad : forall c2 timeout watch msgs deadline st,
  forallb (fun x : N * wmsg => negb (N.eqb (msg_from (snd x)) c2) || harmless (snd x)) msgs = true ->
  has_bad (tr_outs (timed_run None (Some c2) timeout watch deadline st msgs)) = false.
Proof.
  intros c2 timeout watch msgs. induction msgs as [|[at_ m] r IH]; intros deadline st H; [reflexivity|].
  cbn [forallb snd] in H. apply andb_true_iff in H. destruct H as [Hm Hr].
  cbn [timed_run]. destruct st; try reflexivity.
  - destruct (watch <=? at_)%N; [reflexivity|]. destruct (is_waiting Waiting && (deadline <=? at_)%N); [reflexivity|].
    destruct (wait_step2 None (Some c2) Waiting m) as [st' o] eqn:Hs.
    cbn [tr_outs]. rewrite has_bad_app, IH by exact Hr. rewrite orb_false_r.
    destruct (N.eqb (msg_from m) c2) eqn:Hf.
    + cbn [negb orb] in Hm. destruct m as [f|f [l|]|f]; try discriminate; cbn [msg_from] in Hf;
        unfold wait_step2, from_ok in Hs; rewrite Hf in Hs; inversion Hs; reflexivity.
    + rewrite (wait_step2_other c2 Waiting m Hf) in Hs. inversion Hs. reflexivity.
  - destruct (watch <=? at_)%N; [reflexivity|]. cbn [is_waiting andb].
    destruct (wait_step2 None (Some c2) Running m) as [st' o] eqn:Hs.
    cbn [tr_outs]. rewrite has_bad_app, IH by exact Hr. rewrite orb_false_r.
    destruct m; unfold wait_step2, fail_ok in Hs; inversion Hs; reflexivity.
Qed.

Lemma runs_same_refl : forall a, runs_same a a = true.
Proof.
  induction a as [|x r IH]; [reflexivity|]. cbn [runs_same]. rewrite eqb_reflx, list_peer_eqb_refl, IH. reflexivity.
Qed.

Lemma calm_timely : forall tm ps msgs, calm tm ps msgs = true -> timely (coord_to tm) (tss_to tm) msgs = true.
Proof.
  intros tm ps msgs H. unfold calm in H. apply andb_true_iff in H. destruct H as [_ H].
  unfold timely. rewrite forallb_forall in *. intros x Hx. specialize (H x Hx).
  apply andb_true_iff in H. destruct H as [H _]. apply andb_true_iff in H. destruct H as [H1 H2].
  apply N.leb_le in H1. apply N.leb_le in H2. unfold far in *.
  apply andb_true_iff. split; apply N.ltb_lt; lia.
Qed.

Lemma calm_no_bad : forall tm ps msgs c2, calm tm ps msgs = true -> memb c2 ps = false ->
  forallb (fun x : N * wmsg => negb (N.eqb (msg_from (snd x)) c2) || harmless (snd x)) msgs = true.
Proof.
  intros tm ps msgs c2 H Hc. unfold calm in H. apply andb_true_iff in H. destruct H as [_ H].
  rewrite forallb_forall in *. intros x Hx. specialize (H x Hx).
  apply andb_true_iff in H. destruct H as [_ H]. apply orb_true_iff in H. destruct H as [H|H].
  - unfold from_excluded in H. destruct (N.eqb (msg_from (snd x)) c2) eqn:E; [|reflexivity].
    apply N.eqb_eq in E. rewrite E in H. congruence.
  - rewrite H. apply orb_true_r.
Qed.

(* the wait of a relayer that lost the election to [c2], with arrival times: as long as no bound of the
   wait is reached, dropping the messages of peers other than [c2] - the excluded ones in particular -
   changes neither what it does nor how the wait ends *)
Lemma retry_start_wait_drop : forall tm c2 ps msgs,
  memb c2 ps = false -> timely (coord_to tm) (tss_to tm) msgs = true ->
  retry_start_wait tm c2 msgs = retry_start_wait tm c2 (drop_excluded ps msgs)
  /\ snd (retry_start_wait tm c2 msgs) = false.
Proof.
  intros tm c2 ps msgs Hc Ht. unfold retry_start_wait, timed_wait, drop_excluded, start_wait_timeout, watch_timeout.
  destruct (timed_run_drop c2 (fun x => negb (from_excluded ps x)) (coord_to tm) (tss_to tm) msgs (coord_to tm) Waiting) as [E [L1 L2]].
  - intros x Hx. apply negb_false_iff in Hx. unfold from_excluded in Hx.
    destruct (N.eqb (msg_from (snd x)) c2) eqn:E; [|reflexivity]. apply N.eqb_eq in E. rewrite E in Hx. congruence.
  - lia.
  - exact Ht.
  - cbv zeta. cbn [snd]. split; [|exact L1]. f_equal; [exact E|]. transitivity false; [exact L1|symmetry; exact L2].
Qed.

(* the model's session: whatever excluded peers send after the failure, the replacement attempt is
   the one that would have taken place without their messages *)
Lemma indep_ok_model : forall (key : peer -> N) tm m br holders t self unreach retryable runs1 e bs ready2 msgs2,
  br_guarded br holders self bs e ->
  indep_ok (mkEnv tm holders t self unreach ready2 msgs2) retryable e (length runs1)
    (continue key tm m br classify holders t self retryable runs1 e bs ready2 msgs2) = true.
Proof.
  intros key tm m br holders t self unreach retryable runs1 e bs ready2 msgs2 Hbr.
  unfold indep_ok. destruct retryable; [cbn [negb]|reflexivity].
  destruct (classify_sound e) as [Hg|[k [Hin Ha]]].
  { rewrite (proj1 (classify_giveup_iff e) Hg). reflexivity. }
  destruct (recognised_kinds e) as [|k0 r0] eqn:Hk; [reflexivity|].
  apply existsb_exists. exists k. split; [exact Hin|]. rewrite Ha.
  destruct (classify e) as [ps| | |] eqn:Hc; try reflexivity.
  unfold uninfluenced. cbn [e_self e_tm e_msgs2 e_holders].
  destruct (memb self ps) eqn:Hself; [reflexivity|].
  destruct (calm tm ps msgs2) eqn:Hcalm; [|reflexivity].
  unfold continue, after_failure_with. cbn [negb]. rewrite Hc.
  pose proof (Hbr ps Hc) as Hg. unfold bully_guarded in Hg.
  destruct (N.eqb (br self bs (exclude holders ps)) self) eqn:Hs.
  - destruct (initiate key holders t ps [self] ready2) as [calls ann]. reflexivity.
  - set (c2 := br self bs (exclude holders ps)) in *.
    rewrite memb_cons, Hs in Hg. cbn [orb] in Hg.
    assert (Hc2 : memb c2 ps = false).
    { apply memb_false_In. apply memb_In in Hg. apply exclude_spec in Hg. tauto. }
    destruct (retry_start_wait_drop tm c2 ps msgs2 Hc2 (calm_timely tm ps msgs2 Hcalm)) as [E L].
    cbn [o_final o_inits2 o_runs]. rewrite L, orb_false_r.
    assert (Hb : has_bad (fst (retry_start_wait tm c2 msgs2)) = false).
    { unfold retry_start_wait, timed_wait. cbn [fst]. apply timed_run_no_bad. exact (calm_no_bad tm ps msgs2 c2 Hcalm Hc2). }
    rewrite Hb. cbn [N.eqb FNil andb]. 
    apply existsb_exists. exists c2. split; [apply memb_In; exact Hg|].
    cbv zeta. rewrite skipn_app_exact, <- E, runs_same_refl, list_peer_eqb_refl. reflexivity.
Qed.

Lemma retry_wait_drop : forall c2 ps msgs,
  memb c2 ps = false ->
  retry_wait c2 msgs = retry_wait c2 (filter (fun m => negb (memb (msg_from m) ps)) msgs).
Proof.
  intros c2 ps msgs Hc. unfold retry_wait. apply run_wait2_drop.
  intros m Hm. apply negb_false_iff in Hm.
  destruct (N.eqb (msg_from m) c2) eqn:E; [|reflexivity]. apply N.eqb_eq in E. rewrite E in Hm. congruence.
Qed.

Lemma runs_same_eq : forall a b, runs_same a b = true -> a = b.
Proof.
  induction a as [|[x l] r IH]; destruct b as [|[y l'] r']; cbn [runs_same fst snd]; intros H; try discriminate; [reflexivity|].
  apply andb_true_iff in H. destruct H as [H Hr]. apply andb_true_iff in H. destruct H as [Hx Hl].
  apply eqb_prop in Hx. apply list_peer_eqb_eq in Hl. subst. rewrite (IH r' Hr). reflexivity.
Qed.

(* what the judge's clause means *)
Lemma uninfluenced_sound : forall ev ps nfirst o,
  memb (e_self ev) ps = false -> calm (e_tm ev) ps (e_msgs2 ev) = true ->
  uninfluenced ev ps nfirst o = true ->
  o_final o = FNil
  /\ (o_inits2 o = [] ->
      exists c2, In c2 (e_holders ev) /\ ~ In c2 ps
                 /\ skipn nfirst (o_runs o)
                    = runs_of (fst (retry_start_wait (e_tm ev) c2 (drop_excluded ps (e_msgs2 ev))))
                 /\ o_ready2 o
                    = readies_of (fst (retry_start_wait (e_tm ev) c2 (drop_excluded ps (e_msgs2 ev))))).
Proof.
  intros ev ps nfirst o Hs Hc H. unfold uninfluenced in H. rewrite Hs, Hc in H.
  apply andb_true_iff in H. destruct H as [Hf Hr]. split; [apply N.eqb_eq; exact Hf|].
  intros Hi. rewrite Hi in Hr. apply existsb_exists in Hr. destruct Hr as [c2 [Hin Hsame]].
  apply exclude_spec in Hin. cbv zeta in Hsame. apply andb_true_iff in Hsame. destruct Hsame as [Hsame Hrd].
  exists c2. repeat split; try tauto; [apply runs_same_eq; exact Hsame | apply list_peer_eqb_eq; exact Hrd].
Qed.

Lemma indep_ok_model_strict : forall (key : peer -> N) tm m holders t self unreach retryable runs1 e bs ready2 msgs2,
  indep_ok (mkEnv tm holders t self unreach ready2 msgs2) retryable e (length runs1)
    (continue key tm m (bully_strict key) classify holders t self retryable runs1 e bs ready2 msgs2) = true.
Proof. intros. apply indep_ok_model. intros ps _. apply bully_strict_guarded. Qed.
