(* C10 - proofs. *)
From Coq Require Import List Arith Bool Lia.
Import ListNotations.
From SygmaV Require Import Model.C10.

(* ------------------------------------------------------------------------------------------ *)
(* one session: a finite product, by computation *)
Lemma session_safe : forall k o, feasible k o = true ->
  mrun false (session_events New k o) = MOk false.
Proof. intros k o H. destruct k, o; try discriminate H; vm_compute; reflexivity. Qed.

Lemma session_balanced : forall k o, feasible k o = true ->
  count is_L (session_events New k o) = count is_U (session_events New k o).
Proof. intros k o H. destruct k, o; try discriminate H; vm_compute; reflexivity. Qed.

Lemma session_guarded : forall k o, feasible k o = true ->
  guarded k false false (session_events New k o) = true.
Proof. intros k o H. destruct k, o; try discriminate H; vm_compute; reflexivity. Qed.

Lemma session_ok_model : forall k o, feasible k o = true ->
  session_ok k (session_events New k o) = true.
Proof.
  intros k o H. unfold session_ok.
  rewrite (session_safe k o H), (session_balanced k o H), (session_guarded k o H), Nat.eqb_refl.
  reflexivity.
Qed.

Lemma session_bracketed : forall k o, feasible k o = true ->
  bracketed false (session_events New k o) = true.
Proof. intros k o H. destruct k, o; try discriminate H; vm_compute; reflexivity. Qed.

(* ------------------------------------------------------------------------------------------ *)
(* arbitrary sequences of sessions *)
Lemma mrun_app : forall a b h h', mrun h a = MOk h' -> mrun h (a ++ b) = mrun h' b.
Proof.
  induction a as [|e a IH]; intros b h h' H; cbn in *.
  - now injection H as ->.
  - destruct (mstep h e) as [h1| |]; try discriminate. now apply IH.
Qed.

Lemma count_app : forall f a b, count f (a ++ b) = count f a + count f b.
Proof. intros f a b. unfold count. now rewrite filter_app, app_length. Qed.

Lemma sequence_safe : forall ss, all_feasible ss = true ->
  mrun false (sessions_events New ss) = MOk false.
Proof.
  induction ss as [|[k o] ss IH]; intro H; [reflexivity|].
  cbn in H. apply andb_prop in H. destruct H as [Hf Hr].
  unfold sessions_events. cbn [flat_map fst snd].
  rewrite (mrun_app _ _ false false (session_safe k o Hf)). now apply IH.
Qed.

Lemma sequence_balanced : forall ss, all_feasible ss = true ->
  count is_L (sessions_events New ss) = count is_U (sessions_events New ss).
Proof.
  induction ss as [|[k o] ss IH]; intro H; [reflexivity|].
  cbn in H. apply andb_prop in H. destruct H as [Hf Hr].
  unfold sessions_events. cbn [flat_map fst snd]. rewrite !count_app.
  rewrite (session_balanced k o Hf). unfold sessions_events in IH. now rewrite (IH Hr).
Qed.

(* the state of the store only restricts which outcomes can occur *)
Lemma feasible_in_feasible : forall sh k o, feasible_in sh k o = true -> feasible k o = true.
Proof. intros sh k o H. unfold feasible_in in H. now apply andb_prop in H. Qed.

Lemma all_feasible_in_feasible : forall ss, all_feasible_in ss = true ->
  all_feasible (map snd ss) = true.
Proof.
  induction ss as [|[sh [k o]] ss IH]; intro H; [reflexivity|].
  cbn in H. apply andb_prop in H. destruct H as [Hf Hr].
  cbn. rewrite (feasible_in_feasible sh k o Hf). now apply IH.
Qed.

Lemma constructor_fails_safe : forall k, feasible k ConstructorFails = true ->
  mrun false (session_events New k ConstructorFails) = MOk false /\
  count is_L (session_events New k ConstructorFails) = count is_U (session_events New k ConstructorFails) /\
  guarded k false false (session_events New k ConstructorFails) = true.
Proof.
  intros k H. repeat split;
    [now apply session_safe | now apply session_balanced | now apply session_guarded].
Qed.

(* whatever the share file looks like, a signing constructor that fails on it is the only thing
   that can happen to a signing request *)
Lemma unreadable_signing_fails : forall sh k o, sh <> Readable -> is_signing k = true ->
  feasible_in sh k o = true -> o = ConstructorFails.
Proof.
  intros sh k o Hs Hk H. unfold feasible_in in H. apply andb_prop in H. destruct H as [_ H].
  rewrite Hk in H. cbn in H. destruct sh; [contradiction| | |]; destruct o; try discriminate; reflexivity.
Qed.

Lemma sequence_in_safe : forall ss, all_feasible_in ss = true ->
  mrun false (sessions_events New (map snd ss)) = MOk false /\
  count is_L (sessions_events New (map snd ss)) = count is_U (sessions_events New (map snd ss)).
Proof.
  intros ss H. apply all_feasible_in_feasible in H.
  split; [now apply sequence_safe | now apply sequence_balanced].
Qed.

(* every access of every session happens under the lock, also in sequences *)
Lemma session_access : forall k o, feasible k o = true ->
  locked_access false (session_events New k o) = true.
Proof. intros k o H. destruct k, o; try discriminate H; vm_compute; reflexivity. Qed.

Lemma locked_access_app : forall a b h h', mrun h a = MOk h' ->
  locked_access h (a ++ b) = locked_access h a && locked_access h' b.
Proof.
  induction a as [|e a IH]; intros b h h' H; cbn in *.
  - now injection H as ->.
  - destruct e; cbn in H.
    + destruct h; [discriminate|]. now apply IH.
    + destruct h; [|discriminate]. now apply IH.
    + rewrite (IH b h h' H). now rewrite andb_assoc.
    + rewrite (IH b h h' H). now rewrite andb_assoc.
    + now apply IH.
    + now apply IH.
Qed.

Lemma sequence_access : forall ss, all_feasible ss = true ->
  locked_access false (sessions_events New ss) = true.
Proof.
  induction ss as [|[k o] ss IH]; intro H; [reflexivity|].
  cbn in H. apply andb_prop in H. destruct H as [Hf Hr].
  unfold sessions_events. cbn [flat_map fst snd].
  rewrite (locked_access_app _ _ false false (session_safe k o Hf)), (session_access k o Hf).
  now apply IH.
Qed.

Lemma sequence_ok_model : forall ss, all_feasible ss = true ->
  sequence_ok (sessions_events New ss) = true.
Proof.
  intros ss H. unfold sequence_ok.
  rewrite (sequence_safe ss H), (sequence_balanced ss H), Nat.eqb_refl, (sequence_access ss H).
  reflexivity.
Qed.

(* what the judges mean *)
Lemma mrun_no_fatal_prefix : forall l h h', mrun h l = MOk h' ->
  forall l1 l2, l = l1 ++ l2 -> exists h1, mrun h l1 = MOk h1.
Proof.
  induction l as [|e l IH]; intros h h' H l1 l2 He.
  - destruct l1; [exists h; reflexivity | discriminate].
  - destruct l1 as [|e1 l1]; [exists h; reflexivity|].
    cbn in He. injection He as <- He. cbn in *.
    destruct (mstep h e) as [hh| |]; try discriminate. now apply (IH hh h' H l1 l2).
Qed.

Lemma session_ok_sound : forall k l, session_ok k l = true ->
  mrun false l = MOk false /\ count is_L l = count is_U l /\ guarded k false false l = true.
Proof.
  intros k l H. unfold session_ok in H.
  apply andb_prop in H. destruct H as [H H3]. apply andb_prop in H. destruct H as [H1 H2].
  repeat split; [| now apply Nat.eqb_eq | exact H3].
  destruct (mrun false l) as [[|]| |]; try discriminate. reflexivity.
Qed.

(* every read or write of the share recorded in a guarded ledger happened under the lock:
   [held_after h l1] is the state of the mutex after the prefix l1 *)
Fixpoint held_after (h : bool) (l : list ev) : bool :=
  match l with
  | [] => h
  | L :: r => held_after true r
  | U :: r => held_after false r
  | _ :: r => held_after h r
  end.

Lemma guarded_access_under_lock : forall k l h ir l1 e l2,
  guarded k h ir l = true -> l = l1 ++ e :: l2 -> (e = Get \/ e = Store) -> held_after h l1 = true.
Proof.
  intros k l. induction l as [|x l IH]; intros h ir l1 e l2 HG He Hacc.
  - destruct l1; discriminate.
  - destruct l1 as [|y l1].
    + cbn in He. injection He as -> ->. cbn.
      destruct Hacc as [-> | ->]; cbn in HG; now apply andb_prop in HG.
    + cbn in He. injection He as <- He. cbn in HG.
      destruct x; cbn.
      * eapply IH; eauto.
      * apply andb_prop in HG. destruct HG as [_ HG]. eapply IH; eauto.
      * apply andb_prop in HG. destruct HG as [_ HG]. eapply IH; eauto.
      * apply andb_prop in HG. destruct HG as [_ HG]. eapply IH; eauto.
      * eapply IH; eauto.
      * apply andb_prop in HG. destruct HG as [_ HG]. eapply IH; eauto.
Qed.

(* an exclusive process holds the lock when its Run returns *)
Lemma guarded_held_at_run_end : forall k l h ir l1 l2,
  exclusive k = true -> guarded k h ir l = true -> l = l1 ++ RunEnd :: l2 -> held_after h l1 = true.
Proof.
  intros k l. induction l as [|x l IH]; intros h ir l1 l2 Hex HG He.
  - destruct l1; discriminate.
  - destruct l1 as [|y l1].
    + cbn in He. injection He as -> ->. cbn. cbn in HG. rewrite Hex in HG. cbn in HG.
      now apply andb_prop in HG.
    + cbn in He. injection He as <- He. cbn in HG.
      destruct x; cbn.
      * eapply IH; eauto.
      * apply andb_prop in HG. destruct HG as [_ HG]. eapply IH; eauto.
      * apply andb_prop in HG. destruct HG as [_ HG]. eapply IH; eauto.
      * apply andb_prop in HG. destruct HG as [_ HG]. eapply IH; eauto.
      * eapply IH; eauto.
      * apply andb_prop in HG. destruct HG as [_ HG]. eapply IH; eauto.
Qed.

(* ------------------------------------------------------------------------------------------ *)
(* The code as found. *)
Lemma old_fatal : mrun false (session_events Old EcdsaKeygen NeverSilent) = MFatal.
Proof. reflexivity. Qed.

Lemma old_leak : mrun false (session_events Old FrostKeygen Refused) = MOk true /\
  mrun false (sessions_events Old [(FrostKeygen, Refused); (FrostKeygen, RanSucceeded)]) = MBlocked.
Proof. split; reflexivity. Qed.

(* ------------------------------------------------------------------------------------------ *)
(* Concurrent sessions on one mutex. *)
Lemma updf_same : forall A (f : nat -> A) t x, updf f t x t = x.
Proof. intros. unfold updf. now rewrite Nat.eqb_refl. Qed.

Lemma updf_other : forall A (f : nat -> A) t x u, u <> t -> updf f t x u = f u.
Proof. intros A f t x u H. unfold updf. destruct (Nat.eqb_spec u t); [contradiction|reflexivity]. Qed.

Record CInv (st : cstate) : Prop := mkCInv {
  cB : forall t, bracketed (owns st t) (rest st t) = true;
  cF : fatal st = false;
  cX : bad st = false
}.

Lemma bracketed_excl : forall l h, bracketed h l = true -> bracketed (negb h) l = false.
Proof.
  induction l as [|e l IH]; intros h H; cbn in *.
  - now rewrite H.
  - destruct e; cbn in *;
      try (apply andb_prop in H; destruct H as [H1 H2]; destruct h; cbn in *; try discriminate; reflexivity);
      now apply IH.
Qed.

Lemma cstep_inv : forall st t, CInv st -> CInv (cstep st t).
Proof.
  intros st t HI. unfold cstep. destruct (rest st t) as [|e r] eqn:Hr; [exact HI|].
  pose proof (cB st HI t) as Ht. rewrite Hr in Ht.
  destruct e.
  - (* L *)
    destruct (owner st) as [o|] eqn:Ho; [exact HI|].
    assert (Hnt : owns st t = false) by (unfold owns; now rewrite Ho).
    rewrite Hnt in Ht. cbn in Ht.
    constructor; cbn; [| apply (cF st HI) | apply (cX st HI)].
    intro u. unfold owns. cbn. destruct (Nat.eq_dec u t) as [->|Hne].
    + rewrite updf_same, Nat.eqb_refl. exact Ht.
    + rewrite updf_other by exact Hne.
      replace (t =? u) with false by (symmetry; apply Nat.eqb_neq; intro Hx; apply Hne; now symmetry).
      pose proof (cB st HI u) as Hu. unfold owns in Hu. now rewrite Ho in Hu.
  - (* U *)
    cbn in Ht. apply andb_prop in Ht. destruct Ht as [Hown Ht].
    unfold owns in Hown. destruct (owner st) as [o|] eqn:Ho; [|discriminate].
    apply Nat.eqb_eq in Hown. subst o.
    constructor; cbn; [| apply (cF st HI) | apply (cX st HI)].
    intro u. unfold owns. cbn. destruct (Nat.eq_dec u t) as [->|Hne].
    + now rewrite updf_same.
    + rewrite updf_other by exact Hne. pose proof (cB st HI u) as Hu. unfold owns in Hu.
      rewrite Ho in Hu. replace (t =? u) with false in Hu by (symmetry; apply Nat.eqb_neq; intro Hx; apply Hne; now symmetry).
      exact Hu.
  - (* Get *)
    cbn in Ht. apply andb_prop in Ht. destruct Ht as [Hown Ht].
    constructor; cbn; [| apply (cF st HI) | rewrite Hown, (cX st HI); reflexivity].
    intro u. unfold owns. cbn. fold (owns st u). destruct (Nat.eq_dec u t) as [->|Hne].
    + rewrite updf_same. exact Ht.
    + rewrite updf_other by exact Hne. apply (cB st HI u).
  - (* Store *)
    cbn in Ht. apply andb_prop in Ht. destruct Ht as [Hown Ht].
    constructor; cbn; [| apply (cF st HI) | rewrite Hown, (cX st HI); reflexivity].
    intro u. unfold owns. cbn. fold (owns st u). destruct (Nat.eq_dec u t) as [->|Hne].
    + rewrite updf_same. exact Ht.
    + rewrite updf_other by exact Hne. apply (cB st HI u).
  - (* RunBegin *)
    cbn in Ht.
    constructor; cbn; [| apply (cF st HI) | apply (cX st HI)].
    intro u. unfold owns. cbn. fold (owns st u). destruct (Nat.eq_dec u t) as [->|Hne].
    + now rewrite updf_same.
    + rewrite updf_other by exact Hne. apply (cB st HI u).
  - (* RunEnd *)
    cbn in Ht.
    constructor; cbn; [| apply (cF st HI) | apply (cX st HI)].
    intro u. unfold owns. cbn. fold (owns st u). destruct (Nat.eq_dec u t) as [->|Hne].
    + now rewrite updf_same.
    + rewrite updf_other by exact Hne. apply (cB st HI u).
Qed.

Lemma cexec_inv : forall sched st, CInv st -> CInv (cexec sched st).
Proof.
  induction sched as [|t r IH]; intros st HI; [exact HI|]. cbn. apply IH. now apply cstep_inv.
Qed.

Lemma cinit_inv : forall prog, (forall t, bracketed false (prog t) = true) -> CInv (cinit prog).
Proof. intros prog H. constructor; cbn; try reflexivity. intro t. apply H. Qed.

(* [inside st t]: thread t is between a Lock and the matching Unlock *)
Definition inside (st : cstate) (t : nat) : Prop := bracketed true (rest st t) = true.

Lemma serialised : forall prog sched,
  (forall t, bracketed false (prog t) = true) ->
  let st := cexec sched (cinit prog) in
  fatal st = false /\ bad st = false /\
  (forall t, inside st t -> owner st = Some t) /\
  (forall t1 t2, inside st t1 -> inside st t2 -> t1 = t2).
Proof.
  intros prog sched H st.
  pose proof (cexec_inv sched _ (cinit_inv prog H)) as HI. fold st in HI.
  assert (Hin : forall t, inside st t -> owner st = Some t).
  { intros t Hi. unfold inside in Hi. pose proof (cB st HI t) as Hb.
    destruct (owns st t) eqn:Ho.
    - unfold owns in Ho. destruct (owner st) as [o|]; [|discriminate].
      apply Nat.eqb_eq in Ho. now subst.
    - apply bracketed_excl in Hb. cbn in Hb. congruence. }
  repeat split; [apply (cF st HI) | apply (cX st HI) | exact Hin |].
  intros t1 t2 H1 H2. apply Hin in H1. apply Hin in H2. congruence.
Qed.

Lemma bracketed_app : forall a b h, bracketed h a = true -> bracketed false b = true ->
  bracketed h (a ++ b) = true.
Proof.
  induction a as [|e a IH]; intros b h Ha Hb; cbn in *.
  - destruct h; [discriminate | exact Hb].
  - destruct e; cbn in *; destruct h; cbn in *; try discriminate; now apply IH.
Qed.

Lemma sequence_bracketed : forall ss, all_feasible ss = true ->
  bracketed false (sessions_events New ss) = true.
Proof.
  induction ss as [|[k o] ss IH]; intro H; [reflexivity|].
  cbn in H. apply andb_prop in H. destruct H as [Hf Hr].
  unfold sessions_events. cbn [flat_map fst snd].
  apply bracketed_app; [now apply session_bracketed | now apply IH].
Qed.

(* any number of relayer threads, each running any sequence of sessions, any schedule *)
Lemma serialised_sessions : forall (plan : nat -> list (kind * outcome)) sched,
  (forall t, all_feasible (plan t) = true) ->
  let st := cexec sched (cinit (fun t => sessions_events New (plan t))) in
  fatal st = false /\ bad st = false /\
  (forall t1 t2, inside st t1 -> inside st t2 -> t1 = t2).
Proof.
  intros plan sched H st.
  destruct (serialised (fun t => sessions_events New (plan t)) sched) as [H1 [H2 [_ H4]]].
  - intro t. now apply sequence_bracketed.
  - repeat split; assumption.
Qed.

(* ------------------------------------------------------------------------------------------ *)
(* A started Run that fails, by the class of its error; abnormal termination.                   *)
Lemma failed_outcome_feasible : forall k f a, feasible k (failed_outcome k f a) = true.
Proof. intros k f a. destruct k, f, a; reflexivity. Qed.

Lemma failed_safe : forall k f a,
  session_ok k (session_events New k (failed_outcome k f a)) = true.
Proof. intros k f a. apply session_ok_model. apply failed_outcome_feasible. Qed.

(* a process that is not Retryable is run once, whatever the class of the error *)
Lemma failed_run_once : forall k f a, is_signing k = false ->
  failed_outcome k f a = RanFailed /\
  count (fun e => match e with RunBegin => true | _ => false end)
        (session_events New k (failed_outcome k f a)) = 1.
Proof. intros k f a H. destruct k; try discriminate H; destruct f, a; split; reflexivity. Qed.

(* ... and if the ECDSA keygen WERE run again after a started Run failed (Retryable() = true, or a
   coordinator that retries it all the same), its second Run would ask for the lock it holds *)
Lemma retried_keygen_blocks :
  mrun false (retried_anyway_events EcdsaKeygen) = MBlocked /\
  session_ok EcdsaKeygen (retried_anyway_events EcdsaKeygen) = false.
Proof. split; reflexivity. Qed.

Lemma panic_outcomes_safe : forall k o,
  (o = PanicBeforeStart \/ o = PanicInRunLate \/ o = PanicAfterRun) ->
  feasible k o = true /\ session_ok k (session_events New k o) = true /\
  mrun false (session_events New k o) = MOk false.
Proof.
  intros k o H.
  assert (Hf : feasible k o = true) by (destruct H as [->|[->| ->]]; destruct k; reflexivity).
  repeat split; [exact Hf | now apply session_ok_model | now apply session_safe].
Qed.

Lemma panic_ledgers : forall k,
  session_events New k PanicBeforeStart = ctor_events k ++ stop_events New k false /\
  session_events New k PanicInRunLate = session_events New k RanFailed /\
  session_events New k PanicAfterRun = session_events New k RanFailed.
Proof. intro k. destruct k; repeat split; reflexivity. Qed.

(* a cleanup that is skipped when the process panics (Execute recovers the panic and returns before
   Stop is called): the lock the process took is still held, the judge rejects the ledger *)
Definition no_stop_events (k : kind) : list ev := ctor_events k ++ run_events k RanFailed.

Lemma skipped_cleanup_leaks : forall k, exclusive k = true ->
  mrun false (no_stop_events k) = MOk true /\ session_ok k (no_stop_events k) = false.
Proof. intros k H. destruct k; try discriminate H; split; reflexivity. Qed.
