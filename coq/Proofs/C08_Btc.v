(* C08 - proofs about the BTC executor's collection of per-input signatures (watchExecution). *)
From Coq Require Import List Arith Bool Lia.
Import ListNotations.
From SygmaV Require Import Model.C08.

(* every slot is empty or holds the signature made for its own input *)
Fixpoint slots_own (i : nat) (l : list (option nat)) : bool :=
  match l with
  | [] => true
  | s :: r => match s with None => true | Some id => Nat.eqb id i end && slots_own (S i) r
  end.

Lemma slots_own_repeat : forall n i, slots_own i (repeat None n) = true.
Proof. induction n as [|n IH]; intro i; cbn; [reflexivity | apply IH]. Qed.

Lemma set_slot_own : forall l i k l', slots_own i l = true ->
  set_slot k (Some (i + k)) l = Some l' -> slots_own i l' = true /\ length l' = length l.
Proof.
  induction l as [|s r IH]; intros i k l' Ho Hs; [discriminate|].
  cbn in Ho. apply andb_prop in Ho. destruct Ho as [Hs0 Hr].
  destruct k as [|k]; cbn in Hs.
  - injection Hs as <-. cbn. rewrite Nat.add_0_r, Nat.eqb_refl, Hr. split; reflexivity.
  - destruct (set_slot k (Some (i + S k)) r) as [r'|] eqn:Hk; [|discriminate].
    injection Hs as <-. replace (i + S k) with (S i + k) in Hk by lia.
    destruct (IH (S i) k r' Hr Hk) as [Ho' Hl]. cbn. rewrite Hs0, Ho', Hl. split; reflexivity.
Qed.

Lemma own_filled_valid : forall l i, slots_own i l = true -> forallb slot_filled l = true ->
  forallb (fun b => b) (slots_valid_from i l) = true.
Proof.
  induction l as [|s r IH]; intros i Ho Hf; [reflexivity|].
  cbn in *. apply andb_prop in Ho. destruct Ho as [Hs Hr].
  apply andb_prop in Hf. destruct Hf as [Hf0 Hfr].
  destruct s as [id|]; [|discriminate]. cbn. rewrite Hs. cbn. now apply IH.
Qed.

Lemma slots_valid_length : forall l i, length (slots_valid_from i l) = length l.
Proof. induction l as [|s r IH]; intro i; cbn; [reflexivity | now rewrite IH]. Qed.

(* whatever the results, their order and multiplicity: what is sent carries, on EVERY input, the
   signature made for that input *)
Lemma btc_watch_sent_valid : forall rs slots w, slots_own 0 slots = true ->
  btc_watch slots rs = WSent w ->
  length w = length slots /\ forallb (fun b => b) (slots_valid_from 0 w) = true.
Proof.
  induction rs as [|r rs IH]; intros slots w Ho H; cbn in H; [discriminate|].
  destruct r as [id|]; [|now apply IH].
  destruct (set_slot id (Some id) slots) as [slots'|] eqn:Hs; [|discriminate].
  destruct (set_slot_own slots 0 id slots' Ho Hs) as [Ho' Hl].
  destruct (forallb slot_filled slots') eqn:Hf.
  - injection H as <-. split; [exact Hl | now apply own_filled_valid].
  - destruct (IH slots' w Ho' H) as [Hl' Hv]. split; [congruence | exact Hv].
Qed.

Lemma btc_watch_tx_sent_valid : forall n rs w, btc_watch_tx n rs = WSent w ->
  length w = n /\ forallb (fun b => b) (slots_valid_from 0 w) = true.
Proof.
  intros n rs w H. unfold btc_watch_tx in H.
  destruct (btc_watch_sent_valid rs (repeat None n) w (slots_own_repeat n 0) H) as [Hl Hv].
  rewrite repeat_length in Hl. split; assumption.
Qed.

(* the judge accepts what the model sends *)
Definition btc_model_obs (n : nat) (rs : list (option nat)) : nat * list bool :=
  match btc_watch_tx n rs with
  | WSent w => (1, slots_valid_from 0 w)
  | _ => (0, [])
  end.

Lemma btc_sent_ok_model : forall n rs,
  btc_sent_ok n (fst (btc_model_obs n rs)) (snd (btc_model_obs n rs)) = true.
Proof.
  intros n rs. unfold btc_model_obs. destruct (btc_watch_tx n rs) as [|w|] eqn:H; [reflexivity| |reflexivity].
  destruct (btc_watch_tx_sent_valid n rs w H) as [Hl Hv]. cbn.
  rewrite slots_valid_length, Hl, Nat.eqb_refl, Hv. reflexivity.
Qed.

Lemma btc_sent_ok_sound : forall n sent valids, btc_sent_ok n sent valids = true -> sent <> 0 ->
  length valids = n /\ forall i, i < n -> nth i valids false = true.
Proof.
  intros n sent valids H Hs. destruct sent as [|s]; [contradiction|]. cbn in H.
  apply andb_prop in H. destruct H as [Hl Hv]. apply Nat.eqb_eq in Hl. split; [exact Hl|].
  intros i Hi. rewrite forallb_forall in Hv. apply Hv. apply nth_In. lia.
Qed.

(* ---- a complete execution by the relayers of a committee ------------------------------------------ *)
(* the expected outcome - k >= 1 relayers (the selected signers) broadcast the fully signed transaction
   once, the others nothing - is accepted, with and without the obligation to sign *)
Lemma btc_exec_ok_ideal : forall must n k j, 1 <= k ->
  btc_exec_ok must n (repeat (1, repeat true n) k ++ repeat (0, []) j) = true.
Proof.
  intros must n k j Hk. unfold btc_exec_ok. apply andb_true_intro. split.
  - apply forallb_forall. intros r Hr. apply in_app_or in Hr. destruct Hr as [Hr|Hr]; apply repeat_spec in Hr; subst r; cbn.
    + rewrite repeat_length, Nat.eqb_refl. cbn. apply forallb_forall. intros b Hb. apply repeat_spec in Hb. exact Hb.
    + reflexivity.
  - destruct k as [|k]; [lia|]. cbn. apply orb_true_r.
Qed.

(* what the judge means: every relayer that broadcast anything broadcast valid signatures on all n
   inputs, and under the obligation to sign some relayer did broadcast *)
Lemma btc_exec_ok_sound : forall must n relayers, btc_exec_ok must n relayers = true ->
  (forall r, In r relayers -> fst r <> 0 -> length (snd r) = n /\ forall i, i < n -> nth i (snd r) false = true) /\
  (must = true -> exists r, In r relayers /\ fst r <> 0 /\ length (snd r) = n /\ forall i, i < n -> nth i (snd r) false = true).
Proof.
  intros must n relayers H. unfold btc_exec_ok in H. apply andb_prop in H. destruct H as [Hall Hex].
  assert (Hone : forall r, In r relayers -> fst r <> 0 -> length (snd r) = n /\ forall i, i < n -> nth i (snd r) false = true).
  { intros r Hr Hs. rewrite forallb_forall in Hall. exact (btc_sent_ok_sound n (fst r) (snd r) (Hall r Hr) Hs). }
  split; [exact Hone|].
  intro Hm. subst must. cbn in Hex. apply existsb_exists in Hex. destruct Hex as [r [Hr Hs]].
  assert (Hne : fst r <> 0). { intro E. rewrite E in Hs. discriminate. }
  exists r. split; [exact Hr|]. split; [exact Hne|]. exact (Hone r Hr Hne).
Qed.

(* without a single broadcast the obligation to sign is not met (a transfer whose inputs are never all
   signed), while the plain judge has nothing to object to *)
Lemma btc_exec_must_sign_refutes_silence :
  btc_exec_ok true 2 [(0, [true; true]); (0, [true; true]); (0, [true; true])] = false /\
  btc_exec_ok false 2 [(0, [true; true]); (0, [true; true]); (0, [true; true])] = true.
Proof. split; reflexivity. Qed.

(* ---- it never indexes out of range and it does send once every input has delivered ------------- *)
Lemma set_slot_in_range : forall l k v, k < length l -> exists l', set_slot k v l = Some l'.
Proof.
  induction l as [|s r IH]; intros k v Hk; cbn in Hk; [lia|].
  destruct k as [|k]; cbn; [eexists; reflexivity|].
  destruct (IH k v) as [r' Hr]; [lia|]. rewrite Hr. eexists; reflexivity.
Qed.

Lemma set_slot_nth : forall l k v l' i, set_slot k v l = Some l' ->
  nth i l' None = if Nat.eqb i k then v else nth i l None.
Proof.
  induction l as [|s r IH]; intros k v l' i H; [discriminate|].
  destruct k as [|k]; cbn in H.
  - injection H as <-. destruct i; reflexivity.
  - destruct (set_slot k v r) as [r'|] eqn:Hr; [|discriminate]. injection H as <-.
    destruct i as [|i]; [reflexivity|]. cbn. now apply IH.
Qed.

Lemma set_slot_length : forall l k v l', set_slot k v l = Some l' -> length l' = length l.
Proof.
  induction l as [|s r IH]; intros k v l' H; [discriminate|].
  destruct k as [|k]; cbn in H.
  - injection H as <-. reflexivity.
  - destruct (set_slot k v r) as [r'|] eqn:Hr; [|discriminate]. injection H as <-.
    cbn. f_equal. now apply (IH k v).
Qed.

Lemma forallb_filled_nth : forall l, forallb slot_filled l = false ->
  exists i, i < length l /\ slot_filled (nth i l None) = false.
Proof.
  induction l as [|s r IH]; intro H; [discriminate|]. cbn in H.
  destruct (slot_filled s) eqn:Hs.
  - cbn in H. destruct (IH H) as [i [Hi Hf]]. exists (S i). cbn. split; [lia | exact Hf].
  - exists 0. cbn. split; [lia | exact Hs].
Qed.

Lemma btc_watch_live : forall rs slots,
  results_in_range (length slots) rs = true ->
  forallb slot_filled slots = false ->
  (forall i, i < length slots -> slot_filled (nth i slots None) = true \/ input_delivered i rs = true) ->
  exists w, btc_watch slots rs = WSent w.
Proof.
  induction rs as [|r rs IH]; intros slots Hr Hnf Hd.
  - destruct (forallb_filled_nth slots Hnf) as [i [Hi Hf]].
    destruct (Hd i Hi) as [H|H]; [congruence | discriminate].
  - cbn in Hr. apply andb_prop in Hr. destruct Hr as [Hr0 Hrr].
    destruct r as [id|]; cbn.
    + apply Nat.ltb_lt in Hr0.
      destruct (set_slot_in_range slots id (Some id) Hr0) as [slots' Hs]. rewrite Hs.
      destruct (forallb slot_filled slots') eqn:Hf; [eexists; reflexivity|].
      pose proof (set_slot_length slots id (Some id) slots' Hs) as Hl.
      apply IH; [now rewrite Hl | exact Hf |].
      intros i Hi. rewrite Hl in Hi. rewrite (set_slot_nth slots id (Some id) slots' i Hs).
      destruct (Nat.eqb_spec i id) as [->|Hne]; [left; reflexivity|].
      destruct (Hd i Hi) as [H|H]; [left; exact H|]. right.
      cbn in H. destruct (Nat.eqb_spec id i) as [->|_]; [contradiction | exact H].
    + apply IH; [exact Hrr | exact Hnf |].
      intros i Hi. destruct (Hd i Hi) as [H|H]; [left; exact H | right; exact H].
Qed.

Lemma repeat_none_unfilled : forall n, 0 < n -> forallb slot_filled (repeat None n) = false.
Proof. intros n H. destruct n; [lia | reflexivity]. Qed.

Lemma btc_watch_tx_live : forall n rs, 0 < n -> results_in_range n rs = true ->
  (forall i, i < n -> input_delivered i rs = true) -> exists w, btc_watch_tx n rs = WSent w.
Proof.
  intros n rs Hn Hr Hd. unfold btc_watch_tx. apply btc_watch_live.
  - now rewrite repeat_length.
  - now apply repeat_none_unfilled.
  - intros i Hi. rewrite repeat_length in Hi. right. now apply Hd.
Qed.

Lemma btc_watch_no_panic : forall rs slots, results_in_range (length slots) rs = true ->
  btc_watch slots rs <> WPanic.
Proof.
  induction rs as [|r rs IH]; intros slots Hr; cbn; [discriminate|].
  cbn in Hr. apply andb_prop in Hr. destruct Hr as [Hr0 Hrr].
  destruct r as [id|]; [|now apply IH].
  apply Nat.ltb_lt in Hr0.
  destruct (set_slot_in_range slots id (Some id) Hr0) as [slots' Hs]. rewrite Hs.
  destruct (forallb slot_filled slots'); [discriminate|].
  apply IH. now rewrite (set_slot_length slots id (Some id) slots' Hs).
Qed.

(* the seeded variant "count the results": a second signature for an input that is already signed
   is taken for the missing one *)
Fixpoint btc_watch_counting (pending : nat) (slots : list (option nat)) (rs : list (option nat)) : wres :=
  match rs with
  | [] => WWaiting
  | None :: r => btc_watch_counting pending slots r
  | Some id :: r =>
      match set_slot id (Some id) slots with
      | None => WPanic
      | Some slots' => match pending with
                       | S (S p) => btc_watch_counting (S p) slots' r
                       | _ => WSent slots'
                       end
      end
  end.

Lemma counting_sends_unsigned_input :
  btc_watch_counting 2 (repeat None 2) [Some 0; Some 0; Some 1] = WSent [Some 0; None] /\
  btc_sent_ok 2 1 (slots_valid_from 0 [Some 0; None]) = false /\
  btc_watch_tx 2 [Some 0; Some 0; Some 1] = WSent [Some 0; Some 1].
Proof. repeat split. Qed.
