(* C02 - histories on long-lived digest objects: lemmas. *)
From Coq Require Import List NArith Bool Arith Lia.
From SygmaV Require Import Lib.Hex Model.C02 Proofs.C02 Proofs.C02_Exec.
Import ListNotations.
Local Open Scope N_scope.

Lemma answer_ok_sound want a : answer_ok want a = true -> a = AErr \/ a = ADigest want.
Proof.
  destruct a as [d| |]; cbn [answer_ok]; intros E.
  - right. apply bytes_eqb_eq in E. subst d. reflexivity.
  - left. reflexivity.
  - discriminate.
Qed.

Lemma hist_ok_sound h : hist_ok h = true ->
  forall want a, In (want, a) h -> a = AErr \/ a = ADigest want.
Proof.
  unfold hist_ok. intros E want a Hin. rewrite forallb_forall in E.
  exact (answer_ok_sound want a (E (want, a) Hin)).
Qed.

Lemma hist_ok_complete h :
  (forall want a, In (want, a) h -> a = AErr \/ a = ADigest want) -> hist_ok h = true.
Proof.
  intros Hall. unfold hist_ok. apply forallb_forall. intros [want a] Hin. cbn [fst snd].
  destruct (Hall want a Hin) as [-> | ->]; cbn [answer_ok]; [reflexivity|apply bytes_eqb_refl].
Qed.

Lemma model_answer_ok H q : answer_ok (want_of H q) (model_answer H q) = true.
Proof.
  unfold model_answer. destruct (q_rpc_fails q); cbn [answer_ok]; [reflexivity|apply bytes_eqb_refl].
Qed.

Lemma hist_ok_model H qs : hist_ok (model_hist H qs) = true.
Proof.
  unfold hist_ok, model_hist. apply forallb_forall. intros x Hin.
  apply in_map_iff in Hin as [q [<- _]]. cbn [fst snd]. apply model_answer_ok.
Qed.

(* what a request is answered does not depend on the requests before or after it *)
Lemma model_hist_independent H pre q post :
  nth_error (model_hist H (pre ++ q :: post)) (length pre) = Some (want_of H q, model_answer H q).
Proof.
  unfold model_hist. rewrite map_app. cbn [map].
  rewrite nth_error_app2; rewrite map_length; [|lia]. rewrite Nat.sub_diag. reflexivity.
Qed.

Lemma with_chain_same d : with_chain d (d_chain d) = d.
Proof. destruct d; reflexivity. Qed.

(* the once-per-object chain id: after a healthy first call it answers every request of the SAME object
   with the right digest (also while the RPC is down: it does not ask any more) *)
Lemma once_hist_kept_ok H d qs :
  (forall q, In q qs -> q_dom q = d) -> hist_ok (once_hist H (Some (d_chain d)) qs) = true.
Proof.
  induction qs as [|q r IH]; intros Hd; [reflexivity|].
  cbn [once_hist once_step]. unfold hist_ok. cbn [forallb fst snd answer_ok].
  rewrite <- (Hd q (or_introl eq_refl)) at 1. rewrite with_chain_same.
  unfold want_of at 1. rewrite bytes_eqb_refl. cbn [andb].
  apply IH. intros q' Hin. apply Hd. right. exact Hin.
Qed.

Lemma once_cache_healthy_first H d q qs :
  q_rpc_fails q = false -> (forall q', In q' (q :: qs) -> q_dom q' = d) ->
  hist_ok (once_hist H None (q :: qs)) = true.
Proof.
  intros Hq Hd. cbn [once_hist once_step]. rewrite Hq.
  unfold hist_ok. cbn [forallb fst snd answer_ok]. rewrite bytes_eqb_refl. cbn [andb].
  rewrite (Hd q (or_introl eq_refl)).
  apply once_hist_kept_ok. intros q' Hin. apply Hd. right. exact Hin.
Qed.

(* ... after a FAILED first call it answers the next request with the digest for chain id 0 *)
Lemma once_cache_refuted :
  exists (H : list N -> list N) d q1 q2,
    (forall x, length (H x) = 32%nat) /\ wf_domain d = true /\
    q_dom q1 = d /\ q_dom q2 = d /\ q_rpc_fails q1 = true /\ q_rpc_fails q2 = false /\
    hist_ok (once_hist H None [q1; q2]) = false /\
    nth_error (once_hist H None [q1; q2]) 1 =
      Some (digest H d (q_batch q2), ADigest (digest H (with_chain d 0) (q_batch q2))).
Proof.
  set (d := bridge_domain 5 (repeat 17%N 20)).
  set (p := {| p_origin := 1; p_nonce := 7; p_rid := repeat 3%N 32; p_data := [] |}).
  exists mix32, d, {| q_dom := d; q_batch := [p]; q_rpc_fails := true |},
    {| q_dom := d; q_batch := [p]; q_rpc_fails := false |}.
  split; [exact mix32_length|]. repeat split; vm_compute; reflexivity.
Qed.
