(* C20 - proofs about Model/C20Elapsed.v *)
From Coq Require Import List ZArith Bool String Lia ZifyBool.
Import ListNotations.
From SygmaV Require Import Model.C20 Model.C20Num Model.C20Elapsed.
Local Open Scope Z_scope.

Lemma elapsed_ok_model : forall w, elapsed_wf w = true -> elapsed_ok w (model_elapsed w) = true.
Proof.
  intros w Hw. unfold elapsed_ok, model_elapsed.
  destruct w as [z h|n d|s|b|].
  - cbn [decode_elapsed].
    destruct ((min_i64 <=? given z h) && (given z h <? two63)); [|reflexivity].
    destruct (given z h =? 0) eqn:E0; lia.
  - reflexivity.
  - cbn [decode_elapsed]. unfold parse_duration.
    destruct (duration_reading s) as [[n u]|]; [|reflexivity].
    destruct (n * unit_ns u <=? max_int64); [|reflexivity].
    destruct (n * unit_ns u =? 0) eqn:E0; lia.
  - destruct b; reflexivity.
  - reflexivity.
Qed.

Lemma elapsed_ok_sound_num : forall z h v, elapsed_ok (WNum z h) (Some v) = true ->
  v = given z h \/ (given z h = 0 /\ v = elapsed_default).
Proof. intros z h v H. unfold elapsed_ok in H. lia. Qed.

Lemma elapsed_ok_sound_text : forall s n u v, duration_reading s = Some (n, u) ->
  elapsed_ok (WStr s) (Some v) = true ->
  v = n * unit_ns u \/ (n * unit_ns u = 0 /\ v = elapsed_default).
Proof. intros s n u v Hr H. unfold elapsed_ok in H. rewrite Hr in H. lia. Qed.

Lemma elapsed_bad_number_rejected : forall z h n d,
  (given z h < min_i64 \/ two63 <= given z h -> model_elapsed (WNum z h) = None) /\
  model_elapsed (WFrac n d) = None /\ elapsed_ok (WFrac n d) (Some z) = false.
Proof.
  intros z h n d. repeat split; try reflexivity. intro Hz. unfold model_elapsed. cbn [decode_elapsed].
  destruct ((min_i64 <=? given z h) && (given z h <? two63)) eqn:E; [lia|reflexivity].
Qed.

Lemma elapsed_examples :
  model_elapsed (WNum 300000 AsFloat) = Some 300000 /\ model_elapsed (WNum 0 AsFloat) = Some 300000 /\
  model_elapsed (WNum (-1) AsFloat) = Some (-1) /\ model_elapsed (WNum two63 AsFloat) = None /\
  model_elapsed (WNum min_i64 AsFloat) = Some min_i64 /\ model_elapsed (WFrac 3 2) = None /\
  model_elapsed (WStr "5m") = Some 300000000000 /\ model_elapsed (WStr "300000") = None /\
  model_elapsed (WStr "0s") = Some 300000 /\ model_elapsed WAbsent = Some 300000 /\
  elapsed_wf (WNum 7 AsFloat) = true /\
  elapsed_ok (WNum 3 AsFloat) (Some 1) = false /\ elapsed_ok (WNum two64 AsFloat) (Some min_i64) = false /\
  elapsed_ok (WStr "5m") (Some 5) = false.
Proof. repeat split; vm_compute; reflexivity. Qed.
