From Coq Require Import List NArith PeanoNat Bool String Lia ZifyBool ZifyN ZifyNat FinFun.
From SygmaV Require Import Lib.C14_Dec Model.C14.
Import ListNotations.
Local Open Scope N_scope.

(* ---- small list facts ---- *)

Lemma list_N_eqb_refl l : list_N_eqb l l = true.
Proof. induction l as [|x l IH]; cbn; [reflexivity | rewrite N.eqb_refl, IH; reflexivity]. Qed.

Lemma list_N_eqb_eq a b : list_N_eqb a b = true -> a = b.
Proof.
  revert b; induction a as [|x a IH]; intros [|y b] H; cbn in H; try discriminate; [reflexivity|].
  apply andb_true_iff in H as [Hx Hr]. apply N.eqb_eq in Hx. subst. f_equal. auto.
Qed.

Lemma list_str_eqb_refl l : list_str_eqb l l = true.
Proof. induction l as [|x l IH]; cbn; [reflexivity | rewrite String.eqb_refl, IH; reflexivity]. Qed.

Lemma list_str_eqb_eq a b : list_str_eqb a b = true -> a = b.
Proof.
  revert b; induction a as [|x a IH]; intros [|y b] H; cbn in H; try discriminate; [reflexivity|].
  apply andb_true_iff in H as [Hx Hr]. apply String.eqb_eq in Hx. subst. f_equal. auto.
Qed.

Lemma sess_eqb_refl l : sess_eqb l l = true.
Proof.
  induction l as [|[m s] l IH]; cbn; [reflexivity|].
  rewrite list_N_eqb_refl, list_str_eqb_refl, IH. reflexivity.
Qed.

Lemma sess_eqb_eq a b : sess_eqb a b = true -> a = b.
Proof.
  revert b; induction a as [|[m s] a IH]; intros [|[m' s'] b] H; cbn in H; try discriminate; [reflexivity|].
  apply andb_true_iff in H as [H Hr]. apply andb_true_iff in H as [Hm Hs].
  apply list_N_eqb_eq in Hm. apply list_str_eqb_eq in Hs. subst. f_equal. auto.
Qed.

Lemma firstn_length_app {A} (l r : list A) : firstn (List.length l) (l ++ r) = l.
Proof. induction l as [|x l IH]; cbn; [reflexivity | rewrite IH; reflexivity]. Qed.

Lemma skipn_length_app {A} (l r : list A) : skipn (List.length l) (l ++ r) = r.
Proof. induction l as [|x l IH]; cbn; [reflexivity | exact IH]. Qed.

Lemma sumallow_app tg a b : sumallow tg (a ++ b) = sumallow tg a + sumallow tg b.
Proof.
  unfold sumallow. induction a as [|x a IH]; cbn [app fold_right]; [lia | rewrite IH; lia].
Qed.

Lemma pending_cons_exec p r : pexec p = true -> pending (p :: r) = pending r.
Proof. unfold pending; cbn; intros ->; reflexivity. Qed.

Lemma pending_cons_pend p r : pexec p = false -> pending (p :: r) = p :: pending r.
Proof. unfold pending; cbn; intros ->; reflexivity. Qed.

Lemma w64_small x : x < two64 -> w64 x = x.
Proof. unfold w64; intros H; apply N.mod_small; exact H. Qed.

(* ---- the accumulator is only an accumulator ---- *)

Fixpoint go' (cap tg : N) (ps : list prop) (cur : batch) : list batch :=
  match ps with
  | [] => [cur]
  | p :: r =>
      if pexec p then go' cap tg r cur else
      let g := pgas tg p in
      if cap <=? w64 (gas cur + g)
      then cur :: go' cap tg r (mkbatch [p] (w64 (0 + g)))
      else go' cap tg r (mkbatch (members cur ++ [p]) (w64 (gas cur + g)))
  end.

Lemma go_eq cap tg ps : forall done cur, go cap tg ps done cur = rev done ++ go' cap tg ps cur.
Proof.
  induction ps as [|p r IH]; intros done cur; cbn [go go'].
  - cbn [rev]. reflexivity.
  - destruct (pexec p); [apply IH|]. cbn zeta.
    destruct (cap <=? w64 (gas cur + pgas tg p)).
    + rewrite IH. cbn [rev]. rewrite <- app_assoc. reflexivity.
    + apply IH.
Qed.

Lemma batches_eq cap tg ps : batches cap tg ps = go' cap tg ps empty_batch.
Proof. unfold batches. rewrite go_eq. reflexivity. Qed.

(* ---- partition ---- *)

Lemma go'_partition cap tg ps : forall cur,
  List.concat (map members (go' cap tg ps cur)) = members cur ++ pending ps.
Proof.
  induction ps as [|p r IH]; intros cur; cbn [go'].
  - cbn. rewrite app_nil_r. reflexivity.
  - destruct (pexec p) eqn:Hx.
    + rewrite pending_cons_exec by exact Hx. apply IH.
    + rewrite pending_cons_pend by exact Hx. cbn zeta.
      destruct (cap <=? w64 (gas cur + pgas tg p)).
      * cbn [map List.concat]. rewrite IH. reflexivity.
      * rewrite IH. cbn [members]. rewrite <- app_assoc. reflexivity.
Qed.

Lemma batches_partition cap tg ps :
  List.concat (map members (batches cap tg ps)) = pending ps.
Proof. rewrite batches_eq, go'_partition. reflexivity. Qed.

(* ---- only the first batch can be empty ---- *)

Lemma go'_nonempty cap tg ps : forall cur,
  members cur <> [] -> Forall (fun b => members b <> []) (go' cap tg ps cur).
Proof.
  induction ps as [|p r IH]; intros cur Hne; cbn [go'].
  - constructor; [exact Hne | constructor].
  - destruct (pexec p); [apply IH; exact Hne|]. cbn zeta.
    destruct (cap <=? w64 (gas cur + pgas tg p)).
    + constructor; [exact Hne|]. apply IH. cbn. discriminate.
    + apply IH. cbn. destruct (members cur); discriminate.
Qed.

Lemma go'_tl_nonempty cap tg ps : forall cur,
  Forall (fun b => members b <> []) (tl (go' cap tg ps cur)).
Proof.
  induction ps as [|p r IH]; intros cur; cbn [go'].
  - constructor.
  - destruct (pexec p); [apply IH|]. cbn zeta.
    destruct (cap <=? w64 (gas cur + pgas tg p)).
    + cbn [tl]. apply go'_nonempty. cbn. discriminate.
    + apply IH.
Qed.

Lemma batches_tl_nonempty cap tg ps :
  Forall (fun b => members b <> []) (tl (batches cap tg ps)).
Proof. rewrite batches_eq. apply go'_tl_nonempty. Qed.

(* ---- own gas, and at/over the cap only as a singleton ---- *)

Lemma go'_ok cap tg ps : forall cur,
  okb cap tg cur ->
  sumallow tg (members cur) + sumallow tg (pending ps) < two64 ->
  Forall (okb cap tg) (go' cap tg ps cur).
Proof.
  induction ps as [|p r IH]; intros cur Hc Hb; cbn [go'].
  - constructor; [exact Hc | constructor].
  - destruct (pexec p) eqn:Hx.
    + rewrite pending_cons_exec in Hb by exact Hx. apply IH; assumption.
    + rewrite pending_cons_pend in Hb by exact Hx. cbn [sumallow fold_right] in Hb.
      fold (sumallow tg (pending r)) in Hb.
      destruct Hc as [Hg Hs]. cbn zeta.
      assert (Hp : pgas tg p = allowance tg p) by (unfold pgas; apply w64_small; lia).
      assert (Hw : w64 (gas cur + pgas tg p) = gas cur + allowance tg p)
        by (rewrite Hp; apply w64_small; lia).
      assert (Hw0 : w64 (0 + pgas tg p) = allowance tg p)
        by (rewrite Hp; apply w64_small; lia).
      rewrite Hw, Hw0.
      destruct (cap <=? gas cur + allowance tg p) eqn:Hcap.
      * constructor; [split; assumption|].
        apply IH.
        -- split; cbn [members gas sumallow fold_right List.length]; [lia | intros; lia].
        -- cbn [members sumallow fold_right]. fold (sumallow tg (pending r)). lia.
      * apply IH.
        -- split; cbn [members gas].
           ++ rewrite sumallow_app, Hg. cbn. lia.
           ++ intros Hge. lia.
        -- cbn [members]. rewrite sumallow_app. cbn [sumallow fold_right].
           fold (sumallow tg (pending r)). lia.
Qed.

Lemma empty_ok cap tg : okb cap tg empty_batch.
Proof. split; cbn; [reflexivity | intros; lia]. Qed.

Lemma batches_ok cap tg ps :
  no_overflow tg ps = true -> Forall (okb cap tg) (batches cap tg ps).
Proof.
  unfold no_overflow; intros H. rewrite batches_eq. apply go'_ok; [apply empty_ok|].
  cbn [empty_batch members sumallow fold_right]. lia.
Qed.

Lemma batch_gas_is_own_sum cap tg ps b :
  no_overflow tg ps = true -> In b (batches cap tg ps) -> gas b = sumallow tg (members b).
Proof.
  intros H Hin. pose proof (batches_ok cap tg ps H) as F. rewrite Forall_forall in F.
  exact (proj1 (F b Hin)).
Qed.

(* [cap <= gas b] already forces at most one member (okb); strictly above the cap the batch is exactly
   one proposal whose own allowance is above the cap *)
Lemma at_cap_at_most_one cap tg ps b :
  no_overflow tg ps = true -> In b (batches cap tg ps) -> cap <= gas b ->
  (List.length (members b) <= 1)%nat.
Proof.
  intros H Hin Hge. pose proof (batches_ok cap tg ps H) as F. rewrite Forall_forall in F.
  exact (proj2 (F b Hin) Hge).
Qed.

Lemma over_cap_only_singleton cap tg ps b :
  no_overflow tg ps = true -> In b (batches cap tg ps) -> cap < gas b ->
  exists p, members b = [p] /\ cap < allowance tg p.
Proof.
  intros H Hin Hgt. pose proof (batches_ok cap tg ps H) as F. rewrite Forall_forall in F.
  destruct (F b Hin) as [Hg Hs]. assert (Hge : cap <= gas b) by lia. specialize (Hs Hge).
  destruct (members b) as [|p [|q l]] eqn:Hm; cbn in Hs; try lia.
  - cbn in Hg. lia.
  - exists p. split; [reflexivity|]. rewrite Hg in Hgt. cbn in Hgt. lia.
Qed.

(* ---- what is signed: the non-empty batches, with their positions ---- *)

Section Signed.
  Context {A B : Type} (mem : A -> list B).

  Lemma signed_from_spec bs : forall k i b,
    In (i, b) (signed_from mem k bs) ->
    mem b <> [] /\ k <= i /\ nth_error bs (N.to_nat (i - k)) = Some b.
  Proof.
    induction bs as [|x r IH]; intros k i b Hin; cbn [signed_from] in Hin; [contradiction|].
    assert (Hrec : In (i, b) (signed_from mem (k + 1) r) ->
                   mem b <> [] /\ k <= i /\ nth_error (x :: r) (N.to_nat (i - k)) = Some b).
    { intros H. destruct (IH _ _ _ H) as [Hne [Hle Hn]]. split; [exact Hne|]. split; [lia|].
      replace (N.to_nat (i - k)) with (S (N.to_nat (i - (k + 1)))) by lia. exact Hn. }
    destruct (mem x) as [|y l] eqn:Hm; cbn [is_nil] in Hin; [auto|].
    destruct Hin as [Heq | Hin]; [|auto].
    inversion Heq; subst. split; [rewrite Hm; discriminate|]. split; [lia|].
    replace (i - i) with 0 by lia. reflexivity.
  Qed.

  Lemma signed_from_complete bs : forall k b n,
    nth_error bs n = Some b -> mem b <> [] -> In (k + N.of_nat n, b) (signed_from mem k bs).
  Proof.
    induction bs as [|x r IH]; intros k b n Hn Hne; [destruct n; discriminate|].
    cbn [signed_from]. destruct n as [|n]; cbn in Hn.
    - inversion Hn; subst. destruct (mem b); [contradiction|]. cbn [is_nil].
      left. f_equal. lia.
    - specialize (IH (k + 1) b n Hn Hne).
      replace (k + N.of_nat (S n)) with (k + 1 + N.of_nat n) by lia.
      destruct (is_nil (mem x)); [exact IH | right; exact IH].
  Qed.

  Lemma signed_from_positions_NoDup bs : forall k, NoDup (map fst (signed_from mem k bs)).
  Proof.
    induction bs as [|x r IH]; intros k; cbn [signed_from]; [constructor|].
    destruct (is_nil (mem x)); [apply IH|].
    cbn [map fst]. constructor; [|apply IH].
    intros Hin. apply in_map_iff in Hin as [[i b] [Hi Hin]]. cbn in Hi. subst i.
    apply signed_from_spec in Hin as [_ [Hle _]]. lia.
  Qed.

  Lemma signed_from_members bs : forall k,
    List.concat (map (fun ib => mem (snd ib)) (signed_from mem k bs)) = List.concat (map mem bs).
  Proof.
    induction bs as [|x r IH]; intros k; cbn [signed_from map List.concat]; [reflexivity|].
    destruct (mem x) as [|y l] eqn:Hm; cbn [is_nil].
    - rewrite IH. reflexivity.
    - cbn [map List.concat snd]. rewrite Hm, IH. reflexivity.
  Qed.
End Signed.

Lemma sid_inj mid i j : sid mid i = sid mid j -> i = j.
Proof.
  unfold sid; intros H. apply append_inj_l in H. apply (append_inj_l "-"%string) in H.
  apply dec_inj; exact H.
Qed.

Lemma sessions_ids mid bs : map snd (sessions mid bs) = map (sid mid) (map fst (signed bs)).
Proof. unfold sessions. rewrite !map_map. reflexivity. Qed.

Lemma session_ids_distinct mid bs : NoDup (map snd (sessions mid bs)).
Proof.
  rewrite sessions_ids. apply Injective_map_NoDup.
  - intros i j H. eapply sid_inj; exact H.
  - apply signed_from_positions_NoDup.
Qed.

Lemma session_id_is_position mid bs ms s :
  In (ms, s) (sessions mid bs) ->
  exists i b, nth_error bs (N.to_nat i) = Some b /\ members b = ms /\ ms <> [] /\ s = sid mid i.
Proof.
  unfold sessions; intros Hin. apply in_map_iff in Hin as [[i b] [Heq Hin]]. cbn in Heq.
  inversion Heq; subst. apply signed_from_spec in Hin as [Hne [_ Hn]].
  exists i, b. replace (i - 0) with i in Hn by lia. repeat split; assumption.
Qed.

Lemma every_nonempty_batch_signed mid bs n b :
  nth_error bs n = Some b -> members b <> [] -> In (members b, sid mid (N.of_nat n)) (sessions mid bs).
Proof.
  intros Hn Hne. unfold sessions. apply in_map_iff. exists (N.of_nat n, b). split; [reflexivity|].
  apply (signed_from_complete members bs 0 b n Hn Hne).
Qed.

Lemma signed_members bs :
  List.concat (map (fun ib => members (snd ib)) (signed bs)) = List.concat (map members bs).
Proof. apply signed_from_members. Qed.

(* ---- the judge accepts the model; what the judge accepts satisfies the statement ---- *)

Lemma okb_chk cap tg b : okb cap tg b -> chk cap tg (members b) (gas b) = true.
Proof.
  intros [Hg Hs]. unfold chk. rewrite Hg, N.eqb_refl. cbn [andb].
  destruct (cap <? sumallow tg (members b)) eqn:Hlt; [|reflexivity].
  apply Nat.leb_le. apply Hs. lia.
Qed.

Lemma walk_model strict cap tg bs : forall pend,
  List.concat (map members bs) = pend -> (strict = true -> Forall (okb cap tg) bs) ->
  walk strict cap tg pend (map obs_of bs) = true.
Proof.
  induction bs as [|b r IH]; intros pend Hc Hok; cbn [map List.concat] in *.
  - subst pend. reflexivity.
  - subst pend. cbn [walk obs_of]. rewrite map_length, firstn_length_app, skipn_length_app.
    rewrite list_N_eqb_refl. cbn [andb].
    rewrite IH; [|reflexivity|intros Hs; specialize (Hok Hs); inversion Hok; assumption].
    rewrite andb_true_r. destruct strict; [|reflexivity].
    apply okb_chk. specialize (Hok eq_refl). inversion Hok; assumption.
Qed.

Lemma spec_ok_model cap tg ps : spec_ok cap tg ps (map obs_of (batches cap tg ps)) = true.
Proof.
  unfold spec_ok. apply walk_model; [apply batches_partition | apply batches_ok].
Qed.

Lemma chk_okspec cap tg seg g : chk cap tg seg g = true -> okspec cap tg (mkbatch seg g).
Proof.
  unfold chk, okspec; cbn [members gas]. intros H. apply andb_true_iff in H as [Hg Hs].
  apply N.eqb_eq in Hg. split; [exact Hg|]. intros Hlt.
  destruct (cap <? g) eqn:E; [apply Nat.leb_le; exact Hs | lia].
Qed.

Lemma walk_sound strict cap tg obs : forall pend,
  walk strict cap tg pend obs = true ->
  exists bs, obs = map obs_of bs /\ List.concat (map members bs) = pend /\
             (strict = true -> Forall (okspec cap tg) bs).
Proof.
  induction obs as [|[ms g] r IH]; intros pend H; cbn [walk] in H.
  - exists []. destruct pend; [|discriminate]. repeat split; constructor.
  - apply andb_true_iff in H as [H Hr]. apply andb_true_iff in H as [Hm Hc].
    apply list_N_eqb_eq in Hm. destruct (IH _ Hr) as [bs [Ho [Hcc Hok]]].
    exists (mkbatch (firstn (List.length ms) pend) g :: bs). split; [|split].
    + cbn [map]. unfold obs_of at 1. cbn [members gas]. f_equal; [f_equal; exact Hm | exact Ho].
    + cbn [map List.concat members]. rewrite Hcc. apply firstn_skipn.
    + intros Hs. subst strict. constructor; [apply chk_okspec; exact Hc | apply Hok; reflexivity].
Qed.

Lemma spec_ok_sound cap tg ps obs :
  spec_ok cap tg ps obs = true ->
  exists bs, obs = map obs_of bs /\ List.concat (map members bs) = pending ps /\
             (no_overflow tg ps = true -> Forall (okspec cap tg) bs).
Proof. apply walk_sound. Qed.

(* sessions *)

Definition obs_sessions (l : list (list prop * string)) : list (list N * list string) :=
  map (fun e => (map pid (fst e), [snd e])) l.

Lemma signed_from_obs bs : forall k,
  signed_from (@fst (list N) N) k (map obs_of bs) =
  map (fun ib => (fst ib, obs_of (snd ib))) (signed_from members k bs).
Proof.
  induction bs as [|b r IH]; intros k; cbn [map signed_from]; [reflexivity|].
  cbn [obs_of fst]. destruct (members b) as [|p l]; cbn [map is_nil]; rewrite IH; reflexivity.
Qed.

Lemma sess_ok_model mid bs : sess_ok mid (map obs_of bs) (obs_sessions (sessions mid bs)) = true.
Proof.
  unfold sess_ok, sess_spec, obs_sessions, sessions, signed.
  rewrite signed_from_obs, !map_map. cbn [fst snd obs_of]. apply sess_eqb_refl.
Qed.

Lemma sess_ok_sound mid obs sess : sess_ok mid obs sess = true -> sess = sess_spec mid obs.
Proof. apply sess_eqb_eq. Qed.

Lemma sess_spec_ids mid obs :
  List.concat (map snd (sess_spec mid obs)) =
  map (sid mid) (map fst (signed_from (@fst (list N) N) 0 obs)).
Proof.
  unfold sess_spec. rewrite !map_map. cbn [snd].
  induction (signed_from (@fst (list N) N) 0 obs) as [|x l IH]; cbn; [reflexivity | rewrite IH; reflexivity].
Qed.

Lemma sess_spec_distinct mid obs : NoDup (List.concat (map snd (sess_spec mid obs))).
Proof.
  rewrite sess_spec_ids. apply Injective_map_NoDup.
  - intros i j H. eapply sid_inj; exact H.
  - apply signed_from_positions_NoDup.
Qed.

Lemma sess_spec_position mid obs ms sids :
  In (ms, sids) (sess_spec mid obs) ->
  ms <> [] /\ exists i g, nth_error obs (N.to_nat i) = Some (ms, g) /\ sids = [sid mid i].
Proof.
  unfold sess_spec; intros Hin. apply in_map_iff in Hin as [[i [ms' g]] [Heq Hin]]. cbn in Heq.
  inversion Heq; subst. apply signed_from_spec in Hin as [Hne [_ Hn]]. cbn in Hne.
  split; [exact Hne|]. exists i, g. replace (i - 0) with i in Hn by lia. split; [exact Hn | reflexivity].
Qed.

Lemma sess_ok_sound_full mid obs sess :
  sess_ok mid obs sess = true ->
  sess = sess_spec mid obs /\ NoDup (List.concat (map snd sess)) /\
  forall ms sids, In (ms, sids) sess ->
    ms <> [] /\ exists i g, nth_error obs (N.to_nat i) = Some (ms, g) /\ sids = [sid mid i].
Proof.
  intros H. apply sess_ok_sound in H. subst sess. split; [reflexivity|]. split.
  - apply sess_spec_distinct.
  - apply sess_spec_position.
Qed.

(* ---- the code as it was ---- *)

(* ---- failing executed-status lookups ---- *)

Lemma lookup_err_iff ps fl :
  lookup_err ps fl = true <->
  exists i p k, nth_error ps i = Some p /\ nth_error fl i = Some k /\ 0 < k.
Proof.
  unfold lookup_err. revert fl. induction ps as [|p r IH]; intros fl.
  - cbn [combine existsb]. split; [discriminate|]. intros [i [q [k [Hp _]]]]. destruct i; discriminate.
  - destruct fl as [|k fl'].
    + cbn [combine existsb]. split; [discriminate|]. intros [i [q [k [_ [Hk _]]]]]. destruct i; discriminate.
    + cbn [combine existsb snd]. rewrite orb_true_iff, IH. split.
      * intros [Hk | [i [q [k' [Hp [Hk Hlt]]]]]].
        -- exists 0%nat, p, k. repeat split. apply N.ltb_lt. exact Hk.
        -- exists (S i), q, k'. repeat split; assumption.
      * intros [i [q [k' [Hp [Hk Hlt]]]]]. destruct i as [|i]; cbn in Hp, Hk.
        -- inversion Hk; subst. left. apply N.ltb_lt. exact Hlt.
        -- right. exists i, q, k'. repeat split; assumption.
Qed.

Lemma lookup_error_no_batches cap tg ps fl :
  lookup_err ps fl = true -> batches_r cap tg ps fl = None.
Proof. intros H. unfold batches_r. rewrite H. reflexivity. Qed.

Lemma lookup_error_nothing cap tg ps fl :
  lookup_err ps fl = true -> batches_r cap tg ps fl = None /\ hashed_model cap tg ps fl = [].
Proof.
  intros H. unfold hashed_model. rewrite (lookup_error_no_batches _ _ _ _ H). split; reflexivity.
Qed.

Lemma no_lookup_error_batches cap tg ps fl :
  lookup_err ps fl = false -> batches_r cap tg ps fl = Some (batches cap tg ps).
Proof. intros H. unfold batches_r. rewrite H. reflexivity. Qed.

Lemma batches_r_partition cap tg ps fl bs :
  batches_r cap tg ps fl = Some bs -> List.concat (map members bs) = pending ps.
Proof.
  unfold batches_r. destruct (lookup_err ps fl); [discriminate|].
  intros H. inversion H. apply batches_partition.
Qed.

Lemma spec_ok_r_model cap tg ps fl :
  spec_ok_r cap tg ps fl (option_map (map obs_of) (batches_r cap tg ps fl)) = true.
Proof.
  unfold batches_r. destruct (lookup_err ps fl) eqn:E; cbn [option_map spec_ok_r].
  - exact E.
  - apply spec_ok_model.
Qed.

Lemma spec_ok_r_sound cap tg ps fl r :
  spec_ok_r cap tg ps fl r = true ->
  (r = None /\ lookup_err ps fl = true) \/
  exists obs bs, r = Some obs /\ obs = map obs_of bs /\ List.concat (map members bs) = pending ps /\
                 (no_overflow tg ps = true -> Forall (okspec cap tg) bs).
Proof.
  destruct r as [obs|]; cbn [spec_ok_r]; intros H.
  - right. destruct (spec_ok_sound _ _ _ _ H) as [bs [Ho [Hc Hk]]]. exists obs, bs. repeat split; assumption.
  - left. split; [reflexivity | exact H].
Qed.

Lemma signed_from_nonempty {A B} (mem : A -> list B) bs : forall k,
  forallb (fun ib => negb (is_nil (mem (snd ib)))) (signed_from mem k bs) = true.
Proof.
  induction bs as [|x r IH]; intros k; cbn [signed_from forallb]; [reflexivity|].
  destruct (is_nil (mem x)) eqn:E; [apply IH|].
  cbn [forallb snd]. rewrite E. cbn [negb andb]. apply IH.
Qed.

Lemma hashed_ok_r_model cap tg ps fl err :
  (lookup_err ps fl = true -> err = true) ->
  hashed_ok_r ps fl err (hashed_model cap tg ps fl) = true.
Proof.
  intros Herr. unfold hashed_model, batches_r.
  destruct (lookup_err ps fl) eqn:E.
  - unfold hashed_ok_r. cbn [is_nil]. rewrite E, (Herr eq_refl). reflexivity.
  - set (bs := batches cap tg ps).
    assert (Hc : List.concat (map (fun ib => members (snd ib)) (signed bs)) = pending ps).
    { rewrite signed_members. apply batches_partition. }
    unfold hashed_ok_r.
    destruct (map (fun ib => map pid (members (snd ib))) (signed bs)) as [|h t] eqn:Hm.
    + cbn [is_nil]. destruct (signed bs); [|discriminate]. cbn in Hc. rewrite <- Hc.
      cbn [is_nil]. apply orb_true_r.
    + rewrite <- Hm. clear Hm h t. cbn [is_nil].
      replace (is_nil (map (fun ib => map pid (members (snd ib))) (signed bs))) with
        (is_nil (signed bs)) by (destruct (signed bs); reflexivity).
      destruct (is_nil (signed bs)) eqn:En.
      { destruct (signed bs); [|discriminate]. cbn in Hc. rewrite <- Hc. cbn [is_nil].
        apply orb_true_r. }
      apply andb_true_iff. split.
      * rewrite forallb_forall. intros m Hin. apply in_map_iff in Hin as [ib [Hib Hin]].
        pose proof (signed_from_nonempty members bs 0) as Hne. rewrite forallb_forall in Hne.
        specialize (Hne ib Hin). subst m. destruct (members (snd ib)); [discriminate|reflexivity].
      * rewrite map_map.
        replace (map (fun x => (map pid (members (snd x)), 0)) (signed bs)) with
          (map obs_of (map (fun ib => mkbatch (members (snd ib)) 0) (signed bs)))
          by (rewrite map_map; reflexivity).
        apply walk_model; [|discriminate].
        rewrite map_map. cbn [members]. exact Hc.
Qed.

Lemma hashed_ok_r_sound ps fl err hs :
  hashed_ok_r ps fl err hs = true ->
  (hs = [] /\ ((err = true /\ lookup_err ps fl = true) \/ pending ps = [])) \/
  (Forall (fun m => m <> []) hs /\
   exists segs, hs = map (map pid) segs /\ List.concat segs = pending ps).
Proof.
  unfold hashed_ok_r. destruct hs as [|h t]; cbn [is_nil]; intros H.
  - left. split; [reflexivity|]. apply orb_true_iff in H as [H|H].
    + left. apply andb_true_iff in H. exact H.
    + right. destruct (pending ps); [reflexivity|discriminate].
  - right. apply andb_true_iff in H as [Hne Hw]. split.
    + apply Forall_forall. intros m Hin. rewrite forallb_forall in Hne. specialize (Hne m Hin).
      destruct m; [discriminate|discriminate].
    + destruct (walk_sound _ _ _ _ _ Hw) as [bs [Ho [Hc _]]].
      exists (map members bs). split; [|exact Hc].
      apply (f_equal (map fst)) in Ho. rewrite !map_map in Ho. cbn [fst obs_of] in Ho.
      rewrite map_id in Ho. rewrite map_map. exact Ho.
Qed.

Definition w_ps3 : list prop := [mkprop 0 None false; mkprop 1 None false; mkprop 2 None false].

Lemma old_batch_gas_refuted :
  exists cap tg ps, no_overflow tg ps = true /\
    (exists b, In b (old_batches cap tg ps) /\ members b <> [] /\ gas b = 0) /\
    spec_ok cap tg ps (map obs_of (old_batches cap tg ps)) = false.
Proof.
  exists 250, 100, w_ps3. split; [vm_compute; reflexivity|]. split; [|vm_compute; reflexivity].
  exists (mkbatch [mkprop 2 None false] 0). split; [vm_compute; right; left; reflexivity|].
  split; [discriminate | reflexivity].
Qed.

Lemma old_sessions_refuted :
  exists mid cap tg ps,
    map snd (old_sessions mid (old_batches cap tg ps)) = ["m-1"; "m-1"]%string /\
    sess_ok mid (map obs_of (old_batches cap tg ps))
            (obs_sessions (old_sessions mid (old_batches cap tg ps))) = false.
Proof. exists "m"%string, 250, 100, w_ps3. split; vm_compute; reflexivity. Qed.

(* beyond the hypothesis: a per-proposal limit near 2^64 wraps and the batch gas is no longer the sum *)
Lemma overflow_refuted :
  exists cap tg ps, no_overflow tg ps = false /\
    exists b, In b (batches cap tg ps) /\ gas b <> sumallow tg (members b).
Proof.
  exists 1000, 100, [mkprop 0 (Some 18446744073709551615) false]. split; [vm_compute; reflexivity|].
  exists (mkbatch [mkprop 0 (Some 18446744073709551615) false] 99). split; [vm_compute; auto|].
  vm_compute. discriminate.
Qed.

(* ---- histories on one long-lived Executor (round 5) ---- *)

Lemma history_ok_model cap tg ds :
  history_ok cap tg ds (map (option_map (map obs_of)) (run_history cap tg ds)) = true.
Proof.
  induction ds as [|d ds IH]; cbn [run_history map history_ok]; [reflexivity|].
  rewrite spec_ok_r_model. exact IH.
Qed.

Lemma history_ok_nth cap tg ds : forall rs,
  history_ok cap tg ds rs = true ->
  List.length rs = List.length ds /\
  forall i d r, nth_error ds i = Some d -> nth_error rs i = Some r -> spec_ok_r cap tg (fst d) (snd d) r = true.
Proof.
  induction ds as [|d0 ds IH]; intros [|r0 rs] H; cbn [history_ok] in H; try discriminate.
  - split; [reflexivity|]. intros [|i] d r Hd; discriminate.
  - apply andb_true_iff in H as [H0 Hr]. destruct (IH rs Hr) as [Hl Hn]. split; [cbn; rewrite Hl; reflexivity|].
    intros [|i] d r Hd Hrr; cbn in Hd, Hrr.
    + inversion Hd; inversion Hrr; subst. exact H0.
    + eapply Hn; eassumption.
Qed.

(* what a delivery gets does not depend on the deliveries before or after it *)
Lemma run_history_independent cap tg pre d post :
  nth_error (run_history cap tg (pre ++ d :: post)) (List.length pre) = Some (batches_r cap tg (fst d) (snd d)).
Proof.
  unfold run_history. rewrite map_app. rewrite nth_error_app2 by (rewrite map_length; apply Nat.le_refl).
  rewrite map_length, Nat.sub_diag. reflexivity.
Qed.

Lemma run_history_partition cap tg ds i d bs :
  nth_error ds i = Some d -> nth_error (run_history cap tg ds) i = Some (Some bs) ->
  List.concat (map members bs) = pending (fst d).
Proof.
  intros Hd Hr. unfold run_history in Hr.
  rewrite (map_nth_error (fun d => batches_r cap tg (fst d) (snd d)) _ _ Hd) in Hr.
  inversion Hr as [Hb]. eapply batches_r_partition. exact Hb.
Qed.

Lemma pk_inj s n s' n' : n < two64 -> n' < two64 -> pk s n = pk s' n' -> s = s' /\ n = n'.
Proof.
  unfold pk. intros Hn Hn' H.
  assert (Hs : s = s').
  { assert (A : (s * two64 + n) / two64 = s) by (rewrite N.div_add_l by (unfold two64; lia); rewrite N.div_small by exact Hn; lia).
    assert (B : (s' * two64 + n') / two64 = s') by (rewrite N.div_add_l by (unfold two64; lia); rewrite N.div_small by exact Hn'; lia).
    rewrite H in A. congruence. }
  subst s'. split; [reflexivity | lia].
Qed.

(* the deliveries of the colliding-keys class: source 1 / nonce 23 found executed, later source 12 / nonce 3
   pending (same decimal concatenation), in a delivery that is not in ascending nonce order *)
Definition w_hist : list delivery :=
  [([mkprop (pk 1 23) None true; mkprop (pk 1 24) None false], [0; 0]);
   ([mkprop (pk 12 4) None false; mkprop (pk 12 3) (Some 40) false; mkprop (pk 1 23) None true], [0; 0; 0])].
