(* C03 - concurrent Bitcoin histories over one shared prop store: every thread sees what it would see alone. *)
From Coq Require Import List NArith PeanoNat Bool Lia.
From SygmaV Require Import Model.C03 Model.C03_Conc Proofs.C03.
Import ListNotations.
Local Open Scope N_scope.

(* ---- stores that agree on a set of keys ---- *)

Definition agree_on (U : list key) (a b : store) : Prop := forall k, In k U -> lookup a k = lookup b k.

Lemma agree_on_refl U a : agree_on U a a.
Proof. intros k _. reflexivity. Qed.

Lemma agree_on_set U a b k v : agree_on U a b -> agree_on U (set_status a k v) (set_status b k v).
Proof.
  intros H k' Hin. rewrite !lookup_set. destruct (key_eqb k' k); [reflexivity | apply H; exact Hin].
Qed.

Lemma snapshot_agree U a b : agree_on U a b -> snapshot U a = snapshot U b.
Proof. intros H. unfold snapshot. apply map_ext_in. exact H. Qed.

Lemma is_done_eq v : is_done v = true -> v = Done.
Proof. destruct v; try discriminate; reflexivity. Qed.

(* ---- one delivery: depends on, and touches, the delivered keys only ---- *)

Lemma btc_select_sim U d : forall a b,
  agree_on U a b -> (forall k, In k (keys_of d) -> In k U) ->
  snd (btc_select a d) = snd (btc_select b d) /\ agree_on U (fst (btc_select a d)) (fst (btc_select b d)).
Proof.
  induction d as [|[k0 f] r IH]; intros a b Hab Hk.
  - split; [reflexivity | exact Hab].
  - assert (E : lookup a k0 = lookup b k0) by (apply Hab, Hk; left; reflexivity).
    assert (Hr : forall k, In k (keys_of r) -> In k U) by (intros k Hin; apply Hk; right; exact Hin).
    destruct f; cbn [btc_select].
    + rewrite <- E. destruct (executable (lookup a k0)).
      * destruct (IH (set_status a k0 Pending) (set_status b k0 Pending) (agree_on_set _ _ _ _ _ Hab) Hr) as [A B].
        destruct (btc_select (set_status a k0 Pending) r) as [sa xa].
        destruct (btc_select (set_status b k0 Pending) r) as [sb xb].
        cbn [fst snd] in *. subst xb. split; [reflexivity | exact B].
      * apply IH; assumption.
    + split; [reflexivity | exact Hab].
    + rewrite <- E. destruct (executable (lookup a k0)); [split; [reflexivity | exact Hab] | apply IH; assumption].
Qed.

Lemma btc_select_frame d : forall s k, ~ In k (keys_of d) -> lookup (fst (btc_select s d)) k = lookup s k.
Proof.
  induction d as [|[k0 f] r IH]; intros s k Hn; [reflexivity|].
  assert (Hr : ~ In k (keys_of r)) by (intros Hin; apply Hn; right; exact Hin).
  assert (Hne : key_eqb k k0 = false) by (apply key_eqb_neq; intros ->; apply Hn; left; reflexivity).
  destruct f; cbn [btc_select].
  - destruct (executable (lookup s k0)); [|apply IH; exact Hr].
    specialize (IH (set_status s k0 Pending) k Hr).
    destruct (btc_select (set_status s k0 Pending) r) as [s' x]. cbn [fst] in *.
    rewrite IH, lookup_set, Hne. reflexivity.
  - reflexivity.
  - destruct (executable (lookup s k0)); [reflexivity | apply IH; exact Hr].
Qed.

(* ---- one op of a Bitcoin history ---- *)

Lemma In_dec_key (k : key) (l : list key) : In k l \/ ~ In k l.
Proof.
  destruct (kmem k l) eqn:E; [left; apply kmem_In; exact E|].
  right. intros H. apply kmem_In in H. congruence.
Qed.

Lemma kmem_false k l : ~ In k l -> kmem k l = false.
Proof. intros H. destruct (kmem k l) eqn:E; [apply kmem_In in E; contradiction | reflexivity]. Qed.

(* frame: an op leaves every key it does not name alone *)
Lemma step_frame s o k : ~ In k (op_keys o) -> lookup (st (fst (step BTC s o))) k = lookup (st s) k.
Proof.
  intros Hn. destruct o as [d|b|b| |b]; cbn [step op_keys] in *.
  - cbn [deliver]. destruct d as [|e d']; [reflexivity|]. cbn [btc_execute].
    pose proof (btc_select_frame (e :: d') (st s) k Hn) as F.
    destruct (btc_select (st s) (e :: d')) as [s' r]. exact F.
  - destruct (subset (keys_of b) (inflight s)); cbn [fst st]; [|reflexivity].
    rewrite lookup_set_all, (kmem_false _ _ (fun H => Hn (written_keys_sub _ _ H))). reflexivity.
  - destruct (subset (keys_of b) (inflight s)); cbn [fst st]; [|reflexivity].
    rewrite lookup_fail_all, (kmem_false _ _ (fun H => Hn (nofault_keys_sub _ _ H))). reflexivity.
  - reflexivity.
  - cbn [fst st]. rewrite lookup_release_all, (kmem_false _ _ (fun H => Hn (nofault_keys_sub _ _ H))). reflexivity.
Qed.

(* executed keys are read-only: no op changes a record that says executed *)
Lemma step_done_keep s o k :
  is_done (lookup (st s) k) = true -> lookup (st (fst (step BTC s o))) k = lookup (st s) k.
Proof.
  intros H. pose proof (step_done_mono BTC s o k H) as H'.
  apply is_done_eq in H. apply is_done_eq in H'. congruence.
Qed.

(* an op's result, its sessions and its effect on the keys of U depend on the keys of U only *)
Lemma step_sim U a b inf o :
  agree_on U a b -> (forall k, In k (op_keys o) -> In k U) ->
  snd (step BTC (mkstate a inf) o) = snd (step BTC (mkstate b inf) o) /\
  inflight (fst (step BTC (mkstate a inf) o)) = inflight (fst (step BTC (mkstate b inf) o)) /\
  agree_on U (st (fst (step BTC (mkstate a inf) o))) (st (fst (step BTC (mkstate b inf) o))).
Proof.
  intros Hab Hk. destruct o as [d|bt|bt| |bt]; cbn [step op_keys st inflight] in *.
  - cbn [deliver]. destruct d as [|e d']; [cbn; repeat split; exact Hab|]. cbn [btc_execute].
    destruct (btc_select_sim U (e :: d') a b Hab Hk) as [A B].
    destruct (btc_select a (e :: d')) as [sa xa]. destruct (btc_select b (e :: d')) as [sb xb].
    cbn [fst snd st inflight] in *. subst xb. repeat split. exact B.
  - destruct (subset (keys_of bt) inf); cbn [fst snd st inflight]; repeat split; try exact Hab.
    intros k Hin. rewrite !lookup_set_all. destruct (kmem k (written_keys bt)); [reflexivity | apply Hab; exact Hin].
  - destruct (subset (keys_of bt) inf); cbn [fst snd st inflight]; repeat split; try exact Hab.
    intros k Hin. rewrite !lookup_fail_all, (Hab k Hin). reflexivity.
  - repeat split. exact Hab.
  - cbn [fst snd st inflight]. repeat split.
    intros k Hin. rewrite !lookup_release_all, (Hab k Hin). reflexivity.
Qed.

(* ---- lists ---- *)

Lemma nth_error_upd_same (A : Type) (l : list A) : forall i a b, nth_error l i = Some b -> nth_error (upd i a l) i = Some a.
Proof.
  induction l as [|x l IH]; intros [|i] a b H; try discriminate; cbn in *; [reflexivity | eapply IH; exact H].
Qed.

Lemma nth_error_upd_other (A : Type) (l : list A) : forall i j a, i <> j -> nth_error (upd i a l) j = nth_error l j.
Proof.
  induction l as [|x l IH]; intros [|i] [|j] a H; cbn; try reflexivity; try congruence.
  apply IH. congruence.
Qed.

Lemma model_obs_length ds uni ops : forall s, length (model_obs ds uni s ops) = length ops.
Proof.
  induction ops as [|o r IH]; intros s; cbn [model_obs]; [reflexivity|].
  destruct (step ds s o) as [s' out]. cbn [length]. rewrite IH. reflexivity.
Qed.

Lemma wf_ops_In uni o r : wf_ops uni (o :: r) = true ->
  (forall k, In k (op_keys o) -> In k uni) /\ wf_ops uni r = true.
Proof.
  unfold wf_ops. cbn [forallb]. intros H. apply andb_true_iff in H as [H1 H2]. split; [|exact H2].
  intros k Hin. apply kmem_In. rewrite forallb_forall in H1. apply H1. exact Hin.
Qed.

(* ---- the concurrent run ---- *)

Section Conc.
  Variable views : list (list key).
  Variable re : list key.
  (* a key two different threads can name is one of the shared, executed ones *)
  Hypothesis Sep : forall i j k, i <> j -> In k (nth i views []) -> In k (nth j views []) -> In k re.

  Definition Inv (c : cstate) : Prop :=
    (forall k, In k re -> is_done (lookup (fst c) k) = true) /\
    (forall j inf ops, nth_error (snd c) j = Some (inf, ops) -> wf_ops (nth j views []) ops = true).

  Lemma cstep_inv c j inf o r s' out :
    Inv c -> nth_error (snd c) j = Some (inf, o :: r) -> step BTC (mkstate (fst c) inf) o = (s', out) ->
    Inv (st s', upd j (inflight s', r) (snd c)).
  Proof.
    intros [Hre Hwf] Ej Es. split; cbn [fst snd].
    - intros k Hin. replace s' with (fst (step BTC (mkstate (fst c) inf) o)) by (rewrite Es; reflexivity).
      apply step_done_mono. cbn [st]. apply Hre; exact Hin.
    - intros j' inf' ops' H. destruct (Nat.eq_dec j j') as [<-|Hne].
      + rewrite (nth_error_upd_same _ _ _ _ _ Ej) in H. inversion H; subst.
        exact (proj2 (wf_ops_In _ _ _ (Hwf _ _ _ Ej))).
      + rewrite nth_error_upd_other in H by exact Hne. eapply Hwf; exact H.
  Qed.

  (* whatever the others do in between: thread i's history is the one it has alone *)
  Lemma proj_gen : forall sched c i inf ops s,
    Inv c -> nth_error (snd c) i = Some (inf, ops) -> agree_on (nth i views []) (fst c) s ->
    exists rest, model_obs BTC (nth i views []) (mkstate s inf) ops = cproj i (crun views c sched) ++ rest.
  Proof.
    induction sched as [|j sched IH]; intros c i inf ops s HI Ei Hag.
    - eexists. reflexivity.
    - cbn [crun]. unfold cstep.
      destruct (nth_error (snd c) j) as [[infj [|o rj]]|] eqn:Ej; try (apply IH; assumption).
      destruct (step BTC (mkstate (fst c) infj) o) as [s' out] eqn:Es.
      pose proof (cstep_inv _ _ _ _ _ _ _ HI Ej Es) as HI'.
      destruct HI as [Hre Hwf].
      destruct (wf_ops_In _ _ _ (Hwf _ _ _ Ej)) as [Hko _].
      destruct (Nat.eq_dec j i) as [->|Hne].
      + rewrite Ei in Ej. inversion Ej; subst infj ops. clear Ej.
        destruct (step_sim (nth i views []) (fst c) s inf o Hag Hko) as [A [B C]].
        rewrite Es in A, B, C. cbn [fst snd] in A, B, C.
        cbn [model_obs]. destruct (step BTC (mkstate s inf) o) as [s2 out2] eqn:Es2. cbn [fst snd] in A, B, C.
        subst out2.
        destruct (IH (st s', upd i (inflight s', rj) (snd c)) i (inflight s') rj (st s2) HI') as [rest Hr].
        * cbn [snd]. eapply nth_error_upd_same; exact Ei.
        * cbn [fst]. exact C.
        * exists rest. unfold cproj. cbn [filter fst]. rewrite Nat.eqb_refl. cbn [map snd app].
          rewrite (snapshot_agree _ _ _ C). f_equal.
          replace s2 with (mkstate (st s2) (inflight s')) by (rewrite B; destruct s2; reflexivity).
          exact Hr.
      + unfold cproj. cbn [filter fst]. apply Nat.eqb_neq in Hne as Hb. rewrite Hb.
        apply IH; [exact HI' | cbn [snd]; rewrite nth_error_upd_other by exact Hne; exact Ei |].
        cbn [fst]. intros k Hin. rewrite <- (Hag k Hin).
        replace s' with (fst (step BTC (mkstate (fst c) infj) o)) by (rewrite Es; reflexivity).
        destruct (In_dec_key k (op_keys o)) as [Hk|Hk].
        * apply step_done_keep. cbn [st]. apply Hre. apply (Sep i j k); [congruence | exact Hin | apply Hko; exact Hk].
        * apply step_frame. exact Hk.
  Qed.

  (* for ALL schedules, without any condition on the threads: what is recorded executed is in no later signing
     set of any thread *)
  Lemma crun_never_resigned : forall sched c k, is_done (lookup (fst c) k) = true ->
    forall e, In e (crun views c sched) -> ~ In k (concat (o_sets (snd e))).
  Proof.
    induction sched as [|j sched IH]; intros c k Hd e Hin; [contradiction|].
    cbn [crun] in Hin. unfold cstep in Hin.
    destruct (nth_error (snd c) j) as [[infj [|o rj]]|] eqn:Ej; try (eapply IH; eassumption).
    destruct (step BTC (mkstate (fst c) infj) o) as [s' out] eqn:Es.
    assert (Hd' : is_done (lookup (st s') k) = true).
    { replace s' with (fst (step BTC (mkstate (fst c) infj) o)) by (rewrite Es; reflexivity).
      apply step_done_mono. exact Hd. }
    destruct Hin as [<-|Hin]; [|eapply (IH (st s', upd j (inflight s', rj) (snd c))); eassumption].
    cbn [snd o_sets]. rewrite sessions_concat. intros Hk.
    assert (Hs : In k (signed_of (snd (step BTC (mkstate (fst c) infj) o)))) by (rewrite Es; exact Hk).
    apply step_sound in Hs. cbn [st] in Hs. rewrite (eligible_done BTC _ Hd) in Hs. discriminate.
  Qed.
End Conc.

(* ---- well-formed cases ---- *)

Lemma disjk_In a b k : disjk a b = true -> In k a -> ~ In k b.
Proof.
  unfold disjk. intros H Ha Hb. rewrite forallb_forall in H. specialize (H k Ha).
  apply kmem_In in Hb. rewrite Hb in H. discriminate.
Qed.

Lemma pairwise_disj_lt l : forall i j a b k, pairwise_disj l = true -> (i < j)%nat ->
  nth_error l i = Some a -> nth_error l j = Some b -> In k a -> ~ In k b.
Proof.
  induction l as [|x l IH]; intros i j a b k H Hlt Hi Hj Ha; [destruct i; discriminate|].
  cbn [pairwise_disj] in H. apply andb_true_iff in H as [H1 H2].
  destruct i as [|i]; destruct j as [|j]; try lia; cbn in Hi, Hj.
  - inversion Hi; subst. rewrite forallb_forall in H1. apply nth_error_In in Hj.
    exact (disjk_In _ _ _ (H1 _ Hj) Ha).
  - eapply (IH i j); try eassumption. lia.
Qed.

Lemma pairwise_disj_neq l i j a b k : pairwise_disj l = true -> i <> j ->
  nth_error l i = Some a -> nth_error l j = Some b -> In k a -> ~ In k b.
Proof.
  intros H Hne Hi Hj Ha Hb. destruct (Nat.lt_ge_cases i j) as [Hlt|Hge].
  - exact (pairwise_disj_lt l i j a b k H Hlt Hi Hj Ha Hb).
  - assert (Hlt : (j < i)%nat) by lia. exact (pairwise_disj_lt l j i b a k H Hlt Hj Hi Hb Ha).
Qed.

Lemma nth_view re ths i : nth i (map (t_view re) ths) [] =
  match nth_error ths i with Some t => t_view re t | None => [] end.
Proof.
  revert i. induction ths as [|t ths IH]; intros [|i]; cbn; try reflexivity. apply IH.
Qed.

Lemma conc_wf_sep init re ths : conc_wf init re ths = true ->
  forall i j k, i <> j -> In k (nth i (map (t_view re) ths) []) -> In k (nth j (map (t_view re) ths) []) -> In k re.
Proof.
  unfold conc_wf. intros H i j k Hne Hi Hj.
  apply andb_true_iff in H as [H _]. apply andb_true_iff in H as [H _]. apply andb_true_iff in H as [Hp _].
  rewrite nth_view in Hi, Hj.
  destruct (nth_error ths i) as [ti|] eqn:Ei; [|contradiction].
  destruct (nth_error ths j) as [tj|] eqn:Ej; [|contradiction].
  unfold t_view in Hi, Hj. apply in_app_or in Hi as [Hi|Hi]; [|exact Hi]. apply in_app_or in Hj as [Hj|Hj]; [|exact Hj].
  exfalso. apply (pairwise_disj_neq (map t_own ths) i j (t_own ti) (t_own tj) k Hp Hne); [ | | exact Hi | exact Hj].
  - rewrite nth_error_map, Ei. reflexivity.
  - rewrite nth_error_map, Ej. reflexivity.
Qed.

Lemma conc_wf_inv init re ths : conc_wf init re ths = true -> Inv (map (t_view re) ths) re (cinit init ths).
Proof.
  unfold conc_wf. intros H.
  apply andb_true_iff in H as [H Hw]. apply andb_true_iff in H as [_ Hre].
  split; cbn [cinit fst snd].
  - intros k Hin. rewrite forallb_forall in Hre. apply Hre; exact Hin.
  - intros j inf ops Hj. rewrite nth_error_map in Hj. rewrite nth_view.
    destruct (nth_error ths j) as [t|] eqn:Ej; [|discriminate]. cbn in Hj. inversion Hj; subst.
    rewrite forallb_forall in Hw. apply Hw. eapply nth_error_In; exact Ej.
Qed.

(* Threads on disjoint transfers (plus shared executed ones): under EVERY schedule the history of a thread -
   its errors, its signing sets, the statuses of the transfers it can name - is the beginning of the history it
   has when it runs alone.  (Ops of different threads commute as far as any one thread can tell; executed
   records are read-only.) *)
Lemma disjoint_threads_pointwise init re ths sched i t :
  conc_wf init re ths = true -> nth_error ths i = Some t ->
  exists rest, solo init re t = cproj i (conc_run init re ths sched) ++ rest.
Proof.
  intros Hwf Ei. unfold solo, conc_run.
  pose proof (proj_gen (map (t_view re) ths) re (conc_wf_sep _ _ _ Hwf) sched (cinit init ths) i [] (t_ops t) init
                (conc_wf_inv _ _ _ Hwf)) as P.
  rewrite nth_view, Ei in P. apply P; [|apply agree_on_refl].
  cbn [cinit snd]. rewrite nth_error_map, Ei. reflexivity.
Qed.

(* a thread that was scheduled until it had performed all of its ops: exactly its solo history, which the
   sequential judge accepts *)
Lemma conc_complete_thread init re ths sched i t :
  conc_wf init re ths = true -> nth_error ths i = Some t ->
  length (cproj i (conc_run init re ths sched)) = length (t_ops t) ->
  cproj i (conc_run init re ths sched) = solo init re t /\
  thread_ok init re t (cproj i (conc_run init re ths sched)) = true.
Proof.
  intros Hwf Ei Hlen. destruct (disjoint_threads_pointwise init re ths sched i t Hwf Ei) as [rest Hr].
  assert (rest = []).
  { apply (f_equal (@length obs)) in Hr. unfold solo in Hr. rewrite model_obs_length, app_length in Hr.
    destruct rest; [reflexivity | cbn [length] in Hr; lia]. }
  subst rest. rewrite app_nil_r in Hr. rewrite <- Hr. split; [reflexivity|].
  unfold thread_ok, solo. apply (hist_ok_model BTC (t_view re t) (t_ops t) (mkstate init [])).
  unfold conc_wf in Hwf. apply andb_true_iff in Hwf as [_ Hw]. rewrite forallb_forall in Hw.
  apply Hw. eapply nth_error_In; exact Ei.
Qed.

(* hence the history of a thread does not depend on the schedule *)
Lemma conc_schedule_independent init re ths sched1 sched2 i t :
  conc_wf init re ths = true -> nth_error ths i = Some t ->
  length (cproj i (conc_run init re ths sched1)) = length (t_ops t) ->
  length (cproj i (conc_run init re ths sched2)) = length (t_ops t) ->
  cproj i (conc_run init re ths sched1) = cproj i (conc_run init re ths sched2).
Proof.
  intros Hwf Ei H1 H2.
  rewrite (proj1 (conc_complete_thread _ _ _ _ _ _ Hwf Ei H1)), (proj1 (conc_complete_thread _ _ _ _ _ _ Hwf Ei H2)).
  reflexivity.
Qed.

Lemma conc_never_resigned init re ths sched k :
  is_done (lookup init k) = true ->
  forall e, In e (conc_run init re ths sched) -> ~ In k (concat (o_sets (snd e))).
Proof. intros Hd. apply crun_never_resigned. exact Hd. Qed.

(* what an accepted thread history means: none of the transfers recorded executed at the start - the shared
   ones in particular - is in any of its signing sets *)
Lemma thread_ok_never_resigned init re t os k :
  thread_ok init re t os = true -> In k (t_view re t) -> is_done (lookup init k) = true ->
  forall ob, In ob os -> ~ In k (concat (o_sets ob)).
Proof.
  unfold thread_ok. intros H Hu Hd. eapply hist_ok_never_resigned; [exact H | exact Hu |].
  rewrite lookup_view; [exact Hd | apply kmem_In; exact Hu].
Qed.
