(* C08 - the bridge between the executable share algebra over Z mod q (Model/C08.v: reconstruct_Zq,
   used by the runner on REAL key-share data) and the field-level theorems (Proofs/C08_Lagrange.v),
   instantiated at the prime field 'F_q of mathcomp.
     phi : Z -> 'F_q  is a ring morphism that identifies exactly the integers congruent mod q;
     inv_mod computes the field inverse (checked extended-Euclid candidate, Fermat fallback);
     reconstruct_Zq_shares : on the shares of ANY polynomial (coefficient list cs) at ANY list of
       nodes distinct mod q with |cs| <= |nodes|, reconstruct_Zq returns cs[0] mod q;
     shares_ok_model : the judge used on real key-share files accepts every such sharing.
   The only hypothesis is [prime (Z.to_nat q)]; that the secp256k1 group order IS prime is not
   proved in Coq (trusted base). *)
From Coq Require Import ZArith List Lia.
From mathcomp Require Import all_ssreflect all_algebra finfield.
From mathcomp Require Import zify.
From SygmaV Require Import Model.C08 Proofs.C08 Proofs.C08_Lagrange.
Set Implicit Arguments. Unset Strict Implicit. Unset Printing Implicit Defensive.
Import GRing.Theory.
Delimit Scope Z_scope with Z.
Local Open Scope ring_scope.

Section Bridge.
Variable q : Z.
Hypothesis q_prime : prime (Z.to_nat q).
Let p := Z.to_nat q.

Definition phi (z : Z) : 'F_p := (Z.to_nat (z mod q)%Z)%:R.

Lemma q_gt1 : (1 < q)%Z.
Proof. have := prime_gt1 q_prime. lia. Qed.

Lemma phi_nat n : phi (Z.of_nat n) = n%:R.
Proof.
rewrite /phi.
have q1 := q_gt1.
set r := Z.to_nat _.
pose d := Z.to_nat (Z.of_nat n / q)%Z.
have E : n = (d * p + r)%N.
  have := Z.div_mod (Z.of_nat n) q.
  have := Z.mod_pos_bound (Z.of_nat n) q.
  have : (0 <= Z.of_nat n / q)%Z by apply: Z.div_pos; lia.
  rewrite /r /d /p. nia.
by rewrite [in RHS]E natrD natrM char_Fp_0 // mulr0 add0r.
Qed.

Lemma phi_eqmod a b : (a mod q = b mod q)%Z -> phi a = phi b.
Proof. by rewrite /phi => ->. Qed.

Lemma phi_mod z : phi (z mod q)%Z = phi z.
Proof. by apply: phi_eqmod; rewrite Zmod_mod. Qed.

Lemma phi_repr z : phi z = (Z.to_nat (z mod q)%Z)%:R.
Proof. by []. Qed.

Lemma phiD a b : phi (a + b)%Z = phi a + phi b.
Proof.
have q1 := q_gt1.
rewrite [phi a]phi_repr [phi b]phi_repr -natrD -phi_nat; apply: phi_eqmod.
rewrite Nat2Z.inj_add !Z2Nat.id; try (apply Z.mod_pos_bound; lia).
by rewrite -Zplus_mod.
Qed.

Lemma phiM a b : phi (a * b)%Z = phi a * phi b.
Proof.
have q1 := q_gt1.
rewrite [phi a]phi_repr [phi b]phi_repr -natrM -phi_nat; apply: phi_eqmod.
rewrite Nat2Z.inj_mul !Z2Nat.id; try (apply Z.mod_pos_bound; lia).
by rewrite -Zmult_mod.
Qed.

Lemma phi0 : phi 0 = 0.
Proof. by rewrite /phi Zmod_0_l. Qed.

Lemma phi1 : phi 1 = 1.
Proof. have q1 := q_gt1. by rewrite /phi Zmod_1_l. Qed.

Lemma phiB a b : phi (a - b)%Z = phi a - phi b.
Proof.
apply/eqP; rewrite eq_sym subr_eq -phiD; apply/eqP; congr phi; lia.
Qed.

Lemma phi_inj a b : phi a = phi b -> (a mod q = b mod q)%Z.
Proof.
have q1 := q_gt1.
move=> /(congr1 (@nat_of_ord _)); rewrite /phi !val_Fp_nat //.
have ba := Z.mod_pos_bound a q. have bb := Z.mod_pos_bound b q.
by rewrite !modn_small; try (rewrite /p; lia).
Qed.

Lemma phi_eq a b : (phi a == phi b) = (a mod q =? b mod q)%Z.
Proof.
apply/eqP/idP => [/phi_inj ->|/Z.eqb_eq]; first exact: Z.eqb_refl.
exact: phi_eqmod.
Qed.

Lemma phi_addm a b : phi (addm q a b) = phi a + phi b.
Proof. by rewrite /addm phi_mod phiD. Qed.
Lemma phi_subm a b : phi (subm q a b) = phi a - phi b.
Proof. by rewrite /subm phi_mod phiB. Qed.
Lemma phi_mulm a b : phi (mulm q a b) = phi a * phi b.
Proof. by rewrite /mulm phi_mod phiM. Qed.

Lemma phi_pow a e : phi (pow_pos_mod q a e) = phi a ^+ Pos.to_nat e.
Proof.
elim: e => [e IH|e IH|] /=.
- by rewrite !phi_mulm IH Pos2Nat.inj_xI exprS -exprD addnn -mul2n mulrC.
- by rewrite phi_mulm IH Pos2Nat.inj_xO -exprD addnn -mul2n.
- by rewrite phi_mod expr1.
Qed.

Lemma fermat_field (x : 'F_p) : x != 0 -> x ^+ (p - 2) = x^-1.
Proof.
move=> x0.
have p2 : (2 <= p)%N by exact: prime_gt1.
have H := expf_card x; rewrite card_Fp // in H.
have E : x ^+ p = x * (x * x ^+ (p - 2)).
  by rewrite -!exprS; congr (_ ^+ _); rewrite -[LHS](subnK p2) addn2.
have {E} H1 : x * x ^+ (p - 2) = 1.
  by apply: (mulfI x0); rewrite mulr1 -E.
by rewrite -[LHS]mul1r -(mulVf x0) -mulrA H1 mulr1.
Qed.

Lemma phi_fermat a : phi a != 0 -> phi (fermat_inv q a) = (phi a)^-1.
Proof.
move=> a0; rewrite -fermat_field // /fermat_inv /powm.
have q1 := q_gt1.
case E : (q - 2)%Z => [|e|e].
- have -> : (p - 2 = 0)%N by rewrite /p; lia.
  by rewrite phi_mod phi1 expr0.
- by rewrite phi_pow; congr (_ ^+ _); rewrite /p; lia.
- lia.
Qed.

Lemma phi_inv a : phi a != 0 -> phi (inv_mod q a) = (phi a)^-1.
Proof.
move=> a0; rewrite /inv_mod.
case: Z.eqb_spec => [H|_]; last exact: phi_fermat.
have : phi (mulm q a (inv_guess q a)) = 1 by rewrite H phi1.
rewrite phi_mulm => {}H.
by rewrite -[LHS]mul1r -(mulVf a0) -mulrA H mulr1.
Qed.

Definition phis (l : list Z) : seq 'F_p := [seq phi j | j <- l].

Lemma phi_lag ids i :
  phi (lag_coeff q ids i) = lambda (phis ids) (phi i).
Proof.
rewrite /lambda /lag_coeff.
elim: ids => [|j ids IH] /=; first by rewrite big_nil phi_mod phi1.
rewrite big_cons phi_eq.
case E : (_ =? _)%Z => //=.
rewrite !phi_mulm phi_subm phi0 phi_inv ?IH ?phi_subm //.
by rewrite subr_eq0 eq_sym phi_eq E.
Qed.

Lemma phi_rec_aux ids l :
  phi (fold_right (fun pt acc => addm q (mulm q (snd pt) (lag_coeff q ids (fst pt))) acc) 0%Z l)
  = \sum_(pt <- l) phi (snd pt) * lambda (phis ids) (phi (fst pt)).
Proof.
elim: l => [|pt l IH] /=; first by rewrite big_nil phi0.
by rewrite big_cons phi_addm phi_mulm phi_lag IH.
Qed.

Lemma phi_reconstruct pts :
  phi (reconstruct_Zq q pts)
  = \sum_(pt <- pts) phi (snd pt) * lambda (phis (List.map fst pts)) (phi (fst pt)).
Proof. exact: phi_rec_aux. Qed.

Definition polyF (cs : list Z) : {poly 'F_p} := Poly (phis cs).

Lemma phi_eval cs x : phi (eval_Zq q cs x) = (polyF cs).[phi x].
Proof.
rewrite /polyF /eval_Zq; elim: cs => [|c cs IH] /=; first by rewrite horner0 phi0.
by rewrite horner_cons phi_addm phi_mulm IH addrC mulrC.
Qed.

Lemma size_length A (l : list A) : size l = length l.
Proof. by elim: l => //= a l ->. Qed.

Lemma distinct_uniq ids : distinct_mod q ids = uniq (phis ids).
Proof.
elim: ids => //= i ids ->; congr (~~ _ && _).
elim: ids => //= j ids ->.
by rewrite inE phi_eq Z.eqb_sym.
Qed.

Lemma reconstruct_range pts : (reconstruct_Zq q pts mod q = reconstruct_Zq q pts)%Z.
Proof.
rewrite /reconstruct_Zq; case: pts => [|pt pts] /=; first exact: Zmod_0_l.
by rewrite /addm Zmod_mod.
Qed.

Lemma sum_share_pts cs ids S :
  \sum_(pt <- List.map (fun i => (i, eval_Zq q cs i)) ids) phi (snd pt) * lambda S (phi (fst pt))
  = \sum_(s <- phis ids) (polyF cs).[s] * lambda S s.
Proof.
elim: ids => [|i l IH] /=; first by rewrite !big_nil.
by rewrite !big_cons IH phi_eval.
Qed.

(* THE BRIDGE: the executable reconstruction over Z mod q, run on the shares of ANY polynomial of
   degree < number of nodes, on ANY list of nodes distinct mod q, returns the constant term. *)
Theorem reconstruct_Zq_shares cs ids :
  distinct_mod q ids = true -> (length cs <= length ids)%coq_nat ->
  reconstruct_Zq q (share_pts q cs ids) = (List.hd 0%Z cs mod q)%Z.
Proof.
move=> dist len.
rewrite -reconstruct_range; apply: phi_inj.
rewrite phi_reconstruct /share_pts.
have -> : List.map fst (List.map (fun i => (i, eval_Zq q cs i)) ids) = ids.
  by elim: (ids) => //= i l ->.
rewrite sum_share_pts -[X in X = _]/(reconstruct (phis ids) (share (polyF cs))).
rewrite reconstruct_any_subset -?distinct_uniq //.
- rewrite horner_coef0 /polyF coef_Poly; by case: (cs) => [|c l] //=; rewrite phi0.
- apply: (leq_trans (size_Poly _)); rewrite /phis !size_map !size_length.
  by apply/leP.
Qed.

(* The judge used on real key shares accepts the shares of every polynomial of degree <= t held by
   at least t+1 nodes that are distinct mod q (= what a correct keygen / resharing produces). *)
Theorem shares_ok_model cs ids t :
  distinct_mod q ids = true -> (length cs <= t.+1)%coq_nat -> (t.+1 <= length ids)%coq_nat ->
  shares_ok q t (share_pts q cs ids) (List.hd 0%Z cs mod q)%Z = true.
Proof.
move=> dist lcs lids; rewrite /shares_ok.
have -> : List.map fst (share_pts q cs ids) = ids.
  by rewrite /share_pts; elim: (ids) => //= i l ->.
rewrite dist andTb /share_pts List.map_length.
have -> : (Nat.leb t.+1 (length ids)) = true by apply/Nat.leb_le.
rewrite sublists_map andTb.
apply/List.forallb_forall => s /List.in_map_iff [ids' [<- Hin]].
apply/Z.eqb_eq; apply: reconstruct_Zq_shares.
- exact: (@sublists_distinct q ids t.+1 ids' Hin dist).
- by rewrite (@sublists_length _ ids t.+1 ids' Hin).
Qed.

(* The scenario judge accepts every ideal scenario: Shamir sharings of ONE secret at every stage
   (whatever the committees, thresholds and polynomials) and signing sessions that complete. *)
Theorem scn_ok_model ecdsa s l prev :
  List.forallb (ideal_wf q s) l = true -> prev = None \/ prev = Some s ->
  scn_ok q ecdsa prev (List.map (ideal_obs q ecdsa) l) = true.
Proof.
elim: l prev => [|i l IH] prev; first by [].
rewrite [List.forallb _ _]/= [List.map _ _]/= => /andP [wf wfl] Hprev.
case: i wf => [cs ids t|must n coord]; rewrite /ideal_wf /ideal_obs.
- move=> /andP [/andP [/andP [dist lcs] lids] Hs].
  have {}lcs : (length cs <= t.+1)%coq_nat by apply: (proj1 (Nat.leb_le _ _)); exact: lcs.
  have {}lids : (t.+1 <= length ids)%coq_nat by apply: (proj1 (Nat.leb_le _ _)); exact: lids.
  have {}Hs := proj1 (Z.eqb_eq _ _) Hs.
  rewrite [scn_ok _ _ _ _]/= shares_ok_model // Hs IH //; last by right.
  by case: Hprev => -> //=; rewrite Z.eqb_refl.
- move=> Hc; have {}Hc : (coord < n)%coq_nat by apply: (proj1 (Nat.ltb_lt _ _)); exact: Hc.
  have := sign_ok_model ecdsa must n coord Hc; rewrite /ideal_sign => H.
  by rewrite /ideal_sign scn_ok_sign H IH.
Qed.
End Bridge.
