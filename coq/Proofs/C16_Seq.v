(* C16 round 4 - histories of builds on one long-lived Executor: the result of a build is a function
   of its own (proposals, UTXO listing, fee rate, ...) whatever was built before; the history judge
   [seq_spec] accepts the model and what it accepts are the per-build statements. *)
From Coq Require Import List ZArith NArith Bool Permutation Lia.
Import ListNotations.
From SygmaV Require Import Model.C16 Proofs.C16.
Local Open Scope Z_scope.

(* the build after ANY history is the build alone *)
Lemma build_history_independent : forall bridge pre b post,
  nth_error (build_run bridge (pre ++ b :: post)) (length pre) = Some (build_one bridge b).
Proof.
  intros bridge pre b post. unfold build_run. rewrite map_app. cbn [map].
  rewrite <- (map_length (build_one bridge) pre).
  rewrite nth_error_app2 by lia. rewrite Nat.sub_diag. reflexivity.
Qed.

(* same inputs, different histories: same result *)
Lemma build_same_inputs : forall bridge pre pre' b post post',
  nth_error (build_run bridge (pre ++ b :: post)) (length pre)
  = nth_error (build_run bridge (pre' ++ b :: post')) (length pre').
Proof. intros. rewrite !build_history_independent. reflexivity. Qed.

Lemma build_run_length : forall bridge bs, length (build_run bridge bs) = length bs.
Proof. intros. unfold build_run. apply map_length. Qed.

Lemma spec_all_none2 : forall ps us bridge, spec_all ps us bridge [None; None] = true.
Proof. reflexivity. Qed.

Lemma build_pair_ok : forall bridge b, build_wf b = true ->
  spec_all (b_ps b) (b_listing b) bridge
    [project (b_ps b) (b_rate b) (build_one bridge b); project (b_ps b) (b_rate b) (build_one bridge b)] = true.
Proof.
  intros bridge b W. unfold build_one. destruct (b_svc b); [|reflexivity].
  exact (spec_all_model (b_ps b) (b_listing b) (b_rate b) bridge (b_cid b) (b_up b)
           [b_listing b; b_listing b] (wf_wfP _ _ _ W)
           (Forall_cons _ (Permutation_refl _) (Forall_cons _ (Permutation_refl _) (Forall_nil _)))).
Qed.

(* the history judge accepts the model on every history of well-formed builds *)
Lemma seq_spec_model : forall bridge bs,
  forallb build_wf bs = true -> seq_spec bridge (model_build_obs bridge bs) = true.
Proof.
  intros bridge bs. unfold seq_spec, model_build_obs, build_run.
  induction bs as [|b rest IH]; intros W; [reflexivity|].
  cbn [forallb] in W. apply andb_prop in W. destruct W as [Wb Wr].
  cbn [map combine forallb fst snd]. rewrite (build_pair_ok bridge b Wb). exact (IH Wr).
Qed.

Lemma forallb_Forall : forall {A} (f : A -> bool) l, forallb f l = true -> Forall (fun x => f x = true) l.
Proof. intros A f l H. apply Forall_forall. apply forallb_forall. exact H. Qed.

(* what it accepts: every run of every build obeys the per-build specification for ITS proposals and
   ITS UTXO set with the quote at ITS rate, and the long-lived Executor built exactly what a fresh
   one builds from the same inputs *)
Lemma seq_spec_sound : forall bridge obs, seq_spec bridge obs = true ->
  forall ps us rs, In (ps, us, rs) obs ->
    Forall (fun r => spec_one ps us bridge r = true) rs /\
    (forall r0 rest, rs = r0 :: rest -> Forall (fun r => res_eqb r0 r = true) rest).
Proof.
  intros bridge obs H ps us rs Hin. unfold seq_spec in H. rewrite forallb_forall in H.
  specialize (H _ Hin). cbn [fst snd] in H. unfold spec_all in H.
  apply andb_prop in H. destruct H as [H1 H2]. split.
  - apply forallb_Forall. exact H1.
  - intros r0 rest E. subst rs. apply forallb_Forall. exact H2.
Qed.
