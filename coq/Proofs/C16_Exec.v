(* C16 round 3 - proofs about the message step (deposit amount -> proposal amount) and about the
   per-resource grouping of Executor.Execute (Model/C16.v, last two sections). *)
From Coq Require Import List ZArith NArith Bool Lia Permutation.
From Coq Require Import ZifyBool ZifyN ZifyNat.
Import ListNotations.
From SygmaV Require Import Model.C16.

(* ---------------------------------------------------------------------------------------------- *)
(* message amount -> proposal amount *)

Section Amounts.
Local Open Scope Z_scope.

Lemma ten10_pos : 0 < ten10.
Proof. reflexivity. Qed.

Lemma handler_amount_exact m :
  0 <= m < msg_limit ->
  handler_amount m = m / ten10 /\
  handler_amount m * ten10 <= m < handler_amount m * ten10 + ten10 /\
  0 <= handler_amount m < two64.
Proof.
  intros [H0 H1]. unfold handler_amount, msg_limit in *.
  assert (Hq0 : 0 <= m / ten10) by (apply Z.div_pos; [exact H0 | exact ten10_pos]).
  assert (Hq1 : m / ten10 < two64).
  { apply Z.div_lt_upper_bound; [exact ten10_pos|]. rewrite Z.mul_comm. exact H1. }
  assert (Hu : u64 (m / ten10) = m / ten10) by (unfold u64; apply Z.mod_small; split; assumption).
  rewrite Hu. split; [reflexivity|]. split; [|split; assumption].
  pose proof (Z.mul_div_le m ten10 ten10_pos) as Hl.
  pose proof (Z.mul_succ_div_gt m ten10 ten10_pos) as Hg.
  rewrite (Z.mul_comm (m / ten10) ten10). unfold Z.succ in Hg. lia.
Qed.

(* as coded beyond the limit: the quotient wraps; the first amount that does is paid as 0 *)
Lemma handler_amount_wraps :
  handler_amount msg_limit = 0 /\ msg_limit / ten10 = two64 /\
  forall m, 0 <= m -> handler_amount m = (m / ten10) mod two64.
Proof. split; [reflexivity|]. split; [reflexivity|]. intros m _. reflexivity. Qed.

Lemma amounts_ok_model ms : msgs_wf ms = true -> amounts_ok ms (map handler_amount ms) = true.
Proof.
  intros Hwf. unfold amounts_ok. rewrite map_length, Nat.eqb_refl. cbn [andb].
  induction ms as [|m r IH]; cbn [map combine forallb fst snd]; [reflexivity|].
  cbn [msgs_wf forallb] in Hwf. apply andb_true_iff in Hwf as [Hm Hr].
  rewrite (IH Hr), andb_true_r.
  destruct (m <? msg_limit) eqn:E; [|reflexivity].
  apply Z.eqb_eq. apply Z.ltb_lt in E. apply Z.leb_le in Hm.
  apply (handler_amount_exact m). split; assumption.
Qed.

Lemma amounts_ok_sound ms impl :
  amounts_ok ms impl = true ->
  length ms = length impl /\
  Forall (fun ma => fst ma < msg_limit -> snd ma = fst ma / ten10) (combine ms impl).
Proof.
  unfold amounts_ok. intros H. apply andb_true_iff in H as [Hl Hf].
  split; [apply Nat.eqb_eq; exact Hl|].
  apply Forall_forall. intros [m a] Hin. rewrite forallb_forall in Hf. specialize (Hf _ Hin).
  cbn [fst snd] in *. intros Hlt. apply Z.ltb_lt in Hlt. rewrite Hlt in Hf. apply Z.eqb_eq. exact Hf.
Qed.

End Amounts.

(* ---------------------------------------------------------------------------------------------- *)
(* Execute: grouping of one delivery per resource *)

Section Groups.
Local Open Scope N_scope.

Lemma members_app r a b : members r (a ++ b) = members r a ++ members r b.
Proof. unfold members. rewrite filter_app, map_app. reflexivity. Qed.

Lemma members_none r ps : (forall q, In q ps -> e_rid q <> r) -> members r ps = [].
Proof.
  induction ps as [|q t IH]; intros H; [reflexivity|].
  unfold members in *. cbn [filter].
  destruct (e_rid q =? r) eqn:E.
  - apply N.eqb_eq in E. exfalso. apply (H q); [left; reflexivity | exact E].
  - apply IH. intros q' Hq'. apply H. right. exact Hq'.
Qed.

Lemma members_in r ps p : In p ps -> e_rid p = r -> In (e_nonce p) (members r ps).
Proof.
  intros Hin Hr. unfold members. apply in_map. apply filter_In. split; [exact Hin|].
  apply N.eqb_eq. exact Hr.
Qed.

Definition upd (p : eprop) (g : N * list N) : N * list N :=
  if fst g =? e_rid p then (fst g, snd g ++ [e_nonce p]) else g.

Lemma upd_fst p g : fst (upd p g) = fst g.
Proof. unfold upd. destruct (fst g =? e_rid p); reflexivity. Qed.

Lemma map_upd_id p gs : ~ In (e_rid p) (map fst gs) -> map (upd p) gs = gs.
Proof.
  induction gs as [|g t IH]; intros Hn; [reflexivity|]. cbn [map] in *.
  rewrite IH by (intros H; apply Hn; right; exact H).
  unfold upd. destruct (fst g =? e_rid p) eqn:E; [|reflexivity].
  apply N.eqb_eq in E. exfalso. apply Hn. left. exact E.
Qed.

Lemma add_to_notin p gs :
  ~ In (e_rid p) (map fst gs) -> add_to p gs = gs ++ [(e_rid p, [e_nonce p])].
Proof.
  induction gs as [|g t IH]; intros Hn; [reflexivity|]. cbn [add_to map app] in *.
  destruct (fst g =? e_rid p) eqn:E.
  - apply N.eqb_eq in E. exfalso. apply Hn. left. exact E.
  - rewrite IH; [reflexivity|]. intros H. apply Hn. right. exact H.
Qed.

Lemma add_to_in p gs :
  NoDup (map fst gs) -> In (e_rid p) (map fst gs) -> add_to p gs = map (upd p) gs.
Proof.
  induction gs as [|g t IH]; intros Hnd Hin; [contradiction|]. cbn [add_to map] in *.
  inversion Hnd as [|x l Hx Hnd']; subst.
  unfold upd at 1. destruct (fst g =? e_rid p) eqn:E.
  - apply N.eqb_eq in E. rewrite map_upd_id; [reflexivity|]. rewrite <- E. exact Hx.
  - f_equal. apply IH; [exact Hnd'|]. destruct Hin as [Hin|Hin]; [|exact Hin].
    apply N.eqb_neq in E. contradiction.
Qed.

(* the invariant of the grouping loop *)
Definition ginv (ps : list eprop) (gs : list (N * list N)) : Prop :=
  NoDup (map fst gs) /\
  (forall g, In g gs -> snd g = members (fst g) ps /\ snd g <> []) /\
  (forall p, In p ps -> In (e_rid p) (map fst gs)).

Lemma ginv_nil : ginv [] [].
Proof. split; [constructor|]. split; intros ? []. Qed.

Lemma ginv_step ps gs p : ginv ps gs -> ginv (ps ++ [p]) (add_to p gs).
Proof.
  intros [Hnd [Hmem Hcov]].
  assert (Hlast : forall r, members r (ps ++ [p]) =
                            members r ps ++ (if e_rid p =? r then [e_nonce p] else [])).
  { intros r. rewrite members_app. f_equal. unfold members. cbn [filter].
    destruct (e_rid p =? r); reflexivity. }
  destruct (in_dec N.eq_dec (e_rid p) (map fst gs)) as [Hin | Hnin].
  - rewrite (add_to_in p gs Hnd Hin). split; [|split].
    + rewrite map_map. rewrite (map_ext _ fst (upd_fst p)). exact Hnd.
    + intros g' Hg'. apply in_map_iff in Hg' as [g [Hg Hing]]. subst g'.
      destruct (Hmem g Hing) as [Hs Hne]. rewrite Hlast. unfold upd.
      destruct (fst g =? e_rid p) eqn:E; cbn [fst snd].
      * rewrite N.eqb_sym, E. rewrite Hs. split; [reflexivity|].
        intros Habs. apply app_eq_nil in Habs as [_ Habs]. discriminate.
      * rewrite N.eqb_sym, E, app_nil_r. split; assumption.
    + intros q Hq. rewrite map_map, (map_ext _ fst (upd_fst p)).
      apply in_app_or in Hq as [Hq | [Hq | []]]; [apply Hcov; exact Hq | subst q; exact Hin].
  - rewrite (add_to_notin p gs Hnin). split; [|split].
    + rewrite map_app. cbn [map fst].
      apply (Permutation_NoDup (Permutation_cons_append (map fst gs) (e_rid p))).
      constructor; assumption.
    + intros g Hg. apply in_app_or in Hg as [Hg | [Hg | []]].
      * destruct (Hmem g Hg) as [Hs Hne]. rewrite Hlast.
        destruct (e_rid p =? fst g) eqn:E.
        -- apply N.eqb_eq in E. exfalso. apply Hnin. rewrite E. apply in_map. exact Hg.
        -- rewrite app_nil_r. split; assumption.
      * subst g. cbn [fst snd]. rewrite Hlast, N.eqb_refl.
        rewrite members_none; [split; [reflexivity|discriminate]|].
        intros q Hq Hr. apply Hnin. rewrite <- Hr. apply Hcov. exact Hq.
    + intros q Hq. rewrite map_app. apply in_or_app.
      apply in_app_or in Hq as [Hq | [Hq | []]]; [left; apply Hcov; exact Hq | right; subst q; left; reflexivity].
Qed.

Lemma ginv_fold ps : forall ps0 gs,
  ginv ps0 gs -> ginv (ps0 ++ ps) (fold_left (fun gs p => add_to p gs) ps gs).
Proof.
  induction ps as [|p t IH]; intros ps0 gs H; cbn [fold_left].
  - rewrite app_nil_r. exact H.
  - replace (ps0 ++ p :: t) with ((ps0 ++ [p]) ++ t) by (rewrite <- app_assoc; reflexivity).
    apply IH. apply ginv_step. exact H.
Qed.

Lemma groups_inv ps : ginv ps (groups ps).
Proof. apply (ginv_fold ps [] [] ginv_nil). Qed.

(* the grouping is a partition of the delivery by resource *)
Lemma groups_partition ps :
  NoDup (map fst (groups ps)) /\
  (forall r ms, In (r, ms) (groups ps) -> ms = members r ps /\ ms <> []) /\
  (forall p, In p ps -> exists ms, In (e_rid p, ms) (groups ps) /\ In (e_nonce p) ms).
Proof.
  destruct (groups_inv ps) as [Hnd [Hmem Hcov]]. split; [exact Hnd|]. split.
  - intros r ms Hin. exact (Hmem (r, ms) Hin).
  - intros p Hp. specialize (Hcov p Hp). apply in_map_iff in Hcov as [[r ms] [Hr Hin]].
    cbn [fst] in Hr. subst r. exists ms. split; [exact Hin|].
    destruct (Hmem _ Hin) as [Hs _]. cbn [fst snd] in Hs. rewrite Hs.
    apply members_in; [exact Hp | reflexivity].
Qed.

(* counting *)
Lemma count_occ_snoc (l : list N) x n :
  count_occ N.eq_dec (l ++ [x]) n = (count_occ N.eq_dec l n + (if N.eq_dec x n then 1 else 0))%nat.
Proof.
  induction l as [|y t IH]; cbn [app count_occ].
  - destruct (N.eq_dec x n); reflexivity.
  - rewrite IH. destruct (N.eq_dec y n); lia.
Qed.

Lemma occ_add_to n p gs :
  occ n (add_to p gs) = (occ n gs + (if N.eq_dec (e_nonce p) n then 1 else 0))%nat.
Proof.
  induction gs as [|g t IH]; cbn [add_to occ fold_right snd count_occ].
  - destruct (N.eq_dec (e_nonce p) n); lia.
  - destruct (fst g =? e_rid p); cbn [occ fold_right snd].
    + rewrite count_occ_snoc. fold (occ n t). lia.
    + fold (occ n (add_to p t)). fold (occ n t). rewrite IH. lia.
Qed.

Lemma total_add_to p gs : total (add_to p gs) = S (total gs).
Proof.
  induction gs as [|g t IH]; cbn [add_to total fold_right snd length]; [reflexivity|].
  destruct (fst g =? e_rid p); cbn [total fold_right snd].
  - rewrite app_length. cbn [length]. fold (total t). lia.
  - fold (total (add_to p t)). fold (total t). rewrite IH. lia.
Qed.

Lemma occ_fold n ps : forall gs,
  occ n (fold_left (fun gs p => add_to p gs) ps gs) =
  (occ n gs + count_occ N.eq_dec (map e_nonce ps) n)%nat.
Proof.
  induction ps as [|p t IH]; intros gs; cbn [fold_left map count_occ]; [lia|].
  rewrite IH, occ_add_to. destruct (N.eq_dec (e_nonce p) n); lia.
Qed.

Lemma total_fold ps : forall gs,
  total (fold_left (fun gs p => add_to p gs) ps gs) = (total gs + length ps)%nat.
Proof.
  induction ps as [|p t IH]; intros gs; cbn [fold_left length]; [lia|].
  rewrite IH, total_add_to. lia.
Qed.

Lemma occ_groups n ps : occ n (groups ps) = count_occ N.eq_dec (map e_nonce ps) n.
Proof. unfold groups. rewrite occ_fold. reflexivity. Qed.

Lemma total_groups ps : total (groups ps) = length ps.
Proof. unfold groups. rewrite total_fold. reflexivity. Qed.

Lemma nodupb_N l : nodupb N.eqb l = true -> NoDup l.
Proof.
  induction l as [|x r IH]; cbn [nodupb]; intros H; [constructor|].
  apply andb_true_iff in H as [Hx Hr]. constructor; [|apply IH; exact Hr].
  intros Hin. apply negb_true_iff in Hx.
  assert (Ht : existsb (N.eqb x) r = true).
  { apply existsb_exists. exists x. split; [exact Hin | apply N.eqb_refl]. }
  rewrite Ht in Hx. discriminate.
Qed.

Lemma existsb_eqb_in n l : existsb (N.eqb n) l = true <-> In n l.
Proof.
  rewrite existsb_exists. split.
  - intros [x [Hin He]]. apply N.eqb_eq in He. subst x. exact Hin.
  - intros Hin. exists n. split; [exact Hin | apply N.eqb_refl].
Qed.

(* the judge accepts the model *)
Lemma exec_ok_model ps : nonces_distinct ps = true -> exec_ok ps (groups ps) = true.
Proof.
  intros Hd. apply nodupb_N in Hd. unfold exec_ok.
  rewrite total_groups, Nat.eqb_refl, andb_true_r.
  apply forallb_forall. intros p Hp. apply andb_true_iff. split.
  - apply Nat.eqb_eq. rewrite occ_groups.
    apply (proj1 (NoDup_count_occ' N.eq_dec (map e_nonce ps)) Hd). apply in_map. exact Hp.
  - destruct (groups_partition ps) as [_ [_ Hcov]]. destruct (Hcov p Hp) as [ms [Hin Hm]].
    apply existsb_exists. exists (e_rid p, ms). split; [exact Hin|]. cbn [fst snd].
    rewrite N.eqb_refl. cbn [andb]. apply existsb_eqb_in. exact Hm.
Qed.

(* what the judge accepts: every proposal of the delivery is paid by exactly one transaction, that
   transaction was built for its resource, and the transactions pay nothing else *)
Lemma exec_ok_sound ps obs :
  exec_ok ps obs = true ->
  (forall p, In p ps ->
     occ (e_nonce p) obs = 1%nat /\
     exists g, In g obs /\ fst g = e_rid p /\ In (e_nonce p) (snd g)) /\
  total obs = length ps.
Proof.
  unfold exec_ok. intros H. apply andb_true_iff in H as [Hf Ht].
  split; [|apply Nat.eqb_eq; exact Ht].
  intros p Hp. rewrite forallb_forall in Hf. specialize (Hf p Hp).
  apply andb_true_iff in Hf as [Ho He]. split; [apply Nat.eqb_eq; exact Ho|].
  apply existsb_exists in He as [g [Hg Hc]]. apply andb_true_iff in Hc as [Hr Hm].
  exists g. split; [exact Hg|]. split; [apply N.eqb_eq; exact Hr | apply existsb_eqb_in; exact Hm].
Qed.

End Groups.

(* witnesses for the non-vacuity example and the "shared loop variable" refutation *)
Definition w_delivery : list eprop := [mkE 0 1; mkE 1 2; mkE 2 1; mkE 3 3]%N.
