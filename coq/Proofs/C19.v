From Coq Require Import List ZArith NArith Bool String Lia Permutation Sorted.
Import ListNotations.
From SygmaV Require Import Model.C05 Proofs.C05 Model.C19.
Local Open Scope Z_scope.

(* ---------------------------------------------------------------------------------------------
   Part A: every scanned range is a cell of the partition fixed by the block interval. *)

Definition cellok (c : cfg) (s e : Z) : Prop := s mod stp c = 0 /\ e = s + stp c - 1.

(* either single-block ranges (Bitcoin) or a wiring that aligns every start *)
Definition aligned_setup (w : wiring) (c : cfg) : Prop := kd c = Btc \/ wiring_aligned w = true.

Definition AI (c : cfg) (s : st) : Prop :=
  match s_cur s with
  | Some b => b mod stp c = 0
  | None => kd c = Btc \/ s_pc s = PBoot \/ s_pc s = PDead
  end.

Lemma stp_btc c : kd c = Btc -> stp c = 1.
Proof. unfold stp. intros ->. reflexivity. Qed.

Lemma stp_ival c : kd c <> Btc -> stp c = ival c.
Proof. unfold stp. destruct (kd c); congruence. Qed.

Lemma aligned_fields w : wiring_aligned w = true ->
  reads_store w = true /\ head_if_nil w = true /\ align_arg w = AlignInterval /\ aligns_known w = true
  /\ aligns_head w = true /\ chain_arg w = ChainStart.
Proof.
  unfold wiring_aligned, aligns_to_interval, passes_start_to_chain. intros H.
  repeat (apply andb_true_iff in H as [H ?]).
  destruct (align_arg w); try discriminate. destruct (chain_arg w); try discriminate.
  match goal with Hk : aligns_known w && aligns_head w = true |- _ => apply andb_true_iff in Hk as [? ?] end.
  auto 10.
Qed.

Lemma aligned_not_dead w c : wiring_aligned w = true -> align_dead w c = false.
Proof. intros Ha. destruct (aligned_fields w Ha) as (_ & _ & Hal & _). unfold align_dead. rewrite Hal. reflexivity. Qed.

Lemma align_by_stp w c v :
  wf_cfg c = true -> wiring_aligned w = true -> align_by w c v mod stp c = 0.
Proof.
  intros Hwf Ha. destruct (aligned_fields w Ha) as (_ & _ & Hal & _). unfold align_by. rewrite Hal.
  destruct (kd c) eqn:Hk.
  - rewrite stp_ival by congruence. apply align_divides, ival_pos; exact Hwf.
  - rewrite stp_ival by congruence. apply align_divides, ival_pos; exact Hwf.
  - rewrite (stp_btc c Hk). apply Z.mod_1_r.
Qed.

(* whatever reaches the chain object - a start known beforehand or the head - is a multiple of the step *)
Lemma to_chain_AI w c v :
  wf_cfg c = true -> aligned_setup w c ->
  match to_chain w c (Some (app_align w c v)) with Some b => b mod stp c = 0 | None => kd c = Btc end
  /\ match to_chain w c (Some (app_align_head w c v)) with Some b => b mod stp c = 0 | None => kd c = Btc end
  /\ match to_chain w c None with Some b => b mod stp c = 0 | None => True end.
Proof.
  intros Hwf [Hb|Ha].
  - rewrite (stp_btc c Hb). unfold to_chain.
    destruct (chain_arg w); repeat split; try apply Z.mod_1_r; try exact Hb; exact I.
  - destruct (aligned_fields w Ha) as (_ & _ & _ & Hk & Hh & Hp). unfold to_chain, app_align, app_align_head.
    rewrite Hp, Hk, Hh. repeat split; try (apply align_by_stp; assumption).
Qed.

Lemma reboot_AI w c stored :
  wf_cfg c = true -> aligned_setup w c -> AI c (fst (reboot w c stored)).
Proof.
  intros Hwf Hs. unfold reboot, boot.
  destruct (if reads_store w then get_start_block stored c else None) as [v|] eqn:Hv.
  - destruct (aligns_known w && align_dead w c); [unfold AI; cbn; auto|].
    cbn. unfold AI; cbn. destruct (to_chain_AI w c v Hwf Hs) as (H & _ & _).
    destruct (to_chain w c (Some (app_align w c v))); [exact H|left; exact H].
  - destruct (head_if_nil w) eqn:Hh; [unfold AI; cbn; auto|].
    destruct (aligns_known w) eqn:Hal; [unfold AI; cbn; auto|].
    unfold AI; cbn. destruct Hs as [Hb|Ha].
    + destruct (to_chain w c None) eqn:Ht; [|left; exact Hb]. rewrite (stp_btc c Hb). apply Z.mod_1_r.
    + destruct (aligned_fields w Ha) as (_ & Hh' & _). congruence.
Qed.

Lemma reboot_outs w c stored o : In o (snd (reboot w c stored)) -> exists cur, o = OStart cur.
Proof.
  unfold reboot. destruct (boot w c stored); cbn; intros H; try contradiction.
  destruct H as [<-|[]]. eauto.
Qed.

Definition out_cellok (c : cfg) (o : out) : Prop :=
  match o with OHandle _ s e _ => cellok c s e | _ => True end.

Lemma step_AI w c s e :
  wf_cfg c = true -> aligned_setup w c -> AI c s ->
  AI c (fst (step w c s e)) /\ (forall o, In o (snd (step w c s e)) -> out_cellok c o).
Proof.
  intros Hwf Hs HA.
  assert (Hcrash : AI c (fst (reboot w c (s_stored s))) /\
                   (forall o, In o (snd (reboot w c (s_stored s))) -> out_cellok c o)).
  { split; [apply reboot_AI; assumption|]. intros o Ho. apply reboot_outs in Ho as [cur ->]. exact I. }
  assert (Hstay : AI c s /\ (forall o, In o (@nil out) -> out_cellok c o)) by (split; [exact HA|intros o []]).
  destruct e as [|h|ok|ok|]; unfold step; try exact Hcrash.
  - destruct (s_pc s); exact Hstay.
  - (* Head *)
    destruct (s_pc s) eqn:Hp; try exact Hstay.
    + (* PBoot *)
      destruct (aligns_head w && align_dead w c); [split; [unfold AI; cbn; auto|intros o []]|].
      cbn. split; [|intros o [<-|[]]; exact I]. unfold AI; cbn.
      destruct (to_chain_AI w c h Hwf Hs) as (_ & H & _).
      destruct (to_chain w c (Some (app_align_head w c h))); [exact H|left; exact H].
    + (* PPoll *)
      assert (Hb : (match s_cur s with Some b => b | None => h end) mod stp c = 0).
      { unfold AI in HA. destruct (s_cur s) as [b|]; [exact HA|].
        destruct HA as [Hb|[Hb|Hb]]; try congruence. rewrite (stp_btc c Hb). apply Z.mod_1_r. }
      destruct (ready c h _); cbn; (split; [exact Hb|intros o []]).
  - (* Handler *)
    destruct (s_pc s) eqn:Hp; try exact Hstay.
    destruct (s_cur s) as [b|] eqn:Hc; [|exact Hstay]. cbn.
    unfold AI in HA. rewrite Hc in HA. split; [exact HA|].
    intros o [<-|[]]. cbn. split; [exact HA|reflexivity].
  - (* Store *)
    destruct (s_pc s) eqn:Hp; try exact Hstay.
    destruct (s_cur s) as [b|] eqn:Hc; [|exact Hstay]. cbn.
    unfold AI in HA. rewrite Hc in HA. split; [|intros o [<-|[]]; exact I].
    unfold AI; cbn. pose proof (stp_pos c Hwf) as Hst.
    replace (b + stp c) with (b + 1 * stp c) by lia. rewrite Z.mod_add by lia. exact HA.
Qed.

Lemma run_from_cells w c s evs :
  wf_cfg c = true -> aligned_setup w c -> AI c s ->
  forall o, In o (run_from w c s evs) -> out_cellok c o.
Proof.
  intros Hwf Hs. revert s; induction evs as [|e r IH]; intros s HA o Ho; cbn in Ho; [contradiction|].
  destruct (step_AI w c s e Hwf Hs HA) as [HA' Hout].
  destruct (step w c s e) as [s' os]. cbn in *.
  apply in_app_or in Ho as [Ho|Ho]; [apply Hout; exact Ho|eapply IH; eauto].
Qed.

Lemma ranges_are_cells w c stored0 evs k s e ok :
  wf_cfg c = true -> aligned_setup w c ->
  In (OHandle k s e ok) (run w c stored0 evs) -> s mod stp c = 0 /\ e = s + stp c - 1.
Proof.
  intros Hwf Hs Hin. unfold run in Hin. apply in_app_or in Hin as [Hin|Hin].
  - apply reboot_outs in Hin as [cur Heq]. discriminate.
  - apply (run_from_cells w c _ evs Hwf Hs (reboot_AI w c stored0 Hwf Hs) _ Hin).
Qed.

(* what the cells theorem needs of the wiring: every start value is aligned, and to the block interval *)
Lemma wiring_aligned_spec w : wiring_aligned w = true <->
  (reads_store w = true /\ head_if_nil w = true /\ align_arg w = AlignInterval /\ aligns_known w = true
   /\ aligns_head w = true /\ chain_arg w = ChainStart /\ steps_by_interval w = true).
Proof.
  split.
  - intros H. destruct (aligned_fields w H) as (A & B & C & D & E & F). repeat split; try assumption.
    unfold wiring_aligned in H. apply andb_true_iff in H as [_ H]. exact H.
  - intros (A & B & C & D & E & F & G). unfold wiring_aligned, aligns_to_interval, passes_start_to_chain.
    rewrite A, B, C, D, E, F, G. reflexivity.
Qed.

(* app.Run as it would be with the start block aligned to the confirmation depth (the helper's
   parameter is called blockConfirmations) while the listener steps by the block interval *)
Definition conf_aligned_wiring : wiring :=
  {| reads_store := true; head_if_nil := true; align_arg := AlignConfirmations; aligns_known := true;
     aligns_head := true; chain_arg := ChainStart; steps_by_interval := true |}.

(* ... scans ranges that are no cells: interval 5, 3 confirmations, configured start 103 -> [102, 106] *)
Lemma conf_aligned_refuted :
  exists c stored0 evs k s e ok,
    wf_cfg c = true /\ In (OHandle k s e ok) (run conf_aligned_wiring c stored0 evs) /\ s mod stp c <> 0.
Proof.
  exists {| kd := Evm; ival := 5; conf := 3; nh := 1; cstart := 103; latest := false; fresh := false |},
         None, [Head 200; Handler true], 0%nat, 102, 106, true.
  split; [reflexivity|]. split; [vm_compute; auto|vm_compute; discriminate].
Qed.

(* the same when only a start block known beforehand is aligned and the head substituted for nil is not *)
Definition known_only_wiring : wiring :=
  {| reads_store := true; head_if_nil := true; align_arg := AlignInterval; aligns_known := true;
     aligns_head := false; chain_arg := ChainStart; steps_by_interval := true |}.

Lemma known_only_refuted :
  exists c stored0 evs k s e ok,
    wf_cfg c = true /\ In (OHandle k s e ok) (run known_only_wiring c stored0 evs) /\ s mod stp c <> 0.
Proof.
  exists {| kd := Evm; ival := 5; conf := 3; nh := 1; cstart := 0; latest := true; fresh := false |},
         None, [Head 103; Head 200; Handler true], 0%nat, 103, 107, true.
  split; [reflexivity|]. split; [vm_compute; auto|vm_compute; discriminate].
Qed.

Lemma cell_unique i s b : 1 <= i -> s mod i = 0 -> s <= b <= s + i - 1 -> s = align b i.
Proof.
  intros Hi Hm Hb. unfold align.
  assert (Hs : s = i * (s / i)) by (pose proof (Z.div_mod s i ltac:(lia)); lia).
  assert (Hr : b mod i = b - s).
  { symmetry. apply (Z.mod_unique_pos b i (s / i) (b - s)); lia. }
  lia.
Qed.

(* two relayers, any histories: the ranges through which they see block b coincide, hence the ids *)
Lemma same_block_same_range w1 w2 c1 c2 st1 st2 evs1 evs2 k1 s1 e1 ok1 k2 s2 e2 ok2 b :
  wf_cfg c1 = true -> wf_cfg c2 = true -> aligned_setup w1 c1 -> aligned_setup w2 c2 ->
  stp c1 = stp c2 ->
  In (OHandle k1 s1 e1 ok1) (run w1 c1 st1 evs1) -> In (OHandle k2 s2 e2 ok2) (run w2 c2 st2 evs2) ->
  s1 <= b <= e1 -> s2 <= b <= e2 ->
  s1 = s2 /\ e1 = e2.
Proof.
  intros Hwf1 Hwf2 Hs1 Hs2 Hst H1 H2 Hb1 Hb2.
  destruct (ranges_are_cells _ _ _ _ _ _ _ _ Hwf1 Hs1 H1) as [Hm1 He1].
  destruct (ranges_are_cells _ _ _ _ _ _ _ _ Hwf2 Hs2 H2) as [Hm2 He2].
  pose proof (stp_pos c1 Hwf1) as Hp.
  assert (s1 = align b (stp c1)) by (apply cell_unique; lia).
  assert (s2 = align b (stp c1)) by (rewrite Hst in *; apply cell_unique; lia).
  lia.
Qed.

Lemma same_deposit_same_ids w1 w2 c1 c2 st1 st2 evs1 evs2 k1 s1 e1 ok1 k2 s2 e2 ok2 b src dst batch rid H tx :
  wf_cfg c1 = true -> wf_cfg c2 = true -> aligned_setup w1 c1 -> aligned_setup w2 c2 ->
  stp c1 = stp c2 ->
  In (OHandle k1 s1 e1 ok1) (run w1 c1 st1 evs1) -> In (OHandle k2 s2 e2 ok2) (run w2 c2 st2 evs2) ->
  s1 <= b <= e1 -> s2 <= b <= e2 ->
  message_id src dst s1 e1 = message_id src dst s2 e2
  /\ session_id_evm (message_id src dst s1 e1) batch = session_id_evm (message_id src dst s2 e2) batch
  /\ session_id_sub (message_id src dst s1 e1) = session_id_sub (message_id src dst s2 e2)
  /\ btc_message_id src dst s1 = btc_message_id src dst s2
  /\ session_id_btc (btc_message_id src dst s1) rid = session_id_btc (btc_message_id src dst s2) rid
  /\ btc_nonce H s1 tx = btc_nonce H s2 tx.
Proof.
  intros Hwf1 Hwf2 Hs1 Hs2 Hst H1 H2 Hb1 Hb2.
  destruct (same_block_same_range _ _ _ _ _ _ _ _ _ _ _ _ _ _ _ _ b Hwf1 Hwf2 Hs1 Hs2 Hst H1 H2 Hb1 Hb2) as [-> ->].
  repeat split; reflexivity.
Qed.

(* Bitcoin: the range is the block itself *)
Lemma btc_range_is_block w c stored0 evs k s e ok :
  wf_cfg c = true -> kd c = Btc -> In (OHandle k s e ok) (run w c stored0 evs) -> e = s.
Proof.
  intros Hwf Hb Hin.
  destruct (ranges_are_cells w c stored0 evs k s e ok Hwf (or_introl Hb) Hin) as [_ He].
  rewrite (stp_btc c Hb) in He. lia.
Qed.

(* ---------------------------------------------------------------------------------------------
   Part B: grouping by destination depends on the deposits (in log order) only. *)

Section GroupProofs.
  Context {M : Type}.
  Variable dest : M -> N.

  Lemma lookup_upd d g m :
    lookup d (upd dest g m) = if N.eqb (dest m) d then lookup d g ++ [m] else lookup d g.
  Proof.
    induction g as [|[d' ms] r IH]; cbn.
    - destruct (N.eqb (dest m) d); reflexivity.
    - destruct (N.eqb_spec d' (dest m)) as [->|Hne]; cbn.
      + destruct (N.eqb (dest m) d); reflexivity.
      + destruct (N.eqb_spec d' d) as [->|Hne'].
        * destruct (N.eqb_spec (dest m) d); [congruence|reflexivity].
        * exact IH.
  Qed.

  Lemma lookup_fold d msgs g :
    lookup d (fold_left (upd dest) msgs g) = lookup d g ++ for_dest dest d msgs.
  Proof.
    revert g; induction msgs as [|m r IH]; intros g; cbn.
    - rewrite app_nil_r; reflexivity.
    - rewrite IH, lookup_upd. destruct (N.eqb (dest m) d); [rewrite <- app_assoc|]; reflexivity.
  Qed.

  Lemma grouping_order_free d msgs : lookup d (group dest msgs) = for_dest dest d msgs.
  Proof. unfold group. rewrite lookup_fold. reflexivity. Qed.
End GroupProofs.

(* ---------------------------------------------------------------------------------------------
   Part C: the credited resource does not depend on the iteration order once it is sorted. *)

Section CreditProofs.
  Context {R T : Type}.
  Variable key : R -> N.
  Variable decode : T -> R -> outcome.

  Definition klt (x y : R) : Prop := (key x < key y)%N.

  Lemma insert_perm r l : Permutation (insert key r l) (r :: l).
  Proof.
    induction l as [|x t IH]; cbn; [reflexivity|].
    destruct (key r <=? key x)%N; [reflexivity|].
    rewrite IH. apply perm_swap.
  Qed.

  Lemma sort_perm l : Permutation (sort_by_key key l) l.
  Proof.
    induction l as [|x t IH]; cbn; [reflexivity|].
    rewrite insert_perm. apply perm_skip. exact IH.
  Qed.

  Lemma insert_sorted r l :
    StronglySorted klt l -> (forall x, In x l -> key x <> key r) -> StronglySorted klt (insert key r l).
  Proof.
    induction l as [|x t IH]; intros Hs Hne; cbn.
    - constructor; constructor.
    - apply StronglySorted_inv in Hs as [Hst Hall].
      destruct (N.leb_spec (key r) (key x)) as [Hle|Hgt].
      + assert (Hrx : klt r x) by (unfold klt; specialize (Hne x (or_introl eq_refl)); lia).
        constructor; [constructor; assumption|].
        constructor; [exact Hrx|]. rewrite Forall_forall in *. intros y Hy.
        specialize (Hall y Hy). unfold klt in *. lia.
      + constructor.
        * apply IH; [exact Hst|]. intros y Hy. apply Hne. right; exact Hy.
        * rewrite Forall_forall in *. intros y Hy.
          apply (Permutation_in _ (insert_perm r t)) in Hy. destruct Hy as [<-|Hy].
          -- unfold klt. lia.
          -- apply Hall; exact Hy.
  Qed.

  Lemma sort_sorted l : NoDup (map key l) -> StronglySorted klt (sort_by_key key l).
  Proof.
    induction l as [|x t IH]; intros Hnd; cbn; [constructor|].
    inversion Hnd as [|? ? Hnin Hnd']; subst.
    apply insert_sorted; [apply IH; exact Hnd'|].
    intros y Hy Heq. apply Hnin. rewrite <- Heq. apply in_map.
    apply (Permutation_in _ (sort_perm t)). exact Hy.
  Qed.

  Lemma sorted_perm_eq l1 l2 :
    StronglySorted klt l1 -> StronglySorted klt l2 -> Permutation l1 l2 -> l1 = l2.
  Proof.
    revert l2; induction l1 as [|a t1 IH]; intros l2 Hs1 Hs2 Hp.
    - apply Permutation_nil in Hp. subst; reflexivity.
    - destruct l2 as [|b t2]; [apply Permutation_sym, Permutation_nil in Hp; discriminate|].
      apply StronglySorted_inv in Hs1 as [Hst1 Hall1]. apply StronglySorted_inv in Hs2 as [Hst2 Hall2].
      rewrite Forall_forall in Hall1, Hall2.
      assert (Hab : a = b).
      { pose proof (Permutation_in a Hp (or_introl eq_refl)) as Ha.
        pose proof (Permutation_in b (Permutation_sym Hp) (or_introl eq_refl)) as Hb.
        destruct Ha as [Ha|Ha]; [symmetry; exact Ha|].
        destruct Hb as [Hb|Hb]; [exact Hb|].
        specialize (Hall2 a Ha). specialize (Hall1 b Hb). unfold klt in *. lia. }
      subst b. f_equal. apply IH; try assumption. eapply Permutation_cons_inv; exact Hp.
  Qed.

  Lemma credit_order_free o o' tx :
    NoDup (map key o) -> Permutation o o' ->
    credit_sorted key decode o tx = credit_sorted key decode o' tx.
  Proof.
    intros Hnd Hp. unfold credit_sorted. f_equal.
    apply sorted_perm_eq.
    - apply sort_sorted; exact Hnd.
    - apply sort_sorted. eapply Permutation_NoDup; [apply Permutation_map; exact Hp|exact Hnd].
    - rewrite sort_perm, Hp. symmetry. apply sort_perm.
  Qed.

  (* the unsorted loop already is order-free for transactions that concern at most one resource *)
  Lemma credit_all_no l tx : (forall x, In x l -> decode tx x = DNo) -> credit decode l tx = None.
  Proof.
    induction l as [|x t IH]; intros Hno; cbn; [reflexivity|].
    rewrite (Hno x (or_introl eq_refl)). apply IH. intros y Hy. apply Hno. right; exact Hy.
  Qed.

  Lemma credit_single_payer o tx r :
    In r o -> NoDup o -> (forall x, In x o -> x <> r -> decode tx x = DNo) ->
    credit decode o tx = match decode tx r with DYes => Some r | _ => None end.
  Proof.
    induction o as [|x t IH]; intros Hin Hnd Hothers; [contradiction|]. cbn.
    inversion Hnd as [|? ? Hnin Hnd']; subst.
    destruct Hin as [->|Hin].
    - destruct (decode tx r) eqn:Hd; try reflexivity.
      apply credit_all_no. intros y Hy. apply Hothers; [right; exact Hy|].
      intros ->. contradiction.
    - assert (Hxr : x <> r) by (intros ->; contradiction).
      rewrite (Hothers x (or_introl eq_refl) Hxr).
      apply IH; [exact Hin|exact Hnd'|]. intros z Hz Hne. apply Hothers; [right; exact Hz|exact Hne].
  Qed.
End CreditProofs.

(* the old loop (map order) is order-dependent: a transaction paying resources 1 and 2 *)
Lemma credit_order_free_refuted :
  exists (o o' : list N) (tx : list N),
    Permutation o o' /\ NoDup o /\ credit pays_decode o tx <> credit pays_decode o' tx.
Proof.
  exists [1%N; 2%N], [2%N; 1%N], [1%N; 2%N]. split; [apply perm_swap|]. split.
  - constructor; [intros [H|[]]; discriminate|]. constructor; [intros []|constructor].
  - vm_compute. discriminate.
Qed.

Lemma is_cell_spec i s e : is_cell i s e = true <-> (s mod i = 0 /\ e = s + i - 1).
Proof.
  unfold is_cell. rewrite andb_true_iff, !Z.eqb_eq. tauto.
Qed.

Lemma cell_of_is_cell i b : 1 <= i ->
  is_cell i (fst (cell_of i b)) (snd (cell_of i b)) = true /\ fst (cell_of i b) <= b <= snd (cell_of i b).
Proof.
  intros Hi. unfold cell_of; cbn. split.
  - apply is_cell_spec. split; [apply align_divides; exact Hi|reflexivity].
  - pose proof (align_le b i Hi). pose proof (align_gt b i Hi). lia.
Qed.

(* ---------------------------------------------------------------------------------------------
   Part E: EVM signing sessions - one per non-empty batch, named by message id and position only. *)

From Coq Require Import DecimalString DecimalPos DecimalN.
From SygmaV Require Lib.C14_Dec.

Lemma nl_eqb_eq a b : nl_eqb a b = true <-> a = b.
Proof.
  revert b; induction a as [|x a IH]; intros [|y b]; cbn; split; intros H; try congruence; try reflexivity.
  - apply andb_true_iff in H as [H1 H2]. apply N.eqb_eq in H1. apply IH in H2. congruence.
  - inversion H; subst. apply andb_true_iff; split; [apply N.eqb_refl | apply IH; reflexivity].
Qed.

Lemma sl_eqb_eq a b : sl_eqb a b = true <-> a = b.
Proof.
  revert b; induction a as [|x a IH]; intros [|y b]; cbn; split; intros H; try congruence; try reflexivity.
  - apply andb_true_iff in H as [H1 H2]. apply String.eqb_eq in H1. apply IH in H2. congruence.
  - inversion H; subst. apply andb_true_iff; split; [apply String.eqb_refl | apply IH; reflexivity].
Qed.

Lemma nll_eqb_eq a b : nll_eqb a b = true <-> a = b.
Proof.
  revert b; induction a as [|x a IH]; intros [|y b]; cbn; split; intros H; try congruence; try reflexivity.
  - apply andb_true_iff in H as [H1 H2]. apply nl_eqb_eq in H1. apply IH in H2. congruence.
  - inversion H; subst. apply andb_true_iff; split; [apply nl_eqb_eq; reflexivity | apply IH; reflexivity].
Qed.

Lemma sess_eqb_eq a b : sess_eqb a b = true <-> a = b.
Proof.
  revert b; induction a as [|[m s] a IH]; intros [|[m' s'] b]; cbn; split; intros H; try congruence; try reflexivity.
  - apply andb_true_iff in H as [H12 H3]. apply andb_true_iff in H12 as [H1 H2].
    apply nl_eqb_eq in H1. apply sl_eqb_eq in H2. apply IH in H3. congruence.
  - inversion H; subst. rewrite !andb_true_iff; repeat split;
      [apply nl_eqb_eq | apply sl_eqb_eq | apply IH]; reflexivity.
Qed.

(* the judge accepts exactly the observations that equal the specification *)
Lemma sess_ok_sound mid bs runs hashed :
  sess_ok mid bs runs hashed = true ->
  (forall r, In r runs -> r = evm_sessions mid bs) /\ (forall h, In h hashed -> h = evm_hashed bs).
Proof.
  unfold sess_ok; intros H. apply andb_true_iff in H as [H1 H2].
  rewrite forallb_forall in H1, H2. split.
  - intros r Hr. apply sess_eqb_eq, H1, Hr.
  - intros h Hh. apply nll_eqb_eq, H2, Hh.
Qed.

(* ... hence any two observed schedules show the same sessions *)
Lemma sess_ok_schedule_free mid bs runs hashed r1 r2 :
  sess_ok mid bs runs hashed = true -> In r1 runs -> In r2 runs -> r1 = r2.
Proof.
  intros H H1 H2. destruct (sess_ok_sound _ _ _ _ H) as [A _].
  rewrite (A _ H1), (A _ H2). reflexivity.
Qed.

Lemma sess_ok_model mid bs n m :
  sess_ok mid bs (repeat (evm_sessions mid bs) n) (repeat (evm_hashed bs) m) = true.
Proof.
  unfold sess_ok. apply andb_true_iff; split; apply forallb_forall; intros x Hx;
    apply repeat_spec in Hx; subst; [apply sess_eqb_eq | apply nll_eqb_eq]; reflexivity.
Qed.

(* the session of a batch is a function of the message id and the batch's position only *)
Lemma evm_sessions_from_in mid pos bs ms sids :
  In (ms, sids) (evm_sessions_from mid pos bs) <->
  exists k, nth_error bs k = Some ms /\ ms <> [] /\ sids = [evm_sid mid (pos + N.of_nat k)%N].
Proof.
  revert pos; induction bs as [|b bs IH]; intros pos; cbn [evm_sessions_from].
  - split; [intros [] | intros [k [Hk _]]; destruct k; discriminate].
  - assert (Hrest : In (ms, sids) (evm_sessions_from mid (N.succ pos) bs) <->
                    exists k, nth_error (b :: bs) (S k) = Some ms /\ ms <> [] /\
                              sids = [evm_sid mid (pos + N.of_nat (S k))%N]).
    { rewrite IH. split; intros [k [A [B C]]]; exists k; cbn [nth_error] in *; repeat split; auto;
        subst sids; do 2 f_equal; lia. }
    destruct b as [|x b].
    + rewrite Hrest. split.
      * intros [k H]. exists (S k). exact H.
      * intros [[|k] [A [B C]]]; [cbn in A; inversion A; subst; congruence | exists k; auto].
    + cbn [In]. rewrite Hrest. split.
      * intros [H | [k H]].
        -- inversion H; subst. exists 0%nat. cbn. repeat split; [discriminate | do 2 f_equal; lia].
        -- exists (S k). exact H.
      * intros [[|k] [A [B C]]].
        -- left. cbn in A. inversion A; subst. do 3 f_equal. lia.
        -- right. exists k. auto.
Qed.

Lemma evm_sessions_position mid bs ms sids :
  In (ms, sids) (evm_sessions mid bs) <->
  exists k, nth_error bs k = Some ms /\ ms <> [] /\ sids = [evm_sid mid (N.of_nat k)].
Proof. unfold evm_sessions. rewrite evm_sessions_from_in. reflexivity. Qed.

(* distinct positions give distinct session ids *)
Lemma evm_sid_inj mid i j : evm_sid mid i = evm_sid mid j -> i = j.
Proof.
  unfold evm_sid; intros H.
  apply C14_Dec.append_inj_l in H. unfold dash in H. cbn in H. inversion H as [H'].
  apply C14_Dec.dec_inj. exact H'.
Qed.

(* evm_sid is the session id of the identifier theorems (C19_same_deposit_same_ids) *)
Lemma evm_sid_is_session_id mid k : evm_sid mid k = session_id_evm mid (Z.of_N k).
Proof.
  unfold evm_sid, session_id_evm. do 2 f_equal.
  unfold C14_Dec.dec, dec. destruct k as [|p]; [reflexivity|].
  cbn [Z.of_N Z.to_int N.to_uint NilZero.string_of_int NilZero.string_of_uint].
  pose proof (DecimalPos.Unsigned.to_uint_nonnil p) as Hn.
  destruct (Pos.to_uint p); [congruence | reflexivity..].
Qed.

(* what is hashed: every non-empty batch, nothing else *)
Lemma evm_hashed_in bs ms : In ms (evm_hashed bs) <-> In ms bs /\ ms <> [].
Proof.
  unfold evm_hashed. rewrite filter_In. split; intros [A B]; split; auto; destruct ms; congruence.
Qed.

(* ---------------------------------------------------------------------------------------------
   Part F: Bitcoin executor - one group per resource: that resource's proposals in delivery order. *)

Section GroupMore.
  Context {M : Type}.
  Variable dest : M -> N.

  Lemma upd_keys (g : list (N * list M)) m k : In k (map fst (upd dest g m)) -> In k (map fst g) \/ k = dest m.
  Proof.
    induction g as [|[d ms] r IH]; cbn.
    - intros [H|[]]; right; congruence.
    - destruct (N.eqb d (dest m)); cbn; intros [H|H]; auto.
      destruct (IH H); auto.
  Qed.

  Definition ginv (g : list (N * list M)) : Prop :=
    NoDup (map fst g) /\ Forall (fun p => snd p <> []) g.

  Lemma upd_ginv g m : ginv g -> ginv (upd dest g m).
  Proof.
    unfold ginv. induction g as [|[d ms] r IH]; cbn; intros [Hn Hf].
    - split; [constructor; [intros []|constructor] | constructor; [cbn; discriminate|constructor]].
    - inversion Hn as [|? ? Hnotin Hn']; subst. inversion Hf as [|? ? Hne Hf']; subst.
      destruct (N.eqb_spec d (dest m)) as [->|Hd]; cbn.
      + split; [constructor; assumption|]. constructor; [cbn; destruct ms; discriminate | assumption].
      + destruct (IH (conj Hn' Hf')) as [A B]. split.
        * constructor; [|exact A]. intros Hin. apply upd_keys in Hin as [Hin|Hin]; [auto|congruence].
        * constructor; assumption.
  Qed.

  Lemma group_ginv msgs : ginv (group dest msgs).
  Proof.
    unfold group. assert (H0 : ginv ([] : list (N * list M))) by (split; constructor).
    revert H0. generalize ([] : list (N * list M)) as g.
    induction msgs as [|m r IH]; intros g Hg; cbn; [exact Hg|]. apply IH, upd_ginv, Hg.
  Qed.

  Lemma lookup_in (g : list (N * list M)) d ms : NoDup (map fst g) -> In (d, ms) g -> lookup d g = ms.
  Proof.
    induction g as [|[d' ms'] r IH]; cbn; intros Hn H; [contradiction|]. destruct H as [H|H].
    - inversion H; subst. rewrite N.eqb_refl. reflexivity.
    - inversion Hn as [|? ? Hnotin Hn']; subst.
      destruct (N.eqb_spec d' d) as [->|Hd].
      + exfalso. apply Hnotin. apply (in_map fst) in H. exact H.
      + apply IH; assumption.
  Qed.

  (* every group of the map is exactly its key's messages, in order, and is not empty; keys distinct *)
  Lemma group_members d ms msgs :
    In (d, ms) (group dest msgs) -> ms = for_dest dest d msgs /\ ms <> [].
  Proof.
    intros Hin. destruct (group_ginv msgs) as [Hn Hf]. split.
    - rewrite <- (grouping_order_free dest d msgs). symmetry. apply lookup_in; assumption.
    - rewrite Forall_forall in Hf. apply (Hf _ Hin).
  Qed.

  Lemma group_keys_nodup msgs : NoDup (map fst (group dest msgs)).
  Proof. apply group_ginv. Qed.
End GroupMore.

Lemma bgroups_eqb_eq a b : bgroups_eqb a b = true <-> a = b.
Proof.
  revert b; induction a as [|[m r] a IH]; intros [|[m' r'] b]; cbn; split; intros H; try congruence; try reflexivity.
  - apply andb_true_iff in H as [H12 H3]. apply andb_true_iff in H12 as [H1 H2].
    apply nl_eqb_eq in H1. apply IH in H3. subst.
    destruct r as [x|], r' as [y|]; try discriminate; [apply N.eqb_eq in H2; subst|]; reflexivity.
  - inversion H; subst. rewrite !andb_true_iff; repeat split;
      [apply nl_eqb_eq; reflexivity | destruct r'; [apply N.eqb_refl|reflexivity] | apply IH; reflexivity].
Qed.

(* what every goroutine of the model works on: a resource r together with exactly r's proposals in
   delivery order; every resource at most once *)
Lemma bexec_spec_in props ms r :
  In (ms, r) (bexec_spec props) ->
  exists rid, r = Some rid /\ ms = map fst (for_dest (@snd N N) rid props) /\ ms <> [].
Proof.
  unfold bexec_spec. rewrite in_map_iff. intros [[d g] [Heq Hin]]. cbn in Heq. inversion Heq; subst.
  exists d. destruct (group_members _ _ _ _ Hin) as [A B]. split; [reflexivity|]. split.
  - rewrite A. reflexivity.
  - destruct g; [congruence | discriminate].
Qed.

Lemma bexec_spec_resources_distinct props :
  NoDup (map snd (bexec_spec props)).
Proof.
  unfold bexec_spec. rewrite map_map. cbn.
  pose proof (group_keys_nodup (@snd N N) props) as Hn.
  rewrite <- (map_map fst Some). apply FinFun.Injective_map_NoDup; [|exact Hn].
  intros x y Hxy. inversion Hxy. reflexivity.
Qed.

Lemma bexec_ok_sound props runs :
  bexec_ok props runs = true -> forall r, In r runs -> r = bexec_spec props.
Proof.
  unfold bexec_ok. rewrite forallb_forall. intros H r Hr. apply bgroups_eqb_eq, H, Hr.
Qed.

Lemma bexec_ok_model props n : bexec_ok props (repeat (bexec_spec props) n) = true.
Proof.
  unfold bexec_ok. apply forallb_forall. intros x Hx. apply repeat_spec in Hx. subst.
  apply bgroups_eqb_eq. reflexivity.
Qed.

(* ---------------------------------------------------------------------------------------------
   Part G: the executed-status look-ups of one relayer fail - the sessions it starts are those of its
   fault-free peers, or none. *)

Section LookupProofs.
  Context {A : Type}.

  Lemma pending_all_or_nothing (d : list (A * bool)) mask :
    pending_of (mark d mask) = None \/ pending_of (mark d mask) = pending_of (mark d []).
  Proof.
    revert mask; induction d as [|[a ex] r IH]; intros mask; [right; reflexivity|].
    destruct mask as [|f m]; [right; reflexivity|]. cbn [mark tl pending_of].
    destruct f; [left; reflexivity|].
    destruct (IH m) as [H|H]; rewrite H; [left; reflexivity|right; reflexivity].
  Qed.

  Lemma pending_clean (d : list (A * bool)) :
    pending_of (mark d []) = Some (map fst (filter (fun x => negb (snd x)) d)).
  Proof.
    induction d as [|[a ex] r IH]; [reflexivity|]. cbn [mark tl pending_of]. rewrite IH.
    destruct ex; reflexivity.
  Qed.

  (* a mask without a fault at any position of the delivery changes nothing *)
  Lemma pending_no_fault (d : list (A * bool)) mask :
    pending_of (mark d mask) <> None -> pending_of (mark d mask) = pending_of (mark d []).
  Proof. intros H. destruct (pending_all_or_nothing d mask); [contradiction|assumption]. Qed.
End LookupProofs.

Lemma evm_exec_all_or_nothing mid cap tg d mask :
  evm_exec mid cap tg (mark d mask) = [] \/ evm_exec mid cap tg (mark d mask) = evm_exec mid cap tg (mark d []).
Proof.
  unfold evm_exec. destruct (pending_all_or_nothing d mask) as [H|H]; rewrite H; [left|right]; reflexivity.
Qed.

Lemma sub_exec_all_or_nothing mid d mask :
  sub_exec mid (mark d mask) = [] \/ sub_exec mid (mark d mask) = sub_exec mid (mark d []).
Proof.
  unfold sub_exec. destruct (pending_all_or_nothing d mask) as [H|H]; rewrite H; [left|right]; reflexivity.
Qed.

Lemma btc_exec_all_or_nothing d mask :
  btc_exec (mark d mask) = [] \/ btc_exec (mark d mask) = btc_exec (mark d []).
Proof.
  unfold btc_exec. destruct (pending_all_or_nothing d mask) as [H|H]; rewrite H; [left|right]; reflexivity.
Qed.

(* the batches are consecutive segments of the pending proposals *)
Lemma evm_pack_from_concat cap tg ps done cur gas :
  List.concat (evm_pack_from cap tg ps done cur gas) = List.concat (rev done) ++ cur ++ map fst ps.
Proof.
  revert done cur gas; induction ps as [|p r IH]; intros done cur gas; cbn [evm_pack_from map].
  - cbn [rev]. rewrite concat_app. cbn. rewrite !app_nil_r. reflexivity.
  - destruct (cap <=? w64 (gas + evm_prop_gas tg p))%N; rewrite IH.
    + cbn [rev]. rewrite concat_app. cbn. rewrite app_nil_r, <- app_assoc. reflexivity.
    + rewrite <- app_assoc. reflexivity.
Qed.

Lemma evm_pack_concat cap tg ps : List.concat (evm_pack cap tg ps) = map fst ps.
Proof. unfold evm_pack. rewrite evm_pack_from_concat. reflexivity. Qed.

Lemma NoDup_map_filter {X Y : Type} (f : X -> Y) (p : X -> bool) l :
  NoDup (map f l) -> NoDup (map f (filter p l)).
Proof.
  induction l as [|x l IH]; cbn; intros H; [constructor|].
  inversion H as [|? ? Hn Hd]; subst. destruct (p x); cbn; [|apply IH; exact Hd].
  constructor; [|apply IH; exact Hd].
  intros Hin. apply Hn. apply in_map_iff in Hin as [y [Hy Hin]]. apply filter_In in Hin as [Hin _].
  rewrite <- Hy. apply in_map. exact Hin.
Qed.

Lemma nodup_concat_nth {X : Type} (l : list (list X)) i j a b n :
  NoDup (List.concat l) -> nth_error l i = Some a -> nth_error l j = Some b -> In n a -> In n b -> i = j.
Proof.
  revert i j; induction l as [|x l IH]; intros i j Hnd Hi Hj Ha Hb; [destruct i; discriminate|].
  cbn in Hnd.
  assert (Hsplit : NoDup x /\ NoDup (List.concat l) /\ forall y, In y x -> ~ In y (List.concat l)).
  { clear -Hnd. induction x as [|y x IHx]; cbn in *.
    - split; [constructor|]. split; [exact Hnd|]. intros y [].
    - inversion Hnd as [|? ? Hn Hd]; subst. destruct (IHx Hd) as (A & B & C).
      split; [constructor; [|exact A]; intros Hy; apply Hn; apply in_or_app; left; exact Hy|].
      split; [exact B|]. intros z [<-|Hz]; [intros Hz; apply Hn; apply in_or_app; right; exact Hz|apply C; exact Hz]. }
  destruct Hsplit as (_ & Hl & Hdisj).
  assert (Hin : forall k c, nth_error l k = Some c -> In n c -> In n (List.concat l)).
  { intros k c Hk Hc. apply in_concat. exists c. split; [eapply nth_error_In; exact Hk|exact Hc]. }
  destruct i as [|i], j as [|j]; cbn in Hi, Hj.
  - reflexivity.
  - inversion Hi; subst. exfalso. apply (Hdisj n Ha). eapply Hin; eauto.
  - inversion Hj; subst. exfalso. apply (Hdisj n Hb). eapply Hin; eauto.
  - f_equal. eapply IH; eauto.
Qed.

(* two relayers, whatever look-ups fail on either: a deposit that both sign is signed with the same
   co-members under the same session id *)
Lemma evm_exec_same_session mid cap tg d m1 m2 s1 s2 n :
  NoDup (map (fun x => fst (fst x)) d) ->
  In s1 (evm_exec mid cap tg (mark d m1)) -> In s2 (evm_exec mid cap tg (mark d m2)) ->
  In n (fst s1) -> In n (fst s2) -> s1 = s2.
Proof.
  intros Hnd H1 H2 Hn1 Hn2.
  assert (Hclean : forall m s, In s (evm_exec mid cap tg (mark d m)) -> In s (evm_exec mid cap tg (mark d []))).
  { intros m s Hs. destruct (evm_exec_all_or_nothing mid cap tg d m) as [H|H]; rewrite H in Hs; [contradiction|exact Hs]. }
  apply Hclean in H1. apply Hclean in H2. clear Hclean.
  unfold evm_exec in H1, H2. rewrite pending_clean in H1, H2.
  set (l := map fst (filter (fun x => negb (snd x)) d)) in *.
  assert (Hl : NoDup (List.concat (evm_pack cap tg l))).
  { rewrite evm_pack_concat. unfold l. rewrite map_map.
    apply (NoDup_map_filter (fun x => fst (fst x))). exact Hnd. }
  destruct s1 as [ms1 sid1], s2 as [ms2 sid2]. cbn in Hn1, Hn2.
  apply evm_sessions_position in H1 as (k1 & Hk1 & _ & ->).
  apply evm_sessions_position in H2 as (k2 & Hk2 & _ & ->).
  assert (k1 = k2) by (eapply nodup_concat_nth; eauto). subst k2.
  rewrite Hk1 in Hk2. inversion Hk2; subst. reflexivity.
Qed.

Lemma sub_exec_same_session mid d m1 m2 s1 s2 :
  In s1 (sub_exec mid (mark d m1)) -> In s2 (sub_exec mid (mark d m2)) -> s1 = s2.
Proof.
  intros H1 H2.
  assert (Hclean : forall m s, In s (sub_exec mid (mark d m)) -> In s (sub_exec mid (mark d []))).
  { intros m s Hs. destruct (sub_exec_all_or_nothing mid d m) as [H|H]; rewrite H in Hs; [contradiction|exact Hs]. }
  apply Hclean in H1. apply Hclean in H2. unfold sub_exec in H1, H2.
  destruct (pending_of (mark d [])) as [[|x l]|]; try contradiction.
  destruct H1 as [<-|[]]. destruct H2 as [<-|[]]. reflexivity.
Qed.

Lemma btc_exec_same_group d m1 m2 g1 g2 n :
  NoDup (map (fun x => fst (fst x)) d) ->
  In g1 (btc_exec (mark d m1)) -> In g2 (btc_exec (mark d m2)) ->
  In n (fst g1) -> In n (fst g2) -> g1 = g2.
Proof.
  intros Hnd H1 H2 Hn1 Hn2.
  assert (Hclean : forall m s, In s (btc_exec (mark d m)) -> In s (btc_exec (mark d []))).
  { intros m s Hs. destruct (btc_exec_all_or_nothing d m) as [H|H]; rewrite H in Hs; [contradiction|exact Hs]. }
  apply Hclean in H1. apply Hclean in H2. clear Hclean.
  unfold btc_exec in H1, H2. rewrite pending_clean in H1, H2.
  set (l := map fst (filter (fun x => negb (snd x)) d)) in *.
  assert (Hl : NoDup (map fst l)).
  { unfold l. rewrite map_map. apply (NoDup_map_filter (fun x => fst (fst x))). exact Hnd. }
  destruct g1 as [ms1 r1], g2 as [ms2 r2]. cbn in Hn1, Hn2.
  apply bexec_spec_in in H1 as (rid1 & -> & -> & _). apply bexec_spec_in in H2 as (rid2 & -> & -> & _).
  assert (Hr : forall rid, In n (map fst (for_dest (@snd N N) rid l)) -> In (n, rid) l).
  { intros rid Hin. apply in_map_iff in Hin as [[n' r'] [Hf Hin]]. cbn in Hf. subst n'.
    unfold for_dest in Hin. apply filter_In in Hin as [Hin Hr]. cbn in Hr. apply N.eqb_eq in Hr. subst r'. exact Hin. }
  apply Hr in Hn1. apply Hr in Hn2.
  assert (rid1 = rid2).
  { clear -Hl Hn1 Hn2. induction l as [|[a b] l IH]; [contradiction|]. cbn in Hl.
    inversion Hl as [|? ? Hnotin Hl']; subst.
    destruct Hn1 as [H1|H1], Hn2 as [H2|H2].
    - congruence.
    - inversion H1; subst. exfalso. apply Hnotin. apply (in_map fst) in H2. exact H2.
    - inversion H2; subst. exfalso. apply Hnotin. apply (in_map fst) in H1. exact H1.
    - apply IH; assumption. }
  subst. reflexivity.
Qed.

Lemma sess1_eqb_eq a b : sess1_eqb a b = true <-> a = b.
Proof.
  unfold sess1_eqb. destruct a as [m s], b as [m' s']. cbn. rewrite andb_true_iff, nl_eqb_eq, sl_eqb_eq.
  split; [intros [-> ->]; reflexivity|intros H; inversion H; auto].
Qed.

Lemma bgroup1_eqb_eq a b : bgroup1_eqb a b = true <-> a = b.
Proof.
  unfold bgroup1_eqb. destruct a as [m r], b as [m' r']. cbn. rewrite andb_true_iff, nl_eqb_eq. split.
  - intros [-> H]. destruct r, r'; try discriminate; [apply N.eqb_eq in H; subst|]; reflexivity.
  - intros H; inversion H; subst. split; [reflexivity|]. destruct r'; [apply N.eqb_refl|reflexivity].
Qed.

Lemma faulty_ok_sound {X : Type} (eqb : X -> X -> bool) ref runs :
  (forall a b, eqb a b = true -> a = b) ->
  faulty_ok eqb ref runs = true -> forall run s, In run runs -> In s run -> In s ref.
Proof.
  intros Heq H run s Hrun Hs. unfold faulty_ok in H. rewrite forallb_forall in H.
  specialize (H run Hrun). rewrite forallb_forall in H. specialize (H s Hs).
  apply existsb_exists in H as [x [Hx Hxs]]. apply Heq in Hxs. subst. exact Hx.
Qed.

Lemma faulty_ok_all_or_nothing {X : Type} (eqb : X -> X -> bool) ref runs :
  (forall a, eqb a a = true) ->
  (forall run, In run runs -> run = [] \/ run = ref) -> faulty_ok eqb ref runs = true.
Proof.
  intros Hrefl H. unfold faulty_ok. apply forallb_forall. intros run Hrun.
  destruct (H run Hrun) as [->| ->]; [reflexivity|].
  apply forallb_forall. intros s Hs. apply existsb_exists. exists s. split; [exact Hs|apply Hrefl].
Qed.

(* the judge accepts the model, whatever look-ups fail on however many relayers *)
Lemma faulty_ok_evm_model mid cap tg d masks :
  faulty_ok sess1_eqb (evm_exec mid cap tg (mark d [])) (map (fun m => evm_exec mid cap tg (mark d m)) masks) = true.
Proof.
  apply faulty_ok_all_or_nothing; [intros a; apply sess1_eqb_eq; reflexivity|].
  intros run Hrun. apply in_map_iff in Hrun as [m [<- _]]. apply evm_exec_all_or_nothing.
Qed.

Lemma faulty_ok_sub_model mid d masks :
  faulty_ok sess1_eqb (sub_exec mid (mark d [])) (map (fun m => sub_exec mid (mark d m)) masks) = true.
Proof.
  apply faulty_ok_all_or_nothing; [intros a; apply sess1_eqb_eq; reflexivity|].
  intros run Hrun. apply in_map_iff in Hrun as [m [<- _]]. apply sub_exec_all_or_nothing.
Qed.

Lemma faulty_ok_btc_model d masks :
  faulty_ok bgroup1_eqb (btc_exec (mark d [])) (map (fun m => btc_exec (mark d m)) masks) = true.
Proof.
  apply faulty_ok_all_or_nothing; [intros a; apply bgroup1_eqb_eq; reflexivity|].
  intros run Hrun. apply in_map_iff in Hrun as [m [<- _]]. apply btc_exec_all_or_nothing.
Qed.

(* skipping the proposal whose look-up failed: the deposits after it move to other batches.  Four
   proposals of gas 100 under a cap of 250 (two per batch); the look-up of the second one fails:
   deposit 3 is signed under <mid>-0 with deposit 1 instead of under <mid>-1 with deposit 4. *)
Lemma skip_evm_exec_refuted :
  exists mid cap tg d mask,
    NoDup (map (fun x => fst (fst x)) d) /\
    faulty_ok sess1_eqb (evm_exec mid cap tg (mark d [])) [skip_evm_exec mid cap tg (mark d mask)] = false.
Proof.
  exists "1-2-100-104"%string, 250%N, 100%N,
    [((1%N, None), false); ((2%N, None), false); ((3%N, None), false); ((4%N, None), false)],
    [false; true].
  split; [|vm_compute; reflexivity].
  cbn. repeat constructor; cbn; intuition discriminate.
Qed.

(* ---- retry paths and repeated / concurrent runs ------------------------------------------------------- *)

Lemma filter_filter_and {A : Type} (f g : A -> bool) l :
  filter f (filter g l) = filter (fun x => g x && f x) l.
Proof.
  induction l as [|x l IH]; [reflexivity|]. cbn [filter].
  destruct (g x); cbn [filter andb]; [destruct (f x)|]; rewrite IH; reflexivity.
Qed.

(* the group sent for destination d: the live deposits for d of the first retry event, then those of the
   second, ... - event (log) order, and inside an event the order of its deposits *)
Lemma retry_grouping_event_order {M : Type} (dest : M -> N) (live : M -> bool) d (evs : list (list M)) :
  lookup d (group dest (filter live (List.concat evs))) = List.concat (map (fun ev => for_dest dest d (filter live ev)) evs).
Proof.
  rewrite grouping_order_free. unfold for_dest.
  rewrite <- concat_filter_map, <- concat_filter_map, map_map. reflexivity.
Qed.

Lemma retry_model_in src s e evs id d ns :
  In (id, d, ns) (retry_model src s e evs) ->
  id = retry_message_id src (Z.of_N d) s e /\
  ns = map rd_nonce (List.concat (map (fun ev => for_dest rd_dest d (filter rd_live ev)) evs)).
Proof.
  unfold retry_model. intros H. apply in_map_iff in H as [d' [E _]]. injection E as <- <- <-.
  split; [reflexivity|]. unfold retry_groups, retry_msgs. rewrite retry_grouping_event_order. reflexivity.
Qed.

Lemma list_eqb_eq {X : Type} (eqb : X -> X -> bool) (Heq : forall a b, eqb a b = true <-> a = b) a b :
  list_eqb eqb a b = true <-> a = b.
Proof.
  revert b; induction a as [|x a IH]; intros [|y b]; cbn; split; intros H; try congruence; try reflexivity.
  - apply andb_true_iff in H as [H1 H2]. apply Heq in H1. apply IH in H2. congruence.
  - inversion H; subst. apply andb_true_iff; split; [apply Heq | apply IH]; reflexivity.
Qed.

Lemma mg_eqb_eq a b : mg_eqb a b = true <-> a = b.
Proof.
  destruct a as [[i d] n], b as [[i' d'] n']. unfold mg_eqb. cbn [fst snd]. split; intros H.
  - apply andb_true_iff in H as [H12 H3]. apply andb_true_iff in H12 as [H1 H2].
    apply String.eqb_eq in H1. apply N.eqb_eq in H2. apply nl_eqb_eq in H3. congruence.
  - inversion H; subst. rewrite !andb_true_iff; repeat split;
      [apply String.eqb_refl | apply N.eqb_refl | apply nl_eqb_eq; reflexivity].
Qed.

Lemma mgl_eqb_eq a b : mgl_eqb a b = true <-> a = b.
Proof. apply list_eqb_eq, mg_eqb_eq. Qed.

Lemma mgll_eqb_eq a b : mgll_eqb a b = true <-> a = b.
Proof. apply list_eqb_eq, mgl_eqb_eq. Qed.

Lemma all_same_sound {X : Type} (eqb : X -> X -> bool) (Heq : forall a b, eqb a b = true <-> a = b) ref runs :
  all_same eqb ref runs = true -> forall r, In r runs -> r = ref.
Proof.
  unfold all_same. intros H r Hr. rewrite forallb_forall in H. symmetry. apply Heq, H, Hr.
Qed.

Lemma all_same_repeat {X : Type} (eqb : X -> X -> bool) (Heq : forall a b, eqb a b = true <-> a = b) ref n :
  all_same eqb ref (repeat ref n) = true.
Proof.
  unfold all_same. apply forallb_forall. intros x Hx. apply repeat_spec in Hx. subst. apply Heq. reflexivity.
Qed.

(* the judge of the repeated runs accepts only observations that do not differ between repetitions ... *)
Lemma reps_ok_sound runs r1 r2 : reps_ok runs = true -> In r1 runs -> In r2 runs -> r1 = r2.
Proof.
  destruct runs as [|r rest]; [intros _ []|]. cbn [reps_ok]. intros H H1 H2.
  assert (A : forall x, In x (r :: rest) -> x = r).
  { intros x [<-|Hx]; [reflexivity|]. exact (all_same_sound mgl_eqb mgl_eqb_eq r rest H x Hx). }
  rewrite (A _ H1), (A _ H2). reflexivity.
Qed.

(* ... and accepts the model (a function of the chain data) repeated any number of times *)
Lemma reps_ok_model m n : reps_ok (repeat m n) = true.
Proof. destruct n; [reflexivity|]. cbn [repeat reps_ok]. apply all_same_repeat, mgl_eqb_eq. Qed.

Lemma conc_ok_sound seq runs : conc_ok seq runs = true -> forall r, In r runs -> r = seq.
Proof. apply all_same_sound, mgll_eqb_eq. Qed.

Lemma conc_ok_model m n : conc_ok m (repeat m n) = true.
Proof. apply all_same_repeat, mgll_eqb_eq. Qed.
