(* C18 - proofs about Model/C18.v *)
From Coq Require Import List NArith Bool Arith Lia.
Import ListNotations.
From SygmaV Require Import Model.C18.

Lemma upd_same : forall s p v, upd s p v p = v.
Proof. intros. unfold upd. now rewrite N.eqb_refl. Qed.

Lemma upd_other : forall s p v q, N.eqb q p = false -> upd s p v q = s q.
Proof. intros s p v q H. unfold upd. now rewrite H. Qed.

Lemma run_cons : forall s o r, run s (o :: r) = run (apply s o) r.
Proof. reflexivity. Qed.

(* an operation that does not mutate t leaves t alone *)
Lemma apply_not_mut : forall t s o, mutates t o = false -> apply s o t = s t.
Proof.
  intros t s o H. destruct o as [p|p|p d|p|p|a b|p|p|p off d|]; cbn in *; try reflexivity; try discriminate;
    try (apply upd_other; now rewrite N.eqb_sym).
  destruct (N.eqb a b) eqn:Eab; [reflexivity|]. cbn in H. apply orb_false_elim in H as [Ha Hb].
  rewrite upd_other by now rewrite N.eqb_sym. apply upd_other. now rewrite N.eqb_sym.
Qed.

Lemma run_no_mut : forall t tr s, no_mut t tr = true -> run s tr t = s t.
Proof.
  intros t tr. induction tr as [|o r IH]; intros s H; [reflexivity|].
  cbn in H. apply andb_prop in H as [Ho Hr]. apply negb_true_iff in Ho.
  rewrite run_cons, IH by assumption. now apply apply_not_mut.
Qed.

Lemma crashed_no_mut : forall t s tr s', crashed s tr s' -> no_mut t tr = true -> s' t = s t.
Proof.
  intros t s tr s' Hc. induction Hc as [s tr|s p d r k Hk|s p off d r k Hk|s o r s' Hc IH]; intro H.
  - reflexivity.
  - cbn in H. apply andb_prop in H as [Ho _]. apply negb_true_iff in Ho. cbn in Ho.
    apply upd_other. now rewrite N.eqb_sym.
  - cbn in H. apply andb_prop in H as [Ho _]. apply negb_true_iff in Ho. cbn in Ho.
    apply upd_other. now rewrite N.eqb_sym.
  - cbn in H. apply andb_prop in H as [Ho Hr]. apply negb_true_iff in Ho.
    rewrite IH by assumption. now apply apply_not_mut.
Qed.

Theorem atomic_replace_safe : forall t tr, atomic_replace_shape t tr = true ->
  forall s, crash_safe s t tr.
Proof.
  intros t tr. induction tr as [|o r IH]; intros Hs s s' Hc.
  - inversion Hc; subst. now left.
  - cbn [atomic_replace_shape] in Hs. destruct (mutates t o) eqn:Em.
    + destruct o as [p|p|p d|p|p|a b|p|p|p off d|]; try discriminate.
      apply andb_prop in Hs as [Hs Hn]. apply andb_prop in Hs as [Hb Ha].
      inversion Hc; subst.
      * now left.
      * right. rewrite run_cons, (run_no_mut t r _ Hn). now apply (crashed_no_mut t _ r).
    + inversion Hc; subst.
      * now left.
      * left. cbn in Em. apply upd_other. now rewrite N.eqb_sym.
      * left. cbn in Em. apply upd_other. now rewrite N.eqb_sym.
      * rewrite run_cons. rewrite <- (apply_not_mut t s o Em). now apply IH.
Qed.

(* the executable enumeration only produces crash states *)
Lemma cuts_le : forall fuel k g len x, In x (cuts fuel k g len) -> (x < len)%nat.
Proof.
  induction fuel as [|f IH]; intros k g len x H; [destruct H|].
  cbn [cuts] in H. destruct (k <? len) eqn:E; [|destruct H].
  destruct H as [<-|H]; [now apply Nat.ltb_lt|eauto].
Qed.

Lemma crash_states_crashed : forall g tr s s', In s' (crash_states g s tr) -> crashed s tr s'.
Proof.
  intros g tr. induction tr as [|o r IH]; intros s s' H.
  - destruct H as [<-|[]]. constructor.
  - cbn [crash_states] in H. destruct H as [<-|H]; [constructor|].
    apply in_app_or in H as [H|H].
    + destruct o as [p|p|p d|p|p|a b|p|p|p off d|]; try destruct H.
      * apply in_map_iff in H as [k [<- Hk]]. apply crash_in_write.
        apply cuts_le in Hk. lia.
      * apply in_map_iff in H as [k [<- Hk]]. apply crash_in_write_at.
        apply cuts_le in Hk. lia.
    + apply crash_later. now apply IH.
Qed.

Lemma bytes_eqb_refl : forall a, bytes_eqb a a = true.
Proof. induction a as [|x a IH]; cbn; [reflexivity|]. now rewrite N.eqb_refl. Qed.

Lemma bytes_eqb_eq : forall a b, bytes_eqb a b = true -> a = b.
Proof.
  induction a as [|x a IH]; intros [|y b] H; try discriminate; [reflexivity|].
  cbn in H. apply andb_prop in H as [H1 H2]. apply N.eqb_eq in H1. subst. f_equal. auto.
Qed.

Lemma obytes_eqb_refl : forall a, obytes_eqb a a = true.
Proof. intros [a|]; cbn; [apply bytes_eqb_refl|reflexivity]. Qed.

Lemma obytes_eqb_eq : forall a b, obytes_eqb a b = true -> a = b.
Proof.
  intros [a|] [b|] H; try discriminate; [|reflexivity]. f_equal. now apply bytes_eqb_eq.
Qed.

Lemma crash_safe_b_of_crash_safe : forall g s t tr, crash_safe s t tr -> crash_safe_b g s t tr = true.
Proof.
  intros g s t tr H. unfold crash_safe_b. cbv zeta. apply forallb_forall. intros s' Hin.
  apply crash_states_crashed in Hin. destruct (H _ Hin) as [-> | ->];
    rewrite obytes_eqb_refl; [reflexivity|apply orb_true_r].
Qed.

Lemma shape_crash_safe_b : forall g s t tr, atomic_replace_shape t tr = true -> crash_safe_b g s t tr = true.
Proof. intros. apply crash_safe_b_of_crash_safe. now apply atomic_replace_safe. Qed.

(* the executable judge is sound for the states it enumerates *)
Lemma crash_safe_b_sound : forall g s t tr, crash_safe_b g s t tr = true ->
  forall s', In s' (crash_states g s tr) -> s' t = s t \/ s' t = run s tr t.
Proof.
  intros g s t tr H s' Hin. unfold crash_safe_b in H. cbv zeta in H. rewrite forallb_forall in H.
  specialize (H _ Hin). apply orb_prop in H as [H|H]; apply obytes_eqb_eq in H; auto.
Qed.

(* with g = 1 the enumeration is complete: every crash state is listed (up to the contents of t) *)
Lemma cuts_complete : forall fuel k len x, (k <= x < len)%nat -> (len - k <= fuel)%nat ->
  In x (cuts fuel k 1 len).
Proof.
  induction fuel as [|f IH]; intros k len x Hx Hf; [lia|].
  cbn [cuts]. destruct (k <? len) eqn:E; [|apply Nat.ltb_ge in E; lia].
  destruct (Nat.eq_dec k x) as [->|Hne]; [now left|]. right. apply IH; lia.
Qed.

Lemma crashed_in_states : forall s tr s', crashed s tr s' ->
  exists s'', In s'' (crash_states 1 s tr) /\ forall q, s'' q = s' q.
Proof.
  intros s tr s' Hc. induction Hc as [s tr|s p d r k Hk|s p off d r k Hk|s o r s' Hc [s'' [Hin Heq]]].
  - exists s. split; [destruct tr; now left|reflexivity].
  - destruct (Nat.eq_dec k (length d)) as [->|Hne].
    + exists (apply s (Write p d)). split.
      * cbn [crash_states]. right. apply in_or_app. right. destruct r; now left.
      * intro q. cbn. now rewrite firstn_all.
    + eexists. split; [|reflexivity].
      cbn [crash_states]. right. apply in_or_app. left. apply in_map_iff. exists k. split; [reflexivity|].
      unfold write_cuts. apply cuts_complete; lia.
  - destruct (Nat.eq_dec k (length d)) as [->|Hne].
    + exists (apply s (WriteAt p off d)). split.
      * cbn [crash_states]. right. apply in_or_app. right. destruct r; now left.
      * intro q. cbn. now rewrite firstn_all.
    + eexists. split; [|reflexivity].
      cbn [crash_states]. right. apply in_or_app. left. apply in_map_iff. exists k. split; [reflexivity|].
      unfold write_cuts. apply cuts_complete; lia.
  - exists s''. split; [|exact Heq]. cbn [crash_states]. right. apply in_or_app. now right.
Qed.

Theorem crash_safe_b_complete : forall s t tr, crash_safe_b 1 s t tr = true -> crash_safe s t tr.
Proof.
  intros s t tr H s' Hc. destruct (crashed_in_states _ _ _ Hc) as [s'' [Hin Heq]].
  rewrite <- Heq. now apply (crash_safe_b_sound 1 s t tr H).
Qed.

(* ---- the protocols ---------------------------------------------------------------------------- *)

Lemma store_new_shape : forall tmp t d, N.eqb tmp t = false -> atomic_replace_shape t (store_new tmp t d) = true.
Proof.
  intros tmp t d H. unfold store_new. cbn [atomic_replace_shape mutates]. rewrite H.
  cbn [negb andb orb]. rewrite N.eqb_refl. reflexivity.
Qed.

Lemma store_new_result : forall s tmp t d, N.eqb tmp t = false -> run s (store_new tmp t d) t = Some d.
Proof.
  intros s tmp t d H. unfold store_new, run. cbn. rewrite H.
  rewrite upd_other by (rewrite N.eqb_sym; exact H). rewrite upd_same.
  unfold content. rewrite !upd_same. reflexivity.
Qed.

Theorem store_new_atomic : forall s tmp t d s', N.eqb tmp t = false ->
  crashed s (store_new tmp t d) s' -> s' t = s t \/ s' t = Some d.
Proof.
  intros s tmp t d s' H Hc.
  rewrite <- (store_new_result s tmp t d H).
  exact (atomic_replace_safe t _ (store_new_shape tmp t d H) s s' Hc).
Qed.

Lemma store_new_failed_shape : forall tmp t d k, N.eqb tmp t = false ->
  atomic_replace_shape t (store_new_failed tmp d k) = true.
Proof. intros tmp t d k H. unfold store_new_failed. cbn. now rewrite H. Qed.

Lemma store_new_failed_result : forall s tmp t d k, N.eqb tmp t = false ->
  run s (store_new_failed tmp d k) t = s t.
Proof.
  intros s tmp t d k H. apply run_no_mut. unfold store_new_failed, no_mut. cbn. now rewrite H.
Qed.

Theorem store_new_failed_keeps_old : forall s tmp t d k s', N.eqb tmp t = false ->
  crashed s (store_new_failed tmp d k) s' -> s' t = s t.
Proof.
  intros s tmp t d k s' H Hc. apply (crashed_no_mut t _ _ _ Hc).
  unfold store_new_failed, no_mut. cbn. now rewrite H.
Qed.

(* the shape used before the repair is NOT safe: for every non-empty previous value and every
   non-empty new value a crash right after the truncating open leaves an empty file *)
Theorem trunc_in_place_unsafe : forall s t old d, s t = Some old -> old <> [] -> d <> [] ->
  exists s', crashed s (store_old t d) s' /\ s' t = Some [] /\ s' t <> s t /\ s' t <> run s (store_old t d) t.
Proof.
  intros s t old d Hs Ho Hd. exists (apply s (OpenTrunc t)). repeat split.
  - unfold store_old. apply crash_later. apply crash_here.
  - cbn. apply upd_same.
  - cbn. rewrite upd_same, Hs. intros [= E]. now apply Ho.
  - unfold store_old, run. cbn. rewrite !upd_same. unfold content. rewrite upd_same. cbn.
    intros [= E]. now apply Hd.
Qed.

Theorem trunc_in_place_unsafe_refuted :
  exists s t d, ~ crash_safe s t (store_old t d) /\
                atomic_replace_shape t (store_old t d) = false /\
                crash_safe_b 1 s t (store_old t d) = false.
Proof.
  exists (fun p => if N.eqb p 0 then Some [1%N] else None), 0%N, [2%N; 3%N].
  split; [|split; vm_compute; reflexivity].
  intro H.
  destruct (trunc_in_place_unsafe (fun p => if N.eqb p 0 then Some [1%N] else None) 0%N [1%N] [2%N; 3%N]
              eq_refl ltac:(discriminate) ltac:(discriminate)) as [s' [Hc [_ [H1 H2]]]].
  destruct (H _ Hc); contradiction.
Qed.

(* in-place writes also expose every strict prefix of the new value *)
Theorem trunc_in_place_prefixes : forall s t d k, (k <= length d)%nat ->
  exists s', crashed s (store_old t d) s' /\ s' t = Some (firstn k d).
Proof.
  intros s t d k Hk. eexists. split.
  - unfold store_old. apply crash_later. apply (crash_in_write _ t d _ k Hk).
  - rewrite upd_same. unfold content. cbn. now rewrite upd_same.
Qed.

(* ---- failed-write sweep ------------------------------------------------------------------------ *)

Lemma sweep_ok_model : forall len, sweep_ok (sweep_model len) = true.
Proof.
  intro len. unfold sweep_ok, sweep_model. rewrite forallb_app. cbn.
  rewrite andb_true_r. apply forallb_forall. intros o Ho. apply repeat_spec in Ho. now subst.
Qed.

Lemma sweep_ok_sound : forall obs, sweep_ok obs = true -> forall o, In o obs -> o = Old \/ o = New.
Proof.
  intros obs H o Ho. unfold sweep_ok in H. rewrite forallb_forall in H. specialize (H _ Ho).
  destruct o; auto. discriminate.
Qed.

(* the sweep model is what the protocol model yields: a write failing after k < |d| bytes leaves the
   old value, the complete write the new one *)
Theorem sweep_model_spec : forall s tmp t old d k, N.eqb tmp t = false -> s t = Some old -> old <> d ->
  (k <= length d)%nat ->
  nth_error (sweep_model (length d)) k =
  Some (classify old d (run s (if k <? length d then store_new_failed tmp d k else store_new tmp t d) t)).
Proof.
  intros s tmp t old d k H Hs Hne Hk. unfold sweep_model.
  destruct (k <? length d) eqn:E.
  - apply Nat.ltb_lt in E. rewrite nth_error_app1 by now rewrite repeat_length.
    rewrite store_new_failed_result, Hs by assumption. unfold classify. rewrite obytes_eqb_refl.
    apply nth_error_repeat. exact E.
  - apply Nat.ltb_ge in E. assert (k = length d) as -> by lia.
    rewrite nth_error_app2 by (rewrite repeat_length; lia). rewrite repeat_length, Nat.sub_diag.
    rewrite store_new_result by assumption. unfold classify. rewrite obytes_eqb_refl.
    destruct (obytes_eqb (Some d) (Some old)) eqn:E2; [|cbn in *; rewrite E2; reflexivity].
    apply obytes_eqb_eq in E2. injection E2 as E2. now subst.
Qed.
