(* C18 - proofs about histories of store operations (Model/C18.v, last section) *)
From Coq Require Import List NArith Bool Arith Lia.
Import ListNotations.
From SygmaV Require Import Model.C18 Proofs.C18.

Lemma store_fresh_shape : forall ex tmp t d, N.eqb tmp t = false ->
  atomic_replace_shape t (store_fresh ex tmp t d) = true.
Proof.
  intros ex tmp t d H. unfold store_fresh, open_fresh.
  destruct ex; cbn [atomic_replace_shape mutates]; rewrite H; cbn [negb andb orb];
    rewrite N.eqb_refl; reflexivity.
Qed.

Lemma store_fresh_result : forall s ex tmp t d, N.eqb tmp t = false ->
  run s (store_fresh ex tmp t d) t = Some d.
Proof.
  intros s ex tmp t d H. unfold store_fresh, open_fresh, run. destruct ex; cbn; rewrite H;
    (rewrite upd_other by (rewrite N.eqb_sym; exact H)); rewrite upd_same;
    unfold content; rewrite !upd_same; reflexivity.
Qed.

Lemma store_fresh_failed_no_mut : forall ex tmp t d k, N.eqb tmp t = false ->
  no_mut t (store_fresh_failed ex tmp d k) = true.
Proof. intros ex tmp t d k H. unfold store_fresh_failed, open_fresh, no_mut. destruct ex; cbn; now rewrite H. Qed.

(* one attempt, started in ANY state (leftovers of earlier attempts included), any temporary name
   different from the target, any crash point *)
Lemma attempt_safe : forall t s a s1, attempt_run t s a s1 -> N.eqb (a_tmp a) t = false ->
  s1 t = Some (a_data a) \/ (a_fate a <> Done /\ s1 t = s t).
Proof.
  intros t s a s1 Hr. destruct Hr as [s ex tmp d|s ex tmp d k|s ex tmp d s' Hc|s ex tmp d k s' Hc];
    cbn [a_tmp a_data a_fate]; intro H.
  - left. now apply store_fresh_result.
  - right. split; [discriminate|]. apply run_no_mut. now apply store_fresh_failed_no_mut.
  - destruct (atomic_replace_safe t _ (store_fresh_shape ex tmp t d H) s s' Hc) as [E|E].
    + right. split; [discriminate|exact E].
    + left. rewrite E. now apply store_fresh_result.
  - right. split; [discriminate|]. apply (crashed_no_mut t _ _ _ Hc). now apply store_fresh_failed_no_mut.
Qed.

Theorem history_safe : forall t h s l, tmps_ok t h = true -> hist_run t s h l ->
  steps_ok (s t) (spec_of h) (map (fun x : fs => x t) l).
Proof.
  intros t h s l Ht Hr. induction Hr as [s|s a s1 h l Ha Hr IH]; [exact I|].
  cbn [tmps_ok forallb] in Ht. apply andb_prop in Ht as [Ha' Ht]. apply negb_true_iff in Ha'.
  cbn [spec_of map steps_ok]. split; [|now apply IH].
  destruct (attempt_safe t s a s1 Ha Ha') as [E|[Hf E]]; [now left|right; now split].
Qed.

Lemma allowed_mono : forall h vs ws, (forall x, In x vs -> In x ws) ->
  forall x, In x (allowed vs h) -> In x (allowed ws h).
Proof.
  induction h as [|[d f] h IH]; intros vs ws Hsub x Hx; [now apply Hsub|].
  destruct f; cbn [allowed] in *; try exact Hx;
    (eapply IH; [|exact Hx]); intros y [<-|Hy]; [now left|right; now apply Hsub|now left|right; now apply Hsub].
Qed.

(* the reading after the whole history: the last completed store's value, or the complete value of an
   unfinished store after it *)
Lemma steps_allowed : forall h prev rs vs, steps_ok prev h rs -> In prev vs ->
  In (last rs prev) (allowed vs h).
Proof.
  induction h as [|[d f] h IH]; intros prev rs vs Hs Hin; destruct rs as [|r rs]; try (now destruct Hs).
  - cbn [steps_ok] in Hs. destruct Hs as [Hr Hs].
    assert (Hl : last (r :: rs) prev = last rs r).
    { clear. revert prev r. induction rs as [|x rs IH]; intros prev r; [reflexivity|].
      change (last (r :: x :: rs) prev) with (last (x :: rs) prev). rewrite (IH prev x), (IH r x). reflexivity. }
    rewrite Hl. destruct Hr as [-> | [Hf ->]].
    + destruct f; cbn [allowed]; apply (IH _ _ _ Hs); now left.
    + destruct f; [now destruct Hf| |]; cbn [allowed]; apply (IH _ _ _ Hs); now right.
Qed.

Theorem history_last : forall t h s l, tmps_ok t h = true -> hist_run t s h l ->
  In (last (map (fun x : fs => x t) l) (s t)) (allowed [s t] (spec_of h)).
Proof.
  intros t h s l Ht Hr. apply steps_allowed; [now apply (history_safe t h s l)|now left].
Qed.

(* a history that ends with a completed store reads exactly its value *)
Lemma allowed_done_last : forall h vs d, allowed vs (h ++ [(d, Done)]) = [Some d].
Proof.
  induction h as [|[d' f] h IH]; intros vs d; [reflexivity|].
  destruct f; cbn [app allowed]; apply IH.
Qed.

Theorem history_completed : forall t h a s l, tmps_ok t (h ++ [a]) = true -> a_fate a = Done ->
  hist_run t s (h ++ [a]) l -> last (map (fun x : fs => x t) l) (s t) = Some (a_data a).
Proof.
  intros t h a s l Ht Hf Hr. pose proof (history_last t _ s l Ht Hr) as Hin.
  unfold spec_of in Hin. rewrite map_app in Hin. cbn [map] in Hin. rewrite Hf, allowed_done_last in Hin.
  destruct Hin as [<-|[]]. reflexivity.
Qed.

(* ---- the judge on value identifiers ------------------------------------------------------------- *)

Lemma reading_eqb_eq : forall a b, reading_eqb a b = true -> a = b.
Proof.
  intros [x|] [y|] H; try discriminate; [|reflexivity]. apply N.eqb_eq in H. now subst.
Qed.

Lemma reading_eqb_refl : forall a, reading_eqb a a = true.
Proof. intros [x|]; cbn; [apply N.eqb_refl|reflexivity]. Qed.

Definition spec_of_obs (val : N -> bytes) (l : list (N * fate * reading)) : list (bytes * fate) :=
  map (fun x : N * fate * reading => (val (fst (fst x)), snd (fst x))) l.

Theorem hist_ok_sound : forall val l p, hist_ok (RVal p) l = true ->
  steps_ok (Some (val p)) (spec_of_obs val l) (map (fun x : N * fate * reading => decode val (snd x)) l).
Proof.
  intros val l. induction l as [|[[v f] r] l IH]; intros p H; [exact I|].
  cbn [hist_ok] in H. apply andb_prop in H as [H1 H2].
  cbn [spec_of_obs map steps_ok fst snd].
  apply orb_prop in H1 as [H1|H1].
  - apply reading_eqb_eq in H1. subst r. split; [now left|]. now apply IH.
  - apply andb_prop in H1 as [Hf H1]. apply reading_eqb_eq in H1. subst r. split; [|now apply IH].
    right. split; [|reflexivity]. intros ->. discriminate.
Qed.

(* the model passes the judge: for every history of the model whose values are numbered by [val] there
   are readings that decode to what the model's states hold and that the judge accepts *)
Theorem hist_ok_model : forall val t h s l ids p, tmps_ok t h = true -> hist_run t s h l ->
  s t = Some (val p) -> map a_data h = map val ids ->
  exists rs, map (decode val) rs = map (fun x : fs => x t) l /\
             hist_ok (RVal p) (combine (combine ids (map a_fate h)) rs) = true.
Proof.
  intros val t h s l ids p Ht Hr. revert ids p.
  induction Hr as [s|s a s1 h l Ha Hr IH]; intros ids p Hs Hd.
  - destruct ids; [|discriminate]. exists []. split; reflexivity.
  - destruct ids as [|v ids]; [discriminate|]. cbn [map] in Hd. injection Hd as Hv Hd.
    cbn [tmps_ok forallb] in Ht. apply andb_prop in Ht as [Ha' Ht]. apply negb_true_iff in Ha'.
    destruct (attempt_safe t s a s1 Ha Ha') as [E|[Hf E]].
    + rewrite Hv in E. destruct (IH Ht ids v E Hd) as [rs [Hm Hok]].
      exists (RVal v :: rs). split; [cbn [map decode]; now rewrite Hm, E|].
      cbn [map combine hist_ok]. rewrite reading_eqb_refl. cbn [orb andb]. exact Hok.
    + rewrite Hs in E. destruct (IH Ht ids p E Hd) as [rs [Hm Hok]].
      exists (RVal p :: rs). split; [cbn [map decode]; now rewrite Hm, E|].
      cbn [map combine hist_ok]. rewrite Hok, andb_true_r.
      rewrite reading_eqb_refl.
      destruct (a_fate a); [now destruct Hf| |]; cbn [fate_eqb negb andb]; apply orb_true_r.
Qed.

(* stores that all complete, each followed by reads (the quick store / read sequences on one long-lived
   store object): their judge IS the history judge on the all-Done history, whatever was read before *)
(* a reading that is no value is rejected after ANY attempt, whatever its fate, when a value was there *)
Lemma hist_ok_no_value : forall p v f l, hist_ok (RVal p) ((v, f, ROther) :: l) = false.
Proof. intros p v f l. cbn [hist_ok reading_eqb]. destruct f; reflexivity. Qed.

Lemma hung_rejected : hung_ok = false.
Proof. exact (hist_ok_no_value 0%N 1%N Died []). Qed.

Lemma reads_ok_is_hist : forall l p,
  reads_ok l = hist_ok p (map (fun x : N * reading => (fst x, Done, snd x)) l).
Proof.
  induction l as [|[v r] l IH]; intro p; [reflexivity|].
  unfold reads_ok in *. cbn [forallb map hist_ok fst snd fate_eqb negb andb].
  rewrite orb_false_r. f_equal. apply IH.
Qed.

Lemma reads_ok_sound : forall l, reads_ok l = true -> forall v r, In (v, r) l -> r = RVal v.
Proof.
  intros l H v r Hin. unfold reads_ok in H. rewrite forallb_forall in H.
  specialize (H _ Hin). cbn [fst snd] in H. now apply reading_eqb_eq.
Qed.

(* ---- stores through a configured path of any shape --------------------------------------------- *)

(* the history judge implies the specification whatever was read before the first store (a reading
   that is no value: nothing could be read - and an unsuccessful store must leave it so) *)
Theorem hist_ok_sound_any : forall val l p, hist_ok p l = true ->
  steps_ok (decode val p) (spec_of_obs val l) (map (fun x : N * fate * reading => decode val (snd x)) l).
Proof.
  intros val l. induction l as [|[[v f] r] l IH]; intros p H; [exact I|].
  cbn [hist_ok] in H. apply andb_prop in H as [H1 H2].
  cbn [spec_of_obs map steps_ok fst snd].
  apply orb_prop in H1 as [H1|H1].
  - apply reading_eqb_eq in H1. subst r. split; [now left|]. now apply IH.
  - apply andb_prop in H1 as [Hf H1]. apply reading_eqb_eq in H1. subst r. split; [|now apply IH].
    right. split; [|reflexivity]. intros ->. discriminate.
Qed.

Lemma paths_ok_sound : forall val prev l, paths_ok prev l = true ->
  steps_ok (decode val prev) (spec_of_obs val (paths_obs l false))
           (map (fun x : N * fate * reading => decode val (snd x)) (paths_obs l false)) /\
  steps_ok (decode val prev) (spec_of_obs val (paths_obs l true))
           (map (fun x : N * fate * reading => decode val (snd x)) (paths_obs l true)).
Proof.
  intros val prev l H. unfold paths_ok in H. apply andb_prop in H as [H1 H2].
  split; now apply hist_ok_sound_any.
Qed.

(* a store that reported success and after which the value is not read back is rejected, whatever was
   there before and whatever follows *)
Lemma paths_ok_done_reads : forall prev v r1 r2 l, paths_ok prev ((v, Done, r1, r2) :: l) = true ->
  r1 = RVal v /\ r2 = RVal v.
Proof.
  intros prev v r1 r2 l H. unfold paths_ok in H. apply andb_prop in H as [H1 H2].
  cbn [paths_obs map hist_ok fst snd fate_eqb negb andb] in H1, H2.
  rewrite orb_false_r in H1, H2.
  apply andb_prop in H1 as [H1 _]. apply andb_prop in H2 as [H2 _].
  split; now apply reading_eqb_eq.
Qed.

(* the abstract store passes the history judge for every sequence of successful and failed stores *)
Lemma path_model_ok : forall l prev,
  forallb (fun x : N * fate => negb (fate_eqb (snd x) Died)) l = true ->
  hist_ok prev (combine l (path_model prev l)) = true.
Proof.
  induction l as [|[v f] l IH]; intros prev H; [reflexivity|].
  cbn [forallb snd] in H. apply andb_prop in H as [Hf H].
  cbn [path_model combine hist_ok].
  destruct f; cbn [fate_eqb negb andb] in *; try discriminate.
  - cbn [reading_eqb]. rewrite N.eqb_refl. cbn [orb andb]. now apply IH.
  - rewrite reading_eqb_refl, orb_true_r. cbn [andb]. now apply IH.
Qed.

(* ---- leftovers do not matter --------------------------------------------------------------------- *)

Lemma mem_In : forall p l, mem p l = true -> In p l.
Proof.
  induction l as [|q l IH]; intro H; [discriminate|]. cbn in H. apply orb_prop in H as [H|H].
  - apply N.eqb_eq in H. now left.
  - right. auto.
Qed.

Lemma upd_agree : forall (s1 s2 : fs) p v q, (s1 q = s2 q \/ q = p) -> upd s1 p v q = upd s2 p v q.
Proof.
  intros s1 s2 p v q H. unfold upd. destruct (N.eqb q p) eqn:E; [reflexivity|].
  destruct H as [H | ->]; [exact H|]. now rewrite N.eqb_refl in E.
Qed.

Theorem determined_indep : forall tr known s1 s2, determined known tr = true ->
  (forall p, In p known -> s1 p = s2 p) -> forall p, In p known -> run s1 tr p = run s2 tr p.
Proof.
  induction tr as [|o r IH]; intros known s1 s2 Hd Hk q Hq; [now apply Hk|].
  rewrite !run_cons. cbn [determined] in Hd.
  destruct o as [p|p|p d|p|p|a b|p|p|p off d|].
  - apply (IH (p :: known)); [exact Hd| |now right]. intros x [<-|Hx]; cbn; [now rewrite !upd_same|].
    apply upd_agree. left. now apply Hk.
  - apply (IH (p :: known)); [exact Hd| |now right]. intros x [<-|Hx]; cbn; [now rewrite !upd_same|].
    apply upd_agree. left. now apply Hk.
  - apply andb_prop in Hd as [Hm Hd]. apply mem_In in Hm.
    apply (IH known); [exact Hd| |exact Hq]. intros x Hx. cbn. unfold content. rewrite (Hk p Hm).
    apply upd_agree. left. now apply Hk.
  - apply (IH known); [exact Hd|exact Hk|exact Hq].
  - apply (IH known); [exact Hd|exact Hk|exact Hq].
  - apply andb_prop in Hd as [Hm Hd]. apply mem_In in Hm.
    apply (IH (a :: b :: known)); [exact Hd| |now right; right].
    intros x Hx. cbn. destruct (N.eqb a b) eqn:Eab.
    + apply N.eqb_eq in Eab. subst b. destruct Hx as [<- | [<- | Hx]]; [now apply Hk|now apply Hk|now apply Hk].
    + rewrite (Hk a Hm). apply upd_agree. destruct Hx as [<- | [<- | Hx]]; [now right| |].
      * left. now rewrite !upd_same.
      * left. apply upd_agree. left. now apply Hk.
  - apply (IH (p :: known)); [exact Hd| |now right]. intros x [<-|Hx]; cbn; [now rewrite !upd_same|].
    apply upd_agree. left. now apply Hk.
  - apply andb_prop in Hd as [Hm Hd]. apply mem_In in Hm.
    apply (IH known); [exact Hd| |exact Hq]. intros x Hx. cbn. unfold content. rewrite (Hk p Hm).
    apply upd_agree. left. now apply Hk.
  - apply andb_prop in Hd as [Hm Hd]. apply mem_In in Hm.
    apply (IH known); [exact Hd| |exact Hq]. intros x Hx. cbn. unfold content. rewrite (Hk p Hm).
    apply upd_agree. left. now apply Hk.
  - discriminate.
Qed.

Theorem leftovers_irrelevant : forall t tr s1 s2, determined [t] tr = true -> s1 t = s2 t ->
  run s1 tr t = run s2 tr t.
Proof.
  intros t tr s1 s2 Hd H. apply (determined_indep tr [t]); [exact Hd| |now left].
  intros p [<-|[]]. exact H.
Qed.

Lemma store_fresh_determined : forall ex tmp t d, determined [t] (store_fresh ex tmp t d) = true.
Proof. intros ex tmp t d. unfold store_fresh, open_fresh. destruct ex; cbn; now rewrite N.eqb_refl. Qed.

Lemma store_fresh_failed_determined : forall ex tmp t d k, determined [t] (store_fresh_failed ex tmp d k) = true.
Proof. intros ex tmp t d k. unfold store_fresh_failed, open_fresh. destruct ex; cbn; now rewrite N.eqb_refl. Qed.

(* ---- reusing a temporary file without truncating it is NOT safe over histories -------------------- *)

Lemma overwrite_0 : forall c d, overwrite c 0 d = d ++ skipn (length d) c.
Proof. intros c d. unfold overwrite. cbn. reflexivity. Qed.

(* a store of d1 dies when its temporary file is completely written; a later healthy store of a
   shorter d2 through the same temporary name installs d2 followed by the tail of d1 *)
Theorem keep_reuse_mixed : forall s tmp t d1 d2, N.eqb tmp t = false -> s tmp = None ->
  exists s1, crashed s (store_keep tmp t d1) s1 /\ s1 t = s t /\
             run s1 (store_keep tmp t d2) t = Some (d2 ++ skipn (length d2) d1).
Proof.
  intros s tmp t d1 d2 H Hn.
  exists (apply (apply s (OpenKeep tmp)) (WriteAt tmp 0 d1)). split; [|split].
  - unfold store_keep. apply crash_later, crash_later, crash_here.
  - cbn. rewrite !upd_other by (rewrite N.eqb_sym; exact H). reflexivity.
  - unfold store_keep, run. cbn [fold_left apply]. rewrite H.
    rewrite upd_other by (rewrite N.eqb_sym; exact H). rewrite upd_same.
    unfold content. rewrite !upd_same, Hn. rewrite !overwrite_0.
    assert (E : skipn (length d1) (@nil N) = []) by (now destruct (length d1)).
    rewrite E, app_nil_r. reflexivity.
Qed.

Theorem keep_reuse_unsafe_refuted :
  exists s t tmp d1 d2 s1, crashed s (store_keep tmp t d1) s1 /\
    run s1 (store_keep tmp t d2) t <> Some d2 /\ run s1 (store_keep tmp t d2) t <> s t /\
    atomic_replace_shape t (store_keep tmp t d2) = true /\
    determined [t] (store_keep tmp t d2) = false.
Proof.
  exists (fun p => if N.eqb p 0 then Some [9%N] else None), 0%N, 1%N, [1; 2; 3]%N, [7%N].
  destruct (keep_reuse_mixed (fun p => if N.eqb p 0 then Some [9%N] else None) 1%N 0%N [1; 2; 3]%N [7%N]
              eq_refl eq_refl) as [s1 [Hc [_ Hr]]].
  exists s1. split; [exact Hc|]. rewrite Hr. repeat split; try discriminate; reflexivity.
Qed.
