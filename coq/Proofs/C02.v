(* C02 - proofs: the EIP-712 digest determines (domain, batch) up to a hash collision; the
   assembled signature is r || s || v for every r, s < 2^256 including short ones. *)
From Coq Require Import List NArith Bool Arith Lia ZifyBool ZifyN ZifyNat.
From SygmaV Require Import Lib.Hex Model.C02.
Import ListNotations.
Local Open Scope N_scope.

(* ---------------------------------------------------------------------------------------- *)
(* big-endian *)

Definition le_to_N (l : list N) : N := fold_right (fun b acc => b + 256 * acc) 0 l.

Lemma be_to_N_app_acc : forall l acc,
  fold_left (fun a b => a * 256 + b) l acc = acc * 256 ^ N.of_nat (length l) + be_to_N l.
Proof.
  unfold be_to_N. induction l as [|x l IH]; intros acc.
  - cbn [fold_left length]. change (N.of_nat 0) with 0. rewrite N.pow_0_r. lia.
  - cbn [fold_left length]. rewrite IH. rewrite (IH (0 * 256 + x)).
    rewrite Nat2N.inj_succ, N.pow_succ_r'. lia.
Qed.

Lemma be_to_N_snoc l x : be_to_N (l ++ [x]) = be_to_N l * 256 + x.
Proof. unfold be_to_N. rewrite fold_left_app. reflexivity. Qed.

Lemma be_to_N_rev l : be_to_N (rev l) = le_to_N l.
Proof.
  induction l as [|x l IH]; [reflexivity|].
  cbn [rev le_to_N fold_right]. rewrite be_to_N_snoc, IH. unfold le_to_N. lia.
Qed.

Lemma be_to_N_zeros k l : be_to_N (repeat 0 k ++ l) = be_to_N l.
Proof.
  induction k as [|k IH]; [reflexivity|].
  cbn [repeat app]. unfold be_to_N in *. cbn [fold_left]. exact IH.
Qed.

Lemma le_bytes_value : forall fuel n, n < 2 ^ N.of_nat fuel -> le_to_N (le_bytes fuel n) = n.
Proof.
  induction fuel as [|f IH]; intros n Hn.
  - change (N.of_nat 0) with 0 in Hn. rewrite N.pow_0_r in Hn. cbn [le_bytes le_to_N fold_right]. lia.
  - cbn [le_bytes]. destruct (N.eqb n 0) eqn:E.
    + apply N.eqb_eq in E. subst n. reflexivity.
    + cbn [le_to_N fold_right]. fold (le_to_N (le_bytes f (n / 256))).
      rewrite IH.
      * pose proof (N.div_mod n 256). lia.
      * rewrite Nat2N.inj_succ, N.pow_succ_r' in Hn.
        apply N.div_lt_upper_bound; [lia|].
        assert (1 <= 2 ^ N.of_nat f) by (apply N.lt_pred_le; cbn; apply N.neq_0_lt_0, N.pow_nonzero; lia).
        lia.
Qed.

Lemma le_bytes_length : forall fuel n k, n < 256 ^ N.of_nat k -> (length (le_bytes fuel n) <= k)%nat.
Proof.
  induction fuel as [|f IH]; intros n k Hn; [cbn; lia|].
  cbn [le_bytes]. destruct (N.eqb n 0) eqn:E; [cbn; lia|].
  apply N.eqb_neq in E.
  destruct k as [|k].
  - change (N.of_nat 0) with 0 in Hn. rewrite N.pow_0_r in Hn. lia.
  - cbn [length]. apply le_n_S. apply IH.
    rewrite Nat2N.inj_succ, N.pow_succ_r' in Hn.
    apply N.div_lt_upper_bound; lia.
Qed.

Lemma be_to_N_be_bytes n : be_to_N (be_bytes n) = n.
Proof.
  unfold be_bytes. rewrite be_to_N_rev. apply le_bytes_value.
  rewrite N2Nat.id. apply N.size_gt.
Qed.

Lemma be_bytes_length n : n < 2 ^ 256 -> (length (be_bytes n) <= 32)%nat.
Proof.
  intros Hn. unfold be_bytes. rewrite rev_length. apply le_bytes_length.
  change (256 ^ N.of_nat 32) with (2 ^ 256). exact Hn.
Qed.

Lemma left_pad_short k b : (length b <= k)%nat -> left_pad k b = repeat 0 (k - length b) ++ b.
Proof.
  intros Hl. unfold left_pad. destruct (k <=? length b)%nat eqn:E; [|reflexivity].
  apply Nat.leb_le in E. assert (length b = k) by lia. subst k. rewrite Nat.sub_diag. reflexivity.
Qed.

Lemma left_pad_length k b : (length b <= k)%nat -> length (left_pad k b) = k.
Proof. intros Hl. rewrite left_pad_short by exact Hl. rewrite app_length, repeat_length. lia. Qed.

Lemma u256_length n : n < 2 ^ 256 -> length (u256 n) = 32%nat.
Proof. intros Hn. apply left_pad_length, be_bytes_length, Hn. Qed.

Lemma u256_value n : n < 2 ^ 256 -> be_to_N (u256 n) = n.
Proof.
  intros Hn. unfold u256. rewrite left_pad_short by (apply be_bytes_length, Hn).
  rewrite be_to_N_zeros. apply be_to_N_be_bytes.
Qed.

Lemma u256_inj n m : n < 2 ^ 256 -> m < 2 ^ 256 -> u256 n = u256 m -> n = m.
Proof. intros Hn Hm E. rewrite <- (u256_value n Hn), <- (u256_value m Hm), E. reflexivity. Qed.

(* ---------------------------------------------------------------------------------------- *)
(* injectivity up to collision *)

Lemma app_inj_len {A} (a a' b b' : list A) :
  length a = length a' -> a ++ b = a' ++ b' -> a = a' /\ b = b'.
Proof.
  revert a'; induction a as [|x a IH]; intros [|x' a'] L E; cbn in *; try discriminate.
  - split; [reflexivity|assumption].
  - injection E as -> E. injection L as L. destruct (IH a' L E) as [-> ->]. split; reflexivity.
Qed.

Section Inj.
  Variable H : list N -> list N.
  Hypothesis H_len : forall x, length (H x) = 32%nat.

  Definition Coll : Prop := exists x y, x <> y /\ H x = H y.

  Lemma H_inj_or x y : H x = H y -> x = y \/ Coll.
  Proof.
    intro E. destruct (list_eq_dec N.eq_dec x y) as [e|ne]; [left; exact e|].
    right. exists x, y. split; assumption.
  Qed.

  Lemma concat32_inj (l l' : list (list N)) :
    Forall (fun c => length c = 32%nat) l -> Forall (fun c => length c = 32%nat) l' ->
    concat l = concat l' -> l = l'.
  Proof.
    revert l'; induction l as [|c l IH]; intros [|c' l'] F F' E; cbn in *.
    - reflexivity.
    - inversion F' as [|? ? Hc' _]; subst. destruct c'; [discriminate Hc'|discriminate E].
    - inversion F as [|? ? Hc _]; subst. destruct c; [discriminate Hc|discriminate E].
    - inversion F as [|? ? Hc Fl]; inversion F' as [|? ? Hc' Fl']; subst.
      destruct (app_inj_len c c' (concat l) (concat l')) as [-> E']; [congruence|assumption|].
      rewrite (IH l' Fl Fl' E'). reflexivity.
  Qed.

  Definition wfp (p : proposal) : Prop :=
    p_origin p < 2 ^ 256 /\ p_nonce p < 2 ^ 256 /\ length (p_rid p) = 32%nat.
  Definition wfd (d : domain) : Prop :=
    d_chain d < 2 ^ 256 /\ length (d_contract d) = 20%nat.

  Lemma hash_proposal_inj p q :
    wfp p -> wfp q -> hash_proposal H p = hash_proposal H q -> p = q \/ Coll.
  Proof.
    intros (Ho & Hn & Hr) (Ho' & Hn' & Hr') E. unfold hash_proposal in E.
    apply H_inj_or in E as [E|C]; [|right; exact C].
    apply app_inj_len in E as [_ E]; [|reflexivity].
    apply app_inj_len in E as [E1 E]; [|rewrite !u256_length by assumption; reflexivity].
    apply app_inj_len in E as [E2 E]; [|rewrite !u256_length by assumption; reflexivity].
    apply app_inj_len in E as [E3 E]; [|congruence].
    apply H_inj_or in E as [E|C]; [|right; exact C].
    apply u256_inj in E1; [|assumption|assumption]. apply u256_inj in E2; [|assumption|assumption].
    left. destruct p, q; cbn in *; congruence.
  Qed.

  Lemma hash_proposals_inj ps qs :
    Forall wfp ps -> Forall wfp qs -> hash_proposals H ps = hash_proposals H qs -> ps = qs \/ Coll.
  Proof.
    intros Fp Fq E. unfold hash_proposals in E.
    apply H_inj_or in E as [E|C]; [|right; exact C].
    apply app_inv_head in E. apply H_inj_or in E as [E|C]; [|right; exact C].
    apply concat32_inj in E;
      try (apply Forall_forall; intros x Hx; apply in_map_iff in Hx as (? & <- & _); apply H_len).
    revert qs Fq E; induction Fp as [|p ps Hp Fp IH]; intros [|q qs] Fq E; cbn in E; try discriminate.
    - left; reflexivity.
    - inversion Fq as [|? ? Hq Fq']; subst. injection E as E1 E2.
      destruct (hash_proposal_inj p q Hp Hq E1) as [->|C]; [|right; exact C].
      destruct (IH qs Fq' E2) as [->|C]; [left; reflexivity|right; exact C].
  Qed.

  Lemma pad20_inj c c' :
    length c = 20%nat -> length c' = 20%nat -> left_pad 32 c = left_pad 32 c' -> c = c'.
  Proof.
    intros L L' E. rewrite !left_pad_short in E by lia. rewrite L, L' in E.
    apply app_inv_head in E. exact E.
  Qed.

  Lemma domain_sep_inj d d' :
    wfd d -> wfd d' -> domain_sep H d = domain_sep H d' -> d = d' \/ Coll.
  Proof.
    intros (Hc & Ha) (Hc' & Ha') E. unfold domain_sep in E.
    apply H_inj_or in E as [E|C]; [|right; exact C].
    apply app_inj_len in E as [_ E]; [|reflexivity].
    apply app_inj_len in E as [E1 E]; [|rewrite !H_len; reflexivity].
    apply app_inj_len in E as [E2 E]; [|rewrite !H_len; reflexivity].
    apply app_inj_len in E as [E3 E]; [|rewrite !u256_length by assumption; reflexivity].
    apply H_inj_or in E1 as [E1|C]; [|right; exact C].
    apply H_inj_or in E2 as [E2|C]; [|right; exact C].
    apply u256_inj in E3; [|assumption|assumption].
    apply pad20_inj in E; [|assumption|assumption].
    left. destruct d, d'; cbn in *; congruence.
  Qed.

  Theorem digest_injective_or_collision d d' ps ps' :
    wfd d -> wfd d' -> Forall wfp ps -> Forall wfp ps' ->
    digest H d ps = digest H d' ps' -> (d, ps) = (d', ps') \/ Coll.
  Proof.
    intros Hd Hd' Hp Hp' E. unfold digest in E.
    apply H_inj_or in E as [E|C]; [|right; exact C].
    apply app_inv_head in E.
    apply app_inj_len in E as [E1 E2]; [|unfold domain_sep; rewrite !H_len; reflexivity].
    destruct (domain_sep_inj d d' Hd Hd' E1) as [->|C]; [|right; exact C].
    destruct (hash_proposals_inj ps ps' Hp Hp' E2) as [->|C]; [|right; exact C].
    left. reflexivity.
  Qed.
End Inj.

(* boolean well-formedness (what the generator satisfies) implies the Prop one *)
Lemma wf_proposal_wfp p : wf_proposal p = true -> wfp p.
Proof.
  unfold wf_proposal, wfp. intros Hw.
  apply andb_prop in Hw. destruct Hw as [Hw Hr]. apply andb_prop in Hw. destruct Hw as [Ho Hn].
  apply N.ltb_lt in Ho. apply N.ltb_lt in Hn. apply Nat.eqb_eq in Hr.
  assert (256 < 2 ^ 256) by reflexivity. assert (2 ^ 64 < 2 ^ 256) by reflexivity.
  repeat split; [lia|lia|exact Hr].
Qed.

Lemma wf_domain_wfd d : wf_domain d = true -> wfd d.
Proof.
  unfold wf_domain, wfd. intros Hw. apply andb_prop in Hw. destruct Hw as [Hc Ha].
  apply N.ltb_lt in Hc. apply Nat.eqb_eq in Ha.
  assert (2 ^ 63 < 2 ^ 256) by reflexivity. split; [lia|exact Ha].
Qed.

Lemma forallb_wfp ps : forallb wf_proposal ps = true -> Forall wfp ps.
Proof.
  intros Hf. apply Forall_forall. intros p Hp. apply wf_proposal_wfp.
  rewrite forallb_forall in Hf. apply Hf. exact Hp.
Qed.

(* ---------------------------------------------------------------------------------------- *)
(* the signature *)

Lemma bump_last_snoc l x : bump_last (l ++ [x]) = Some (l ++ [(x + 27) mod 256]).
Proof. unfold bump_last. rewrite rev_app_distr. cbn [rev app]. rewrite rev_involutive. reflexivity. Qed.

Lemma sig_assemble_closed r s recid :
  r < 2 ^ 256 -> s < 2 ^ 256 ->
  sig_assemble r s recid = Some (u256 r ++ u256 s ++ [(recid + 27) mod 256]).
Proof.
  intros Hr Hs. unfold sig_assemble, sig_assemble_bytes. fold (u256 r). fold (u256 s).
  replace (u256 r ++ u256 s ++ [recid]) with ((u256 r ++ u256 s) ++ [recid]) by (rewrite app_assoc; reflexivity).
  rewrite bump_last_snoc, <- app_assoc. reflexivity.
Qed.

Lemma firstn_app_exact {A} (a b : list A) n : length a = n -> firstn n (a ++ b) = a.
Proof. intros <-. rewrite firstn_app, Nat.sub_diag, firstn_all. cbn. apply app_nil_r. Qed.

Lemma skipn_app_exact {A} (a b : list A) n : length a = n -> skipn n (a ++ b) = b.
Proof. intros <-. rewrite skipn_app, Nat.sub_diag, skipn_all. reflexivity. Qed.

Lemma sig_length_65 r s recid sig :
  r < 2 ^ 256 -> s < 2 ^ 256 -> sig_assemble r s recid = Some sig -> length sig = 65%nat.
Proof.
  intros Hr Hs E. rewrite sig_assemble_closed in E by assumption. inversion E.
  rewrite !app_length, !u256_length by assumption. reflexivity.
Qed.

Lemma sig_parse_back r s recid sig :
  r < 2 ^ 256 -> s < 2 ^ 256 -> sig_assemble r s recid = Some sig ->
  be_to_N (firstn 32 sig) = r /\ be_to_N (firstn 32 (skipn 32 sig)) = s /\
  skipn 64 sig = [(recid + 27) mod 256].
Proof.
  intros Hr Hs E. rewrite sig_assemble_closed in E by assumption. inversion E as [E'].
  rewrite (firstn_app_exact (u256 r)) by (apply u256_length, Hr).
  rewrite (skipn_app_exact (u256 r) _ 32) by (apply u256_length, Hr).
  rewrite (firstn_app_exact (u256 s)) by (apply u256_length, Hs).
  rewrite !u256_value by assumption.
  repeat split.
  replace (u256 r ++ u256 s ++ [(recid + 27) mod 256])
    with ((u256 r ++ u256 s) ++ [(recid + 27) mod 256]) by (rewrite app_assoc; reflexivity).
  apply skipn_app_exact. rewrite app_length, !u256_length by assumption. reflexivity.
Qed.

Lemma sig_v r s recid sig :
  r < 2 ^ 256 -> s < 2 ^ 256 -> recid <= 1 -> sig_assemble r s recid = Some sig ->
  exists v, skipn 64 sig = [v] /\ v = 27 + recid /\ (v = 27 \/ v = 28).
Proof.
  intros Hr Hs Hv E. destruct (sig_parse_back r s recid sig Hr Hs E) as (_ & _ & E3).
  exists ((recid + 27) mod 256). split; [exact E3|].
  rewrite N.mod_small by lia. lia.
Qed.

(* the judge accepts the model, for every r, s < 2^256 (short ones included) and recid in {0,1} *)
Lemma sig_ok_model r s recid :
  r < 2 ^ 256 -> s < 2 ^ 256 -> recid <= 1 ->
  exists sig, sig_assemble r s recid = Some sig /\ sig_ok r s recid sig = true.
Proof.
  intros Hr Hs Hv. exists (u256 r ++ u256 s ++ [(recid + 27) mod 256]).
  pose proof (sig_assemble_closed r s recid Hr Hs) as E. split; [exact E|].
  pose proof (sig_length_65 r s recid _ Hr Hs E) as HL.
  destruct (sig_parse_back r s recid _ Hr Hs E) as (E1 & E2 & E3).
  unfold sig_ok. rewrite HL, E1, E2, E3, !N.eqb_refl. cbn [Nat.eqb andb].
  rewrite N.mod_small by lia.
  replace (recid + 27) with (27 + recid) by lia. rewrite N.eqb_refl. cbn [andb].
  assert (Hc : recid = 0 \/ recid = 1) by lia. destruct Hc as [-> | ->]; reflexivity.
Qed.

(* what the judge accepts is the format statement *)
Lemma sig_ok_sound r s recid sig :
  sig_ok r s recid sig = true ->
  length sig = 65%nat /\ be_to_N (firstn 32 sig) = r /\ be_to_N (firstn 32 (skipn 32 sig)) = s /\
  exists v, skipn 64 sig = [v] /\ v = 27 + recid /\ (v = 27 \/ v = 28).
Proof.
  unfold sig_ok. intros Hk.
  apply andb_prop in Hk. destruct Hk as [Hk Hv].
  apply andb_prop in Hk. destruct Hk as [Hk Hs].
  apply andb_prop in Hk. destruct Hk as [Hl Hr].
  apply Nat.eqb_eq in Hl. apply N.eqb_eq in Hr. apply N.eqb_eq in Hs.
  repeat split; try assumption.
  destruct (skipn 64 sig) as [|v [|w t]]; try discriminate.
  apply andb_prop in Hv. destruct Hv as [Hv1 Hv2]. apply N.eqb_eq in Hv1.
  exists v. split; [reflexivity|]. split; [exact Hv1|].
  apply orb_prop in Hv2. destruct Hv2 as [Hv2|Hv2]; apply N.eqb_eq in Hv2; auto.
Qed.

(* ---------------------------------------------------------------------------------------- *)
(* sessions: what is signed is the digest of the session's batch, what is submitted is that batch *)

Lemma bytes_eqb_refl a : bytes_eqb a a = true.
Proof. induction a as [|x a IH]; [reflexivity|]. cbn [bytes_eqb]. rewrite N.eqb_refl, IH. reflexivity. Qed.

Lemma bytes_eqb_eq a b : bytes_eqb a b = true <-> a = b.
Proof.
  split; [|intros ->; apply bytes_eqb_refl].
  revert b; induction a as [|x a IH]; intros [|y b] E; cbn [bytes_eqb] in E; try discriminate.
  - reflexivity.
  - apply andb_prop in E as [E1 E2]. apply N.eqb_eq in E1. apply IH in E2. subst. reflexivity.
Qed.

Lemma proposal_eqb_eq p q : proposal_eqb p q = true <-> p = q.
Proof.
  split.
  - unfold proposal_eqb. intros E.
    apply andb_prop in E as [E E4]. apply andb_prop in E as [E E3]. apply andb_prop in E as [E1 E2].
    apply N.eqb_eq in E1. apply N.eqb_eq in E2. apply bytes_eqb_eq in E3. apply bytes_eqb_eq in E4.
    destruct p, q; cbn in *; subst; reflexivity.
  - intros ->. unfold proposal_eqb. rewrite !N.eqb_refl, !bytes_eqb_refl. reflexivity.
Qed.

Lemma proposals_eqb_eq a b : proposals_eqb a b = true <-> a = b.
Proof.
  split.
  - revert b; induction a as [|p a IH]; intros [|q b] E; cbn [proposals_eqb] in E; try discriminate.
    + reflexivity.
    + apply andb_prop in E as [E1 E2]. apply proposal_eqb_eq in E1. apply IH in E2. subst. reflexivity.
  - intros <-. induction a as [|p a IH]; [reflexivity|]. cbn [proposals_eqb].
    rewrite IH. rewrite (proj2 (proposal_eqb_eq p p) eq_refl). reflexivity.
Qed.

Lemma same_commitment_iff H d a b : same_commitment H d a b = true <-> digest H d a = digest H d b.
Proof.
  unfold same_commitment. split.
  - intros E. apply orb_prop in E as [E|E].
    + apply proposals_eqb_eq in E. subst. reflexivity.
    + apply bytes_eqb_eq. exact E.
  - intros E. apply orb_true_intro. right. apply bytes_eqb_eq. exact E.
Qed.

Lemma session_ok_model H d b : session_ok H d (model_session H d b) = true.
Proof.
  unfold session_ok, model_session. cbn [s_batch s_signed s_submitted].
  rewrite bytes_eqb_refl. apply (proj2 (same_commitment_iff H d b b)). reflexivity.
Qed.

Lemma session_ok_sound H d s : session_ok H d s = true ->
  s_signed s = digest H d (s_batch s) /\ digest H d (s_submitted s) = s_signed s.
Proof.
  unfold session_ok. intros E. apply andb_prop in E as [E1 E2].
  apply bytes_eqb_eq in E1. apply same_commitment_iff in E2. split; congruence.
Qed.

Lemma signed_is_submitted H (HL : forall x, length (H x) = 32%nat) d s :
  wf_domain d = true -> forallb wf_proposal (s_batch s) = true -> forallb wf_proposal (s_submitted s) = true ->
  session_ok H d s = true ->
  s_signed s = digest H d (s_batch s) /\ digest H d (s_submitted s) = s_signed s /\
  (s_submitted s = s_batch s \/ exists x y, x <> y /\ H x = H y).
Proof.
  intros Hd Hb Hs Hok. destruct (session_ok_sound H d s Hok) as [E1 E2].
  split; [exact E1|]. split; [exact E2|].
  destruct (digest_injective_or_collision H HL d d (s_submitted s) (s_batch s)
              (wf_domain_wfd d Hd) (wf_domain_wfd d Hd) (forallb_wfp _ Hs) (forallb_wfp _ Hb)) as [E|C].
  - congruence.
  - left. congruence.
  - right. exact C.
Qed.

(* a session whose submitted batch differs from its batch is rejected (unless H collides) *)
Lemma session_not_ok_if_differs H (HL : forall x, length (H x) = 32%nat) d s :
  wf_domain d = true -> forallb wf_proposal (s_batch s) = true -> forallb wf_proposal (s_submitted s) = true ->
  s_submitted s <> s_batch s -> session_ok H d s = true -> exists x y, x <> y /\ H x = H y.
Proof.
  intros Hd Hb Hs Hne Hok.
  destruct (signed_is_submitted H HL d s Hd Hb Hs Hok) as (_ & _ & [E|C]); [contradiction|exact C].
Qed.

(* ---------------------------------------------------------------------------------------- *)
(* the digest as a function of its arguments only *)

Lemma multi_ok_sound ds seen : multi_ok ds seen = true ->
  forall i x, In (i, x) seen -> nth_error ds i = Some x.
Proof.
  unfold multi_ok. intros E i x Hin. rewrite forallb_forall in E. specialize (E (i, x) Hin).
  cbn [fst snd] in E. destruct (nth_error ds i) as [d|]; [|discriminate].
  apply bytes_eqb_eq in E. subst. reflexivity.
Qed.

(* whatever the history (any sequence of tuple numbers, with repetitions, in any interleaving): a
   function of the arguments answers every query for tuple i with ds[i] and is accepted *)
Lemma multi_ok_model ds idxs : (forall i, In i idxs -> (i < length ds)%nat) ->
  multi_ok ds (map (fun i => (i, nth i ds [])) idxs) = true.
Proof.
  intros Hlt. unfold multi_ok. apply forallb_forall. intros x Hin.
  apply in_map_iff in Hin as (i & <- & Hi). cbn [fst snd].
  rewrite (nth_error_nth' ds [] (Hlt i Hi)). apply bytes_eqb_refl.
Qed.

Lemma session_ok_iff H d s : session_ok H d s = true <->
  (digest H d (s_batch s) = s_signed s /\ digest H d (s_submitted s) = digest H d (s_batch s)).
Proof.
  unfold session_ok. rewrite andb_true_iff, bytes_eqb_eq, same_commitment_iff. reflexivity.
Qed.
