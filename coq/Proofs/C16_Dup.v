(* C16 round 5 - duplicate and overlapping proposals: which proposals of a delivery (and of deliveries
   handled one after the other on one Executor) are selected, grouped and paid; the judge [dup_ok]
   accepts the model and what it accepts pays every delivered deposit exactly once. *)
From Coq Require Import List ZArith NArith Bool Lia Permutation.
Import ListNotations.
From SygmaV Require Import Model.C16 Proofs.C16.

(* ---------------------------------------------------------------------------------------------- *)
(* keep-first de-duplication on a key *)

Section DedupFacts.
  Context {A K : Type} (kf : A -> K) (keqb : K -> K -> bool).
  Hypothesis keqb_eq : forall a b, keqb a b = true <-> a = b.

  Lemma existsb_keqb : forall k l, existsb (keqb k) l = true <-> In k l.
  Proof.
    intros k l. rewrite existsb_exists. split.
    - intros [x [Hin He]]. apply keqb_eq in He. subst x. exact Hin.
    - intros Hin. exists k. split; [exact Hin | apply keqb_eq; reflexivity].
  Qed.

  Lemma existsb_keqb_false : forall k l, existsb (keqb k) l = false <-> ~ In k l.
  Proof.
    intros k l. split.
    - intros E Hin. apply existsb_keqb in Hin. rewrite Hin in E. discriminate.
    - intros Hn. destruct (existsb (keqb k) l) eqn:E; [|reflexivity].
      exfalso. apply Hn. apply existsb_keqb. exact E.
  Qed.

  Lemma dedup_spec : forall l seen,
    NoDup (map kf (dedup_on kf keqb seen l)) /\
    (forall x, In x (dedup_on kf keqb seen l) ->
       In x l /\ ~ In (kf x) seen /\ find (fun y => keqb (kf y) (kf x)) l = Some x) /\
    (forall x, In x l -> In (kf x) seen \/ In (kf x) (map kf (dedup_on kf keqb seen l))).
  Proof.
    induction l as [|x0 r IH]; intros seen; cbn [dedup_on].
    - split; [constructor|]. split; [intros x []|intros x []].
    - destruct (existsb (keqb (kf x0)) seen) eqn:E.
      + destruct (IH seen) as [Hn [Hb Hc]]. apply existsb_keqb in E.
        split; [exact Hn|]. split.
        * intros x Hx. destruct (Hb x Hx) as [Hin [Hs Hf]].
          split; [right; exact Hin|]. split; [exact Hs|].
          cbn [find]. destruct (keqb (kf x0) (kf x)) eqn:E2; [|exact Hf].
          apply keqb_eq in E2. exfalso. apply Hs. rewrite <- E2. exact E.
        * intros x [Hx|Hx]; [subst x; left; exact E | apply Hc; exact Hx].
      + destruct (IH (kf x0 :: seen)) as [Hn [Hb Hc]]. apply existsb_keqb_false in E.
        split; [|split].
        * cbn [map]. constructor; [|exact Hn].
          intros Hin. apply in_map_iff in Hin as [x [Hk Hx]].
          destruct (Hb x Hx) as [_ [Hs _]]. apply Hs. left. symmetry. exact Hk.
        * intros x [Hx|Hx].
          -- subst x. split; [left; reflexivity|]. split; [exact E|].
             cbn [find]. replace (keqb (kf x0) (kf x0)) with true; [reflexivity|].
             symmetry. apply keqb_eq. reflexivity.
          -- destruct (Hb x Hx) as [Hin [Hs Hf]].
             split; [right; exact Hin|]. split; [intros H; apply Hs; right; exact H|].
             cbn [find]. destruct (keqb (kf x0) (kf x)) eqn:E2; [|exact Hf].
             apply keqb_eq in E2. exfalso. apply Hs. left. exact E2.
        * intros x [Hx|Hx].
          -- subst x. right. cbn [map]. left. reflexivity.
          -- destruct (Hc x Hx) as [[Hk|Hs]|Hr].
             ++ right. cbn [map]. left. exact Hk.
             ++ left. exact Hs.
             ++ right. cbn [map]. right. exact Hr.
  Qed.

  Lemma dedup_ext : forall l s s',
    (forall k, In k s <-> In k s') -> dedup_on kf keqb s l = dedup_on kf keqb s' l.
  Proof.
    induction l as [|x r IH]; intros s s' H; cbn [dedup_on]; [reflexivity|].
    assert (E : existsb (keqb (kf x)) s = existsb (keqb (kf x)) s').
    { destruct (existsb (keqb (kf x)) s) eqn:E1; symmetry.
      - apply existsb_keqb. apply H. apply existsb_keqb. exact E1.
      - apply existsb_keqb_false. intros Hin. apply existsb_keqb_false in E1. apply E1. apply H. exact Hin. }
    rewrite E. destruct (existsb (keqb (kf x)) s').
    - apply IH. exact H.
    - f_equal. apply IH. intros k. cbn [In]. rewrite (H k). reflexivity.
  Qed.

  Lemma dedup_app : forall a b s,
    dedup_on kf keqb s (a ++ b)
    = dedup_on kf keqb s a ++ dedup_on kf keqb (map kf (dedup_on kf keqb s a) ++ s) b.
  Proof.
    induction a as [|x r IH]; intros b s; cbn [app dedup_on map]; [reflexivity|].
    destruct (existsb (keqb (kf x)) s).
    - apply IH.
    - cbn [map app]. f_equal. rewrite IH. f_equal. apply dedup_ext.
      intros k. cbn [In]. rewrite !in_app_iff. cbn [In]. tauto.
  Qed.
End DedupFacts.

(* ---------------------------------------------------------------------------------------------- *)
(* boolean equalities *)

Lemma key_eqb_eq : forall a b, key_eqb a b = true <-> a = b.
Proof.
  intros [a1 a2] [b1 b2]. unfold key_eqb. cbn [fst snd].
  rewrite andb_true_iff, !N.eqb_eq. split.
  - intros [-> ->]. reflexivity.
  - intros H. injection H as -> ->. split; reflexivity.
Qed.

Lemma has_key_in : forall k st, has_key k st = true <-> In k st.
Proof. intros k st. apply (existsb_keqb key_eqb key_eqb_eq). Qed.

Lemma nodupb_iff : forall {A} (eqb : A -> A -> bool),
  (forall a b, eqb a b = true <-> a = b) -> forall l, nodupb eqb l = true <-> NoDup l.
Proof.
  intros A eqb H l. induction l as [|x r IH]; cbn [nodupb].
  - split; [constructor|reflexivity].
  - rewrite andb_true_iff, negb_true_iff, IH. split.
    + intros [Hx Hr]. constructor; [|exact Hr].
      apply (existsb_keqb_false eqb H). exact Hx.
    + intros Hnd. inversion Hnd as [|? ? Hx Hr]; subst. split; [|exact Hr].
      apply (existsb_keqb_false eqb H). exact Hx.
Qed.

Lemma rkind_eqb_eq : forall a b, rkind_eqb a b = true -> a = b.
Proof. intros [] []; cbn; intros H; try reflexivity; discriminate. Qed.

Lemma rcpt_eqb_eq : forall a b, rcpt_eqb a b = true -> a = b.
Proof.
  intros [k h|] [k' h'|]; cbn [rcpt_eqb]; intros H; try discriminate; [|reflexivity].
  apply andb_true_iff in H as [Hk Hh]. apply rkind_eqb_eq in Hk. apply str_eqb_eq in Hh.
  subst. reflexivity.
Qed.

Lemma dprop_eqb_eq : forall p q, dprop_eqb p q = true -> p = q.
Proof.
  intros [s n r [a c]] [s' n' r' [a' c']]. unfold dprop_eqb, key_of. cbn [d_src d_nonce d_rid d_pay p_amount p_rcpt].
  intros H. apply andb_true_iff in H as [H Hc]. apply andb_true_iff in H as [H Ha].
  apply andb_true_iff in H as [Hk Hr].
  apply key_eqb_eq in Hk. injection Hk as -> ->.
  apply N.eqb_eq in Hr. subst r'. apply Z.eqb_eq in Ha. subst a'.
  apply rcpt_eqb_eq in Hc. subst c'.
  reflexivity.
Qed.

(* ---------------------------------------------------------------------------------------------- *)
(* proposalsForExecution *)

(* the proposals selected from a delivery: pairwise distinct deposits, none of them recorded before,
   each the FIRST proposal of its deposit in the delivery; and every delivered deposit that was not
   recorded before is selected *)
Lemma select_once : forall st ps,
  NoDup (map key_of (select_props st ps)) /\
  (forall p, In p (select_props st ps) ->
     In p ps /\ ~ In (key_of p) st /\ lookup_key ps (key_of p) = Some p) /\
  (forall p, In p ps -> In (key_of p) st \/ In (key_of p) (map key_of (select_props st ps))).
Proof. intros st ps. exact (dedup_spec key_of key_eqb key_eqb_eq ps st). Qed.

(* deliveries handled one after the other select together exactly what ONE delivery of all their
   proposals selects: a deposit is selected at most once over the whole history *)
Lemma serial_concat : forall dels st, concat (serial st dels) = select_props st (concat dels).
Proof.
  induction dels as [|d r IH]; intros st; cbn [serial concat]; [reflexivity|].
  rewrite IH. unfold select_props. rewrite (dedup_app key_of key_eqb key_eqb_eq). reflexivity.
Qed.

(* ---------------------------------------------------------------------------------------------- *)
(* grouping per resource *)

Lemma flat_map_ext_in : forall {A B} (f g : A -> list B) l,
  (forall a, In a l -> f a = g a) -> flat_map f l = flat_map g l.
Proof.
  intros A B f g l. induction l as [|a r IH]; intros H; cbn [flat_map]; [reflexivity|].
  rewrite (H a (or_introl eq_refl)), IH; [reflexivity|]. intros b Hb. apply H. right. exact Hb.
Qed.

Lemma flat_map_map : forall {A B C} (g : A -> B) (f : B -> list C) l,
  flat_map f (map g l) = flat_map (fun x => f (g x)) l.
Proof. intros A B C g f l. induction l as [|a r IH]; cbn [map flat_map]; [reflexivity|]. rewrite IH. reflexivity. Qed.

Lemma flat_map_nil : forall {A B} (l : list A), flat_map (fun _ => @nil B) l = [].
Proof. intros A B l. induction l as [|a r IH]; cbn [flat_map]; [reflexivity|exact IH]. Qed.

Lemma group_cons_other : forall r p t, d_rid p <> r -> group_of r (p :: t) = group_of r t.
Proof.
  intros r p t H. unfold group_of. cbn [filter].
  destruct (d_rid p =? r)%N eqn:E; [apply N.eqb_eq in E; contradiction|reflexivity].
Qed.

Lemma group_cons_same : forall p t, group_of (d_rid p) (p :: t) = p :: group_of (d_rid p) t.
Proof. intros p t. unfold group_of. cbn [filter]. rewrite N.eqb_refl. reflexivity. Qed.

(* groups over pairwise distinct resources that cover the list are a partition of it *)
Lemma group_partition : forall (l : list dprop) rs,
  NoDup rs -> (forall p, In p l -> In (d_rid p) rs) ->
  Permutation (flat_map (fun r => group_of r l) rs) l.
Proof.
  induction l as [|p t IH]; intros rs Hnd Hcov.
  - unfold group_of. cbn [filter]. rewrite flat_map_nil. constructor.
  - destruct (in_split (d_rid p) rs (Hcov p (or_introl eq_refl))) as [r1 [r2 E]]. subst rs.
    pose proof (NoDup_remove_2 _ _ _ Hnd) as Hnot.
    assert (IHt : Permutation (flat_map (fun r => group_of r t) (r1 ++ d_rid p :: r2)) t).
    { apply IH; [exact Hnd|]. intros q Hq. apply Hcov. right. exact Hq. }
    rewrite flat_map_app in *. cbn [flat_map] in *.
    rewrite (flat_map_ext_in (fun r => group_of r (p :: t)) (fun r => group_of r t) r1).
    2:{ intros a Ha. apply group_cons_other. intros Eq. apply Hnot. apply in_or_app. left. rewrite Eq. exact Ha. }
    rewrite (flat_map_ext_in (fun r => group_of r (p :: t)) (fun r => group_of r t) r2).
    2:{ intros a Ha. apply group_cons_other. intros Eq. apply Hnot. apply in_or_app. right. rewrite Eq. exact Ha. }
    rewrite group_cons_same. cbn [app].
    eapply Permutation_trans; [apply Permutation_sym; apply Permutation_middle|].
    apply perm_skip. exact IHt.
Qed.

Lemma N_eqb_eq' : forall a b : N, (a =? b)%N = true <-> a = b.
Proof. intros a b. apply N.eqb_eq. Qed.

Lemma rids_nodup : forall sel, NoDup (rids_of sel).
Proof. intros sel. unfold rids_of. apply (dedup_spec d_rid N.eqb N_eqb_eq' sel []). Qed.

Lemma rids_cover : forall sel p, In p sel -> In (d_rid p) (rids_of sel).
Proof.
  intros sel p Hp. unfold rids_of.
  destruct (dedup_spec d_rid N.eqb N_eqb_eq' sel []) as [_ [_ Hc]].
  destruct (Hc p Hp) as [[]|H]; exact H.
Qed.

(* the groups of a selection are a partition of it *)
Lemma dgroups_members : forall sel, Permutation (flat_map snd (dgroups sel)) sel.
Proof.
  intros sel. unfold dgroups. rewrite flat_map_map. cbn [snd].
  apply group_partition; [apply rids_nodup | apply rids_cover].
Qed.

Lemma dgroups_fst : forall sel, map fst (dgroups sel) = rids_of sel.
Proof.
  intros sel. unfold dgroups. rewrite map_map. cbn [fst]. apply map_id.
Qed.

Lemma dgroups_rid : forall sel g, In g (dgroups sel) -> forall p, In p (snd g) -> In p sel /\ d_rid p = fst g.
Proof.
  intros sel g Hg p Hp. unfold dgroups in Hg. apply in_map_iff in Hg as [r [E _]]. subst g.
  cbn [fst snd] in *. unfold group_of in Hp. apply filter_In in Hp as [Hin Hr].
  split; [exact Hin | apply N.eqb_eq; exact Hr].
Qed.

Lemma serial_members : forall dels st,
  Permutation (flat_map snd (serial_groups st dels)) (concat (serial st dels)).
Proof.
  unfold serial_groups. induction dels as [|d r IH]; intros st; cbn [serial flat_map concat]; [constructor|].
  rewrite flat_map_app. apply Permutation_app; [apply dgroups_members | apply IH].
Qed.

Lemma serial_groups_rid : forall dels st g, In g (serial_groups st dels) ->
  forall p, In p (snd g) -> d_rid p = fst g.
Proof.
  intros dels st g Hg p Hp. unfold serial_groups in Hg. apply in_flat_map in Hg as [sel [_ Hg]].
  apply (dgroups_rid sel g Hg p Hp).
Qed.

(* all the proposals paid by the groups of a history = what one delivery of everything selects *)
Lemma serial_groups_select : forall dels st,
  Permutation (flat_map snd (serial_groups st dels)) (select_props st (concat dels)).
Proof. intros dels st. rewrite <- serial_concat. apply serial_members. Qed.

(* ---------------------------------------------------------------------------------------------- *)
(* the judge accepts the model *)

Lemma all_metas_model : forall keys us rate cid wt gs,
  all_metas (map (model_dtx keys us rate cid wt) gs) = map key_of (flat_map snd gs).
Proof.
  intros keys us rate cid wt gs. unfold all_metas.
  induction gs as [|g r IH]; cbn [map flat_map]; [reflexivity|].
  rewrite map_app, IH. reflexivity.
Qed.

Lemma NoDup_app_r : forall {A} (a b : list A), NoDup (a ++ b) -> NoDup b.
Proof.
  intros A a b. induction a as [|x r IH]; cbn [app]; intros H; [exact H|].
  inversion H; subst. apply IH. assumption.
Qed.

Lemma NoDup_flat_map_in : forall {A B C} (h : B -> C) (f : A -> list B) l x,
  NoDup (map h (flat_map f l)) -> In x l -> NoDup (map h (f x)).
Proof.
  intros A B C h f l x. induction l as [|a r IH]; intros Hnd Hin; [contradiction|].
  cbn [flat_map] in Hnd. rewrite map_app in Hnd. destruct Hin as [->|Hin].
  - apply (NoDup_app_l _ _ Hnd).
  - apply IH; [|exact Hin]. apply (NoDup_app_r _ _ Hnd).
Qed.

Lemma lookup_keys_model : forall ps l,
  (forall p, In p l -> lookup_key ps (key_of p) = Some p) -> lookup_keys ps (map key_of l) = Some l.
Proof.
  intros ps l. induction l as [|p r IH]; intros H; cbn [map lookup_keys]; [reflexivity|].
  rewrite (H p (or_introl eq_refl)), IH; [reflexivity|]. intros q Hq. apply H. right. exact Hq.
Qed.

Lemma dup_body_model : forall dels keys us rate cid wt,
  (wt = true -> groups_wf (serial_groups [] dels) us rate = true) ->
  dup_body true (concat dels) keys us (map (model_dtx keys us rate cid wt) (serial_groups [] dels)) = true.
Proof.
  intros dels keys us rate cid wt Hwf.
  pose proof (serial_groups_select dels []) as P.
  destruct (select_once [] (concat dels)) as [Hnd [Hb Hc]].
  assert (HndM : NoDup (map key_of (flat_map snd (serial_groups [] dels)))).
  { apply (Permutation_NoDup (Permutation_map key_of (Permutation_sym P))). exact Hnd. }
  unfold dup_body. rewrite all_metas_model. repeat (apply andb_true_iff; split).
  - apply (nodupb_iff key_eqb key_eqb_eq). exact HndM.
  - apply forallb_forall. intros p Hp. apply has_key_in.
    destruct (Hc p Hp) as [[]|Hin].
    apply (Permutation_in _ (Permutation_map key_of (Permutation_sym P))). exact Hin.
  - apply forallb_forall. intros o Ho. apply in_map_iff in Ho as [g [E Hg]]. subst o.
    unfold dtx_ok, model_dtx. cbn [fst snd].
    assert (Hl : lookup_keys (concat dels) (map key_of (snd g)) = Some (snd g)).
    { apply lookup_keys_model. intros p Hp.
      assert (Hsel : In p (select_props [] (concat dels))).
      { apply (Permutation_in _ P). apply in_flat_map. exists g. split; assumption. }
      apply (Hb p Hsel). }
    rewrite Hl. repeat (apply andb_true_iff; split).
    + apply (nodupb_iff key_eqb key_eqb_eq).
      apply (NoDup_flat_map_in key_of snd (serial_groups [] dels) g HndM Hg).
    + apply forallb_forall. intros p Hp. apply N.eqb_eq.
      apply (serial_groups_rid dels [] g Hg p Hp).
    + destruct wt; [|reflexivity].
      apply spec_one_model; [|apply Permutation_refl].
      apply wf_wfP. specialize (Hwf eq_refl). unfold groups_wf in Hwf.
      rewrite forallb_forall in Hwf. apply (Hwf g Hg).
Qed.

Lemma dup_ok_model : forall dels keys us rate cid wt,
  (wt = true -> groups_wf (serial_groups [] dels) us rate = true) ->
  dup_ok true (concat dels) keys us (map (model_dtx keys us rate cid wt) (serial_groups [] dels)) = true.
Proof.
  intros dels keys us rate cid wt H. unfold dup_ok.
  rewrite (dup_body_model dels keys us rate cid wt H).
  destruct (map _ _); reflexivity.
Qed.

(* the judge of concurrent deliveries (per transaction) is implied by the one of a single delivery *)
Lemma dup_ok_weaken : forall ps keys us obs, dup_ok true ps keys us obs = true -> dup_ok false ps keys us obs = true.
Proof.
  intros ps keys us obs. unfold dup_ok. destruct obs as [|o r]; [reflexivity|].
  unfold dup_body. intros H.
  apply andb_true_iff in H as [H H3]. apply andb_true_iff in H as [_ H2].
  rewrite H2, H3. reflexivity.
Qed.

(* ---------------------------------------------------------------------------------------------- *)
(* ... and what the judge accepts *)

Lemma lookup_keys_sound : forall ps ks gps, lookup_keys ps ks = Some gps ->
  map key_of gps = ks /\ forall p, In p gps -> In p ps.
Proof.
  intros ps ks. induction ks as [|k r IH]; intros gps H; cbn [lookup_keys] in H.
  - injection H as <-. split; [reflexivity|intros p []].
  - destruct (lookup_key ps k) as [p|] eqn:E; [|discriminate].
    destruct (lookup_keys ps r) as [l|] eqn:E2; [|discriminate].
    injection H as <-. destruct (IH l eq_refl) as [Hm Hin].
    unfold lookup_key in E. apply find_some in E as [Hp Hk]. apply key_eqb_eq in Hk.
    split; [cbn [map]; rewrite Hk, Hm; reflexivity|].
    intros q [<-|Hq]; [exact Hp | apply Hin; exact Hq].
Qed.

Lemma dup_ok_sound : forall strict ps keys us obs,
  obs <> [] -> dup_ok strict ps keys us obs = true ->
  (strict = true -> NoDup (all_metas obs)) /\
  (forall p, In p ps -> In (key_of p) (all_metas obs)) /\
  (forall r ms otx, In (r, ms, otx) obs ->
     NoDup ms /\
     exists gps, map key_of gps = ms /\
       (forall p, In p gps -> In p ps /\ d_rid p = r) /\
       (forall t, otx = Some t -> spec_one (map d_pay gps) us (bridge_of keys r) t = true)).
Proof.
  intros strict ps keys us obs Hne H. unfold dup_ok in H.
  destruct obs as [|o0 r0]; [contradiction|]. unfold dup_body in H.
  apply andb_true_iff in H as [H H3]. apply andb_true_iff in H as [H1 H2].
  split; [|split].
  - intros ->. apply (nodupb_iff key_eqb key_eqb_eq). exact H1.
  - intros p Hp. rewrite forallb_forall in H2. apply has_key_in. apply (H2 p Hp).
  - intros r ms otx Hin. rewrite forallb_forall in H3. specialize (H3 _ Hin).
    unfold dtx_ok in H3. cbn [fst snd] in H3.
    apply andb_true_iff in H3 as [Hn Hl]. split; [apply (nodupb_iff key_eqb key_eqb_eq); exact Hn|].
    destruct (lookup_keys ps ms) as [gps|] eqn:E; [|discriminate].
    apply andb_true_iff in Hl as [Hr Ht].
    destruct (lookup_keys_sound ps ms gps E) as [Hm Hg].
    exists gps. split; [exact Hm|]. split.
    + intros p Hp. split; [apply Hg; exact Hp|].
      rewrite forallb_forall in Hr. apply N.eqb_eq. apply (Hr p Hp).
    + intros t ->. exact Ht.
Qed.

(* in a consistent delivery "the proposal of a deposit" does not depend on the copy taken *)
Lemma consistent_lookup : forall ps p, consistent ps = true -> In p ps -> lookup_key ps (key_of p) = Some p.
Proof.
  intros ps p Hc Hp. unfold lookup_key.
  destruct (find (fun q => key_eqb (key_of q) (key_of p)) ps) as [q|] eqn:E.
  - apply find_some in E as [Hq Hk]. f_equal. apply dprop_eqb_eq.
    unfold consistent in Hc. rewrite forallb_forall in Hc. specialize (Hc q Hq).
    rewrite forallb_forall in Hc. specialize (Hc p Hp). rewrite Hk in Hc. exact Hc.
  - exfalso. pose proof (find_none _ _ E p Hp) as Hn. cbn beta in Hn.
    assert (Ht : key_eqb (key_of p) (key_of p) = true) by (apply key_eqb_eq; reflexivity).
    rewrite Ht in Hn. discriminate.
Qed.

(* witnesses for the non-vacuity example *)
Definition w_rcpt : prop := mkProp 1000 (Valid P2WPKH (repeat 1%N 20)).
Definition w_P : dprop := mkD 1 11 1 w_rcpt.
Definition w_P_src : dprop := mkD 3 11 1 w_rcpt.          (* same nonce, another source *)
Definition w_Q : dprop := mkD 1 12 2 (mkProp 2500 (Valid P2TR (repeat 2%N 32))).
Definition w_dup_delivery : list dprop := [w_P; w_Q; w_P; w_P_src; w_P].
