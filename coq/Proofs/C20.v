(* C20 - proofs about Model/C20.v *)
From Coq Require Import List ZArith NArith Bool String Ascii DecimalString DecimalN DecimalPos Lia ZifyBool.
Import ListNotations.
From SygmaV Require Import Model.C20.
Local Open Scope Z_scope.

(* ---------------------------------------------------------------------------------------------- *)
(* Decimal texts *)

Definition starts_digit (s : string) : bool :=
  match s with String a _ => is_digit a | EmptyString => false end.

Lemma string_of_uint_starts_digit : forall d, d <> Decimal.Nil ->
  starts_digit (NilEmpty.string_of_uint d) = true.
Proof. intros d Hd. destruct d; try reflexivity. now destruct Hd. Qed.

Lemma to_uint_nonnil : forall n, N.to_uint n <> Decimal.Nil.
Proof.
  intros [|p]; cbn; [discriminate|]. apply Unsigned.to_uint_nonnil.
Qed.

Lemma print_N_starts_digit : forall n, starts_digit (print_N n) = true.
Proof. intro n. apply string_of_uint_starts_digit, to_uint_nonnil. Qed.

Lemma parse_digits_print_N : forall n, parse_digits (print_N n) = Some (Z.of_N n).
Proof.
  intro n. unfold parse_digits.
  pose proof (print_N_starts_digit n) as Hs.
  destruct (print_N n) eqn:E; [discriminate|]. rewrite <- E. unfold print_N.
  rewrite NilEmpty.usu. cbn [option_map]. now rewrite DecimalN.Unsigned.of_to.
Qed.

Lemma parse_digits_nondigit : forall a r, is_digit a = false -> parse_digits (String a r) = None.
Proof.
  intros a r Ha. unfold parse_digits. cbn [NilEmpty.uint_of_string].
  destruct (NilEmpty.uint_of_string r) as [d|]; [|reflexivity].
  destruct (uint_of_char a (Some d)) as [d'|] eqn:E; [|reflexivity].
  apply uint_of_char_spec in E.
  decompose [or and] E; subst; discriminate.
Qed.

Lemma digit_not_sign : forall a, is_digit a = true -> a <> "+"%char /\ a <> "-"%char.
Proof. intros a Ha. split; intros ->; discriminate. Qed.

Lemma parse_int_text_digits : forall s, starts_digit s = true -> parse_int_text s = parse_digits s.
Proof.
  intros [|a r] Hs; [discriminate|]. cbn in Hs. destruct (digit_not_sign a Hs) as [H1 H2].
  unfold parse_int_text.
  destruct a as [[|] [|] [|] [|] [|] [|] [|] [|]]; try reflexivity; congruence.
Qed.

Lemma parse_int_text_print_Z : forall z, parse_int_text (print_Z z) = Some z.
Proof.
  intros [|p|p]; unfold print_Z.
  - reflexivity.
  - rewrite parse_int_text_digits by apply print_N_starts_digit.
    rewrite parse_digits_print_N. f_equal; lia.
  - cbn [parse_int_text]. rewrite parse_digits_print_N. reflexivity.
Qed.

Lemma parse_digits_print_Z : forall z,
  parse_digits (print_Z z) = if z <? 0 then None else Some z.
Proof.
  intros [|p|p]; unfold print_Z.
  - reflexivity.
  - rewrite parse_digits_print_N. cbn. f_equal.
  - now rewrite parse_digits_nondigit.
Qed.

Lemma parse_digits_nonneg : forall s v, parse_digits s = Some v -> 0 <= v.
Proof.
  intros s v. unfold parse_digits. destruct s; [discriminate|].
  destruct (NilEmpty.uint_of_string _); cbn; [|discriminate]. intros [= <-]. lia.
Qed.

(* on texts that parse as unsigned, the signed reading is the same *)
Lemma parse_digits_int_text : forall s v, parse_digits s = Some v -> parse_int_text s = Some v.
Proof.
  intros [|a r] v H; [discriminate|].
  destruct (is_digit a) eqn:Ha.
  - rewrite parse_int_text_digits; auto.
  - now rewrite parse_digits_nondigit in H.
Qed.

(* ---------------------------------------------------------------------------------------------- *)
(* Ports *)

Lemma port_accept_iff : forall v p,
  parse_port (print_Z v) = Some p <-> (0 <= v <= 65535 /\ p = v).
Proof.
  intros v p. unfold parse_port. rewrite parse_digits_print_Z.
  destruct (v <? 0) eqn:E1.
  - split; [discriminate|]. lia.
  - destruct (v <=? 65535) eqn:E2.
    + split; [intros [= <-]|intros [_ ->]]; auto. lia.
    + split; [discriminate|]. lia.
Qed.

Lemma port_accepts_all_ports : forall v, 1 <= v <= 65535 -> parse_port (print_Z v) = Some v.
Proof. intros v Hv. apply port_accept_iff. lia. Qed.

Lemma port_rejects_outside : forall v, v < 0 \/ 65535 < v -> parse_port (print_Z v) = None.
Proof.
  intros v Hv. destruct (parse_port (print_Z v)) as [p|] eqn:E; [|reflexivity].
  apply port_accept_iff in E. lia.
Qed.

Lemma old_port_value : forall v,
  old_parse_port (print_Z v) =
  if (-32768 <=? v) && (v <=? 32767) then Some (v mod 65536) else None.
Proof. intro v. unfold old_parse_port. now rewrite parse_int_text_print_Z. Qed.

Lemma old_port_refuted :
  (exists v, 1 <= v <= 65535 /\ old_parse_port (print_Z v) = None) /\
  (exists v p, v < 0 /\ old_parse_port (print_Z v) = Some p).
Proof.
  split.
  - exists 32768. split; [lia|]. vm_compute. reflexivity.
  - exists (-1), 65535. split; [lia|]. vm_compute. reflexivity.
Qed.

Lemma port_ok_model : forall s, port_ok s (parse_port s) = true.
Proof.
  intro s. unfold port_ok, parse_port.
  destruct (parse_int_text s) as [v|] eqn:Ei; [|reflexivity].
  destruct (parse_digits s) as [p|] eqn:Ed.
  - pose proof (parse_digits_nonneg _ _ Ed) as Hp.
    apply parse_digits_int_text in Ed. rewrite Ed in Ei. injection Ei as <-.
    destruct (p <=? 65535) eqn:E2.
    + rewrite Z.eqb_refl. lia.
    + rewrite andb_false_r. reflexivity.
  - destruct ((1 <=? v) && (v <=? 65535)) eqn:E2; [|reflexivity].
    destruct (String.eqb s (print_Z v)) eqn:E3; [|reflexivity].
    apply String.eqb_eq in E3. rewrite E3 in Ed. rewrite parse_digits_print_Z in Ed.
    destruct (v <? 0) eqn:E4; [lia|discriminate].
Qed.

Lemma port_ok_sound : forall v impl, port_ok (print_Z v) impl = true ->
  (1 <= v <= 65535 -> impl = Some v) /\
  (v < 0 \/ 65535 < v -> impl = None) /\
  (forall p, impl = Some p -> p = v /\ 0 <= v <= 65535).
Proof.
  intros v impl. unfold port_ok. rewrite parse_int_text_print_Z.
  destruct impl as [p|]; intro H.
  - assert (0 <= v <= 65535 /\ p = v) as [Hr ->] by lia.
    split; [reflexivity|]. split; [lia|]. intros q [= <-]. lia.
  - rewrite String.eqb_refl in H. split; [lia|]. split; [reflexivity|]. discriminate.
Qed.

(* ---------------------------------------------------------------------------------------------- *)
(* Durations *)

Lemma span_digits_uint : forall d t, starts_digit t = false ->
  span_digits (NilEmpty.string_of_uint d ++ t) = (NilEmpty.string_of_uint d, t).
Proof.
  intros d t Ht. induction d; cbn [NilEmpty.string_of_uint append];
    try (cbn [span_digits]; change (is_digit _) with true; cbv iota; rewrite IHd; reflexivity).
  destruct t as [|a r]; [reflexivity|]. cbn in Ht. cbn [span_digits]. now rewrite Ht.
Qed.

Lemma unit_text_not_digit : forall u, starts_digit (unit_text u) = false.
Proof. now intros []. Qed.

Lemma unit_of_text_unit_text : forall u, unit_of_text (unit_text u) = Some u.
Proof. now intros []. Qed.

Lemma duration_reading_print : forall n u,
  duration_reading (print_N n ++ unit_text u) = Some (Z.of_N n, u).
Proof.
  intros n u. unfold duration_reading, print_N.
  rewrite span_digits_uint by apply unit_text_not_digit.
  fold (print_N n). now rewrite parse_digits_print_N, unit_of_text_unit_text.
Qed.

Lemma duration_roundtrip : forall n u,
  parse_duration (print_N n ++ unit_text u) =
  if Z.of_N n * unit_ns u <=? max_int64 then Some (Z.of_N n * unit_ns u) else None.
Proof. intros n u. unfold parse_duration. now rewrite duration_reading_print. Qed.

Lemma duration_ok_model : forall s, duration_ok s (parse_duration s) = true.
Proof.
  intro s. unfold duration_ok, parse_duration.
  destruct (duration_reading s) as [[n u]|]; [|reflexivity].
  destruct (n * unit_ns u <=? max_int64) eqn:E; [|reflexivity].
  now rewrite Z.eqb_refl.
Qed.

Lemma duration_ok_sound : forall n u impl,
  duration_ok (print_N n ++ unit_text u) impl = true ->
  (Z.of_N n * unit_ns u <= max_int64 -> impl = Some (Z.of_N n * unit_ns u)) /\
  (max_int64 < Z.of_N n * unit_ns u -> impl = None).
Proof.
  intros n u impl. unfold duration_ok. rewrite duration_reading_print.
  destruct impl as [d|]; intro H; split; intro Hr; try reflexivity; try lia.
  f_equal. lia.
Qed.

(* ---------------------------------------------------------------------------------------------- *)
(* Chain constructors *)

Lemma with_default_nonzero : forall d o, d <> 0 -> with_default d o <> 0.
Proof.
  intros d [v|] Hd; cbn; auto. destruct (v =? 0) eqn:E; lia.
Qed.

(* the shape of an accepting run of the constructors, whatever the treatment of the id *)
Lemma validate_with_some : forall acc chk c cfg, validate_with acc chk c = Some cfg ->
  ci_req_missing c = false /\ acc (ci_id c) = Some (cc_id cfg) /\
  cc_interval cfg = with_default default_interval (ci_interval c) /\
  cc_confs cfg = (if uses_confs (ci_kind c) then with_default default_confs (ci_confs c) else 0) /\
  cc_start cfg = written (ci_start c) /\
  (uses_confs (ci_kind c) = true -> 1 <= cc_confs cfg) /\
  (chk = true -> 1 <= cc_interval cfg).
Proof.
  intros acc chk c cfg. unfold validate_with.
  destruct (ci_req_missing c); [discriminate|].
  destruct (acc (ci_id c)) as [id|]; [|discriminate].
  destruct (uses_confs (ci_kind c)) eqn:Eu; cbn [andb].
  - destruct (with_default default_confs (ci_confs c) <? 1) eqn:E1; [discriminate|].
    destruct (chk && (with_default default_interval (ci_interval c) <? 1)) eqn:E2; [discriminate|].
    intros [= <-]. cbn. repeat split; try reflexivity; intros; subst; cbn in *; lia.
  - destruct (chk && (with_default default_interval (ci_interval c) <? 1)) eqn:E2; [discriminate|].
    intros [= <-]. cbn. repeat split; try reflexivity; try discriminate. intros; subst; cbn in *; lia.
Qed.

Lemma validate_positive : forall c cfg, validate c = Some cfg ->
  1 <= cc_interval cfg /\ (uses_confs (ci_kind c) = true -> 1 <= cc_confs cfg).
Proof.
  intros c cfg H. apply validate_with_some in H as (_ & _ & _ & _ & _ & Hc & Hi). auto.
Qed.

Lemma validate_values : forall c cfg, validate c = Some cfg ->
  cc_start cfg = written (ci_start c) /\
  cc_interval cfg = with_default default_interval (ci_interval c) /\
  (uses_confs (ci_kind c) = true -> cc_confs cfg = with_default default_confs (ci_confs c)).
Proof.
  intros c cfg H. apply validate_with_some in H as (_ & _ & Hi & Hc & Hs & _ & _).
  repeat split; auto. intro Eu. now rewrite Eu in Hc.
Qed.

(* written non-zero values come back unchanged *)
Lemma with_default_written : forall d v, v <> 0 -> with_default d (Some v) = v.
Proof. intros d v Hv. cbn. destruct (v =? 0) eqn:E; [lia|reflexivity]. Qed.

(* chain ids *)
Lemma accept_id_iff : forall v i,
  accept_id v = Some i <-> exists z, v = JNum z /\ 0 <= z <= 255 /\ i = z.
Proof.
  intros v i. destruct v as [z|s|b|n d]; cbn.
  - destruct ((0 <=? z) && (z <=? 255)) eqn:E; split.
    + intros [= <-]. exists z. repeat split; lia.
    + intros [w [[= <-] [_ ->]]]. reflexivity.
    + discriminate.
    + intros [w [[= <-] [Hw _]]]. lia.
  - split; [discriminate|]. intros [w [Hw _]]. discriminate.
  - split; [discriminate|]. intros [w [Hw _]]. discriminate.
  - split; [discriminate|]. intros [w [Hw _]]. discriminate.
Qed.

Lemma accept_id_none_iff : forall v,
  accept_id v = None <-> ~ (exists z, v = JNum z /\ 0 <= z <= 255).
Proof.
  intro v. split.
  - intros H [z [-> Hz]]. cbn in H. replace ((0 <=? z) && (z <=? 255)) with true in H by lia. discriminate.
  - intro H. destruct (accept_id v) as [i|] eqn:E; [|reflexivity].
    exfalso. apply H. apply accept_id_iff in E as [z [-> [Hz _]]]. now exists z.
Qed.

Lemma accept_id_representable : forall v,
  id_representable v = match accept_id v with Some _ => true | None => false end.
Proof. intros [z|s|b|n d]; cbn; try reflexivity. now destruct ((0 <=? z) && (z <=? 255)). Qed.

Lemma chain_id_value : forall c cfg, validate c = Some cfg ->
  ci_id c = JNum (cc_id cfg) /\ 0 <= cc_id cfg <= 255.
Proof.
  intros c cfg H. apply validate_with_some in H as (_ & Hid & _).
  apply accept_id_iff in Hid as [z [Hv [Hz ->]]]. auto.
Qed.

(* the code before the repair, for every written id *)
Lemma old_accept_id_value : forall z, 0 <= z -> old_accept_id (JNum z) = Some (z mod 256).
Proof. intros z Hz. cbn. replace (z <? 0) with false by lia. reflexivity. Qed.

Lemma old_accept_id_frac : forall n d, 0 <= n -> old_accept_id (JFrac n d) = Some ((n / Zpos d) mod 256).
Proof. intros n d Hn. cbn. replace (n <? 0) with false by lia. reflexivity. Qed.

Lemma old_chain_id_refuted :
  exists c cfg, ci_id c = JNum 257 /\ old_id_validate c = Some cfg /\ cc_id cfg = 1 /\
                chain_ok c (old_id_model_chain c) = false.
Proof.
  exists (mkChainIn Evm false (JNum 257) None None None), (mkChainCfg 1 5 10 0).
  vm_compute. repeat split; reflexivity.
Qed.

Lemma old_chain_id_fraction_refuted :
  exists c cfg, ci_id c = JFrac 3 2 /\ old_id_validate c = Some cfg /\ cc_id cfg = 1 /\
                chain_ok c (old_id_model_chain c) = false.
Proof.
  exists (mkChainIn Sub false (JFrac 3 2) None None None), (mkChainCfg 1 5 0 0).
  vm_compute. repeat split; reflexivity.
Qed.

Lemma validate_none_iff : forall c,
  validate c = None <->
  (ci_req_missing c = true \/
   ~ (exists z, ci_id c = JNum z /\ 0 <= z <= 255) \/
   (exists v, ci_interval c = Some v /\ v < 0) \/
   (uses_confs (ci_kind c) = true /\ exists v, ci_confs c = Some v /\ v < 0)).
Proof.
  intro c. unfold validate, validate_with.
  destruct (ci_req_missing c); [split; auto|].
  destruct (accept_id (ci_id c)) as [id|] eqn:Eid.
  2:{ split; auto. intros _. right. left. now apply accept_id_none_iff. }
  assert (Hid : ~ ~ (exists z, ci_id c = JNum z /\ 0 <= z <= 255)).
  { intro H. apply accept_id_none_iff in H. congruence. }
  assert (Hi : (with_default default_interval (ci_interval c) <? 1) = true <->
               exists v, ci_interval c = Some v /\ v < 0).
  { destruct (ci_interval c) as [v|]; cbn.
    - destruct (v =? 0) eqn:E.
      + split; [discriminate|]. intros [w [[= <-] Hw]]. lia.
      + split; [intro; exists v; split; auto; lia|]. intros [w [[= <-] Hw]]. lia.
    - split; [discriminate|]. intros [w [Hw _]]. discriminate. }
  assert (Hc : (with_default default_confs (ci_confs c) <? 1) = true <->
               exists v, ci_confs c = Some v /\ v < 0).
  { destruct (ci_confs c) as [v|]; cbn.
    - destruct (v =? 0) eqn:E.
      + split; [discriminate|]. intros [w [[= <-] Hw]]. lia.
      + split; [intro; exists v; split; auto; lia|]. intros [w [[= <-] Hw]]. lia.
    - split; [discriminate|]. intros [w [Hw _]]. discriminate. }
  destruct (uses_confs (ci_kind c)); cbn [andb].
  - destruct (with_default default_confs (ci_confs c) <? 1) eqn:E1.
    + split; auto. intros _. right. right. right. split; auto. now apply Hc.
    + destruct (with_default default_interval (ci_interval c) <? 1) eqn:E2.
      * split; auto. intros _. right. right. left. now apply Hi.
      * split; [discriminate|]. intros [H|[H|[H|[_ H]]]]; [discriminate|contradiction| |].
        -- apply Hi in H. discriminate.
        -- apply Hc in H. discriminate.
  - destruct (with_default default_interval (ci_interval c) <? 1) eqn:E2.
    + split; auto. intros _. right. right. left. now apply Hi.
    + split; [discriminate|]. intros [H|[H|[H|[H _]]]]; try discriminate; try contradiction.
      apply Hi in H. discriminate.
Qed.

Lemma calc_start_total : forall s i, 1 <= i ->
  exists z, calc_start s i = Val z /\ z mod i = 0 /\ z <= s < z + i.
Proof.
  intros s i Hi. unfold calc_start.
  destruct (i =? 0) eqn:E; [lia|].
  rewrite Z.abs_eq by lia.
  exists (s - s mod i). split; [reflexivity|].
  pose proof (Z.mod_pos_bound s i ltac:(lia)) as Hb.
  split; [|lia].
  rewrite Zminus_mod, Zmod_mod, Z.sub_diag. apply Zmod_0_l.
Qed.

Lemma start_block_total : forall c cfg, validate c = Some cfg ->
  exists z, calc_start (cc_start cfg) (cc_interval cfg) = Val z /\
            z mod cc_interval cfg = 0 /\ z <= cc_start cfg < z + cc_interval cfg.
Proof.
  intros c cfg H. apply calc_start_total. now apply (validate_positive c cfg H).
Qed.

(* using a loaded configuration does not change it *)
Lemma start_block_pure : forall cfg n,
  fst (use_chain cfg n) = cfg /\
  List.length (snd (use_chain cfg n)) = n /\
  (forall r, In r (snd (use_chain cfg n)) -> r = calc_start (cc_start cfg) (cc_interval cfg)).
Proof.
  intros cfg n. unfold use_chain. cbn [fst snd]. split; [reflexivity|]. split.
  - apply repeat_length.
  - intros r Hr. now apply repeat_spec in Hr.
Qed.

Lemma chain_cfg_eqb_eq : forall a b, chain_cfg_eqb a b = true <-> a = b.
Proof.
  intros [d1 i1 c1 s1] [d2 i2 c2 s2]. unfold chain_cfg_eqb. cbn [cc_id cc_interval cc_confs cc_start]. split.
  - intro H. apply andb_prop in H as [H Hs]. apply andb_prop in H as [H Hc]. apply andb_prop in H as [Hd Hi].
    apply Z.eqb_eq in Hd, Hi, Hc, Hs. now subst.
  - intros [= -> -> -> ->]. now rewrite !Z.eqb_refl.
Qed.

Lemma use_ok_model : forall c n, use_ok (model_chain c) (model_after (model_chain c) n) = true.
Proof.
  intros c n. unfold model_chain. destruct (validate c) as [cfg|] eqn:E; [|reflexivity].
  unfold model_after, use_chain, use_ok. cbn [ca_cfg ca_rest_same ca_calcs].
  assert (Hc : chain_cfg_eqb cfg cfg = true) by now apply chain_cfg_eqb_eq.
  rewrite Hc. cbn [andb].
  destruct (start_block_total _ _ E) as [z [Hz _]]. rewrite Hz.
  apply forallb_forall. intros r Hr. apply repeat_spec in Hr. now subst r.
Qed.

Lemma use_ok_sound : forall cfg r af, use_ok (Some (cfg, r)) (Some af) = true ->
  ca_cfg af = cfg /\ ca_rest_same af = true /\ (forall x, In x (ca_calcs af) -> x <> Panic).
Proof.
  intros cfg r af H. unfold use_ok in H. apply andb_prop in H as [H Hp]. apply andb_prop in H as [Hc Hr].
  split; [now apply chain_cfg_eqb_eq|]. split; [assumption|].
  intros x Hx. rewrite forallb_forall in Hp. specialize (Hp _ Hx). intros ->. discriminate.
Qed.

Lemma use_ok_needs_observation : forall cfg r, use_ok (Some (cfg, r)) None = false.
Proof. reflexivity. Qed.

Lemma old_validate_refuted :
  exists c cfg, old_validate c = Some cfg /\ cc_interval cfg < 1 /\
                chain_ok c (old_model_chain c) = false.
Proof.
  exists (mkChainIn Evm false (JNum 1) (Some (-5)) None None), (mkChainCfg 1 (-5) 10 0).
  vm_compute. repeat split; reflexivity.
Qed.

Lemma field_ok_default : forall d o, 1 <= d -> 1 <= with_default d o -> field_ok o (with_default d o) = true.
Proof.
  intros d [v|] Hd H; cbn in *.
  - destruct (v =? 0) eqn:E; lia.
  - lia.
Qed.

Lemma chain_ok_model : forall c, chain_ok c (model_chain c) = true.
Proof.
  intro c. unfold model_chain.
  destruct (validate c) as [cfg|] eqn:E.
  - destruct (validate_positive _ _ E) as [Hi Hc].
    destruct (validate_values _ _ E) as [Hs [Hvi Hvc]].
    destruct (calc_start_total (cc_start cfg) (cc_interval cfg) Hi) as [z [Hz _]].
    unfold chain_ok. rewrite Hz.
    assert (F0 : id_ok (ci_id c) (cc_id cfg) = true).
    { destruct (chain_id_value _ _ E) as [-> Hr]. cbn. rewrite Z.eqb_refl. lia. }
    rewrite F0. cbn [andb].
    assert (F1 : field_ok (ci_interval c) (cc_interval cfg) = true).
    { rewrite Hvi. apply field_ok_default; [unfold default_interval; lia|]. now rewrite <- Hvi. }
    rewrite F1.
    destruct (uses_confs (ci_kind c)) eqn:Eu.
    + specialize (Hc eq_refl). specialize (Hvc eq_refl).
      assert (F2 : field_ok (ci_confs c) (cc_confs cfg) = true).
      { rewrite Hvc. apply field_ok_default; [unfold default_confs; lia|]. now rewrite <- Hvc. }
      rewrite F2. lia.
    + lia.
  - apply validate_none_iff in E. unfold chain_ok.
    destruct E as [E|[E|[[v [E Hv]]|[Eu [v [E Hv]]]]]].
    + now rewrite E.
    + apply accept_id_none_iff in E. rewrite accept_id_representable, E.
      now rewrite andb_false_r.
    + rewrite E. cbn [positive_or_absent].
      replace (1 <=? v) with false by lia. now rewrite andb_false_r.
    + rewrite Eu, E. cbn [positive_or_absent].
      replace (1 <=? v) with false by lia. now rewrite andb_false_r.
Qed.

Lemma field_ok_sound : forall o got, field_ok o got = true ->
  (forall v, o = Some v -> v <> 0 -> got = v) /\ ((o = None \/ o = Some 0) -> 1 <= got).
Proof.
  intros [v|] got; cbn.
  - destruct (v =? 0) eqn:E; intro H; split.
    + intros w [= <-] Hw. lia.
    + intros _. lia.
    + intros w [= <-] _. lia.
    + intros [H0|[= H0]]; [discriminate|lia].
  - intro H. split; [discriminate|]. intros _. lia.
Qed.

Lemma id_ok_sound : forall v got, id_ok v got = true ->
  (forall z, v = JNum z -> got = z /\ 0 <= z <= 255) /\ (forall n d, v <> JFrac n d).
Proof.
  intros [z|s|b|n d] got; cbn; intro H; split; try discriminate.
  intros w [= <-]. lia.
Qed.

Lemma chain_ok_sound : forall c cfg r, chain_ok c (Some (cfg, r)) = true ->
  (forall z, ci_id c = JNum z -> cc_id cfg = z /\ 0 <= z <= 255) /\
  (forall n d, ci_id c <> JFrac n d) /\
  1 <= cc_interval cfg /\
  (uses_confs (ci_kind c) = true -> 1 <= cc_confs cfg) /\
  (forall v, ci_interval c = Some v -> v <> 0 -> cc_interval cfg = v) /\
  (uses_confs (ci_kind c) = true -> forall v, ci_confs c = Some v -> v <> 0 -> cc_confs cfg = v) /\
  cc_start cfg = written (ci_start c) /\
  r <> Panic.
Proof.
  intros c cfg r. unfold chain_ok. intro H.
  apply andb_prop in H as [H Hr]. apply andb_prop in H as [H Hs].
  apply andb_prop in H as [H Hc]. apply andb_prop in H as [H Hfi]. apply andb_prop in H as [Hid Hi].
  destruct (field_ok_sound _ _ Hfi) as [Hfi1 _].
  destruct (id_ok_sound _ _ Hid) as [Hid1 Hid2].
  split; [exact Hid1|]. split; [exact Hid2|].
  repeat split.
  - lia.
  - intro Eu. rewrite Eu in Hc. lia.
  - exact Hfi1.
  - intro Eu. rewrite Eu in Hc. apply andb_prop in Hc as [_ Hfc].
    destruct (field_ok_sound _ _ Hfc) as [Hfc1 _]. exact Hfc1.
  - lia.
  - destruct r; [discriminate|discriminate].
Qed.

Lemma chain_ok_rejects : forall c, chain_ok c None = true ->
  ci_req_missing c = true \/
  ~ (exists z, ci_id c = JNum z /\ 0 <= z <= 255) \/
  (exists v, ci_interval c = Some v /\ v < 1) \/
  (uses_confs (ci_kind c) = true /\ exists v, ci_confs c = Some v /\ v < 1).
Proof.
  intros c. unfold chain_ok.
  destruct (ci_req_missing c); [auto|]. cbn [negb andb].
  rewrite accept_id_representable.
  destruct (accept_id (ci_id c)) as [id|] eqn:Eid;
    [|intros _; right; left; now apply accept_id_none_iff].
  cbn [andb].
  destruct (ci_interval c) as [v|]; cbn [positive_or_absent].
  - destruct (1 <=? v) eqn:E; [|intros _; right; right; left; exists v; split; auto; lia].
    cbn [andb]. destruct (uses_confs (ci_kind c)); [|discriminate].
    destruct (ci_confs c) as [w|]; cbn [positive_or_absent]; [|discriminate].
    intro H. right. right. right. split; auto. exists w. split; auto. lia.
  - cbn [andb]. destruct (uses_confs (ci_kind c)); [|discriminate].
    destruct (ci_confs c) as [w|]; cbn [positive_or_absent]; [|discriminate].
    intro H. right. right. right. split; auto. exists w. split; auto. lia.
Qed.

(* ---------------------------------------------------------------------------------------------- *)
(* substrateNetwork *)

Lemma net_accept_iff : forall v p, parse_net v = Some p <-> (0 <= v <= 65535 /\ p = v).
Proof.
  intros v p. unfold parse_net. destruct ((0 <=? v) && (v <=? 65535)) eqn:E.
  - split; [intros [= <-]; lia|intros [_ ->]; reflexivity].
  - split; [discriminate|]. lia.
Qed.

Lemma net_ok_model : forall v, net_ok v (parse_net v) = true.
Proof.
  intro v. unfold net_ok, parse_net. destruct ((0 <=? v) && (v <=? 65535)) eqn:E; [apply Z.eqb_refl|reflexivity].
Qed.

Lemma net_ok_sound : forall v impl, net_ok v impl = true ->
  (forall p, impl = Some p -> p = v) /\ (impl = None -> v < 0 \/ 65535 < v).
Proof.
  intros v [p|]; unfold net_ok; intro H; split; try discriminate.
  - intros q [= <-]. lia.
  - intros _. lia.
Qed.

Lemma old_net_refuted : exists v p, old_parse_net v = Some p /\ p <> v /\ net_ok v (old_parse_net v) = false.
Proof. exists 70000, 4464. vm_compute. repeat split; discriminate. Qed.

(* ---------------------------------------------------------------------------------------------- *)
(* Merge *)

Lemma jv_eqb_eq : forall a b, jv_eqb a b = true <-> a = b.
Proof.
  intros [x|x|x|x dx] [y|y|y|y dy]; cbn; split; try discriminate; try (intros [= ->]).
  - intro H. f_equal. lia.
  - apply Z.eqb_refl.
  - intro H. f_equal. now apply String.eqb_eq.
  - apply String.eqb_refl.
  - intro H. f_equal. now apply Bool.eqb_prop.
  - now destruct y.
  - intro H. apply andb_prop in H as [H1 H2]. apply Z.eqb_eq in H1. apply Pos.eqb_eq in H2. now subst.
  - subst. now rewrite Z.eqb_refl, Pos.eqb_refl.
Qed.

(* chain ids are compared as written: exactly *)
Lemma compare_domain_id_exact : forall a b, compare_domain_id a b = true <-> a = b.
Proof.
  intros [x|x dx] [y|y dy]; cbn; split; try discriminate.
  - intro H. f_equal. lia.
  - intros [= ->]. apply Z.eqb_refl.
  - intro H. apply andb_prop in H as [H1 H2]. apply Z.eqb_eq in H1. apply Pos.eqb_eq in H2. now subst.
  - intros [= -> ->]. now rewrite Z.eqb_refl, Pos.eqb_refl.
Qed.

Lemma find_chain_sound : forall i shared s,
  find_chain i shared = Some s -> In s shared /\ id_of s = Some i.
Proof.
  intros i shared s. induction shared as [|x r IH]; cbn [find_chain]; [discriminate|].
  destruct (id_of x) as [j|] eqn:Ej.
  - destruct (compare_domain_id i j) eqn:Ec.
    + intros [= <-]. apply compare_domain_id_exact in Ec. subst j. split; [now left|assumption].
    + intro H. destruct (IH H) as [A B]. split; [now right|assumption].
  - intro H. destruct (IH H) as [A B]. split; [now right|assumption].
Qed.

Lemma find_chain_none : forall i shared,
  find_chain i shared = None -> forall s, In s shared -> id_of s <> Some i.
Proof.
  intros i shared. induction shared as [|x r IH]; cbn [find_chain]; intros H s Hin; [destruct Hin|].
  destruct (id_of x) as [j|] eqn:Ej.
  - destruct (compare_domain_id i j) eqn:Ec; [discriminate|].
    destruct Hin as [<-|Hin]; [|now apply IH].
    rewrite Ej. intros [= ->]. assert (E : compare_domain_id i i = true) by now apply compare_domain_id_exact.
    rewrite E in Ec. discriminate.
  - destruct Hin as [<-|Hin]; [|now apply IH]. rewrite Ej. discriminate.
Qed.

Lemma opt_jv_eqb_eq : forall a b, opt_jv_eqb a b = true <-> a = b.
Proof.
  intros [a|] [b|]; cbn; split; try discriminate; auto.
  - intro H. f_equal. now apply jv_eqb_eq.
  - intros [= ->]. now apply jv_eqb_eq.
Qed.

Lemma lookup_app : forall k a b,
  lookup k (a ++ b) = match lookup k a with Some v => Some v | None => lookup k b end.
Proof.
  intros k a b. induction a as [|[k' v] a IH]; cbn; [reflexivity|].
  destruct (String.eqb k k'); auto.
Qed.

Definition merge_value (shared : obj) (k : string) (v : jv) : jv :=
  if jempty v then match lookup k shared with Some w => w | None => v end else v.

Lemma lookup_merge_left : forall k local shared,
  lookup k (map (fun kv : string * jv =>
                   let (k, v) := kv in
                   if jempty v then match lookup k shared with Some w => (k, w) | None => (k, v) end
                   else (k, v)) local)
  = option_map (merge_value shared k) (lookup k local).
Proof.
  intros k local shared. induction local as [|[k' v] l IH]; cbn [map lookup option_map]; [reflexivity|].
  unfold merge_value at 1.
  destruct (jempty v) eqn:Ej.
  - destruct (lookup k' shared) as [w|] eqn:El; cbn [lookup];
      destruct (String.eqb k k') eqn:Ek; auto; cbn [option_map]; unfold merge_value;
      apply String.eqb_eq in Ek; subst k'; now rewrite Ej, El.
  - cbn [lookup]. destruct (String.eqb k k') eqn:Ek; auto. cbn [option_map]. unfold merge_value. now rewrite Ej.
Qed.

Lemma lookup_filter_absent : forall k local shared, has k local = false ->
  lookup k (filter (fun kv : string * jv => negb (has (fst kv) local)) shared) = lookup k shared.
Proof.
  intros k local shared Hk. induction shared as [|[k' v] s IH]; cbn [filter lookup fst]; [reflexivity|].
  destruct (String.eqb k k') eqn:Ek.
  - apply String.eqb_eq in Ek. subst k'. rewrite Hk. cbn [negb lookup]. now rewrite String.eqb_refl.
  - destruct (negb (has k' local)); cbn [lookup]; [now rewrite Ek|]; auto.
Qed.

Lemma lookup_merge : forall k local shared,
  lookup k (merge local shared) =
  match lookup k local with
  | Some v => Some (merge_value shared k v)
  | None => lookup k shared
  end.
Proof.
  intros k local shared. unfold merge. rewrite lookup_app, lookup_merge_left.
  destruct (lookup k local) as [v|] eqn:El; cbn [option_map]; [reflexivity|].
  apply lookup_filter_absent. unfold has. now rewrite El.
Qed.

Lemma merge_local_wins : forall local shared k v,
  lookup k local = Some v -> jempty v = false -> lookup k (merge local shared) = Some v.
Proof.
  intros local shared k v Hl He. rewrite lookup_merge, Hl. unfold merge_value. now rewrite He.
Qed.

Lemma merge_keeps_shared_only : forall local shared k,
  lookup k local = None -> lookup k (merge local shared) = lookup k shared.
Proof. intros local shared k Hl. now rewrite lookup_merge, Hl. Qed.

Lemma merge_keeps_local_only : forall local shared k,
  lookup k shared = None -> lookup k (merge local shared) = lookup k local.
Proof.
  intros local shared k Hs. rewrite lookup_merge.
  destruct (lookup k local) as [v|]; [|exact Hs].
  unfold merge_value. rewrite Hs. now destruct (jempty v).
Qed.

Lemma merge_no_invention : forall local shared k v,
  lookup k (merge local shared) = Some v -> lookup k local = Some v \/ lookup k shared = Some v.
Proof.
  intros local shared k v. rewrite lookup_merge.
  destruct (lookup k local) as [w|]; [|auto].
  unfold merge_value. destruct (jempty w); [|auto].
  destruct (lookup k shared) as [u|]; auto.
Qed.

Lemma merge_empty_local_loses : forall local shared k v w,
  lookup k local = Some v -> jempty v = true -> lookup k shared = Some w ->
  lookup k (merge local shared) = Some w.
Proof.
  intros local shared k v w Hl He Hs. rewrite lookup_merge, Hl. unfold merge_value. now rewrite He, Hs.
Qed.

Lemma merge_local_always_wins_refuted :
  exists local shared k v, lookup k local = Some v /\ lookup k (merge local shared) <> Some v.
Proof.
  exists [("startBlock"%string, JNum 0)], [("startBlock"%string, JNum 100)], "startBlock"%string, (JNum 0).
  split; [reflexivity|]. vm_compute. discriminate.
Qed.

(* the local entry has no explicitly written EMPTY value that the shared entry overrides *)
Definition no_empty_overlap (local shared : obj) : bool :=
  forallb (fun kv : string * jv =>
             negb (jempty (snd kv)) ||
             match lookup (fst kv) shared with Some w => jv_eqb w (snd kv) | None => true end) local.

Lemma lookup_some_in : forall o k v, lookup k o = Some v -> In (k, v) o.
Proof.
  induction o as [|[k' v'] o IH]; intros k v H; [discriminate|].
  cbn in H. destruct (String.eqb k k') eqn:Ek.
  - apply String.eqb_eq in Ek. injection H as <-. subst. now left.
  - right. auto.
Qed.

Lemma in_has : forall o k v, In (k, v) o -> has k o = true.
Proof.
  induction o as [|[k' v'] o IH]; intros k v Hin; [destruct Hin|].
  unfold has. cbn. destruct (String.eqb k k') eqn:Ek; [reflexivity|].
  destruct Hin as [[= -> ->]|Hin]; [now rewrite String.eqb_refl in Ek|].
  apply (IH _ _ Hin).
Qed.

Lemma lookup_in_nodup : forall o k v, nodup_keys o = true -> In (k, v) o -> lookup k o = Some v.
Proof.
  induction o as [|[k' v'] o IH]; intros k v Hn Hin; [destruct Hin|].
  cbn in Hn. apply andb_prop in Hn as [Hn1 Hn2].
  destruct Hin as [[= -> ->]|Hin].
  - cbn. now rewrite String.eqb_refl.
  - cbn. destruct (String.eqb k k') eqn:Ek.
    + apply String.eqb_eq in Ek. subst k'. apply in_has in Hin. rewrite Hin in Hn1. discriminate.
    + auto.
Qed.

Lemma entry_ok_model : forall local shared,
  nodup_keys local = true -> no_empty_overlap local shared = true ->
  entry_ok local shared (merge local shared) = true.
Proof.
  intros local shared Hn He. unfold entry_ok.
  rewrite !andb_true_iff. repeat split.
  - apply forallb_forall. intros [k v] Hin. cbn [fst snd].
    apply opt_jv_eqb_eq. rewrite lookup_merge, (lookup_in_nodup _ _ _ Hn Hin).
    f_equal. unfold merge_value.
    destruct (jempty v) eqn:Ej; [|reflexivity].
    unfold no_empty_overlap in He. rewrite forallb_forall in He. specialize (He _ Hin).
    cbn [fst snd] in He. rewrite Ej in He. cbn [negb orb] in He.
    destruct (lookup k shared) as [w|]; [|reflexivity]. now apply jv_eqb_eq.
  - apply forallb_forall. intros [k v] Hin. cbn [fst].
    destruct (has k local) eqn:Eh; [reflexivity|]. cbn [orb].
    apply opt_jv_eqb_eq. apply merge_keeps_shared_only.
    unfold has in Eh. now destruct (lookup k local).
  - apply forallb_forall. intros [k v] Hin. cbn [fst].
    pose proof (in_has _ _ _ Hin) as Hh. unfold has in Hh.
    destruct (lookup k (merge local shared)) as [u|] eqn:El; [|discriminate].
    apply merge_no_invention in El. unfold has.
    destruct El as [El|El]; rewrite El; [reflexivity|apply orb_true_r].
Qed.

Lemma entry_ok_sound : forall local shared out, entry_ok local shared out = true ->
  (forall k v, In (k, v) local -> lookup k out = Some v) /\
  (forall k, has k local = false -> has k shared = true -> lookup k out = lookup k shared) /\
  (forall k, has k out = true -> has k local = true \/ has k shared = true).
Proof.
  intros local shared out. unfold entry_ok. rewrite !andb_true_iff, !forallb_forall.
  intros [[H1 H2] H3]. repeat split.
  - intros k v Hin. specialize (H1 _ Hin). now apply opt_jv_eqb_eq in H1.
  - intros k Hl Hs. unfold has in Hs. destruct (lookup k shared) as [w|] eqn:El; [|discriminate].
    apply lookup_some_in in El as Hin. specialize (H2 _ Hin). cbn [fst] in H2.
    rewrite Hl in H2. cbn [orb] in H2. apply opt_jv_eqb_eq in H2. now rewrite H2, El.
  - intros k Hk. unfold has in Hk. destruct (lookup k out) as [w|] eqn:El; [|discriminate].
    apply lookup_some_in in El. specialize (H3 _ El). cbn [fst] in H3.
    now apply orb_prop in H3.
Qed.

Definition wf_merge (locals shared : list obj) : bool :=
  forallb (fun c => nodup_keys c &&
                    match id_of c with
                    | Some i => match find_chain i shared with
                                | Some s => no_empty_overlap c s
                                | None => true
                                end
                    | None => true
                    end) locals.

Lemma process_none_iff : forall locals shared,
  process locals shared = None <-> loadable locals shared = false.
Proof.
  intros locals shared. induction locals as [|c r IH]; cbn [process loadable forallb].
  - split; discriminate.
  - fold (loadable r shared).
    destruct (id_of c) as [i|]; [|split; reflexivity].
    destruct (type_present c); cbn [negb andb]; [|split; reflexivity].
    destruct (find_chain i shared) as [s|]; [|split; reflexivity].
    cbn [andb]. destruct (process r shared) as [out|].
    + split; [discriminate|]. intro H. apply IH in H. discriminate.
    + split; [|reflexivity]. intros _. now apply IH.
Qed.

Lemma merge_ok_model : forall locals shared, wf_merge locals shared = true ->
  merge_ok locals shared (process locals shared) = true.
Proof.
  intros locals shared Hwf. unfold merge_ok.
  destruct (process locals shared) as [outs|] eqn:Ep.
  - revert outs Ep. induction locals as [|c r IH]; intros outs Ep.
    + cbn in Ep. injection Ep as <-. reflexivity.
    + cbn [wf_merge forallb] in Hwf. apply andb_prop in Hwf as [Hc Hr].
      apply andb_prop in Hc as [Hn Ho].
      cbn [process] in Ep.
      destruct (id_of c) as [i|] eqn:Ei; [|discriminate].
      destruct (negb (type_present c)); [discriminate|].
      destruct (find_chain i shared) as [s|] eqn:Ef; [|discriminate].
      destruct (process r shared) as [out|] eqn:Er; [|discriminate].
      injection Ep as <-. cbn [entries_ok]. rewrite Ei, Ef.
      rewrite (entry_ok_model _ _ Hn Ho). cbn [andb]. now apply IH.
  - apply process_none_iff in Ep. now rewrite Ep.
Qed.

Lemma process_missing_chain_errors : forall locals shared c i,
  In c locals -> id_of c = Some i -> find_chain i shared = None -> process locals shared = None.
Proof.
  intros locals shared c i Hin Hi Hf. apply process_none_iff.
  destruct (loadable locals shared) eqn:El; [|reflexivity].
  unfold loadable in El. rewrite forallb_forall in El. specialize (El _ Hin).
  rewrite Hi, Hf in El. now rewrite andb_false_r in El.
Qed.

(* a local chain merges with a shared entry only if their ids are equal as numbers *)
Lemma process_ids_exact : forall locals shared outs, process locals shared = Some outs ->
  forall c, In c locals -> exists i s, id_of c = Some i /\ find_chain i shared = Some s /\
                                         In s shared /\ id_of s = Some i.
Proof.
  induction locals as [|c r IH]; intros shared outs Hp x Hin; [destruct Hin|].
  cbn [process] in Hp.
  destruct (id_of c) as [i|] eqn:Ei; [|discriminate].
  destruct (negb (type_present c)); [discriminate|].
  destruct (find_chain i shared) as [s|] eqn:Ef; [|discriminate].
  destruct (process r shared) as [out|] eqn:Er; [|discriminate].
  destruct Hin as [<-|Hin].
  - exists i, s. destruct (find_chain_sound _ _ _ Ef) as [A B]. rewrite Ei. repeat split; assumption.
  - now apply (IH shared out).
Qed.

Lemma merge_ok_ids_exact : forall locals shared outs, merge_ok locals shared (Some outs) = true ->
  forall n c o, nth_error locals n = Some c -> nth_error outs n = Some o ->
    (forall i, id_of c = Some i -> (forall s, In s shared -> id_of s <> Some i) ->
       forall k, has k o = true -> has k c = true).
Proof.
  unfold merge_ok. induction locals as [|c r IH]; intros shared [|o outs] H; try discriminate.
  - intros [|n] c o Hc; discriminate.
  - cbn [entries_ok] in H. apply andb_prop in H as [H1 H2].
    intros [|n] c' o' Hc Ho.
    + injection Hc as <-. injection Ho as <-. intros i Hi Hno k Hk.
      rewrite Hi in H1. destruct (find_chain i shared) as [s|] eqn:Ef.
      * destruct (find_chain_sound _ _ _ Ef) as [A B]. exfalso. now apply (Hno s).
      * unfold entry_ok in H1. apply andb_prop in H1 as [_ H3].
        rewrite forallb_forall in H3.
        destruct (lookup k o) as [v|] eqn:El; [|unfold has in Hk; rewrite El in Hk; discriminate].
        apply lookup_some_in in El. specialize (H3 _ El). cbn [fst] in H3.
        apply orb_prop in H3 as [H3|H3]; [assumption|]. unfold has in H3. cbn in H3. discriminate.
    + cbn in Hc, Ho. now apply (IH shared outs H2 n).
Qed.

Lemma entries_ok_sound : forall locals shared outs, entries_ok locals shared outs = true ->
  List.length outs = List.length locals /\
  forall n c o, nth_error locals n = Some c -> nth_error outs n = Some o ->
    (forall k v, In (k, v) c -> lookup k o = Some v) /\
    (forall i s, id_of c = Some i -> find_chain i shared = Some s ->
       (forall k, has k c = false -> has k s = true -> lookup k o = lookup k s) /\
       (forall k, has k o = true -> has k c = true \/ has k s = true)).
Proof.
  induction locals as [|c r IH]; intros shared [|o outs] H; try discriminate.
  - split; [reflexivity|]. intros [|n] c o Hc; discriminate.
  - cbn [entries_ok] in H. apply andb_prop in H as [H1 H2].
    destruct (IH _ _ H2) as [Hlen Hall]. split; [cbn; now rewrite Hlen|].
    intros [|n] c' o' Hc Ho.
    + injection Hc as <-. injection Ho as <-.
      destruct (id_of c) as [i|] eqn:Ei.
      * destruct (find_chain i shared) as [s|] eqn:Ef.
        -- destruct (entry_ok_sound _ _ _ H1) as [A [B C]]. split; [exact A|].
           intros i' s' [= <-] Hf. rewrite Ef in Hf. injection Hf as <-. split; assumption.
        -- destruct (entry_ok_sound _ _ _ H1) as [A _]. split; [exact A|].
           intros i' s' [= <-] Hf. rewrite Ef in Hf. discriminate.
      * destruct (entry_ok_sound _ _ _ H1) as [A _]. split; [exact A|]. intros i' s' Hi. discriminate.
    + cbn in Hc, Ho. now apply (Hall n).
Qed.

(* ---------------------------------------------------------------------------------------------- *)
(* Key spelling: chain entries whose keys are written in any case *)

#[local] Arguments eq_ci : simpl never.

Lemma eq_ci_refl : forall k, eq_ci k k = true.
Proof. intro k. unfold eq_ci. apply String.eqb_refl. Qed.

Lemma lookup_in_ci : forall o k v, lookup k o = Some v -> In (k, v) (ci_entries k o).
Proof.
  intros o k v H. unfold ci_entries. apply filter_In. split.
  - now apply lookup_some_in.
  - cbn. apply eq_ci_refl.
Qed.

Lemma lookup_fold_hd : forall k o,
  lookup_fold k o = option_map snd (hd_error (ci_entries k o)).
Proof.
  intros k o. induction o as [|[k' v'] o IH]; [reflexivity|].
  unfold ci_entries in *. cbn [lookup_fold filter fst]. destruct (eq_ci k' k); [reflexivity|exact IH].
Qed.

Lemma lookup_ci_in_values : forall k o v, lookup_ci k o = Some v -> In v (ci_values k o).
Proof.
  intros k o v. unfold lookup_ci, ci_values.
  destruct (lookup k o) as [w|] eqn:E.
  - intros [= <-]. apply lookup_in_ci in E. now apply (in_map snd) in E.
  - rewrite lookup_fold_hd. destruct (ci_entries k o) as [|[s w] r]; [discriminate|].
    cbn. intros [= <-]. now left.
Qed.

Lemma lookup_ci_none_values : forall k o, lookup_ci k o = None -> ci_values k o = [].
Proof.
  intros k o. unfold lookup_ci, ci_values.
  destruct (lookup k o) as [w|]; [discriminate|].
  rewrite lookup_fold_hd. destruct (ci_entries k o) as [|[s w] r]; [reflexivity|discriminate].
Qed.

Lemma ids_valid_values : forall o,
  ids_valid o = forallb id_value_valid (ci_values "id" o).
Proof.
  induction o as [|[k v] o IH]; [reflexivity|].
  unfold ids_valid, ci_values, ci_entries in *. cbn [forallb filter fst snd].
  destruct (eq_ci k "id"); cbn [map snd forallb]; now rewrite IH.
Qed.

Lemma ids_valid_iff : forall o,
  ids_valid o = true <-> forall v, In v (ci_values "id" o) -> id_value_valid v = true.
Proof. intro o. rewrite ids_valid_values. apply forallb_forall. Qed.

(* an entry that writes the id once - under whatever spelling of the key *)
Lemma single_id_lookup : forall o s v, ci_entries "id" o = [(s, v)] ->
  lookup_ci "id" o = Some v /\ ids_valid o = id_value_valid v.
Proof.
  intros o s v H. split.
  - unfold lookup_ci. destruct (lookup "id" o) as [w|] eqn:E.
    + apply lookup_in_ci in E. rewrite H in E. destruct E as [[= _ ->]|[]]. reflexivity.
    + rewrite lookup_fold_hd, H. reflexivity.
  - rewrite ids_valid_values. unfold ci_values. rewrite H. cbn. now rewrite andb_true_r.
Qed.

Lemma validate_doc_some : forall d cfg, validate_doc d = Some cfg ->
  (cd_shared d = true -> loader_pre (cd_entry d) = true) /\
  ids_valid (cd_entry d) = true /\ validate (doc_in d) = Some cfg.
Proof.
  intros d cfg. unfold validate_doc, validate_doc_with.
  destruct (cd_shared d); cbn [andb].
  - destruct (loader_pre (cd_entry d)); cbn [negb]; [|discriminate].
    destruct (ids_valid (cd_entry d)); cbn [negb]; [|discriminate]. auto.
  - destruct (ids_valid (cd_entry d)); cbn [negb]; [|discriminate]. intro H. split; [discriminate|auto].
Qed.

Lemma doc_none_iff : forall d,
  validate_doc d = None <->
  ((cd_shared d = true /\ loader_pre (cd_entry d) = false) \/
   (exists v, In v (ci_values "id" (cd_entry d)) /\ id_value_valid v = false) \/
   validate (doc_in d) = None).
Proof.
  intro d. unfold validate_doc, validate_doc_with.
  destruct (cd_shared d && negb (loader_pre (cd_entry d))) eqn:E1.
  { split; auto. intros _. left. apply andb_prop in E1 as [-> E1]. split; auto.
    now destruct (loader_pre (cd_entry d)). }
  destruct (ids_valid (cd_entry d)) eqn:E2; cbn [negb].
  - split; auto. intros [[Hs Hl]|[[v [Hin Hv]]|H]]; auto.
    + rewrite Hs, Hl in E1. discriminate.
    + rewrite (proj1 (ids_valid_iff _) E2 v Hin) in Hv. discriminate.
  - split; auto. intros _. right. left.
    rewrite ids_valid_values in E2.
    assert (Hex : existsb (fun v => negb (id_value_valid v)) (ci_values "id" (cd_entry d)) = true).
    { clear -E2. induction (ci_values "id" (cd_entry d)) as [|a l IH]; [discriminate|].
      cbn in *. destruct (id_value_valid a); cbn in *; auto. }
    apply existsb_exists in Hex as [v [Hin Hv]]. exists v. split; auto. now destruct (id_value_valid v).
Qed.

(* the id of an accepted configuration is one of the numbers written under a spelling of "id", it is
   a domain id, and every value written under any spelling passed the range check *)
Lemma doc_id_written : forall d cfg, validate_doc d = Some cfg ->
  In (JNum (cc_id cfg)) (ci_values "id" (cd_entry d)) /\ 0 <= cc_id cfg <= 255 /\
  (forall v, In v (ci_values "id" (cd_entry d)) -> id_value_valid v = true).
Proof.
  intros d cfg H. apply validate_doc_some in H as (_ & Hv & H).
  pose proof (validate_with_some _ _ _ _ H) as (Hm & _).
  destruct (chain_id_value _ _ H) as [Hid Hr].
  split; [|split; [exact Hr|now apply ids_valid_iff]].
  cbn in Hm, Hid. destruct (lookup_ci "id" (cd_entry d)) as [v|] eqn:E.
  - subst v. now apply lookup_ci_in_values.
  - rewrite orb_true_r in Hm. discriminate.
Qed.

(* restated over entries with any spelling of the key: with the id written once as (s, v), s any
   spelling of "id", the id check passes and yields i iff v is the integer i in 0..255 *)
Lemma doc_id_accept_iff : forall d s v i, ci_entries "id" (cd_entry d) = [(s, v)] ->
  (ids_valid (cd_entry d) = true /\ accept_id (ci_id (doc_in d)) = Some i) <->
  exists z, v = JNum z /\ 0 <= z <= 255 /\ i = z.
Proof.
  intros d s v i H. destruct (single_id_lookup _ _ _ H) as [Hl Hv].
  cbn [doc_in ci_id]. rewrite Hl, Hv. rewrite <- accept_id_iff. split.
  - now intros [_ Ha].
  - intro Ha. split; [|exact Ha].
    apply accept_id_iff in Ha as [z [-> [Hz _]]]. cbn. lia.
Qed.

Lemma doc_single_id_value : forall d s v cfg, ci_entries "id" (cd_entry d) = [(s, v)] ->
  validate_doc d = Some cfg -> v = JNum (cc_id cfg) /\ 0 <= cc_id cfg <= 255.
Proof.
  intros d s v cfg H Hd. destruct (doc_id_written _ _ Hd) as [Hin [Hr _]].
  unfold ci_values in Hin. rewrite H in Hin. destruct Hin as [Hin|[]]. cbn in Hin. auto.
Qed.

Lemma num_field_values : forall k o, forallb (fun kv : string * jv =>
    if eq_ci (fst kv) k then match snd kv with JNum _ => true | _ => false end else true) o = true ->
  match num_field k o with
  | Some z => In (JNum z) (ci_values k o)
  | None => ci_values k o = []
  end.
Proof.
  intros k o Hwf. unfold num_field. destruct (lookup_ci k o) as [v|] eqn:E.
  - pose proof (lookup_ci_in_values _ _ _ E) as Hin.
    assert (Hn : match v with JNum _ => True | _ => False end).
    { unfold ci_values, ci_entries in Hin. apply in_map_iff in Hin as [[s w] [Hw Hin]].
      cbn in Hw. subst w. apply filter_In in Hin as [Hin Hs]. cbn in Hs.
      rewrite forallb_forall in Hwf. specialize (Hwf _ Hin). cbn in Hwf. rewrite Hs in Hwf.
      destruct v; try discriminate. exact I. }
    destruct v; try contradiction. exact Hin.
  - now apply lookup_ci_none_values.
Qed.

Lemma doc_wf_key : forall d k, doc_wf d = true -> numeric_key k = true ->
  (forall s, eq_ci s k = true -> numeric_key s = true) ->
  forallb (fun kv : string * jv =>
    if eq_ci (fst kv) k then match snd kv with JNum _ => true | _ => false end else true) (cd_entry d) = true.
Proof.
  intros d k Hwf Hk Hs. unfold doc_wf in Hwf. rewrite forallb_forall in *.
  intros [s v] Hin. specialize (Hwf _ Hin). cbn in *.
  destruct (eq_ci s k) eqn:E; [|reflexivity]. now rewrite (Hs _ E) in Hwf.
Qed.

Lemma eq_ci_numeric : forall k, numeric_key k = true -> forall s, eq_ci s k = true -> numeric_key s = true.
Proof.
  intros k Hk s Hs. unfold numeric_key, eq_ci in *. apply String.eqb_eq in Hs. now rewrite Hs.
Qed.

Lemma field_ok_any_default : forall dflt o vs, 1 <= dflt -> 1 <= with_default dflt o ->
  match o with Some z => In (JNum z) vs | None => vs = [] end ->
  field_ok_any vs (with_default dflt o) = true.
Proof.
  intros dflt o vs Hd Hp Hin. destruct o as [z|].
  - unfold field_ok_any. destruct vs as [|a l]; [destruct Hin|].
    apply existsb_exists. exists (JNum z). split; [exact Hin|].
    now apply field_ok_default.
  - subst vs. cbn in *. lia.
Qed.

Lemma doc_ok_model : forall d, doc_wf d = true -> doc_ok d (model_doc d) = true.
Proof.
  intros d Hwf. unfold model_doc, obs_of.
  destruct (validate_doc d) as [cfg|] eqn:E; [|reflexivity].
  destruct (doc_id_written _ _ E) as [Hin [Hr _]].
  apply validate_doc_some in E as (_ & _ & E).
  destruct (validate_positive _ _ E) as [Hi Hc].
  destruct (validate_values _ _ E) as [Hs [Hvi Hvc]].
  destruct (calc_start_total (cc_start cfg) (cc_interval cfg) Hi) as [z [Hz _]].
  unfold doc_ok. rewrite Hz. cbn [doc_in ci_kind ci_interval ci_confs ci_start] in *.
  assert (F0 : id_ok_any (ci_values "id" (cd_entry d)) (cc_id cfg) = true).
  { unfold id_ok_any.
    assert (Hin' : In (JNum (cc_id cfg)) (filter is_num (ci_values "id" (cd_entry d)))).
    { apply filter_In. split; [exact Hin|reflexivity]. }
    destruct (filter is_num (ci_values "id" (cd_entry d))) as [|a l] eqn:Ef; [reflexivity|].
    apply existsb_exists. exists (JNum (cc_id cfg)). split; [exact Hin'|].
    cbn. rewrite Z.eqb_refl. lia. }
  rewrite F0. cbn [andb].
  assert (K1 : numeric_key "blockInterval" = true) by reflexivity.
  assert (K2 : numeric_key "blockConfirmations" = true) by reflexivity.
  assert (K3 : numeric_key "startBlock" = true) by reflexivity.
  pose proof (num_field_values _ _ (doc_wf_key d _ Hwf K1 (eq_ci_numeric _ K1))) as N1.
  pose proof (num_field_values _ _ (doc_wf_key d _ Hwf K2 (eq_ci_numeric _ K2))) as N2.
  pose proof (num_field_values _ _ (doc_wf_key d _ Hwf K3 (eq_ci_numeric _ K3))) as N3.
  assert (F1 : field_ok_any (ci_values "blockInterval" (cd_entry d)) (cc_interval cfg) = true).
  { rewrite Hvi. apply field_ok_any_default; [unfold default_interval; lia|now rewrite <- Hvi|exact N1]. }
  rewrite F1.
  assert (F3 : start_ok_any (ci_values "startBlock" (cd_entry d)) (cc_start cfg) = true).
  { rewrite Hs. unfold start_ok_any.
    destruct (num_field "startBlock" (cd_entry d)) as [w|].
    - destruct (ci_values "startBlock" (cd_entry d)) as [|a l]; [destruct N3|].
      apply existsb_exists. exists (JNum w). split; [exact N3|]. cbn. apply Z.eqb_refl.
    - rewrite N3. reflexivity. }
  rewrite F3.
  destruct (uses_confs (cd_kind d)) eqn:Eu.
  - specialize (Hc eq_refl). specialize (Hvc eq_refl).
    assert (F2 : field_ok_any (ci_values "blockConfirmations" (cd_entry d)) (cc_confs cfg) = true).
    { rewrite Hvc. apply field_ok_any_default; [unfold default_confs; lia|now rewrite <- Hvc|exact N2]. }
    rewrite F2. lia.
  - lia.
Qed.

(* the judge does not depend on the order in which the entry is listed *)
Lemma existsb_rev : forall (A : Type) (f : A -> bool) l, existsb f (rev l) = existsb f l.
Proof.
  intros A f l. induction l as [|a l IH]; [reflexivity|].
  cbn. rewrite existsb_app, IH. cbn. rewrite orb_false_r. apply orb_comm.
Qed.

Lemma filter_rev' : forall (A : Type) (f : A -> bool) l, filter f (rev l) = rev (filter f l).
Proof.
  intros A f l. induction l as [|a l IH]; [reflexivity|].
  cbn. rewrite filter_app, IH. cbn. destruct (f a); cbn; [reflexivity|apply app_nil_r].
Qed.

Lemma ci_values_rev : forall k o, ci_values k (rev o) = rev (ci_values k o).
Proof. intros k o. unfold ci_values, ci_entries. now rewrite filter_rev', map_rev. Qed.

Lemma rev_is_nil : forall (A : Type) (l : list A), rev l = [] -> l = [].
Proof. intros A l H. apply (f_equal (@rev A)) in H. now rewrite rev_involutive in H. Qed.

Lemma id_ok_any_rev : forall vs got, id_ok_any (rev vs) got = id_ok_any vs got.
Proof.
  intros vs got. unfold id_ok_any. rewrite filter_rev'.
  destruct (filter is_num vs) as [|a l] eqn:E; [reflexivity|].
  destruct (rev (a :: l)) as [|b m] eqn:Er; [apply rev_is_nil in Er; discriminate|].
  rewrite <- Er. apply existsb_rev.
Qed.

Lemma field_ok_any_rev : forall vs got, field_ok_any (rev vs) got = field_ok_any vs got.
Proof.
  intros vs got. unfold field_ok_any. destruct vs as [|a l]; [reflexivity|].
  destruct (rev (a :: l)) as [|b m] eqn:Er; [apply rev_is_nil in Er; discriminate|].
  rewrite <- Er. apply existsb_rev.
Qed.

Lemma start_ok_any_rev : forall vs got, start_ok_any (rev vs) got = start_ok_any vs got.
Proof.
  intros vs got. unfold start_ok_any. destruct vs as [|a l]; [reflexivity|].
  destruct (rev (a :: l)) as [|b m] eqn:Er; [apply rev_is_nil in Er; discriminate|].
  rewrite <- Er. apply existsb_rev.
Qed.

Lemma doc_ok_rev : forall d o, doc_ok (rev_doc d) o = doc_ok d o.
Proof.
  intros d [[cfg r]|]; [|reflexivity]. unfold doc_ok, rev_doc. cbn [cd_entry cd_kind].
  now rewrite !ci_values_rev, id_ok_any_rev, !field_ok_any_rev, start_ok_any_rev.
Qed.

Lemma forallb_rev : forall (A : Type) (f : A -> bool) l, forallb f (rev l) = forallb f l.
Proof.
  intros A f l. induction l as [|a l IH]; [reflexivity|].
  cbn. rewrite forallb_app, IH. cbn. rewrite andb_true_r. apply andb_comm.
Qed.

Lemma doc_wf_rev : forall d, doc_wf (rev_doc d) = doc_wf d.
Proof. intro d. unfold doc_wf, rev_doc. cbn [cd_entry]. apply forallb_rev. Qed.

(* whichever order Go visits the map in, the judge accepts what the model does *)
Lemma doc_ok_model_any_order : forall d, doc_wf d = true ->
  doc_ok d (model_doc d) = true /\ doc_ok d (model_doc (rev_doc d)) = true.
Proof.
  intros d Hwf. split; [now apply doc_ok_model|].
  rewrite <- doc_ok_rev. apply doc_ok_model. now rewrite doc_wf_rev.
Qed.

Lemma existsb_num_in : forall (P : Z -> bool) vs,
  existsb (fun v => match v with JNum z => P z | _ => false end) vs = true ->
  exists z, In (JNum z) vs /\ P z = true.
Proof.
  intros P vs H. apply existsb_exists in H as [v [Hin Hv]].
  destruct v as [z| | |]; try discriminate. now exists z.
Qed.

Lemma field_ok_any_sound : forall vs got, field_ok_any vs got = true ->
  (vs = [] /\ 1 <= got) \/ exists z, In (JNum z) vs /\ (z <> 0 -> got = z) /\ (z = 0 -> 1 <= got).
Proof.
  intros vs got. unfold field_ok_any. destruct vs as [|a l].
  - cbn. intro H. left. split; [reflexivity|lia].
  - intro H. right. apply existsb_num_in in H as [z [Hin Hz]]. exists z. split; [exact Hin|].
    cbn in Hz. destruct (z =? 0) eqn:E; split; intros; lia.
Qed.

Lemma doc_ok_sound : forall d cfg r, doc_ok d (Some (cfg, r)) = true ->
  let e := cd_entry d in
  ((exists v, In v (ci_values "id" e) /\ is_num v = true) ->
   In (JNum (cc_id cfg)) (ci_values "id" e) /\ 0 <= cc_id cfg <= 255) /\
  1 <= cc_interval cfg /\
  ((ci_values "blockInterval" e = [] /\ 1 <= cc_interval cfg) \/
   exists z, In (JNum z) (ci_values "blockInterval" e) /\ (z <> 0 -> cc_interval cfg = z) /\ (z = 0 -> 1 <= cc_interval cfg)) /\
  (uses_confs (cd_kind d) = true ->
   1 <= cc_confs cfg /\
   ((ci_values "blockConfirmations" e = [] /\ 1 <= cc_confs cfg) \/
    exists z, In (JNum z) (ci_values "blockConfirmations" e) /\ (z <> 0 -> cc_confs cfg = z) /\ (z = 0 -> 1 <= cc_confs cfg))) /\
  ((ci_values "startBlock" e = [] /\ cc_start cfg = 0) \/ In (JNum (cc_start cfg)) (ci_values "startBlock" e)) /\
  r <> Panic.
Proof.
  intros d cfg r. unfold doc_ok. intro H. cbn zeta.
  apply andb_prop in H as [H Hr]. apply andb_prop in H as [H Hs].
  apply andb_prop in H as [H Hc]. apply andb_prop in H as [H Hfi]. apply andb_prop in H as [Hid Hi].
  split; [|split; [lia|split; [now apply field_ok_any_sound|split; [|split]]]].
  - intros [v [Hin Hn]]. unfold id_ok_any in Hid.
    assert (Hin' : In v (filter is_num (ci_values "id" (cd_entry d)))) by (apply filter_In; auto).
    destruct (filter is_num (ci_values "id" (cd_entry d))) as [|a l] eqn:Ef; [destruct Hin'|].
    apply existsb_exists in Hid as [w [Hw Hok]]. rewrite <- Ef in Hw. apply filter_In in Hw as [Hw Hwn].
    destruct w as [z| | |]; cbn in Hok, Hwn; try discriminate.
    assert (cc_id cfg = z) by lia. subst z. split; [exact Hw|lia].
  - intro Eu. rewrite Eu in Hc. apply andb_prop in Hc as [Hc1 Hc2]. split; [lia|now apply field_ok_any_sound].
  - unfold start_ok_any in Hs. destruct (ci_values "startBlock" (cd_entry d)) as [|a l] eqn:E.
    + left. split; [reflexivity|lia].
    + right. apply existsb_num_in in Hs as [z [Hin Hz]]. assert (cc_start cfg = z) by lia. now subst z.
  - destruct r; discriminate.
Qed.

(* using an accepted configuration leaves it as loaded - entries of any spelling *)
Lemma use_ok_model_doc : forall d n, use_ok (model_doc d) (model_after (model_doc d) n) = true.
Proof.
  intros d n. unfold model_doc, obs_of. destruct (validate_doc d) as [cfg|] eqn:E; [|reflexivity].
  apply validate_doc_some in E as (_ & _ & E).
  unfold model_after, use_chain, use_ok. cbn [ca_cfg ca_rest_same ca_calcs].
  assert (Hc : chain_cfg_eqb cfg cfg = true) by now apply chain_cfg_eqb_eq.
  rewrite Hc. cbn [andb].
  destruct (start_block_total _ _ E) as [z [Hz _]]. rewrite Hz.
  apply forallb_forall. intros r Hr. apply repeat_spec in Hr. now subst r.
Qed.

(* what goes wrong when the validator looks the key up exactly while the decoder folds case *)
Lemma exact_id_lookup_refuted :
  exists d cfg, doc_wf d = true /\ ci_entries "id" (cd_entry d) = [("Id"%string, JNum 257)] /\
    exact_validate_doc d = Some cfg /\ cc_id cfg = 1 /\
    doc_ok d (exact_model_doc d) = false /\ validate_doc d = None.
Proof.
  exists (mkDoc Evm false false [("Id"%string, JNum 257); ("type"%string, JStr "evm")]), (mkChainCfg 1 5 10 0).
  vm_compute. repeat split; reflexivity.
Qed.

(* an entry spelled as documented and loaded directly is what the constructors' model says *)
Lemma validate_doc_canonical : forall k miss v i c s,
  validate_doc (mkDoc k false miss
     ([("id"%string, v)] ++ match i with Some z => [("blockInterval"%string, JNum z)] | None => [] end
      ++ match c with Some z => [("blockConfirmations"%string, JNum z)] | None => [] end
      ++ match s with Some z => [("startBlock"%string, JNum z)] | None => [] end))
  = if id_value_valid v then validate (mkChainIn k miss v i c s) else None.
Proof.
  intros k miss v i c s. unfold validate_doc, validate_doc_with. cbn [cd_shared andb cd_entry].
  destruct i as [zi|], c as [zc|], s as [zs|]; destruct (id_value_valid v) eqn:E;
    unfold ids_valid; cbn; rewrite ?E; cbn; try reflexivity;
    unfold doc_in, num_field, lookup_ci; cbn; rewrite ?orb_false_r; reflexivity.
Qed.

Local Open Scope string_scope.
(* ---------------------------------------------------------------------------------------------- *)
(* String-valued settings *)

Lemma string_roundtrip : forall r s, s <> EmptyString -> load_string r (Some s) = Some s.
Proof.
  intros r s Hs. unfold load_string. cbn [written_text].
  destruct (String.eqb s "") eqn:E; [apply String.eqb_eq in E; contradiction|reflexivity].
Qed.

Lemma load_string_none_iff : forall r w,
  load_string r w = None <-> (r = Required /\ written_text w = EmptyString).
Proof.
  intros r w. unfold load_string. destruct (String.eqb (written_text w) "") eqn:E.
  - apply String.eqb_eq in E. destruct r; split; intro H; try discriminate; auto;
      destruct H as [H _]; discriminate.
  - apply String.eqb_neq in E. split; [discriminate|]. intros [_ H]. contradiction.
Qed.

Lemma str_ok_load : forall r w s, load_string r w = Some s -> str_ok r w s = true.
Proof.
  intros r w s H. unfold load_string in H. unfold str_ok.
  destruct (String.eqb (written_text w) "") eqn:E.
  - destruct r; inversion H; subst; cbn; rewrite ?String.eqb_refl; auto using orb_true_r.
  - inversion H; subst. apply String.eqb_refl.
Qed.

Lemma strs_ok_list_model : forall ws, existsb missing_required ws = false ->
  strs_ok_list ws (map (fun rw : str_rule * option string =>
                          match load_string (fst rw) (snd rw) with Some s => s | None => "" end) ws) = true.
Proof.
  induction ws as [|[r w] ws IH]; intro H; [reflexivity|].
  cbn [existsb] in H. apply orb_false_elim in H as [H1 H2].
  cbn [map strs_ok_list fst snd]. rewrite IH by assumption. rewrite andb_true_r.
  unfold missing_required in H1. cbn [fst snd] in H1.
  destruct (load_string r w) eqn:E; [|discriminate]. now apply str_ok_load.
Qed.

Lemma strs_ok_model : forall ws, strs_ok ws (load_strings ws) = true.
Proof.
  intro ws. unfold load_strings. destruct (existsb missing_required ws) eqn:E; [reflexivity|].
  cbn [strs_ok]. now apply strs_ok_list_model.
Qed.

(* every non-empty written text of an accepted configuration is loaded unchanged *)
Lemma strs_roundtrip : forall ws gs, load_strings ws = Some gs ->
  Forall2 (fun (rw : str_rule * option string) g =>
             forall s, snd rw = Some s -> s <> EmptyString -> g = s) ws gs.
Proof.
  intros ws gs H. unfold load_strings in H. destruct (existsb missing_required ws); [discriminate|].
  inversion H; subst. clear H. induction ws as [|[r w] ws IH]; constructor; [|exact IH].
  cbn [fst snd]. intros s -> Hs. now rewrite string_roundtrip.
Qed.

Lemma strs_ok_sound : forall ws gs, strs_ok ws (Some gs) = true ->
  Forall2 (fun (rw : str_rule * option string) g =>
             forall s, snd rw = Some s -> s <> EmptyString -> g = s) ws gs.
Proof.
  cbn [strs_ok]. induction ws as [|[r w] ws IH]; intros [|g gs] H; try discriminate; constructor.
  - cbn [strs_ok_list] in H. apply andb_prop in H as [H _]. cbn [snd]. intros s -> Hs.
    unfold str_ok in H. cbn [written_text] in H.
    destruct (String.eqb s "") eqn:E; [apply String.eqb_eq in E; contradiction|].
    now apply String.eqb_eq in H.
  - cbn [strs_ok_list] in H. apply andb_prop in H as [_ H]. now apply IH.
Qed.

Lemma parse_level_value : forall s l, parse_level s = Some l -> l = s /\ In s level_names.
Proof.
  intros s l H. unfold parse_level in H. destruct (existsb (String.eqb s) level_names) eqn:E; [|discriminate].
  inversion H; subst. split; [reflexivity|]. apply existsb_exists in E as [x [Hin Hx]].
  apply String.eqb_eq in Hx. now subst.
Qed.

Lemma level_ok_model : forall s, level_ok s (parse_level s) = true.
Proof.
  intro s. destruct (parse_level s) eqn:E; [|reflexivity]. apply parse_level_value in E as [-> _].
  apply String.eqb_refl.
Qed.

Lemma level_ok_sound : forall s l, level_ok s (Some l) = true -> l = s.
Proof. intros s l H. now apply String.eqb_eq in H. Qed.
