(* C17 - concurrent use of one status store: an operation reads and writes only the keys it names
   (locality + frame), operations on different keys commute, and in EVERY interleaving each thread of
   a program with disjoint keys (plus shared executed / read-only keys) observes exactly what it
   would observe alone - which is what justifies judging each goroutine of the concurrent
   correspondence cases with the sequential judge on its own history. *)
From Coq Require Import List NArith Bool Lia PeanoNat.
Import ListNotations.
From SygmaV Require Import Model.C17 Proofs.C17.
Local Open Scope N_scope.

(* ---------------------------------------------------------------------------------------------- *)
(* locality: the result of a store call / loop / step depends only on the statuses of the keys it
   names *)

Definition sim (T : list key) (s1 s2 : sto) : Prop :=
  s_faults s1 = s_faults s2 /\ s_failed s1 = s_failed s2 /\ agree_on T (s_kv s1) (s_kv s2).

Lemma agree_on_refl : forall T m, agree_on T m m.
Proof. intros T m k _. reflexivity. Qed.

Lemma agree_on_sym : forall T a b, agree_on T a b -> agree_on T b a.
Proof. intros T a b H k Hk. symmetry. apply H. exact Hk. Qed.

Lemma agree_on_trans : forall T a b c, agree_on T a b -> agree_on T b c -> agree_on T a c.
Proof. intros T a b c H1 H2 k Hk. rewrite (H1 k Hk). apply H2. exact Hk. Qed.

Lemma agree_on_incl : forall T T' a b, incl T' T -> agree_on T a b -> agree_on T' a b.
Proof. intros T T' a b Hi H k Hk. apply H. apply Hi. exact Hk. Qed.

Lemma agree_on_set : forall T a b k v, agree_on T a b -> agree_on T (set a k v) (set b k v).
Proof. intros T a b k v H k' Hk'. rewrite !get_set. destruct (key_eqb k' k); [reflexivity|apply H; exact Hk']. Qed.

Lemma read_sim : forall T k s1 s2, In k T -> sim T s1 s2 ->
  fst (read k s1) = fst (read k s2) /\ sim T (snd (read k s1)) (snd (read k s2)).
Proof.
  intros T k [m1 f1 l1] [m2 f2 l2] Hk [Hf [Hl Ha]]. cbn [s_faults s_failed s_kv] in *. subst f2 l2.
  unfold read, next_fault. cbn [s_faults s_kv s_failed].
  destruct f1 as [|[|] r]; cbn [fst snd]; unfold sim; cbn [s_faults s_kv s_failed];
    rewrite ?(Ha k Hk); repeat split; auto.
Qed.

Lemma write_sim : forall T k v s1 s2, sim T s1 s2 ->
  fst (write k v s1) = fst (write k v s2) /\ sim T (snd (write k v s1)) (snd (write k v s2)).
Proof.
  intros T k v [m1 f1 l1] [m2 f2 l2] [Hf [Hl Ha]]. cbn [s_faults s_failed s_kv] in *. subst f2 l2.
  unfold write, next_fault. cbn [s_faults s_kv s_failed].
  destruct f1 as [|[|] r]; cbn [fst snd]; unfold sim; cbn [s_faults s_kv s_failed];
    repeat split; auto using agree_on_set.
Qed.

Lemma isx_sim : forall T k s1 s2, In k T -> sim T s1 s2 ->
  fst (is_executed_retry k s1) = fst (is_executed_retry k s2) /\
  sim T (snd (is_executed_retry k s1)) (snd (is_executed_retry k s2)).
Proof.
  intros T k s1 s2 Hk Hs. unfold is_executed_retry.
  destruct (read_sim T k s1 s2 Hk Hs) as [E S].
  destruct (read k s1) as [r1 a1], (read k s2) as [r2 a2]. cbn [fst snd] in E, S. subst r2.
  destruct r1 as [[| | |]|]; cbn [fst snd]; auto.
  destruct (write_sim T k Failed a1 a2 S) as [E' S'].
  destruct (write k Failed a1) as [o1 b1], (write k Failed a2) as [o2 b2]. cbn [fst snd] in *. subst o2. auto.
Qed.

Lemma filter_loop_sim : forall T sel src ds s1 s2,
  (forall d, In d ds -> In (dkey src d) T) -> sim T s1 s2 ->
  fst (filter_loop is_executed_retry sel src ds s1) = fst (filter_loop is_executed_retry sel src ds s2) /\
  sim T (snd (filter_loop is_executed_retry sel src ds s1)) (snd (filter_loop is_executed_retry sel src ds s2)).
Proof.
  intros T sel src. induction ds as [|d r IH]; intros s1 s2 Hin Hs; cbn [filter_loop].
  - auto.
  - destruct (sel d).
    + destruct (isx_sim T (dkey src d) s1 s2 (Hin d (or_introl eq_refl)) Hs) as [E S].
      destruct (is_executed_retry (dkey src d) s1) as [k1 a1], (is_executed_retry (dkey src d) s2) as [k2 a2].
      cbn [fst snd] in E, S. subst k2.
      destruct (IH a1 a2 (fun d0 H => Hin d0 (or_intror H)) S) as [E' S'].
      destruct (filter_loop is_executed_retry sel src r a1) as [e1 b1],
               (filter_loop is_executed_retry sel src r a2) as [e2 b2].
      cbn [fst snd] in *. subst e2. auto.
    + apply IH; [|exact Hs]. intros d0 H. apply Hin. right. exact H.
Qed.

Lemma pfe_loop_sim : forall T ks acc s1 s2,
  (forall k, In k ks -> In k T) -> sim T s1 s2 ->
  fst (pfe_loop ks acc s1) = fst (pfe_loop ks acc s2) /\ sim T (snd (pfe_loop ks acc s1)) (snd (pfe_loop ks acc s2)).
Proof.
  intros T. induction ks as [|k r IH]; intros acc s1 s2 Hin Hs; cbn [pfe_loop].
  - auto.
  - destruct (read_sim T k s1 s2 (Hin k (or_introl eq_refl)) Hs) as [E S].
    destruct (read k s1) as [r1 a1], (read k s2) as [r2 a2]. cbn [fst snd] in E, S. subst r2.
    destruct r1 as [v|]; [|auto].
    assert (Hr : forall k0, In k0 r -> In k0 T) by (intros k0 H; apply Hin; right; exact H).
    destruct (startable v).
    + destruct (write_sim T k Pending a1 a2 S) as [E' S'].
      destruct (write k Pending a1) as [o1 b1], (write k Pending a2) as [o2 b2]. cbn [fst snd] in *. subst o2.
      destruct o1; [apply IH; assumption|auto].
    + apply IH; assumption.
Qed.

Lemma store_loop_sim : forall T v ks s1 s2,
  (forall k, In k ks -> In k T) -> sim T s1 s2 -> sim T (store_loop true v ks s1) (store_loop true v ks s2).
Proof.
  intros T v. induction ks as [|k r IH]; intros s1 s2 Hin Hs; cbn [store_loop]; [exact Hs|].
  assert (Hr : forall k0, In k0 r -> In k0 T) by (intros k0 H; apply Hin; right; exact H).
  destruct (true && match v with Failed => true | _ => false end).
  - destruct (read_sim T k s1 s2 (Hin k (or_introl eq_refl)) Hs) as [E S].
    destruct (read k s1) as [r1 a1], (read k s2) as [r2 a2]. cbn [fst snd] in E, S. subst r2.
    destruct r1 as [cur|]; [|apply IH; assumption].
    destruct (is_exec cur); [apply IH; assumption|].
    apply IH; [assumption|]. apply write_sim. exact S.
  - apply IH; [assumption|]. apply write_sim. exact Hs.
Qed.

(* two states of one thread that differ only in store contents outside [T] *)
Definition state_sim (T : list key) (x1 x2 : state) : Prop :=
  locked x1 = locked x2 /\ batches x1 = batches x2 /\ s_faults (st x1) = s_faults (st x2) /\
  agree_on T (s_kv (st x1)) (s_kv (st x2)).

Lemma isx_of_eq : forall p, isx_of p = is_executed_retry.
Proof. destruct p; reflexivity. Qed.

Lemma step_sim : forall T o x1 x2, state_sim T x1 x2 -> incl (touched (batches x1) o) T ->
  snd (step o x1) = snd (step o x2) /\ state_sim T (fst (step o x1)) (fst (step o x2)) /\
  s_failed (st (fst (step o x1))) = s_failed (st (fst (step o x2))).
Proof.
  intros T o x1 x2 [Hl [Hb [Hf Ha]]] Hin.
  assert (Hs : sim T (clear (st x1)) (clear (st x2))) by (unfold sim, clear; cbn; auto).
  unfold step, step_gen. rewrite <- Hl, <- Hb.
  destruct o as [p src res dest ds|ks|i|i]; cbn [touched] in Hin.
  - unfold filter_deposits. rewrite isx_of_eq.
    destruct (filter_loop_sim T (sel_of p res dest) src ds _ _
                (fun d H => Hin _ (in_map (dkey src) ds d H)) Hs) as [E [S1 [S2 S3]]].
    destruct (filter_loop is_executed_retry (sel_of p res dest) src ds (clear (st x1))) as [e1 b1],
             (filter_loop is_executed_retry (sel_of p res dest) src ds (clear (st x2))) as [e2 b2].
    cbn [fst snd] in *. subst e2. unfold state_sim. cbn [fst snd locked batches st]. repeat split; auto.
  - destruct (locked x1).
    + unfold state_sim. cbn [fst snd locked batches st]. destruct Hs as [S1 [S2 S3]]. repeat split; auto.
    + destruct (pfe_loop_sim T ks [] _ _ Hin Hs) as [E [S1 [S2 S3]]].
      destruct (pfe_loop ks [] (clear (st x1))) as [r1 b1], (pfe_loop ks [] (clear (st x2))) as [r2 b2].
      cbn [fst snd] in *. subst r2. destruct r1; unfold state_sim; cbn [fst snd locked batches st]; repeat split; auto.
  - destruct (locked x1).
    + unfold state_sim. cbn [fst snd locked batches st]. destruct Hs as [S1 [S2 S3]]. repeat split; auto.
    + destruct (store_loop_sim T Executed (nth i (batches x1) []) _ _ Hin Hs) as [S1 [S2 S3]].
      unfold state_sim. cbn [fst snd locked batches st]. repeat split; auto.
  - destruct (locked x1).
    + unfold state_sim. cbn [fst snd locked batches st]. destruct Hs as [S1 [S2 S3]]. repeat split; auto.
    + destruct (store_loop_sim T Failed (nth i (batches x1) []) _ _ Hin Hs) as [S1 [S2 S3]].
      unfold state_sim. cbn [fst snd locked batches st]. repeat split; auto.
Qed.

(* ---------------------------------------------------------------------------------------------- *)
(* frame: the keys an operation does not name keep their status *)

Lemma read_kv : forall k s, s_kv (snd (read k s)) = s_kv s.
Proof. intros k s. destruct (read_cases k s) as [[R _]|[R _]]; rewrite R; reflexivity. Qed.

Lemma write_frame : forall k v s k', k' <> k -> get (s_kv (snd (write k v s))) k' = get (s_kv s) k'.
Proof.
  intros k v s k' Hk. destruct (write_cases k v s) as [[W _]|[W _]]; rewrite W; cbn [snd s_kv]; [reflexivity|].
  rewrite get_set. apply key_eqb_neq in Hk. rewrite Hk. reflexivity.
Qed.

Lemma isx_frame : forall k s k', k' <> k -> get (s_kv (snd (is_executed_retry k s))) k' = get (s_kv s) k'.
Proof.
  intros k s k' Hk. destruct (is_executed_retry k s) as [skip s'] eqn:H.
  destruct (isx_spec _ _ _ _ H) as [nf [_ [_ [_ [K1 _]]]]]. cbn [snd].
  destruct K1 as [K1|[_ K1]]; rewrite K1; [reflexivity|].
  rewrite get_set. apply key_eqb_neq in Hk. rewrite Hk. reflexivity.
Qed.

Lemma filter_loop_frame : forall sel src ds s k', ~ In k' (map (dkey src) ds) ->
  get (s_kv (snd (filter_loop is_executed_retry sel src ds s))) k' = get (s_kv s) k'.
Proof.
  intros sel src. induction ds as [|d r IH]; intros s k' Hk; cbn [filter_loop]; [reflexivity|].
  cbn [map] in Hk.
  assert (Hr : ~ In k' (map (dkey src) r)) by (intro H; apply Hk; right; exact H).
  destruct (sel d).
  - pose proof (isx_frame (dkey src d) s k') as F.
    destruct (is_executed_retry (dkey src d) s) as [skip s1]. cbn [snd] in F.
    specialize (IH s1 k' Hr).
    destruct (filter_loop is_executed_retry sel src r s1) as [em s2]. cbn [snd] in *.
    rewrite IH. apply F. intro E. apply Hk. left. symmetry. exact E.
  - apply IH. exact Hr.
Qed.

Lemma pfe_loop_frame : forall ks acc s k', ~ In k' ks ->
  get (s_kv (snd (pfe_loop ks acc s))) k' = get (s_kv s) k'.
Proof.
  induction ks as [|k r IH]; intros acc s k' Hk; cbn [pfe_loop]; [reflexivity|].
  assert (Hr : ~ In k' r) by (intro H; apply Hk; right; exact H).
  assert (Hne : k' <> k) by (intro E; apply Hk; left; symmetry; exact E).
  pose proof (read_kv k s) as R. destruct (read k s) as [[v|] s1]; cbn [snd] in *; [|rewrite R; reflexivity].
  destruct (startable v).
  - pose proof (write_frame k Pending s1 k' Hne) as W.
    destruct (write k Pending s1) as [[|] s2]; cbn [snd] in *.
    + rewrite IH by exact Hr. rewrite W, R. reflexivity.
    + rewrite W, R. reflexivity.
  - rewrite IH by exact Hr. rewrite R. reflexivity.
Qed.

Lemma store_loop_frame : forall v ks s k', ~ In k' ks ->
  get (s_kv (store_loop true v ks s)) k' = get (s_kv s) k'.
Proof.
  intros v. induction ks as [|k r IH]; intros s k' Hk; cbn [store_loop]; [reflexivity|].
  assert (Hr : ~ In k' r) by (intro H; apply Hk; right; exact H).
  assert (Hne : k' <> k) by (intro E; apply Hk; left; symmetry; exact E).
  destruct (true && match v with Failed => true | _ => false end).
  - pose proof (read_kv k s) as R. destruct (read k s) as [[cur|] s1]; cbn [snd] in *.
    + destruct (is_exec cur).
      * rewrite IH by exact Hr. rewrite R. reflexivity.
      * rewrite IH by exact Hr. rewrite (write_frame k v s1 k' Hne), R. reflexivity.
    + rewrite IH by exact Hr. rewrite R. reflexivity.
  - rewrite IH by exact Hr. apply write_frame. exact Hne.
Qed.

Lemma step_frame : forall o x k', ~ In k' (touched (batches x) o) ->
  get (s_kv (st (fst (step o x)))) k' = get (s_kv (st x)) k'.
Proof.
  intros o x k' Hk. unfold step, step_gen. destruct o as [p src res dest ds|ks|i|i]; cbn [touched] in Hk.
  - unfold filter_deposits. rewrite isx_of_eq.
    pose proof (filter_loop_frame (sel_of p res dest) src ds (clear (st x)) k' Hk) as F.
    destruct (filter_loop is_executed_retry (sel_of p res dest) src ds (clear (st x))) as [em s'].
    cbn [fst snd st] in *. exact F.
  - destruct (locked x); [reflexivity|].
    pose proof (pfe_loop_frame ks [] (clear (st x)) k' Hk) as F.
    destruct (pfe_loop ks [] (clear (st x))) as [[sel|] s']; cbn [fst snd st] in *; exact F.
  - destruct (locked x); [reflexivity|]. cbn [fst st].
    apply (store_loop_frame Executed _ (clear (st x))). exact Hk.
  - destruct (locked x); [reflexivity|]. cbn [fst st].
    apply (store_loop_frame Failed _ (clear (st x))). exact Hk.
Qed.

Lemma is_exec_eq : forall v, is_exec v = true -> v = Executed.
Proof. destruct v; cbn; intro H; try discriminate; reflexivity. Qed.

(* a key keeps its status through an operation if the operation does not name it, or it is recorded
   executed, or it is not pending and the operation is a retry *)
Definition is_retry (o : op) : bool := match o with Retry _ _ _ _ _ => true | _ => false end.

Lemma step_quiet : forall o x k, wf_op o = true ->
  ~ In k (touched (batches x) o) \/ is_exec (get (s_kv (st x)) k) = true \/
  (is_retry o = true /\ is_pending (get (s_kv (st x)) k) = false) ->
  get (s_kv (st (fst (step o x)))) k = get (s_kv (st x)) k.
Proof.
  intros o x k Hwf [H|[H|[Hr H]]].
  - apply step_frame. exact H.
  - pose proof (step_ext o x k H) as H'. apply is_exec_eq in H, H'. congruence.
  - destruct o as [p src res dest ds|ks|i|i]; try discriminate.
    cbn [wf_op] in Hwf. apply andb_true_iff in Hwf. destruct Hwf as [Hnd _].
    destruct (step_retry p src res dest ds x Hnd) as [em [s' [E [_ [[_ Fr] _]]]]].
    rewrite E. cbn [fst st]. destruct (Fr k) as [Q|[Q _]]; [exact Q|].
    rewrite Q in H. discriminate.
Qed.

(* the proposals a delivery selects are among those delivered and were not recorded executed *)
Lemma pfe_loop_sel : forall ks acc s sel s', pfe_loop ks acc s = (Some sel, s') ->
  forall k, In k sel -> In k acc \/ (In k ks /\ is_exec (get (s_kv s) k) = false).
Proof.
  induction ks as [|k0 r IH]; intros acc s sel s' H k Hk; cbn [pfe_loop] in H.
  - injection H as <- <-. left. apply in_rev. exact Hk.
  - destruct (read_cases k0 s) as [[R _]|[R _]]; rewrite R in H; [discriminate|].
    destruct (startable (get (s_kv s) k0)) eqn:St.
    + destruct (write_cases k0 Pending (mkSto (s_kv s) (tl (s_faults s)) (s_failed s))) as [[W _]|[W _]];
        rewrite W in H; [discriminate|].
      destruct (IH _ _ _ _ H k Hk) as [[A|A]|[A B]].
      * subst k0. right. split; [left; reflexivity|]. destruct (get (s_kv s) k); try discriminate; reflexivity.
      * left. exact A.
      * right. split; [right; exact A|]. cbn [s_kv] in B. rewrite get_set in B.
        destruct (key_eqb k k0) eqn:E; [|exact B].
        apply key_eqb_eq in E. subst k0. destruct (get (s_kv s) k); try discriminate; reflexivity.
    + destruct (IH _ _ _ _ H k Hk) as [A|[A B]]; [left; exact A|].
      right. split; [right; exact A|exact B].
Qed.

Lemma step_batches : forall o x b, In b (batches (fst (step o x))) ->
  In b (batches x) \/
  (exists ks, o = Deliver ks /\ forall k, In k b -> In k ks /\ is_exec (get (s_kv (st x)) k) = false).
Proof.
  intros o x b Hb. unfold step, step_gen in Hb. destruct o as [p src res dest ds|ks|i|i].
  - destruct (filter_deposits p src res dest ds (clear (st x))) as [em s']. left. exact Hb.
  - destruct (locked x); [left; exact Hb|].
    destruct (pfe_loop ks [] (clear (st x))) as [[sel|] s'] eqn:P; cbn [fst batches] in Hb; [|left; exact Hb].
    apply in_app_or in Hb. destruct Hb as [Hb|[Hb|[]]]; [left; exact Hb|]. subst b.
    right. exists ks. split; [reflexivity|]. intros k Hk.
    destruct (pfe_loop_sel _ _ _ _ _ P k Hk) as [A|A]; [destruct A|exact A].
  - destruct (locked x); left; exact Hb.
  - destruct (locked x); left; exact Hb.
Qed.

(* ---------------------------------------------------------------------------------------------- *)
(* operations on different keys commute *)

Lemma with_kv_id : forall x, with_kv (s_kv (st x)) x = x.
Proof. intros [[m f l] lk bs]. reflexivity. Qed.

Lemma with_kv_kv : forall m x, s_kv (st (with_kv m x)) = m.
Proof. reflexivity. Qed.

Lemma with_kv_batches : forall m x, batches (with_kv m x) = batches x.
Proof. reflexivity. Qed.

Lemma state_sim_with_kv : forall T m1 m2 x, agree_on T m1 m2 -> state_sim T (with_kv m1 x) (with_kv m2 x).
Proof. intros T m1 m2 x H. unfold state_sim, with_kv. cbn. auto. Qed.

Lemma memk_dec : forall (k : key) (l : list key), In k l \/ ~ In k l.
Proof. intros k l. destruct (memk k l) eqn:E; [left; apply memk_In; exact E|right; apply memk_false; exact E]. Qed.

(* the thread-local part of a state (everything but the shared store contents) *)
Definition local (x : state) := (s_faults (st x), s_failed (st x), locked x, batches x).

Lemma step_frame_kv : forall o x m x' ou, step o (with_kv m x) = (x', ou) ->
  forall k, ~ In k (touched (batches x) o) -> get (s_kv (st x')) k = get m k.
Proof.
  intros o x m x' ou H k Hk. replace x' with (fst (step o (with_kv m x))) by (rewrite H; reflexivity).
  rewrite step_frame; [reflexivity|]. exact Hk.
Qed.

Lemma step_sim_kv : forall o x m1 m2 y1 u1 y2 u2,
  agree_on (touched (batches x) o) m1 m2 ->
  step o (with_kv m1 x) = (y1, u1) -> step o (with_kv m2 x) = (y2, u2) ->
  u1 = u2 /\ local y1 = local y2 /\ agree_on (touched (batches x) o) (s_kv (st y1)) (s_kv (st y2)).
Proof.
  intros o x m1 m2 y1 u1 y2 u2 Ha H1 H2.
  destruct (step_sim (touched (batches x) o) o _ _ (state_sim_with_kv _ _ _ x Ha)) as [E [[L [B [F K]]] Fl]].
  { rewrite with_kv_batches. apply incl_refl. }
  rewrite H1, H2 in *. cbn [fst snd] in *. split; [exact E|]. split; [|exact K].
  unfold local. rewrite F, Fl, L, B. reflexivity.
Qed.

Lemma disjoint_commute : forall o1 o2 x1 x2 m xa oua xb oub xb' oub' xa' oua',
  (forall k, In k (touched (batches x1) o1) -> ~ In k (touched (batches x2) o2)) ->
  step o1 (with_kv m x1) = (xa, oua) -> step o2 (with_kv (s_kv (st xa)) x2) = (xb, oub) ->
  step o2 (with_kv m x2) = (xb', oub') -> step o1 (with_kv (s_kv (st xb')) x1) = (xa', oua') ->
  oua = oua' /\ oub = oub' /\ local xa = local xa' /\ local xb = local xb' /\
  forall k, get (s_kv (st xb)) k = get (s_kv (st xa')) k.
Proof.
  intros o1 o2 x1 x2 m xa oua xb oub xb' oub' xa' oua' Hd Ha Hb Hb' Ha'.
  (* o2 after o1 sees on its keys what it sees on m, and conversely *)
  assert (A2 : agree_on (touched (batches x2) o2) (s_kv (st xa)) m).
  { intros k Hk. apply (step_frame_kv _ _ _ _ _ Ha). intro H. exact (Hd k H Hk). }
  assert (A1 : agree_on (touched (batches x1) o1) m (s_kv (st xb'))).
  { intros k Hk. symmetry. apply (step_frame_kv _ _ _ _ _ Hb'). apply Hd. exact Hk. }
  destruct (step_sim_kv _ _ _ _ _ _ _ _ A2 Hb Hb') as [Eb [Lb Kb]].
  destruct (step_sim_kv _ _ _ _ _ _ _ _ A1 Ha Ha') as [Ea [La Ka]].
  repeat split; try assumption.
  intro k. destruct (memk_dec k (touched (batches x1) o1)) as [H1|H1];
    [|destruct (memk_dec k (touched (batches x2) o2)) as [H2|H2]].
  - (* a key of o1: o2 leaves it alone *)
    rewrite <- (Ka k H1). apply (step_frame_kv _ _ _ _ _ Hb). apply Hd. exact H1.
  - rewrite (Kb k H2). symmetry. apply (step_frame_kv _ _ _ _ _ Ha'). exact H1.
  - rewrite (step_frame_kv _ _ _ _ _ Hb k H2), (step_frame_kv _ _ _ _ _ Ha k H1),
            (step_frame_kv _ _ _ _ _ Ha' k H1), (step_frame_kv _ _ _ _ _ Hb' k H2). reflexivity.
Qed.

(* ---------------------------------------------------------------------------------------------- *)
(* any interleaving: every thread sees what it would see alone *)

Lemma nth_error_upd_same : forall (A : Type) (l : list A) i a b, nth_error l i = Some b -> nth_error (upd i a l) i = Some a.
Proof.
  intros A. induction l as [|c r IH]; intros [|i] a b H; cbn in *; try discriminate; [reflexivity|].
  eapply IH. exact H.
Qed.

Lemma nth_error_upd_other : forall (A : Type) (l : list A) i j a, i <> j -> nth_error (upd i a l) j = nth_error l j.
Proof.
  intros A. induction l as [|c r IH]; intros [|i] [|j] a H; cbn; try reflexivity; try congruence.
  apply IH. congruence.
Qed.

Section Layout.
  Variable Ks : list (list key).
  Variables RE RO : list key.

  Definition Disj : Prop :=
    (forall i j k, i <> j -> In k (nth i Ks []) -> ~ In k (nth j Ks [])) /\
    (forall i k, In k (nth i Ks []) -> ~ In k RE /\ ~ In k RO).

  Definition Inv (c : cstate) : Prop :=
    (forall i t, nth_error (snd c) i = Some t -> thread_ok (nth i Ks []) RE RO t = true) /\
    (forall k, In k RE -> is_exec (get (fst c) k) = true) /\
    (forall k, In k RO -> is_pending (get (fst c) k) = false).

  Lemma view_cases : forall i k, In k (view Ks RE RO i) <-> In k (nth i Ks []) \/ In k RE \/ In k RO.
  Proof. intros i k. unfold view. rewrite !in_app_iff. tauto. Qed.

  Lemma subk_In : forall a b k, subk a b = true -> In k a -> In k b.
  Proof. intros a b k H Hk. unfold subk in H. rewrite forallb_forall in H. apply memk_In. apply H. exact Hk. Qed.

  (* what [thread_ok] says about the next operation of a thread *)
  Lemma thread_ok_head : forall K x o r, thread_ok K RE RO (mkThread x (o :: r)) = true ->
    wf_op o = true /\ op_own K RE RO o = true /\ locked x = false /\
    (forall b, In b (batches x) -> forall k, In k b -> In k K) /\
    (forall x', locked x' = false -> (forall b, In b (batches x') -> forall k, In k b -> In k K) ->
                thread_ok K RE RO (mkThread x' r) = true).
  Proof.
    intros K x o r H. unfold thread_ok in H. cbn [t_ops t_x forallb] in H.
    rewrite !andb_true_iff in H. destruct H as [[[[Hw Hwr] [Ho Hor]] Hb] Hl].
    apply negb_true_iff in Hl. rewrite forallb_forall in Hb.
    repeat split; try assumption.
    - intros b Hin k Hk. eapply subk_In; [apply Hb; exact Hin|exact Hk].
    - intros x' Hl' Hb'. unfold thread_ok. cbn [t_ops t_x]. rewrite Hwr, Hor, Hl'. cbn [andb negb].
      rewrite andb_true_r. apply forallb_forall. intros b Hin. unfold subk. apply forallb_forall.
      intros k Hk. apply memk_In. eapply Hb'; eassumption.
  Qed.

  (* the keys the next operation of thread i can touch: its own, and shared ones under the layout's
     conditions *)
  Lemma touched_own : forall K x o k,
    op_own K RE RO o = true -> (forall b, In b (batches x) -> forall k, In k b -> In k K) ->
    In k (touched (batches x) o) ->
    In k K \/ In k RE \/ (In k RO /\ is_retry o = true).
  Proof.
    intros K x o k Ho Hb Hk. destruct o as [p src res dest ds|ks|i|i]; cbn [touched op_own is_retry] in *.
    - rewrite forallb_forall in Ho. specialize (Ho k Hk). rewrite !orb_true_iff, !memk_In in Ho. tauto.
    - rewrite forallb_forall in Ho. specialize (Ho k Hk). rewrite !orb_true_iff, !memk_In in Ho. tauto.
    - left. destruct (nth_in_or_default i (batches x) []) as [H|H]; [eapply Hb; eassumption|].
      rewrite H in Hk. destruct Hk.
    - left. destruct (nth_in_or_default i (batches x) []) as [H|H]; [eapply Hb; eassumption|].
      rewrite H in Hk. destruct Hk.
  Qed.

  Lemma touched_in_view : forall i x o,
    op_own (nth i Ks []) RE RO o = true -> (forall b, In b (batches x) -> forall k, In k b -> In k (nth i Ks [])) ->
    incl (touched (batches x) o) (view Ks RE RO i).
  Proof.
    intros i x o Ho Hb k Hk. apply view_cases.
    destruct (touched_own _ _ _ _ Ho Hb Hk) as [H|[H|[H _]]]; tauto.
  Qed.

  (* one step of thread j: the invariant is kept and the views of the others are untouched *)
  Lemma cstep_inv : forall j c c' ob, Disj -> Inv c -> cstep j c = (c', Some ob) ->
    Inv c' /\ (forall i, i <> j -> agree_on (view Ks RE RO i) (fst c') (fst c)) /\
    (forall i, i <> j -> nth_error (snd c') i = nth_error (snd c) i) /\
    exists x o r, nth_error (snd c) j = Some (mkThread x (o :: r)) /\
      nth_error (snd c') j = Some (mkThread (fst (step o (with_kv (fst c) x))) r) /\
      ob = (snd (step o (with_kv (fst c) x)), s_failed (st (fst (step o (with_kv (fst c) x)))),
            s_kv (st (fst (step o (with_kv (fst c) x))))) /\
      fst c' = s_kv (st (fst (step o (with_kv (fst c) x)))).
  Proof.
    intros j [m ts] c' ob [D1 D2] [I1 [I2 I3]] H. unfold cstep in H. cbn [fst snd] in *.
    destruct (nth_error ts j) as [[x ops]|] eqn:Hj; [|discriminate].
    cbn [t_ops t_x] in H. destruct ops as [|o r]; [discriminate|].
    destruct (step o (with_kv m x)) as [x' ou] eqn:Hs. injection H as <- <-. cbn [fst snd].
    assert (Ex : x' = fst (step o (with_kv m x))) by (rewrite Hs; reflexivity).
    assert (Eo : ou = snd (step o (with_kv m x))) by (rewrite Hs; reflexivity).
    destruct (thread_ok_head _ _ _ _ (I1 j _ Hj)) as [Hwf [Hown [Hl [Hb Hnext]]]].
    (* which keys keep their status through this step *)
    assert (Q : forall k, In k RE \/ In k RO \/ (exists i, i <> j /\ In k (nth i Ks [])) ->
                         get (s_kv (st x')) k = get m k).
    { intros k Hk. rewrite Ex.
      change (get m k) with (get (s_kv (st (with_kv m x))) k). apply step_quiet; [exact Hwf|].
      rewrite with_kv_batches, with_kv_kv.
      destruct (is_exec (get m k)) eqn:Ee; [right; left; reflexivity|].
      destruct (memk_dec k (touched (batches x) o)) as [Ht|Ht]; [|left; exact Ht].
      destruct (touched_own _ _ _ _ Hown Hb Ht) as [T|[T|[T Tr]]].
      - (* a key of thread j *)
        exfalso. destruct Hk as [Hk|[Hk|[i [Hi Hk]]]].
        + exact (proj1 (D2 j k T) Hk).
        + exact (proj2 (D2 j k T) Hk).
        + exact (D1 i j k Hi Hk T).
      - rewrite (I2 k T) in Ee. discriminate.
      - right. right. split; [exact Tr|]. apply I3. exact T. }
    split; [|split; [|split]].
    - (* the invariant *)
      split; [|split]; cbn [fst snd].
      + intros i t Hi. destruct (Nat.eq_dec j i) as [<-|Hne].
        * rewrite (nth_error_upd_same _ _ _ _ _ Hj) in Hi. injection Hi as <-.
          apply Hnext.
          -- rewrite Ex. apply (step_unlocked o (with_kv m x)). exact Hl.
          -- intros b Hin k Hk. rewrite Ex in Hin. apply step_batches in Hin.
             destruct Hin as [Hin|[ks [-> Hsel]]]; [eapply Hb; eassumption|].
             destruct (Hsel k Hk) as [Hks Hne]. rewrite with_kv_kv in Hne.
             cbn [op_own] in Hown. rewrite forallb_forall in Hown. specialize (Hown k Hks).
             rewrite orb_true_iff, !memk_In in Hown. destruct Hown as [T|T]; [exact T|].
             rewrite (I2 k T) in Hne. discriminate.
        * rewrite (nth_error_upd_other _ _ _ _ _ Hne) in Hi. apply I1. exact Hi.
      + intros k Hk. rewrite Q by (left; exact Hk). apply I2. exact Hk.
      + intros k Hk. rewrite Q by (right; left; exact Hk). apply I3. exact Hk.
    - intros i Hi k Hk. apply view_cases in Hk. apply Q. destruct Hk as [Hk|[Hk|Hk]]; [|tauto|tauto].
      right. right. exists i. split; assumption.
    - intros i Hi. apply nth_error_upd_other. congruence.
    - exists x, o, r. rewrite <- Ex, <- Eo. repeat split.
      eapply nth_error_upd_same. exact Hj.
  Qed.

  Lemma cstep_none : forall j c c', cstep j c = (c', None) -> c' = c.
  Proof.
    intros j [m ts] c' H. unfold cstep in H. cbn [fst snd] in H.
    destruct (nth_error ts j) as [[x [|o r]]|]; cbn [t_ops t_x] in H; try (injection H as <-; reflexivity).
    destruct (step o (with_kv m x)). discriminate.
  Qed.

  (* the run of one thread from two store contents that agree on its view *)
  Lemma run_sim : forall i ops x1 x2,
    state_sim (view Ks RE RO i) x1 x2 ->
    forallb (op_own (nth i Ks []) RE RO) ops = true ->
    (forall b, In b (batches x1) -> forall k, In k b -> In k (view Ks RE RO i)) ->
    obs_sim (view Ks RE RO i) (run ops x1) (run ops x2) /\
    agree_on (view Ks RE RO i) (s_kv (st (final ops x1))) (s_kv (st (final ops x2))).
  Proof.
    intros i. induction ops as [|o r IH]; intros x1 x2 Hs Ho Hb.
    - split; [constructor|apply Hs].
    - cbn [forallb] in Ho. apply andb_true_iff in Ho. destruct Ho as [Ho Hor].
      assert (Hin : incl (touched (batches x1) o) (view Ks RE RO i)).
      { intros k Hk. destruct o as [p src res dest ds|ks|n|n]; cbn [touched op_own] in *.
        - rewrite forallb_forall in Ho. specialize (Ho k Hk). rewrite !orb_true_iff, !memk_In in Ho.
          apply view_cases. tauto.
        - rewrite forallb_forall in Ho. specialize (Ho k Hk). rewrite !orb_true_iff, !memk_In in Ho.
          apply view_cases. tauto.
        - destruct (nth_in_or_default n (batches x1) []) as [H|H]; [eapply Hb; eassumption|].
          rewrite H in Hk. destruct Hk.
        - destruct (nth_in_or_default n (batches x1) []) as [H|H]; [eapply Hb; eassumption|].
          rewrite H in Hk. destruct Hk. }
      destruct (step_sim _ o x1 x2 Hs Hin) as [Eo [Hs' Ef]].
      assert (Hb' : forall b, In b (batches (fst (step o x1))) -> forall k, In k b -> In k (view Ks RE RO i)).
      { intros b Hbin k Hk. apply step_batches in Hbin. destruct Hbin as [Hbin|[ks [-> Hsel]]]; [eapply Hb; eassumption|].
        apply Hin. cbn [touched]. apply (Hsel k Hk). }
      destruct (IH _ _ Hs' Hor Hb') as [R F].
      rewrite !run_cons, !final_run_cons. split; [|exact F].
      constructor; [|exact R]. cbn [fst snd]. split; [rewrite Eo, Ef; reflexivity|apply Hs'].
  Qed.

  Lemma obs_sim_trans : forall T a b c, obs_sim T a b -> obs_sim T b c -> obs_sim T a c.
  Proof.
    intros T a b c H. revert c. induction H as [|x y a b [E A] _ IH]; intros c Hc; inversion Hc as [|y' z b' c' [E' A'] Hr]; subst.
    - constructor.
    - constructor; [|apply IH; exact Hr]. split; [congruence|eapply agree_on_trans; eassumption].
  Qed.

  Lemma obs_sim_refl : forall T a, obs_sim T a a.
  Proof. intros T a. induction a; constructor; [split; [reflexivity|apply agree_on_refl]|assumption]. Qed.

  Lemma thread_ok_own : forall K t, thread_ok K RE RO t = true ->
    forallb (op_own K RE RO) (t_ops t) = true /\ (forall b, In b (batches (t_x t)) -> forall k, In k b -> In k K).
  Proof.
    intros K t H. unfold thread_ok in H. rewrite !andb_true_iff in H. destruct H as [[[_ Ho] Hb] _].
    split; [exact Ho|]. intros b Hin k Hk. rewrite forallb_forall in Hb. eapply subk_In; [apply Hb; exact Hin|exact Hk].
  Qed.

  Lemma forallb_firstn : forall (A : Type) (f : A -> bool) n l, forallb f l = true -> forallb f (firstn n l) = true.
  Proof.
    intros A f. induction n as [|n IH]; intros [|a l] H; cbn in *; try reflexivity.
    apply andb_true_iff in H. destruct H as [H1 H2]. rewrite H1. apply IH. exact H2.
  Qed.

  (* In every interleaving, what thread i observed is - on the keys it can name - the run of a prefix
     of its own operation list alone from the initial contents, and the final contents agree with the
     end of that solo run. *)
  Lemma conc_projection_gen : forall sched c i x ops, Disj -> Inv c ->
    nth_error (snd c) i = Some (mkThread x ops) ->
    exists n,
      obs_sim (view Ks RE RO i) (proj i (fst (crun sched c))) (run (firstn n ops) (with_kv (fst c) x)) /\
      agree_on (view Ks RE RO i) (fst (snd (crun sched c))) (s_kv (st (final (firstn n ops) (with_kv (fst c) x)))).
  Proof.
    induction sched as [|j rest IH]; intros c i x ops HD HI Hi.
    - exists 0%nat. cbn. split; [constructor|apply agree_on_refl].
    - cbn [crun]. destruct (cstep j c) as [c' [ob|]] eqn:Hc.
      + destruct (cstep_inv j c c' ob HD HI Hc) as [HI' [Hview [Hoth [xj [o [r [Hj [Hj' [Eob Em]]]]]]]]].
        destruct (Nat.eq_dec i j) as [->|Hne].
        * (* thread i itself steps *)
          rewrite Hi in Hj. injection Hj as <- ->.
          destruct (IH c' j _ _ HD HI' Hj') as [n [R F]].
          destruct (crun rest c') as [tr cf]. cbn [fst snd] in *.
          exists (S n). cbn [firstn]. rewrite run_cons, final_run_cons.
          rewrite Em, with_kv_id in R, F.
          split; [|exact F].
          unfold proj. cbn [filter fst]. rewrite Nat.eqb_refl. cbn [map snd].
          constructor; [|exact R]. rewrite Eob. cbn [fst snd]. split; [reflexivity|apply agree_on_refl].
        * (* another thread steps: the view of thread i is untouched *)
          assert (Hi' : nth_error (snd c') i = Some (mkThread x ops)) by (rewrite Hoth by exact Hne; exact Hi).
          destruct (IH c' i _ _ HD HI' Hi') as [n [R F]].
          destruct (crun rest c') as [tr cf]. cbn [fst snd] in *.
          exists n.
          assert (Hp : proj i ((j, ob) :: tr) = proj i tr).
          { unfold proj. cbn [filter fst]. destruct (Nat.eqb j i) eqn:E; [apply Nat.eqb_eq in E; congruence|reflexivity]. }
          rewrite Hp.
          destruct HI as [I1 _]. destruct (thread_ok_own _ _ (I1 i _ Hi)) as [Hown Hb]. cbn [t_ops t_x] in Hown, Hb.
          destruct (run_sim i (firstn n ops) (with_kv (fst c') x) (with_kv (fst c) x)) as [R' F'].
          -- apply state_sim_with_kv. apply Hview. exact Hne.
          -- apply forallb_firstn. exact Hown.
          -- intros b Hin k Hk. apply view_cases. left. eapply Hb; eassumption.
          -- split; [eapply obs_sim_trans; eassumption|eapply agree_on_trans; eassumption].
      + apply cstep_none in Hc. subst c'.
        destruct (IH c i _ _ HD HI Hi) as [n [R F]].
        destruct (crun rest c) as [tr cf]. cbn [fst snd] in *. exists n. split; assumption.
  Qed.
End Layout.

(* ---------------------------------------------------------------------------------------------- *)
(* from the boolean well-formedness of a concurrent case to the invariant *)

Lemma disjk_In : forall a b k, disjk a b = true -> In k a -> ~ In k b.
Proof.
  intros a b k H Hk. unfold disjk in H. rewrite forallb_forall in H. specialize (H k Hk).
  apply negb_true_iff in H. apply memk_false. exact H.
Qed.

Lemma nth_In_or_nil : forall (l : list (list key)) i, In (nth i l []) l \/ nth i l [] = [].
Proof. intros l i. destruct (nth_in_or_default i l []); auto. Qed.

Lemma pairwise_disj_nth : forall Ks i j k, pairwise_disj Ks = true -> i <> j ->
  In k (nth i Ks []) -> ~ In k (nth j Ks []).
Proof.
  induction Ks as [|a r IH]; intros i j k H Hne Hi Hj.
  - destruct i; destruct Hi.
  - cbn [pairwise_disj] in H. apply andb_true_iff in H. destruct H as [Ha Hr]. rewrite forallb_forall in Ha.
    destruct i as [|i], j as [|j]; cbn [nth] in Hi, Hj.
    + congruence.
    + destruct (nth_In_or_nil r j) as [N|N]; [|rewrite N in Hj; destruct Hj].
      exact (disjk_In _ _ _ (Ha _ N) Hi Hj).
    + destruct (nth_In_or_nil r i) as [N|N]; [|rewrite N in Hi; destruct Hi].
      exact (disjk_In _ _ _ (Ha _ N) Hj Hi).
    + apply (IH i j k Hr); [congruence|exact Hi|exact Hj].
Qed.

Lemma combine_nth_error : forall (Ks : list (list key)) (ts : list thread) i t,
  length Ks = length ts -> nth_error ts i = Some t -> In (nth i Ks [], t) (combine Ks ts).
Proof.
  induction Ks as [|a r IH]; intros [|t0 ts] i t Hl Hi; cbn in Hl; try discriminate.
  - destruct i; discriminate.
  - destruct i as [|i]; cbn in *.
    + injection Hi as <-. left. reflexivity.
    + right. apply IH; [lia|exact Hi].
Qed.

Lemma conc_wf_inv : forall Ks RE RO m ts, conc_wf Ks RE RO m ts = true ->
  Disj Ks RE RO /\ Inv Ks RE RO (m, ts).
Proof.
  intros Ks RE RO m ts H. unfold conc_wf in H. rewrite !andb_true_iff in H.
  destruct H as [[[[[Hlen Hpd] Hsh] Hre] Hro] Hth].
  apply Nat.eqb_eq in Hlen. rewrite forallb_forall in Hsh, Hre, Hro, Hth.
  split; [split|split; [|split]].
  - intros i j k Hne. apply pairwise_disj_nth; assumption.
  - intros i k Hk. destruct (nth_In_or_nil Ks i) as [N|N]; [|rewrite N in Hk; destruct Hk].
    specialize (Hsh _ N). apply andb_true_iff in Hsh. destruct Hsh as [A B].
    split; eapply disjk_In; eassumption.
  - intros i t Hi. cbn [snd] in Hi. apply (Hth (nth i Ks [], t)). apply combine_nth_error; assumption.
  - intros k Hk. apply Hre. exact Hk.
  - intros k Hk. cbn [fst]. apply negb_true_iff. apply Hro. exact Hk.
Qed.

Lemma conc_projection : forall Ks RE RO m ts sched i t,
  conc_wf Ks RE RO m ts = true -> nth_error ts i = Some t ->
  exists n,
    obs_sim (view Ks RE RO i) (proj i (fst (crun sched (m, ts)))) (run (firstn n (t_ops t)) (with_kv m (t_x t))) /\
    agree_on (view Ks RE RO i) (fst (snd (crun sched (m, ts))))
             (s_kv (st (final (firstn n (t_ops t)) (with_kv m (t_x t))))).
Proof.
  intros Ks RE RO m ts sched i [x ops] H Hi. destruct (conc_wf_inv _ _ _ _ _ H) as [HD HI].
  exact (conc_projection_gen Ks RE RO sched (m, ts) i x ops HD HI Hi).
Qed.

(* ---------------------------------------------------------------------------------------------- *)
(* the sequential judge cannot tell apart histories that agree on the keys the operations name *)

Lemma forallb_ext_in : forall (A : Type) (f g : A -> bool) l, (forall a, In a l -> f a = g a) -> forallb f l = forallb g l.
Proof.
  intros A f g. induction l as [|a r IH]; intro H; cbn [forallb]; [reflexivity|].
  rewrite (H a (or_introl eq_refl)), IH; [reflexivity|]. intros b Hb. apply H. right. exact Hb.
Qed.

Lemma keeps_executed_sim : forall V univ pre1 pre2 post1 post2,
  incl univ V -> agree_on V pre1 pre2 -> agree_on V post1 post2 ->
  keeps_executed univ pre1 post1 = keeps_executed univ pre2 post2.
Proof.
  intros V univ pre1 pre2 post1 post2 Hi Hp Hq. unfold keeps_executed. apply forallb_ext_in.
  intros k Hk. rewrite (Hp k (Hi k Hk)), (Hq k (Hi k Hk)). reflexivity.
Qed.

Lemma expected_retry_sim : forall V p src res dest ds pre1 pre2 failed,
  incl (map (dkey src) ds) V -> agree_on V pre1 pre2 ->
  expected_retry p src res dest ds pre1 failed = expected_retry p src res dest ds pre2 failed.
Proof.
  intros V p src res dest ds pre1 pre2 failed Hi Ha. unfold expected_retry. apply filter_ext_in.
  intros d Hd. rewrite (Ha (dkey src d)); [reflexivity|]. apply Hi. apply in_map. exact Hd.
Qed.

Lemma judge_step_sim : forall V univ o pre1 pre2 ou failed post1 post2,
  incl univ V -> incl (touched [] o) V -> agree_on V pre1 pre2 -> agree_on V post1 post2 ->
  judge_step univ pre2 o (ou, failed, post2) = true -> judge_step univ pre1 o (ou, failed, post1) = true.
Proof.
  intros V univ o pre1 pre2 ou failed post1 post2 Hu Ht Hp Hq H. unfold judge_step in *.
  rewrite (keeps_executed_sim V univ pre1 pre2 post1 post2 Hu Hp Hq).
  apply andb_true_iff in H. destruct H as [Hk H]. rewrite Hk. cbn [andb].
  destruct o as [p src res dest ds|ks|i|i]; try exact H.
  destruct ou as [em| | |]; try exact H. cbn [touched] in Ht.
  apply andb_true_iff in H. destruct H as [He Hs].
  rewrite (expected_retry_sim V p src res dest ds pre1 pre2 failed Ht Hp), He. cbn [andb].
  rewrite forallb_forall in Hs. apply forallb_forall. intros d Hd.
  rewrite (Hq (dkey src d)); [apply Hs; exact Hd|].
  apply (deps_perm_In _ _ d He) in Hd. apply In_regroup in Hd. unfold expected_retry in Hd.
  apply filter_In in Hd. apply Ht. apply in_map. apply Hd.
Qed.

Lemma hist_ok_sim : forall V univ ops pre1 pre2 obs1 obs2,
  incl univ V -> (forall o, In o ops -> incl (touched [] o) V) ->
  agree_on V pre1 pre2 -> obs_sim V obs1 obs2 ->
  hist_ok univ pre2 ops obs2 = true -> hist_ok univ pre1 ops obs1 = true.
Proof.
  intros V univ. induction ops as [|o r IH]; intros pre1 pre2 obs1 obs2 Hu Ht Hp Hs H;
    destruct Hs as [|[[ou1 f1] post1] [[ou2 f2] post2] obs1 obs2 [E A] Hs]; cbn [hist_ok] in *; try discriminate; [reflexivity|].
  cbn [fst snd] in E, A. injection E as -> ->.
  apply andb_true_iff in H. destruct H as [Hj Hr].
  rewrite (judge_step_sim V univ o pre1 pre2 ou2 f2 post1 post2 Hu (Ht o (or_introl eq_refl)) Hp A Hj).
  cbn [andb snd]. apply (IH post1 post2 obs1 obs2 Hu); try assumption.
  intros o' Ho'. apply Ht. right. exact Ho'.
Qed.

Lemma last_kv_run : forall ops x, last_kv (s_kv (st x)) (run ops x) = s_kv (st (final ops x)).
Proof.
  induction ops as [|o r IH]; intro x; [reflexivity|].
  rewrite run_cons, final_run_cons. cbn [last_kv snd]. apply IH.
Qed.

Lemma last_kv_sim : forall V obs1 obs2 pre1 pre2, agree_on V pre1 pre2 -> obs_sim V obs1 obs2 ->
  agree_on V (last_kv pre1 obs1) (last_kv pre2 obs2).
Proof.
  intros V obs1 obs2 pre1 pre2 Hp Hs. revert pre1 pre2 Hp.
  induction Hs as [|a b obs1 obs2 [_ A] _ IH]; intros pre1 pre2 Hp; cbn [last_kv]; [exact Hp|].
  apply IH. exact A.
Qed.

Lemma op_own_touched : forall i Ks RE RO o, op_own (nth i Ks []) RE RO o = true ->
  incl (touched [] o) (view Ks RE RO i).
Proof.
  intros i Ks RE RO o Ho k Hk. apply view_cases.
  destruct o as [p src res dest ds|ks|n|n]; cbn [touched op_own] in *.
  - rewrite forallb_forall in Ho. specialize (Ho k Hk). rewrite !orb_true_iff, !memk_In in Ho. tauto.
  - rewrite forallb_forall in Ho. specialize (Ho k Hk). rewrite !orb_true_iff, !memk_In in Ho. tauto.
  - destruct n; destruct Hk.
  - destruct n; destruct Hk.
Qed.

Lemma In_firstn : forall (A : Type) n (l : list A) a, In a (firstn n l) -> In a l.
Proof.
  intros A. induction n as [|n IH]; intros [|b l] a H; cbn in *; try contradiction.
  destruct H as [H|H]; [left; exact H|right; apply IH; exact H].
Qed.

(* In every interleaving the judge accepts every thread's own history, and what a thread last saw
   executed is executed in the final contents. *)
Lemma conc_judge_accepts : forall Ks RE RO m ts sched i t,
  conc_wf Ks RE RO m ts = true -> nth_error ts i = Some t ->
  exists n,
    thread_judge (view Ks RE RO i) m (firstn n (t_ops t)) (proj i (fst (crun sched (m, ts))))
                 (fst (snd (crun sched (m, ts)))) = true.
Proof.
  intros Ks RE RO m ts sched i t H Hi.
  destruct (conc_projection Ks RE RO m ts sched i t H Hi) as [n [R F]]. exists n.
  destruct (conc_wf_inv _ _ _ _ _ H) as [_ [I1 _]]. specialize (I1 i t Hi).
  pose proof I1 as I1'. unfold thread_ok in I1'. rewrite !andb_true_iff in I1'.
  destruct I1' as [[[Hwf Hown] _] Hl]. apply negb_true_iff in Hl.
  set (V := view Ks RE RO i) in *. set (x0 := with_kv m (t_x t)) in *.
  assert (Hm : hist_ok V (s_kv (st x0)) (firstn n (t_ops t)) (run (firstn n (t_ops t)) x0) = true).
  { apply hist_ok_model; [exact Hl|]. apply forallb_firstn. exact Hwf. }
  unfold thread_judge. apply andb_true_iff. split.
  - apply (hist_ok_sim V V _ m m _ _ (incl_refl V)) with (4 := Hm); [|apply agree_on_refl|exact R].
    intros o Ho. apply In_firstn in Ho. rewrite forallb_forall in Hown. apply op_own_touched. apply Hown. exact Ho.
  - rewrite (keeps_executed_sim V V _ (s_kv (st (final (firstn n (t_ops t)) x0))) _
               (s_kv (st (final (firstn n (t_ops t)) x0))) (incl_refl V)); [| |exact F].
    + apply keeps_executed_ext. apply ext_ok_refl.
    + rewrite <- last_kv_run. apply last_kv_sim; [apply agree_on_refl|exact R].
Qed.

(* executed is final in every interleaving of ANY threads (no condition on the keys they name) *)
Lemma conc_executed_absorbing : forall sched c k,
  is_exec (get (fst c) k) = true -> is_exec (get (fst (snd (crun sched c))) k) = true.
Proof.
  induction sched as [|j rest IH]; intros c k H; [exact H|].
  cbn [crun]. destruct (cstep j c) as [c' ob] eqn:Hc.
  assert (H' : is_exec (get (fst c') k) = true).
  { destruct c as [m ts]. unfold cstep in Hc. cbn [fst snd] in *.
    destruct (nth_error ts j) as [[x [|o r]]|]; cbn [t_ops t_x] in Hc; try (injection Hc as <- _; exact H).
    destruct (step o (with_kv m x)) as [x' ou] eqn:Hs. injection Hc as <- _. cbn [fst].
    replace x' with (fst (step o (with_kv m x))) by (rewrite Hs; reflexivity).
    apply step_ext. exact H. }
  specialize (IH c' k H'). destruct (crun rest c') as [tr cf]. cbn [fst snd] in *. exact IH.
Qed.

(* a witness for the non-vacuity example: two threads with their own keys, one shared executed key and
   one shared read-only key *)
Definition cw_Ks : list (list key) := [[(1, 2, 1); (1, 2, 2)]; [(1, 3, 1)]].
Definition cw_RE : list key := [(1, 2, 9)].
Definition cw_RO : list key := [(1, 3, 9)].
Definition cw_init : kv := [((1, 2, 9), Executed); ((1, 3, 9), Failed); ((1, 2, 1), Pending); ((1, 3, 1), Pending)].
Definition cw_t0 : thread :=
  mkThread (init_state [] [false; false; true])
           [Retry PEvm 1 7 2 [mkDep 2 1 7; mkDep 2 9 7; mkDep 2 2 7]; Deliver [(1, 2, 1); (1, 2, 9)]; ExecOk 0].
Definition cw_t1 : thread :=
  mkThread (init_state [] []) [Retry PV1 1 7 3 [mkDep 3 1 7; mkDep 3 9 7; mkDep 2 9 7]; Deliver [(1, 3, 1)]; ExecFail 0].
