(* C10 - proofs for sessions with a batch of processes. *)
From Coq Require Import List Arith Bool Lia.
Import ListNotations.
From SygmaV Require Import Model.C10 Proofs.C10.

(* stopped exactly once: the ledger of a lone session *)
Lemma session_events_once : forall k o, session_events_n k o 1 = session_events New k o.
Proof. intros k o. destruct k, o; reflexivity. Qed.

Lemma count_occ_seq_in : forall n k p, k <= p < k + n -> count_occ Nat.eq_dec (seq k n) p = 1.
Proof.
  induction n as [|n IH]; intros k p H; [lia|]. cbn [seq count_occ].
  destruct (Nat.eq_dec k p) as [He|He].
  - subst. f_equal. clear IH H. assert (G : forall m j, p < j -> count_occ Nat.eq_dec (seq j m) p = 0).
    { induction m as [|m IHm]; intros j Hj; [reflexivity|]. cbn [seq count_occ].
      destruct (Nat.eq_dec j p); [lia|]. apply IHm. lia. }
    apply G. lia.
  - apply IH. lia.
Qed.

(* with the per-iteration Stop every ledger of the batch is the ledger of a lone session of its kind *)
Lemma batch_ledgers_per_iteration : forall ks o,
  batch_ledgers PerIteration ks o = map (fun k => session_events New k o) ks.
Proof.
  intros ks o. unfold batch_ledgers, stop_targets.
  assert (G : forall base l n, base + length l <= n ->
    map (fun ik => session_events_n (snd ik) o (count_occ Nat.eq_dec (seq 0 n) (fst ik)))
        (combine (seq base (length l)) l) = map (fun k => session_events New k o) l).
  { intros base l. revert base. induction l as [|k l IH]; intros base n H; [reflexivity|].
    cbn [length seq combine map fst snd]. cbn [length] in H.
    rewrite count_occ_seq_in by lia. rewrite session_events_once. f_equal. apply IH. lia. }
  apply (G 0 ks (length ks)). lia.
Qed.

Lemma ledgers_ok_map : forall ks o, batch_feasible ks o = true ->
  batch_ledgers_ok ks (map (fun k => session_events New k o) ks) = true.
Proof.
  induction ks as [|k ks IH]; intros o H; [reflexivity|].
  cbn [batch_feasible forallb] in H. apply andb_prop in H. destruct H as [Hk Hks].
  cbn [map batch_ledgers_ok]. rewrite (session_ok_model k o Hk). apply IH. exact Hks.
Qed.

(* the model passes the judge: any number of processes, any kinds, every outcome feasible for all *)
Lemma batch_ok_model : forall ks o, batch_feasible ks o = true ->
  batch_ledgers_ok ks (batch_ledgers PerIteration ks o) = true.
Proof. intros ks o H. rewrite batch_ledgers_per_iteration. now apply ledgers_ok_map. Qed.

(* what the judge means: one ledger per process, each accepted by the judge of sessions *)
Lemma batch_ok_sound : forall ks ls, batch_ledgers_ok ks ls = true ->
  length ls = length ks /\
  forall i, i < length ks -> session_ok (nth i ks EcdsaSigning) (nth i ls []) = true.
Proof.
  induction ks as [|k ks IH]; intros ls H; destruct ls as [|l ls]; try discriminate H.
  - split; [reflexivity | intros i Hi; cbn in Hi; lia].
  - cbn [batch_ledgers_ok] in H. apply andb_prop in H. destruct H as [Hk Hks].
    destruct (IH ls Hks) as [Hlen Hall]. split; [cbn; now rewrite Hlen|].
    intros i Hi. destruct i as [|i]; [exact Hk|]. cbn [nth]. apply Hall. cbn in Hi. lia.
Qed.

(* ------------------------------------------------------------------------------------------ *)
(* the shared range variable: every Stop call of the cleanup acts on the LAST process *)
Lemma count_occ_repeat_other : forall q n p, p <> q -> count_occ Nat.eq_dec (repeat q n) p = 0.
Proof.
  intros q n p H. induction n as [|n IH]; [reflexivity|]. cbn [repeat count_occ].
  destruct (Nat.eq_dec q p); [subst; contradiction | exact IH].
Qed.

Lemma count_occ_repeat_same : forall q n, count_occ Nat.eq_dec (repeat q n) q = n.
Proof.
  intros q n. induction n as [|n IH]; [reflexivity|]. cbn [repeat count_occ].
  destruct (Nat.eq_dec q q); [now rewrite IH | contradiction].
Qed.

Lemma nth_batch_ledgers : forall c ks o i, i < length ks ->
  nth i (batch_ledgers c ks o) [] =
  session_events_n (nth i ks EcdsaSigning) o (count_occ Nat.eq_dec (stop_targets c (length ks)) i).
Proof.
  intros c ks o i Hi. unfold batch_ledgers.
  set (f := fun ik : nat * kind => session_events_n (snd ik) o (count_occ Nat.eq_dec (stop_targets c (length ks)) (fst ik))).
  rewrite (nth_indep _ [] (f (0, EcdsaSigning))) by (now rewrite map_length, combine_length, seq_length, Nat.min_id).
  rewrite map_nth. rewrite combine_nth by (now rewrite seq_length). rewrite seq_nth by exact Hi. reflexivity.
Qed.

(* a process that is never stopped: a constructor-locking kind keeps its lock - the judge rejects *)
Lemma never_stopped_leaks : forall k o, constructor_locks k = true -> feasible k o = true ->
  session_ok k (session_events_n k o 0) = false.
Proof. intros k o Hc Hf. destruct k; try discriminate Hc; destruct o; try discriminate Hf; vm_compute; reflexivity. Qed.

(* a process that is stopped twice or more: a constructor-locking kind unlocks the unlocked mutex *)
Lemma stopped_twice_fatal : forall k o n, constructor_locks k = true -> feasible k o = true ->
  mrun false (session_events_n k o (S (S n))) = MFatal.
Proof.
  intros k o n Hc Hf. destruct k; try discriminate Hc; destruct o; try discriminate Hf; reflexivity.
Qed.

Lemma stopped_twice_rejected : forall k o n, constructor_locks k = true -> feasible k o = true ->
  session_ok k (session_events_n k o (S (S n))) = false.
Proof. intros k o n Hc Hf. unfold session_ok. now rewrite stopped_twice_fatal. Qed.

Lemma ledgers_ok_nth_false : forall ks ls i, i < length ks ->
  session_ok (nth i ks EcdsaSigning) (nth i ls []) = false -> batch_ledgers_ok ks ls = false.
Proof.
  intros ks ls i Hi Hf. destruct (batch_ledgers_ok ks ls) eqn:E; [|reflexivity].
  destruct (batch_ok_sound ks ls E) as [_ Hall]. rewrite (Hall i Hi) in Hf. discriminate.
Qed.

(* in a batch of two or more, with the shared variable: a constructor-locking process that is not the
   last one is never stopped and leaks its lock ... *)
Lemma shared_stop_leaks : forall ks o i, batch_feasible ks o = true -> i < length ks - 1 ->
  constructor_locks (nth i ks EcdsaSigning) = true ->
  batch_ledgers_ok ks (batch_ledgers SharedVariable ks o) = false.
Proof.
  intros ks o i Hf Hi Hc. apply (ledgers_ok_nth_false _ _ i); [lia|].
  rewrite nth_batch_ledgers by lia. unfold stop_targets. rewrite count_occ_repeat_other by lia.
  apply never_stopped_leaks; [exact Hc|].
  unfold batch_feasible in Hf. rewrite forallb_forall in Hf. apply Hf. apply nth_In. lia.
Qed.

(* ... and a constructor-locking LAST process is stopped once per process: a fatal unlock *)
Lemma shared_stop_fatal : forall ks o, batch_feasible ks o = true -> 2 <= length ks ->
  constructor_locks (nth (length ks - 1) ks EcdsaSigning) = true ->
  batch_ledgers_ok ks (batch_ledgers SharedVariable ks o) = false /\
  mrun false (nth (length ks - 1) (batch_ledgers SharedVariable ks o) []) = MFatal.
Proof.
  intros ks o Hf Hn Hc.
  assert (Hk : feasible (nth (length ks - 1) ks EcdsaSigning) o = true).
  { unfold batch_feasible in Hf. rewrite forallb_forall in Hf. apply Hf. apply nth_In. lia. }
  assert (Hl : nth (length ks - 1) (batch_ledgers SharedVariable ks o) [] =
               session_events_n (nth (length ks - 1) ks EcdsaSigning) o (length ks)).
  { rewrite nth_batch_ledgers by lia. unfold stop_targets. now rewrite count_occ_repeat_same. }
  destruct (length ks) as [|[|n]] eqn:El; try lia.
  split.
  - apply (ledgers_ok_nth_false _ _ (S (S n) - 1)); [rewrite El; lia|].
    rewrite Hl. now apply stopped_twice_rejected.
  - rewrite Hl. now apply stopped_twice_fatal.
Qed.
