(* C19 - long-lived executor objects (history cases) and node latency: lemmas. *)
From Coq Require Import List ZArith NArith Bool String Lia Permutation.
Import ListNotations.
From SygmaV Require Import Model.C05 Model.C19 Proofs.C19.

(* ---- the judge of the history cases ------------------------------------------------------------------------ *)

Lemma hist_ok_sound {X : Type} (eqb : X -> X -> bool) fresh steps :
  (forall a b, eqb a b = true -> a = b) ->
  hist_ok eqb fresh steps = true ->
  forall i obs s, In (i, obs) steps -> In s obs -> exists f, nth_error fresh i = Some f /\ In s f.
Proof.
  intros Heq H i obs s Hst Hs. unfold hist_ok in H. rewrite forallb_forall in H.
  specialize (H (i, obs) Hst). cbn in H. destruct (nth_error fresh i) as [f|]; [|discriminate].
  exists f. split; [reflexivity|]. rewrite forallb_forall in H. specialize (H s Hs).
  apply existsb_exists in H as [x [Hx Hxs]]. apply Heq in Hxs. subst. exact Hx.
Qed.

(* two steps of one history that concern the same delivery: whatever either of them starts, the restarted
   relayer starts too - so a member list that the restarted relayer signs under ONE id is signed under that
   id at every step *)
Lemma hist_ok_same_id fresh steps i o1 o2 m s1 s2 f :
  hist_ok sess1_eqb fresh steps = true ->
  In (i, o1) steps -> In (i, o2) steps -> In (m, s1) o1 -> In (m, s2) o2 ->
  nth_error fresh i = Some f ->
  (forall a b, In a f -> In b f -> fst a = fst b -> a = b) ->
  s1 = s2.
Proof.
  intros H H1 H2 Hm1 Hm2 Hf Hfun.
  destruct (hist_ok_sound sess1_eqb fresh steps (fun a b => proj1 (sess1_eqb_eq a b)) H i o1 (m, s1) H1 Hm1) as [f1 [Hf1 Hin1]].
  destruct (hist_ok_sound sess1_eqb fresh steps (fun a b => proj1 (sess1_eqb_eq a b)) H i o2 (m, s2) H2 Hm2) as [f2 [Hf2 Hin2]].
  rewrite Hf in Hf1, Hf2. inversion Hf1; inversion Hf2; subst f1 f2.
  specialize (Hfun _ _ Hin1 Hin2 eq_refl). inversion Hfun. reflexivity.
Qed.

Lemma hist_ok_model {D X : Type} (eqb : X -> X -> bool) (f : D -> list X) dels seq :
  (forall a, eqb a a = true) ->
  hist_ok eqb (map f dels) (run_history f dels seq) = true.
Proof.
  intros Hrefl. unfold hist_ok, run_history. apply forallb_forall. intros [i obs] Hin.
  apply in_flat_map in Hin as [j [_ Hj]]. destruct (nth_error dels j) as [d|] eqn:Hd; [|contradiction].
  destruct Hj as [Hj|[]]. inversion Hj; subst. cbn.
  rewrite nth_error_map, Hd. cbn. apply forallb_forall. intros s Hs.
  apply existsb_exists. exists s. split; [exact Hs|apply Hrefl].
Qed.

(* the executor with a per-object counter of started session ids: the second time a long-running relayer is
   handed the (retried) delivery it signs under <mid>-0-1, its restarted peer under <mid>-0 *)
Lemma counted_sessions_refuted :
  exists mid cap tg (d : list (N * option N * bool)) seq,
    let f := fun d => evm_exec mid cap tg (mark d []) in
    hist_ok sess1_eqb (map f [d]) (run_history f [d] seq) = true /\
    hist_ok sess1_eqb (map f [d]) (counted_history f [d] [] seq) = false.
Proof.
  exists "1-2-101-101"%string, 250%N, 100%N, [((1%N, None), false); ((2%N, None), false); ((3%N, None), false)], [0%nat; 0%nat].
  cbv zeta. split; vm_compute; reflexivity.
Qed.

(* ---- latency -------------------------------------------------------------------------------------------------- *)

(* the judge accepts any number of relayers that do what the latency-free relayer does *)
Lemma faulty_ok_repeat {X : Type} (eqb : X -> X -> bool) ref n :
  (forall a, eqb a a = true) -> faulty_ok eqb ref (repeat ref n) = true.
Proof.
  intros Hrefl. apply faulty_ok_all_or_nothing; [exact Hrefl|].
  intros run Hrun. right. apply repeat_spec in Hrun. exact Hrun.
Qed.

(* answers arriving in delivery order: the side-by-side variant is the code *)
Lemma completion_pending_delivery_order {A : Type} (ps : list (@looked A)) :
  completion_pending ps (seq 0 (List.length ps)) = pending_of ps.
Proof.
  unfold completion_pending.
  assert (Hgen : forall (pre ps : list (@looked A)),
    (if existsb (fun p : looked => snd p) ps then None
     else Some (flat_map (fun i => match nth_error (pre ++ ps) i with Some (a, false, _) => [a] | _ => [] end)
                         (seq (List.length pre) (List.length ps)))) = pending_of ps).
  { intros pre ps0. revert pre. induction ps0 as [|[[a ex] f] r IH]; intros pre; [reflexivity|].
    cbn [existsb snd pending_of List.length seq flat_map]. destruct f; [reflexivity|]. cbn [orb].
    specialize (IH (pre ++ [(a, ex, false)])). rewrite <- app_assoc in IH. cbn [app] in IH.
    rewrite app_length in IH. cbn [List.length] in IH. rewrite Nat.add_1_r in IH.
    rewrite <- IH. destruct (existsb (fun p : looked => snd p) r); [reflexivity|].
    rewrite nth_error_app2 by lia. rewrite Nat.sub_diag. cbn [nth_error].
    destruct ex; reflexivity. }
  exact (Hgen [] ps).
Qed.

(* answers arriving in another order: another list is signed under the same session id *)
Lemma completion_order_refuted :
  exists mid (d : list (N * bool)) order,
    Permutation order (seq 0 (List.length d)) /\
    faulty_ok sess1_eqb (sub_exec mid (mark d [])) [sub_exec_completion mid (mark d []) order] = false.
Proof.
  exists "1-3-100-104"%string, [(10%N, false); (11%N, false); (12%N, true); (13%N, false)], [3%nat; 2%nat; 1%nat; 0%nat].
  split; [|vm_compute; reflexivity].
  cbn. apply Permutation_sym. change [3%nat; 2%nat; 1%nat; 0%nat] with (rev [0%nat; 1%nat; 2%nat; 3%nat]).
  apply Permutation_rev.
Qed.
