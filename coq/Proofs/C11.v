(* C11 - proofs about the model in Model/C11.v *)
From Coq Require Import List ZArith NArith Bool Lia Permutation.
Import ListNotations.
From SygmaV Require Import Model.C07 Proofs.C07 Model.C11.

(* induction principle for the nested error trees *)
Fixpoint err_ind' (P : err -> Prop) (H : forall k cs, Forall P cs -> P (Node k cs)) (e : err) : P e :=
  match e with
  | Node k cs =>
      H k cs ((fix go (l : list err) : Forall P l :=
                 match l with
                 | [] => Forall_nil P
                 | c :: r => Forall_cons c (err_ind' P H c) (go r)
                 end) cs)
  end.

Fixpoint find_map {A : Type} (f : kind -> option A) (l : list kind) : option A :=
  match l with
  | [] => None
  | k :: r => match f k with Some a => Some a | None => find_map f r end
  end.

Lemma find_map_app : forall (A : Type) (f : kind -> option A) a b,
  find_map f (a ++ b) = match find_map f a with Some x => Some x | None => find_map f b end.
Proof.
  intros A f a b. induction a as [|k r IH]; cbn [app find_map]; [reflexivity|].
  destruct (f k); [reflexivity | exact IH].
Qed.

Lemma kinds_node : forall k cs, kinds (Node k cs) = k :: flat_map kinds cs.
Proof.
  intros k cs. reflexivity.
Qed.

Lemma find_first_kinds : forall (A : Type) (f : kind -> option A) e,
  find_first f e = find_map f (kinds e).
Proof.
  intros A f. induction e as [k cs IH] using err_ind'.
  rewrite kinds_node. cbn [find_first find_map]. destruct (f k); [reflexivity|].
  induction cs as [|c r IHr]; cbn [flat_map find_map]; [reflexivity|].
  inversion IH as [|? ? Hc Hr]; subst. rewrite find_map_app, <- Hc.
  destruct (find_first f c); [reflexivity|]. apply IHr. exact Hr.
Qed.

(* classification as a function of the visiting order *)
Definition classify_l (ks : list kind) : action :=
  match find_map as_coord ks with
  | Some p => RetryExcluding [p]
  | None =>
  match find_map as_comm ks with
  | Some _ => RetryExcluding []
  | None =>
  match find_map as_tss ks with
  | Some (cs, ok) => if ok then RetryExcluding cs else GiveUpDecode
  | None =>
  match find_map as_subset ks with
  | Some _ => WaitForStart
  | None => GiveUp
  end end end end.

Lemma classify_kinds : forall e, classify e = classify_l (kinds e).
Proof.
  intros e. unfold classify, classify_l. repeat rewrite find_first_kinds. reflexivity.
Qed.

Definition ignores_other {A : Type} (f : kind -> option A) : Prop :=
  forall k, recognised k = false -> f k = None.

Lemma find_map_filter : forall (A : Type) (f : kind -> option A) l,
  ignores_other f -> find_map f l = find_map f (filter recognised l).
Proof.
  intros A f l Hf. induction l as [|k r IH]; cbn [filter find_map]; [reflexivity|].
  destruct (recognised k) eqn:Hk; cbn [find_map].
  - rewrite IH. reflexivity.
  - rewrite (Hf k Hk). exact IH.
Qed.

Lemma as_ignore : ignores_other as_coord /\ ignores_other as_comm /\ ignores_other as_tss /\ ignores_other as_subset.
Proof. repeat split; intros k Hk; destruct k; try discriminate; reflexivity. Qed.

Lemma classify_l_filter : forall l, classify_l l = classify_l (filter recognised l).
Proof.
  intros l. destruct as_ignore as [H1 [H2 [H3 H4]]]. unfold classify_l.
  rewrite <- (find_map_filter _ as_coord l H1), <- (find_map_filter _ as_comm l H2),
          <- (find_map_filter _ as_tss l H3), <- (find_map_filter _ as_subset l H4). reflexivity.
Qed.

Lemma classify_recognised_kinds : forall e, classify e = classify_l (recognised_kinds e).
Proof. intros e. rewrite classify_kinds. apply classify_l_filter. Qed.

(* exactly one recognised cause anywhere in the tree: its action, whatever the nesting *)
Lemma classify_single : forall e k, recognised_kinds e = [k] -> classify e = action_of_kind k.
Proof.
  intros e k H. rewrite classify_recognised_kinds, H.
  assert (Hr : recognised k = true).
  { assert (Hin : In k (recognised_kinds e)) by (rewrite H; left; reflexivity).
    unfold recognised_kinds in Hin. apply filter_In in Hin. tauto. }
  destruct k as [p|p|cs ok| |]; try discriminate; cbn; try reflexivity.
Qed.

Lemma classify_none : forall e, recognised_kinds e = [] -> classify e = GiveUp.
Proof. intros e H. rewrite classify_recognised_kinds, H. reflexivity. Qed.

(* every action other than giving up is the action of an error value contained in the tree *)
Lemma find_map_In : forall (A : Type) (f : kind -> option A) l a,
  find_map f l = Some a -> exists k, In k l /\ f k = Some a.
Proof.
  intros A f l a. induction l as [|k r IH]; cbn [find_map]; [discriminate|].
  destruct (f k) eqn:Hk.
  - intros H. inversion H; subst. exists k. split; [left; reflexivity | exact Hk].
  - intros H. destruct (IH H) as [k' [Hin Hf]]. exists k'. split; [right; exact Hin | exact Hf].
Qed.

Lemma classify_l_sound : forall l,
  classify_l l = GiveUp \/ exists k, In k l /\ recognised k = true /\ action_of_kind k = classify_l l.
Proof.
  intros l. unfold classify_l.
  destruct (find_map as_coord l) as [p|] eqn:H1.
  { right. destruct (find_map_In _ _ _ _ H1) as [k [Hin Hk]]. destruct k; try discriminate.
    inversion Hk; subst. eexists. split; [exact Hin|]. split; reflexivity. }
  destruct (find_map as_comm l) as [p|] eqn:H2.
  { right. destruct (find_map_In _ _ _ _ H2) as [k [Hin Hk]]. destruct k; try discriminate.
    eexists. split; [exact Hin|]. split; reflexivity. }
  destruct (find_map as_tss l) as [[cs ok]|] eqn:H3.
  { right. destruct (find_map_In _ _ _ _ H3) as [k [Hin Hk]]. destruct k; try discriminate.
    inversion Hk; subst. eexists. split; [exact Hin|]. split; reflexivity. }
  destruct (find_map as_subset l) as [u|] eqn:H4.
  { right. destruct (find_map_In _ _ _ _ H4) as [k [Hin Hk]]. destruct k; try discriminate.
    eexists. split; [exact Hin|]. split; reflexivity. }
  left. reflexivity.
Qed.

Lemma classify_sound : forall e,
  classify e = GiveUp \/
  exists k, In k (recognised_kinds e) /\ action_of_kind k = classify e.
Proof.
  intros e. rewrite classify_kinds. destruct (classify_l_sound (kinds e)) as [H|[k [Hin [Hr Ha]]]].
  - left. exact H.
  - right. exists k. split; [|exact Ha]. unfold recognised_kinds. apply filter_In. tauto.
Qed.

Lemma find_map_none : forall (A : Type) (f : kind -> option A) l,
  find_map f l = None -> forall k, In k l -> f k = None.
Proof.
  intros A f l. induction l as [|k r IH]; cbn [find_map]; intros H k' Hin; [destruct Hin|].
  destruct (f k) eqn:Hk; [discriminate|]. destruct Hin as [<-|Hin]; [exact Hk | apply IH; assumption].
Qed.

Lemma classify_giveup_iff : forall e, classify e = GiveUp <-> recognised_kinds e = [].
Proof.
  intros e. split; [|apply classify_none].
  rewrite classify_recognised_kinds. intros H.
  destruct (recognised_kinds e) as [|k r] eqn:Hk; [reflexivity|]. exfalso.
  assert (Hr : recognised k = true).
  { assert (Hin : In k (recognised_kinds e)) by (rewrite Hk; left; reflexivity).
    unfold recognised_kinds in Hin. apply filter_In in Hin. tauto. }
  unfold classify_l in H.
  destruct (find_map as_coord (k :: r)) eqn:H1; [discriminate|].
  destruct (find_map as_comm (k :: r)) eqn:H2; [discriminate|].
  destruct (find_map as_tss (k :: r)) as [[cs ok]|] eqn:H3; [destruct ok; discriminate|].
  destruct (find_map as_subset (k :: r)) eqn:H4; [discriminate|].
  pose proof (find_map_none _ _ _ H1 k (or_introl eq_refl)) as E1.
  pose proof (find_map_none _ _ _ H2 k (or_introl eq_refl)) as E2.
  pose proof (find_map_none _ _ _ H3 k (or_introl eq_refl)) as E3.
  pose proof (find_map_none _ _ _ H4 k (or_introl eq_refl)) as E4.
  destruct k; discriminate.
Qed.

(* joining with errors that contain no recognised cause (timeouts, watchdog, fail-message errors),
   on either side and at any depth, does not change the classification *)
Definition all_other (e : err) : Prop := recognised_kinds e = [].

Lemma recognised_kinds_node : forall k cs,
  recognised_kinds (Node k cs) = (if recognised k then [k] else []) ++ flat_map recognised_kinds cs.
Proof.
  intros k cs. unfold recognised_kinds. rewrite kinds_node. cbn [filter].
  assert (H : filter recognised (flat_map kinds cs) = flat_map (fun e => filter recognised (kinds e)) cs).
  { induction cs as [|c r IH]; cbn [flat_map]; [reflexivity|]. rewrite filter_app, IH. reflexivity. }
  rewrite H. destruct (recognised k); reflexivity.
Qed.

Lemma flat_map_all_other : forall ts, Forall all_other ts -> flat_map recognised_kinds ts = [].
Proof.
  intros ts H. induction H as [|t r Ht Hr IH]; cbn [flat_map]; [reflexivity|].
  rewrite Ht, IH. reflexivity.
Qed.

Lemma classify_join_others : forall ts e ts',
  Forall all_other ts -> Forall all_other ts' ->
  classify (pool_join (ts ++ e :: ts')) = classify e.
Proof.
  intros ts e ts' H1 H2. rewrite (classify_recognised_kinds (pool_join _)), (classify_recognised_kinds e).
  unfold pool_join. rewrite recognised_kinds_node. cbn [recognised app].
  rewrite flat_map_app. cbn [flat_map]. rewrite (flat_map_all_other ts H1), (flat_map_all_other ts' H2).
  cbn [app]. rewrite app_nil_r. reflexivity.
Qed.

Lemma classify_pool_join_single : forall e, classify (pool_join [e]) = classify e.
Proof. intros e. apply (classify_join_others [] e []); constructor. Qed.

(* the value handleError receives, as the pools build it *)
Lemma classify_as_seen : forall e,
  classify (pool_join [pool_join [e]]) = classify e
  /\ classify (pool_join [pool_join [Node KOther []]; pool_join [e]]) = classify e.
Proof.
  intros e. split.
  - rewrite classify_pool_join_single. apply classify_pool_join_single.
  - change [pool_join [Node KOther []]; pool_join [e]] with ([pool_join [Node KOther []]] ++ pool_join [e] :: []).
    rewrite classify_join_others.
    + apply classify_pool_join_single.
    + constructor; [reflexivity | constructor].
    + constructor.
Qed.

(* ---------------------------------------------------------------------------------------------- *)
(* before the repair *)

Lemma old_classify_join : forall errs, old_classify (pool_join errs) = GiveUp.
Proof. reflexivity. Qed.

Lemma old_never_retries : forall retryable holders errs,
  old_after_failure retryable holders (pool_join errs) = Returned.
Proof. intros. unfold old_after_failure, after_failure_with. destruct retryable; reflexivity. Qed.

Lemma old_refuted : exists holders e,
  recognised_kinds e = [KSubset] /\ old_after_failure true holders e = Returned
  /\ after_failure true holders e = Waited.
Proof. exists [0%N; 1%N], (pool_join [Node KSubset []]). repeat split. Qed.

(* ---------------------------------------------------------------------------------------------- *)

Lemma exclude_spec : forall holders ps p, In p (exclude holders ps) <-> In p holders /\ ~ In p ps.
Proof.
  intros holders ps p. unfold exclude. rewrite filter_In, negb_true_iff, memb_false_In. tauto.
Qed.

Lemma non_retryable_never_retries : forall holders e, after_failure false holders e = Returned.
Proof. reflexivity. Qed.

Lemma unknown_gives_up : forall retryable holders e,
  recognised_kinds e = [] -> after_failure retryable holders e = Returned.
Proof.
  intros retryable holders e H. unfold after_failure, after_failure_with.
  rewrite (classify_none e H). destruct retryable; reflexivity.
Qed.

Lemma left_out_waits : forall holders e,
  recognised_kinds e = [KSubset] -> after_failure true holders e = Waited.
Proof.
  intros holders e H. unfold after_failure, after_failure_with. rewrite (classify_single e _ H). reflexivity.
Qed.

Lemma waiting_accepts_any_start : forall f l,
  run_wait None Waiting [MStart f (Some l)] = (Running, [ORun l]).
Proof. reflexivity. Qed.

Lemma retried_iff : forall holders e cands ex,
  after_failure true holders e = Retried cands ex <->
  classify e = RetryExcluding ex /\ cands = exclude holders ex.
Proof.
  intros holders e cands ex. unfold after_failure, after_failure_with. cbn [negb].
  destruct (classify e) as [ps| | |]; split; intros H; try discriminate; try (destruct H; discriminate).
  - inversion H; subst. split; reflexivity.
  - destruct H as [H1 H2]. inversion H1; subst. reflexivity.
Qed.

Lemma culprits_excluded : forall holders e cands ex,
  after_failure true holders e = Retried cands ex ->
  (forall p, In p ex -> ~ In p cands)
  /\ (forall p, In p holders -> ~ In p ex -> In p cands)
  /\ (forall p, In p cands -> In p holders)
  /\ (forall (key : peer -> N) t self msgs calls S,
        In self holders -> ~ In self ex ->
        initiate key holders t ex [self] msgs = (calls, Some S) ->
        forall p, In p ex -> ~ In p S).
Proof.
  intros holders e cands ex H. apply retried_iff in H. destruct H as [_ ->]. repeat split.
  - intros p Hp Hc. apply exclude_spec in Hc. tauto.
  - intros p Hh Hn. apply exclude_spec. tauto.
  - intros p Hc. apply exclude_spec in Hc. tauto.
  - intros key t self msgs calls S Hsh Hse Hinit p Hp HS.
    pose proof (announced_subset_spec key holders t ex self msgs calls S Hsh Hse Hinit) as Hspec.
    destruct Hspec as [_ [_ [_ [_ [_ Hex]]]]]. exact (Hex p HS Hp).
Qed.

Lemma retry_causes : forall e ps,
  classify e = RetryExcluding ps ->
  exists k, In k (recognised_kinds e) /\
            (k = KCoord (hd 0%N ps) /\ ps = [hd 0%N ps] \/ (exists q, k = KComm q) /\ ps = [] \/ k = KTss ps true).
Proof.
  intros e ps H. destruct (classify_sound e) as [Hg|[k [Hin Ha]]]; [congruence|].
  exists k. split; [exact Hin|]. rewrite H in Ha. destruct k as [p|p|cs ok| |]; cbn in Ha; try discriminate.
  - inversion Ha; subst. left. split; reflexivity.
  - inversion Ha; subst. right. left. split; [eexists; reflexivity | reflexivity].
  - destruct ok; [|discriminate]. inversion Ha; subst. right. right. reflexivity.
Qed.

(* ---------------------------------------------------------------------------------------------- *)
(* the judge accepts the model *)

Lemma same_set_perm : forall a b, Permutation a b -> same_set a b = true.
Proof.
  intros a b Hp. unfold same_set. apply andb_true_iff. split; apply forallb_forall; intros p Hin; apply memb_In.
  - apply (Permutation_in _ Hp). exact Hin.
  - apply (Permutation_in _ (Permutation_sym Hp)). exact Hin.
Qed.

Lemma same_set_refl : forall a, same_set a a = true.
Proof. intros a. apply same_set_perm. apply Permutation_refl. Qed.

Lemma skipn_app_exact : forall (A : Type) (a b : list A), skipn (length a) (a ++ b) = b.
Proof. intros A a b. induction a as [|x r IH]; cbn [length skipn app]; [reflexivity | exact IH]. Qed.

Lemma runs_of_flags : forall outs, forallb (fun r : bool * list peer => negb (fst r)) (runs_of outs) = true.
Proof.
  induction outs as [|o r IH]; cbn [runs_of flat_map]; [reflexivity|].
  fold (runs_of r). destruct o; cbn [app forallb fst negb andb]; exact IH.
Qed.

Lemma forallb_impl : forall (A : Type) (f g : A -> bool) l,
  (forall x, f x = true -> g x = true) -> forallb f l = true -> forallb g l = true.
Proof.
  intros A f g l H. induction l as [|x r IH]; cbn [forallb]; [reflexivity|].
  intros Hf. apply andb_true_iff in Hf. destruct Hf as [H1 H2]. apply andb_true_iff. split; auto.
Qed.

(* ---- the waits with their durations ---- *)

Lemma list_peer_eqb_refl : forall l, list_peer_eqb l l = true.
Proof. intros l. apply list_peer_eqb_eq. reflexivity. Qed.

Lemma runs_of_cons_ready : forall f o, runs_of (OReady f :: o) = runs_of o.
Proof. reflexivity. Qed.

(* A wait that accepts every sender, whose own ticker never fires before the watcher's: every
   well-formed start message that arrives before the watcher's bound is honoured. *)
Lemma timed_wait_honours : forall timeout watch msgs deadline,
  (watch <= deadline)%N -> (watch <= timeout)%N ->
  honoured watch msgs (runs_of (fst (timed_wait None timeout watch deadline Waiting msgs))) = true.
Proof.
  intros timeout watch. induction msgs as [|[at_ m] r IH]; intros deadline Hd Ht; cbn [honoured]; [reflexivity|].
  destruct (watch <=? at_)%N eqn:Hw; [reflexivity|].
  apply N.leb_gt in Hw.
  cbn [timed_wait]. assert (Hw' : (watch <=? at_)%N = false) by (apply N.leb_gt; exact Hw). rewrite Hw'.
  assert (Hdl : (deadline <=? at_)%N = false) by (apply N.leb_gt; lia). rewrite Hdl.
  cbn [is_waiting andb].
  destruct m as [f|f [l|]|f]; try reflexivity.
  - cbn [wait_step2 from_ok].
    specialize (IH (at_ + timeout)%N).
    destruct (timed_wait None timeout watch (at_ + timeout) Waiting r) as [o' late] eqn:Hrec.
    cbn [fst app]. rewrite runs_of_cons_ready. cbn [fst] in IH. apply IH; lia.
  - cbn [wait_step2 from_ok].
    destruct (timed_wait None timeout watch deadline Running r) as [o' late].
    cbn [fst app runs_of flat_map existsb snd]. rewrite list_peer_eqb_refl. reflexivity.
Qed.

Lemma left_out_honours : forall tm msgs,
  honoured (tss_to tm) msgs (runs_of (fst (left_out_wait tm msgs))) = true.
Proof.
  intros tm msgs. unfold left_out_wait, left_out_wait_timeout, watch_timeout.
  apply timed_wait_honours; lia.
Qed.

Definition early_initiate (watch : N) (x : N * wmsg) : Prop :=
  (fst x < watch)%N /\ exists f, snd x = MInitiate f.

(* what [honoured] means: after initiate messages only, a well-formed start message that arrives
   before the bound has been followed by a Run with its params *)
Lemma honoured_sound : forall watch pre at_ f l post runs,
  Forall (early_initiate watch) pre -> (at_ < watch)%N ->
  honoured watch (pre ++ (at_, MStart f (Some l)) :: post) runs = true ->
  exists r, In r runs /\ snd r = l.
Proof.
  intros watch pre at_ f l post runs Hpre Hat. induction Hpre as [|[a m] pre' [Ha [g Hg]] _ IH]; cbn [app honoured]; intros H.
  - assert (Hw : (watch <=? at_)%N = false) by (apply N.leb_gt; exact Hat). rewrite Hw in H.
    apply existsb_exists in H. destruct H as [r [Hin Hr]]. exists r. split; [exact Hin|].
    apply list_peer_eqb_eq in Hr. exact Hr.
  - cbn [fst snd] in Ha, Hg. subst m.
    assert (Hw : (watch <=? a)%N = false) by (apply N.leb_gt; exact Ha). rewrite Hw in H. apply IH. exact H.
Qed.

(* the left-out relayer: a start message that arrives (after initiate messages only) before the TSS
   timeout starts the process - whatever the coordinator timeout is *)
Lemma left_out_honours_start : forall tm pre at_ f l post,
  Forall (early_initiate (tss_to tm)) pre -> (at_ < tss_to tm)%N ->
  In (false, l) (runs_of (fst (left_out_wait tm (pre ++ (at_, MStart f (Some l)) :: post)))).
Proof.
  intros tm pre at_ f l post Hpre Hat.
  pose proof (left_out_honours tm (pre ++ (at_, MStart f (Some l)) :: post)) as H.
  apply (honoured_sound _ _ _ _ _ _ _ Hpre Hat) in H. destruct H as [[b l'] [Hin Hl]]. cbn [snd] in Hl. subst l'.
  assert (Hb : b = false).
  { pose proof (runs_of_flags (fst (left_out_wait tm (pre ++ (at_, MStart f (Some l)) :: post)))) as Hf.
    rewrite forallb_forall in Hf. specialize (Hf _ Hin). cbn [fst] in Hf. destruct b; [discriminate | reflexivity]. }
  subst b. exact Hin.
Qed.

(* ... and it gives up at the TSS timeout: a message arriving then finds the session over *)
Lemma left_out_gives_up : forall tm at_ m r,
  (tss_to tm <= at_)%N -> left_out_wait tm ((at_, m) :: r) = ([], true).
Proof.
  intros tm at_ m r H. unfold left_out_wait, watch_timeout. cbn [timed_wait].
  assert (Hw : (tss_to tm <=? at_)%N = true) by (apply N.leb_le; exact H). rewrite Hw. reflexivity.
Qed.

(* a relayer that knows the retried attempt's coordinator gives up after the coordinator timeout *)
Lemma start_wait_gives_up : forall tm c2 at_ m r,
  (coord_to tm <= at_)%N -> retry_start_wait tm c2 ((at_, m) :: r) = ([], true).
Proof.
  intros tm c2 at_ m r H. unfold retry_start_wait, start_wait_timeout. cbn [timed_wait is_waiting andb].
  assert (Hw : (coord_to tm <=? at_)%N = true) by (apply N.leb_le; exact H). rewrite Hw.
  destruct (watch_timeout tm <=? at_)%N; reflexivity.
Qed.

Lemma obs_allows_classified : forall (key : peer -> N) tm holders t self runs1 e winner ready2 msgs2,
  In self holders ->
  (forall ps, classify e = RetryExcluding ps -> ~ In self ps) ->
  classify e <> GiveUp ->
  obs_allows tm msgs2 holders (length runs1)
    (continue key tm classify holders t self true runs1 e winner ready2 msgs2) (classify e) = true.
Proof.
  intros key tm holders t self runs1 e winner ready2 msgs2 Hsh Hself Hng.
  unfold continue, after_failure_with. cbn [negb].
  destruct (classify e) as [ps| | |] eqn:Hc; [| | congruence |].
  - (* retry *)
    destruct (N.eqb (bully_result key self winner (exclude holders ps)) self).
    + destruct (initiate key holders t ps [self] ready2) as [calls ann] eqn:Hinit.
      unfold obs_allows. cbn [o_elected o_runs o_calls2].
      rewrite skipn_app_exact.
      rewrite (same_set_perm _ _ (sort_perm key (exclude holders ps))). cbn [andb].
      apply andb_true_iff. split.
      * destruct ann as [sub|]; cbn [forallb fst snd]; [|reflexivity].
        rewrite andb_true_r. apply forallb_forall. intros p Hp. apply negb_true_iff. apply memb_false_In.
        intros Hps.
        pose proof (announced_subset_spec key holders t ps self ready2 calls sub Hsh (Hself ps eq_refl) Hinit) as Hspec.
        destruct Hspec as [_ [_ [_ [_ [_ Hex]]]]]. exact (Hex p Hp Hps).
      * apply forallb_forall. intros c Hin. apply in_map_iff in Hin. destruct Hin as [r [<- _]].
        cbn [snd]. apply same_set_refl.
    + unfold obs_allows. cbn [o_elected o_runs o_calls2].
      rewrite skipn_app_exact.
      rewrite (same_set_perm _ _ (sort_perm key (exclude holders ps))). cbn [andb forallb].
      rewrite andb_true_r.
      eapply forallb_impl; [|apply runs_of_flags].
      intros r Hr. apply negb_true_iff in Hr. rewrite Hr. reflexivity.
  - (* wait *)
    unfold obs_allows. cbn [o_elected o_final o_runs].
    rewrite skipn_app_exact. rewrite left_out_honours. rewrite andb_true_r.
    destruct (has_bad _ || _); reflexivity.
  - (* decode error *)
    unfold obs_allows. cbn [o_elected o_runs o_final].
    replace (skipn (length runs1) runs1) with (@nil (bool * list peer)); [reflexivity|].
    rewrite <- (app_nil_r runs1) at 2. rewrite skipn_app_exact. reflexivity.
Qed.

Lemma spec_ok_model : forall (key : peer -> N) tm holders t self retryable runs1 e winner ready2 msgs2,
  In self holders ->
  (forall ps, classify e = RetryExcluding ps -> ~ In self ps) ->
  spec_ok tm msgs2 holders retryable e (length runs1)
    (continue key tm classify holders t self retryable runs1 e winner ready2 msgs2) = true.
Proof.
  intros key tm holders t self retryable runs1 e winner ready2 msgs2 Hsh Hself.
  assert (Hskip : skipn (length runs1) runs1 = []).
  { rewrite <- (app_nil_r runs1) at 2. apply skipn_app_exact. }
  unfold spec_ok. destruct retryable; cbn [negb].
  - destruct (classify_sound e) as [Hg|[k [Hin Ha]]].
    + pose proof (proj1 (classify_giveup_iff e) Hg) as Hnone. rewrite Hnone.
      unfold continue, after_failure_with. cbn [negb]. rewrite Hg.
      unfold obs_allows. cbn [o_elected o_runs o_final]. rewrite Hskip. reflexivity.
    + destruct (recognised_kinds e) as [|k0 r0] eqn:Hk; [destruct Hin|].
      apply existsb_exists. exists k. split; [exact Hin|]. rewrite Ha.
      apply obs_allows_classified; try assumption.
      intros Hg. apply classify_giveup_iff in Hg. congruence.
  - unfold continue, after_failure_with. cbn [negb].
    unfold obs_allows. cbn [o_elected o_runs o_final]. rewrite Hskip. reflexivity.
Qed.

(* what an accepted observation means, case by case *)
Lemma obs_allows_retry_sound : forall tm msgs2 holders nfirst o ps,
  obs_allows tm msgs2 holders nfirst o (RetryExcluding ps) = true ->
  exists cs, o_elected o = Some cs
    /\ (forall p, In p ps -> ~ In p cs)
    /\ (forall p, In p holders -> ~ In p ps -> In p cs)
    /\ (forall sub, In (true, sub) (skipn nfirst (o_runs o)) -> forall p, In p ps -> ~ In p sub).
Proof.
  intros tm msgs2 holders nfirst o ps H. unfold obs_allows in H.
  destruct (o_elected o) as [cs|]; [|discriminate]. exists cs. split; [reflexivity|].
  apply andb_true_iff in H. destruct H as [H H3]. apply andb_true_iff in H. destruct H as [H1 H2].
  unfold same_set in H1. apply andb_true_iff in H1. destruct H1 as [Ha Hb].
  rewrite forallb_forall in Ha, Hb. repeat split.
  - intros p Hp Hc. specialize (Ha p Hc). apply memb_In in Ha. apply exclude_spec in Ha. tauto.
  - intros p Hh Hn. assert (Hin : In p (exclude holders ps)) by (apply exclude_spec; tauto).
    specialize (Hb p Hin). apply memb_In. exact Hb.
  - intros sub Hin p Hp Hs. rewrite forallb_forall in H2. specialize (H2 _ Hin). cbn [fst snd] in H2.
    rewrite forallb_forall in H2. specialize (H2 p Hs). apply negb_true_iff in H2.
    apply memb_false_In in H2. exact (H2 Hp).
Qed.

Lemma obs_allows_giveup_sound : forall tm msgs2 holders nfirst o,
  obs_allows tm msgs2 holders nfirst o GiveUp = true ->
  o_elected o = None /\ skipn nfirst (o_runs o) = [] /\ o_final o = FOriginal.
Proof.
  intros tm msgs2 holders nfirst o H. unfold obs_allows in H.
  destruct (o_elected o); [discriminate|]. destruct (skipn nfirst (o_runs o)); [|discriminate].
  apply N.eqb_eq in H. auto.
Qed.

Lemma obs_allows_wait_sound : forall tm msgs2 holders nfirst o,
  obs_allows tm msgs2 holders nfirst o WaitForStart = true ->
  o_elected o = None /\ o_final o <> FOriginal
  /\ (forall pre at_ f l post,
        msgs2 = pre ++ (at_, MStart f (Some l)) :: post ->
        Forall (early_initiate (tss_to tm)) pre -> (at_ < tss_to tm)%N ->
        exists r, In r (skipn nfirst (o_runs o)) /\ snd r = l).
Proof.
  intros tm msgs2 holders nfirst o H. unfold obs_allows in H.
  destruct (o_elected o); [discriminate|]. apply andb_true_iff in H. destruct H as [H Hh].
  apply negb_true_iff in H. apply N.eqb_neq in H. repeat split; auto.
  intros pre at_ f l post -> Hpre Hat. eapply honoured_sound; eassumption.
Qed.
