(* C11 - proofs about the model in Model/C11.v *)
From Coq Require Import List ZArith NArith Bool Lia Permutation.
Import ListNotations.
From SygmaV Require Import Model.C07 Proofs.C07 Model.C11.

(* induction principle for the nested error trees *)
Fixpoint err_ind' (P : err -> Prop) (H : forall k cs, Forall P cs -> P (Node k cs)) (e : err) : P e :=
  match e with
  | Node k cs =>
      H k cs ((fix go (l : list err) : Forall P l :=
                 match l with
                 | [] => Forall_nil P
                 | c :: r => Forall_cons c (err_ind' P H c) (go r)
                 end) cs)
  end.

Fixpoint find_map {A : Type} (f : kind -> option A) (l : list kind) : option A :=
  match l with
  | [] => None
  | k :: r => match f k with Some a => Some a | None => find_map f r end
  end.

Lemma find_map_app : forall (A : Type) (f : kind -> option A) a b,
  find_map f (a ++ b) = match find_map f a with Some x => Some x | None => find_map f b end.
Proof.
  intros A f a b. induction a as [|k r IH]; cbn [app find_map]; [reflexivity|].
  destruct (f k); [reflexivity | exact IH].
Qed.

Lemma kinds_node : forall k cs, kinds (Node k cs) = k :: flat_map kinds cs.
Proof.
  intros k cs. reflexivity.
Qed.

Lemma find_first_kinds : forall (A : Type) (f : kind -> option A) e,
  find_first f e = find_map f (kinds e).
Proof.
  intros A f. induction e as [k cs IH] using err_ind'.
  rewrite kinds_node. cbn [find_first find_map]. destruct (f k); [reflexivity|].
  induction cs as [|c r IHr]; cbn [flat_map find_map]; [reflexivity|].
  inversion IH as [|? ? Hc Hr]; subst. rewrite find_map_app, <- Hc.
  destruct (find_first f c); [reflexivity|]. apply IHr. exact Hr.
Qed.

(* classification as a function of the visiting order *)
Definition classify_l (ks : list kind) : action :=
  match find_map as_coord ks with
  | Some p => RetryExcluding [p]
  | None =>
  match find_map as_comm ks with
  | Some _ => RetryExcluding []
  | None =>
  match find_map as_tss ks with
  | Some (cs, ok) => if ok then RetryExcluding cs else GiveUpDecode
  | None =>
  match find_map as_subset ks with
  | Some _ => WaitForStart
  | None => GiveUp
  end end end end.

Lemma classify_kinds : forall e, classify e = classify_l (kinds e).
Proof.
  intros e. unfold classify, classify_l. repeat rewrite find_first_kinds. reflexivity.
Qed.

Definition ignores_other {A : Type} (f : kind -> option A) : Prop :=
  forall k, recognised k = false -> f k = None.

Lemma find_map_filter : forall (A : Type) (f : kind -> option A) l,
  ignores_other f -> find_map f l = find_map f (filter recognised l).
Proof.
  intros A f l Hf. induction l as [|k r IH]; cbn [filter find_map]; [reflexivity|].
  destruct (recognised k) eqn:Hk; cbn [find_map].
  - rewrite IH. reflexivity.
  - rewrite (Hf k Hk). exact IH.
Qed.

Lemma as_ignore : ignores_other as_coord /\ ignores_other as_comm /\ ignores_other as_tss /\ ignores_other as_subset.
Proof. repeat split; intros k Hk; destruct k; try discriminate; reflexivity. Qed.

Lemma classify_l_filter : forall l, classify_l l = classify_l (filter recognised l).
Proof.
  intros l. destruct as_ignore as [H1 [H2 [H3 H4]]]. unfold classify_l.
  rewrite <- (find_map_filter _ as_coord l H1), <- (find_map_filter _ as_comm l H2),
          <- (find_map_filter _ as_tss l H3), <- (find_map_filter _ as_subset l H4). reflexivity.
Qed.

Lemma classify_recognised_kinds : forall e, classify e = classify_l (recognised_kinds e).
Proof. intros e. rewrite classify_kinds. apply classify_l_filter. Qed.

(* exactly one recognised cause anywhere in the tree: its action, whatever the nesting *)
Lemma classify_single : forall e k, recognised_kinds e = [k] -> classify e = action_of_kind k.
Proof.
  intros e k H. rewrite classify_recognised_kinds, H.
  assert (Hr : recognised k = true).
  { assert (Hin : In k (recognised_kinds e)) by (rewrite H; left; reflexivity).
    unfold recognised_kinds in Hin. apply filter_In in Hin. tauto. }
  destruct k as [p|p|cs ok| |]; try discriminate; cbn; try reflexivity.
Qed.

Lemma classify_none : forall e, recognised_kinds e = [] -> classify e = GiveUp.
Proof. intros e H. rewrite classify_recognised_kinds, H. reflexivity. Qed.

(* every action other than giving up is the action of an error value contained in the tree *)
Lemma find_map_In : forall (A : Type) (f : kind -> option A) l a,
  find_map f l = Some a -> exists k, In k l /\ f k = Some a.
Proof.
  intros A f l a. induction l as [|k r IH]; cbn [find_map]; [discriminate|].
  destruct (f k) eqn:Hk.
  - intros H. inversion H; subst. exists k. split; [left; reflexivity | exact Hk].
  - intros H. destruct (IH H) as [k' [Hin Hf]]. exists k'. split; [right; exact Hin | exact Hf].
Qed.

Lemma classify_l_sound : forall l,
  classify_l l = GiveUp \/ exists k, In k l /\ recognised k = true /\ action_of_kind k = classify_l l.
Proof.
  intros l. unfold classify_l.
  destruct (find_map as_coord l) as [p|] eqn:H1.
  { right. destruct (find_map_In _ _ _ _ H1) as [k [Hin Hk]]. destruct k; try discriminate.
    inversion Hk; subst. eexists. split; [exact Hin|]. split; reflexivity. }
  destruct (find_map as_comm l) as [p|] eqn:H2.
  { right. destruct (find_map_In _ _ _ _ H2) as [k [Hin Hk]]. destruct k; try discriminate.
    eexists. split; [exact Hin|]. split; reflexivity. }
  destruct (find_map as_tss l) as [[cs ok]|] eqn:H3.
  { right. destruct (find_map_In _ _ _ _ H3) as [k [Hin Hk]]. destruct k; try discriminate.
    inversion Hk; subst. eexists. split; [exact Hin|]. split; reflexivity. }
  destruct (find_map as_subset l) as [u|] eqn:H4.
  { right. destruct (find_map_In _ _ _ _ H4) as [k [Hin Hk]]. destruct k; try discriminate.
    eexists. split; [exact Hin|]. split; reflexivity. }
  left. reflexivity.
Qed.

Lemma classify_sound : forall e,
  classify e = GiveUp \/
  exists k, In k (recognised_kinds e) /\ action_of_kind k = classify e.
Proof.
  intros e. rewrite classify_kinds. destruct (classify_l_sound (kinds e)) as [H|[k [Hin [Hr Ha]]]].
  - left. exact H.
  - right. exists k. split; [|exact Ha]. unfold recognised_kinds. apply filter_In. tauto.
Qed.

Lemma find_map_none : forall (A : Type) (f : kind -> option A) l,
  find_map f l = None -> forall k, In k l -> f k = None.
Proof.
  intros A f l. induction l as [|k r IH]; cbn [find_map]; intros H k' Hin; [destruct Hin|].
  destruct (f k) eqn:Hk; [discriminate|]. destruct Hin as [<-|Hin]; [exact Hk | apply IH; assumption].
Qed.

Lemma classify_giveup_iff : forall e, classify e = GiveUp <-> recognised_kinds e = [].
Proof.
  intros e. split; [|apply classify_none].
  rewrite classify_recognised_kinds. intros H.
  destruct (recognised_kinds e) as [|k r] eqn:Hk; [reflexivity|]. exfalso.
  assert (Hr : recognised k = true).
  { assert (Hin : In k (recognised_kinds e)) by (rewrite Hk; left; reflexivity).
    unfold recognised_kinds in Hin. apply filter_In in Hin. tauto. }
  unfold classify_l in H.
  destruct (find_map as_coord (k :: r)) eqn:H1; [discriminate|].
  destruct (find_map as_comm (k :: r)) eqn:H2; [discriminate|].
  destruct (find_map as_tss (k :: r)) as [[cs ok]|] eqn:H3; [destruct ok; discriminate|].
  destruct (find_map as_subset (k :: r)) eqn:H4; [discriminate|].
  pose proof (find_map_none _ _ _ H1 k (or_introl eq_refl)) as E1.
  pose proof (find_map_none _ _ _ H2 k (or_introl eq_refl)) as E2.
  pose proof (find_map_none _ _ _ H3 k (or_introl eq_refl)) as E3.
  pose proof (find_map_none _ _ _ H4 k (or_introl eq_refl)) as E4.
  destruct k; discriminate.
Qed.

(* joining with errors that contain no recognised cause (timeouts, watchdog, fail-message errors),
   on either side and at any depth, does not change the classification *)
Definition all_other (e : err) : Prop := recognised_kinds e = [].

Lemma recognised_kinds_node : forall k cs,
  recognised_kinds (Node k cs) = (if recognised k then [k] else []) ++ flat_map recognised_kinds cs.
Proof.
  intros k cs. unfold recognised_kinds. rewrite kinds_node. cbn [filter].
  assert (H : filter recognised (flat_map kinds cs) = flat_map (fun e => filter recognised (kinds e)) cs).
  { induction cs as [|c r IH]; cbn [flat_map]; [reflexivity|]. rewrite filter_app, IH. reflexivity. }
  rewrite H. destruct (recognised k); reflexivity.
Qed.

Lemma flat_map_all_other : forall ts, Forall all_other ts -> flat_map recognised_kinds ts = [].
Proof.
  intros ts H. induction H as [|t r Ht Hr IH]; cbn [flat_map]; [reflexivity|].
  rewrite Ht, IH. reflexivity.
Qed.

Lemma classify_join_others : forall ts e ts',
  Forall all_other ts -> Forall all_other ts' ->
  classify (pool_join (ts ++ e :: ts')) = classify e.
Proof.
  intros ts e ts' H1 H2. rewrite (classify_recognised_kinds (pool_join _)), (classify_recognised_kinds e).
  unfold pool_join. rewrite recognised_kinds_node. cbn [recognised app].
  rewrite flat_map_app. cbn [flat_map]. rewrite (flat_map_all_other ts H1), (flat_map_all_other ts' H2).
  cbn [app]. rewrite app_nil_r. reflexivity.
Qed.

Lemma classify_pool_join_single : forall e, classify (pool_join [e]) = classify e.
Proof. intros e. apply (classify_join_others [] e []); constructor. Qed.

(* the value handleError receives, as the pools build it *)
Lemma classify_as_seen : forall e,
  classify (pool_join [pool_join [e]]) = classify e
  /\ classify (pool_join [pool_join [Node KOther []]; pool_join [e]]) = classify e.
Proof.
  intros e. split.
  - rewrite classify_pool_join_single. apply classify_pool_join_single.
  - change [pool_join [Node KOther []]; pool_join [e]] with ([pool_join [Node KOther []]] ++ pool_join [e] :: []).
    rewrite classify_join_others.
    + apply classify_pool_join_single.
    + constructor; [reflexivity | constructor].
    + constructor.
Qed.

(* ---------------------------------------------------------------------------------------------- *)
(* before the repair *)

Lemma old_classify_join : forall errs, old_classify (pool_join errs) = GiveUp.
Proof. reflexivity. Qed.

Lemma old_never_retries : forall retryable holders errs,
  old_after_failure retryable holders (pool_join errs) = Returned.
Proof. intros. unfold old_after_failure, after_failure_with. destruct retryable; reflexivity. Qed.

Lemma old_refuted : exists holders e,
  recognised_kinds e = [KSubset] /\ old_after_failure true holders e = Returned
  /\ after_failure true holders e = Waited.
Proof. exists [0%N; 1%N], (pool_join [Node KSubset []]). repeat split. Qed.

(* ---------------------------------------------------------------------------------------------- *)

Lemma exclude_spec : forall holders ps p, In p (exclude holders ps) <-> In p holders /\ ~ In p ps.
Proof.
  intros holders ps p. unfold exclude. rewrite filter_In, negb_true_iff, memb_false_In. tauto.
Qed.

Lemma non_retryable_never_retries : forall holders e, after_failure false holders e = Returned.
Proof. reflexivity. Qed.

Lemma unknown_gives_up : forall retryable holders e,
  recognised_kinds e = [] -> after_failure retryable holders e = Returned.
Proof.
  intros retryable holders e H. unfold after_failure, after_failure_with.
  rewrite (classify_none e H). destruct retryable; reflexivity.
Qed.

Lemma left_out_waits : forall holders e,
  recognised_kinds e = [KSubset] -> after_failure true holders e = Waited.
Proof.
  intros holders e H. unfold after_failure, after_failure_with. rewrite (classify_single e _ H). reflexivity.
Qed.

Lemma waiting_accepts_any_start : forall f l,
  run_wait None Waiting [MStart f (Some l)] = (Running, [ORun l]).
Proof. reflexivity. Qed.

Lemma retried_iff : forall holders e cands ex,
  after_failure true holders e = Retried cands ex <->
  classify e = RetryExcluding ex /\ cands = exclude holders ex.
Proof.
  intros holders e cands ex. unfold after_failure, after_failure_with. cbn [negb].
  destruct (classify e) as [ps| | |]; split; intros H; try discriminate; try (destruct H; discriminate).
  - inversion H; subst. split; reflexivity.
  - destruct H as [H1 H2]. inversion H1; subst. reflexivity.
Qed.

Lemma culprits_excluded : forall holders e cands ex,
  after_failure true holders e = Retried cands ex ->
  (forall p, In p ex -> ~ In p cands)
  /\ (forall p, In p holders -> ~ In p ex -> In p cands)
  /\ (forall p, In p cands -> In p holders)
  /\ (forall (key : peer -> N) t self msgs calls S,
        In self holders -> ~ In self ex ->
        initiate key holders t ex [self] msgs = (calls, Some S) ->
        forall p, In p ex -> ~ In p S).
Proof.
  intros holders e cands ex H. apply retried_iff in H. destruct H as [_ ->]. repeat split.
  - intros p Hp Hc. apply exclude_spec in Hc. tauto.
  - intros p Hh Hn. apply exclude_spec. tauto.
  - intros p Hc. apply exclude_spec in Hc. tauto.
  - intros key t self msgs calls S Hsh Hse Hinit p Hp HS.
    pose proof (announced_subset_spec key holders t ex self msgs calls S Hsh Hse Hinit) as Hspec.
    destruct Hspec as [_ [_ [_ [_ [_ Hex]]]]]. exact (Hex p HS Hp).
Qed.

Lemma retry_causes : forall e ps,
  classify e = RetryExcluding ps ->
  exists k, In k (recognised_kinds e) /\
            (k = KCoord (hd 0%N ps) /\ ps = [hd 0%N ps] \/ (exists q, k = KComm q) /\ ps = [] \/ k = KTss ps true).
Proof.
  intros e ps H. destruct (classify_sound e) as [Hg|[k [Hin Ha]]]; [congruence|].
  exists k. split; [exact Hin|]. rewrite H in Ha. destruct k as [p|p|cs ok| |]; cbn in Ha; try discriminate.
  - inversion Ha; subst. left. split; reflexivity.
  - inversion Ha; subst. right. left. split; [eexists; reflexivity | reflexivity].
  - destruct ok; [|discriminate]. inversion Ha; subst. right. right. reflexivity.
Qed.

(* ---------------------------------------------------------------------------------------------- *)
(* the judge accepts the model *)

Lemma same_set_perm : forall a b, Permutation a b -> same_set a b = true.
Proof.
  intros a b Hp. unfold same_set. apply andb_true_iff. split; apply forallb_forall; intros p Hin; apply memb_In.
  - apply (Permutation_in _ Hp). exact Hin.
  - apply (Permutation_in _ (Permutation_sym Hp)). exact Hin.
Qed.

Lemma same_set_refl : forall a, same_set a a = true.
Proof. intros a. apply same_set_perm. apply Permutation_refl. Qed.

Lemma skipn_app_exact : forall (A : Type) (a b : list A), skipn (length a) (a ++ b) = b.
Proof. intros A a b. induction a as [|x r IH]; cbn [length skipn app]; [reflexivity | exact IH]. Qed.

Lemma runs_of_flags : forall outs, forallb (fun r : bool * list peer => negb (fst r)) (runs_of outs) = true.
Proof.
  induction outs as [|o r IH]; cbn [runs_of flat_map]; [reflexivity|].
  fold (runs_of r). destruct o; cbn [app forallb fst negb andb]; exact IH.
Qed.

Lemma forallb_impl : forall (A : Type) (f g : A -> bool) l,
  (forall x, f x = true -> g x = true) -> forallb f l = true -> forallb g l = true.
Proof.
  intros A f g l H. induction l as [|x r IH]; cbn [forallb]; [reflexivity|].
  intros Hf. apply andb_true_iff in Hf. destruct Hf as [H1 H2]. apply andb_true_iff. split; auto.
Qed.

(* ---- the waits with their durations ---- *)

Lemma list_peer_eqb_refl : forall l, list_peer_eqb l l = true.
Proof. intros l. apply list_peer_eqb_eq. reflexivity. Qed.

Lemma runs_of_cons_ready : forall f o, runs_of (OReady f :: o) = runs_of o.
Proof. reflexivity. Qed.

(* A wait that accepts every sender, whose own ticker never fires before the watcher's: every
   well-formed start message that arrives before the watcher's bound is honoured. *)
Lemma timed_run_honours : forall timeout watch msgs deadline,
  (watch <= deadline)%N -> (watch <= timeout)%N ->
  honoured watch msgs (runs_of (tr_outs (timed_run None None timeout watch deadline Waiting msgs))) = true.
Proof.
  intros timeout watch. induction msgs as [|[at_ m] r IH]; intros deadline Hd Ht; cbn [honoured]; [reflexivity|].
  destruct (watch <=? at_)%N eqn:Hw; [reflexivity|].
  apply N.leb_gt in Hw.
  cbn [timed_run]. assert (Hw' : (watch <=? at_)%N = false) by (apply N.leb_gt; exact Hw). rewrite Hw'.
  assert (Hdl : (deadline <=? at_)%N = false) by (apply N.leb_gt; lia). rewrite Hdl.
  cbn [is_waiting andb].
  destruct m as [f|f [l|]|f]; try reflexivity.
  - cbn [wait_step2 from_ok tr_outs app]. rewrite runs_of_cons_ready. apply IH; lia.
  - cbn [wait_step2 from_ok tr_outs app runs_of flat_map existsb snd]. rewrite list_peer_eqb_refl. reflexivity.
Qed.

Lemma timed_wait_honours : forall timeout watch msgs deadline,
  (watch <= deadline)%N -> (watch <= timeout)%N ->
  honoured watch msgs (runs_of (fst (timed_wait None timeout watch deadline Waiting msgs))) = true.
Proof. intros. unfold timed_wait. cbn [fst]. apply timed_run_honours; assumption. Qed.

Lemma left_out_honours : forall tm msgs,
  honoured (tss_to tm) msgs (runs_of (fst (left_out_wait tm msgs))) = true.
Proof.
  intros tm msgs. unfold left_out_wait, left_out_wait_timeout, watch_timeout.
  apply timed_wait_honours; lia.
Qed.

Definition early_initiate (watch : N) (x : N * wmsg) : Prop :=
  (fst x < watch)%N /\ exists f, snd x = MInitiate f.

(* what [honoured] means: after initiate messages only, a well-formed start message that arrives
   before the bound has been followed by a Run with its params *)
Lemma honoured_sound : forall watch pre at_ f l post runs,
  Forall (early_initiate watch) pre -> (at_ < watch)%N ->
  honoured watch (pre ++ (at_, MStart f (Some l)) :: post) runs = true ->
  exists r, In r runs /\ snd r = l.
Proof.
  intros watch pre at_ f l post runs Hpre Hat. induction Hpre as [|[a m] pre' [Ha [g Hg]] _ IH]; cbn [app honoured]; intros H.
  - assert (Hw : (watch <=? at_)%N = false) by (apply N.leb_gt; exact Hat). rewrite Hw in H.
    apply existsb_exists in H. destruct H as [r [Hin Hr]]. exists r. split; [exact Hin|].
    apply list_peer_eqb_eq in Hr. exact Hr.
  - cbn [fst snd] in Ha, Hg. subst m.
    assert (Hw : (watch <=? a)%N = false) by (apply N.leb_gt; exact Ha). rewrite Hw in H. apply IH. exact H.
Qed.

(* the left-out relayer: a start message that arrives (after initiate messages only) before the TSS
   timeout starts the process - whatever the coordinator timeout is *)
Lemma left_out_honours_start : forall tm pre at_ f l post,
  Forall (early_initiate (tss_to tm)) pre -> (at_ < tss_to tm)%N ->
  In (false, l) (runs_of (fst (left_out_wait tm (pre ++ (at_, MStart f (Some l)) :: post)))).
Proof.
  intros tm pre at_ f l post Hpre Hat.
  pose proof (left_out_honours tm (pre ++ (at_, MStart f (Some l)) :: post)) as H.
  apply (honoured_sound _ _ _ _ _ _ _ Hpre Hat) in H. destruct H as [[b l'] [Hin Hl]]. cbn [snd] in Hl. subst l'.
  assert (Hb : b = false).
  { pose proof (runs_of_flags (fst (left_out_wait tm (pre ++ (at_, MStart f (Some l)) :: post)))) as Hf.
    rewrite forallb_forall in Hf. specialize (Hf _ Hin). cbn [fst] in Hf. destruct b; [discriminate | reflexivity]. }
  subst b. exact Hin.
Qed.

(* ... and it gives up at the TSS timeout: a message arriving then finds the session over *)
Lemma left_out_gives_up : forall tm at_ m r,
  (tss_to tm <= at_)%N -> left_out_wait tm ((at_, m) :: r) = ([], true).
Proof.
  intros tm at_ m r H. unfold left_out_wait, timed_wait, watch_timeout. cbn [timed_run].
  assert (Hw : (tss_to tm <=? at_)%N = true) by (apply N.leb_le; exact H). rewrite Hw. reflexivity.
Qed.

(* a relayer that knows the retried attempt's coordinator gives up after the coordinator timeout *)
Lemma start_wait_gives_up : forall tm c2 at_ m r,
  (coord_to tm <= at_)%N -> retry_start_wait tm c2 ((at_, m) :: r) = ([], true).
Proof.
  intros tm c2 at_ m r H. unfold retry_start_wait, timed_wait, start_wait_timeout. cbn [timed_run is_waiting andb].
  assert (Hw : (coord_to tm <=? at_)%N = true) by (apply N.leb_le; exact H). rewrite Hw.
  destruct (watch_timeout tm <=? at_)%N; reflexivity.
Qed.

(* ---- only the coordinator's own initiate messages re-arm the coordinator-timeout ticker ---- *)

Definition not_from (c : peer) (x : N * wmsg) : Prop := msg_from (snd x) <> c.

(* messages of other peers - initiate, start, fail; however many, whenever - leave the relayer
   waiting, produce nothing and leave the ticker's deadline where it was *)
Lemma forged_traffic_no_rearm : forall c timeout watch msgs deadline,
  Forall (not_from c) msgs ->
  let w := timed_run (Some c) (Some c) timeout watch deadline Waiting msgs in
  tr_outs w = [] /\ tr_state w = Waiting /\ tr_deadline w = deadline.
Proof.
  intros c timeout watch. induction msgs as [|[at_ m] r IH]; intros deadline Hf; cbn [timed_run].
  - repeat split.
  - inversion Hf as [|x l Hx Hr]; subst. unfold not_from in Hx. cbn [snd] in Hx.
    destruct (watch <=? at_)%N; [repeat split|].
    cbn [is_waiting andb]. destruct (deadline <=? at_)%N; [repeat split|].
    assert (Hne : N.eqb (msg_from m) c = false) by (apply N.eqb_neq; exact Hx).
    destruct m as [f|f ps|f]; cbn [msg_from] in Hne; cbn [wait_step2 from_ok fail_ok]; rewrite Hne;
      cbn [tr_outs tr_late tr_state tr_deadline app]; apply IH; exact Hr.
Qed.

(* an unresponsive coordinator (see [coordinator_unresponsive]): the relayer is still waiting when the
   messages end and its ticker fires before the session's TSS timeout *)
Lemma unresponsive_run : forall tm (c : peer) msgs deadline,
  (deadline < tss_to tm)%N ->
  forallb (fun x : N * wmsg =>
             match snd x with
             | MInitiate f => negb (N.eqb f c) || (fst x + coord_to tm <? tss_to tm)%N
             | MStart f _ => negb (N.eqb f c)
             | MFail f => negb (N.eqb f c)
             end) msgs = true ->
  let w := timed_run (Some c) (Some c) (coord_to tm) (tss_to tm) deadline Waiting msgs in
  tr_state w = Waiting /\ (tr_deadline w < tss_to tm)%N.
Proof.
  intros tm c. induction msgs as [|[at_ m] r IH]; intros deadline Hd Hall; cbn [timed_run].
  - split; [reflexivity | exact Hd].
  - cbn [forallb fst snd] in Hall. apply andb_true_iff in Hall. destruct Hall as [Hm Hr].
    destruct (tss_to tm <=? at_)%N; [split; [reflexivity | exact Hd]|].
    cbn [is_waiting andb]. destruct (deadline <=? at_)%N; [split; [reflexivity | exact Hd]|].
    destruct m as [f|f ps|f]; cbn [wait_step2 from_ok fail_ok].
    + destruct (N.eqb f c) eqn:Hfc; cbn [negb orb] in Hm; cbn [tr_state tr_deadline].
      * apply IH; [apply N.ltb_lt; exact Hm | exact Hr].
      * apply IH; assumption.
    + apply negb_true_iff in Hm. rewrite Hm. cbn [tr_state tr_deadline]. apply IH; assumption.
    + apply negb_true_iff in Hm. rewrite Hm. cbn [tr_state tr_deadline]. apply IH; assumption.
Qed.

(* ---- the replacement attempt's ready loop reaches its threshold ---- *)

Lemma filter_length_le : forall (P Q : peer -> bool) l,
  (forall h, In h l -> P h = true -> Q h = true) -> (length (filter P l) <= length (filter Q l))%nat.
Proof.
  intros P Q. induction l as [|x r IH]; intros H; cbn [filter length]; [lia|].
  assert (IH' : (length (filter P r) <= length (filter Q r))%nat).
  { apply IH. intros h Hh. apply H. right. exact Hh. }
  destruct (P x) eqn:HP.
  - rewrite (H x (or_introl eq_refl) HP). cbn [length]. lia.
  - destruct (Q x); cbn [length]; lia.
Qed.

Lemma filter_length_but_one : forall (P Q : peer -> bool) f l,
  NoDup l -> (forall h, In h l -> h <> f -> P h = true -> Q h = true) ->
  (length (filter P l) <= length (filter Q l) + 1)%nat.
Proof.
  intros P Q f. induction l as [|x r IH]; intros Hnd H; cbn [filter length]; [lia|].
  inversion Hnd as [|? ? Hx Hr]; subst.
  destruct (N.eq_dec x f) as [->|Hne].
  - assert (Hle : (length (filter P r) <= length (filter Q r))%nat).
    { apply filter_length_le. intros h Hh HP. apply H; [right; exact Hh | | exact HP].
      intros ->. exact (Hx Hh). }
    destruct (P f); destruct (Q f); cbn [length]; lia.
  - assert (IH' : (length (filter P r) <= length (filter Q r) + 1)%nat).
    { apply IH; [exact Hr|]. intros h Hh. apply H. right. exact Hh. }
    destruct (P x) eqn:HP.
    + rewrite (H x (or_introl eq_refl) Hne HP). cbn [length]. lia.
    + destruct (Q x); cbn [length]; lia.
Qed.

Lemma memb_cons : forall h f r, memb h (f :: r) = N.eqb h f || memb h r.
Proof. reflexivity. Qed.

Lemma memb_snoc : forall h l f, memb h (l ++ [f]) = memb h l || N.eqb h f.
Proof. intros h l f. unfold memb. rewrite existsb_app. cbn [existsb]. rewrite orb_false_r. reflexivity. Qed.

Definition fresh_ready (ex ready msgs : list peer) (h : peer) : bool :=
  negb (memb h ex) && negb (memb h ready) && memb h msgs.

Lemma initiate_live : forall key holders t ex msgs ready,
  NoDup holders ->
  (Z.of_nat (length (ready_participants holders ready)) <= t)%Z ->
  (t + 1 <= Z.of_nat (length (ready_participants holders ready))
            + Z.of_nat (length (filter (fresh_ready ex ready msgs) holders)))%Z ->
  exists calls S, initiate key holders t ex ready msgs = (calls, Some S).
Proof.
  intros key holders t ex msgs. induction msgs as [|f r IH]; intros ready Hnd Hn Hcount.
  - exfalso. assert (Hz : length (filter (fresh_ready ex ready []) holders) = 0%nat).
    { clear. induction holders as [|x l IHl]; cbn [filter]; [reflexivity|].
      unfold fresh_ready at 1. cbn [memb existsb]. rewrite andb_false_r. exact IHl. }
    rewrite Hz in Hcount. lia.
  - cbn [initiate]. unfold add_ready.
    destruct (memb f ex || memb f ready) eqn:Hskip.
    + assert (Hnr : is_ready holders t ready = false).
      { unfold is_ready. apply Z.eqb_neq. lia. }
      rewrite Hnr.
      assert (Hsame : filter (fresh_ready ex ready (f :: r)) holders = filter (fresh_ready ex ready r) holders).
      { apply filter_ext. intros h. unfold fresh_ready. rewrite memb_cons.
        destruct (N.eqb h f) eqn:Hhf; [|reflexivity].
        apply N.eqb_eq in Hhf. subst h. apply orb_true_iff in Hskip.
        destruct Hskip as [Hs|Hs]; rewrite Hs; cbn [negb andb]; [reflexivity|]. rewrite andb_false_r. reflexivity. }
      rewrite Hsame in Hcount. destruct (IH ready Hnd Hn Hcount) as [calls [S HS]]. rewrite HS.
      exists (ready :: calls), S. reflexivity.
    + apply orb_false_iff in Hskip. destruct Hskip as [Hfe Hfr].
      assert (Hrp : ready_participants holders (ready ++ [f]) =
                    ready_participants holders ready ++ (if memb f holders then [f] else [])).
      { unfold ready_participants. rewrite filter_app. cbn [filter]. reflexivity. }
      destruct (is_ready holders t (ready ++ [f])) eqn:Hrdy.
      * eexists. eexists. reflexivity.
      * unfold is_ready in Hrdy. apply Z.eqb_neq in Hrdy. rewrite Hrp, app_length in Hrdy.
        assert (Hstep : (length (filter (fresh_ready ex ready (f :: r)) holders)
                         <= length (filter (fresh_ready ex (ready ++ [f]) r) holders)
                            + (if memb f holders then 1 else 0))%nat).
        { destruct (memb f holders) eqn:Hfh.
          - apply (filter_length_but_one _ _ f); [exact Hnd|].
            intros h _ Hne. unfold fresh_ready. rewrite memb_cons, memb_snoc.
            assert (Hhf : N.eqb h f = false) by (apply N.eqb_neq; exact Hne).
            rewrite Hhf, orb_false_r. cbn [orb]. tauto.
          - rewrite Nat.add_0_r. apply filter_length_le.
            intros h Hh. unfold fresh_ready. rewrite memb_cons, memb_snoc.
            assert (Hhf : N.eqb h f = false).
            { apply N.eqb_neq. intros ->. apply memb_false_In in Hfh. exact (Hfh Hh). }
            rewrite Hhf, orb_false_r. cbn [orb]. tauto. }
        assert (Hn' : (Z.of_nat (length (ready_participants holders (ready ++ [f]))) <= t)%Z).
        { rewrite Hrp, app_length. destruct (memb f holders); cbn [length] in *; lia. }
        assert (Hc' : (t + 1 <= Z.of_nat (length (ready_participants holders (ready ++ [f])))
                               + Z.of_nat (length (filter (fresh_ready ex (ready ++ [f]) r) holders)))%Z).
        { rewrite Hrp, app_length. destruct (memb f holders); cbn [length] in *; lia. }
        destruct (IH (ready ++ [f]) Hnd Hn' Hc') as [calls [S HS]]. rewrite HS.
        exists ((ready ++ [f]) :: calls), S. reflexivity.
Qed.

(* enough reachable non-culprits answer ready: the replacement attempt announces a subset - whichever
   peers cannot be reached *)
Lemma enough_announces : forall key holders t ps unreach self ready2,
  In self holders ->
  enough holders t ps unreach self ready2 = true ->
  exists calls S, initiate key holders t ps [self] ready2 = (calls, Some S).
Proof.
  intros key holders t ps unreach self ready2 Hsh He. unfold enough in He.
  apply andb_true_iff in He. destruct He as [He Hcnt]. apply andb_true_iff in He. destruct He as [Hnd Ht].
  apply nodupb_NoDup in Hnd. apply Z.leb_le in Ht. apply Z.leb_le in Hcnt.
  assert (Hone : ready_participants holders [self] = [self]).
  { unfold ready_participants. cbn [filter]. apply memb_In in Hsh. rewrite Hsh. reflexivity. }
  apply initiate_live; [exact Hnd | rewrite Hone; cbn [length]; lia |].
  rewrite Hone. cbn [length].
  assert (Hle : (length (reachable_ready holders ps unreach self ready2)
                 <= length (filter (fresh_ready ps [self] ready2) holders))%nat).
  { unfold reachable_ready. apply filter_length_le. intros h _ H. unfold fresh_ready.
    repeat (apply andb_true_iff in H; destruct H as [H ?]).
    cbn [memb existsb]. rewrite orb_false_r.
    repeat (apply andb_true_iff; split); assumption. }
  lia.
Qed.

(* ---- who is told ---- *)

Definition wf_table (m : nat) (holders : list peer) : Prop := forall p, In p holders -> (N.to_nat p < m)%nat.

Lemma all_peers_In : forall m p, (N.to_nat p < m)%nat -> In p (all_peers m).
Proof.
  intros m p H. unfold all_peers. apply in_map_iff. exists (N.to_nat p). split; [apply N2Nat.id|].
  apply in_seq. lia.
Qed.

Lemma told_no_coord : forall holders self ex runs starts,
  forallb (fun r : bool * list peer => negb (fst r)) runs = true -> told holders self ex runs starts = true.
Proof.
  intros holders self ex runs starts H. unfold told. eapply forallb_impl; [|exact H].
  intros r Hr. apply negb_true_iff in Hr. rewrite Hr. reflexivity.
Qed.

Lemma told_app : forall holders self ex r1 r2 starts,
  told holders self ex (r1 ++ r2) starts = told holders self ex r1 starts && told holders self ex r2 starts.
Proof. intros. unfold told. apply forallb_app. Qed.

Lemma told_starts_of : forall m holders self ex runs pre post,
  wf_table m holders -> told holders self ex runs (pre ++ starts_of m runs ++ post) = true.
Proof.
  intros m holders self ex runs pre post Hwf. revert pre. induction runs as [|[b l] r IH]; intros pre; [reflexivity|].
  unfold told. cbn [forallb fst snd]. fold (told holders self ex r (pre ++ starts_of m ((b, l) :: r) ++ post)).
  apply andb_true_iff. split.
  - destruct b; [|reflexivity]. apply existsb_exists. exists (l, all_peers m). split.
    + apply in_or_app. right. cbn [starts_of flat_map fst app]. left. reflexivity.
    + cbn [fst snd]. rewrite list_peer_eqb_refl. cbn [andb]. apply forallb_forall. intros p Hp.
      apply memb_In. apply all_peers_In. apply Hwf. apply exclude_spec in Hp. tauto.
  - cbn [starts_of flat_map fst snd]. fold (starts_of m r). destruct b.
    + cbn [app]. specialize (IH (pre ++ [(l, all_peers m)])). rewrite <- app_assoc in IH. exact IH.
    + cbn [app]. apply IH.
Qed.

Lemma told_sound : forall holders self ex runs starts,
  told holders self ex runs starts = true ->
  forall sub, In (true, sub) runs ->
  exists to, In (sub, to) starts /\ forall p, In p holders -> p <> self -> ~ In p ex -> In p to.
Proof.
  intros holders self ex runs starts H sub Hin. unfold told in H. rewrite forallb_forall in H.
  specialize (H _ Hin). cbn [fst snd] in H. apply existsb_exists in H. destruct H as [[l to] [Hs H]].
  cbn [fst snd] in H. apply andb_true_iff in H. destruct H as [Hl Hto]. apply list_peer_eqb_eq in Hl. subst l.
  exists to. split; [exact Hs|]. intros p Hh Hne Hex. rewrite forallb_forall in Hto. apply memb_In. apply Hto.
  apply exclude_spec. split; [exact Hh|]. intros [->|Hx]; [apply Hne; reflexivity | exact (Hex Hx)].
Qed.

(* ---- the bully election's outcome ---- *)

Lemma bully_step_in : forall s self cur b, bully_step s self cur b = cur \/ bully_step s self cur b = self
                                           \/ bully_step s self cur b = bmsg_from b.
Proof.
  intros s self cur b. destruct b as [p|p|p]; cbn [bully_step bmsg_from].
  - destruct (higher_coded s p cur || N.eqb p self); auto.
  - destruct (higher_coded s p self); auto.
  - auto.
Qed.

Lemma fold_bully_in : forall s self bs cur,
  In (fold_left (bully_step s self) bs cur) (cur :: self :: map bmsg_from bs).
Proof.
  intros s self. induction bs as [|b r IH]; intros cur; cbn [fold_left map].
  - left. reflexivity.
  - specialize (IH (bully_step s self cur b)).
    destruct IH as [H|[H|H]].
    + rewrite <- H. destruct (bully_step_in s self cur b) as [E|[E|E]]; rewrite E.
      * left. reflexivity.
      * right. left. reflexivity.
      * right. right. left. reflexivity.
    + right. left. exact H.
    + right. right. right. exact H.
Qed.

(* the election ends with this relayer or with the sender of one of the announcements *)
Lemma bully_coded_in : forall key self bs cands,
  In (bully_coded key self bs cands) (self :: map bmsg_from bs).
Proof.
  intros key self bs cands. unfold bully_coded.
  destruct (fold_bully_in (sort_peers key cands) self bs self) as [H|H]; [left; exact H | exact H].
Qed.

(* the repaired rule: whatever peers outside the candidate list send - Election, Alive, Select messages,
   at whatever point of the election - the outcome is this relayer or a candidate ... *)
Lemma bully_strict_guarded : forall key self bs cands,
  bully_guarded (bully_strict key self bs cands) self cands = true.
Proof.
  intros key self bs cands. unfold bully_guarded, bully_strict. apply memb_In.
  destruct (bully_coded_in key self (filter (from_candidate cands) bs) cands) as [H|H]; [left; exact H|].
  right. apply in_map_iff in H. destruct H as [b [Hb Hin]]. apply filter_In in Hin. destruct Hin as [_ Hc].
  unfold from_candidate in Hc. rewrite Hb in Hc. apply memb_In. exact Hc.
Qed.

(* ... and it is the outcome of the election in which those messages never arrived *)
Lemma bully_strict_ignores : forall key self bs cands,
  bully_strict key self bs cands = bully_strict key self (filter (from_candidate cands) bs) cands.
Proof.
  intros key self bs cands. unfold bully_strict. f_equal.
  induction bs as [|b r IH]; cbn [filter]; [reflexivity|].
  destruct (from_candidate cands b) eqn:E; cbn [filter]; [rewrite E; f_equal; exact IH | exact IH].
Qed.

Lemma bully_strict_candidates_only : forall key self bs cands,
  forallb (from_candidate cands) bs = true -> bully_strict key self bs cands = bully_coded key self bs cands.
Proof.
  intros key self bs cands H. unfold bully_strict. f_equal.
  induction bs as [|b r IH]; cbn [filter]; [reflexivity|].
  cbn [forallb] in H. apply andb_true_iff in H. destruct H as [Hb Hr]. rewrite Hb. f_equal. exact (IH Hr).
Qed.

Lemma index_of_none : forall p l i, ~ In p l -> index_of p l i = None.
Proof.
  intros p. induction l as [|x r IH]; intros i H; cbn [index_of]; [reflexivity|].
  destruct (N.eqb x p) eqn:E.
  - apply N.eqb_eq in E. subst. exfalso. apply H. left. reflexivity.
  - apply IH. intros Hin. apply H. right. exact Hin.
Qed.

(* as coded: a relayer whose current coordinator is the FIRST candidate ignores the announcement of a
   peer outside the candidate list ... *)
Lemma bully_coded_first_ignores : forall s self cur x,
  rank_coded s cur = 0%nat -> ~ In x s -> x <> self -> bully_step s self cur (BSelect x) = cur.
Proof.
  intros s self cur x Hr Hx Hne. cbn [bully_step]. unfold higher_coded, rank_coded at 1.
  rewrite (index_of_none x s 0 Hx), Hr. cbn [Nat.ltb Nat.leb orb].
  assert (E : N.eqb x self = false) by (apply N.eqb_neq; exact Hne). rewrite E. reflexivity.
Qed.

(* ... but every other relayer accepts it: the peer ranks level with the first candidate *)
Lemma bully_coded_open_seat : forall s self cur x,
  (0 < rank_coded s cur)%nat -> ~ In x s -> bully_step s self cur (BSelect x) = x.
Proof.
  intros s self cur x Hr Hx. cbn [bully_step]. unfold higher_coded, rank_coded at 1.
  rewrite (index_of_none x s 0 Hx).
  assert (E : (0 <? rank_coded s cur)%nat = true) by (apply Nat.ltb_lt; exact Hr). rewrite E. reflexivity.
Qed.

(* ---- a relayer that waits for the coordinator [c2] is moved by [c2] only ---- *)

Lemma readies_of_app : forall a b, readies_of (a ++ b) = readies_of a ++ readies_of b.
Proof. intros. unfold readies_of. apply flat_map_app. Qed.
Lemma runs_of_app : forall a b, runs_of (a ++ b) = runs_of a ++ runs_of b.
Proof. intros. unfold runs_of. apply flat_map_app. Qed.

Lemma timed_run_from_coord : forall wc c2 timeout watch msgs deadline st,
  (forall p, In p (readies_of (tr_outs (timed_run wc (Some c2) timeout watch deadline st msgs))) -> p = c2)
  /\ (forall r, In r (runs_of (tr_outs (timed_run wc (Some c2) timeout watch deadline st msgs))) ->
        fst r = false /\ exists at_, In (at_, MStart c2 (Some (snd r))) msgs).
Proof.
  intros wc c2 timeout watch. induction msgs as [|[at_ m] r IH]; intros deadline st; cbn [timed_run].
  - split; intros x Hx; destruct Hx.
  - destruct st; try (split; intros x Hx; destruct Hx; fail).
    + destruct (watch <=? at_)%N; [split; intros x Hx; destruct Hx|].
      cbn [is_waiting andb]. destruct (deadline <=? at_)%N; [split; intros x Hx; destruct Hx|].
      destruct (wait_step2 wc (Some c2) Waiting m) as [st' o] eqn:Hstep. cbn [tr_outs].
      rewrite readies_of_app, runs_of_app.
      match goal with |- context [timed_run wc (Some c2) timeout watch ?d st' r] => destruct (IH d st') as [IH1 IH2] end.
      split.
      * intros p Hp. apply in_app_or in Hp. destruct Hp as [Hp|Hp]; [|exact (IH1 p Hp)].
        destruct m as [f|f ps|f]; cbn [wait_step2 from_ok] in Hstep.
        -- destruct (N.eqb f c2) eqn:E; inversion Hstep; subst; cbn in Hp; [|destruct Hp].
           destruct Hp as [<-|[]]. apply N.eqb_eq. exact E.
        -- destruct (N.eqb f c2); [destruct ps|]; inversion Hstep; subst; cbn in Hp; destruct Hp.
        -- destruct (fail_ok wc f); inversion Hstep; subst; cbn in Hp; destruct Hp.
      * intros x Hx. apply in_app_or in Hx. destruct Hx as [Hx|Hx].
        -- destruct m as [f|f ps|f]; cbn [wait_step2 from_ok] in Hstep.
           ++ destruct (N.eqb f c2); inversion Hstep; subst; cbn in Hx; destruct Hx.
           ++ destruct (N.eqb f c2) eqn:E; [destruct ps as [l|]|]; inversion Hstep; subst; cbn in Hx; try (destruct Hx; fail).
              destruct Hx as [<-|[]]. cbn [fst snd]. split; [reflexivity|]. exists at_. left.
              apply N.eqb_eq in E. subst. reflexivity.
           ++ destruct (fail_ok wc f); inversion Hstep; subst; cbn in Hx; destruct Hx.
        -- destruct (IH2 x Hx) as [Hf [a Ha]]. split; [exact Hf|]. exists a. right. exact Ha.
    + destruct (watch <=? at_)%N; [split; intros x Hx; destruct Hx|].
      cbn [is_waiting andb].
      destruct (wait_step2 wc (Some c2) Running m) as [st' o] eqn:Hstep. cbn [tr_outs].
      rewrite readies_of_app, runs_of_app.
      match goal with |- context [timed_run wc (Some c2) timeout watch ?d st' r] => destruct (IH d st') as [IH1 IH2] end.
      assert (Ho : readies_of o = [] /\ runs_of o = []).
      { destruct m as [f|f ps|f]; cbn [wait_step2] in Hstep; try (inversion Hstep; subst; split; reflexivity).
        destruct (fail_ok wc f); inversion Hstep; subst; split; reflexivity. }
      destruct Ho as [Ho1 Ho2]. rewrite Ho1, Ho2. cbn [app]. split.
      * exact IH1.
      * intros x Hx. destruct (IH2 x Hx) as [Hf [a Ha]]. split; [exact Hf|]. exists a. right. exact Ha.
Qed.

(* ---- the judge accepts the model ---- *)

Lemma skipn_exact_nil : forall (A : Type) (a : list A), skipn (length a) a = [].
Proof. intros A a. rewrite <- (app_nil_r a) at 2. apply skipn_app_exact. Qed.

Lemma firstn_app_exact : forall (A : Type) (a b : list A), firstn (length a) (a ++ b) = a.
Proof. intros A a b. induction a as [|x r IH]; cbn [length firstn app]; [destruct b; reflexivity | rewrite IH; reflexivity]. Qed.

Definition br_guarded (br : peer -> list bmsg -> list peer -> peer) (holders : list peer) (self : peer)
           (bs : list bmsg) (e : err) : Prop :=
  forall ps, classify e = RetryExcluding ps ->
             bully_guarded (br self bs (exclude holders ps)) self (exclude holders ps) = true.

Lemma obs_allows_classified : forall (key : peer -> N) tm m br holders t self unreach runs1 e bs ready2 msgs2,
  In self holders -> wf_table m holders ->
  br_guarded br holders self bs e ->
  classify e <> GiveUp ->
  obs_allows (mkEnv tm holders t self unreach ready2 msgs2) (length runs1)
    (continue key tm m br classify holders t self true runs1 e bs ready2 msgs2) (classify e) = true.
Proof.
  intros key tm m br holders t self unreach runs1 e bs ready2 msgs2 Hsh Hwf Hbr Hng.
  unfold continue, after_failure_with. cbn [negb].
  destruct (classify e) as [ps| | |] eqn:Hc; [| | congruence |].
  - (* retry *)
    specialize (Hbr ps Hc).
    unfold obs_allows. cbn [e_self].
    destruct (memb self ps) eqn:Hself.
    { (* the failure names this relayer itself *)
      destruct (N.eqb (br self bs (exclude holders ps)) self).
      - destruct (initiate key holders t ps [self] ready2) as [calls ann]. reflexivity.
      - reflexivity. }
    apply memb_false_In in Hself.
    destruct (N.eqb (br self bs (exclude holders ps)) self) eqn:Hc2.
    + destruct (initiate key holders t ps [self] ready2) as [calls ann] eqn:Hinit.
      cbn [o_elected o_runs o_calls2 o_inits2 o_starts o_ready2 e_holders e_t e_self e_unreach e_ready2 e_msgs2].
      rewrite skipn_app_exact.
      rewrite (same_set_perm _ _ (sort_perm key (exclude holders ps))). cbn [andb forallb].
      repeat (apply andb_true_iff; split).
      * destruct ann as [sub|]; reflexivity.
      * destruct ann as [sub|]; cbn [forallb fst snd]; [|reflexivity].
        rewrite andb_true_r. apply forallb_forall. intros p Hp. apply negb_true_iff. apply memb_false_In.
        intros Hps.
        pose proof (announced_subset_spec key holders t ps self ready2 calls sub Hsh Hself Hinit) as Hspec.
        destruct Hspec as [_ [_ [_ [_ [_ Hex]]]]]. exact (Hex p Hp Hps).
      * apply forallb_forall. intros c Hin. apply in_map_iff in Hin. destruct Hin as [r [<- _]].
        cbn [snd]. apply same_set_refl.
      * destruct (enough holders t ps unreach self ready2) eqn:He; [|reflexivity].
        destruct (enough_announces key holders t ps unreach self ready2 Hsh He) as [calls' [S HS]].
        rewrite HS in Hinit. inversion Hinit; subst. reflexivity.
      * pose proof (told_starts_of m holders self ps (match ann with Some sub => [(true, sub)] | None => [] end)
                      (starts_of m runs1) [] Hwf) as Ht.
        rewrite app_nil_r in Ht. exact Ht.
    + (* another peer won: by [Hbr] it is a candidate, and only its messages move this relayer *)
      assert (Hcand : In (br self bs (exclude holders ps)) (exclude holders ps)).
      { unfold bully_guarded in Hbr. apply memb_In in Hbr. destruct Hbr as [E|Hin]; [|exact Hin].
        rewrite <- E in Hc2. rewrite N.eqb_refl in Hc2. discriminate. }
      set (c2 := br self bs (exclude holders ps)) in *.
      unfold retry_start_wait, timed_wait. cbn [fst snd].
      destruct (timed_run_from_coord None c2 (start_wait_timeout tm) (watch_timeout tm) msgs2 (start_wait_timeout tm) Waiting)
        as [Hrd Hrn].
      cbn [o_elected o_runs o_calls2 o_inits2 o_starts o_ready2 e_holders e_t e_self e_unreach e_ready2 e_msgs2].
      rewrite skipn_app_exact.
      rewrite (same_set_perm _ _ (sort_perm key (exclude holders ps))). cbn [andb forallb].
      repeat (apply andb_true_iff; split); try reflexivity.
      * apply forallb_forall. intros p Hp. rewrite (Hrd p Hp). apply memb_In. exact Hcand.
      * apply forallb_forall. intros r Hr. destruct (Hrn r Hr) as [Hf [a Ha]]. rewrite Hf.
        unfold started_by. apply existsb_exists. exists (a, MStart c2 (Some (snd r))). split; [exact Ha|].
        cbn [snd]. apply andb_true_iff. split; [apply memb_In; exact Hcand | apply list_peer_eqb_refl].
      * eapply forallb_impl; [|apply runs_of_flags].
        intros r Hr. apply negb_true_iff in Hr. rewrite Hr. reflexivity.
      * apply told_no_coord. apply runs_of_flags.
  - (* wait *)
    unfold obs_allows. cbn [o_elected o_final o_runs e_tm e_msgs2].
    rewrite skipn_app_exact. rewrite left_out_honours. rewrite andb_true_r.
    destruct (has_bad _ || _); reflexivity.
  - (* decode error *)
    unfold obs_allows. cbn [o_elected o_runs o_final].
    rewrite skipn_exact_nil. reflexivity.
Qed.

(* every continuation keeps the first attempt's runs and start broadcasts in front *)
Lemma continue_prefix : forall (key : peer -> N) tm m br cl holders t self retryable runs1 e bs ready2 msgs2,
  exists r2 s2,
    o_runs (continue key tm m br cl holders t self retryable runs1 e bs ready2 msgs2) = runs1 ++ r2
    /\ o_starts (continue key tm m br cl holders t self retryable runs1 e bs ready2 msgs2) = starts_of m runs1 ++ s2.
Proof.
  intros. unfold continue.
  destruct (after_failure_with cl retryable holders e) as [| |cands ex|].
  - exists [], []. cbn [o_runs o_starts]. rewrite !app_nil_r. split; reflexivity.
  - exists [], []. cbn [o_runs o_starts]. rewrite !app_nil_r. split; reflexivity.
  - destruct (N.eqb (br self bs cands) self).
    + destruct (initiate key holders t ex [self] ready2) as [calls ann].
      eexists. eexists. cbn [o_runs o_starts]. split; reflexivity.
    + eexists. exists []. cbn [o_runs o_starts]. split; [reflexivity | rewrite app_nil_r; reflexivity].
  - eexists. exists []. cbn [o_runs o_starts]. split; [reflexivity | rewrite app_nil_r; reflexivity].
Qed.

Lemma continue_no_panic : forall (key : peer -> N) tm m br cl holders t self retryable runs1 e bs ready2 msgs2,
  N.eqb (o_final (continue key tm m br cl holders t self retryable runs1 e bs ready2 msgs2)) FPanic = false.
Proof.
  intros. unfold continue.
  destruct (after_failure_with cl retryable holders e) as [| |cands ex|]; try reflexivity.
  - destruct (N.eqb (br self bs cands) self).
    + destruct (initiate key holders t ex [self] ready2) as [calls ann]. reflexivity.
    + cbn [o_final]. destruct (has_bad _ || _); reflexivity.
  - cbn [o_final]. destruct (has_bad _ || _); reflexivity.
Qed.

Lemma spec_ok_model : forall (key : peer -> N) tm m br holders t self unreach retryable runs1 e bs ready2 msgs2,
  In self holders -> wf_table m holders ->
  br_guarded br holders self bs e ->
  spec_ok (mkEnv tm holders t self unreach ready2 msgs2) retryable e (length runs1)
    (continue key tm m br classify holders t self retryable runs1 e bs ready2 msgs2) = true.
Proof.
  intros key tm m br holders t self unreach retryable runs1 e bs ready2 msgs2 Hsh Hwf Hbr.
  pose proof (skipn_exact_nil _ runs1) as Hskip.
  unfold spec_ok. rewrite continue_no_panic. cbn [negb andb]. apply andb_true_iff. split.
  { destruct (continue_prefix key tm m br classify holders t self retryable runs1 e bs ready2 msgs2) as [r2 [s2 [Hr Hs]]].
    rewrite Hr, Hs, firstn_app_exact. cbn [e_holders e_self].
    apply (told_starts_of m holders self [] runs1 [] s2 Hwf). }
  destruct retryable; cbn [negb].
  - destruct (classify_sound e) as [Hg|[k [Hin Ha]]].
    + pose proof (proj1 (classify_giveup_iff e) Hg) as Hnone. rewrite Hnone.
      unfold continue, after_failure_with. cbn [negb]. rewrite Hg.
      unfold obs_allows. cbn [o_elected o_runs o_final]. rewrite Hskip. reflexivity.
    + destruct (recognised_kinds e) as [|k0 r0] eqn:Hk; [destruct Hin|].
      apply existsb_exists. exists k. split; [exact Hin|]. rewrite Ha.
      apply obs_allows_classified; try assumption.
      intros Hg. apply classify_giveup_iff in Hg. congruence.
  - unfold continue, after_failure_with. cbn [negb].
    unfold obs_allows. cbn [o_elected o_runs o_final]. rewrite Hskip. reflexivity.
Qed.

(* with the repaired election rule the judge accepts the model's session whatever anybody sends during
   the election *)
Lemma spec_ok_model_strict : forall (key : peer -> N) tm m holders t self unreach retryable runs1 e bs ready2 msgs2,
  In self holders -> wf_table m holders ->
  spec_ok (mkEnv tm holders t self unreach ready2 msgs2) retryable e (length runs1)
    (continue key tm m (bully_strict key) classify holders t self retryable runs1 e bs ready2 msgs2) = true.
Proof.
  intros. apply spec_ok_model; try assumption. intros ps _. apply bully_strict_guarded.
Qed.

(* as coded the judge accepts the model's session whenever the election's outcome is this relayer or a
   candidate - in particular when only candidates take part in it *)
Lemma bully_coded_candidates_guarded : forall key self bs cands,
  forallb (from_candidate cands) bs = true -> bully_guarded (bully_coded key self bs cands) self cands = true.
Proof.
  intros key self bs cands H. rewrite <- (bully_strict_candidates_only key self bs cands H). apply bully_strict_guarded.
Qed.

(* a coordinator that is unresponsive in the sense of the specification - whatever other peers send
   meanwhile - is classified as such: the judge's demand (the CoordinatorError retry) holds of the model *)
Lemma silent_ok_model : forall (key : peer -> N) tm m br holders t self unreach retryable msgs1 bs ready2 msgs2 c,
  coordinator key holders = Some c -> In self holders -> wf_table m holders ->
  bully_guarded (br self bs (exclude holders [c])) self (exclude holders [c]) = true ->
  silent_ok (mkEnv tm holders t self unreach ready2 msgs2) retryable c msgs1
    (session_silent key tm m br classify holders t self retryable msgs1 bs ready2 msgs2) = true.
Proof.
  intros key tm m br holders t self unreach retryable msgs1 bs ready2 msgs2 c Hc Hsh Hwf Hbr.
  unfold silent_ok. cbn [e_tm].
  destruct (coordinator_unresponsive tm c msgs1) eqn:Hu; [|reflexivity].
  unfold coordinator_unresponsive in Hu. apply andb_true_iff in Hu. destruct Hu as [Hlt Hall].
  apply N.ltb_lt in Hlt.
  unfold session_silent. rewrite Hc. cbv zeta. unfold silent_wait, start_wait_timeout, watch_timeout.
  destruct (unresponsive_run tm c msgs1 (coord_to tm) Hlt Hall) as [Hst Hdl].
  rewrite Hst. apply N.ltb_lt in Hdl. rewrite Hdl.
  apply (spec_ok_model key tm m br holders t self unreach retryable [] _ bs ready2 msgs2 Hsh Hwf).
  intros ps Hps. assert (Hcl : classify (pool_join [Node (KCoord c) []]) = RetryExcluding [c]) by reflexivity.
  rewrite Hcl in Hps. inversion Hps; subst. exact Hbr.
Qed.

(* two relayers: the judge accepts what the model's coordinator and the model's other relayer do *)
Lemma duo_ok_model : forall (key : peer -> N) tm m br holders t a c unreach ready1 msgs2,
  In c holders -> wf_table m holders ->
  duo_ok (mkEnv tm holders t c unreach [] msgs2) a
    (duo_a key m holders t a ready1) (duo_c key tm m br classify holders t a c ready1 msgs2) = true.
Proof.
  intros key tm m br holders t a c unreach ready1 msgs2 Hch Hwf.
  unfold duo_ok, duo_a, duo_c. cbn [e_holders e_self].
  destruct (duo_subset key holders t a ready1) as [sub|]; [|reflexivity].
  cbn [o_runs o_starts]. apply andb_true_iff. split.
  { pose proof (told_starts_of m holders a [] [(true, sub)] [] [] Hwf) as Ht. rewrite app_nil_r in Ht. exact Ht. }
  destruct (memb c sub) eqn:Hm; [reflexivity|].
  destruct (continue_prefix key tm m br classify holders t c true [(false, sub)] left_out_error [] [] msgs2)
    as [r2 [s2 [Hr _]]].
  rewrite Hr. cbn [app]. rewrite list_peer_eqb_refl. cbn [andb].
  apply (spec_ok_model key tm m br holders t c unreach true [(false, sub)] left_out_error [] [] msgs2 Hch Hwf).
  intros ps Hps. assert (Hcl : classify left_out_error = WaitForStart) by reflexivity. rewrite Hcl in Hps. discriminate.
Qed.

(* what an accepted observation means, case by case *)
Lemma obs_allows_retry_sound : forall ev nfirst o ps,
  obs_allows ev nfirst o (RetryExcluding ps) = true -> ~ In (e_self ev) ps ->
  exists cs, o_elected o = Some cs
    /\ (forall p, In p ps -> ~ In p cs)
    /\ (forall p, In p (e_holders ev) -> ~ In p ps -> In p cs)
    /\ (forall sub, In (true, sub) (skipn nfirst (o_runs o)) -> forall p, In p ps -> ~ In p sub)
    (* the attempt runs without depending on the culprits *)
    /\ (o_inits2 o <> [] -> enough (e_holders ev) (e_t ev) ps (e_unreach ev) (e_self ev) (e_ready2 ev) = true ->
        exists sub, In (true, sub) (skipn nfirst (o_runs o)))
    (* and everybody else is told *)
    /\ (forall sub, In (true, sub) (skipn nfirst (o_runs o)) ->
        exists to, In (sub, to) (o_starts o)
                   /\ forall p, In p (e_holders ev) -> p <> e_self ev -> ~ In p ps -> In p to)
    (* whoever it treats as coordinator of the replacement attempt is a key holder that is not a culprit *)
    /\ (forall p, In p (o_ready2 o) -> In p (e_holders ev) /\ ~ In p ps)
    /\ (forall l, In (false, l) (skipn nfirst (o_runs o)) ->
        exists at_ f, In (at_, MStart f (Some l)) (e_msgs2 ev) /\ In f (e_holders ev) /\ ~ In f ps).
Proof.
  intros ev nfirst o ps H Hself. unfold obs_allows in H.
  apply memb_false_In in Hself. rewrite Hself in H.
  destruct (o_elected o) as [cs|]; [|discriminate]. exists cs. split; [reflexivity|].
  apply andb_true_iff in H. destruct H as [H H5]. apply andb_true_iff in H. destruct H as [H H4].
  apply andb_true_iff in H. destruct H as [H H3]. apply andb_true_iff in H. destruct H as [H H2].
  apply andb_true_iff in H. destruct H as [H H7]. apply andb_true_iff in H. destruct H as [H1 H6].
  unfold same_set in H1. apply andb_true_iff in H1. destruct H1 as [Ha Hb].
  rewrite forallb_forall in Ha, Hb.
  refine (conj _ (conj _ (conj _ (conj _ (conj _ (conj _ _)))))).
  - intros p Hp Hc. specialize (Ha p Hc). apply memb_In in Ha. apply exclude_spec in Ha. tauto.
  - intros p Hh Hn. assert (Hin : In p (exclude (e_holders ev) ps)) by (apply exclude_spec; tauto).
    specialize (Hb p Hin). apply memb_In. exact Hb.
  - intros sub Hin p Hp Hs. rewrite forallb_forall in H2. specialize (H2 _ Hin). cbn [fst snd] in H2.
    rewrite forallb_forall in H2. specialize (H2 p Hs). apply negb_true_iff in H2.
    apply memb_false_In in H2. exact (H2 Hp).
  - intros Hi He. destruct (o_inits2 o) as [|i0 ir]; [congruence|]. rewrite He in H4.
    apply existsb_exists in H4. destruct H4 as [[b sub] [Hin Hb']]. cbn [fst] in Hb'. subst b.
    exists sub. exact Hin.
  - intros sub Hin. exact (told_sound _ _ _ _ _ H5 sub Hin).
  - intros p Hp. rewrite forallb_forall in H6. specialize (H6 p Hp). apply memb_In in H6. apply exclude_spec in H6. tauto.
  - intros l Hin. rewrite forallb_forall in H7. specialize (H7 _ Hin). cbn [fst snd] in H7.
    unfold started_by in H7. apply existsb_exists in H7. destruct H7 as [[a mm] [Hm Hx]]. cbn [snd] in Hx.
    destruct mm as [f|f [l'|]|f]; try discriminate.
    apply andb_true_iff in Hx. destruct Hx as [Hf Hl]. apply list_peer_eqb_eq in Hl. subst l'.
    apply memb_In in Hf. apply exclude_spec in Hf. exists a, f. tauto.
Qed.

(* a failure that names this relayer itself: all an accepted observation says is that it was not
   turned into success *)
Lemma obs_allows_retry_self_sound : forall ev nfirst o ps,
  obs_allows ev nfirst o (RetryExcluding ps) = true -> In (e_self ev) ps ->
  (exists cs, o_elected o = Some cs) \/ o_final o <> FNil.
Proof.
  intros ev nfirst o ps H Hself. unfold obs_allows in H. apply memb_In in Hself. rewrite Hself in H.
  destruct (o_elected o) as [cs|]; [left; exists cs; reflexivity|].
  right. apply negb_true_iff in H. apply N.eqb_neq in H. exact H.
Qed.

Lemma obs_allows_giveup_sound : forall ev nfirst o,
  obs_allows ev nfirst o GiveUp = true ->
  o_elected o = None /\ skipn nfirst (o_runs o) = [] /\ o_final o = FOriginal.
Proof.
  intros ev nfirst o H. unfold obs_allows in H.
  destruct (o_elected o); [discriminate|]. destruct (skipn nfirst (o_runs o)); [|discriminate].
  apply N.eqb_eq in H. auto.
Qed.

Lemma obs_allows_wait_sound : forall ev nfirst o,
  obs_allows ev nfirst o WaitForStart = true ->
  o_elected o = None /\ o_final o <> FOriginal
  /\ (forall pre at_ f l post,
        e_msgs2 ev = pre ++ (at_, MStart f (Some l)) :: post ->
        Forall (early_initiate (tss_to (e_tm ev))) pre -> (at_ < tss_to (e_tm ev))%N ->
        exists r, In r (skipn nfirst (o_runs o)) /\ snd r = l).
Proof.
  intros ev nfirst o H. unfold obs_allows in H.
  destruct (o_elected o); [discriminate|]. apply andb_true_iff in H. destruct H as [H Hh].
  apply negb_true_iff in H. apply N.eqb_neq in H. repeat split; auto.
  intros pre at_ f l post Heq Hpre Hat. rewrite Heq in Hh. eapply honoured_sound; eassumption.
Qed.

(* an accepted silent-coordinator session: with an unresponsive coordinator [c] and a retryable
   process the relayer held an election without [c] - whatever the other peers sent meanwhile *)
Lemma silent_ok_sound : forall ev c msgs1 o,
  silent_ok ev true c msgs1 o = true -> coordinator_unresponsive (e_tm ev) c msgs1 = true -> e_self ev <> c ->
  exists cs, o_elected o = Some cs /\ ~ In c cs /\ (forall p, In p (e_holders ev) -> p <> c -> In p cs)
             /\ (forall p, In p (o_ready2 o) -> p <> c).
Proof.
  intros ev c msgs1 o H Hu Hne. unfold silent_ok in H. rewrite Hu in H. unfold spec_ok in H.
  apply andb_true_iff in H. destruct H as [H0 H]. apply andb_true_iff in H0. destruct H0 as [_ _]. cbn [negb] in H.
  assert (Hk : recognised_kinds (pool_join [Node (KCoord c) []]) = [KCoord c]) by reflexivity.
  rewrite Hk in H. cbn [existsb action_of_kind] in H. rewrite orb_false_r in H.
  assert (Hs : ~ In (e_self ev) [c]) by (intros [E|[]]; apply Hne; symmetry; exact E).
  destruct (obs_allows_retry_sound _ _ _ _ H Hs) as [cs [He [H1 [H2 [_ [_ [_ [H6 _]]]]]]]].
  exists cs. split; [exact He|]. split; [|split].
  - apply H1. left. reflexivity.
  - intros p Hp Hn. apply H2; [exact Hp|]. intros [Hx|[]]. apply Hn. symmetry. exact Hx.
  - intros p Hp Hpc. destruct (H6 p Hp) as [_ Hn]. apply Hn. left. symmetry. exact Hpc.
Qed.

(* an accepted two-relayer observation: a key holder the coordinator's subset leaves out ran its first
   attempt with that subset (it was told), held no election and did not end with the failure *)
Lemma duo_ok_sound : forall ev a oa oc sub rest,
  duo_ok ev a oa oc = true -> o_runs oa = (true, sub) :: rest -> ~ In (e_self ev) sub ->
  (exists rest', o_runs oc = (false, sub) :: rest') /\ o_elected oc = None /\ o_final oc <> FOriginal.
Proof.
  intros ev a oa oc sub rest H Hr Hn. unfold duo_ok in H. apply andb_true_iff in H. destruct H as [_ H].
  rewrite Hr in H. apply memb_false_In in Hn. rewrite Hn in H.
  destruct (o_runs oc) as [|[[|] sub'] rest'] eqn:Hc; try discriminate.
  apply andb_true_iff in H. destruct H as [Hl H]. apply list_peer_eqb_eq in Hl. subst sub'.
  split; [exists rest'; reflexivity|].
  unfold spec_ok in H. apply andb_true_iff in H. destruct H as [_ H]. cbn [negb] in H.
  assert (Hk : recognised_kinds left_out_error = [KSubset]) by reflexivity.
  rewrite Hk in H. cbn [existsb action_of_kind] in H. rewrite orb_false_r in H.
  destruct (obs_allows_wait_sound _ _ _ H) as [H1 [H2 _]]. split; assumption.
Qed.

(* as coded the full statement fails: a key holder that is not the first candidate accepts the
   announcement of an excluded peer *)
Lemma bully_open_seat_refuted :
  exists (key : peer -> N) self bs cands,
    In self cands /\ bully_guarded (bully_coded key self bs cands) self cands = false.
Proof.
  exists (fun p : peer => match p with 0 => 50 | 1 => 90 | 2 => 70 | 3 => 10 | _ => 5 end%N), 0%N, [BSelect 2%N], [0; 1; 3]%N.
  split; [left; reflexivity | vm_compute; reflexivity].
Qed.

(* whatever the failure value, an accepted session did not end in a panic of the relayer *)
Lemma spec_ok_no_panic : forall ev retryable e nfirst o,
  spec_ok ev retryable e nfirst o = true -> o_final o <> FPanic.
Proof.
  intros ev retryable e nfirst o H. unfold spec_ok in H.
  apply andb_true_iff in H. destruct H as [H _]. apply andb_true_iff in H. destruct H as [H _].
  apply negb_true_iff in H. apply N.eqb_neq in H. exact H.
Qed.
