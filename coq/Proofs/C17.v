(* C17 - proofs about the status-bookkeeping model (Model/C17.v). *)
From Coq Require Import List NArith PeanoNat Bool Lia Permutation.
Import ListNotations.
From SygmaV Require Import Model.C17.
Local Open Scope N_scope.

(* ---------------------------------------------------------------------------------------------- *)
(* keys and the map *)

Lemma key_eqb_eq : forall a b, key_eqb a b = true <-> a = b.
Proof.
  intros [[a1 a2] a3] [[b1 b2] b3]. unfold key_eqb. rewrite !andb_true_iff, !N.eqb_eq. split.
  - intros [[-> ->] ->]. reflexivity.
  - intro H. injection H as -> -> ->. repeat split.
Qed.

Lemma key_eqb_refl : forall a, key_eqb a a = true.
Proof. intro a. apply key_eqb_eq. reflexivity. Qed.

Lemma key_eqb_neq : forall a b, key_eqb a b = false <-> a <> b.
Proof.
  intros a b. split.
  - intros H E. apply key_eqb_eq in E. congruence.
  - intro H. destruct (key_eqb a b) eqn:E; [apply key_eqb_eq in E; contradiction|reflexivity].
Qed.

Lemma get_set : forall m k v k', get (set m k v) k' = if key_eqb k' k then v else get m k'.
Proof. intros. reflexivity. Qed.

Lemma memk_In : forall k l, memk k l = true <-> In k l.
Proof.
  intros k l. unfold memk. rewrite existsb_exists. split.
  - intros [x [Hx E]]. apply key_eqb_eq in E. subst. exact Hx.
  - intro H. exists k. split; [exact H|apply key_eqb_refl].
Qed.

Lemma memk_false : forall k l, memk k l = false <-> ~ In k l.
Proof.
  intros k l. split.
  - intros H Hin. apply memk_In in Hin. congruence.
  - intro H. destruct (memk k l) eqn:E; [apply memk_In in E; contradiction|reflexivity].
Qed.

Lemma memk_app : forall k a b, memk k (a ++ b) = memk k a || memk k b.
Proof. intros. unfold memk. apply existsb_app. Qed.

(* "executed stays executed" between two store contents *)
Definition ext_ok (m m' : kv) : Prop := forall k, is_exec (get m k) = true -> is_exec (get m' k) = true.

Lemma ext_ok_refl : forall m, ext_ok m m.
Proof. intros m k H. exact H. Qed.

Lemma ext_ok_trans : forall a b c, ext_ok a b -> ext_ok b c -> ext_ok a c.
Proof. intros a b c H1 H2 k H. apply H2, H1, H. Qed.

Lemma ext_ok_set : forall m k v, (is_exec (get m k) = true -> is_exec v = true) -> ext_ok m (set m k v).
Proof.
  intros m k v H k' Hk'. rewrite get_set. destruct (key_eqb k' k) eqn:E; [|exact Hk'].
  apply key_eqb_eq in E. subst k'. apply H. exact Hk'.
Qed.

(* ---------------------------------------------------------------------------------------------- *)
(* single store calls: exactly one fault entry is consumed; a failing call changes nothing and
   logs its key *)

Lemma read_cases : forall k s,
  (read k s = (None, mkSto (s_kv s) (tl (s_faults s)) (k :: s_failed s)) /\ hd false (s_faults s) = true) \/
  (read k s = (Some (get (s_kv s) k), mkSto (s_kv s) (tl (s_faults s)) (s_failed s)) /\ hd false (s_faults s) = false).
Proof.
  intros k s. unfold read, next_fault. destruct (s_faults s) as [|[|] r]; cbn [hd tl]; auto.
Qed.

Lemma write_cases : forall k v s,
  (write k v s = (false, mkSto (s_kv s) (tl (s_faults s)) (k :: s_failed s)) /\ hd false (s_faults s) = true) \/
  (write k v s = (true, mkSto (set (s_kv s) k v) (tl (s_faults s)) (s_failed s)) /\ hd false (s_faults s) = false).
Proof.
  intros k v s. unfold write, next_fault. destruct (s_faults s) as [|[|] r]; cbn [hd tl]; auto.
Qed.

(* ---------------------------------------------------------------------------------------------- *)
(* isExecuted (both copies) *)

Lemma is_executed_v1_eq : is_executed_v1 = is_executed_retry.
Proof. reflexivity. Qed.

(* [nf]: the keys logged by this call (none or [k]) *)
Lemma isx_spec : forall k s skip s',
  is_executed_retry k s = (skip, s') ->
  exists nf, s_failed s' = nf ++ s_failed s /\ (nf = [] \/ nf = [k]) /\
    skip = is_exec (get (s_kv s) k) || negb (match nf with [] => true | _ => false end) /\
    (s_kv s' = s_kv s \/ (get (s_kv s) k = Pending /\ s_kv s' = set (s_kv s) k Failed)) /\
    (skip = false -> startable (get (s_kv s') k) = true).
Proof.
  intros k s skip s' H. unfold is_executed_retry in H.
  destruct (read_cases k s) as [[R _]|[R _]]; rewrite R in H.
  - injection H as <- <-. cbn [s_failed s_kv]. exists [k]. repeat split; auto.
    + rewrite orb_true_r. reflexivity.
    + discriminate.
  - destruct (get (s_kv s) k) eqn:G.
    + injection H as <- <-. cbn [s_failed s_kv]. exists []. repeat split; auto. intros _. rewrite G. reflexivity.
    + destruct (write_cases k Failed (mkSto (s_kv s) (tl (s_faults s)) (s_failed s))) as [[W _]|[W _]];
        rewrite W in H; cbn [s_kv s_failed s_faults negb] in H; injection H as <- <-; cbn [s_failed s_kv].
      * exists [k]. repeat split; auto. discriminate.
      * exists []. repeat split; auto. intros _. rewrite get_set, key_eqb_refl. reflexivity.
    + injection H as <- <-. cbn [s_failed s_kv]. exists []. repeat split; auto. intros _. rewrite G. reflexivity.
    + injection H as <- <-. cbn [s_failed s_kv]. exists []. repeat split; auto. discriminate.
Qed.

(* ---------------------------------------------------------------------------------------------- *)
(* the filter *)

Lemma nodupk_cons : forall k l, nodupk (k :: l) = true -> ~ In k l /\ nodupk l = true.
Proof.
  intros k l H. cbn [nodupk] in H. apply andb_true_iff in H. destruct H as [H1 H2].
  apply negb_true_iff in H1. apply memk_false in H1. split; assumption.
Qed.

(* what one pass over the deposits of a block does to the store *)
Definition frame (m m' : kv) (ks : list key) : Prop :=
  (forall k, ~ In k ks -> get m' k = get m k) /\
  (forall k, get m' k = get m k \/ (get m k = Pending /\ get m' k = Failed)).

Lemma frame_refl : forall m ks, frame m m ks.
Proof. intros m ks. split; auto. Qed.

Lemma filter_loop_spec : forall sel src ds s em s',
  filter_loop is_executed_retry sel src ds s = (em, s') ->
  nodupk (map (dkey src) ds) = true ->
  exists nf,
    s_failed s' = nf ++ s_failed s /\
    (forall k, In k nf -> In k (map (dkey src) ds)) /\
    em = filter (fun d => sel d && negb (is_exec (get (s_kv s) (dkey src d))) && negb (memk (dkey src d) nf)) ds /\
    frame (s_kv s) (s_kv s') (map (dkey src) ds) /\
    (forall d, In d em -> startable (get (s_kv s') (dkey src d)) = true).
Proof.
  intros sel src. induction ds as [|d r IH]; intros s em s' H Hnd; cbn [filter_loop] in H.
  - injection H as <- <-. exists []. repeat split; auto; try contradiction.
  - cbn [map] in Hnd. apply nodupk_cons in Hnd. destruct Hnd as [Hd Hr].
    destruct (sel d) eqn:Hsel.
    + destruct (is_executed_retry (dkey src d) s) as [skip s1] eqn:Hisx.
      destruct (filter_loop is_executed_retry sel src r s1) as [em' s2] eqn:Hrec.
      injection H as <- <-.
      destruct (isx_spec _ _ _ _ Hisx) as [nf1 [F1 [N1 [Sk [K1 St1]]]]].
      destruct (IH _ _ _ Hrec Hr) as [nf2 [F2 [In2 [Em2 [[Fr2a Fr2b] St2]]]]].
      (* statuses of the other deposits are not touched by the call for d *)
      assert (Hother : forall k, k <> dkey src d -> get (s_kv s1) k = get (s_kv s) k).
      { intros k Hk. destruct K1 as [K1|[_ K1]]; rewrite K1; [reflexivity|].
        rewrite get_set. apply key_eqb_neq in Hk. rewrite Hk. reflexivity. }
      assert (Hnf1 : forall k, In k nf1 -> k = dkey src d).
      { intros k Hk. destruct N1 as [N1|N1]; rewrite N1 in Hk; [contradiction|].
        destruct Hk as [Hk|[]]. symmetry. exact Hk. }
      assert (Hd2 : memk (dkey src d) nf2 = false).
      { apply memk_false. intro Hin. apply Hd. apply In2. exact Hin. }
      exists (nf2 ++ nf1). split; [|split; [|split; [|split]]].
      * rewrite F2, F1. apply app_assoc.
      * intros k Hk. apply in_app_or in Hk. destruct Hk as [Hk|Hk].
        -- right. apply In2. exact Hk.
        -- left. symmetry. apply Hnf1. exact Hk.
      * cbn [filter]. rewrite Hsel. cbn [andb].
        rewrite memk_app, Hd2. cbn [orb].
        assert (Etail : em' = filter (fun d0 => sel d0 && negb (is_exec (get (s_kv s) (dkey src d0)))
                                          && negb (memk (dkey src d0) (nf2 ++ nf1))) r).
        { rewrite Em2. apply filter_ext_in. intros d0 Hd0.
          assert (Hne : dkey src d0 <> dkey src d).
          { intro E. apply Hd. rewrite <- E. apply in_map. exact Hd0. }
          rewrite (Hother _ Hne). rewrite memk_app.
          assert (M1 : memk (dkey src d0) nf1 = false).
          { apply memk_false. intro Hin. apply Hne. apply Hnf1. exact Hin. }
          rewrite M1, orb_false_r. reflexivity. }
        rewrite <- Etail.
        assert (Hhead : negb (is_exec (get (s_kv s) (dkey src d))) && negb (memk (dkey src d) nf1) = negb skip).
        { rewrite Sk. destruct N1 as [N1|N1]; rewrite N1; cbn [memk existsb].
          - rewrite orb_false_r. cbn. rewrite andb_true_r. reflexivity.
          - rewrite key_eqb_refl. cbn. rewrite orb_true_r, andb_false_r. reflexivity. }
        rewrite Hhead. destruct skip; reflexivity.
      * split.
        -- intros k Hk. cbn [map] in Hk. rewrite Fr2a.
           ++ apply Hother. intro E. apply Hk. left. symmetry. exact E.
           ++ intro Hin. apply Hk. right. exact Hin.
        -- intro k. destruct (key_eqb k (dkey src d)) eqn:E.
           ++ apply key_eqb_eq in E. subst k. rewrite (Fr2a _ Hd).
              destruct K1 as [K1|[G K1]]; rewrite K1; [left; reflexivity|].
              right. split; [exact G|]. rewrite get_set, key_eqb_refl. reflexivity.
           ++ apply key_eqb_neq in E. rewrite <- (Hother _ E). apply Fr2b.
      * intros d0 Hd0. destruct skip.
        -- apply St2. exact Hd0.
        -- destruct Hd0 as [Hd0|Hd0].
           ++ subst d0. rewrite (Fr2a _ Hd). apply St1. reflexivity.
           ++ apply St2. exact Hd0.
    + destruct (IH _ _ _ H Hr) as [nf [F [In2 [Em [[Fra Frb] St]]]]].
      exists nf. split; [exact F|]. split; [|split; [|split]].
      * intros k Hk. right. apply In2. exact Hk.
      * cbn [filter]. rewrite Hsel. cbn [andb]. exact Em.
      * split; [|exact Frb]. intros k Hk. apply Fra. intro Hin. apply Hk. right. exact Hin.
      * exact St.
Qed.

Lemma frame_ext_ok : forall m m' ks, frame m m' ks -> ext_ok m m'.
Proof.
  intros m m' ks [_ F] k H. destruct (F k) as [E|[E _]]; [rewrite E; exact H|].
  rewrite E in H. discriminate.
Qed.

Lemma filter_deposits_spec : forall p src res dest ds s em s',
  filter_deposits p src res dest ds s = (em, s') ->
  nodupk (map (dkey src) ds) = true ->
  exists nf,
    s_failed s' = nf ++ s_failed s /\
    em = expected_retry p src res dest ds (s_kv s) nf /\
    frame (s_kv s) (s_kv s') (map (dkey src) ds) /\
    (forall d, In d em -> startable (get (s_kv s') (dkey src d)) = true).
Proof.
  intros p src res dest ds s em s' H Hnd. unfold filter_deposits in H.
  assert (E : isx_of p = is_executed_retry) by (destruct p; reflexivity).
  rewrite E in H.
  destruct (filter_loop_spec _ _ _ _ _ _ H Hnd) as [nf [F [_ [Em [Fr St]]]]].
  exists nf. repeat split; try assumption; apply Fr.
Qed.

(* ---------------------------------------------------------------------------------------------- *)
(* the executor's loops never overwrite "executed" *)

Lemma pfe_loop_ext : forall ks acc s r s', pfe_loop ks acc s = (r, s') -> ext_ok (s_kv s) (s_kv s').
Proof.
  induction ks as [|k ks IH]; intros acc s r s' H; cbn [pfe_loop] in H.
  - injection H as <- <-. apply ext_ok_refl.
  - destruct (read_cases k s) as [[R _]|[R _]]; rewrite R in H.
    + injection H as <- <-. apply ext_ok_refl.
    + destruct (startable (get (s_kv s) k)) eqn:St.
      * destruct (write_cases k Pending (mkSto (s_kv s) (tl (s_faults s)) (s_failed s))) as [[W _]|[W _]];
          rewrite W in H; cbn [s_kv s_faults s_failed] in H.
        -- injection H as <- <-. apply ext_ok_refl.
        -- apply IH in H. cbn [s_kv] in H. eapply ext_ok_trans; [|exact H].
           apply ext_ok_set. intro Hx. destruct (get (s_kv s) k); discriminate.
      * apply IH in H. exact H.
Qed.

Lemma write_ext_exec : forall k s, ext_ok (s_kv s) (s_kv (snd (write k Executed s))).
Proof.
  intros k s. destruct (write_cases k Executed s) as [[W _]|[W _]]; rewrite W; cbn [snd s_kv].
  - apply ext_ok_refl.
  - apply ext_ok_set. reflexivity.
Qed.

Lemma store_loop_ext : forall v ks s,
  v = Executed \/ v = Failed -> ext_ok (s_kv s) (s_kv (store_loop true v ks s)).
Proof.
  intros v ks. induction ks as [|k ks IH]; intros s Hv; cbn [store_loop]; [apply ext_ok_refl|].
  destruct Hv as [Hv|Hv]; subst v; cbn [andb].
  - eapply ext_ok_trans; [apply write_ext_exec|apply IH; left; reflexivity].
  - destruct (read_cases k s) as [[R _]|[R _]]; rewrite R.
    + apply (IH (mkSto (s_kv s) (tl (s_faults s)) (k :: s_failed s))). right. reflexivity.
    + destruct (is_exec (get (s_kv s) k)) eqn:Ex.
      * apply (IH (mkSto (s_kv s) (tl (s_faults s)) (s_failed s))). right. reflexivity.
      * eapply ext_ok_trans; [|apply IH; right; reflexivity].
        destruct (write_cases k Failed (mkSto (s_kv s) (tl (s_faults s)) (s_failed s))) as [[W _]|[W _]];
          rewrite W; cbn [snd s_kv].
        -- apply ext_ok_refl.
        -- apply ext_ok_set. intro Hx. congruence.
Qed.

(* ---------------------------------------------------------------------------------------------- *)
(* one step of the repaired code *)

(* executed is preserved by the filter whether or not the deposits have distinct keys *)
Lemma filter_loop_ext : forall sel src ds s em s',
  filter_loop is_executed_retry sel src ds s = (em, s') -> ext_ok (s_kv s) (s_kv s').
Proof.
  intros sel src. induction ds as [|d r IH]; intros s em s' H; cbn [filter_loop] in H.
  - injection H as <- <-. apply ext_ok_refl.
  - destruct (sel d).
    + destruct (is_executed_retry (dkey src d) s) as [skip s1] eqn:Hisx.
      destruct (filter_loop is_executed_retry sel src r s1) as [em' s2] eqn:Hrec.
      injection H as <- <-.
      destruct (isx_spec _ _ _ _ Hisx) as [nf1 [_ [_ [_ [K1 _]]]]].
      eapply ext_ok_trans; [|eapply IH; exact Hrec].
      destruct K1 as [K1|[Gp K1]]; rewrite K1; [apply ext_ok_refl|].
      apply ext_ok_set. intro Hx. rewrite Gp in Hx. discriminate.
    + eapply IH. exact H.
Qed.

Lemma step_ext : forall o x, ext_ok (s_kv (st x)) (s_kv (st (fst (step o x)))).
Proof.
  intros o x. unfold step, step_gen. destruct o as [p src res dest ds|ks|i|i].
  - destruct (filter_deposits p src res dest ds (clear (st x))) as [em s'] eqn:H. cbn [fst st].
    unfold filter_deposits in H.
    assert (E : isx_of p = is_executed_retry) by (destruct p; reflexivity). rewrite E in H.
    apply filter_loop_ext in H. exact H.
  - destruct (locked x); cbn [fst st]; [apply ext_ok_refl|].
    destruct (pfe_loop ks [] (clear (st x))) as [[sel|] s'] eqn:H; cbn [fst st];
      apply pfe_loop_ext in H; exact H.
  - destruct (locked x); cbn [fst st]; [apply ext_ok_refl|].
    apply (store_loop_ext Executed _ (clear (st x))). left. reflexivity.
  - destruct (locked x); cbn [fst st]; [apply ext_ok_refl|].
    apply (store_loop_ext Failed _ (clear (st x))). right. reflexivity.
Qed.

Lemma step_unlocked : forall o x, locked x = false ->
  locked (fst (step o x)) = false /\ snd (step o x) <> OStuck.
Proof.
  intros o x Hl. unfold step, step_gen. destruct o as [p src res dest ds|ks|i|i]; rewrite ?Hl.
  - destruct (filter_deposits p src res dest ds (clear (st x))) as [em s']. cbn [fst snd locked].
    split; [reflexivity|discriminate].
  - destruct (pfe_loop ks [] (clear (st x))) as [[sel|] s']; cbn [fst snd locked negb]; split; try reflexivity; discriminate.
  - cbn [fst snd locked]. split; [reflexivity|discriminate].
  - cbn [fst snd locked]. split; [reflexivity|discriminate].
Qed.

(* ---------------------------------------------------------------------------------------------- *)
(* histories *)

Lemma final_run_cons : forall o r x, final (o :: r) x = final r (fst (step o x)).
Proof. reflexivity. Qed.

Lemma executed_absorbing : forall ops x k,
  is_exec (get (s_kv (st x)) k) = true -> is_exec (get (s_kv (st (final ops x))) k) = true.
Proof.
  induction ops as [|o r IH]; intros x k H; [exact H|].
  rewrite final_run_cons. apply IH. apply step_ext. exact H.
Qed.

Lemma run_cons : forall o r x,
  run (o :: r) x = (snd (step o x), s_failed (st (fst (step o x))), s_kv (st (fst (step o x)))) :: run r (fst (step o x)).
Proof. intros. unfold run. cbn [run_gen]. destruct (step o x) as [x' ou]. reflexivity. Qed.

(* the same along the observed snapshots *)
Lemma executed_absorbing_run : forall ops x k,
  is_exec (get (s_kv (st x)) k) = true ->
  Forall (fun ob : obs => is_exec (get (snd ob) k) = true) (run ops x).
Proof.
  induction ops as [|o r IH]; intros x k H; [constructor|].
  rewrite run_cons. constructor.
  - cbn [snd]. apply step_ext. exact H.
  - apply IH. apply step_ext. exact H.
Qed.

Lemma executor_never_stuck : forall ops x, locked x = false ->
  locked (final ops x) = false /\ Forall (fun ob : obs => fst (fst ob) <> OStuck) (run ops x).
Proof.
  induction ops as [|o r IH]; intros x Hl; [split; [exact Hl|constructor]|].
  destruct (step_unlocked o x Hl) as [Hl' Hns].
  rewrite final_run_cons, run_cons. destruct (IH _ Hl') as [A B]. split; [exact A|].
  constructor; [cbn [fst]; exact Hns|exact B].
Qed.

(* ---------------------------------------------------------------------------------------------- *)
(* retries: exactness, release of pending proposals, withholding on store errors *)

Lemma step_retry : forall p src res dest ds x,
  nodupk (map (dkey src) ds) = true ->
  exists em s',
    step (Retry p src res dest ds) x = (mkState s' (locked x) (batches x), ORetry (regroup p em)) /\
    em = expected_retry p src res dest ds (s_kv (st x)) (s_failed s') /\
    frame (s_kv (st x)) (s_kv s') (map (dkey src) ds) /\
    (forall d, In d em -> startable (get (s_kv s') (dkey src d)) = true).
Proof.
  intros p src res dest ds x Hnd. unfold step, step_gen.
  destruct (filter_deposits p src res dest ds (clear (st x))) as [em s'] eqn:H.
  destruct (filter_deposits_spec _ _ _ _ _ _ _ _ H Hnd) as [nf [F [Em [Fr St]]]].
  cbn [clear s_failed s_kv] in *. rewrite app_nil_r in F. subst nf.
  exists em, s'. repeat split; try assumption; apply Fr.
Qed.

Lemma filter_exact : forall p src res dest ds x x' em,
  nodupk (map (dkey src) ds) = true ->
  step (Retry p src res dest ds) x = (x', ORetry em) ->
  em = regroup p (expected_retry p src res dest ds (s_kv (st x)) (s_failed (st x'))).
Proof.
  intros p src res dest ds x x' em Hnd H.
  destruct (step_retry p src res dest ds x Hnd) as [em0 [s' [E [Em _]]]].
  rewrite E in H. injection H as <- <-. cbn [st]. rewrite <- Em. reflexivity.
Qed.

Lemma In_regroup : forall p em d, In d (regroup p em) -> In d em.
Proof.
  intros p em d H. destruct p; cbn [regroup] in H; try exact H.
  apply in_flat_map in H. destruct H as [dom [_ H]]. apply filter_In in H. apply H.
Qed.

Lemma pending_released : forall p src res dest ds x x' em d,
  nodupk (map (dkey src) ds) = true ->
  step (Retry p src res dest ds) x = (x', ORetry em) ->
  In d em ->
  startable (get (s_kv (st x')) (dkey src d)) = true /\
  (get (s_kv (st x)) (dkey src d) = Pending -> get (s_kv (st x')) (dkey src d) = Failed).
Proof.
  intros p src res dest ds x x' em d Hnd H Hin.
  destruct (step_retry p src res dest ds x Hnd) as [em0 [s' [E [Em [[_ Fr] St]]]]].
  rewrite E in H. injection H as <- <-. cbn [st]. apply In_regroup in Hin.
  split; [apply St; exact Hin|]. intro Hp.
  destruct (Fr (dkey src d)) as [Eq|[_ Eq]]; [|exact Eq].
  specialize (St d Hin). rewrite Eq, Hp in St. discriminate.
Qed.

Lemma store_error_withholds : forall p src res dest ds x x' em d,
  nodupk (map (dkey src) ds) = true ->
  step (Retry p src res dest ds) x = (x', ORetry em) ->
  In (dkey src d) (s_failed (st x')) -> ~ In d em.
Proof.
  intros p src res dest ds x x' em d Hnd H Hf Hin.
  rewrite (filter_exact _ _ _ _ _ _ _ _ Hnd H) in Hin. apply In_regroup in Hin.
  unfold expected_retry in Hin. apply filter_In in Hin. destruct Hin as [_ Hb].
  apply andb_true_iff in Hb. destruct Hb as [_ Hb]. apply negb_true_iff in Hb.
  apply memk_false in Hb. contradiction.
Qed.

Lemma executed_not_reemitted : forall p src res dest ds x x' em d,
  nodupk (map (dkey src) ds) = true ->
  step (Retry p src res dest ds) x = (x', ORetry em) ->
  In d em -> is_exec (get (s_kv (st x)) (dkey src d)) = false /\ sel_of p res dest d = true /\ In d ds.
Proof.
  intros p src res dest ds x x' em d Hnd H Hin.
  rewrite (filter_exact _ _ _ _ _ _ _ _ Hnd H) in Hin. apply In_regroup in Hin.
  unfold expected_retry in Hin. apply filter_In in Hin. destruct Hin as [Hds Hb].
  apply andb_true_iff in Hb. destruct Hb as [Hb _]. apply andb_true_iff in Hb. destruct Hb as [Hs Hb].
  apply negb_true_iff in Hb. repeat split; assumption.
Qed.

(* without store errors: exactly the selected deposits that are not recorded executed, in order *)
Lemma filter_exact_nofault : forall p src res dest ds x x' em,
  nodupk (map (dkey src) ds) = true ->
  step (Retry p src res dest ds) x = (x', ORetry em) ->
  s_failed (st x') = [] ->
  em = regroup p (filter (fun d => sel_of p res dest d && negb (is_exec (get (s_kv (st x)) (dkey src d)))) ds).
Proof.
  intros p src res dest ds x x' em Hnd H Hf.
  rewrite (filter_exact _ _ _ _ _ _ _ _ Hnd H), Hf. unfold expected_retry. f_equal.
  apply filter_ext. intro d. cbn [memk existsb negb]. apply andb_true_r.
Qed.

(* a released proposal delivered right away (no store error) is selected for execution *)
Lemma released_then_delivered : forall k (s : sto) bs,
  startable (get (s_kv s) k) = true -> hd false (s_faults s) = false -> hd false (tl (s_faults s)) = false ->
  snd (step (Deliver [k]) (mkState s false bs)) = ODeliver (Some [k]).
Proof.
  intros k s bs Hs F1 F2. unfold step, step_gen. cbn [locked st pfe_loop].
  destruct (read_cases k (clear s)) as [[R Hf]|[R Hf]]; cbn [clear s_faults] in Hf; [congruence|].
  rewrite R. cbn [clear s_kv s_faults s_failed]. rewrite Hs.
  destruct (write_cases k Pending (mkSto (s_kv s) (tl (s_faults s)) [])) as [[W Hf']|[W Hf']];
    cbn [s_faults] in Hf'; [congruence|].
  rewrite W. reflexivity.
Qed.

(* ---------------------------------------------------------------------------------------------- *)
(* the judge accepts every run of the repaired model *)

Lemma dep_eqb_refl : forall d, dep_eqb d d = true.
Proof. intro d. unfold dep_eqb. rewrite !N.eqb_refl. reflexivity. Qed.

Lemma deps_eqb_refl : forall l, deps_eqb l l = true.
Proof. induction l as [|d r IH]; cbn [deps_eqb]; [reflexivity|]. rewrite dep_eqb_refl, IH. reflexivity. Qed.

Lemma dep_eqb_eq : forall a b, dep_eqb a b = true -> a = b.
Proof.
  intros [a1 a2 a3] [b1 b2 b3] H. unfold dep_eqb in H. cbn in H.
  apply andb_true_iff in H. destruct H as [H H3]. apply andb_true_iff in H. destruct H as [H1 H2].
  apply N.eqb_eq in H1, H2, H3. subst. reflexivity.
Qed.

Lemma deps_eqb_eq : forall a b, deps_eqb a b = true -> a = b.
Proof.
  induction a as [|x a IH]; destruct b as [|y b]; cbn [deps_eqb]; intro H; try reflexivity; try discriminate.
  apply andb_true_iff in H. destruct H as [H1 H2]. apply dep_eqb_eq in H1. apply IH in H2. subst. reflexivity.
Qed.

(* the multiset comparison of the judge *)
Lemma dep_eqb_iff : forall a b, dep_eqb a b = true <-> a = b.
Proof. intros a b. split; [apply dep_eqb_eq|]. intros ->. apply dep_eqb_refl. Qed.

Definition dep_dec : forall a b : deposit, {a = b} + {a <> b}.
Proof.
  intros a b. destruct (dep_eqb a b) eqn:E.
  - left. apply dep_eqb_eq. exact E.
  - right. intro H. apply dep_eqb_iff in H. congruence.
Defined.

Lemma count_occ_dep : forall d l, count_occ dep_dec l d = count_dep d l.
Proof.
  intros d. induction l as [|x r IH]; [reflexivity|]. cbn [count_occ count_dep].
  destruct (dep_dec x d) as [E|E].
  - subst x. rewrite dep_eqb_refl, IH. reflexivity.
  - destruct (dep_eqb d x) eqn:Ed; [apply dep_eqb_eq in Ed; congruence|]. rewrite IH. reflexivity.
Qed.

Lemma count_dep_In : forall d l, In d l <-> (count_dep d l > 0)%nat.
Proof. intros d l. rewrite <- count_occ_dep. apply count_occ_In. Qed.

Lemma count_dep_notin : forall d l, ~ In d l -> count_dep d l = O.
Proof. intros d l H. rewrite <- count_occ_dep. apply count_occ_not_In. exact H. Qed.

Lemma deps_perm_count : forall a b, deps_perm_eqb a b = true <-> forall d, count_dep d a = count_dep d b.
Proof.
  intros a b. unfold deps_perm_eqb. rewrite forallb_forall. split.
  - intros H d. destruct (in_dec dep_dec d (a ++ b)) as [Hin|Hin].
    + apply Nat.eqb_eq. apply H. exact Hin.
    + rewrite !count_dep_notin; [reflexivity| |]; intro Hx; apply Hin; apply in_or_app; auto.
  - intros H d _. apply Nat.eqb_eq. apply H.
Qed.

Lemma deps_perm_Permutation : forall a b, deps_perm_eqb a b = true <-> Permutation a b.
Proof.
  intros a b. rewrite deps_perm_count, (Permutation_count_occ dep_dec). split; intros H d.
  - rewrite !count_occ_dep. apply H.
  - rewrite <- !count_occ_dep. apply H.
Qed.

Lemma deps_perm_refl : forall l, deps_perm_eqb l l = true.
Proof. intro l. apply deps_perm_Permutation. apply Permutation_refl. Qed.

Lemma deps_perm_In : forall a b d, deps_perm_eqb a b = true -> In d a -> In d b.
Proof. intros a b d H. apply Permutation_in. apply deps_perm_Permutation. exact H. Qed.

Lemma keeps_executed_ext : forall univ m m', ext_ok m m' -> keeps_executed univ m m' = true.
Proof.
  intros univ m m' H. unfold keeps_executed. apply forallb_forall. intros k _.
  destruct (is_exec (get m k)) eqn:E; [|reflexivity]. rewrite (H k E). reflexivity.
Qed.

Lemma judge_step_model : forall univ o x,
  locked x = false -> wf_op o = true ->
  judge_step univ (s_kv (st x)) o
             (snd (step o x), s_failed (st (fst (step o x))), s_kv (st (fst (step o x)))) = true.
Proof.
  intros univ o x Hl Hwf. unfold judge_step.
  rewrite (keeps_executed_ext univ _ _ (step_ext o x)). cbn [andb].
  destruct (step_unlocked o x Hl) as [_ Hns].
  destruct o as [p src res dest ds|ks|i|i].
  - cbn [wf_op] in Hwf. apply andb_true_iff in Hwf. destruct Hwf as [Hnd _].
    destruct (step_retry p src res dest ds x Hnd) as [em [s' [E [Em [_ St]]]]].
    rewrite E. cbn [fst snd st]. rewrite <- Em, deps_perm_refl. cbn [andb].
    apply forallb_forall. intros d Hd. apply St. eapply In_regroup. exact Hd.
  - destruct (snd (step (Deliver ks) x)) eqn:E; try reflexivity.
    + exfalso. unfold step, step_gen in E. rewrite Hl in E.
      destruct (pfe_loop ks [] (clear (st x))) as [[sel|] s']; discriminate.
    + contradiction.
  - destruct (snd (step (ExecOk i) x)) eqn:E; try reflexivity.
    + unfold step, step_gen in E. rewrite Hl in E. discriminate.
    + contradiction.
  - destruct (snd (step (ExecFail i) x)) eqn:E; try reflexivity.
    + unfold step, step_gen in E. rewrite Hl in E. discriminate.
    + contradiction.
Qed.

Lemma hist_ok_model : forall univ ops x,
  locked x = false -> forallb wf_op ops = true -> hist_ok univ (s_kv (st x)) ops (run ops x) = true.
Proof.
  intros univ. induction ops as [|o r IH]; intros x Hl Hwf; [reflexivity|].
  cbn [forallb] in Hwf. apply andb_true_iff in Hwf. destruct Hwf as [Hwo Hwr].
  rewrite run_cons. cbn [hist_ok]. rewrite (judge_step_model univ o x Hl Hwo). cbn [andb snd].
  apply IH; [apply (step_unlocked o x Hl)|exact Hwr].
Qed.

(* ---------------------------------------------------------------------------------------------- *)
(* ... and whatever history the judge accepts has the stated properties *)

Lemma hist_ok_executed : forall univ ops pre obs_ k,
  hist_ok univ pre ops obs_ = true -> In k univ -> is_exec (get pre k) = true ->
  Forall (fun ob : obs => is_exec (get (snd ob) k) = true) obs_.
Proof.
  intros univ. induction ops as [|o r IH]; intros pre obs_ k H Hk He; destruct obs_ as [|ob obs']; cbn [hist_ok] in H;
    try discriminate; [constructor|].
  apply andb_true_iff in H. destruct H as [Hj Hr].
  assert (Hpost : is_exec (get (snd ob) k) = true).
  { destruct ob as [[ou failed] post]. cbn [snd]. unfold judge_step in Hj.
    apply andb_true_iff in Hj. destruct Hj as [Hke _]. unfold keeps_executed in Hke.
    rewrite forallb_forall in Hke. specialize (Hke k Hk). rewrite He in Hke. exact Hke. }
  constructor; [exact Hpost|]. eapply IH; eassumption.
Qed.

Lemma hist_ok_not_stuck : forall univ ops pre obs_,
  hist_ok univ pre ops obs_ = true -> Forall (fun ob : obs => fst (fst ob) <> OStuck) obs_.
Proof.
  intros univ. induction ops as [|o r IH]; intros pre obs_ H; destruct obs_ as [|ob obs']; cbn [hist_ok] in H;
    try discriminate; [constructor|].
  apply andb_true_iff in H. destruct H as [Hj Hr]. constructor; [|eapply IH; exact Hr].
  destruct ob as [[ou failed] post]. cbn [fst]. unfold judge_step in Hj.
  apply andb_true_iff in Hj. destruct Hj as [_ Hj]. intro E. subst ou. destruct o; discriminate.
Qed.

Lemma judge_step_retry : forall univ pre p src res dest ds ou failed post,
  judge_step univ pre (Retry p src res dest ds) (ou, failed, post) = true ->
  exists em, ou = ORetry em /\ Permutation em (regroup p (expected_retry p src res dest ds pre failed)) /\
             (forall d, In d em -> startable (get post (dkey src d)) = true).
Proof.
  intros univ pre p src res dest ds ou failed post H. unfold judge_step in H.
  apply andb_true_iff in H. destruct H as [_ H]. destruct ou as [em| | |]; try discriminate.
  apply andb_true_iff in H. destruct H as [H1 H2]. exists em. split; [reflexivity|].
  split; [apply deps_perm_Permutation; exact H1|]. intros d Hd. rewrite forallb_forall in H2. apply H2. exact Hd.
Qed.

Lemma NoDup_app_disj : forall (A : Type) (a b : list A),
  NoDup a -> NoDup b -> (forall x, In x a -> In x b -> False) -> NoDup (a ++ b).
Proof.
  intros A a b Ha Hb Hd. induction Ha as [|x a Hx Ha IH]; [exact Hb|].
  cbn [app]. constructor.
  - intro Hin. apply in_app_or in Hin. destruct Hin as [Hin|Hin]; [contradiction|].
    apply (Hd x); [left; reflexivity|exact Hin].
  - apply IH. intros y Hy1 Hy2. apply (Hd y); [right; exact Hy1|exact Hy2].
Qed.

(* an accepted retry re-emits those and only those deposits of the block: selected, not recorded
   executed, no failed store call - and each of them once *)
Lemma judge_step_retry_exact : forall univ pre p src res dest ds failed post em,
  wf_op (Retry p src res dest ds) = true ->
  judge_step univ pre (Retry p src res dest ds) (ORetry em, failed, post) = true ->
  NoDup em /\
  forall d, In d em <->
    (In d ds /\ sel_of p res dest d = true /\ is_exec (get pre (dkey src d)) = false /\ ~ In (dkey src d) failed).
Proof.
  intros univ pre p src res dest ds failed post em Hwf H.
  destruct (judge_step_retry _ _ _ _ _ _ _ _ _ _ H) as [em0 [E [P _]]]. injection E as <-.
  cbn [wf_op] in Hwf. apply andb_true_iff in Hwf. destruct Hwf as [Hnd Hdom].
  assert (NDds : NoDup ds).
  { clear - Hnd. induction ds as [|d r IH]; [constructor|]. cbn [map] in Hnd.
    apply nodupk_cons in Hnd. destruct Hnd as [Hd Hr]. constructor; [|apply IH; exact Hr].
    intro Hin. apply Hd. apply in_map. exact Hin. }
  set (ex := expected_retry p src res dest ds pre failed) in *.
  assert (NDex : NoDup ex) by (apply NoDup_filter; exact NDds).
  assert (Pre : Permutation (regroup p ex) ex).
  { destruct p; cbn [regroup]; try apply Permutation_refl.
    apply NoDup_Permutation; [| exact NDex |].
    - (* the domains are pairwise different, so the groups are disjoint *)
      assert (G : forall doms, NoDup doms -> NoDup (flat_map (fun dom => filter (fun d => d_dst d =? dom) ex) doms)).
      { induction doms as [|a doms IHd]; intro Hn; cbn [flat_map]; [constructor|].
        inversion Hn as [|? ? Ha Hn']; subst.
        apply NoDup_app_disj; [apply NoDup_filter; exact NDex|apply IHd; exact Hn'|].
        intros d H1 H2. apply filter_In in H1. destruct H1 as [_ H1]. apply N.eqb_eq in H1.
        apply in_flat_map in H2. destruct H2 as [b [Hb H2]]. apply filter_In in H2. destruct H2 as [_ H2].
        apply N.eqb_eq in H2. apply Ha. rewrite <- H1, H2. exact Hb. }
      apply G. unfold domains. repeat constructor; cbn; intuition discriminate.
    - intro d. split.
      + intro Hd. apply in_flat_map in Hd. destruct Hd as [dom [_ Hd]]. apply filter_In in Hd. apply Hd.
      + intro Hd. apply in_flat_map.
        assert (Hds : In d ds) by (unfold ex, expected_retry in Hd; apply filter_In in Hd; apply Hd).
        rewrite forallb_forall in Hdom. specialize (Hdom d Hds). apply existsb_exists in Hdom.
        destruct Hdom as [dom [Hdom Hq]]. exists dom. split; [exact Hdom|].
        apply filter_In. split; [exact Hd|exact Hq]. }
  assert (P2 : Permutation em ex) by (eapply Permutation_trans; eassumption).
  split; [eapply Permutation_NoDup; [apply Permutation_sym; exact P2|exact NDex]|].
  intro d. split.
  - intro Hd. apply (Permutation_in _ P2) in Hd. unfold ex, expected_retry in Hd. apply filter_In in Hd.
    destruct Hd as [Hds Hb]. apply andb_true_iff in Hb. destruct Hb as [Hb Hf].
    apply andb_true_iff in Hb. destruct Hb as [Hs He]. apply negb_true_iff in He, Hf. apply memk_false in Hf.
    repeat split; assumption.
  - intros [Hds [Hs [He Hf]]]. apply (Permutation_in _ (Permutation_sym P2)). unfold ex, expected_retry.
    apply filter_In. split; [exact Hds|]. apply memk_false in Hf. rewrite Hs, He, Hf. reflexivity.
Qed.

(* the judge does not look at the order inside the re-emitted batch *)
Lemma judge_step_order_free : forall univ pre o em em' failed post,
  Permutation em em' ->
  judge_step univ pre o (ORetry em, failed, post) = true ->
  judge_step univ pre o (ORetry em', failed, post) = true.
Proof.
  intros univ pre o em em' failed post P H. unfold judge_step in *.
  apply andb_true_iff in H. destruct H as [Hk H]. rewrite Hk. cbn [andb].
  destruct o as [p src res dest ds|ks|i|i]; try exact H.
  apply andb_true_iff in H. destruct H as [H1 H2]. apply andb_true_iff. split.
  - apply deps_perm_Permutation. apply deps_perm_Permutation in H1.
    eapply Permutation_trans; [apply Permutation_sym; exact P|exact H1].
  - rewrite forallb_forall in *. intros d Hd. apply H2. eapply Permutation_in; [apply Permutation_sym; exact P|exact Hd].
Qed.

(* ---------------------------------------------------------------------------------------------- *)
(* the code as found violates the property (witnesses replayed on the implementation by corpus/C17) *)

Definition w_k : key := (1, 2, 1).
Definition w_stuck_ops : list op := [Deliver [w_k]; Deliver [w_k]].

Lemma old_never_stuck_refuted :
  exists ob, nth_error (old_run w_stuck_ops (init_state [] [true])) 1 = Some ob /\ fst (fst ob) = OStuck.
Proof. eexists. split; [vm_compute; reflexivity|reflexivity]. Qed.

Definition w_dep : deposit := mkDep 2 1 1.
Definition w_over_ops : list op :=
  [Deliver [w_k]; Retry PFilter 1 1 2 [w_dep]; Deliver [w_k]; ExecOk 0; ExecFail 1; Retry PFilter 1 1 2 [w_dep]].

(* the first execution succeeds (executed), the second fails (failed again), the next retry
   re-emits the already executed deposit *)
Lemma old_executed_absorbing_refuted :
  map (fun ob : obs => get (snd ob) w_k) (old_run w_over_ops (init_state [] []))
  = [Pending; Failed; Pending; Executed; Failed; Failed] /\
  exists ob, nth_error (old_run w_over_ops (init_state [] [])) 5 = Some ob /\ fst (fst ob) = ORetry [w_dep].
Proof. split; [vm_compute; reflexivity|]. eexists. split; [vm_compute; reflexivity|reflexivity]. Qed.
