(* C17: what a retry re-emits does not depend on the reader of the message channel. *)
From Coq Require Import List NArith Bool Arith Lia.
Import ListNotations.
From SygmaV Require Import Model.C17.

(* a reader that waits in its receive has emptied the buffer *)
Definition chan_wf (z : chan_st) : Prop := c_waiting z = true -> c_queue z = [].

Lemma chan_init_wf : forall bs, chan_wf (chan_init bs).
Proof. intros bs Hw. cbn in Hw. discriminate Hw. Qed.

Lemma chan_step_wf : forall blocking cap z e, chan_wf z -> chan_wf (chan_step blocking cap z e).
Proof.
  intros blocking cap z e Hwf. destruct z as [p q g w]. unfold chan_wf in *.
  cbn [c_waiting c_queue] in Hwf. destruct e; unfold chan_step; cbn [c_pending c_queue c_got c_waiting].
  - destruct p as [|b p']; [exact Hwf|].
    destruct w.
    + intro Hw. cbn in Hw. discriminate Hw.
    + destruct (Nat.ltb (length q) cap).
      * intro Hw. cbn in Hw. discriminate Hw.
      * destruct blocking; [exact Hwf|]. intro Hw. cbn in Hw. discriminate Hw.
  - destruct q as [|b q'].
    + intros _. reflexivity.
    + intro Hw. cbn in Hw. discriminate Hw.
Qed.

Lemma chan_step_conserved : forall cap z e,
  chan_wf z -> chan_all (chan_step true cap z e) = chan_all z.
Proof.
  intros cap z e Hwf. destruct z as [p q g w]. unfold chan_wf in Hwf. cbn [c_waiting c_queue] in Hwf.
  unfold chan_all. destruct e; unfold chan_step; cbn [c_pending c_queue c_got c_waiting].
  - destruct p as [|b p']; [reflexivity|].
    destruct w.
    + rewrite (Hwf eq_refl). cbn [c_pending c_queue c_got app]. rewrite <- app_assoc. reflexivity.
    + destruct (Nat.ltb (length q) cap); cbn [c_pending c_queue c_got]; [|reflexivity].
      rewrite <- app_assoc. reflexivity.
  - destruct q as [|b q']; cbn [c_pending c_queue c_got app]; [reflexivity|].
    rewrite <- app_assoc. reflexivity.
Qed.

Lemma chan_run_wf : forall blocking cap sched z, chan_wf z -> chan_wf (chan_run blocking cap sched z).
Proof.
  intros blocking cap sched. induction sched as [|e r IH]; intros z Hwf; [exact Hwf|].
  cbn [chan_run fold_left]. apply IH. apply chan_step_wf. exact Hwf.
Qed.

Lemma chan_run_conserved : forall cap sched z,
  chan_wf z -> chan_all (chan_run true cap sched z) = chan_all z.
Proof.
  intros cap sched. induction sched as [|e r IH]; intros z Hwf; [reflexivity|].
  cbn [chan_run fold_left]. change (fold_left (chan_step true cap) r (chan_step true cap z e))
    with (chan_run true cap r (chan_step true cap z e)).
  rewrite IH by (apply chan_step_wf; exact Hwf). apply chan_step_conserved. exact Hwf.
Qed.

(* with a blocking send, whatever the capacity and however sender and reader are scheduled: what the
   reader has + what is in the buffer + what the handler still offers is the handler's batch list, in
   order - nothing is lost, nothing comes twice *)
Lemma chan_blocking_conserves : forall cap sched bs,
  chan_all (chan_run true cap sched (chan_init bs)) = bs.
Proof.
  intros cap sched bs. rewrite chan_run_conserved by apply chan_init_wf.
  unfold chan_all, chan_init. cbn [c_got c_queue c_pending app]. reflexivity.
Qed.

(* hence: once the handler has handed over everything and the buffer is empty, the reader has exactly
   the handler's batches *)
Lemma chan_blocking_complete : forall cap sched bs,
  c_pending (chan_run true cap sched (chan_init bs)) = [] ->
  c_queue (chan_run true cap sched (chan_init bs)) = [] ->
  c_got (chan_run true cap sched (chan_init bs)) = bs.
Proof.
  intros cap sched bs Hp Hq. pose proof (chan_blocking_conserves cap sched bs) as H.
  unfold chan_all in H. rewrite Hp, Hq in H. cbn [app] in H. rewrite app_nil_r in H. exact H.
Qed.

(* the unbuffered channel with the late reader (it comes to its receive only after the sender got to its
   send): every batch arrives *)
Lemma chan_late_from : forall p g,
  chan_run true 0 (late_sched (length p)) (mkChan p [] g false) = mkChan [] [] (g ++ p) false.
Proof.
  induction p as [|b p IH]; intros g.
  - cbn. rewrite app_nil_r. reflexivity.
  - cbn [length late_sched chan_run fold_left].
    cbn [chan_step c_pending c_queue c_got c_waiting length Nat.ltb Nat.leb].
    change (fold_left (chan_step true 0) (late_sched (length p)) (mkChan p [] (g ++ [b]) false))
      with (chan_run true 0 (late_sched (length p)) (mkChan p [] (g ++ [b]) false)).
    rewrite IH. rewrite <- app_assoc. reflexivity.
Qed.

Lemma chan_late_reader_delivers : forall bs,
  chan_run true 0 (late_sched (length bs)) (chan_init bs) = mkChan [] [] bs false.
Proof. intros bs. unfold chan_init. rewrite chan_late_from. reflexivity. Qed.

(* a send that gives up (select/default) loses the batch under the very same schedule *)
Lemma chan_nonblocking_refuted :
  exists bs, c_got (chan_run false 0 (late_sched (length bs)) (chan_init bs)) <> bs
             /\ c_pending (chan_run false 0 (late_sched (length bs)) (chan_init bs)) = []
             /\ c_queue (chan_run false 0 (late_sched (length bs)) (chan_init bs)) = [].
Proof.
  exists [[mkDep 2%N 11%N 1%N]]. vm_compute. repeat split. intro H. discriminate H.
Qed.
