(* C10 - the stores' own Lock/Unlock as a mutex: the stress program (workers x pairs of
   Lock; read; write; Unlock) under ANY schedule of the mutex of [cstep]. *)
From Coq Require Import List Arith NArith Bool Lia.
Import ListNotations.
From SygmaV Require Import Model.C10 Proofs.C10 Proofs.C10_Conc.

Lemma proj_cons_same : forall t e tr, proj t ((t, e) :: tr) = e :: proj t tr.
Proof. intros. unfold proj. cbn. now rewrite Nat.eqb_refl. Qed.

Lemma proj_cons_other : forall u t e tr, u <> t -> proj u ((t, e) :: tr) = proj u tr.
Proof.
  intros u t e tr H. unfold proj. cbn.
  destruct (Nat.eqb_spec t u) as [Heq|_]; [subst; contradiction | reflexivity].
Qed.

Lemma owned_by_other : forall o t u, owned_by o t = true -> u <> t -> owned_by o u = false.
Proof.
  intros o t u H Hne. unfold owned_by in *. destruct o as [w|]; [|discriminate].
  apply Nat.eqb_eq in H. subst w. apply Nat.eqb_neq. intro X. apply Hne. now symmetry.
Qed.

(* a merged ledger the judge [tguard] accepts, whose threads are read-modify-write programs: the
   sections do not overlap, GLOBALLY (rmw-shaped as a whole) *)
Fixpoint rmw (o : option nat) (got : bool) (tr : list (nat * ev)) : bool :=
  match tr with
  | [] => match o with None => true | Some _ => false end
  | (t, e) :: r =>
      match e with
      | L => match o with None => rmw (Some t) false r | Some _ => false end
      | Get => owned_by o t && negb got && rmw o true r
      | Store => owned_by o t && got && rmw o false r
      | U => owned_by o t && negb got && rmw None false r
      | RunBegin | RunEnd => rmw o got r
      end
  end.

Lemma tguard_rmw : forall tr o got, tguard o tr = true ->
  (forall u, rmwb (owned_by o u) (owned_by o u && got) (proj u tr) = true) ->
  rmw o got tr = true.
Proof.
  induction tr as [|[t e] tr IH]; intros o got HG HP; [exact HG|].
  pose proof (HP t) as Ht. rewrite proj_cons_same in Ht.
  assert (Hoth : forall u, u <> t -> proj u ((t, e) :: tr) = proj u tr)
    by (intros u Hu; now apply proj_cons_other).
  destruct e; cbn [tguard] in HG; cbn [rmw].
  - (* L *)
    destruct o as [w|]; [discriminate|]. cbn in Ht.
    apply IH; [exact HG|]. intro u. destruct (Nat.eq_dec u t) as [->|Hne].
    + cbn. rewrite Nat.eqb_refl. exact Ht.
    + pose proof (HP u) as Hu. rewrite (Hoth u Hne) in Hu. cbn in Hu.
      cbn. replace (t =? u) with false by (symmetry; apply Nat.eqb_neq; intro X; apply Hne; now symmetry).
      exact Hu.
  - (* U *)
    apply andb_prop in HG. destruct HG as [Ho HG]. rewrite Ho in Ht |- *. cbn in Ht.
    apply andb_prop in Ht. destruct Ht as [Hg Ht]. rewrite Hg. cbn.
    apply IH; [exact HG|]. intro u. cbn. destruct (Nat.eq_dec u t) as [->|Hne]; [exact Ht|].
    pose proof (HP u) as Hu. rewrite (Hoth u Hne), (owned_by_other o t u Ho Hne) in Hu. exact Hu.
  - (* Get *)
    apply andb_prop in HG. destruct HG as [Ho HG]. rewrite Ho in Ht |- *. cbn in Ht.
    apply andb_prop in Ht. destruct Ht as [Hg Ht]. rewrite Hg. cbn.
    apply IH; [exact HG|]. intro u. destruct (Nat.eq_dec u t) as [->|Hne].
    + rewrite Ho. exact Ht.
    + pose proof (HP u) as Hu. rewrite (Hoth u Hne), (owned_by_other o t u Ho Hne) in Hu.
      rewrite (owned_by_other o t u Ho Hne). exact Hu.
  - (* Store *)
    apply andb_prop in HG. destruct HG as [Ho HG]. rewrite Ho in Ht |- *. cbn in Ht.
    apply andb_prop in Ht. destruct Ht as [Hg Ht]. rewrite Hg. cbn.
    apply IH; [exact HG|]. intro u. destruct (Nat.eq_dec u t) as [->|Hne].
    + rewrite Ho. exact Ht.
    + pose proof (HP u) as Hu. rewrite (Hoth u Hne), (owned_by_other o t u Ho Hne) in Hu.
      rewrite (owned_by_other o t u Ho Hne). exact Hu.
  - (* RunBegin *)
    cbn in Ht. apply IH; [exact HG|]. intro u. destruct (Nat.eq_dec u t) as [->|Hne]; [exact Ht|].
    pose proof (HP u) as Hu. now rewrite (Hoth u Hne) in Hu.
  - (* RunEnd *)
    cbn in Ht. apply IH; [exact HG|]. intro u. destruct (Nat.eq_dec u t) as [->|Hne]; [exact Ht|].
    pose proof (HP u) as Hu. now rewrite (Hoth u Hne) in Hu.
Qed.

(* non-overlapping sections keep every increment *)
Lemma rmw_counter : forall tr o got c reg, rmw o got tr = true ->
  (got = true -> forall t, o = Some t -> reg t = c) ->
  counter_run c reg tr = c + count is_Store (map snd tr).
Proof.
  induction tr as [|[t e] tr IH]; intros o got c reg H Hinv.
  - cbn. unfold count. cbn. lia.
  - destruct e; cbn [rmw] in H; cbn [counter_run map snd].
    + destruct o; [discriminate|]. rewrite (IH _ _ c reg H); [unfold count; cbn; lia|]. discriminate.
    + apply andb_prop in H. destruct H as [_ H].
      rewrite (IH _ _ c reg H); [unfold count; cbn; lia|]. discriminate.
    + apply andb_prop in H. destruct H as [H1 H]. apply andb_prop in H1. destruct H1 as [Ho _].
      rewrite (IH _ _ c (updf reg t c) H); [unfold count; cbn; lia|].
      intros _ w Hw. subst o. unfold owned_by in Ho. apply Nat.eqb_eq in Ho. subst w. apply updf_same.
    + apply andb_prop in H. destruct H as [H1 H]. apply andb_prop in H1. destruct H1 as [Ho Hg].
      unfold owned_by in Ho. destruct o as [w|]; [|discriminate]. apply Nat.eqb_eq in Ho. subst w.
      rewrite (Hinv Hg t eq_refl).
      rewrite (IH _ _ (S c) reg H); [unfold count; cbn; lia|]. discriminate.
    + rewrite (IH _ _ c reg H Hinv). unfold count. cbn. lia.
    + rewrite (IH _ _ c reg H Hinv). unfold count. cbn. lia.
Qed.

(* ANY ledger accepted by the merged judge whose threads are read-modify-write programs has an
   exact counter *)
Lemma guarded_counter_exact : forall tr reg, tguard None tr = true ->
  (forall u, rmwb false false (proj u tr) = true) ->
  counter_run 0 reg tr = count is_Store (map snd tr).
Proof.
  intros tr reg HG HP.
  rewrite (rmw_counter tr None false 0 reg); [reflexivity | | discriminate].
  apply tguard_rmw; [exact HG|]. intro u. cbn. apply HP.
Qed.

(* the stress program *)
Lemma pairs_prog_rmwb : forall n, rmwb false false (pairs_prog n) = true.
Proof. induction n as [|n IH]; [reflexivity|]. cbn. exact IH. Qed.

Lemma pairs_prog_bracketed : forall n, bracketed false (pairs_prog n) = true.
Proof. induction n as [|n IH]; [reflexivity|]. cbn. exact IH. Qed.

Lemma pairs_prog_stores : forall n, count is_Store (pairs_prog n) = n.
Proof. induction n as [|n IH]; [reflexivity|]. unfold count in *. cbn. now rewrite IH. Qed.

Lemma stress_prog_bracketed : forall w p t, bracketed false (stress_prog w p t) = true.
Proof. intros. unfold stress_prog. destruct (t <? w); [apply pairs_prog_bracketed | reflexivity]. Qed.

Lemma stress_prog_rmwb : forall w p t, rmwb false false (stress_prog w p t) = true.
Proof. intros. unfold stress_prog. destruct (t <? w); [apply pairs_prog_rmwb | reflexivity]. Qed.

(* counting the events of a merged ledger thread by thread *)
Lemma list_sum_cons : forall x (l : list nat), list_sum (x :: l) = x + list_sum l.
Proof. reflexivity. Qed.

Lemma list_sum_zero : forall (l : list nat), list_sum (map (fun _ => 0) l) = 0.
Proof. induction l as [|x l IH]; [reflexivity|]. cbn. exact IH. Qed.

Lemma list_sum_indicator : forall (g : nat -> nat) b t n a, a <= t < a + n ->
  list_sum (map (fun u => (if Nat.eqb u t then b else 0) + g u) (seq a n)) =
  b + list_sum (map g (seq a n)).
Proof.
  intros g b t. induction n as [|n IH]; intros a H; [lia|].
  cbn [seq map]; rewrite ?list_sum_cons. destruct (Nat.eqb_spec a t) as [->|Hne].
  - assert (Hz : forall m s, t < s ->
       list_sum (map (fun u => (if Nat.eqb u t then b else 0) + g u) (seq s m)) = list_sum (map g (seq s m))).
    { induction m as [|m IHm]; intros s Hs; [reflexivity|]. cbn [seq map]; rewrite ?list_sum_cons.
      destruct (Nat.eqb_spec s t); [lia|]. rewrite IHm by lia. lia. }
    rewrite Hz by lia. lia.
  - rewrite IH by lia. lia.
Qed.

Lemma count_by_thread : forall (p : ev -> bool) n tr,
  forallb (fun x => Nat.ltb (fst x) n) tr = true ->
  count p (map snd tr) = list_sum (map (fun t => count p (proj t tr)) (seq 0 n)).
Proof.
  intros p n. induction tr as [|[t e] tr IH]; intro H.
  - cbn. now rewrite list_sum_zero.
  - cbn in H. apply andb_prop in H. destruct H as [Ht H]. apply Nat.ltb_lt in Ht.
    rewrite (map_ext_in (fun u => count p (proj u ((t, e) :: tr)))
                        (fun u => (if Nat.eqb u t then (if p e then 1 else 0) else 0) + count p (proj u tr))).
    + rewrite list_sum_indicator by lia. rewrite <- (IH H). unfold count. cbn. destruct (p e); cbn; lia.
    + intros u _. destruct (Nat.eqb_spec u t) as [->|Hne].
      * rewrite proj_cons_same. unfold count. cbn. destruct (p e); cbn; lia.
      * rewrite proj_cons_other by exact Hne. lia.
Qed.

Lemma list_sum_const : forall c n a, list_sum (map (fun _ => c) (seq a n)) = n * c.
Proof. intros c. induction n as [|n IH]; intro a; [reflexivity|]. cbn [seq map]; rewrite ?list_sum_cons. rewrite IH. lia. Qed.

Lemma in_proj : forall t e tr, In (t, e) tr -> In e (proj t tr).
Proof.
  intros t e tr H. unfold proj. apply in_map_iff. exists (t, e). split; [reflexivity|].
  apply filter_In. split; [exact H|]. cbn. apply Nat.eqb_refl.
Qed.

(* THE STRESS THEOREM: [workers] threads x [pairs] read-modify-write sections over the mutex of
   [cstep], ANY schedule that lets every worker finish: no fatal unlock, the merged ledger passes
   the judge of merged ledgers (a Lock only on the free mutex, Unlock / read / write only by the
   holder, free at the end), every worker's part is its program, the counter is exact and equals
   workers * pairs *)
Lemma stress_model : forall (workers pairs : nat) (sched : list nat),
  let st0 := cinit (stress_prog workers pairs) in
  (forall t, rest (cexec sched st0) t = []) ->
  fatal (cexec sched st0) = false /\
  merged_ok (ctrace sched st0) = true /\
  owner_after None (ctrace sched st0) = None /\
  (forall t, proj t (ctrace sched st0) = stress_prog workers pairs t) /\
  counter_run 0 (fun _ => 0) (ctrace sched st0) = workers * pairs.
Proof.
  intros workers pairs sched st0 Hd.
  assert (HI : CInv st0) by (apply cinit_inv; intro t; apply stress_prog_bracketed).
  assert (HM : merged_ok (ctrace sched st0) = true) by (now apply ctrace_merged_ok).
  assert (HP : forall t, proj t (ctrace sched st0) = stress_prog workers pairs t).
  { intro t. now rewrite (ctrace_proj_done sched st0 t (Hd t)). }
  pose proof (merged_ok_sound _ HM) as [Hfree _].
  split; [apply (cF _ (cexec_inv sched st0 HI))|].
  split; [exact HM|]. split; [exact Hfree|]. split; [exact HP|].
  unfold merged_ok in HM. apply andb_prop in HM. destruct HM as [HG _].
  rewrite (guarded_counter_exact _ _ HG).
  2:{ intro u. rewrite HP. apply stress_prog_rmwb. }
  rewrite (count_by_thread is_Store workers).
  - rewrite (map_ext_in _ (fun _ => pairs)); [apply list_sum_const|].
    intros t Ht. apply in_seq in Ht. rewrite HP. unfold stress_prog.
    replace (t <? workers) with true by (symmetry; apply Nat.ltb_lt; lia).
    apply pairs_prog_stores.
  - apply forallb_forall. intros [t e] Hin. cbn. apply Nat.ltb_lt.
    destruct (Nat.lt_ge_cases t workers) as [Hlt|Hge]; [exact Hlt|].
    apply in_proj in Hin. rewrite HP in Hin. unfold stress_prog in Hin.
    replace (t <? workers) with false in Hin by (symmetry; apply Nat.ltb_ge; lia). contradiction.
Qed.

(* what a correct store shows the harness is accepted by the judge *)
Lemma stress_ok_model : forall workers pairs : nat,
  stress_ok (N.of_nat workers) (N.of_nat pairs) (repeat (N.of_nat pairs) workers)
            (N.of_nat (workers * pairs)) 1 = true.
Proof.
  intros. unfold stress_ok. rewrite repeat_length, Nat2N.inj_mul, !N.eqb_refl. cbn. rewrite andb_true_r.
  induction workers as [|w IH]; [reflexivity|]. cbn [repeat forallb]. now rewrite N.eqb_refl.
Qed.

Lemma stress_ok_sound : forall workers pairs dones counter free,
  stress_ok workers pairs dones counter free = true ->
  N.of_nat (length dones) = workers /\ (forall d, In d dones -> d = pairs) /\
  counter = (workers * pairs)%N /\ free = 1.
Proof.
  intros workers pairs dones counter free H. unfold stress_ok in H.
  apply andb_prop in H. destruct H as [H H4]. apply andb_prop in H. destruct H as [H H3].
  apply andb_prop in H. destruct H as [H1 H2].
  repeat split; try (now apply N.eqb_eq); try (now apply Nat.eqb_eq).
  intros d Hd. rewrite forallb_forall in H2. symmetry. apply N.eqb_eq. now apply H2.
Qed.

(* the context is already cancelled (or past its deadline) when Execute is entered: the ledger is
   that of a session cancelled before start - constructor, no Run, the deferred Stop *)
Lemma cancelled_before_entry : forall k,
  feasible k CancelledBeforeEntry = true /\
  session_events New k CancelledBeforeEntry = session_events New k NeverCancelled /\
  session_events New k CancelledBeforeEntry = ctor_events k ++ stop_events New k false /\
  session_ok k (session_events New k CancelledBeforeEntry) = true.
Proof. intro k. destruct k; vm_compute; repeat split. Qed.
