(* C11 - the additional clauses judged on sessions of REAL signing processes (Model/C11.v, real_ok). *)
From Coq Require Import List ZArith NArith Bool Lia.
Import ListNotations.
From SygmaV Require Import Model.C07 Proofs.C07 Model.C11 Proofs.C11.

Lemma runs_of_not_coordinator : forall outs r, In r (runs_of outs) -> fst r = false.
Proof.
  intros outs r H. unfold runs_of in H. apply in_flat_map in H. destruct H as [o [_ Hr]].
  destruct o; cbn in Hr; try contradiction. destruct Hr as [<-|[]]. reflexivity.
Qed.

Lemma subsets_valid_followers : forall ev ps outs, subsets_valid ev ps (runs_of outs) = true.
Proof.
  intros ev ps outs. unfold subsets_valid. apply forallb_forall. intros r Hr.
  rewrite (runs_of_not_coordinator outs r Hr). reflexivity.
Qed.

(* the model's session satisfies the additional clauses (for the outcome "the replacement attempt
   completed"), whatever the election's outcome rule does within its candidates *)
Lemma real_ok_model : forall (key : peer -> N) tm m br holders t self unreach live retryable runs1 e bs ready2 msgs2,
  In self holders -> wf_table m holders ->
  br_guarded br holders self bs e ->
  real_ok (mkEnv tm holders t self unreach ready2 msgs2) live retryable e (length runs1)
    (continue key tm m br classify holders t self retryable runs1 e bs ready2 msgs2) SigValid = true.
Proof.
  intros key tm m br holders t self unreach live retryable runs1 e bs ready2 msgs2 Hsh Hwf Hbr.
  unfold real_ok. rewrite (spec_ok_model key tm m br holders t self unreach retryable runs1 e bs ready2 msgs2 Hsh Hwf Hbr).
  cbn [andb]. destruct retryable; [cbn [negb]|reflexivity].
  destruct (recognised_kinds e) as [|k [|k' r]] eqn:Hk; try reflexivity.
  pose proof (classify_single e k Hk) as Hc.
  destruct (action_of_kind k) as [ps| | |] eqn:Ha; try reflexivity.
  unfold real_allows. cbn [e_self e_holders e_t e_unreach e_ready2].
  destruct (memb self ps) eqn:Hself; [reflexivity|].
  apply andb_true_iff. split.
  - unfold continue, after_failure_with. cbn [negb]. rewrite Hc.
    destruct (N.eqb (br self bs (exclude holders ps)) self).
    + destruct (initiate key holders t ps [self] ready2) as [calls ann] eqn:Hi.
      cbn [o_runs]. rewrite skipn_app_exact.
      destruct ann as [sub|]; [|reflexivity].
      unfold subsets_valid. cbn [forallb fst snd e_holders e_t e_self e_ready2]. rewrite andb_true_r.
      eapply (announced_subset_ok key); [exact Hsh | apply memb_false_In; exact Hself | exact Hi].
    + cbn [o_runs]. rewrite skipn_app_exact. apply subsets_valid_followers.
  - destruct (o_inits2 _); [reflexivity|].
    destruct (enough _ _ _ _ _ _); reflexivity.
Qed.

(* what an accepted observation of a session with real processes means beyond spec_ok *)
Lemma real_ok_sound : forall ev live e nfirst o sig k ps,
  real_ok ev live true e nfirst o sig = true ->
  recognised_kinds e = [k] -> action_of_kind k = RetryExcluding ps -> ~ In (e_self ev) ps ->
  spec_ok ev true e nfirst o = true
  /\ (forall sub, In (true, sub) (skipn nfirst (o_runs o)) ->
        subset_spec (e_holders ev) (e_t ev) ps (e_self ev) (e_ready2 ev) sub)
  /\ (o_inits2 o <> [] ->
      enough (e_holders ev) (e_t ev) ps (e_unreach ev) (e_self ev) (filter (fun p => memb p live) (e_ready2 ev)) = true ->
      sig <> SigMissing).
Proof.
  intros ev live e nfirst o sig k ps H Hk Ha Hself.
  unfold real_ok in H. apply andb_true_iff in H as [Hs Hr]. split; [exact Hs|].
  cbn [negb] in Hr. rewrite Hk, Ha in Hr. unfold real_allows in Hr.
  apply memb_false_In in Hself. rewrite Hself in Hr.
  apply andb_true_iff in Hr as [Hv Hsig]. split.
  - intros sub Hin. unfold subsets_valid in Hv. rewrite forallb_forall in Hv.
    specialize (Hv _ Hin). cbn [fst snd] in Hv. apply subset_ok_iff. exact Hv.
  - intros Hne Hen. destruct (o_inits2 o) as [|x r]; [congruence|].
    rewrite Hen in Hsig. apply negb_true_iff in Hsig. apply N.eqb_neq. exact Hsig.
Qed.

(* the additional clauses never weaken the judge *)
Lemma real_ok_spec_ok : forall ev live retryable e nfirst o sig,
  real_ok ev live retryable e nfirst o sig = true -> spec_ok ev retryable e nfirst o = true.
Proof. intros ev live retryable e nfirst o sig H. unfold real_ok in H. apply andb_true_iff in H. tauto. Qed.
