(* C16 - proofs about the withdrawal-transaction model (Model/C16.v). *)
From Coq Require Import List ZArith NArith Bool Lia Permutation Sorted.
From Coq Require Import ZifyBool ZifyN ZifyNat.
Import ListNotations.
From SygmaV Require Import Model.C16.
Local Open Scope Z_scope.

(* ---------------------------------------------------------------------------------------------- *)
(* fixed-width arithmetic *)

Lemma u64_id : forall x, 0 <= x < two64 -> u64 x = x.
Proof. intros x Hx. unfold u64. apply Z.mod_small. exact Hx. Qed.

Lemma i64_id : forall x, 0 <= x < two63 -> i64 x = x.
Proof. intros x Hx. unfold i64. destruct (Z.ltb_spec x two63) as [Hlt|Hge]; [reflexivity|lia]. Qed.

Lemma two63_lt_two64 : two63 < two64.
Proof. unfold two63, two64. lia. Qed.

(* ---------------------------------------------------------------------------------------------- *)
(* byte strings *)

Lemma str_eqb_eq : forall a b, str_eqb a b = true <-> a = b.
Proof.
  induction a as [|x a IHa]; destruct b as [|y b]; cbn [str_eqb]; split; intro H; try reflexivity; try discriminate.
  - apply andb_true_iff in H. destruct H as [Hxy Hab]. apply N.eqb_eq in Hxy. apply IHa in Hab. subst. reflexivity.
  - injection H as Hxy Hab. subst. apply andb_true_iff. split; [apply N.eqb_refl|apply IHa; reflexivity].
Qed.

Lemma str_eqb_refl : forall a, str_eqb a a = true.
Proof. intro a. apply str_eqb_eq. reflexivity. Qed.

Lemma str_ltb_irrefl : forall a, str_ltb a a = false.
Proof.
  induction a as [|x a IHa]; cbn [str_ltb]; [reflexivity|].
  rewrite N.ltb_irrefl. exact IHa.
Qed.

Lemma str_ltb_trans : forall a b c, str_ltb a b = true -> str_ltb b c = true -> str_ltb a c = true.
Proof.
  induction a as [|x a IHa]; intros b c Hab Hbc.
  - destruct b as [|y b]; [discriminate|]. destruct c as [|z c]; [discriminate|]. reflexivity.
  - destruct b as [|y b]; [discriminate|]. destruct c as [|z c]; [cbn in Hbc; discriminate|].
    cbn [str_ltb] in *.
    destruct (N.ltb_spec x y) as [Hxy|Hxy].
    + destruct (N.ltb_spec y z) as [Hyz|Hyz].
      * destruct (N.ltb_spec x z) as [Hxz|Hxz]; [reflexivity|lia].
      * destruct (N.ltb_spec z y) as [Hzy|Hzy]; [discriminate|].
        destruct (N.ltb_spec x z) as [Hxz|Hxz]; [reflexivity|lia].
    + destruct (N.ltb_spec y x) as [Hyx|Hyx]; [discriminate|].
      destruct (N.ltb_spec y z) as [Hyz|Hyz].
      * destruct (N.ltb_spec x z) as [Hxz|Hxz]; [reflexivity|lia].
      * destruct (N.ltb_spec z y) as [Hzy|Hzy]; [discriminate|].
        destruct (N.ltb_spec x z) as [Hxz|Hxz]; [reflexivity|].
        destruct (N.ltb_spec z x) as [Hzx|Hzx]; [lia|].
        eapply IHa; eassumption.
Qed.

Lemma str_trichotomy : forall a b, str_ltb a b = true \/ a = b \/ str_ltb b a = true.
Proof.
  induction a as [|x a IHa]; destruct b as [|y b]; cbn [str_ltb]; auto.
  destruct (N.ltb_spec x y) as [Hxy|Hxy]; [auto|].
  destruct (N.ltb_spec y x) as [Hyx|Hyx]; [auto|].
  assert (x = y) by lia. subst y.
  destruct (IHa b) as [H|[H|H]]; [auto|subst; auto|auto].
Qed.

(* ---------------------------------------------------------------------------------------------- *)
(* the repaired order is a strict total order on (time, txid, vout) *)

Definition slt (a b : list N) : Prop := str_ltb a b = true.

Lemma less_spec : forall a b,
  less a b = true <->
  (u_time a < u_time b \/
   (u_time a = u_time b /\ (slt (u_txid a) (u_txid b) \/ (u_txid a = u_txid b /\ u_vout a < u_vout b)))).
Proof.
  intros a b. unfold less, slt.
  destruct (Z.eqb_spec (u_time a) (u_time b)) as [Ht|Ht]; cbn [negb].
  - destruct (str_eqb (u_txid a) (u_txid b)) eqn:He; cbn [negb].
    + apply str_eqb_eq in He. rewrite He, str_ltb_irrefl. split.
      * intro H. right. split; [exact Ht|]. right. split; [reflexivity|lia].
      * intros [H|[_ [H|[_ H]]]]; [lia|discriminate|lia].
    + assert (Hne : u_txid a <> u_txid b).
      { intro E. apply str_eqb_eq in E. congruence. }
      split.
      * intro H. right. split; [exact Ht|]. left. exact H.
      * intros [H|[_ [H|[E _]]]]; [lia|exact H|contradiction].
  - split.
    + intro H. left. lia.
    + intros [H|[E _]]; [lia|contradiction].
Qed.

Lemma less_false_spec : forall a b,
  less a b = false <->
  (u_time b < u_time a \/
   (u_time a = u_time b /\ (slt (u_txid b) (u_txid a) \/ (u_txid a = u_txid b /\ u_vout b <= u_vout a)))).
Proof.
  intros a b. split.
  - intro Hf.
    destruct (Z.lt_trichotomy (u_time a) (u_time b)) as [Hlt|[Heq|Hgt]].
    + assert (less a b = true) by (apply less_spec; left; exact Hlt). congruence.
    + right. split; [exact Heq|].
      destruct (str_trichotomy (u_txid a) (u_txid b)) as [H|[H|H]].
      * assert (less a b = true) by (apply less_spec; right; split; [exact Heq|left; exact H]). congruence.
      * right. split; [exact H|].
        destruct (Z.lt_ge_cases (u_vout a) (u_vout b)) as [Hv|Hv]; [|lia].
        assert (less a b = true) by (apply less_spec; right; split; [exact Heq|right; split; assumption]). congruence.
      * left. exact H.
    + left. lia.
  - intro H. destruct (less a b) eqn:Hl; [|reflexivity]. exfalso.
    apply less_spec in Hl. unfold slt in *.
    destruct H as [H|[Ht [H|[Hx Hv]]]]; destruct Hl as [Hl|[Ht' [Hl|[Hx' Hv']]]]; try lia.
    + pose proof (str_ltb_trans _ _ _ H Hl) as C. rewrite str_ltb_irrefl in C. discriminate.
    + rewrite Hx' in H. rewrite str_ltb_irrefl in H. discriminate.
    + rewrite Hx in Hl. rewrite str_ltb_irrefl in Hl. discriminate.
Qed.

Definition le (a b : utxo) : Prop := less b a = false.

Lemma le_trans : forall a b c, le a b -> le b c -> le a c.
Proof.
  unfold le. intros a b c Hab Hbc.
  apply less_false_spec in Hab. apply less_false_spec in Hbc. apply less_false_spec.
  unfold slt in *.
  destruct Hab as [H1|[T1 [H1|[X1 V1]]]]; destruct Hbc as [H2|[T2 [H2|[X2 V2]]]]; try (left; lia).
  - right. split; [lia|]. left. eapply str_ltb_trans; eassumption.
  - right. split; [lia|]. left. rewrite X2. exact H1.
  - right. split; [lia|]. left. rewrite <- X1. exact H2.
  - right. split; [lia|]. right. split; [congruence|lia].
Qed.

Lemma less_le : forall a b, less a b = true -> le a b.
Proof.
  unfold le. intros a b H. apply less_spec in H. apply less_false_spec. unfold slt in *.
  destruct H as [H|[T [H|[X V]]]].
  - left. exact H.
  - right. split; [lia|]. left. exact H.
  - right. split; [lia|]. right. split; [congruence|lia].
Qed.

Lemma le_antisym_key : forall a b, le a b -> le b a -> raw_outpoint a = raw_outpoint b.
Proof.
  unfold le, raw_outpoint. intros a b Hab Hba.
  apply less_false_spec in Hab. apply less_false_spec in Hba. unfold slt in *.
  destruct Hab as [H1|[T1 [H1|[X1 V1]]]]; destruct Hba as [H2|[T2 [H2|[X2 V2]]]]; try lia.
  - pose proof (str_ltb_trans _ _ _ H1 H2) as C. rewrite str_ltb_irrefl in C. discriminate.
  - rewrite X2 in H1. rewrite str_ltb_irrefl in H1. discriminate.
  - rewrite X1 in H2. rewrite str_ltb_irrefl in H2. discriminate.
  - f_equal; [congruence|lia].
Qed.

(* ---------------------------------------------------------------------------------------------- *)
(* insertion sort: permutation, sortedness, uniqueness *)

Lemma insert_perm : forall lt x l, Permutation (insert lt x l) (x :: l).
Proof.
  intros lt x l. induction l as [|y r IH]; cbn [insert]; [apply Permutation_refl|].
  destruct (lt y x).
  - eapply perm_trans; [apply perm_skip; exact IH|apply perm_swap].
  - apply Permutation_refl.
Qed.

Lemma sort_perm : forall lt l, Permutation (utxo_sort lt l) l.
Proof.
  intros lt l. induction l as [|x r IH]; cbn [utxo_sort]; [apply perm_nil|].
  eapply perm_trans; [apply insert_perm|apply perm_skip; exact IH].
Qed.

Lemma insert_sorted : forall x l, StronglySorted le l -> StronglySorted le (insert less x l).
Proof.
  intros x l Hs. induction Hs as [|y r Hs IH Hall]; cbn [insert].
  - constructor; constructor.
  - destruct (less y x) eqn:Hyx.
    + constructor; [exact IH|].
      apply Forall_forall. intros z Hz.
      apply (Permutation_in _ (insert_perm less x r)) in Hz. destruct Hz as [Hz|Hz].
      * subst z. apply less_le. exact Hyx.
      * rewrite Forall_forall in Hall. apply Hall. exact Hz.
    + constructor; [constructor; assumption|].
      constructor; [exact Hyx|].
      apply Forall_forall. intros z Hz. rewrite Forall_forall in Hall.
      eapply le_trans; [exact Hyx|apply Hall; exact Hz].
Qed.

Lemma sort_sorted : forall l, StronglySorted le (utxo_sort less l).
Proof.
  induction l as [|x r IH]; cbn [utxo_sort]; [constructor|apply insert_sorted; exact IH].
Qed.

Lemma sorted_unique : forall l1 l2,
  StronglySorted le l1 -> StronglySorted le l2 -> Permutation l1 l2 ->
  (forall a b, In a l1 -> In b l1 -> le a b -> le b a -> a = b) ->
  l1 = l2.
Proof.
  induction l1 as [|a l1 IH]; intros l2 S1 S2 P Hanti.
  - apply Permutation_nil in P. subst. reflexivity.
  - destruct l2 as [|b l2].
    + apply Permutation_sym, Permutation_nil in P. discriminate.
    + inversion S1 as [|? ? S1' F1]; subst. inversion S2 as [|? ? S2' F2]; subst.
      rewrite Forall_forall in F1, F2.
      assert (Hab : a = b).
      { assert (Ina : In a (b :: l2)) by (eapply Permutation_in; [exact P|left; reflexivity]).
        assert (Inb : In b (a :: l1)) by (eapply Permutation_in; [apply Permutation_sym; exact P|left; reflexivity]).
        destruct Ina as [E|Ina]; [symmetry; exact E|].
        destruct Inb as [E|Inb]; [exact E|].
        apply Hanti; [left; reflexivity|right; exact Inb|apply F1; exact Inb|apply F2; exact Ina]. }
      subst b. f_equal.
      apply IH; [exact S1'|exact S2'|eapply Permutation_cons_inv; exact P|].
      intros x y Hx Hy. apply Hanti; right; assumption.
Qed.

Lemma NoDup_map_inj : forall {A B} (f : A -> B) l a b,
  NoDup (map f l) -> In a l -> In b l -> f a = f b -> a = b.
Proof.
  intros A B f l. induction l as [|x r IH]; intros a b Hnd Ha Hb Hf; [contradiction|].
  cbn [map] in Hnd. inversion Hnd as [|? ? Hnot Hnd']; subst.
  destruct Ha as [Ha|Ha]; destruct Hb as [Hb|Hb].
  - congruence.
  - subst x. exfalso. apply Hnot. rewrite Hf. apply in_map. exact Hb.
  - subst x. exfalso. apply Hnot. rewrite <- Hf. apply in_map. exact Ha.
  - apply IH; assumption.
Qed.

Lemma sort_unique : forall l l',
  Permutation l l' -> NoDup (map raw_outpoint l) -> utxo_sort less l = utxo_sort less l'.
Proof.
  intros l l' P Hnd.
  apply sorted_unique; [apply sort_sorted|apply sort_sorted| |].
  - eapply perm_trans; [apply sort_perm|]. eapply perm_trans; [exact P|apply Permutation_sym, sort_perm].
  - intros a b Ha Hb Hab Hba.
    apply (Permutation_in _ (sort_perm less l)) in Ha.
    apply (Permutation_in _ (sort_perm less l)) in Hb.
    eapply NoDup_map_inj; [exact Hnd|exact Ha|exact Hb|].
    apply le_antisym_key; assumption.
Qed.

(* ---------------------------------------------------------------------------------------------- *)
(* sums *)

Lemma sumZ_app : forall a b, sumZ (a ++ b) = sumZ a + sumZ b.
Proof. induction a as [|x a IH]; intro b; cbn [sumZ app]; [reflexivity|rewrite IH; lia]. Qed.

Lemma values_app : forall a b, values (a ++ b) = values a + values b.
Proof. intros. unfold values. rewrite map_app. apply sumZ_app. Qed.

Lemma values_perm : forall a b, Permutation a b -> values a = values b.
Proof.
  unfold values. intros a b P. induction P as [|x a b P IH|x y a|a b c P1 IH1 P2 IH2]; cbn [map sumZ]; lia.
Qed.

Definition nonneg_values (l : list utxo) : Prop := Forall (fun u => 0 <= u_value u) l.

Lemma values_nonneg : forall l, nonneg_values l -> 0 <= values l.
Proof.
  unfold values. intros l H. induction H as [|u r Hu Hr IH]; cbn [map sumZ]; lia.
Qed.

Lemma len_app : forall {A} (a b : list A), len (a ++ b) = len a + len b.
Proof. intros. unfold len. rewrite app_length. lia. Qed.

Lemma len_nonneg : forall {A} (a : list A), 0 <= len a.
Proof. intros. unfold len. lia. Qed.

Lemma len_map : forall {A B} (f : A -> B) l, len (map f l) = len l.
Proof. intros. unfold len. rewrite map_length. reflexivity. Qed.

Lemma len_perm : forall {A} (a b : list A), Permutation a b -> len a = len b.
Proof. intros A a b P. unfold len. rewrite (Permutation_length P). reflexivity. Qed.

(* ---------------------------------------------------------------------------------------------- *)
(* fee *)

Definition mult (rate : Z) : Z := (rate / 5) * 5 + 5.

Lemma mult_bounds : forall rate, 0 <= rate -> 5 <= mult rate <= rate + 5.
Proof.
  intros rate Hr. unfold mult.
  pose proof (Z.mul_div_le rate 5 ltac:(lia)) as H1.
  pose proof (Z.div_pos rate 5 Hr ltac:(lia)) as H2. lia.
Qed.

Lemma fee_quote_mono : forall a b a' b' rate,
  0 <= rate -> 0 <= a <= a' -> 0 <= b <= b' -> fee_quote a b rate <= fee_quote a' b' rate.
Proof.
  intros a b a' b' rate Hr Ha Hb. unfold fee_quote. fold (mult rate).
  pose proof (mult_bounds rate Hr) as Hm.
  apply Z.mul_le_mono_nonneg_r; lia.
Qed.

Lemma fee_quote_nonneg : forall a b rate, 0 <= rate -> 0 <= a -> 0 <= b -> 0 <= fee_quote a b rate.
Proof.
  intros a b rate Hr Ha Hb. unfold fee_quote. fold (mult rate).
  pose proof (mult_bounds rate Hr) as Hm. apply Z.mul_nonneg_nonneg; lia.
Qed.

Lemma fee_quote_pos : forall a b rate, 0 <= rate -> 0 <= a -> 1 <= b -> 0 < fee_quote a b rate.
Proof.
  intros a b rate Hr Ha Hb. unfold fee_quote. fold (mult rate).
  pose proof (mult_bounds rate Hr) as Hm. apply Z.mul_pos_pos; lia.
Qed.

(* no wrap-around when the quote for a dominating shape with at least one output fits *)
Lemma fee_exact : forall a b A B rate,
  0 <= rate -> 0 <= a <= A -> 0 <= b <= B -> 1 <= B ->
  fee_quote A B rate < two64 -> fee a b rate = fee_quote a b rate.
Proof.
  intros a b A B rate Hr Ha Hb HB Hq.
  pose proof (mult_bounds rate Hr) as Hm.
  assert (Hsum : A * 180 + B * 34 < two64).
  { unfold fee_quote in Hq. fold (mult rate) in Hq. nia. }
  assert (Hmul : mult rate < two64).
  { unfold fee_quote in Hq. fold (mult rate) in Hq. nia. }
  assert (Hq' : fee_quote a b rate <= fee_quote A B rate) by (apply fee_quote_mono; lia).
  pose proof (fee_quote_nonneg a b rate Hr ltac:(lia) ltac:(lia)) as Hq0.
  unfold fee.
  assert (Hr5 : 0 <= (rate / 5) * 5 < two64) by (unfold mult in *; lia).
  rewrite (u64_id (a * 180)) by lia.
  rewrite (u64_id (b * 34)) by lia.
  rewrite (u64_id (a * 180 + b * 34)) by lia.
  rewrite (u64_id (rate / 5 * 5)) by exact Hr5.
  rewrite (u64_id (rate / 5 * 5 + 5)) by (unfold mult in *; lia).
  apply u64_id. unfold fee_quote in *. lia.
Qed.

(* ---------------------------------------------------------------------------------------------- *)
(* outputs *)

Definition nonneg_amounts (ps : list prop) : Prop := Forall (fun p => 0 <= p_amount p) ps.

Lemma amounts_nonneg : forall ps, nonneg_amounts ps -> 0 <= amounts ps.
Proof.
  unfold amounts. intros ps H. induction H as [|p r Hp Hr IH]; cbn [map sumZ]; lia.
Qed.

Lemma pay_outputs_none : forall ps acc, pay_outputs ps acc = None <-> all_valid ps = false.
Proof.
  induction ps as [|p r IH]; intro acc; cbn [pay_outputs all_valid forallb].
  - split; discriminate.
  - destruct (p_rcpt p) as [k h|].
    + cbn [andb]. specialize (IH (u64 (acc + p_amount p))). unfold all_valid in IH.
      destruct (pay_outputs r (u64 (acc + p_amount p))) as [[os tot]|].
      * split; [discriminate|]. intro H. apply IH in H. discriminate.
      * split; [intros _; apply IH; reflexivity|reflexivity].
    + cbn [andb]. split; reflexivity.
Qed.

Lemma pay_outputs_some : forall ps acc os tot,
  nonneg_amounts ps -> 0 <= acc -> acc + amounts ps < two63 ->
  pay_outputs ps acc = Some (os, tot) ->
  os = map pay ps /\ tot = acc + amounts ps /\ all_valid ps = true.
Proof.
  induction ps as [|p r IH]; intros acc os tot Hnn Hacc Hb H; cbn [pay_outputs] in H.
  - injection H as <- <-. unfold amounts. cbn. repeat split. lia.
  - inversion Hnn as [|? ? Hp Hr]; subst.
    unfold amounts in Hb. cbn [map sumZ] in Hb. fold (amounts r) in Hb.
    pose proof (amounts_nonneg r Hr) as Hr0.
    pose proof two63_lt_two64 as H64.
    destruct (p_rcpt p) as [k h|] eqn:Hrc; [|discriminate].
    rewrite (u64_id (acc + p_amount p)) in H by lia.
    destruct (pay_outputs r (acc + p_amount p)) as [[os' tot']|] eqn:Hrec; [|discriminate].
    injection H as <- <-.
    apply IH in Hrec; [|exact Hr|lia|lia].
    destruct Hrec as [E1 [E2 E3]].
    repeat split.
    + cbn [map]. unfold pay at 1. rewrite Hrc. rewrite i64_id by lia. rewrite E1. reflexivity.
    + unfold amounts. cbn [map sumZ]. fold (amounts r). lia.
    + unfold all_valid. cbn [forallb]. rewrite Hrc. exact E3.
Qed.

(* ---------------------------------------------------------------------------------------------- *)
(* input selection *)

Lemma select_spec : forall l target acc a used,
  nonneg_values l -> 0 <= acc -> acc + values l < two64 ->
  select l target acc = Some (a, used) ->
  exists rest, l = used ++ rest /\ a = acc + values used.
Proof.
  induction l as [|u r IH]; intros target acc a used Hnn Hacc Hb H; cbn [select] in H.
  - injection H as <- <-. exists []. unfold values. cbn. split; [reflexivity|lia].
  - inversion Hnn as [|? ? Hu Hr]; subst.
    unfold values in Hb. cbn [map sumZ] in Hb. fold (values r) in Hb.
    pose proof (values_nonneg r Hr) as Hr0.
    destruct (txid_valid (u_txid u)); cbn [negb] in H; [|discriminate].
    rewrite (u64_id (acc + u_value u)) in H by lia.
    destruct (acc + u_value u >? target).
    + injection H as <- <-. exists r. unfold values. cbn. split; [reflexivity|lia].
    + destruct (select r target (acc + u_value u)) as [[a' us]|] eqn:Hrec; [|discriminate].
      injection H as <- <-.
      apply IH in Hrec; [|exact Hr|lia|lia].
      destruct Hrec as [rest [E1 E2]]. exists rest. split.
      * cbn [app]. rewrite <- E1. reflexivity.
      * unfold values. cbn [map sumZ]. fold (values us). lia.
Qed.

(* ---------------------------------------------------------------------------------------------- *)
(* boolean reflection of wf *)

Lemma op_eqb_eq : forall a b, op_eqb a b = true <-> a = b.
Proof.
  intros [a1 a2] [b1 b2]. unfold op_eqb. cbn [fst snd]. rewrite andb_true_iff, str_eqb_eq, Z.eqb_eq.
  split; [intros [-> ->]; reflexivity|intro H; injection H as -> ->; split; reflexivity].
Qed.

Lemma existsb_op_eqb : forall x l, existsb (op_eqb x) l = true <-> In x l.
Proof.
  intros x l. rewrite existsb_exists. split.
  - intros [y [Hy E]]. apply op_eqb_eq in E. subst. exact Hy.
  - intro H. exists x. split; [exact H|apply op_eqb_eq; reflexivity].
Qed.

Lemma nodupb_NoDup : forall l, nodupb op_eqb l = true <-> NoDup l.
Proof.
  induction l as [|x r IH]; cbn [nodupb].
  - split; [constructor|reflexivity].
  - rewrite andb_true_iff, negb_true_iff, IH. split.
    + intros [Hx Hr]. constructor; [|exact Hr]. intro Hin. apply existsb_op_eqb in Hin. congruence.
    + intro H. inversion H as [|? ? Hx Hr]; subst. split; [|exact Hr].
      destruct (existsb (op_eqb x) r) eqn:E; [|reflexivity]. apply existsb_op_eqb in E. contradiction.
Qed.

Record wfP (ps : list prop) (us : list utxo) (rate : Z) : Prop := {
  wf_amounts : nonneg_amounts ps;
  wf_values : nonneg_values us;
  wf_rate : 0 <= rate;
  wf_bound : amounts ps + values us + fee_quote (len us + len ps) (len ps + 1) rate < two63;
  wf_nodup : NoDup (map outpoint us)
}.

Lemma wf_wfP : forall ps us rate, wf ps us rate = true -> wfP ps us rate.
Proof.
  intros ps us rate H. unfold wf in H.
  repeat (apply andb_true_iff in H; destruct H as [H ?]).
  constructor.
  - unfold nonneg_amounts. apply Forall_forall. intros p Hp.
    rewrite forallb_forall in H. specialize (H p Hp). lia.
  - unfold nonneg_values. apply Forall_forall. intros u Hu.
    rewrite forallb_forall in H3. specialize (H3 u Hu). lia.
  - lia.
  - lia.
  - apply nodupb_NoDup. assumption.
Qed.

Lemma outpoint_raw : forall a b, raw_outpoint a = raw_outpoint b -> outpoint a = outpoint b.
Proof. unfold raw_outpoint, outpoint. intros a b H. injection H as -> ->. reflexivity. Qed.

Lemma NoDup_outpoint_raw : forall us, NoDup (map outpoint us) -> NoDup (map raw_outpoint us).
Proof.
  induction us as [|u r IH]; cbn [map]; intro H; [constructor|].
  inversion H as [|? ? Hx Hr]; subst. constructor; [|apply IH; exact Hr].
  intro Hin. apply Hx. apply in_map_iff in Hin. destruct Hin as [v [E Hv]].
  apply in_map_iff. exists v. split; [apply outpoint_raw; exact E|exact Hv].
Qed.

Lemma wfP_perm : forall ps us us' rate, Permutation us us' -> wfP ps us rate -> wfP ps us' rate.
Proof.
  intros ps us us' rate P [H1 H2 H3 H4 H5]. constructor.
  - exact H1.
  - unfold nonneg_values in *. eapply Permutation_Forall; eassumption.
  - exact H3.
  - rewrite <- (values_perm _ _ P), <- (len_perm _ _ P). exact H4.
  - eapply Permutation_NoDup; [apply Permutation_map; exact P|exact H5].
Qed.

(* ---------------------------------------------------------------------------------------------- *)
(* the shape of every transaction the repaired builder returns *)

Definition change_of (ret : Z) (bridge : list N) : list txout :=
  if ret >? 0 then [(ret, bridge)] else [].

Lemma raw_tx_inv : forall ps us rate bridge cid up t,
  wfP ps us rate ->
  raw_tx ps us rate bridge cid up = Tx t ->
  exists meta rest,
    all_valid ps = true /\ up = true /\ op_return cid = Some meta /\
    utxo_sort less us = t_used t ++ rest /\
    t_ins t = map outpoint (t_used t) /\
    amounts ps + fee_quote (len (t_used t)) (len ps + 1) rate <= values (t_used t) /\
    t_outs t = map pay ps ++ [(0, meta)]
               ++ change_of (values (t_used t) - fee_quote (len (t_used t)) (len ps + 1) rate - amounts ps) bridge.
Proof.
  intros ps us rate bridge cid up t W H.
  destruct W as [Wa Wv Wr Wb Wn].
  pose proof two63_lt_two64 as H64.
  pose proof (amounts_nonneg ps Wa) as Ha0.
  pose proof (values_nonneg us Wv) as Hv0.
  pose proof (@len_nonneg utxo us) as Lu. pose proof (@len_nonneg prop ps) as Lp.
  assert (Hq0 : 0 <= fee_quote (len us + len ps) (len ps + 1) rate) by (apply fee_quote_nonneg; lia).
  assert (Hlenb : (len us + len ps) * 180 + (len ps + 1) * 34 <= fee_quote (len us + len ps) (len ps + 1) rate).
  { unfold fee_quote. fold (mult rate). pose proof (mult_bounds rate Wr) as Hm. nia. }
  unfold raw_tx, raw_tx_gen in H.
  destruct (pay_outputs ps 0) as [[pays out_amount]|] eqn:Hpay; [|discriminate].
  apply pay_outputs_some in Hpay; [|exact Wa|lia|lia].
  destruct Hpay as [Epays [Eout Evalid]]. cbn in Eout. subst pays out_amount.
  destruct up; cbn [negb] in H; [|discriminate].
  destruct (op_return cid) as [meta|] eqn:Hmeta; [|discriminate].
  assert (Hest : fee (len ps) (len ps) rate = fee_quote (len ps) (len ps) rate).
  { apply (fee_exact _ _ (len us + len ps) (len ps + 1)); lia. }
  rewrite Hest in H.
  assert (Hest_le : fee_quote (len ps) (len ps) rate <= fee_quote (len us + len ps) (len ps + 1) rate)
    by (apply fee_quote_mono; lia).
  assert (Hest0 : 0 <= fee_quote (len ps) (len ps) rate) by (apply fee_quote_nonneg; lia).
  rewrite (u64_id (amounts ps + fee_quote (len ps) (len ps) rate)) in H by lia.
  pose proof (sort_perm less us) as Psort.
  destruct (select (utxo_sort less us) (amounts ps + fee_quote (len ps) (len ps) rate) 0)
    as [[in_amount used]|] eqn:Hsel; [|discriminate].
  apply select_spec in Hsel.
  2:{ unfold nonneg_values in *. eapply Permutation_Forall; [apply Permutation_sym; exact Psort|exact Wv]. }
  2:{ lia. }
  2:{ rewrite (values_perm _ _ Psort). lia. }
  destruct Hsel as [rest [Esort Ein]]. cbn in Ein. subst in_amount.
  assert (Hlen : len used + len rest = len us).
  { rewrite <- len_app, <- Esort. apply len_perm. exact Psort. }
  pose proof (@len_nonneg utxo used) as Lused. pose proof (@len_nonneg utxo rest) as Lrest.
  assert (Hvals : values used + values rest = values us).
  { rewrite <- values_app, <- Esort. apply values_perm. exact Psort. }
  assert (Wused : nonneg_values used /\ nonneg_values rest).
  { assert (F : nonneg_values (used ++ rest)).
    { rewrite <- Esort. unfold nonneg_values in *. eapply Permutation_Forall; [apply Permutation_sym; exact Psort|exact Wv]. }
    unfold nonneg_values in F. apply Forall_app in F. exact F. }
  destruct Wused as [Wused Wrest].
  pose proof (values_nonneg used Wused) as Hu0. pose proof (values_nonneg rest Wrest) as Hr0.
  rewrite (u64_id (len ps + 1)) in H by lia.
  assert (Hfee : fee (len used) (len ps + 1) rate = fee_quote (len used) (len ps + 1) rate).
  { apply (fee_exact _ _ (len us + len ps) (len ps + 1)); lia. }
  rewrite Hfee in H.
  assert (Hfee_le : fee_quote (len used) (len ps + 1) rate <= fee_quote (len us + len ps) (len ps + 1) rate)
    by (apply fee_quote_mono; lia).
  assert (Hfee0 : 0 <= fee_quote (len used) (len ps + 1) rate) by (apply fee_quote_nonneg; lia).
  set (f := fee_quote (len used) (len ps + 1) rate) in *.
  rewrite (u64_id (amounts ps + f)) in H by lia.
  destruct (Z.ltb_spec (values used) (amounts ps + f)) as [Hlt|Hge]; [discriminate|].
  rewrite (u64_id (values used - f)) in H by lia.
  rewrite (u64_id (values used - f - amounts ps)) in H by lia.
  injection H as <-. cbn [t_ins t_outs t_used].
  exists meta, rest. repeat split; try assumption; try lia.
  unfold change_of. subst f.
  destruct (values used - fee_quote (len used) (len ps + 1) rate - amounts ps >? 0); [|reflexivity].
  rewrite i64_id by lia. reflexivity.
Qed.

(* ---------------------------------------------------------------------------------------------- *)
(* the property, clause by clause (for the repaired builder) *)

Lemma firstn_map_app : forall {A} (a b : list A), firstn (length a) (a ++ b) = a.
Proof. intros A a b. rewrite firstn_app, Nat.sub_diag, firstn_all. cbn. apply app_nil_r. Qed.

Lemma one_output_per_proposal : forall ps us rate bridge cid up t,
  wfP ps us rate -> raw_tx ps us rate bridge cid up = Tx t ->
  all_valid ps = true /\ firstn (length ps) (t_outs t) = map pay ps.
Proof.
  intros ps us rate bridge cid up t W H.
  destruct (raw_tx_inv _ _ _ _ _ _ _ W H) as [meta [rest [Hv [_ [_ [_ [_ [_ Ho]]]]]]]].
  split; [exact Hv|]. rewrite Ho. rewrite <- (map_length pay ps). apply firstn_map_app.
Qed.

Lemma nth_error_app_len : forall {A} (a b : list A) x, nth_error (a ++ x :: b) (length a) = Some x.
Proof. intros A a b x. rewrite nth_error_app2 by lia. rewrite Nat.sub_diag. reflexivity. Qed.

Lemma op_return_is_meta : forall cid meta, op_return cid = Some meta -> exists r, meta = 106%N :: r.
Proof.
  intros cid meta H. unfold op_return in H.
  destruct (80 <? length ([115; 121; 103; 95]%N ++ cid))%nat; [discriminate|].
  injection H as <-. eexists. reflexivity.
Qed.

Lemma metadata_zero : forall ps us rate bridge cid up t,
  wfP ps us rate -> raw_tx ps us rate bridge cid up = Tx t ->
  exists r, nth_error (t_outs t) (length ps) = Some (0, 106%N :: r).
Proof.
  intros ps us rate bridge cid up t W H.
  destruct (raw_tx_inv _ _ _ _ _ _ _ W H) as [meta [rest [_ [_ [Hm [_ [_ [_ Ho]]]]]]]].
  destruct (op_return_is_meta _ _ Hm) as [r Er]. exists r. rewrite Ho, <- Er.
  rewrite <- (map_length pay ps). cbn [app]. apply nth_error_app_len.
Qed.

Lemma skipn_app_len : forall {A} (a b : list A), skipn (length a) (a ++ b) = b.
Proof. intros A a b. rewrite skipn_app, Nat.sub_diag, skipn_all. reflexivity. Qed.

Lemma at_most_one_change : forall ps us rate bridge cid up t,
  wfP ps us rate -> raw_tx ps us rate bridge cid up = Tx t ->
  skipn (length ps + 1) (t_outs t) = [] \/
  exists c, 0 < c /\ skipn (length ps + 1) (t_outs t) = [(c, bridge)].
Proof.
  intros ps us rate bridge cid up t W H.
  destruct (raw_tx_inv _ _ _ _ _ _ _ W H) as [meta [rest [_ [_ [_ [_ [_ [_ Ho]]]]]]]].
  assert (E : skipn (length ps + 1) (t_outs t) =
              change_of (values (t_used t) - fee_quote (len (t_used t)) (len ps + 1) rate - amounts ps) bridge).
  { rewrite Ho. rewrite app_assoc.
    replace (length ps + 1)%nat with (length (map pay ps ++ [(0, meta)])).
    - apply skipn_app_len.
    - rewrite app_length, map_length. reflexivity. }
  rewrite E. unfold change_of.
  destruct (Z.gtb_spec (values (t_used t) - fee_quote (len (t_used t)) (len ps + 1) rate - amounts ps) 0) as [Hgt|Hle].
  - right. eexists. split; [|reflexivity]. lia.
  - left. reflexivity.
Qed.

Lemma NoDup_app_l : forall {A} (a b : list A), NoDup (a ++ b) -> NoDup a.
Proof.
  intros A a b. induction a as [|x a IH]; cbn [app]; intro H; [constructor|].
  inversion H as [|? ? Hx Hr]; subst. constructor; [|apply IH; exact Hr].
  intro Hin. apply Hx. apply in_or_app. left. exact Hin.
Qed.

Lemma inputs_from_bridge_utxos : forall ps us rate bridge cid up t,
  wfP ps us rate -> raw_tx ps us rate bridge cid up = Tx t ->
  t_ins t = map outpoint (t_used t) /\ NoDup (t_ins t) /\
  exists rest, Permutation us (t_used t ++ rest).
Proof.
  intros ps us rate bridge cid up t W H.
  destruct (raw_tx_inv _ _ _ _ _ _ _ W H) as [meta [rest [_ [_ [_ [Hs [Hi _]]]]]]].
  assert (P : Permutation us (t_used t ++ rest)).
  { rewrite <- Hs. apply Permutation_sym, sort_perm. }
  split; [exact Hi|]. split; [|exists rest; exact P].
  rewrite Hi.
  assert (Hnd : NoDup (map outpoint (t_used t ++ rest))).
  { eapply Permutation_NoDup; [apply Permutation_map; exact P|apply (wf_nodup _ _ _ W)]. }
  rewrite map_app in Hnd. eapply NoDup_app_l. exact Hnd.
Qed.

Lemma sum_pays : forall ps, sumZ (map fst (map pay ps)) = amounts ps.
Proof.
  unfold amounts. induction ps as [|p r IH]; cbn [map sumZ]; [reflexivity|].
  rewrite IH. unfold pay. destruct (p_rcpt p); reflexivity.
Qed.

Lemma sum_outs : forall ps meta ret bridge,
  sumZ (map fst (map pay ps ++ [(0, meta)] ++ change_of ret bridge)) = amounts ps + (if ret >? 0 then ret else 0).
Proof.
  intros ps meta ret bridge. rewrite !map_app, !sumZ_app. f_equal; [apply sum_pays|].
  unfold change_of. destruct (ret >? 0); cbn; lia.
Qed.

Lemma outputs_nonnegative : forall ps us rate bridge cid up t,
  wfP ps us rate -> raw_tx ps us rate bridge cid up = Tx t ->
  Forall (fun o => 0 <= fst o) (t_outs t).
Proof.
  intros ps us rate bridge cid up t W H.
  destruct (raw_tx_inv _ _ _ _ _ _ _ W H) as [meta [rest [_ [_ [_ [_ [_ [_ Ho]]]]]]]].
  rewrite Ho. apply Forall_app. split; [|apply Forall_app; split].
  - apply Forall_forall. intros o Hin. apply in_map_iff in Hin. destruct Hin as [p [E Hp]]. subst o.
    pose proof (wf_amounts _ _ _ W) as Wa. unfold nonneg_amounts in Wa. rewrite Forall_forall in Wa.
    specialize (Wa p Hp). unfold pay. destruct (p_rcpt p); cbn [fst]; exact Wa.
  - constructor; [cbn; lia|constructor].
  - unfold change_of.
    destruct (Z.gtb_spec (values (t_used t) - fee_quote (len (t_used t)) (len ps + 1) rate - amounts ps) 0) as [Hgt|Hle];
      [constructor; [cbn [fst]; lia|constructor]|constructor].
Qed.

Lemma conservation : forall ps us rate bridge cid up t,
  wfP ps us rate -> raw_tx ps us rate bridge cid up = Tx t ->
  values (t_used t) - sumZ (map fst (t_outs t)) = fee_quote (len (t_ins t)) (len ps + 1) rate.
Proof.
  intros ps us rate bridge cid up t W H.
  destruct (raw_tx_inv _ _ _ _ _ _ _ W H) as [meta [rest [_ [_ [_ [_ [Hi [Hc Ho]]]]]]]].
  rewrite Ho, sum_outs, Hi, len_map.
  destruct (Z.gtb_spec (values (t_used t) - fee_quote (len (t_used t)) (len ps + 1) rate - amounts ps) 0); lia.
Qed.

Lemma tx_covers : forall ps us rate bridge cid up t,
  wfP ps us rate -> raw_tx ps us rate bridge cid up = Tx t ->
  amounts ps + fee_quote (len (t_used t)) (len ps + 1) rate <= values (t_used t) /\ t_used t <> [].
Proof.
  intros ps us rate bridge cid up t W H.
  destruct (raw_tx_inv _ _ _ _ _ _ _ W H) as [meta [rest [_ [_ [_ [_ [_ [Hc _]]]]]]]].
  split; [exact Hc|]. intro E. rewrite E in Hc. unfold values, len in Hc. cbn in Hc.
  pose proof (amounts_nonneg ps (wf_amounts _ _ _ W)) as Ha.
  pose proof (fee_quote_pos 0 (len ps + 1) rate (wf_rate _ _ _ W) ltac:(lia) ltac:(unfold len; lia)) as Hf.
  change (Z.of_nat (length ps)) with (len ps) in Hc. lia.
Qed.

Lemma insufficient_no_tx : forall ps us rate bridge cid up,
  wfP ps us rate -> cannot_cover ps us rate = true -> raw_tx ps us rate bridge cid up = Err.
Proof.
  intros ps us rate bridge cid up W Hc.
  destruct (raw_tx ps us rate bridge cid up) as [|t] eqn:H; [reflexivity|exfalso].
  destruct (tx_covers _ _ _ _ _ _ _ W H) as [Hcov Hne].
  destruct (inputs_from_bridge_utxos _ _ _ _ _ _ _ W H) as [_ [_ [rest P]]].
  unfold cannot_cover in Hc. apply Z.ltb_lt in Hc.
  rewrite (values_perm _ _ P), values_app in Hc.
  assert (Wr : nonneg_values rest).
  { pose proof (wf_values _ _ _ W) as Wv. unfold nonneg_values in *.
    assert (F : Forall (fun u => 0 <= u_value u) (t_used t ++ rest)) by (eapply Permutation_Forall; eassumption).
    apply Forall_app in F. apply F. }
  pose proof (values_nonneg rest Wr) as Hr0.
  assert (Hl : 1 <= len (t_used t)).
  { unfold len. destruct (t_used t); [contradiction|cbn [length]; lia]. }
  pose proof (fee_quote_mono 1 (len ps + 1) (len (t_used t)) (len ps + 1) rate (wf_rate _ _ _ W) ltac:(lia)
                ltac:(unfold len; lia)) as Hm.
  lia.
Qed.

Lemma bad_recipient_no_tx : forall ps us rate bridge cid up,
  all_valid ps = false -> raw_tx ps us rate bridge cid up = Err.
Proof.
  intros ps us rate bridge cid up H. unfold raw_tx, raw_tx_gen.
  apply (pay_outputs_none ps 0) in H. rewrite H. reflexivity.
Qed.

Lemma order_independent : forall ps us us' rate bridge cid up,
  Permutation us us' -> NoDup (map raw_outpoint us) ->
  raw_tx ps us rate bridge cid up = raw_tx ps us' rate bridge cid up.
Proof.
  intros ps us us' rate bridge cid up P Hnd. unfold raw_tx, raw_tx_gen.
  rewrite (sort_unique us us' P Hnd). reflexivity.
Qed.

(* ---------------------------------------------------------------------------------------------- *)
(* the judge accepts everything the repaired model returns *)

Lemma txout_eqb_refl : forall o, txout_eqb o o = true.
Proof. intros [v s]. unfold txout_eqb. cbn [fst snd]. rewrite Z.eqb_refl, str_eqb_refl. reflexivity. Qed.

Lemma txout_eqb_eq : forall a b, txout_eqb a b = true -> a = b.
Proof.
  intros [a1 a2] [b1 b2] H. unfold txout_eqb in H. cbn [fst snd] in H.
  apply andb_true_iff in H. destruct H as [H1 H2]. apply Z.eqb_eq in H1. apply str_eqb_eq in H2. subst. reflexivity.
Qed.

Lemma remove_pays_model : forall ps rest, all_valid ps = true -> remove_pays ps (map pay ps ++ rest) = Some rest.
Proof.
  induction ps as [|p r IH]; intros rest Hv; cbn [remove_pays map app]; [reflexivity|].
  unfold all_valid in Hv. cbn [forallb] in Hv. apply andb_true_iff in Hv. destruct Hv as [Hp Hr].
  unfold pay at 1. destruct (p_rcpt p) as [k h|]; [|discriminate].
  cbn [remove_first]. rewrite txout_eqb_refl. apply IH. exact Hr.
Qed.

Lemma find_outpoint : forall us u, NoDup (map outpoint us) -> In u us ->
  find (fun v => op_eqb (outpoint v) (outpoint u)) us = Some u.
Proof.
  induction us as [|x r IH]; intros u Hnd Hin; [contradiction|].
  cbn [find]. cbn [map] in Hnd. inversion Hnd as [|? ? Hx Hr]; subst.
  destruct (op_eqb (outpoint x) (outpoint u)) eqn:E.
  - apply op_eqb_eq in E. destruct Hin as [Hin|Hin]; [subst; reflexivity|].
    exfalso. apply Hx. rewrite E. apply in_map. exact Hin.
  - destruct Hin as [Hin|Hin].
    + subst x. assert (T : op_eqb (outpoint u) (outpoint u) = true) by (apply op_eqb_eq; reflexivity). congruence.
    + apply IH; assumption.
Qed.

Lemma lookup_ins_model : forall us used, NoDup (map outpoint us) -> incl used us ->
  lookup_ins (map outpoint used) us = Some used.
Proof.
  intros us used Hnd. induction used as [|u r IH]; intro Hincl; cbn [map lookup_ins]; [reflexivity|].
  rewrite find_outpoint; [|exact Hnd|apply Hincl; left; reflexivity].
  rewrite IH; [reflexivity|]. intros x Hx. apply Hincl. right. exact Hx.
Qed.

Lemma forallb_nonneg : forall (outs : list txout),
  Forall (fun o => 0 <= fst o) outs -> forallb (fun o => 0 <=? fst o) outs = true.
Proof.
  intros outs H. apply forallb_forall. intros o Ho. rewrite Forall_forall in H. specialize (H o Ho). lia.
Qed.

(* [us] is the bridge's UTXO set, [listing] the order in which the service happened to list it *)
Lemma spec_one_model : forall ps us listing rate bridge cid up,
  wfP ps us rate -> Permutation us listing ->
  spec_one ps us bridge (project ps rate (raw_tx ps listing rate bridge cid up)) = true.
Proof.
  intros ps us listing rate bridge cid up W P.
  pose proof (wfP_perm _ _ _ _ P W) as W'.
  destruct (raw_tx ps listing rate bridge cid up) as [|t] eqn:H; cbn [project spec_one]; [reflexivity|].
  destruct (raw_tx_inv _ _ _ _ _ _ _ W' H) as [meta [rest [Hv [_ [Hm [Hs [Hi [Hc Ho]]]]]]]].
  rewrite Hv. cbn [andb].
  assert (Hq : 0 <=? fee_quote (len (t_ins t)) (len ps + 1) rate = true).
  { apply Z.leb_le. apply fee_quote_nonneg; [apply (wf_rate _ _ _ W)|apply len_nonneg|].
    pose proof (@len_nonneg prop ps). lia. }
  rewrite Hq. cbn [andb].
  unfold tx_ok. rewrite Ho. rewrite remove_pays_model by exact Hv.
  destruct (op_return_is_meta _ _ Hm) as [mr Em].
  assert (Hmeta : is_meta (0, meta) = true) by (rewrite Em; reflexivity).
  cbn [app remove_first]. rewrite Hmeta.
  assert (Hch : match change_of (values (t_used t) - fee_quote (len (t_used t)) (len ps + 1) rate - amounts ps) bridge with
                | [] => true | [c] => str_eqb (snd c) bridge | _ => false end = true).
  { unfold change_of. destruct (_ >? 0); [cbn [snd]; apply str_eqb_refl|reflexivity]. }
  rewrite Hch. cbn [andb].
  change ((0, meta) :: change_of (values (t_used t) - fee_quote (len (t_used t)) (len ps + 1) rate - amounts ps) bridge)
    with ([(0, meta)] ++ change_of (values (t_used t) - fee_quote (len (t_used t)) (len ps + 1) rate - amounts ps) bridge).
  rewrite <- Ho.
  rewrite (forallb_nonneg _ (outputs_nonnegative _ _ _ _ _ _ _ W' H)). cbn [andb].
  destruct (inputs_from_bridge_utxos _ _ _ _ _ _ _ W' H) as [_ [Hnd [rest' P']]].
  apply nodupb_NoDup in Hnd. rewrite Hnd. cbn [andb].
  rewrite Hi at 1. rewrite lookup_ins_model.
  - apply Z.eqb_eq. apply (conservation _ _ _ _ _ _ _ W' H).
  - apply (wf_nodup _ _ _ W).
  - intros x Hx. eapply Permutation_in; [apply Permutation_sym; exact P|].
    eapply Permutation_in; [apply Permutation_sym; exact P'|]. apply in_or_app. left. exact Hx.
Qed.

Lemma list_eqb_refl : forall {A} (eqb : A -> A -> bool) l, (forall x, eqb x x = true) -> list_eqb eqb l l = true.
Proof. intros A eqb l H. induction l as [|x r IH]; cbn [list_eqb]; [reflexivity|]. rewrite H, IH. reflexivity. Qed.

Lemma res_eqb_refl : forall o, res_eqb o o = true.
Proof.
  intros [[[i o] q]|]; cbn [res_eqb]; [|reflexivity].
  rewrite !list_eqb_refl, Z.eqb_refl; [reflexivity|apply txout_eqb_refl|].
  intro x. apply op_eqb_eq. reflexivity.
Qed.

(* all listings of one UTXO set: each run obeys the spec and all runs are the same *)
Lemma spec_all_model : forall ps us rate bridge cid up listings,
  wfP ps us rate -> Forall (Permutation us) listings ->
  spec_all ps us bridge (map (fun l => project ps rate (raw_tx ps l rate bridge cid up)) listings) = true.
Proof.
  intros ps us rate bridge cid up listings W HP. unfold spec_all. apply andb_true_iff. split.
  - apply forallb_forall. intros o Ho. apply in_map_iff in Ho. destruct Ho as [l [E Hl]]. subst o.
    rewrite Forall_forall in HP. apply spec_one_model; [exact W|apply HP; exact Hl].
  - destruct listings as [|l0 rest]; cbn [map]; [reflexivity|].
    apply forallb_forall. intros o Ho. apply in_map_iff in Ho. destruct Ho as [l [E Hl]]. subst o.
    inversion HP as [|? ? P0 Prest]; subst. rewrite Forall_forall in Prest.
    pose proof (NoDup_outpoint_raw us (wf_nodup _ _ _ W)) as Hraw.
    rewrite <- (order_independent ps us l0 rate bridge cid up P0 Hraw).
    rewrite <- (order_independent ps us l rate bridge cid up (Prest l Hl) Hraw).
    apply res_eqb_refl.
Qed.

(* ---------------------------------------------------------------------------------------------- *)
(* ... and whatever the judge accepts has the stated properties *)

Lemma remove_first_perm : forall {A} (f : A -> bool) l r,
  remove_first f l = Some r -> exists x, f x = true /\ Permutation l (x :: r).
Proof.
  intros A f. induction l as [|y l IH]; intros r H; cbn [remove_first] in H; [discriminate|].
  destruct (f y) eqn:Fy.
  - injection H as <-. exists y. split; [exact Fy|apply Permutation_refl].
  - destruct (remove_first f l) as [r'|] eqn:Hr; [|discriminate]. injection H as <-.
    destruct (IH r' eq_refl) as [x [Fx P]]. exists x. split; [exact Fx|].
    eapply perm_trans; [apply perm_skip; exact P|apply perm_swap].
Qed.

Lemma remove_pays_perm : forall ps outs rest,
  remove_pays ps outs = Some rest -> all_valid ps = true /\ Permutation outs (map pay ps ++ rest).
Proof.
  induction ps as [|p r IH]; intros outs rest H; cbn [remove_pays] in H.
  - injection H as <-. split; [reflexivity|apply Permutation_refl].
  - destruct (p_rcpt p) as [k h|] eqn:Hrc; [|discriminate].
    destruct (remove_first (txout_eqb (p_amount p, script_of k h)) outs) as [outs'|] eqn:Hrm; [|discriminate].
    apply remove_first_perm in Hrm. destruct Hrm as [x [Ex P]]. apply txout_eqb_eq in Ex. subst x.
    apply IH in H. destruct H as [Hv P'].
    split.
    + unfold all_valid. cbn [forallb]. rewrite Hrc. exact Hv.
    + cbn [map app]. unfold pay at 1. rewrite Hrc.
      eapply perm_trans; [exact P|apply perm_skip; exact P'].
Qed.

Lemma lookup_ins_sound : forall ins us used,
  lookup_ins ins us = Some used -> ins = map outpoint used /\ incl used us.
Proof.
  induction ins as [|i r IH]; intros us used H; cbn [lookup_ins] in H.
  - injection H as <-. split; [reflexivity|intros x []].
  - destruct (find (fun u => op_eqb (outpoint u) i) us) as [u|] eqn:Hf; [|discriminate].
    destruct (lookup_ins r us) as [l|] eqn:Hl; [|discriminate]. injection H as <-.
    apply find_some in Hf. destruct Hf as [Hin E]. apply op_eqb_eq in E.
    destruct (IH us l Hl) as [E1 E2]. split.
    + cbn [map]. rewrite E, <- E1. reflexivity.
    + intros x [Hx|Hx]; [subst; exact Hin|apply E2; exact Hx].
Qed.

Lemma tx_ok_sound : forall ps us bridge ins outs quote,
  tx_ok ps us bridge ins outs quote = true ->
  all_valid ps = true /\
  (exists m change, is_meta m = true /\ (change = [] \/ exists c, change = [(c, bridge)]) /\
                    Permutation outs (map pay ps ++ m :: change)) /\
  Forall (fun o => 0 <= fst o) outs /\
  exists used, ins = map outpoint used /\ NoDup ins /\ incl used us /\
               values used - sumZ (map fst outs) = quote.
Proof.
  intros ps us bridge ins outs quote H. unfold tx_ok in H.
  destruct (remove_pays ps outs) as [rest|] eqn:Hrp; [|discriminate].
  destruct (remove_first is_meta rest) as [rest'|] eqn:Hrm; [|discriminate].
  repeat (apply andb_true_iff in H; destruct H as [H ?]).
  apply remove_pays_perm in Hrp. destruct Hrp as [Hv P].
  apply remove_first_perm in Hrm. destruct Hrm as [m [Hm P']].
  split; [exact Hv|]. split; [|split].
  - exists m, rest'. split; [exact Hm|]. split.
    + destruct rest' as [|c [|c' r']]; [left; reflexivity| |discriminate].
      right. exists (fst c). apply str_eqb_eq in H. destruct c as [cv cs]. cbn [snd fst] in *. subst. reflexivity.
    + eapply perm_trans; [exact P|]. apply Permutation_app_head. exact P'.
  - apply Forall_forall. intros o Ho. rewrite forallb_forall in H2. specialize (H2 o Ho). lia.
  - destruct (lookup_ins ins us) as [used|] eqn:Hl; [|discriminate].
    apply lookup_ins_sound in Hl. destruct Hl as [E1 E2].
    exists used. split; [exact E1|]. split; [apply nodupb_NoDup; assumption|]. split; [exact E2|].
    apply Z.eqb_eq. assumption.
Qed.

(* whatever transaction the judge accepts, its inputs are distinct bridge UTXOs that cover the
   amounts plus the quote: from a set that cannot cover them no transaction is accepted *)
Lemma sum_nonneg : forall l, Forall (fun x => 0 <= x) l -> 0 <= sumZ l.
Proof. intros l H. induction H as [|x r Hx Hr IH]; cbn [sumZ]; lia. Qed.

Lemma sumZ_perm : forall a b, Permutation a b -> sumZ a = sumZ b.
Proof. intros a b P. induction P as [|x a b P IH|x y a|a b c P1 IH1 P2 IH2]; cbn [sumZ]; lia. Qed.

Lemma tx_ok_covers : forall ps us bridge ins outs quote,
  tx_ok ps us bridge ins outs quote = true ->
  exists used, ins = map outpoint used /\ NoDup ins /\ incl used us /\
               amounts ps + quote <= values used.
Proof.
  intros ps us bridge ins outs quote H.
  destruct (tx_ok_sound _ _ _ _ _ _ H) as [Hv [[m [change [Hm [Hc P]]]] [Hnn [used [E1 [E2 [E3 E4]]]]]]].
  exists used. repeat split; try assumption.
  assert (Hs : sumZ (map fst outs) = amounts ps + fst m + sumZ (map fst change)).
  { rewrite (sumZ_perm _ _ (Permutation_map fst P)). rewrite map_app, sumZ_app, sum_pays. cbn [map sumZ]. rewrite Z.add_assoc. reflexivity. }
  assert (Hm0 : fst m = 0).
  { unfold is_meta in Hm. apply andb_true_iff in Hm. destruct Hm as [Hm _]. lia. }
  assert (Hc0 : 0 <= sumZ (map fst change)).
  { apply sum_nonneg. apply Forall_forall. intros x Hx. apply in_map_iff in Hx. destruct Hx as [o [Eo Ho]]. subst x.
    rewrite Forall_forall in Hnn. apply Hnn. eapply Permutation_in; [apply Permutation_sym; exact P|].
    apply in_or_app. right. right. exact Ho. }
  lia.
Qed.

(* ---------------------------------------------------------------------------------------------- *)
(* the code as found violates the property (witnesses are replayed on the implementation by
   corpus/C16) *)

Definition w_bridge : list N := script_of P2TR (repeat 7%N 32).
Definition w_props : list prop := [mkProp 1000 (Valid P2WPKH (repeat 1%N 20))].
Definition w_id : list N := repeat 97%N 64.
Definition w_utxos : list utxo := [mkUtxo w_id 0 1100 1700000000].

Lemma old_conservation_refuted :
  wf w_props w_utxos 1 = true /\
  exists t, old_raw_tx w_props w_utxos 1 w_bridge [81; 109]%N true = Tx t /\
            In (-1140, w_bridge) (t_outs t).
Proof.
  split; [vm_compute; reflexivity|].
  eexists. split; [vm_compute; reflexivity|]. right. right. left. reflexivity.
Qed.

Definition w_two : list utxo := [mkUtxo w_id 1 3000 1700000000; mkUtxo w_id 0 3000 1700000000].

Lemma old_order_refuted :
  wf w_props w_two 1 = true /\ Permutation w_two (rev w_two) /\
  project w_props 1 (old_raw_tx w_props w_two 1 w_bridge [81; 109]%N true)
  <> project w_props 1 (old_raw_tx w_props (rev w_two) 1 w_bridge [81; 109]%N true).
Proof.
  split; [vm_compute; reflexivity|]. split; [apply Permutation_rev|].
  vm_compute. intro H. discriminate.
Qed.
