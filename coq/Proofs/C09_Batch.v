(* C09 - proofs for Part 9 (sessions with a batch of processes) and Part 10 (long histories). *)
From Coq Require Import List Arith NArith Bool Lia.
Import ListNotations.
From SygmaV Require Import Model.C09 Proofs.C09.

(* ------------------------------------------------------------------------------------------ *)
(* Part 9 *)

Lemma count_occ_seq : forall n k p,
  count_occ Nat.eq_dec (seq k n) p = if (k <=? p) && (p <? k + n) then 1 else 0.
Proof.
  induction n as [|n IH]; intros k p; cbn [seq count_occ].
  - destruct (k <=? p) eqn:H1; destruct (p <? k + 0) eqn:H2; try reflexivity. blia.
  - destruct (Nat.eq_dec k p) as [He|He]; rewrite IH.
    + subst. destruct (S p <=? p) eqn:H1; destruct (p <=? p) eqn:H2;
      destruct (p <? S p + n) eqn:H3; destruct (p <? p + S n) eqn:H4; cbn; try reflexivity; blia.
    + destruct (S k <=? p) eqn:H1; destruct (k <=? p) eqn:H2;
      destruct (p <? S k + n) eqn:H3; destruct (p <? k + S n) eqn:H4; cbn; try reflexivity; blia.
Qed.

Lemma count_occ_seq0 : forall np p, p < np -> count_occ Nat.eq_dec (seq 0 np) p = 1.
Proof.
  intros np p H. rewrite count_occ_seq.
  replace (0 <=? p) with true by (symmetry; apply Nat.leb_le; lia).
  replace (p <? 0 + np) with true by (symmetry; apply Nat.ltb_lt; lia). reflexivity.
Qed.

Lemma count_occ_repeat : forall q n p,
  count_occ Nat.eq_dec (repeat q n) p = if Nat.eqb q p then n else 0.
Proof.
  intros q n p. induction n as [|n IH]; cbn [repeat count_occ].
  - now destruct (Nat.eqb q p).
  - destruct (Nat.eq_dec q p) as [He|He]; rewrite IH.
    + subst. now rewrite Nat.eqb_refl.
    + destruct (Nat.eqb_spec q p); [contradiction|reflexivity].
Qed.

(* counting the Run / Stop events of a loop = counting its targets *)
Lemma count_run_map : forall p l, count_ev (is_run p) (map ERun l) = count_occ Nat.eq_dec l p.
Proof.
  intros p l. unfold count_ev. induction l as [|x l IH]; cbn [map filter length count_occ is_run]; [reflexivity|].
  destruct (Nat.eq_dec x p) as [He|He].
  - subst. rewrite Nat.eqb_refl. cbn [length]. now rewrite IH.
  - destruct (Nat.eqb_spec p x); [subst; contradiction|]. exact IH.
Qed.

Lemma count_stop_map : forall p l, count_ev (is_stop p) (map EStop l) = count_occ Nat.eq_dec l p.
Proof.
  intros p l. unfold count_ev. induction l as [|x l IH]; cbn [map filter length count_occ is_stop]; [reflexivity|].
  destruct (Nat.eq_dec x p) as [He|He].
  - subst. rewrite Nat.eqb_refl. cbn [length]. now rewrite IH.
  - destruct (Nat.eqb_spec p x); [subst; contradiction|]. exact IH.
Qed.

Lemma count_map_other : forall (f : ev -> bool) (g : nat -> ev), (forall q, f (g q) = false) ->
  forall l, count_ev f (map g l) = 0.
Proof.
  intros f g H l. unfold count_ev. induction l as [|x l IH]; cbn [map filter length]; [reflexivity|].
  now rewrite H.
Qed.

Lemma last_pend_map_run : forall l, last_pend (map ERun l) = None.
Proof. induction l as [|x l IH]; cbn; [reflexivity | now rewrite IH]. Qed.

(* with the per-iteration copy the batch trace of a session that is not retried is the session trace *)
Lemma batch_is_session : forall r o ph np,
  batch_trace PerIteration PerIteration r o ph false np = session_trace r o ph np.
Proof.
  intros r o ph np. unfold batch_trace, session_trace, bstart_trace, start_trace, launch_evs,
    loop_targets, captured, seq_ev. cbn [orb]. destruct r; cbn [app]; now rewrite ?app_nil_r.
Qed.

Section BatchCounts.
  Variables (cl cs : capture) (r : role) (o : outcome) (ph : phase) (retry : bool) (np : nat).

  Let tr := batch_trace cl cs r o ph retry np.

  Lemma batch_subs : forall m, count_ev (is_sub m) tr = count_ev (is_unsub m) tr.
  Proof.
    intro m. unfold tr, batch_trace, bstart_trace, retry_trace, launch_evs.
    repeat rewrite count_ev_app.
    rewrite (count_map_other (is_sub m) EStop) by reflexivity.
    rewrite (count_map_other (is_unsub m) EStop) by reflexivity.
    destruct r; destruct (retry || runs _ o ph); destruct retry; repeat rewrite count_ev_app;
    repeat (rewrite (count_map_other (is_sub m) ERun) by reflexivity);
    repeat (rewrite (count_map_other (is_unsub m) ERun) by reflexivity);
    destruct m; reflexivity.
  Qed.

  Lemma batch_close : count_ev is_close tr = 1.
  Proof.
    unfold tr, batch_trace, bstart_trace, retry_trace, launch_evs.
    repeat rewrite count_ev_app.
    rewrite (count_map_other is_close EStop) by reflexivity.
    destruct r; destruct (retry || runs _ o ph); destruct retry; repeat rewrite count_ev_app;
    repeat (rewrite (count_map_other is_close ERun) by reflexivity); reflexivity.
  Qed.

  Lemma batch_stop_count : forall p,
    count_ev (is_stop p) tr = count_occ Nat.eq_dec (loop_targets cs np) p.
  Proof.
    intro p. unfold tr, batch_trace, bstart_trace, retry_trace, launch_evs.
    repeat rewrite count_ev_app. rewrite count_stop_map.
    destruct r; destruct (retry || runs _ o ph); destruct retry; repeat rewrite count_ev_app;
    repeat (rewrite (count_map_other (is_stop p) ERun) by reflexivity); reflexivity.
  Qed.

  Lemma batch_run_count : forall p,
    count_ev (is_run p) tr = batch_rounds r o ph retry * count_occ Nat.eq_dec (loop_targets cl np) p.
  Proof.
    intro p. unfold tr, batch_trace, bstart_trace, retry_trace, launch_evs, batch_rounds.
    repeat rewrite count_ev_app.
    rewrite (count_map_other (is_run p) EStop) by reflexivity.
    destruct r; destruct retry; cbn [orb]; try destruct (runs _ o ph); repeat rewrite count_ev_app;
    repeat rewrite count_run_map; cbn [count_ev filter length is_run app]; lia.
  Qed.

  Lemma batch_last_pend : last_pend tr = Some false.
  Proof.
    unfold tr, batch_trace. repeat rewrite last_pend_app. rewrite last_pend_map_stop. reflexivity.
  Qed.
End BatchCounts.

Lemma rounds_le_2 : forall r o ph retry, batch_rounds r o ph retry <= 2.
Proof. intros r o ph retry. unfold batch_rounds. destruct retry; [lia|]. destruct (runs r o ph); lia. Qed.

Lemma rounds_once : forall r o ph, batch_rounds r o ph false <= 1.
Proof. intros r o ph. unfold batch_rounds. destruct (runs r o ph); lia. Qed.

Lemma forallb_map_seq : forall (f : nat -> nat) (P : nat -> bool) n,
  (forall p, p < n -> P (f p) = true) -> forallb P (map f (seq 0 n)) = true.
Proof.
  intros f P n H. apply forallb_forall. intros x Hx. apply in_map_iff in Hx.
  destruct Hx as [p [Hp Hin]]. subst. apply H. apply in_seq in Hin. lia.
Qed.

Lemma nth_map_seq : forall (f : nat -> nat) np p d, p < np -> nth p (map f (seq 0 np)) d = f p.
Proof.
  intros f np p d H. rewrite (nth_indep _ d (f 0)) by (now rewrite map_length, seq_length).
  rewrite map_nth. now rewrite seq_nth by lia.
Qed.

(* the model (per-iteration copies in every loop) passes the judge: every number of processes, every
   role, outcome, phase, retried or not *)
Lemma batch_ok_model : forall r o ph retry np,
  batch_ok (negb retry) np (batch_trace PerIteration PerIteration r o ph retry np)
           (batch_maxsim PerIteration r o ph retry np) = true.
Proof.
  intros r o ph retry np. unfold batch_ok.
  apply andb_true_intro; split; [apply andb_true_intro; split; [apply andb_true_intro; split;
    [apply andb_true_intro; split; [apply andb_true_intro; split|]|]|]|].
  - apply forallb_forall. intros m _. apply Nat.eqb_eq. apply batch_subs.
  - apply orb_true_intro. left. apply Nat.eqb_eq. apply batch_close.
  - apply forallb_forall. intros p Hp. apply in_seq in Hp.
    rewrite batch_stop_count, batch_run_count. unfold loop_targets, captured.
    rewrite count_occ_seq0 by lia. apply andb_true_intro; split; [reflexivity|].
    destruct retry; cbn [negb orb]; [reflexivity|]. apply Nat.leb_le.
    pose proof (rounds_once r o ph). lia.
  - now rewrite batch_last_pend.
  - apply Nat.eqb_eq. unfold batch_maxsim. now rewrite map_length, seq_length.
  - unfold batch_maxsim. apply forallb_map_seq. intros p Hp. apply Nat.leb_le.
    unfold loop_targets, captured. rewrite count_occ_seq0 by lia.
    destruct (batch_rounds r o ph retry); cbn; lia.
Qed.

(* ... and what it shows per process *)
Lemma batch_each_process : forall r o ph retry np p, p < np ->
  let tr := batch_trace PerIteration PerIteration r o ph retry np in
  count_ev (is_run p) tr = batch_rounds r o ph retry /\
  count_ev (is_stop p) tr = 1 /\
  nth p (batch_maxsim PerIteration r o ph retry np) 0 = Nat.min 1 (batch_rounds r o ph retry).
Proof.
  intros r o ph retry np p Hp. cbv zeta.
  rewrite batch_run_count, batch_stop_count. unfold loop_targets, captured.
  rewrite count_occ_seq0 by lia. split; [lia|]. split; [reflexivity|].
  unfold batch_maxsim. rewrite nth_map_seq by lia. unfold loop_targets, captured. rewrite count_occ_seq0 by lia. lia.
Qed.

(* what the judge means *)
Lemma batch_ok_sound : forall once np l ms, batch_ok once np l ms = true ->
  (forall m, count_ev (is_sub m) l = count_ev (is_unsub m) l) /\
  (forall p, p < np -> count_ev (is_stop p) l = 1 /\ (once = true -> count_ev (is_run p) l <= 1) /\
                       nth p ms 0 <= 1) /\
  last_pend l = Some false.
Proof.
  intros once np l ms H. unfold batch_ok in H.
  apply andb_prop in H. destruct H as [H H6].
  apply andb_prop in H. destruct H as [H H5].
  apply andb_prop in H. destruct H as [H H4].
  apply andb_prop in H. destruct H as [H H3].
  apply andb_prop in H. destruct H as [H1 H2].
  split; [|split].
  - intro m. rewrite forallb_forall in H1. apply Nat.eqb_eq. apply H1. destruct m; cbn; tauto.
  - intros p Hp. rewrite forallb_forall in H3. specialize (H3 p).
    assert (Hin : In p (seq 0 np)) by (apply in_seq; lia). apply H3 in Hin.
    apply andb_prop in Hin. destruct Hin as [Hs Hr]. split; [now apply Nat.eqb_eq|]. split.
    + intro Ho. subst once. cbn in Hr. now apply Nat.leb_le.
    + apply Nat.eqb_eq in H5. rewrite forallb_forall in H6. apply Nat.leb_le. apply H6.
      apply nth_In. lia.
  - destruct (last_pend l) as [[|]|]; try discriminate. reflexivity.
Qed.

(* the shared range variable, worst case: every task of the launching loop runs the LAST process *)
Lemma last_seq0 : forall np, 1 <= np -> last (seq 0 np) 0 = np - 1.
Proof.
  intros np H. destruct np as [|n]; [lia|].
  replace (S n) with (n + 1) by lia. rewrite seq_app. cbn [seq plus]. rewrite last_last. lia.
Qed.

Lemma shared_targets : forall np, 1 <= np -> loop_targets SharedVariable np = repeat (np - 1) np.
Proof. intros np H. unfold loop_targets, captured. now rewrite last_seq0, seq_length. Qed.

Lemma forallb_false_at : forall (P : nat -> bool) n p, p < n -> P p = false -> forallb P (seq 0 n) = false.
Proof.
  intros P n p Hp HP. destruct (forallb P (seq 0 n)) eqn:E; [|reflexivity].
  rewrite forallb_forall in E. rewrite E in HP; [discriminate | apply in_seq; lia].
Qed.

Lemma batch_shared_launch_refuted : forall cs r o ph np, 2 <= np -> runs r o ph = true ->
  batch_ok true np (batch_trace SharedVariable cs r o ph false np)
           (batch_maxsim SharedVariable r o ph false np) = false.
Proof.
  intros cs r o ph np Hnp Hr. unfold batch_ok.
  assert (Hf : forallb (fun p => Nat.eqb (count_ev (is_stop p) (batch_trace SharedVariable cs r o ph false np)) 1
                 && (negb true || Nat.leb (count_ev (is_run p) (batch_trace SharedVariable cs r o ph false np)) 1)) (seq 0 np) = false).
  { apply (forallb_false_at _ np (np - 1)); [lia|].
    rewrite batch_run_count. unfold batch_rounds. rewrite Hr. rewrite shared_targets by lia.
    rewrite count_occ_repeat, Nat.eqb_refl. cbn [negb orb].
    apply andb_false_intro2. apply Nat.leb_gt. lia. }
  rewrite Hf. now rewrite !andb_false_r.
Qed.

Lemma batch_shared_stop_refuted : forall cl once r o ph retry np ms, 2 <= np ->
  batch_ok once np (batch_trace cl SharedVariable r o ph retry np) ms = false.
Proof.
  intros cl once r o ph retry np ms Hnp. unfold batch_ok.
  assert (Hf : forallb (fun p => Nat.eqb (count_ev (is_stop p) (batch_trace cl SharedVariable r o ph retry np)) 1
                 && (negb once || Nat.leb (count_ev (is_run p) (batch_trace cl SharedVariable r o ph retry np)) 1)) (seq 0 np) = false).
  { apply (forallb_false_at _ np 0); [lia|].
    rewrite batch_stop_count. rewrite shared_targets by lia.
    rewrite count_occ_repeat. destruct (Nat.eqb_spec (np - 1) 0); [lia|]. reflexivity. }
  rewrite Hf. now rewrite !andb_false_r.
Qed.

(* the refused batch: every process stopped once by the refusal's loop, the judge accepts *)
Lemma refused_ok_model : forall np,
  refused_stops PerIteration np = repeat 1 np /\
  refused_ok true (repeat 0 np) (refused_stops PerIteration np) = true.
Proof.
  intro np.
  assert (H : refused_stops PerIteration np = repeat 1 np).
  { unfold refused_stops, loop_targets, captured.
    assert (G : forall k n, (forall p, In p (seq k n) -> In p (seq 0 np)) ->
              map (fun p => count_occ Nat.eq_dec (seq 0 np) p) (seq k n) = repeat 1 n).
    { intros k n. revert k. induction n as [|n IH]; intros k Hin; cbn [seq map repeat]; [reflexivity|].
      rewrite count_occ_seq0; [|assert (In k (seq 0 np)) by (apply Hin; now left); apply in_seq in H; lia].
      f_equal. apply IH. intros p Hp. apply Hin. now right. }
    apply G. auto. }
  split; [exact H|]. rewrite H. unfold refused_ok. cbn [andb].
  apply andb_true_intro; split; apply forallb_forall; intros x Hx; apply repeat_spec in Hx; now subst.
Qed.

(* ------------------------------------------------------------------------------------------ *)
(* Part 10 *)
Lemma exec_app : forall v sid a b st, exec v sid (a ++ b) st = exec v sid b (exec v sid a st).
Proof. intros. unfold exec. apply fold_left_app. Qed.

Section History.
  Variable sid : nat -> nat.

  (* nothing is live: the lock is free, no flag is set, thread t and all later ones have not started *)
  Definition quiet (k : nat) (st : state) : Prop :=
    lock st = None /\ (forall s, pend st s = false) /\ (forall t, k <= t -> pcs st t = PLock).

  Lemma quiet_init : quiet 0 (init New).
  Proof. repeat split. Qed.

  (* single steps of the repaired Execute, head-first along a schedule *)
  Lemma x_lock : forall st t l, pcs st t = PLock -> lock st = None ->
    exec New sid (Step t :: l) st = exec New sid l (mk (upd (pcs st) t PCheck) (pend st) (Some t) (acc st)).
  Proof. intros st t l H1 H2. unfold exec. cbn [fold_left]. unfold step. now rewrite H1, H2. Qed.

  Lemma x_check : forall st t l, pcs st t = PCheck -> pend st (sid t) = false ->
    exec New sid (Step t :: l) st =
    exec New sid l (mk (upd (pcs st) t PSet) (pend st) (lock st) ((t, holds st t) :: acc st)).
  Proof. intros st t l H1 H2. unfold exec. cbn [fold_left]. unfold step. now rewrite H1, H2. Qed.

  Lemma x_set : forall st t l, pcs st t = PSet ->
    exec New sid (Step t :: l) st =
    exec New sid l (mk (upd (pcs st) t PUnlock) (upd (pend st) (sid t) true) (lock st) ((t, holds st t) :: acc st)).
  Proof. intros st t l H1. unfold exec. cbn [fold_left]. unfold step. now rewrite H1. Qed.

  Lemma x_unlock : forall st t l, pcs st t = PUnlock ->
    exec New sid (Step t :: l) st = exec New sid l (mk (upd (pcs st) t PRun) (pend st) None (acc st)).
  Proof. intros st t l H1. unfold exec. cbn [fold_left]. unfold step. now rewrite H1. Qed.

  Lemma x_fin : forall st t l, pcs st t = PRun ->
    exec New sid (Fin t :: l) st = exec New sid l (mk (upd (pcs st) t PCLock) (pend st) (lock st) (acc st)).
  Proof. intros st t l H1. unfold exec. cbn [fold_left]. unfold step. now rewrite H1. Qed.

  Lemma x_clock : forall st t l, pcs st t = PCLock -> lock st = None ->
    exec New sid (Step t :: l) st = exec New sid l (mk (upd (pcs st) t PCWrite) (pend st) (Some t) (acc st)).
  Proof. intros st t l H1 H2. unfold exec. cbn [fold_left]. unfold step. now rewrite H1, H2. Qed.

  Lemma x_cwrite : forall st t l, pcs st t = PCWrite ->
    exec New sid (Step t :: l) st =
    exec New sid l (mk (upd (pcs st) t PCUnlock) (upd (pend st) (sid t) false) (lock st) ((t, holds st t) :: acc st)).
  Proof. intros st t l H1. unfold exec. cbn [fold_left]. unfold step. now rewrite H1. Qed.

  Lemma x_cunlock : forall st t l, pcs st t = PCUnlock ->
    exec New sid (Step t :: l) st = exec New sid l (mk (upd (pcs st) t PDone) (pend st) None (acc st)).
  Proof. intros st t l H1. unfold exec. cbn [fold_left]. unfold step. now rewrite H1. Qed.

  (* admission of thread t in a quiet state: four steps, it runs; the others are untouched *)
  Lemma admit_quiet : forall k st t, quiet k st -> k <= t ->
    let st' := exec New sid (repeat (Step t) 4) st in
    pcs st' t = PRun /\ lock st' = None /\
    (forall s, pend st' s = if Nat.eqb s (sid t) then true else false) /\
    (forall u, u <> t -> pcs st' u = pcs st u).
  Proof.
    intros k st t [Hl [Hp Hpc]] Ht. cbv zeta. cbn [repeat].
    rewrite x_lock by (auto).
    rewrite x_check by (cbn [pcs pend]; first [apply upd_same | apply Hp]).
    rewrite x_set by (cbn [pcs]; apply upd_same).
    rewrite x_unlock by (cbn [pcs]; apply upd_same).
    unfold exec. cbn [fold_left pcs pend lock acc].
    split; [apply upd_same|]. split; [reflexivity|]. split.
    - intro s. unfold upd. rewrite Hp. reflexivity.
    - intros u Hu. now rewrite !upd_other by exact Hu.
  Qed.

  (* one whole session of thread k from a quiet state: quiet again, one thread further *)
  Lemma session_quiet : forall k st, quiet k st -> quiet (S k) (exec New sid (session_sched k) st).
  Proof.
    intros k st Hq. unfold session_sched. rewrite exec_app.
    destruct (admit_quiet k st k Hq (le_n k)) as [Hrun [Hl [Hp Hu]]].
    set (st1 := exec New sid (repeat (Step k) 4) st) in *.
    cbn [repeat app].
    rewrite x_fin by exact Hrun.
    rewrite x_clock by (cbn [pcs lock]; first [apply upd_same | exact Hl]).
    rewrite x_cwrite by (cbn [pcs]; apply upd_same).
    rewrite x_cunlock by (cbn [pcs]; apply upd_same).
    unfold exec, quiet. cbn [fold_left pcs pend lock acc].
    split; [reflexivity|]. split.
    - intro s. unfold upd. rewrite Hp. now destruct (Nat.eqb s (sid k)).
    - intros t Ht. rewrite !upd_other by lia. rewrite Hu by lia.
      destruct Hq as [_ [_ Hpc]]. apply Hpc. lia.
  Qed.

  Lemma hist_quiet : forall k, quiet k (exec New sid (hist_sched k) (init New)).
  Proof.
    induction k as [|k IH]; [exact quiet_init|].
    unfold hist_sched. rewrite seq_S, flat_map_app, exec_app. cbn [flat_map plus]. rewrite app_nil_r.
    apply session_quiet. exact IH.
  Qed.

  (* after ANY number k of ended sessions, with ANY session ids, a further request - for a new id or
     for the id of an ended session - is admitted *)
  Lemma admission_independent_of_history : forall k t0, k <= t0 -> probe_admitted sid k t0 = true.
  Proof.
    intros k t0 H. unfold probe_admitted. rewrite exec_app.
    destruct (admit_quiet k _ t0 (hist_quiet k) H) as [Hrun _]. now rewrite Hrun.
  Qed.
End History.

Lemma hist_admits_is_model : forall sid k t0, k <= t0 ->
  probe_admitted sid k t0 = hist_admits (N.of_nat k).
Proof. intros sid k t0 H. rewrite admission_independent_of_history by exact H. reflexivity. Qed.

(* the guard is refuted: after [cap] ended sessions with distinct ids nothing is live and a new id is
   refused (witness computed for the capacity 128 of the observed change) *)
Lemma size_guard_refuted :
  let m := fold_left (guarded_session 128) (seq 0 128) [] in
  forallb (fun s => negb (pm_get m s)) (seq 0 200) = true /\ guarded_admits 128 m 128 = false /\
  guarded_admits 128 m 0 = false.
Proof. vm_compute. repeat split. Qed.

(* ------------------------------------------------------------------------------------------ *)
(* Part 11: the order of the release against the sends *)

Lemma open_sends_close_last : forall l, open_sends (l ++ [LClose]) = 0.
Proof.
  induction l as [|e l IH]; [reflexivity|].
  destruct e; cbn [app open_sends]; [|exact IH].
  rewrite existsb_app. cbn. rewrite orb_true_r. exact IH.
Qed.

(* the model is accepted: whatever the numbers of sends of the first attempt and of the retry phase *)
Lemma released_ok_model : forall first retry, released_ok (exec_ledger first retry) = true.
Proof.
  intros a b. unfold released_ok, exec_ledger. rewrite app_assoc, open_sends_close_last. reflexivity.
Qed.

Lemma existsb_lclose_sends : forall n, existsb is_lclose (repeat LSend n) = false.
Proof. induction n; cbn; auto. Qed.

Lemma open_sends_repeat : forall n, open_sends (repeat LSend n) = n.
Proof.
  induction n as [|n IH]; [reflexivity|].
  cbn [repeat open_sends]. rewrite existsb_lclose_sends, IH. reflexivity.
Qed.

Lemma open_sends_before_close : forall n r, open_sends (repeat LSend n ++ LClose :: r) = open_sends r.
Proof.
  induction n as [|n IH]; intros r; [reflexivity|].
  cbn [repeat app open_sends]. rewrite existsb_app. cbn. rewrite orb_true_r. apply IH.
Qed.

(* releasing when the first attempt is over leaves every send of the retry phase unreleased *)
Lemma early_close_refuted : forall first retry,
  open_sends (early_close_ledger first retry) = retry /\
  (1 <= retry -> released_ok (early_close_ledger first retry) = false).
Proof.
  intros a b. unfold released_ok, early_close_ledger. cbn [app].
  rewrite open_sends_before_close, open_sends_repeat. split; [reflexivity|].
  intros H. apply Nat.eqb_neq. lia.
Qed.

(* what the judge means: every send is followed by a CloseSession *)
Lemma released_ok_sound : forall l, released_ok l = true ->
  forall pre post, l = pre ++ LSend :: post -> In LClose post.
Proof.
  unfold released_ok. intros l H pre. apply Nat.eqb_eq in H. revert l H.
  induction pre as [|e pre IH]; intros l H post ->.
  - cbn [app open_sends] in H. destruct (existsb is_lclose post) eqn:E; [|cbn in H; lia].
    apply existsb_exists in E. destruct E as [x [Hin Hx]]. destruct x; [discriminate|exact Hin].
  - cbn [app] in H. destruct e; cbn [open_sends] in H.
    + eapply IH; [|reflexivity]. lia.
    + eapply IH; [|reflexivity]. exact H.
Qed.
