From Coq Require Import List NArith ZArith Bool String Ascii Lia.
Import ListNotations.
From SygmaV Require Import Model.C13.
Local Open Scope string_scope.
Local Open Scope N_scope.
Local Open Scope list_scope.

(* ---- the gate ---- *)

Lemma allowed_iff t p : allowed t p = true <-> In p (map p_id (t_peers t)).
Proof.
  unfold allowed. rewrite existsb_exists, in_map_iff. split.
  - intros [q [Hq He]]. apply String.eqb_eq in He. exists q. tauto.
  - intros [q [He Hq]]. exists q. split; [exact Hq | apply String.eqb_eq; exact He].
Qed.

Lemma gate_iff_member g p d :
  (intercept_peer_dial g p = true <-> In p (map p_id (t_peers g))) /\
  (intercept_secured g d p = true <-> In p (map p_id (t_peers g))).
Proof. split; apply allowed_iff. Qed.

(* ---- refresh ---- *)

Section Refresh.
  Variable H : bytes -> string.
  Variable decrypt : bytes -> bytes.
  Variable parse : bytes -> option topo.

  Notation refresh := (refresh H decrypt parse).
  Notation run_refresh := (run_refresh H decrypt parse).
  Notation announced := (announced H decrypt parse).
  Notation announced_topo := (announced_topo H decrypt parse).

  Lemma provider_ok h f body t :
    h <> "" -> provider H decrypt parse h f body = POk t ->
    f = true /\ exists ct, hex_decode (trim_nl body) = Some ct /\ H ct = h /\
                           (aes_block <= List.length ct)%nat /\ parse (decrypt ct) = Some t.
  Proof.
    intros Hh. unfold provider. destruct f; cbn [negb]; [|discriminate].
    destruct (hex_decode (trim_nl body)) as [ct|]; [|discriminate].
    assert (Hne : String.eqb h "" = false) by (apply String.eqb_neq; exact Hh).
    rewrite Hne. cbn [negb andb].
    destruct (String.eqb (H ct) h) eqn:Heq; cbn [negb]; [|discriminate].
    apply String.eqb_eq in Heq.
    destruct (Nat.ltb (List.length ct) aes_block) eqn:Hl; [discriminate|].
    apply Nat.ltb_ge in Hl.
    destruct (parse (decrypt ct)) as [t'|] eqn:Hp; [|discriminate].
    intro E. inversion E; subst t'. split; [reflexivity|]. exists ct. auto.
  Qed.

  (* one HandleEvents call either leaves file, gate and peerstore exactly as they were, or the event
     announced the topology that is now in force *)
  Lemma refresh_cases st ev :
    fst (refresh st ev) = st \/
    exists t, announced ev t /\ ev_fetch_ok ev = true /\ ev_store_ok ev = true /\
              fst (refresh st ev) = adopted t.
  Proof.
    unfold C13.refresh.
    destruct (last_opt (ev_hashes ev)) as [h|] eqn:Hl; [|left; reflexivity].
    destruct (String.eqb h "") eqn:Hh; [left; reflexivity|].
    apply String.eqb_neq in Hh.
    destruct (provider H decrypt parse h (ev_fetch_ok ev) (ev_body ev)) as [t| |] eqn:Hp;
      [|left; reflexivity|left; reflexivity].
    destruct (ev_store_ok ev) eqn:Hs; cbn [negb]; [|left; reflexivity].
    right. exists t.
    destruct (provider_ok _ _ _ _ Hh Hp) as [Hf [ct (Hd & Hc & _ & Hparse)]].
    repeat split; try assumption; try reflexivity.
    exists h, ct. auto.
  Qed.

  Lemma adopt_iff st ev :
    fst (refresh st ev) <> st -> exists t, announced ev t /\ fst (refresh st ev) = adopted t.
  Proof.
    intro Hne. destruct (refresh_cases st ev) as [He|[t (Ha & _ & _ & He)]]; [contradiction|].
    exists t. auto.
  Qed.

  Lemma reject_unchanged st ev :
    (forall t, ~ announced ev t) -> fst (refresh st ev) = st.
  Proof.
    intro Hno. destruct (refresh_cases st ev) as [He|[t (Ha & _)]]; [exact He|].
    exfalso. exact (Hno t Ha).
  Qed.

  (* the individual reasons, spelled out *)
  Lemma hash_mismatch_unchanged st ev h ct :
    last_opt (ev_hashes ev) = Some h -> hex_decode (trim_nl (ev_body ev)) = Some ct ->
    H ct <> h -> fst (refresh st ev) = st.
  Proof.
    intros Hl Hd Hne. apply reject_unchanged. intros t (h' & ct' & Hl' & _ & Hd' & Hh & _).
    apply Hne. congruence.
  Qed.

  Lemma empty_hash_unchanged st ev :
    last_opt (ev_hashes ev) = Some "" -> fst (refresh st ev) = st.
  Proof.
    intro Hl. apply reject_unchanged. intros t (h & ct & Hl' & Hne & _).
    rewrite Hl in Hl'. inversion Hl'. congruence.
  Qed.

  Lemma invalid_unchanged st ev :
    (forall ct, hex_decode (trim_nl (ev_body ev)) = Some ct -> parse (decrypt ct) = None) ->
    fst (refresh st ev) = st.
  Proof.
    intro Hinv. apply reject_unchanged. intros t (h & ct & _ & _ & Hd & _ & Hp).
    rewrite (Hinv ct Hd) in Hp. discriminate.
  Qed.

  Lemma not_hex_unchanged st ev :
    hex_decode (trim_nl (ev_body ev)) = None -> fst (refresh st ev) = st.
  Proof.
    intro Hd. apply reject_unchanged. intros t (h & ct & _ & _ & Hd' & _). congruence.
  Qed.

  (* the outcome says when the state was replaced; in particular both panics before the store leave
     everything as it was *)
  Lemma outcome_unchanged st ev :
    snd (refresh st ev) <> Adopted -> snd (refresh st ev) <> PanicLoad -> fst (refresh st ev) = st.
  Proof.
    unfold C13.refresh.
    destruct (last_opt (ev_hashes ev)) as [h|]; [|reflexivity].
    destruct (String.eqb h ""); [reflexivity|].
    destruct (provider H decrypt parse h (ev_fetch_ok ev) (ev_body ev)) as [t| |]; try reflexivity.
    destruct (ev_store_ok ev); cbn [negb]; [|reflexivity].
    cbn [fst snd]. destruct (snd (load_peers (t_peers t))); intros H1 H2; congruence.
  Qed.

  (* any sequence of refresh events *)
  Lemma run_refresh_cases evs : forall st,
    run_refresh st evs = st \/
    exists ev t, In ev evs /\ announced ev t /\ run_refresh st evs = adopted t.
  Proof.
    induction evs as [|ev r IH]; intro st; [left; reflexivity|].
    cbn [C13.run_refresh fold_left].
    change (fold_left _ r ?x) with (run_refresh x r).
    destruct (IH (fst (refresh st ev))) as [He|[ev' [t (Hin & Ha & He)]]].
    - rewrite He. destruct (refresh_cases st ev) as [Hs|[t (Ha & _ & _ & Hs)]].
      + left; exact Hs.
      + right. exists ev, t. split; [left; reflexivity|]. split; assumption.
    - right. exists ev', t. split; [right; exact Hin|]. split; assumption.
  Qed.

  Lemma run_reject_unchanged evs st :
    (forall ev t, In ev evs -> ~ announced ev t) -> run_refresh st evs = st.
  Proof.
    intro Hno. destruct (run_refresh_cases evs st) as [He|[ev [t (Hin & Ha & _)]]]; [exact He|].
    exfalso. exact (Hno ev t Hin Ha).
  Qed.

  (* file and gate never diverge *)
  Lemma consistent_preserved evs st :
    stored st = Some (gate st) -> stored (run_refresh st evs) = Some (gate (run_refresh st evs)).
  Proof.
    intro Hc. destruct (run_refresh_cases evs st) as [He|[ev [t (_ & _ & He)]]]; rewrite He;
      [exact Hc | reflexivity].
  Qed.

  (* the boolean form of "announced" used by the judge *)
  Lemma announced_topo_iff ev t : announced_topo ev = Some t <-> announced ev t.
  Proof.
    unfold C13.announced_topo, C13.announced. split.
    - destruct (last_opt (ev_hashes ev)) as [h|]; [|discriminate].
      destruct (String.eqb h "") eqn:Hh; [discriminate|]. apply String.eqb_neq in Hh.
      destruct (hex_decode (trim_nl (ev_body ev))) as [ct|]; [|discriminate].
      destruct (String.eqb (H ct) h) eqn:Hc; [|discriminate]. apply String.eqb_eq in Hc.
      intro Hp. exists h, ct. auto.
    - intros (h & ct & Hl & Hne & Hd & Hc & Hp). rewrite Hl.
      apply String.eqb_neq in Hne. rewrite Hne, Hd.
      apply String.eqb_eq in Hc. rewrite Hc. exact Hp.
  Qed.
End Refresh.

(* ---- the judge ---- *)

Lemma opt_str_eqb_refl a : opt_str_eqb a a = true.
Proof. destruct a; cbn; [apply String.eqb_refl | reflexivity]. Qed.

Lemma peers_eqb_refl l : peers_eqb l l = true.
Proof.
  induction l as [|p l IH]; cbn; [reflexivity|].
  unfold peer_eqb. rewrite String.eqb_refl, opt_str_eqb_refl, IH. reflexivity.
Qed.

Lemma topo_eqb_refl t : topo_eqb t t = true.
Proof. unfold topo_eqb. rewrite peers_eqb_refl, Z.eqb_refl. reflexivity. Qed.

Lemma opt_topo_eqb_refl a : opt_topo_eqb a a = true.
Proof. destruct a; cbn; [apply topo_eqb_refl | reflexivity]. Qed.

Lemma bools_eqb_refl l : bools_eqb l l = true.
Proof. induction l as [|b l IH]; cbn; [reflexivity|]. rewrite eqb_reflx, IH. reflexivity. Qed.

Lemma pair_mem_In x l : In x l -> pair_mem x l = true.
Proof.
  intro Hin. unfold pair_mem. apply existsb_exists. exists x. split; [exact Hin|].
  unfold pair_eqb. rewrite !String.eqb_refl. reflexivity.
Qed.

Lemma subset_incl a b : incl a b -> subset a b = true.
Proof. intro Hi. unfold subset. apply forallb_forall. intros x Hx. apply pair_mem_In. apply Hi. exact Hx. Qed.

Lemma set_eqb_refl l : set_eqb l l = true.
Proof. unfold set_eqb. rewrite subset_incl by apply incl_refl. reflexivity. Qed.

Lemma view_eqb_refl v : view_eqb v v = true.
Proof.
  unfold view_eqb. rewrite opt_topo_eqb_refl, !bools_eqb_refl, set_eqb_refl. reflexivity.
Qed.

Lemma load_peers_incl ps : incl (fst (load_peers ps)) (peer_pairs (mk_topo ps 0%Z)).
Proof.
  unfold peer_pairs. cbn [t_peers]. induction ps as [|p r IH]; cbn; [apply incl_refl|].
  destruct (p_addr p) as [a|]; cbn.
  - destruct (load_peers r) as [l ok]. cbn in *. intros x [<-|Hx]; [left; reflexivity|right; apply IH; exact Hx].
  - intros x [].
Qed.

Lemma load_peers_subset t : subset (fst (load_peers (t_peers t))) (peer_pairs t) = true.
Proof. apply subset_incl. destruct t as [ps thr]. exact (load_peers_incl ps). Qed.

(* the judge accepts what the model does, on every state and event *)
Lemma step_ok_model H decrypt parse probes st ev :
  step_ok probes (announced_topo H decrypt parse ev)
          (view_of probes st) (view_of probes (fst (refresh H decrypt parse st ev))) = true.
Proof.
  unfold step_ok.
  destruct (refresh_cases H decrypt parse st ev) as [He|[t (Ha & _ & _ & He)]]; rewrite He.
  - rewrite view_eqb_refl. reflexivity.
  - apply (announced_topo_iff H decrypt parse) in Ha. rewrite Ha.
    apply orb_true_iff. right. unfold view_of, adopted.
    cbn [v_stored v_dial v_secured v_pstore stored gate pstore opt_topo_eqb].
    rewrite topo_eqb_refl.
    unfold intercept_peer_dial, intercept_secured.
    rewrite !bools_eqb_refl, !orb_true_r. cbn [andb].
    apply subset_incl. apply incl_appr.
    destruct t as [ps thr]. exact (load_peers_incl ps).
Qed.

(* and what it accepts is what the property states: nothing observable changed, or the event
   announced t and each of file, gate verdicts and peerstore is as before or that of t *)
Lemma step_ok_sound probes ann before after :
  step_ok probes ann before after = true ->
  view_eqb before after = true \/
  exists t, ann = Some t /\
            (opt_topo_eqb (v_stored before) (v_stored after) = true \/
             opt_topo_eqb (v_stored after) (Some t) = true) /\
            (bools_eqb (v_dial before) (v_dial after) = true \/
             bools_eqb (v_dial after) (map (allowed t) probes) = true) /\
            (bools_eqb (v_secured before) (v_secured after) = true \/
             bools_eqb (v_secured after) (map (allowed t) probes) = true) /\
            subset (v_pstore after) (v_pstore before ++ peer_pairs t) = true.
Proof.
  unfold step_ok. intro Hs. apply orb_true_iff in Hs as [Hs|Hs]; [left; exact Hs|].
  destruct ann as [t|]; [|discriminate]. right. exists t.
  repeat (apply andb_true_iff in Hs as [Hs ?]).
  repeat match goal with Hx : orb _ _ = true |- _ => apply orb_true_iff in Hx end. auto.
Qed.

(* ---- file and gate name the same members ---- *)

Lemma bools_eqb_eq a : forall b, bools_eqb a b = true -> a = b.
Proof.
  induction a as [|x a IH]; intros [|y b]; cbn; try discriminate; [reflexivity|].
  intro Hab. apply andb_true_iff in Hab as [Hxy Hr]. apply eqb_prop in Hxy. subst y.
  f_equal. apply IH. exact Hr.
Qed.

Lemma store_gate_agree_state probes st :
  stored st = None \/ stored st = Some (gate st) ->
  store_gate_agree probes (view_of probes st) = true.
Proof.
  unfold store_gate_agree, view_of. cbn [v_stored v_dial v_secured].
  intros [Hn|Hs]; [rewrite Hn; reflexivity|]. rewrite Hs.
  unfold intercept_peer_dial, intercept_secured. rewrite !bools_eqb_refl. reflexivity.
Qed.

Lemma store_gate_agree_adopted probes t : store_gate_agree probes (view_of probes (adopted t)) = true.
Proof. apply store_gate_agree_state. right. reflexivity. Qed.

Lemma store_gate_agree_refresh H decrypt parse probes st ev :
  store_gate_agree probes (view_of probes st) = true ->
  store_gate_agree probes (view_of probes (fst (refresh H decrypt parse st ev))) = true.
Proof.
  intro Hc. destruct (refresh_cases H decrypt parse st ev) as [He|[t (_ & _ & _ & He)]]; rewrite He;
    [exact Hc | apply store_gate_agree_adopted].
Qed.

Lemma store_gate_agree_run H decrypt parse probes evs : forall st,
  store_gate_agree probes (view_of probes st) = true ->
  store_gate_agree probes (view_of probes (run_refresh H decrypt parse st evs)) = true.
Proof.
  induction evs as [|ev r IH]; intros st Hc; [exact Hc|].
  cbn [C13.run_refresh fold_left].
  change (fold_left _ r ?x) with (run_refresh H decrypt parse x r).
  apply IH. apply store_gate_agree_refresh. exact Hc.
Qed.

Lemma step_spec_model H decrypt parse probes st ev :
  store_gate_agree probes (view_of probes st) = true ->
  step_spec probes (announced_topo H decrypt parse ev)
            (view_of probes st) (view_of probes (fst (refresh H decrypt parse st ev))) = true.
Proof.
  intro Hc. unfold step_spec. rewrite step_ok_model.
  rewrite (store_gate_agree_refresh H decrypt parse probes st ev Hc). reflexivity.
Qed.

Lemma store_gate_agree_sound probes v t :
  store_gate_agree probes v = true -> v_stored v = Some t ->
  v_dial v = map (allowed t) probes /\ v_secured v = map (allowed t) probes.
Proof.
  unfold store_gate_agree. intros Ha Hs. rewrite Hs in Ha.
  apply andb_true_iff in Ha as [Hd Hsec]. split; apply bools_eqb_eq; assumption.
Qed.

Lemma step_spec_sound probes ann before after :
  step_spec probes ann before after = true ->
  step_ok probes ann before after = true /\
  (forall t, v_stored after = Some t ->
             v_dial after = map (allowed t) probes /\ v_secured after = map (allowed t) probes).
Proof.
  unfold step_spec. intro Hs. apply andb_true_iff in Hs as [Hok Hag]. split; [exact Hok|].
  intros t Ht. exact (store_gate_agree_sound probes after t Hag Ht).
Qed.

(* ---- sender attribution ---- *)

Lemma sender_is_remote remote w :
  d_from (deliver remote w) = remote /\
  d_type (deliver remote w) = w_type w /\ d_session (deliver remote w) = w_session w /\
  d_payload (deliver remote w) = w_payload w.
Proof. repeat split. Qed.
