(* C15 - proofs about the OP_RETURN payload and the nonce preimage (axiom-free):
   payload_roundtrip   : the canonical payload "0x<40 hex digits>_<decimal domain>" parses back to
                         exactly (domain, recipient)
   nonce_preimage_inj  : the string hashed for the nonce, "<decimal height>-<hash>", determines
                         (height, hash) *)
From Coq Require Import List ZArith NArith Bool String Ascii Lia.
From SygmaV Require Import Lib.Hex Lib.C15_Sha256 Model.C15.
Import ListNotations.
Local Open Scope N_scope.

(* ---------------------------------------------------------------------------------------- *)
(* canonical payload "0x<40 hex digits>_<decimal domain>" parses back to (domain, recipient) *)

Definition hexdig (n : N) : N := if n <? 10 then 48 + n else 87 + n.
Definition hexenc (l : list N) : list N := flat_map (fun b => [hexdig (b / 16); hexdig (b mod 16)]) l.
Definition canonical_payload (rcpt : list N) (dst : N) : list N :=
  [48; 120] ++ hexenc rcpt ++ [us] ++ dec_string dst.

Lemma in_range n k : n < N.of_nat k -> In n (map N.of_nat (seq 0 k)).
Proof.
  intros Hn. apply in_map_iff. exists (N.to_nat n). split; [apply N2Nat.id|].
  apply in_seq. lia.
Qed.

Lemma forall_range (P : N -> bool) k :
  forallb P (map N.of_nat (seq 0 k)) = true -> forall n, n < N.of_nat k -> P n = true.
Proof. intros Hf n Hn. rewrite forallb_forall in Hf. apply Hf. apply in_range. exact Hn. Qed.

Lemma hexdig_ok n : n < 16 ->
  hexval_strict (hexdig n) = Some n /\ N.eqb (hexdig n) us = false.
Proof.
  intros Hn.
  pose proof (forall_range (fun n => match hexval_strict (hexdig n) with Some m => N.eqb m n | None => false end
                                     && negb (N.eqb (hexdig n) us)) 16 eq_refl n Hn) as H.
  cbv beta in H. apply andb_prop in H. destruct H as [H1 H2].
  destruct (hexval_strict (hexdig n)) as [m|]; [|discriminate].
  apply N.eqb_eq in H1. subst m. split; [reflexivity|]. apply negb_true_iff in H2. exact H2.
Qed.

Lemma hex_decode_hexenc l : Forall (fun b => b < 256) l -> hex_decode (hexenc l) = (l, true).
Proof.
  induction 1 as [|b l Hb Hl IH]; [reflexivity|].
  cbn [hexenc flat_map app]. fold (hexenc l). cbn [hex_decode].
  assert (H1 : b / 16 < 16) by (apply N.div_lt_upper_bound; lia).
  assert (H2 : b mod 16 < 16) by (apply N.mod_lt; lia).
  rewrite (proj1 (hexdig_ok _ H1)), (proj1 (hexdig_ok _ H2)), IH.
  f_equal. f_equal. pose proof (N.div_mod b 16). lia.
Qed.

Lemma hexenc_length l : List.length (hexenc l) = (2 * List.length l)%nat.
Proof. induction l as [|b l IH]; [reflexivity|]. cbn [hexenc flat_map app List.length]. fold (hexenc l). lia. Qed.

Lemma hexenc_no_us l : Forall (fun b => b < 256) l -> Forall (fun c => N.eqb c us = false) (hexenc l).
Proof.
  induction 1 as [|b l Hb Hl IH]; [constructor|].
  cbn [hexenc flat_map app]. fold (hexenc l).
  assert (H1 : b / 16 < 16) by (apply N.div_lt_upper_bound; lia).
  assert (H2 : b mod 16 < 16) by (apply N.mod_lt; lia).
  constructor; [exact (proj2 (hexdig_ok _ H1))|]. constructor; [exact (proj2 (hexdig_ok _ H2))|exact IH].
Qed.

Lemma split_us_no_us : forall B cur, Forall (fun c => N.eqb c us = false) B ->
  split_us cur B = [rev cur ++ B].
Proof.
  induction B as [|c B IH]; intros cur HB.
  - cbn [split_us]. rewrite app_nil_r. reflexivity.
  - inversion HB as [|? ? Hc HB']; subst. cbn [split_us]. rewrite Hc. rewrite IH by exact HB'.
    cbn [rev]. rewrite <- app_assoc. reflexivity.
Qed.

Lemma split_us_at : forall A cur rest, Forall (fun c => N.eqb c us = false) A ->
  split_us cur (A ++ us :: rest) = (rev cur ++ A) :: split_us [] rest.
Proof.
  induction A as [|c A IH]; intros cur rest HA.
  - cbn [app split_us]. rewrite N.eqb_refl, app_nil_r. reflexivity.
  - inversion HA as [|? ? Hc HA']; subst. cbn [app split_us]. rewrite Hc. rewrite IH by exact HA'.
    cbn [rev]. rewrite <- app_assoc. reflexivity.
Qed.

Lemma dec_u8_ok d : d < 256 ->
  parse_u8 (dec_string d) = Some d /\ forallb (fun c => negb (N.eqb c us)) (dec_string d) = true.
Proof.
  intros Hd.
  pose proof (forall_range (fun d => match parse_u8 (dec_string d) with Some m => N.eqb m d | None => false end
                                     && forallb (fun c => negb (N.eqb c us)) (dec_string d)) 256 eq_refl d Hd) as H.
  cbv beta in H. apply andb_prop in H. destruct H as [H1 H2].
  destruct (parse_u8 (dec_string d)) as [m|]; [|discriminate].
  apply N.eqb_eq in H1. subst m. split; [reflexivity|exact H2].
Qed.

Theorem payload_roundtrip rcpt dst :
  List.length rcpt = 20%nat -> Forall (fun b => b < 256) rcpt -> dst < 256 ->
  parse_payload (canonical_payload rcpt dst) = Some (dst, rcpt).
Proof.
  intros Hl Hb Hd. unfold parse_payload, canonical_payload.
  destruct (dec_u8_ok dst Hd) as [Hp Hn].
  assert (HA : Forall (fun c => N.eqb c us = false) ([48; 120] ++ hexenc rcpt)).
  { apply Forall_app. split; [repeat constructor|apply hexenc_no_us; exact Hb]. }
  assert (HB : Forall (fun c => N.eqb c us = false) (dec_string dst)).
  { apply Forall_forall. intros c Hc. rewrite forallb_forall in Hn. apply negb_true_iff. apply Hn. exact Hc. }
  replace ([48; 120] ++ hexenc rcpt ++ [us] ++ dec_string dst)
    with (([48; 120] ++ hexenc rcpt) ++ us :: dec_string dst) by (rewrite <- app_assoc; reflexivity).
  rewrite split_us_at by exact HA. rewrite split_us_no_us by exact HB. cbn [rev app].
  rewrite Hp. f_equal. f_equal.
  unfold hex_to_address, from_hex. cbn [N.eqb Pos.eqb orb].
  rewrite hexenc_length, Hl. cbn [Nat.odd Nat.mul Nat.add Nat.even negb].
  rewrite hex_decode_hexenc by exact Hb. cbn [fst].
  unfold bytes_to_address. rewrite Hl. reflexivity.
Qed.

(* ---------------------------------------------------------------------------------------- *)
(* the string hashed for the nonce determines (height, hash): "<decimal height>-<hash>" *)

Definition is_digit (c : N) : bool := (48 <=? c) && (c <=? 57).
Definition dval (l : list N) : N := fold_left (fun a c => a * 10 + (c - 48)) l 0.

Lemma dval_snoc l c : dval (l ++ [c]) = dval l * 10 + (c - 48).
Proof. unfold dval. rewrite fold_left_app. reflexivity. Qed.

Lemma is_digit_48 k : k < 10 -> is_digit (48 + k) = true.
Proof.
  intros Hk. unfold is_digit. apply andb_true_intro. split; apply N.leb_le; lia.
Qed.

Lemma dec_digits_spec : forall fuel n acc, n < 2 ^ N.of_nat fuel -> (0 < fuel)%nat ->
  exists ds, dec_digits fuel n acc = ds ++ acc /\ forallb is_digit ds = true /\ dval ds = n.
Proof.
  induction fuel as [|f IH]; intros n acc Hn Hf; [lia|].
  cbn [dec_digits]. destruct (n <? 10) eqn:E.
  - apply N.ltb_lt in E. rewrite (N.mod_small n 10) by exact E.
    exists [48 + n]. split; [reflexivity|]. split.
    + cbn [forallb]. rewrite is_digit_48 by exact E. reflexivity.
    + unfold dval. cbn [fold_left]. lia.
  - apply N.ltb_ge in E.
    assert (Hm : n mod 10 < 10) by (apply N.mod_lt; lia).
    destruct f as [|f'].
    + change (N.of_nat 1) with 1 in Hn. rewrite N.pow_1_r in Hn. lia.
    + destruct (IH (n / 10) ((48 + n mod 10) :: acc)) as (ds & E1 & E2 & E3).
      * rewrite Nat2N.inj_succ, N.pow_succ_r' in Hn.
        apply N.div_lt_upper_bound; [lia|]. lia.
      * lia.
      * exists (ds ++ [48 + n mod 10]). split; [rewrite E1, <- app_assoc; reflexivity|]. split.
        -- rewrite forallb_app, E2. cbn [forallb andb]. rewrite is_digit_48 by exact Hm. reflexivity.
        -- rewrite dval_snoc, E3. rewrite (N.add_comm 48 (n mod 10)), N.add_sub.
           rewrite (N.mul_comm (n / 10) 10). symmetry. apply N.div_mod. lia.
Qed.

Lemma dec_string_spec n : forallb is_digit (dec_string n) = true /\ dval (dec_string n) = n.
Proof.
  unfold dec_string.
  destruct (dec_digits_spec (S (N.to_nat (N.log2 n))) n []) as (ds & E1 & E2 & E3).
  - rewrite Nat2N.inj_succ, N2Nat.id.
    destruct (N.eq_dec n 0) as [->|Hn]; [reflexivity|]. apply N.log2_spec. lia.
  - lia.
  - rewrite E1, app_nil_r. split; assumption.
Qed.

Lemma dec_string_inj n m : dec_string n = dec_string m -> n = m.
Proof.
  intros E. rewrite <- (proj2 (dec_string_spec n)), <- (proj2 (dec_string_spec m)), E. reflexivity.
Qed.

(* two strings of digits followed by "-" and anything: equal wholes have equal parts *)
Lemma split_at_dash : forall a b x y,
  forallb is_digit a = true -> forallb is_digit b = true ->
  a ++ 45 :: x = b ++ 45 :: y -> a = b /\ x = y.
Proof.
  induction a as [|c a IH]; intros [|d b] x y Ha Hb E; cbn [app] in E.
  - inversion E. split; reflexivity.
  - inversion E as [[E1 E2]]. subst d. cbn [forallb is_digit] in Hb. discriminate.
  - inversion E as [[E1 E2]]. subst c. cbn [forallb is_digit] in Ha. discriminate.
  - inversion E as [[E1 E2]]. subst d. cbn [forallb] in Ha, Hb.
    apply andb_prop in Ha. apply andb_prop in Hb.
    destruct (IH b x y (proj2 Ha) (proj2 Hb) E2) as [-> ->]. split; reflexivity.
Qed.

Lemma bytes_of_string_inj : forall s t, bytes_of_string s = bytes_of_string t -> s = t.
Proof.
  induction s as [|a s IH]; intros [|b t] E; cbn [bytes_of_string] in E; try discriminate; [reflexivity|].
  inversion E as [[E1 E2]]. rewrite (IH t E2).
  rewrite <- (ascii_N_embedding a), <- (ascii_N_embedding b), E1. reflexivity.
Qed.

Theorem nonce_preimage_inj h t h' t' :
  nonce_preimage h t = nonce_preimage h' t' -> h = h' /\ t = t'.
Proof.
  unfold nonce_preimage. intros E. cbn [app] in E.
  destruct (split_at_dash _ _ _ _ (proj1 (dec_string_spec h)) (proj1 (dec_string_spec h')) E) as [E1 E2].
  split; [apply dec_string_inj; exact E1|apply bytes_of_string_inj; exact E2].
Qed.
