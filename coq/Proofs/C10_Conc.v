(* C10 - proofs about merged ledgers of overlapping sessions (contention), retried attempts and the
   lock-held-at-every-access judge of sequences. *)
From Coq Require Import List Arith Bool Lia.
Import ListNotations.
From SygmaV Require Import Model.C10 Proofs.C10.

(* ------------------------------------------------------------------------------------------ *)
(* what [locked_access] means *)
Lemma locked_access_sound : forall l h l1 e l2,
  locked_access h l = true -> l = l1 ++ e :: l2 -> (e = Get \/ e = Store) -> held_after h l1 = true.
Proof.
  induction l as [|x l IH]; intros h l1 e l2 HG He Hacc.
  - destruct l1; discriminate.
  - destruct l1 as [|y l1].
    + cbn in He. injection He as -> ->. cbn.
      destruct Hacc as [-> | ->]; cbn in HG; now apply andb_prop in HG.
    + cbn in He. injection He as <- He. cbn in HG.
      destruct x; cbn.
      * eapply IH; eauto.
      * eapply IH; eauto.
      * apply andb_prop in HG. destruct HG as [_ HG]. eapply IH; eauto.
      * apply andb_prop in HG. destruct HG as [_ HG]. eapply IH; eauto.
      * eapply IH; eauto.
      * eapply IH; eauto.
Qed.

Lemma sequence_ok_sound : forall l, sequence_ok l = true ->
  mrun false l = MOk false /\ count is_L l = count is_U l /\
  (forall l1 e l2, l = l1 ++ e :: l2 -> (e = Get \/ e = Store) -> held_after false l1 = true).
Proof.
  intros l H. unfold sequence_ok in H.
  apply andb_prop in H. destruct H as [H H3]. apply andb_prop in H. destruct H as [H1 H2].
  repeat split; [| now apply Nat.eqb_eq |].
  - destruct (mrun false l) as [[|]| |]; try discriminate. reflexivity.
  - intros l1 e l2 He Hacc. eapply locked_access_sound; eauto.
Qed.

(* ------------------------------------------------------------------------------------------ *)
(* retried attempts: a second Run on the same signing object reads nothing and locks nothing *)
Lemma rerun_events : forall k, feasible k Rerun = true ->
  session_events New k Rerun = [L; Get; U; RunBegin; RunEnd; RunBegin; RunEnd].
Proof. intros k H. destruct k; try discriminate H; reflexivity. Qed.

Lemma rerun_safe : forall k, feasible k Rerun = true ->
  session_ok k (session_events New k Rerun) = true /\
  locked_access false (session_events New k Rerun) = true /\
  count (fun e => match e with Get => true | _ => false end) (session_events New k Rerun) = 1.
Proof. intros k H. destruct k; try discriminate H; vm_compute; repeat split. Qed.

(* only the retryable kinds are ever run again *)
Lemma rerun_only_signing : forall k, feasible k Rerun = true -> is_signing k = true.
Proof. intros k H. destruct k; try discriminate H; reflexivity. Qed.

(* ------------------------------------------------------------------------------------------ *)
(* merged ledgers *)
Lemma owns_owned_by : forall st t, owns st t = owned_by (owner st) t.
Proof. intros st t. unfold owns, owned_by. destruct (owner st); reflexivity. Qed.

Lemma all_done_free : forall st, CInv st -> (forall t, rest st t = []) -> owner st = None.
Proof.
  intros st HI Hd. destruct (owner st) as [o|] eqn:Ho; [|reflexivity].
  pose proof (cB st HI o) as Hb. rewrite (Hd o) in Hb.
  unfold owns in Hb. rewrite Ho, Nat.eqb_refl in Hb. discriminate.
Qed.

(* the ledger of any run of well-bracketed threads that has come to its end passes [tguard] *)
Lemma ctrace_tguard : forall sched st, CInv st ->
  (forall t, rest (cexec sched st) t = []) -> tguard (owner st) (ctrace sched st) = true.
Proof.
  induction sched as [|t r IH]; intros st HI Hd.
  - cbn in *. now rewrite (all_done_free st HI Hd).
  - cbn [cexec fold_left] in Hd. fold (cexec r (cstep st t)) in Hd.
    pose proof (cstep_inv st t HI) as HI'.
    pose proof (IH (cstep st t) HI' Hd) as Hrec.
    cbn [ctrace]. unfold cstep_ev.
    pose proof (cB st HI t) as Hb.
    destruct (rest st t) as [|e q] eqn:Hr.
    { assert (Hs : cstep st t = st) by (unfold cstep; now rewrite Hr).
      rewrite Hs in Hrec |- *. exact Hrec. }
    destruct e.
    + (* L *)
      destruct (owner st) as [o|] eqn:Ho.
      * assert (Hs : cstep st t = st) by (unfold cstep; now rewrite Hr, Ho).
        rewrite Hs in Hrec |- *. rewrite Ho in Hrec. exact Hrec.
      * cbn [tguard].
        assert (Hs : owner (cstep st t) = Some t) by (unfold cstep; now rewrite Hr, Ho).
        rewrite Hs in Hrec. exact Hrec.
    + (* U *)
      cbn in Hb. apply andb_prop in Hb. destruct Hb as [Hown _].
      rewrite owns_owned_by in Hown.
      cbn [tguard]. rewrite Hown. cbn.
      assert (Hs : owner (cstep st t) = None).
      { unfold cstep. rewrite Hr. destruct (owner st); reflexivity. }
      rewrite Hs in Hrec. exact Hrec.
    + (* Get *)
      cbn in Hb. apply andb_prop in Hb. destruct Hb as [Hown _].
      rewrite owns_owned_by in Hown.
      cbn [tguard]. rewrite Hown. cbn.
      assert (Hs : owner (cstep st t) = owner st) by (unfold cstep; now rewrite Hr).
      rewrite Hs in Hrec. exact Hrec.
    + (* Store *)
      cbn in Hb. apply andb_prop in Hb. destruct Hb as [Hown _].
      rewrite owns_owned_by in Hown.
      cbn [tguard]. rewrite Hown. cbn.
      assert (Hs : owner (cstep st t) = owner st) by (unfold cstep; now rewrite Hr).
      rewrite Hs in Hrec. exact Hrec.
    + cbn [tguard].
      assert (Hs : owner (cstep st t) = owner st) by (unfold cstep; now rewrite Hr).
      rewrite Hs in Hrec. exact Hrec.
    + cbn [tguard].
      assert (Hs : owner (cstep st t) = owner st) by (unfold cstep; now rewrite Hr).
      rewrite Hs in Hrec. exact Hrec.
Qed.

Definition some_nat (o : option nat) : nat := match o with Some _ => 1 | None => 0 end.

(* alternation implies balance *)
Lemma tguard_balanced : forall tr o, tguard o tr = true ->
  count is_L (map snd tr) + some_nat o = count is_U (map snd tr).
Proof.
  induction tr as [|[t e] tr IH]; intros o H; cbn in H.
  - destruct o; [discriminate | reflexivity].
  - destruct e; cbn [map snd].
    + destruct o; [discriminate|]. apply IH in H. unfold count in *. cbn in *. lia.
    + apply andb_prop in H. destruct H as [Ho H]. apply IH in H.
      destruct o; [|discriminate]. unfold count in *. cbn in *. lia.
    + apply andb_prop in H. destruct H as [_ H]. apply IH in H. unfold count in *. cbn in *. lia.
    + apply andb_prop in H. destruct H as [_ H]. apply IH in H. unfold count in *. cbn in *. lia.
    + apply IH in H. unfold count in *. cbn in *. lia.
    + apply IH in H. unfold count in *. cbn in *. lia.
Qed.

Lemma ctrace_merged_ok : forall sched st, CInv st -> owner st = None ->
  (forall t, rest (cexec sched st) t = []) -> merged_ok (ctrace sched st) = true.
Proof.
  intros sched st HI Ho Hd. unfold merged_ok.
  pose proof (ctrace_tguard sched st HI Hd) as HG. rewrite Ho in HG. rewrite HG.
  apply tguard_balanced in HG. cbn in HG. rewrite Nat.add_0_r in HG. rewrite HG.
  now rewrite Nat.eqb_refl.
Qed.

(* the ledger is faithful: what a thread has done so far + what it still has to do = its program *)
Lemma cstep_rest_other : forall st t u, u <> t -> rest (cstep st t) u = rest st u.
Proof.
  intros st t u Hne. unfold cstep. destruct (rest st t) as [|e q]; [reflexivity|].
  destruct e; try (destruct (owner st)); cbn; try reflexivity; now apply updf_other.
Qed.

Lemma ctrace_proj : forall sched st u,
  proj u (ctrace sched st) ++ rest (cexec sched st) u = rest st u.
Proof.
  induction sched as [|t r IH]; intros st u; [reflexivity|].
  cbn [cexec fold_left]. fold (cexec r (cstep st t)).
  cbn [ctrace]. unfold cstep_ev.
  destruct (Nat.eq_dec u t) as [->|Hne].
  - destruct (rest st t) as [|e q] eqn:Hr.
    + rewrite IH. unfold cstep. now rewrite Hr.
    + assert (Hstep : forall e', e = e' -> e' <> L ->
               proj t ((t, e) :: ctrace r (cstep st t)) ++ rest (cexec r (cstep st t)) t = e :: q).
      { intros e' -> Hn. unfold proj. cbn. rewrite Nat.eqb_refl. cbn. f_equal.
        fold (proj t (ctrace r (cstep st t))). rewrite IH. unfold cstep. rewrite Hr.
        destruct e'; try contradiction; try (destruct (owner st)); cbn; now rewrite updf_same. }
      destruct e.
      * destruct (owner st) as [o|] eqn:Ho.
        -- rewrite IH. unfold cstep. now rewrite Hr, Ho.
        -- unfold proj. cbn. rewrite Nat.eqb_refl. cbn. f_equal.
           fold (proj t (ctrace r (cstep st t))). rewrite IH. unfold cstep. rewrite Hr, Ho. cbn.
           now rewrite updf_same.
      * apply (Hstep U); [reflexivity | discriminate].
      * apply (Hstep Get); [reflexivity | discriminate].
      * apply (Hstep Store); [reflexivity | discriminate].
      * apply (Hstep RunBegin); [reflexivity | discriminate].
      * apply (Hstep RunEnd); [reflexivity | discriminate].
  - assert (Hskip : forall e, proj u ((t, e) :: ctrace r (cstep st t)) = proj u (ctrace r (cstep st t))).
    { intro e. unfold proj. cbn. destruct (Nat.eqb_spec t u) as [Heq|_]; [subst; contradiction | reflexivity]. }
    destruct (rest st t) as [|e q] eqn:Hr.
    + rewrite IH. now apply cstep_rest_other.
    + destruct e; try (destruct (owner st)); try rewrite Hskip; rewrite IH; now apply cstep_rest_other.
Qed.

Lemma ctrace_proj_done : forall sched st u, rest (cexec sched st) u = [] ->
  proj u (ctrace sched st) = rest st u.
Proof. intros sched st u H. rewrite <- (ctrace_proj sched st u), H. now rewrite app_nil_r. Qed.

(* threads = sessions *)
Lemma plan_of_feasible : forall ss t, all_feasible ss = true -> all_feasible (plan_of ss t) = true.
Proof.
  intros ss t H. unfold plan_of. destruct (nth_error ss t) as [[k o]|] eqn:Hn; [|reflexivity].
  cbn. rewrite andb_true_r. apply nth_error_In in Hn.
  unfold all_feasible in H. rewrite forallb_forall in H. exact (H _ Hn).
Qed.

Lemma plan_of_events : forall ss t k o, nth_error ss t = Some (k, o) ->
  sessions_events New (plan_of ss t) = session_events New k o.
Proof. intros ss t k o H. unfold plan_of. rewrite H. cbn. now rewrite app_nil_r. Qed.

Lemma threads_guarded_from : forall ss i tr pre,
  (forall j k o, nth_error (pre ++ ss) j = Some (k, o) -> length pre <= j ->
     proj j tr = session_events New k o /\ feasible k o = true) ->
  i = length pre -> threads_guarded i ss tr = true.
Proof.
  induction ss as [|[k o] ss IH]; intros i tr pre H Hi; [reflexivity|].
  cbn [threads_guarded fst]. subst i.
  destruct (H (length pre) k o) as [Hp Hf].
  { rewrite nth_error_app2 by lia. now rewrite Nat.sub_diag. }
  { lia. }
  rewrite Hp, (session_guarded k o Hf). cbn.
  apply (IH (S (length pre)) tr (pre ++ [(k, o)])).
  - intros j k' o' Hn Hl. rewrite <- app_assoc in Hn. cbn in Hn. apply (H j k' o' Hn).
    rewrite app_length in Hl. cbn in Hl. lia.
  - rewrite app_length. cbn. lia.
Qed.

(* sessions that overlap on one store, under ANY schedule that lets all of them finish: the merged
   ledger passes the judge *)
Lemma contention_ok_model : forall (ss : list (kind * outcome)) (sched : list nat),
  all_feasible ss = true ->
  let st0 := cinit (fun t => sessions_events New (plan_of ss t)) in
  (forall t, rest (cexec sched st0) t = []) ->
  contention_ok ss (ctrace sched st0) = true /\
  (forall t k o, nth_error ss t = Some (k, o) -> proj t (ctrace sched st0) = session_events New k o).
Proof.
  intros ss sched Hf st0 Hd.
  assert (HI : CInv st0).
  { apply cinit_inv. intro t. apply sequence_bracketed. now apply plan_of_feasible. }
  assert (Hp : forall t k o, nth_error ss t = Some (k, o) -> proj t (ctrace sched st0) = session_events New k o).
  { intros t k o Hn. rewrite (ctrace_proj_done sched st0 t (Hd t)). cbn. now apply plan_of_events. }
  split; [|exact Hp].
  unfold contention_ok. rewrite (ctrace_merged_ok sched st0 HI eq_refl Hd). cbn.
  apply (threads_guarded_from ss 0 _ []); [|reflexivity].
  intros j k o Hn _. cbn in Hn. split; [now apply Hp|].
  apply nth_error_In in Hn. unfold all_feasible in Hf. rewrite forallb_forall in Hf. exact (Hf _ Hn).
Qed.

(* any plan, any schedule (the threads of C10_serialised) *)
Lemma merged_ok_any_plan : forall (plan : nat -> list (kind * outcome)) (sched : list nat),
  (forall t, all_feasible (plan t) = true) ->
  let st0 := cinit (fun t => sessions_events New (plan t)) in
  (forall t, rest (cexec sched st0) t = []) ->
  merged_ok (ctrace sched st0) = true /\
  (forall t, proj t (ctrace sched st0) = sessions_events New (plan t)).
Proof.
  intros plan sched Hf st0 Hd.
  assert (HI : CInv st0).
  { apply cinit_inv. intro t. now apply sequence_bracketed. }
  split; [now apply ctrace_merged_ok|].
  intro t. now rewrite (ctrace_proj_done sched st0 t (Hd t)).
Qed.

(* what the merged judge means *)
Lemma tguard_owner_access : forall tr o l1 t e l2, tguard o tr = true ->
  tr = l1 ++ (t, e) :: l2 -> (e = Get \/ e = Store \/ e = U) -> owner_after o l1 = Some t.
Proof.
  induction tr as [|[u x] tr IH]; intros o l1 t e l2 HG He Hacc.
  - destruct l1; discriminate.
  - destruct l1 as [|[u' y] l1].
    + cbn in He. injection He as -> -> ->. cbn.
      assert (Ho : owned_by o t = true).
      { destruct Hacc as [-> | [-> | ->]]; cbn in HG; now apply andb_prop in HG. }
      unfold owned_by in Ho. destruct o as [w|]; [|discriminate]. apply Nat.eqb_eq in Ho. now subst.
    + cbn in He. injection He as <- <- He. cbn in HG.
      destruct x; cbn.
      * destruct o; [discriminate|]. eapply IH; eauto.
      * apply andb_prop in HG. destruct HG as [_ HG]. eapply IH; eauto.
      * apply andb_prop in HG. destruct HG as [_ HG]. eapply IH; eauto.
      * apply andb_prop in HG. destruct HG as [_ HG]. eapply IH; eauto.
      * eapply IH; eauto.
      * eapply IH; eauto.
Qed.

Lemma tguard_lock_when_free : forall tr o l1 t l2, tguard o tr = true ->
  tr = l1 ++ (t, L) :: l2 -> owner_after o l1 = None.
Proof.
  induction tr as [|[u x] tr IH]; intros o l1 t l2 HG He.
  - destruct l1; discriminate.
  - destruct l1 as [|[u' y] l1].
    + cbn in He. injection He as -> ->. cbn. cbn in HG. destruct o; [discriminate | reflexivity].
    + cbn in He. injection He as <- <- He. cbn in HG.
      destruct x; cbn.
      * destruct o; [discriminate|]. eapply IH; eauto.
      * apply andb_prop in HG. destruct HG as [_ HG]. eapply IH; eauto.
      * apply andb_prop in HG. destruct HG as [_ HG]. eapply IH; eauto.
      * apply andb_prop in HG. destruct HG as [_ HG]. eapply IH; eauto.
      * eapply IH; eauto.
      * eapply IH; eauto.
Qed.

Lemma tguard_free_at_end : forall tr o, tguard o tr = true -> owner_after o tr = None.
Proof.
  induction tr as [|[u x] tr IH]; intros o HG; cbn in *.
  - destruct o; [discriminate | reflexivity].
  - destruct x.
    + destruct o; [discriminate|]. now apply IH.
    + apply andb_prop in HG. destruct HG as [_ HG]. now apply IH.
    + apply andb_prop in HG. destruct HG as [_ HG]. now apply IH.
    + apply andb_prop in HG. destruct HG as [_ HG]. now apply IH.
    + now apply IH.
    + now apply IH.
Qed.

Lemma merged_ok_sound : forall tr, merged_ok tr = true ->
  owner_after None tr = None /\
  count is_L (map snd tr) = count is_U (map snd tr) /\
  (forall l1 t l2, tr = l1 ++ (t, L) :: l2 -> owner_after None l1 = None) /\
  (forall l1 t e l2, tr = l1 ++ (t, e) :: l2 -> (e = Get \/ e = Store \/ e = U) ->
     owner_after None l1 = Some t).
Proof.
  intros tr H. unfold merged_ok in H. apply andb_prop in H. destruct H as [HG HB].
  repeat split.
  - now apply tguard_free_at_end.
  - now apply Nat.eqb_eq.
  - intros l1 t l2 He. eapply tguard_lock_when_free; eauto.
  - intros l1 t e l2 He Hacc. eapply tguard_owner_access; eauto.
Qed.
