(* C08 - proofs about who may coordinate a session (ValidCoordinators + the static election). *)
From Coq Require Import List ZArith Bool Lia.
Import ListNotations.
From SygmaV Require Import Model.C08.
Local Open Scope Z_scope.

Lemma memZ_In : forall x l, memZ x l = true <-> In x l.
Proof.
  intros x l. unfold memZ. rewrite existsb_exists. split.
  - intros [y [Hy He]]. apply Z.eqb_eq in He. subst y. exact Hy.
  - intro H. exists x. split; [exact H | apply Z.eqb_refl].
Qed.

Lemma subsetZ_In : forall a b, subsetZ a b = true <-> (forall x, In x a -> In x b).
Proof.
  intros a b. unfold subsetZ. rewrite forallb_forall. split.
  - intros H x Hx. apply memZ_In. apply H. exact Hx.
  - intros H x Hx. apply memZ_In. apply H. exact Hx.
Qed.

Lemma subsetZ_refl : forall a, subsetZ a a = true.
Proof. intro a. apply subsetZ_In. intros x Hx. exact Hx. Qed.

Lemma filter_mem_In : forall kp st x, In x (filter (fun p => memZ p st) kp) <-> In x kp /\ In x st.
Proof.
  intros kp st x. rewrite filter_In. split.
  - intros [H1 H2]. split; [exact H1 | apply memZ_In; exact H2].
  - intros [H1 H2]. split; [exact H1 | apply memZ_In; exact H2].
Qed.

Lemma implb_nil_refl : forall (l : list Z), implb (negb (is_nil l)) (negb (is_nil l)) = true.
Proof. intro l. destruct l; reflexivity. Qed.

(* the judge accepts what the model names *)
Lemma candidates_ok_model : forall k key_peers store,
  candidates_ok k key_peers store (coordinator_candidates k key_peers store) = true.
Proof.
  intros k kp st. destruct k; cbn [candidates_ok coordinator_candidates].
  - rewrite subsetZ_refl, implb_nil_refl. reflexivity.
  - rewrite subsetZ_refl, implb_nil_refl. reflexivity.
  - rewrite implb_nil_refl.
    assert (H1 : subsetZ (filter (fun p => memZ p st) kp) kp = true).
    { apply subsetZ_In. intros x Hx. apply filter_mem_In in Hx. exact (proj1 Hx). }
    assert (H2 : subsetZ (filter (fun p => memZ p st) kp) st = true).
    { apply subsetZ_In. intros x Hx. apply filter_mem_In in Hx. exact (proj2 Hx). }
    rewrite H1, H2. reflexivity.
Qed.

(* what the judge means, per process kind *)
Lemma candidates_ok_sound : forall k key_peers store impl,
  candidates_ok k key_peers store impl = true ->
  (forall c, In c impl ->
     match k with
     | PKeygen => In c store
     | PSigning => In c key_peers
     | PResharing => In c key_peers /\ In c store
     end)
  /\ ((match k with
       | PKeygen => exists p, In p store
       | PSigning => exists p, In p key_peers
       | PResharing => exists p, In p key_peers /\ In p store
       end) -> impl <> []).
Proof.
  intros k kp st impl H. destruct k; cbn [candidates_ok] in H.
  - apply andb_prop in H. destruct H as [Hs Hn]. split.
    + intros c Hc. exact (proj1 (subsetZ_In impl st) Hs c Hc).
    + intros [p Hp] He. subst impl. destruct st; [destruct Hp | discriminate Hn].
  - apply andb_prop in H. destruct H as [Hs Hn]. split.
    + intros c Hc. exact (proj1 (subsetZ_In impl kp) Hs c Hc).
    + intros [p Hp] He. subst impl. destruct kp; [destruct Hp | discriminate Hn].
  - apply andb_prop in H. destruct H as [H Hn]. apply andb_prop in H. destruct H as [Hk Hs]. split.
    + intros c Hc. split; [exact (proj1 (subsetZ_In impl kp) Hk c Hc) | exact (proj1 (subsetZ_In impl st) Hs c Hc)].
    + intros [p [Hp1 Hp2]] He. subst impl.
      assert (Hin : In p (filter (fun q => memZ q st) kp)) by (apply filter_mem_In; split; assumption).
      destruct (filter (fun q => memZ q st) kp); [destruct Hin | discriminate Hn].
Qed.

Lemma elect_In : forall rank l c, elect rank l = Some c -> In c l.
Proof.
  intros rank l. induction l as [|x r IH]; intros c H; cbn [elect] in H; [discriminate|].
  destruct (elect rank r) as [d|] eqn:Hd.
  - destruct (rank x <=? rank d).
    + injection H as <-. left. reflexivity.
    + injection H as <-. right. apply IH. reflexivity.
  - injection H as <-. left. reflexivity.
Qed.

Lemma elect_some : forall rank l, l <> [] -> exists c, elect rank l = Some c.
Proof.
  intros rank l Hl. destruct l as [|x r]; [contradiction|]. cbn [elect].
  destruct (elect rank r) as [d|].
  - destruct (rank x <=? rank d); eexists; reflexivity.
  - eexists; reflexivity.
Qed.

(* whatever the session id (rank): the relayer elected among candidates the judge accepts holds a share
   of the old key and takes part in the refresh, and somebody is elected whenever such a relayer exists *)
Lemma refresh_coordinator_ok : forall (rank : Z -> Z) key_peers store impl,
  candidates_ok PResharing key_peers store impl = true ->
  (forall c, elect rank impl = Some c -> In c key_peers /\ In c store)
  /\ ((exists p, In p key_peers /\ In p store) -> exists c, elect rank impl = Some c).
Proof.
  intros rank kp st impl H. destruct (candidates_ok_sound PResharing kp st impl H) as [Hall Hne]. split.
  - intros c Hc. apply Hall. exact (elect_In rank impl c Hc).
  - intro Hex. apply elect_some. apply Hne. exact Hex.
Qed.

(* the FROST resharing before the repair: a relayer that leaves is a candidate, is elected for the
   session ids for which it sorts first, and is not in the peerstore *)
Lemma old_frost_resharing_candidates_refuted :
  exists (rank : Z -> Z) key_peers store c,
    candidates_ok PResharing key_peers store (old_frost_resharing_candidates key_peers store) = false
    /\ elect rank (old_frost_resharing_candidates key_peers store) = Some c /\ ~ In c store.
Proof.
  exists (fun z => z), [1; 2; 3], [2; 3], 1. split; [reflexivity|]. split; [reflexivity|].
  intros [H|[H|[]]]; discriminate H.
Qed.

(* naming every relayer of the peerstore (what a key generation does) for a refresh: a relayer that is
   only joining is a candidate and holds no share of the old key *)
Lemma peerstore_resharing_candidates_refuted :
  exists (rank : Z -> Z) key_peers store c,
    candidates_ok PResharing key_peers store store = false
    /\ elect rank store = Some c /\ ~ In c key_peers.
Proof.
  exists (fun z => - z), [1; 2; 3], [1; 2; 3; 4], 4. split; [reflexivity|]. split; [reflexivity|].
  intros [H|[H|[H|[]]]]; discriminate H.
Qed.
