(* C15 round 4 - histories on one long-lived handler: the configuration is never changed by
   decoding, every step's result is that of the step alone on the original configuration, and the
   history judge [seq_ok] accepts the model / implies the per-transaction statements. No axioms
   except through the hypothesis [cv_exact] (instantiated with C15_sat_exact in Properties). *)
From Coq Require Import List ZArith NArith Bool String Ascii Lia.
From SygmaV Require Import Lib.Hex Lib.C15_Sha256 Model.C15 Proofs.C15.
Import ListNotations.
Local Open Scope Z_scope.

Section Seq.
  Variable cv : Z -> Z.
  Variable nf : N -> string -> N.

  Lemma seq_step_config cfg s : fst (seq_step cv nf cfg s) = cfg.
  Proof. destruct s; reflexivity. Qed.

  (* decoding never changes the configuration it is decoded against *)
  Lemma seq_run_config : forall steps cfg,
    Forall (fun x => fst x = cfg) (seq_run cv nf cfg steps).
  Proof.
    induction steps as [|s rest IH]; intros cfg; [constructor|].
    cbn [seq_run]. pose proof (seq_step_config cfg s) as Hc.
    destruct (seq_step cv nf cfg s) as [cfg' r]. cbn [fst] in Hc. subst cfg'.
    constructor; [reflexivity|apply IH].
  Qed.

  (* results do not depend on earlier transactions *)
  Lemma seq_run_independent : forall steps cfg,
    map snd (seq_run cv nf cfg steps) = map (fun s => snd (seq_step cv nf cfg s)) steps.
  Proof.
    induction steps as [|s rest IH]; intros cfg; [reflexivity|].
    cbn [seq_run map]. pose proof (seq_step_config cfg s) as Hc.
    destruct (seq_step cv nf cfg s) as [cfg' r] eqn:E. cbn [fst] in Hc. subst cfg'.
    cbn [map snd]. rewrite IH. reflexivity.
  Qed.

  Lemma seq_run_length : forall steps cfg, List.length (seq_run cv nf cfg steps) = List.length steps.
  Proof.
    induction steps as [|s rest IH]; intros cfg; [reflexivity|].
    cbn [seq_run]. destruct (seq_step cv nf cfg s) as [cfg' r]. cbn [List.length]. rewrite IH. reflexivity.
  Qed.

  Hypothesis cv_exact : forall s, sat_wf s = true -> cv s = s.

  (* the per-transaction judge accepts the model whatever resources are configured *)
  Lemma tx_ok_model outs rs faddr h t :
    tx_ok outs rs faddr (process cv nf outs rs faddr h t) (nf h t) = true.
  Proof.
    unfold tx_ok. destruct (filter (pays_bridge outs) rs) as [|r [|r' l]] eqn:Hf.
    - destruct (oprets_wf outs) eqn:Hw.
      + rewrite (process_none cv nf outs faddr h t rs Hw Hf). reflexivity.
      + cbn [andb negb]. destruct (process cv nf outs rs faddr h t); reflexivity.
    - exact (process_ok_model cv nf cv_exact outs faddr h t r rs Hf).
    - reflexivity.
  Qed.

  Lemma resource_eqb_refl r : resource_eqb r r = true.
  Proof. unfold resource_eqb. rewrite String.eqb_refl, Z.eqb_refl, bytes_eqb_refl. reflexivity. Qed.

  Lemma snap_eqb_refl s : snap_eqb s s = true.
  Proof.
    induction s as [|[k r] s IH]; [reflexivity|]. cbn [snap_eqb].
    rewrite bytes_eqb_refl, resource_eqb_refl, IH. reflexivity.
  Qed.

  Lemma config_kept_refl cfg : config_kept cfg (snap_of (fst cfg)) (snd cfg) = true.
  Proof. unfold config_kept. rewrite snap_eqb_refl, String.eqb_refl. reflexivity. Qed.

  Definition model_obs (cfg : config) (steps : list sstep) : list sobs :=
    map (fun sx => obs_of cfg nf (fst sx) (snd sx)) (combine steps (seq_run cv nf cfg steps)).

  Lemma block_txs_ok cfg h : forall txs,
    forallb (fun t => tx_ok (ot_outs t) (fst cfg) (snd cfg) (ot_impl t) (ot_nonce_seen t))
      (map (fun tm => Build_otx (t_hash (fst tm)) (t_outs (fst tm)) (snd tm) (nf h (t_hash (fst tm))))
           (combine txs (map (fun t => process cv nf (t_outs t) (fst cfg) (snd cfg) h (t_hash t)) txs)))
    = true.
  Proof.
    induction txs as [|t rest IH]; [reflexivity|].
    cbn [map combine forallb fst snd ot_outs ot_impl ot_nonce_seen].
    rewrite tx_ok_model. exact IH.
  Qed.

  Lemma step_ok_model cfg s : step_ok cfg (obs_of cfg nf s (seq_step cv nf cfg s)) = true.
  Proof.
    destruct s as [h txs|outs ri]; cbn [seq_step obs_of snd fst step_ok].
    - rewrite block_txs_ok, config_kept_refl. reflexivity.
    - rewrite config_kept_refl.
      destruct (nth_error (fst cfg) ri) as [r|]; [|reflexivity].
      rewrite (decode_ok_model cv cv_exact). reflexivity.
  Qed.

  (* the history judge accepts the model on every history *)
  Lemma seq_ok_model : forall steps cfg, seq_ok cfg (model_obs cfg steps) = true.
  Proof.
    unfold seq_ok, model_obs.
    induction steps as [|s rest IH]; intros cfg; [reflexivity|].
    cbn [seq_run]. pose proof (seq_step_config cfg s) as Hc. pose proof (step_ok_model cfg s) as Hs.
    destruct (seq_step cv nf cfg s) as [cfg' r]. cbn [fst] in Hc. subst cfg'.
    cbn [combine map forallb fst snd]. rewrite Hs. apply IH.
  Qed.
End Seq.

Lemma resource_eqb_eq a b : resource_eqb a b = true -> a = b.
Proof.
  unfold resource_eqb. intros H. apply andb_prop in H. destruct H as [H Hi].
  apply andb_prop in H. destruct H as [Ha Hf].
  apply String.eqb_eq in Ha. apply Z.eqb_eq in Hf. apply bytes_eqb_eq in Hi.
  destruct a, b. cbn in *. subst. reflexivity.
Qed.

Lemma snap_eqb_eq : forall a b, snap_eqb a b = true -> a = b.
Proof.
  induction a as [|[k r] a IH]; intros [|[k' r'] b] H; try discriminate; [reflexivity|].
  cbn [snap_eqb] in H. apply andb_prop in H. destruct H as [H Hr].
  apply andb_prop in H. destruct H as [Hk He].
  apply bytes_eqb_eq in Hk. apply resource_eqb_eq in He. rewrite (IH _ Hr). subst. reflexivity.
Qed.

(* what the history judge accepts: after every step the handler holds the original configuration,
   and every transaction of every block satisfies the per-transaction specification against it *)
Lemma seq_ok_sound cfg obs : seq_ok cfg obs = true ->
  forall o, In o obs ->
  match o with
  | OBlock h txs stray snap f' =>
      stray = false /\ snap = snap_of (fst cfg) /\ f' = snd cfg /\
      forall t, In t txs -> tx_ok (ot_outs t) (fst cfg) (snd cfg) (ot_impl t) (ot_nonce_seen t) = true
  | ODec outs ri impl snap f' =>
      snap = snap_of (fst cfg) /\ f' = snd cfg /\
      forall r, nth_error (fst cfg) ri = Some r -> decode_ok outs r (snd cfg) impl = true
  end.
Proof.
  unfold seq_ok. intros H o Hin. rewrite forallb_forall in H. specialize (H o Hin).
  destruct o as [h txs stray snap f'|outs ri impl snap f']; cbn [step_ok] in H.
  - apply andb_prop in H. destruct H as [H Hk]. apply andb_prop in H. destruct H as [Ht Hs].
    unfold config_kept in Hk. apply andb_prop in Hk. destruct Hk as [Hsn Hf].
    apply snap_eqb_eq in Hsn. apply String.eqb_eq in Hf.
    repeat split; auto.
    + destruct stray; [discriminate|reflexivity].
    + rewrite forallb_forall in Ht. exact Ht.
  - apply andb_prop in H. destruct H as [Hd Hk].
    unfold config_kept in Hk. apply andb_prop in Hk. destruct Hk as [Hsn Hf].
    apply snap_eqb_eq in Hsn. apply String.eqb_eq in Hf.
    repeat split; auto. intros r Hr. rewrite Hr in Hd. exact Hd.
Qed.

(* with exactly one configured resource paid, [tx_ok] is [process_ok] for that resource *)
Lemma tx_ok_one outs rs r faddr obs n :
  filter (pays_bridge outs) rs = [r] -> tx_ok outs rs faddr obs n = process_ok outs r faddr obs n.
Proof. intros H. unfold tx_ok. rewrite H. reflexivity. Qed.

Lemma tx_ok_none outs rs faddr obs n :
  oprets_wf outs = true -> sats_wf outs = true -> filter (pays_bridge outs) rs = [] ->
  tx_ok outs rs faddr obs n = true -> obs = NoMsg.
Proof.
  intros Hw Hs H. unfold tx_ok. rewrite H, Hw, Hs. destruct obs; [reflexivity|discriminate].
Qed.
