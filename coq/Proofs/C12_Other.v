(* C12 - the other operations of the communication layer (CloseSession, Broadcast, health check, a
   stream that carries no message) leave the subscription table alone: proofs. *)
From Coq Require Import List NArith Bool String Ascii Lia.
Import ListNotations.
From SygmaV Require Import Model.C12 Proofs.C12.
Local Open Scope N_scope.

(* ---- the frame: an other operation changes neither the model of the code nor the specification ---- *)

Lemma other_frame uw k cs st U :
  step_xc uw cs (XOther k) = cs /\ step_xa st (XOther k) = st
  /\ view_c U (fst (step_xc uw cs (XOther k))) = view_c U (fst cs)
  /\ view_a U (fst (step_xa st (XOther k))) = view_a U (fst st).
Proof. repeat split. Qed.

Lemma run_xc_strip uw xs : forall cs, run_xc uw cs xs = run_c uw cs (xops_of xs).
Proof.
  induction xs as [|x r IH]; intro cs; [reflexivity|].
  destruct x as [o|k]; cbn [run_xc fold_left step_xc xops_of flat_map app].
  - unfold run_c. cbn [fold_left]. apply IH.
  - apply IH.
Qed.

Lemma run_xa_strip xs : forall st, run_xa st xs = run_a st (xops_of xs).
Proof.
  induction xs as [|x r IH]; intro st; [reflexivity|].
  destruct x as [o|k]; cbn [run_xa fold_left step_xa xops_of flat_map app].
  - unfold run_a. cbn [fold_left]. apply IH.
  - apply IH.
Qed.

(* whatever other operations are inserted wherever into a history: the table and the live
   subscriptions at the end are those of the history without them *)
Lemma other_ops_frame xs :
  run_xc unwrap c_init xs = run_c unwrap c_init (xops_of xs)
  /\ run_xa a_init xs = run_a a_init (xops_of xs).
Proof. split; [apply run_xc_strip | apply run_xa_strip]. Qed.

Lemma other_ops_frame_subscribers xs s t :
  wf_ops (xops_of xs) = true ->
  subscribers s t (fst (run_xc unwrap c_init xs)) = spec_subscribers s t (fst (run_a a_init (xops_of xs))).
Proof. intro H. rewrite run_xc_strip. apply subscribers_spec. exact H. Qed.

(* a history of other operations only subscribes nobody and cancels nothing *)
Lemma others_only ks cs st :
  run_xc unwrap cs (map XOther ks) = cs /\ run_xa st (map XOther ks) = st.
Proof.
  split.
  - revert cs. induction ks as [|k r IH]; intro cs; [reflexivity|]. cbn. apply IH.
  - revert st. induction ks as [|k r IH]; intro st; [reflexivity|]. cbn. apply IH.
Qed.

(* ---- traces ---- *)

Lemma xops_of_cons_op o r : xops_of (XOp o :: r) = o :: xops_of r.
Proof. reflexivity. Qed.
Lemma xops_of_cons_other k r : xops_of (XOther k :: r) = xops_of r.
Proof. reflexivity. Qed.

Lemma xtrace_eq U xs : forall cs st,
  Inv cs st -> wf_from (snd cs) (xops_of xs) = true ->
  map (fun o => (o_view o, o_got o)) (xtrace_c unwrap U cs xs) = xtrace_a U st xs.
Proof.
  induction xs as [|x r IH]; intros cs st HI Hwf; [reflexivity|].
  destruct x as [o|k].
  - rewrite xops_of_cons_op, wf_from_cons in Hwf. apply andb_true_iff in Hwf as [Ho Hr].
    pose proof (step_inv cs st o HI Ho) as HI'.
    cbn [xtrace_c xtrace_a map step_xc step_xa]. f_equal.
    + cbn. rewrite (view_eq U _ _ HI'). f_equal.
      destruct o as [s t u c|j|s t]; try reflexivity.
      rewrite (inv_subscribers _ _ s t HI'). reflexivity.
    + apply IH; [exact HI'|]. rewrite snd_step_c. exact Hr.
  - rewrite xops_of_cons_other in Hwf.
    cbn [xtrace_c xtrace_a map step_xc step_xa]. f_equal.
    + cbn. rewrite (view_eq U _ _ HI). reflexivity.
    + apply IH; assumption.
Qed.

Lemma xjudge_model U xs :
  wf_ops (xops_of xs) = true -> judge_xops U xs (xtrace_c unwrap U c_init xs) = true.
Proof.
  intro Hwf. unfold judge_xops. apply trace_ok_iff. apply xtrace_eq; [apply Inv_init | exact Hwf].
Qed.

Lemma xjudge_sound U xs impl :
  judge_xops U xs impl = true <-> map (fun o => (o_view o, o_got o)) impl = xtrace_a U a_init xs.
Proof. unfold judge_xops. apply trace_ok_iff. Qed.

(* what the specification's trace shows after an other operation: exactly the subscriber lists that
   were there before it, and no receipt *)
Lemma xtrace_a_other U st k r :
  xtrace_a U st (XOther k :: r) = (view_a U (fst st), []) :: xtrace_a U st r.
Proof. reflexivity. Qed.

(* the specification's trace, entry by entry: the entry of the n-th operation shows the live
   subscriptions of the history WITHOUT the other operations up to there *)
Lemma xtrace_a_nth U xs : forall st n x,
  nth_error xs n = Some x ->
  exists g, nth_error (xtrace_a U st xs) n
            = Some (view_a U (fst (run_a st (xops_of (firstn (S n) xs)))), g)
            /\ (forall k, x = XOther k -> g = []).
Proof.
  induction xs as [|y r IH]; intros st n x Hn; [destruct n; discriminate|].
  destruct n as [|n].
  - cbn in Hn. inversion Hn; subst y. cbn [firstn]. rewrite <- run_xa_strip.
    cbn [xtrace_a nth_error run_xa fold_left]. eexists. split; [reflexivity|].
    intros k ->. reflexivity.
  - cbn [nth_error] in Hn. destruct (IH (step_xa st y) n x Hn) as [g [Hg Hk]].
    exists g. split; [|exact Hk].
    cbn [xtrace_a nth_error]. rewrite Hg. f_equal. f_equal. f_equal. f_equal.
    change (firstn (S (S n)) (y :: r)) with (y :: firstn (S n) r).
    rewrite <- !run_xa_strip. reflexivity.
Qed.

(* ---- interleaved scripts ---- *)

Lemma recvix_strip {X : Type} (stepX : X -> op -> X) subsX xs : forall st c,
  recvix_of stepX subsX st xs c = recvi_of stepX subsX st (xfevs_of xs) c.
Proof.
  induction xs as [|x r IH]; intros st c; [reflexivity|].
  destruct x as [[o|m]|k]; cbn [recvix_of xfevs_of flat_map app recvi_of].
  - apply IH.
  - f_equal. apply IH.
  - apply IH.
Qed.

Lemma recvix_c_strip xs c : recvix_c c_init xs c = recvi_c c_init (xfevs_of xs) c.
Proof. apply recvix_strip. Qed.
Lemma recvix_a_strip xs c : recvix_a a_init xs c = recvi_a a_init (xfevs_of xs) c.
Proof. apply recvix_strip. Qed.

Lemma fanix_refinement xs c :
  wf_ops (fops (xfevs_of xs)) = true -> recvix_c c_init xs c = recvix_a a_init xs c.
Proof. intro H. rewrite recvix_c_strip, recvix_a_strip. apply fani_refinement. exact H. Qed.

Lemma fan_ok_ext f g chans impl :
  (forall c, f c = g c) -> fan_ok f chans impl = fan_ok g chans impl.
Proof.
  intro H. unfold fan_ok. revert impl. induction chans as [|c r IH]; intros [|got impl]; try reflexivity.
  cbn [all2]. rewrite H, IH. reflexivity.
Qed.

Lemma judge_fanix_strip xs chans impl :
  judge_fanix xs chans impl = judge_fani (xfevs_of xs) chans impl.
Proof. unfold judge_fanix, judge_fani. apply fan_ok_ext. intro c. apply recvix_a_strip. Qed.

Lemma fanix_judge_model xs chans :
  wf_ops (fops (xfevs_of xs)) = true ->
  judge_fanix xs chans (map (recvix_c c_init xs) chans) = true.
Proof.
  intro Hwf. rewrite judge_fanix_strip.
  rewrite (map_ext _ _ (recvix_c_strip xs)). apply fani_judge_model. exact Hwf.
Qed.

Lemma fanix_judge_sound xs chans impl :
  judge_fanix xs chans impl = true <->
  Forall2 (fun c got => forall x, count_m x got = count_m x (recvi_a a_init (xfevs_of xs) c)) chans impl.
Proof. rewrite judge_fanix_strip. apply fani_judge_sound. Qed.
