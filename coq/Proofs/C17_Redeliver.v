(* C17 - redelivery on one long-lived executor: the model takes on every startable proposal of every
   delivery (so it satisfies the redelivery judge whatever is in progress), the judge says what it is
   meant to say, and an executor with an in-memory "being signed" mark that only a broadcast clears is
   rejected by it. *)
From Coq Require Import List NArith Bool Lia.
Import ListNotations.
From SygmaV Require Import Model.C17 Proofs.C17.
Local Open Scope N_scope.

(* proposalsForExecution without a store error selects every delivered proposal that was startable
   when the delivery arrived (a second occurrence in the same delivery finds it pending) *)
Lemma pfe_selects : forall ks acc s sel s',
  pfe_loop ks acc s = (Some sel, s') ->
  (forall k, In k acc -> In k sel) /\
  (forall k, In k ks -> startable (get (s_kv s) k) = true -> In k sel).
Proof.
  induction ks as [|k0 r IH]; intros acc s sel s' H; cbn [pfe_loop] in H.
  - inversion H; subst. split.
    + intros k Hk. apply in_rev in Hk. exact Hk.
    + intros k [].
  - destruct (read_cases k0 s) as [[Hr _]|[Hr _]]; rewrite Hr in H.
    + discriminate H.
    + destruct (startable (get (s_kv s) k0)) eqn:Hst.
      * destruct (write_cases k0 Pending (mkSto (s_kv s) (tl (s_faults s)) (s_failed s))) as [[Hw _]|[Hw _]];
          rewrite Hw in H; cbn [s_kv s_faults s_failed] in H.
        -- discriminate H.
        -- destruct (IH _ _ _ _ H) as [Hacc Hks]. cbn [s_kv] in Hks. split.
           ++ intros k Hk. apply Hacc. right. exact Hk.
           ++ intros k [Hk|Hk] Hs.
              ** subst. apply Hacc. left. reflexivity.
              ** destruct (key_eqb k k0) eqn:Hkk.
                 --- apply key_eqb_eq in Hkk. subst. apply Hacc. left. reflexivity.
                 --- apply Hks; [exact Hk|]. rewrite get_set, Hkk. exact Hs.
      * destruct (IH _ _ _ _ H) as [Hacc Hks]. cbn [s_kv] in Hks. split; [exact Hacc|].
        intros k [Hk|Hk] Hs.
        -- subst. rewrite Hs in Hst. discriminate Hst.
        -- apply Hks; [exact Hk|]. exact Hs.
Qed.

Lemma deliver_ok_all : forall pre bs ks sel,
  (forall k, In k ks -> startable (get pre k) = true -> In k sel) -> deliver_ok pre bs ks sel = true.
Proof.
  intros pre bs ks sel H. unfold deliver_ok. apply forallb_forall. intros k Hk.
  destruct (startable (get pre k)) eqn:Hs; cbn [andb implb]; [|reflexivity].
  destruct (busy bs k); cbn [negb implb]; [reflexivity|].
  apply memk_In. apply H; assumption.
Qed.

Lemma deliver_ok_sound : forall pre bs ks sel k,
  deliver_ok pre bs ks sel = true -> In k ks ->
  startable (get pre k) = true -> busy bs k = false -> In k sel.
Proof.
  intros pre bs ks sel k H Hk Hs Hp. unfold deliver_ok in H.
  rewrite forallb_forall in H. specialize (H k Hk). rewrite Hs, Hp in H. cbn in H.
  apply memk_In. exact H.
Qed.

(* one operation of the model passes the redelivery judge, whatever is believed to be in progress *)
Lemma redeliver_step_model : forall o x bs live,
  fst (redeliver_step (s_kv (st x)) bs o live
         (snd (step o x), s_failed (st (fst (step o x))), s_kv (st (fst (step o x))))) = true.
Proof.
  intros o x bs live. destruct o as [p src res dest ds|ks|i|i].
  - unfold step, step_gen. destruct (filter_deposits _ _ _ _ _ _). reflexivity.
  - unfold step, step_gen. destruct (locked x); [reflexivity|].
    destruct (pfe_loop ks [] (clear (st x))) as [[sel|] s'] eqn:Hp; cbn [fst snd redeliver_step]; [|reflexivity].
    destruct (s_failed (st _)); [|reflexivity].
    apply deliver_ok_all. intros k Hk Hs. destruct (pfe_selects _ _ _ _ _ Hp) as [_ H]. apply H; assumption.
  - unfold step, step_gen. destruct (locked x); reflexivity.
  - unfold step, step_gen. destruct (locked x); reflexivity.
Qed.

Lemma redeliver_model : forall ops x bs lives,
  redeliver_ok (s_kv (st x)) bs ops lives (run ops x) = true.
Proof.
  induction ops as [|o r IH]; intros x bs lives; [reflexivity|].
  rewrite run_cons. cbn [redeliver_ok snd]. apply andb_true_iff. split.
  - apply redeliver_step_model.
  - apply IH.
Qed.

(* what the judge says about a retry followed by the redelivery of what it re-emitted *)
Lemma judge_released_redelivered : forall univ pre p src res dest ds em f post bs ks live sel post2 d,
  judge_step univ pre (Retry p src res dest ds) (ORetry em, f, post) = true ->
  In d em -> In (dkey src d) ks -> busy bs (dkey src d) = false ->
  fst (redeliver_step post bs (Deliver ks) live (ODeliver (Some sel), [], post2)) = true ->
  In (dkey src d) sel.
Proof.
  intros univ pre p src res dest ds em f post bs ks live sel post2 d Hj Hd Hk Hp Hr.
  cbn [judge_step] in Hj. apply andb_true_iff in Hj. destruct Hj as [_ Hj].
  apply andb_true_iff in Hj. destruct Hj as [_ Hst].
  rewrite forallb_forall in Hst. specialize (Hst d Hd).
  cbn [redeliver_step fst] in Hr. eapply deliver_ok_sound; eassumption.
Qed.

(* the executor with the in-memory mark: delivery whose execution fails before the broadcast (a whole
   Execute call that returned), retry (pending -> failed, re-emitted), redelivery: skipped *)
Definition marker_ops : list op :=
  [Deliver [(1, 2, 5)]; Retry PFilter 1 1 2 [mkDep 2 5 1]; Deliver [(1, 2, 5)]].
Definition marker_lives : list bool := [true; false; true].

Lemma marker_refuted :
  let tr := marker_run marker_ops (init_state [] [], []) in
  hist_ok [(1, 2, 5)] [] marker_ops tr = true /\
  redeliver_ok [] jinit marker_ops marker_lives tr = false /\
  redeliver_ok [] jinit marker_ops marker_lives (run marker_ops (init_state [] [])) = true.
Proof. vm_compute. repeat split. Qed.

(* ---- EVM / Substrate executors ---------------------------------------------------------------------- *)

Lemma xexec_ok : forall executed ks f, xdeliver_ok executed ks f false (xexec executed ks f) = true.
Proof.
  intros executed ks f. unfold xdeliver_ok, xexec, xlookup_failed. cbn [negb andb].
  assert (H : forallb (fun k => implb (negb (memk k executed))
                 (memk k (filter (fun k0 => negb (memk k0 executed)) ks))) ks = true).
  { apply forallb_forall. intros k Hk. destruct (memk k executed) eqn:He; cbn [negb implb]; [reflexivity|].
    apply memk_In. apply filter_In. split; [exact Hk|]. rewrite He. reflexivity. }
  destruct f as [i| | |]; try (rewrite H; apply orb_true_r).
  destruct (Nat.ltb i (length ks)); [reflexivity|]. rewrite H. reflexivity.
Qed.

Lemma xdeliver_ok_sound : forall executed ks f hung hashed k,
  xdeliver_ok executed ks f hung hashed = true -> xlookup_failed ks f = false ->
  hung = false /\ (In k ks -> memk k executed = false -> In k hashed).
Proof.
  intros executed ks f hung hashed k H Hf. unfold xdeliver_ok in H. rewrite Hf in H. cbn [orb] in H.
  apply andb_true_iff in H. destruct H as [Hh H]. split.
  - destruct hung; [discriminate Hh|reflexivity].
  - intros Hk He. rewrite forallb_forall in H. specialize (H k Hk). rewrite He in H. cbn in H.
    apply memk_In. exact H.
Qed.
