(* C17 - two operations meeting inside a call: the two admissible atomic orders, and the admission at
   the granularity of its reads and writes, with and without the mutex. *)
From Coq Require Import List NArith Bool Lia.
Import ListNotations.
From SygmaV Require Import Model.C17 Proofs.C17.
Local Open Scope N_scope.

(* ---------------------------------------------------------------------------------------------- *)
(* the two atomic orders *)

Lemma final_app : forall a b x, final (a ++ b) x = final b (final a x).
Proof.
  induction a as [|o a IH]; intros b x; [reflexivity|].
  cbn [app]. rewrite !final_run_cons. apply IH.
Qed.

Lemma firstn_skipn_final : forall n ops x, final ops x = final (skipn n ops) (final (firstn n ops) x).
Proof. intros n ops x. rewrite <- final_app, firstn_skipn. reflexivity. Qed.

(* in either order: a proposal recorded executed at any point of the history is executed at every
   later point and at the end *)
Lemma script_executed_absorbing : forall prefix a b suffix ops x k n,
  In ops (script_orders prefix a b suffix) ->
  is_exec (get (s_kv (st (final (firstn n ops) x))) k) = true ->
  is_exec (get (s_kv (st (final ops x))) k) = true /\
  Forall (fun ob : obs => is_exec (get (snd ob) k) = true) (run (skipn n ops) (final (firstn n ops) x)).
Proof.
  intros prefix a b suffix ops x k n _ H. split.
  - rewrite (firstn_skipn_final n). now apply executed_absorbing.
  - now apply executed_absorbing_run.
Qed.

Lemma script_orders_wf : forall prefix a b suffix ops,
  In ops (script_orders prefix a b suffix) ->
  forallb wf_op (prefix ++ [a; b] ++ suffix) = true -> forallb wf_op ops = true.
Proof.
  intros prefix a b suffix ops [<-|[<-|[]]] H; [exact H|].
  rewrite !forallb_app in *. cbn [forallb] in *.
  destruct (forallb wf_op prefix), (wf_op a), (wf_op b), (forallb wf_op suffix); cbn in *; congruence.
Qed.

(* the judge accepts the model's history of either order, and no call is stuck *)
Lemma script_judge_accepts : forall univ prefix a b suffix ops x,
  In ops (script_orders prefix a b suffix) -> locked x = false ->
  forallb wf_op (prefix ++ [a; b] ++ suffix) = true ->
  hist_ok univ (s_kv (st x)) ops (run ops x) = true /\
  Forall (fun ob : obs => fst (fst ob) <> OStuck) (run ops x).
Proof.
  intros univ prefix a b suffix ops x Hin Hl Hwf. split.
  - apply hist_ok_model; [exact Hl|]. eapply script_orders_wf; eauto.
  - now apply executor_never_stuck.
Qed.

(* ---------------------------------------------------------------------------------------------- *)
(* the admission at the granularity of its reads and writes *)

(* a retry never records anything as executed *)
Lemma filter_loop_noexec : forall sel src ds s em s',
  filter_loop is_executed_retry sel src ds s = (em, s') ->
  forall k, is_exec (get (s_kv s') k) = is_exec (get (s_kv s) k).
Proof.
  intros sel src. induction ds as [|d r IH]; intros s em s' H k; cbn [filter_loop] in H.
  - injection H as <- <-. reflexivity.
  - destruct (sel d).
    + destruct (is_executed_retry (dkey src d) s) as [skip s1] eqn:Hisx.
      destruct (filter_loop is_executed_retry sel src r s1) as [em' s2] eqn:Hrec.
      injection H as <- <-.
      destruct (isx_spec _ _ _ _ Hisx) as [nf1 [_ [_ [_ [K1 _]]]]].
      rewrite (IH _ _ _ Hrec k).
      destruct K1 as [K1|[Gp K1]]; rewrite K1; [reflexivity|].
      rewrite get_set. destruct (key_eqb k (dkey src d)) eqn:E; [|reflexivity].
      apply key_eqb_eq in E. subst k. rewrite Gp. reflexivity.
    + eapply IH. exact H.
Qed.

Lemma step_retry_noexec : forall p src res dest ds x k,
  is_exec (get (s_kv (st (fst (step (Retry p src res dest ds) x)))) k) = is_exec (get (s_kv (st x)) k) /\
  locked (fst (step (Retry p src res dest ds) x)) = locked x.
Proof.
  intros p src res dest ds x k. unfold step, step_gen.
  destruct (filter_deposits p src res dest ds (clear (st x))) as [em s'] eqn:H. cbn [fst st locked].
  split; [|reflexivity]. unfold filter_deposits in H.
  assert (E : isx_of p = is_executed_retry) by (destruct p; reflexivity). rewrite E in H.
  apply (filter_loop_noexec _ _ _ _ _ _ H k).
Qed.

(* an operation that needs the mutex has no effect on the contents while it is held *)
Lemma step_locked_kv : forall o x, locked x = true ->
  match o with Retry _ _ _ _ _ => True | _ => s_kv (st (fst (step o x))) = s_kv (st x) /\ locked (fst (step o x)) = true end.
Proof.
  intros o x Hl. destruct o as [p src res dest ds|ks|i|i]; [exact I| | |];
    unfold step, step_gen; rewrite Hl; cbn [fst st locked clear s_kv]; auto.
Qed.

Lemma adm_read_spec : forall ks acc s r s', adm_read ks acc s = (r, s') ->
  s_kv s' = s_kv s /\
  forall cs, r = Some cs -> forall k, In k cs -> In k acc \/ startable (get (s_kv s) k) = true.
Proof.
  induction ks as [|k ks IH]; intros acc s r s' H; cbn [adm_read] in H.
  - injection H as <- <-. split; [reflexivity|]. intros cs [= <-] k Hk. left. now apply in_rev.
  - destruct (read_cases k s) as [[R _]|[R _]]; rewrite R in H.
    + injection H as <- <-. split; [reflexivity|discriminate].
    + destruct (startable (get (s_kv s) k)) eqn:St; apply IH in H; cbn [s_kv] in H; destruct H as [Hk Hc];
        (split; [exact Hk|]); intros cs Hr k' Hin; destruct (Hc cs Hr k' Hin) as [Ha|Hs]; auto.
      destruct Ha as [<-|Ha]; auto.
Qed.

Lemma adm_write_ext : forall cs acc s r s',
  (forall k, In k cs -> is_exec (get (s_kv s) k) = false) ->
  adm_write cs acc s = (r, s') -> ext_ok (s_kv s) (s_kv s').
Proof.
  induction cs as [|k cs IH]; intros acc s r s' Hne H; cbn [adm_write] in H.
  - injection H as <- <-. apply ext_ok_refl.
  - destruct (write_cases k Pending s) as [[W _]|[W _]]; rewrite W in H.
    + injection H as <- <-. apply ext_ok_refl.
    + eapply ext_ok_trans; [|eapply IH; [|exact H]].
      * cbn [s_kv]. apply ext_ok_set. intro Hx. rewrite (Hne k (or_introl eq_refl)) in Hx. discriminate.
      * cbn [s_kv]. intros k' Hin. rewrite get_set. destruct (key_eqb k' k); [reflexivity|].
        apply Hne. now right.
Qed.

(* WITH the mutex (the code): one step keeps every executed status and the invariant *)
Lemma sstep_mutex : forall o z, adm_inv z ->
  ext_ok (s_kv (st (s_x z))) (s_kv (st (s_x (fst (sstep true o z))))) /\ adm_inv (fst (sstep true o z)).
Proof.
  intros o z Hinv. unfold sstep. destruct o as [o'|ks|].
  - destruct (step o' (s_x z)) as [x' ou] eqn:Hs. cbn [fst s_x s_adm].
    assert (Hx' : x' = fst (step o' (s_x z))) by now rewrite Hs. subst x'.
    split; [apply step_ext|].
    unfold adm_inv in *. cbn [s_adm s_x]. destruct (s_adm z) as [cs|]; [|exact I].
    destruct Hinv as [Hl Hne].
    destruct o' as [p src res dest ds|ks|i|i].
    + destruct (step_retry_noexec p src res dest ds (s_x z) (1,1,1)) as [_ Hlk].
      split; [now rewrite Hlk|]. intros k Hin.
      destruct (step_retry_noexec p src res dest ds (s_x z) k) as [He _]. rewrite He. now apply Hne.
    + destruct (step_locked_kv (Deliver ks) _ Hl) as [Hk Hl']. split; [exact Hl'|]. rewrite Hk. exact Hne.
    + destruct (step_locked_kv (ExecOk i) _ Hl) as [Hk Hl']. split; [exact Hl'|]. rewrite Hk. exact Hne.
    + destruct (step_locked_kv (ExecFail i) _ Hl) as [Hk Hl']. split; [exact Hl'|]. rewrite Hk. exact Hne.
  - cbn [andb orb]. destruct (locked (s_x z)) eqn:Hl.
    + cbn [fst s_x st s_kv clear s_adm]. split; [apply ext_ok_refl|].
      unfold adm_inv in *. cbn [s_adm s_x locked st s_kv clear]. destruct (s_adm z) as [cs|]; [|exact I].
      destruct Hinv as [_ Hne]. split; [reflexivity|exact Hne].
    + destruct (adm_read ks [] (clear (st (s_x z)))) as [[cs|] s'] eqn:Hr;
        destruct (adm_read_spec _ _ _ _ _ Hr) as [Hk Hc]; cbn [fst s_x st s_kv s_adm clear] in *.
      * rewrite Hk. split; [apply ext_ok_refl|]. unfold adm_inv. cbn [s_adm s_x locked st].
        split; [reflexivity|]. intros k Hin. rewrite Hk.
        destruct (Hc cs eq_refl k Hin) as [[]|Hs]. destruct (get (s_kv (st (s_x z))) k); try reflexivity; discriminate.
      * rewrite Hk. split; [apply ext_ok_refl|exact I].
  - destruct (s_adm z) as [cs|] eqn:Ha.
    + cbn [negb andb]. unfold adm_inv in Hinv. rewrite Ha in Hinv. destruct Hinv as [_ Hne].
      destruct (adm_write cs [] (clear (st (s_x z)))) as [[sel|] s'] eqn:Hw; cbn [fst s_x st s_adm];
        (split; [exact (adm_write_ext cs [] (clear (st (s_x z))) _ s' Hne Hw)|exact I]).
    + cbn [fst s_x st s_kv clear s_adm]. split; [apply ext_ok_refl|exact I].
Qed.

Lemma sfinal_cons : forall b o r z, sfinal b (o :: r) z = sfinal b r (fst (sstep b o z)).
Proof. reflexivity. Qed.

Lemma srun_cons : forall b o r z,
  srun b (o :: r) z = (snd (sstep b o z), s_failed (st (s_x (fst (sstep b o z)))), s_kv (st (s_x (fst (sstep b o z)))))
                      :: srun b r (fst (sstep b o z)).
Proof. intros. cbn [srun]. destruct (sstep b o z) as [z' ou]. reflexivity. Qed.

(* EVERY schedule of whole operations and the two halves of admissions: executed is final *)
Lemma mutex_split_executed_absorbing : forall ops z k, adm_inv z ->
  is_exec (get (s_kv (st (s_x z))) k) = true ->
  is_exec (get (s_kv (st (s_x (sfinal true ops z)))) k) = true /\
  Forall (fun ob : obs => is_exec (get (snd ob) k) = true) (srun true ops z).
Proof.
  induction ops as [|o r IH]; intros z k Hinv H; [split; [exact H|constructor]|].
  destruct (sstep_mutex o z Hinv) as [He Hinv'].
  rewrite sfinal_cons, srun_cons. destruct (IH _ k Hinv' (He k H)) as [A B].
  split; [exact A|]. constructor; [cbn [snd]; exact (He k H)|exact B].
Qed.

(* ... and with the mutex, the two halves made one right after the other by an idle executor are the
   admission of the atomic model, whenever no store call fails and the proposals are distinct *)
Lemma adm_read_nofault : forall ks acc m,
  adm_read ks acc (mkSto m [] []) = (Some (rev acc ++ filter (fun k => startable (get m k)) ks), mkSto m [] []).
Proof.
  induction ks as [|k ks IH]; intros acc m; cbn [adm_read filter].
  - now rewrite app_nil_r.
  - unfold read, next_fault. cbn [s_faults s_kv s_failed].
    destruct (startable (get m k)); rewrite IH; [|reflexivity].
    cbn [rev]. now rewrite <- app_assoc.
Qed.

Lemma pfe_loop_nofault : forall ks acc m, nodupk ks = true ->
  exists m', pfe_loop ks acc (mkSto m [] []) = (Some (rev acc ++ filter (fun k => startable (get m k)) ks), mkSto m' [] []) /\
             adm_write (filter (fun k => startable (get m k)) ks) acc (mkSto m [] [])
             = (Some (rev acc ++ filter (fun k => startable (get m k)) ks), mkSto m' [] []).
Proof.
  induction ks as [|k ks IH]; intros acc m Hnd.
  - exists m. cbn. now rewrite app_nil_r.
  - apply nodupk_cons in Hnd as [Hni Hnd].
    assert (Hsame : forall v, filter (fun k0 => startable (get (set m k v) k0)) ks = filter (fun k0 => startable (get m k0)) ks).
    { intro v. apply filter_ext_in. intros k0 Hin. rewrite get_set.
      destruct (key_eqb k0 k) eqn:E; [|reflexivity]. apply key_eqb_eq in E. subst k0. contradiction. }
    cbn [pfe_loop filter]. unfold read, write, next_fault. cbn [s_faults s_kv s_failed].
    destruct (startable (get m k)) eqn:St.
    + destruct (IH (k :: acc) (set m k Pending) Hnd) as [m' [H1 H2]].
      exists m'. rewrite Hsame in H1, H2. cbn [adm_write]. unfold write, next_fault. cbn [s_faults s_kv s_failed].
      cbn [rev] in H1, H2. rewrite <- app_assoc in H1, H2. cbn [app] in H1, H2. split; assumption.
    + destruct (IH acc m Hnd) as [m' [H1 H2]]. exists m'. split; assumption.
Qed.

Lemma split_is_atomic : forall ks m bs, nodupk ks = true ->
  let z := mkS (mkState (mkSto m [] []) false bs) None in
  let z2 := fst (sstep true AdmitWrite (fst (sstep true (AdmitRead ks) z))) in
  s_x z2 = fst (step (Deliver ks) (s_x z)) /\ s_adm z2 = None /\
  snd (sstep true AdmitWrite (fst (sstep true (AdmitRead ks) z))) = snd (step (Deliver ks) (s_x z)).
Proof.
  intros ks m bs Hnd. cbn zeta.
  destruct (pfe_loop_nofault ks [] m Hnd) as [m' [H1 H2]]. cbn [rev app] in H1, H2.
  assert (Hr : sstep true (AdmitRead ks) (mkS (mkState (mkSto m [] []) false bs) None)
               = (mkS (mkState (mkSto m [] []) true bs) (Some (filter (fun k => startable (get m k)) ks)), OExec)).
  { unfold sstep. cbn [s_x locked andb orb st batches s_adm]. unfold clear. cbn [s_kv s_faults].
    rewrite (adm_read_nofault ks [] m). reflexivity. }
  rewrite Hr. cbn [fst].
  unfold sstep. cbn [s_adm s_x negb andb locked st batches]. unfold clear. cbn [s_kv s_faults].
  rewrite H2. unfold step, step_gen. cbn [locked st batches]. unfold clear. cbn [s_kv s_faults].
  rewrite H1. cbn [fst snd s_x s_adm]. auto.
Qed.

(* WITHOUT the mutex around the reads: the end of the older execution comes between the reads and the
   marks of the redelivery's admission and "executed" is overwritten *)
Definition w_split_ops : list sop :=
  [Whole (Deliver [w_k]); Whole (Retry PFilter 1 1 2 [w_dep]); AdmitRead [w_k]; Whole (ExecOk 0); AdmitWrite;
   Whole (ExecFail 1); Whole (Retry PFilter 1 1 2 [w_dep]); Whole (Deliver [w_k])].

Lemma split_admission_refuted :
  map (fun ob : obs => (fst (fst ob), get (snd ob) w_k)) (srun false w_split_ops (sinit []))
  = [(ODeliver (Some [w_k]), Pending); (ORetry [w_dep], Failed); (OExec, Failed); (OExec, Executed);
     (ODeliver (Some [w_k]), Pending); (OExec, Failed); (ORetry [w_dep], Failed); (ODeliver (Some [w_k]), Pending)] /\
  map (fun ob : obs => (fst (fst ob), get (snd ob) w_k)) (srun true w_split_ops (sinit []))
  = [(ODeliver (Some [w_k]), Pending); (ORetry [w_dep], Failed); (OExec, Failed); (OStuck, Failed);
     (ODeliver (Some [w_k]), Pending); (OExec, Failed); (ORetry [w_dep], Failed); (ODeliver (Some [w_k]), Pending)].
Proof. vm_compute. split; reflexivity. Qed.
