(* C15 - the floating-point exactness of the repaired satoshi conversion:
     sat_exact : forall s, 0 <= s <= 21*10^14 -> credited s = s
   where [credited s] = int64(math.Round(RN(s / 10^8) * 1e8)) is evaluated by the executable
   binary64 model of Model/C15.v (Coq's SpecFloat).

   Structure: (1) two correctly rounded operations move s by less than 1/2 (real analysis over
   Flocq's [round]); (2) the executable SpecFloat operations are Flocq's Bdiv/Bmult (B2SF
   equalities), whose values are [round] of the exact results (Bdiv_correct/Bmult_correct, the
   overflow side conditions follow from the same bounds); (3) the integer that [round_Z] extracts
   from a finite positive float within 1/2 of s is s.

   This is the only C15 file that uses the real numbers; what it proves depends on the standard
   library's axioms for the reals (see Print Assumptions in Properties/C15.v and
   tools/props/C15.json).  No interval-arithmetic tactic and no primitive integers are used. *)
From Coq Require Import ZArith Reals Lra Lia SpecFloat Bool.
From Flocq Require Import Core Relative BinarySingleNaN.
From Flocq Require PrimFloat.
From SygmaV Require Import Model.C15.
Open Scope R_scope.

(* ---------------------------------------------------------------------------------------- *)
(* (1) the real-number core *)

Ltac zpow_eval := repeat match goal with |- context [Z.pow_pos ?a ?b] =>
  let v := eval vm_compute in (Z.pow_pos a b) in change (Z.pow_pos a b) with v end.
Lemma bpow_m53 : bpow radix2 (-53) = / 9007199254740992.
Proof. reflexivity. Qed.
Lemma bpow_m52 : bpow radix2 (-52) = / 4503599627370496.
Proof. reflexivity. Qed.
Lemma bpow_m1022_small : bpow radix2 (-1022) <= / 1000000000.
Proof. apply Rle_trans with (bpow radix2 (-30)). apply bpow_le; lia. unfold bpow; zpow_eval; lra. Qed.
Definition fexp := FLT_exp (-1074) 53.
Definition rnd := round radix2 fexp ZnearestE.

Lemma rel_err x : bpow radix2 (-1022) <= Rabs x ->
  exists eps, Rabs eps <= bpow radix2 (-53) /\ rnd x = x * (1 + eps).
Proof.
intros H.
destruct (relative_error_N_FLT_ex radix2 (-1074) 53 ltac:(reflexivity) (fun x => negb (Z.even x)) x) as [e [He Hr]].
- exact H.
- exists e; split; [|exact Hr].
  assert (He' : Rabs e <= /2 * bpow radix2 (-52)) by exact He.
  rewrite bpow_m52 in He'. rewrite bpow_m53. lra.
Qed.

(* s (e1 + e2 + e1 e2) stays below 1/2 for s <= 21e14 and |e1|, |e2| <= 2^-53 *)
Lemma two_errors_small (S e1 e2 : R) :
  1 <= S <= 2100000000000000 ->
  - / 9007199254740992 <= e1 <= / 9007199254740992 ->
  - / 9007199254740992 <= e2 <= / 9007199254740992 ->
  Rabs (S * (e1 + e2 + e1 * e2)) < / 2.
Proof.
  intros HS H1 H2.
  set (u := / 9007199254740992) in *.
  assert (Hu : 0 < u) by (unfold u; lra).
  assert (Hu2 : u <= / 1000000000000000) by (unfold u; lra).
  assert (Ha : Rabs (e1 + e2 + e1 * e2) <= 2 * u + u * u).
  { eapply Rle_trans; [apply Rabs_triang|].
    eapply Rle_trans; [apply Rplus_le_compat_r; apply Rabs_triang|].
    rewrite Rabs_mult.
    assert (Rabs e1 <= u) by (apply Rabs_le; lra).
    assert (Rabs e2 <= u) by (apply Rabs_le; lra).
    assert (Rabs e1 * Rabs e2 <= u * u) by (apply Rmult_le_compat; auto using Rabs_pos).
    lra. }
  rewrite Rabs_mult. rewrite (Rabs_pos_eq S) by lra.
  apply Rle_lt_trans with (2100000000000000 * (2 * u + u * u)).
  - apply Rmult_le_compat; try lra. apply Rabs_pos.
  - assert (u * u <= u * / 1000000000000000) by (apply Rmult_le_compat_l; lra).
    unfold u in *. lra.
Qed.

(* the core bound: two correctly rounded operations move s by < 1/2 *)
Theorem sat_two_roundings (s : Z) : (1 <= s <= 2100000000000000)%Z ->
  Rabs (rnd (rnd (IZR s / 100000000) * 100000000) - IZR s) < /2.
Proof.
intros [Hlo Hhi].
assert (Hs1 : 1 <= IZR s) by (apply IZR_le; lia).
assert (Hs2 : IZR s <= 2100000000000000) by (apply IZR_le; lia).
set (x := IZR s / 100000000).
assert (Hx : bpow radix2 (-1022) <= Rabs x).
{ unfold x. rewrite Rabs_pos_eq.
  - apply Rle_trans with (1/100000000). 2: { apply Rmult_le_compat_r; lra. }
    generalize bpow_m1022_small; lra.
  - apply Rmult_le_pos; lra. }
destruct (rel_err x Hx) as [e1 [He1 Hv]].
fold rnd in Hv. 
set (v := rnd x) in *.
assert (Hvpos : bpow radix2 (-1022) <= Rabs (v * 100000000)).
{ rewrite Hv. unfold x. 
  assert (Hb : bpow radix2 (-53) <= /1000) by (rewrite bpow_m53; lra).
  apply Rabs_le_inv in He1.
  rewrite Rabs_pos_eq.
  - apply Rle_trans with (1 * (1 - /1000)).
    + generalize bpow_m1022_small; lra.
    + replace (IZR s / 100000000 * (1 + e1) * 100000000) with (IZR s * (1 + e1)) by field.
      apply Rmult_le_compat; lra.
  - replace (IZR s / 100000000 * (1 + e1) * 100000000) with (IZR s * (1 + e1)) by field.
    apply Rmult_le_pos; lra. }
destruct (rel_err _ Hvpos) as [e2 [He2 Hp]].
rewrite Hp, Hv. unfold x.
replace (IZR s / 100000000 * (1 + e1) * 100000000 * (1 + e2) - IZR s)
  with (IZR s * (e1 + e2 + e1 * e2)) by field.
rewrite bpow_m53 in *.
apply Rabs_le_inv in He1. apply Rabs_le_inv in He2.
apply two_errors_small; [lra|exact He1|exact He2].
Qed.

(* ---------------------------------------------------------------------------------------- *)
(* (2) SpecFloat = Flocq *)

Notation Hp := Flocq.IEEE754.PrimFloat.Hprec.
Notation Hm := Flocq.IEEE754.PrimFloat.Hmax.
Definition B64 := binary_float 53 1024.
Definition Bof_Z (z : Z) : B64 := binary_normalize 53 1024 Hp Hm mode_NE z 0 false.

Lemma sf_of_Z_B z : sf_of_Z z = B2SF (Bof_Z z).
Proof. exact (PrimFloat.binary_normalize_equiv z 0 false). Qed.

Lemma SFdiv_B (x y : B64) : SFdiv 53 1024 (B2SF x) (B2SF y) = B2SF (@Bdiv 53 1024 Hp Hm mode_NE x y).
Proof.
  destruct x as [sx|sx| |sx mx ex Bx]; destruct y as [sy|sy| |sy my ey By]; try reflexivity.
  simpl. rewrite B2SF_SF2B.
  set (melz := SFdiv_core_binary _ _ _ _ _ _).
  case melz as [[mz ez] lz].
  apply PrimFloat.binary_round_aux_equiv.
Qed.

Lemma SFmul_B (x y : B64) : SFmul 53 1024 (B2SF x) (B2SF y) = B2SF (@Bmult 53 1024 Hp Hm mode_NE x y).
Proof.
  destruct x as [sx|sx| |sx mx ex Bx]; destruct y as [sy|sy| |sy my ey By]; try reflexivity.
  simpl. rewrite B2SF_SF2B.
  apply PrimFloat.binary_round_aux_equiv.
Qed.

Notation fexp64 := (SpecFloat.fexp 53 1024).

Lemma rnd_eq x : round radix2 fexp64 (round_mode mode_NE) x = rnd x.
Proof. reflexivity. Qed.

Lemma bpow_1024_big : 10000000000000000 < bpow radix2 1024.
Proof.
  apply Rlt_le_trans with (bpow radix2 54).
  - unfold bpow; zpow_eval; lra.
  - apply bpow_le; lia.
Qed.

Lemma Bof_Z_correct (z : Z) : (Z.abs z < 2 ^ 53)%Z ->
  B2R (Bof_Z z) = IZR z /\ is_finite (Bof_Z z) = true.
Proof.
  intros Hz.
  pose proof (binary_normalize_correct 53 1024 Hp Hm mode_NE z 0 false) as H.
  cbv zeta in H.
  assert (Hx : F2R (Float radix2 z 0) = IZR z) by (unfold F2R; simpl; lra).
  rewrite Hx in H.
  assert (Hg : generic_format radix2 fexp64 (IZR z)).
  { apply (generic_format_FLT radix2 (-1074) 53).
    apply (FLT_spec radix2 (-1074) 53 (IZR z) (Float radix2 z 0)).
    - symmetry; exact Hx.
    - simpl. exact Hz.
    - simpl. lia. }
  rewrite round_generic in H; [|apply valid_rnd_N|exact Hg].
  rewrite Rlt_bool_true in H.
  - destruct H as (H1 & H2 & _). split; assumption.
  - apply Rlt_trans with (2 := bpow_1024_big).
    rewrite <- abs_IZR. apply Rlt_trans with (IZR (2 ^ 53)). apply IZR_lt; exact Hz.
    simpl. lra.
Qed.

(* ---------------------------------------------------------------------------------------- *)
(* (3) float -> integer, and the theorem *)

Definition Be8 : B64 := Bof_Z 100000000.
Lemma Be8_correct : B2R Be8 = 100000000 /\ is_finite Be8 = true.
Proof. apply (Bof_Z_correct 100000000). reflexivity. Qed.

Lemma round_Z_near (p : B64) (s : Z) :
  is_finite p = true -> (1 <= s)%Z -> Rabs (B2R p - IZR s) < /2 -> round_Z (B2SF p) = Some s.
Proof.
  intros Hf Hs Hd.
  assert (Hs1 : 1 <= IZR s) by (apply IZR_le; exact Hs).
  apply Rabs_def2 in Hd. destruct Hd as [Hd1 Hd2].
  destruct p as [sg|sg| |sg m e Hb]; try discriminate Hf.
  - simpl in Hd1, Hd2. lra.
  - simpl B2R in Hd1, Hd2. destruct sg.
    + exfalso. assert (F2R (Float radix2 (cond_Zopp true (Z.pos m)) e) < 0) by (apply F2R_lt_0; reflexivity). lra.
    + simpl cond_Zopp in Hd1, Hd2. cbn [B2SF round_Z SpecFloat.cond_Zopp]. f_equal.
      unfold F2R in Hd1, Hd2. cbn [Fnum Fexp] in Hd1, Hd2.
      destruct (0 <=? e)%Z eqn:He.
      * apply Z.leb_le in He.
        rewrite <- IZR_Zpower in Hd1, Hd2 by exact He.
        rewrite <- mult_IZR in Hd1, Hd2.
        change (Zpower radix2 e) with (2 ^ e)%Z in Hd1, Hd2.
        set (k := (Z.pos m * 2 ^ e)%Z) in *.
        assert (H1 : IZR (k - s) < 1) by (rewrite minus_IZR; lra).
        assert (H2 : IZR (-1) < IZR (k - s)) by (rewrite minus_IZR; simpl; lra).
        apply lt_IZR in H1. apply lt_IZR in H2. lia.
      * apply Z.leb_gt in He.
        set (k := (- e)%Z). assert (Hk : (0 < k)%Z) by (unfold k; lia).
        replace e with (- k)%Z in Hd1, Hd2 by (unfold k; lia).
        rewrite bpow_opp in Hd1, Hd2.
        rewrite <- IZR_Zpower in Hd1, Hd2 by lia.
        change (Zpower radix2 k) with (2 ^ k)%Z in Hd1, Hd2.
        assert (Hpow : (0 < 2 ^ k)%Z) by (apply Z.pow_pos_nonneg; lia).
        assert (HpowR : 0 < IZR (2 ^ k)) by (apply IZR_lt; exact Hpow).
        replace (k + 1)%Z with (Z.succ k) by lia. rewrite Z.pow_succ_r by lia.
        rewrite <- (Zfloor_div (2 * Z.pos m + 2 ^ k) (2 * 2 ^ k)) by lia.
        apply Zfloor_imp.
        rewrite !plus_IZR, !mult_IZR.
        replace ((2 * IZR (Z.pos m) + IZR (2 ^ k)) / (2 * IZR (2 ^ k)))
          with (IZR (Z.pos m) * / IZR (2 ^ k) + / 2) by (field; lra).
        lra.
Qed.

Section Main.
  Variable s : Z.
  Hypothesis Hs : (1 <= s <= 2100000000000000)%Z.

  Let x : R := IZR s / 100000000.
  Definition Bv : B64 := @Bdiv 53 1024 Hp Hm mode_NE (Bof_Z s) Be8.
  Definition Bp : B64 := @Bmult 53 1024 Hp Hm mode_NE Bv Be8.

  Lemma s_bounds : 1 <= IZR s <= 2100000000000000.
  Proof. destruct Hs as [H1 H2]. split; apply IZR_le; assumption. Qed.

  Lemma Bs_correct : B2R (Bof_Z s) = IZR s /\ is_finite (Bof_Z s) = true.
  Proof. apply Bof_Z_correct. assert (2100000000000000 < 2 ^ 53)%Z by reflexivity. lia. Qed.

  Lemma x_big : bpow radix2 (-1022) <= Rabs x.
  Proof.
    pose proof s_bounds as Hb. unfold x. rewrite Rabs_pos_eq.
    - apply Rle_trans with (1 / 100000000). 2: { apply Rmult_le_compat_r; lra. }
      generalize bpow_m1022_small; lra.
    - apply Rmult_le_pos; lra.
  Qed.

  Lemma Bv_correct : B2R Bv = rnd x /\ is_finite Bv = true.
  Proof.
    destruct Bs_correct as [Hsr Hsf]. destruct Be8_correct as [Her Hef].
    pose proof (@Bdiv_correct 53 1024 Hp Hm mode_NE (Bof_Z s) Be8) as H.
    fold Bv in H. rewrite Hsr, Her in H. specialize (H ltac:(lra)).
    fold x in H. rewrite rnd_eq in H.
    rewrite Rlt_bool_true in H.
    - destruct H as (H1 & H2 & _). rewrite Hsf in H2. split; assumption.
    - destruct (rel_err x x_big) as [e [He Hr]]. rewrite Hr.
      pose proof s_bounds as Hb. rewrite bpow_m53 in He. apply Rabs_le_inv in He.
      apply Rlt_trans with (2 := bpow_1024_big).
      assert (0 <= x <= 21000000) by (unfold x; lra).
      rewrite Rabs_pos_eq by (apply Rmult_le_pos; lra).
      apply Rle_lt_trans with (21000000 * 2); [|lra].
      apply Rmult_le_compat; lra.
  Qed.

  Lemma Bp_correct : Rabs (B2R Bp - IZR s) < /2 /\ is_finite Bp = true.
  Proof.
    destruct Bv_correct as [Hvr Hvf]. destruct Be8_correct as [Her Hef].
    pose proof (@Bmult_correct 53 1024 Hp Hm mode_NE Bv Be8) as H.
    fold Bp in H. rewrite Hvr, Her, rnd_eq in H.
    pose proof (sat_two_roundings s Hs) as H2. fold x in H2.
    pose proof s_bounds as Hb.
    rewrite Rlt_bool_true in H.
    - destruct H as (H1 & H3 & _). rewrite H1, H3, Hvf, Hef. split; [exact H2|reflexivity].
    - apply Rabs_def2 in H2. apply Rlt_trans with (2 := bpow_1024_big).
      apply Rabs_def1; lra.
  Qed.

  Lemma value_of_B : value_of s = B2SF Bv.
  Proof.
    unfold value_of, sf_1e8. rewrite !sf_of_Z_B. exact (SFdiv_B (Bof_Z s) Be8).
  Qed.

  Lemma times_B : times_1e8 (B2SF Bv) = B2SF Bp.
  Proof. unfold times_1e8, sf_1e8. rewrite sf_of_Z_B. exact (SFmul_B Bv Be8). Qed.

  Lemma credited_exact_pos : credited s = s.
  Proof.
    unfold credited, sat_of_value. rewrite value_of_B, times_B.
    destruct Bp_correct as [Hd Hf].
    rewrite (round_Z_near Bp s Hf (proj1 Hs) Hd).
    unfold go_int64, int64_min, int64_max.
    destruct Hs as [H1 H2].
    replace (-9223372036854775808 <=? s)%Z with true by (symmetry; apply Z.leb_le; lia).
    replace (s <=? 9223372036854775807)%Z with true by (symmetry; apply Z.leb_le; lia).
    reflexivity.
  Qed.
End Main.

Theorem sat_exact : forall s, sat_wf s = true -> credited s = s.
Proof.
  intros s Hw. unfold sat_wf, max_sat in Hw. apply andb_prop in Hw. destruct Hw as [H0 H1].
  apply Z.leb_le in H0. apply Z.leb_le in H1.
  destruct (Z.eq_dec s 0) as [->|Hn].
  - vm_compute. reflexivity.
  - apply credited_exact_pos. lia.
Qed.
