(* C12 - the subscription table under concurrent use: proofs about the schedule model (Model.C12
   sched) and the judge of concurrent runs. *)
From Coq Require Import List NArith Bool String Ascii Lia ZifyBool ZifyN ZifyNat Arith.
Import ListNotations.
From SygmaV Require Import Model.C12 Proofs.C12.
Local Open Scope string_scope.
Local Open Scope N_scope.
Local Open Scope list_scope.

(* ---- lists ---- *)

Lemma length_upd {A} (l : list A) : forall i x, List.length (upd l i x) = List.length l.
Proof. induction l as [|y r IH]; intros [|i] x; cbn; auto. Qed.

Lemma nth_error_upd_eq {A} (l : list A) : forall i x y,
  nth_error l i = Some y -> nth_error (upd l i x) i = Some x.
Proof. induction l as [|z r IH]; intros [|i] x y H; cbn in *; try discriminate; eauto. Qed.

Lemma nth_error_upd_neq {A} (l : list A) : forall i j x,
  i <> j -> nth_error (upd l i x) j = nth_error l j.
Proof.
  induction l as [|z r IH]; intros [|i] [|j] x H; cbn; try reflexivity; try congruence.
  apply IH. congruence.
Qed.

Lemma map_upd_same {A B} (f : A -> B) (l : list A) : forall i x y,
  nth_error l i = Some y -> f x = f y -> map f (upd l i x) = map f l.
Proof.
  induction l as [|z r IH]; intros [|i] x y H E; cbn in *; try discriminate.
  - injection H as ->. rewrite E. reflexivity.
  - f_equal. eapply IH; eassumption.
Qed.

Lemma filter_map_comm {A B} (f : B -> bool) (g : A -> B) (l : list A) :
  filter f (map g l) = map g (filter (fun x => f (g x)) l).
Proof. induction l as [|x r IH]; cbn; [reflexivity|]. destruct (f (g x)); cbn; rewrite IH; reflexivity. Qed.

Lemma filter_filter_comm {A} (f g : A -> bool) (l : list A) :
  filter f (filter g l) = filter g (filter f l).
Proof.
  induction l as [|x r IH]; cbn; [reflexivity|].
  destruct (g x) eqn:G, (f x) eqn:F; cbn; rewrite ?G, ?F, IH; reflexivity.
Qed.

Lemma filter_id_in {A} (f : A -> bool) (l : list A) :
  (forall x, In x l -> f x = true) -> filter f l = l.
Proof.
  induction l as [|x r IH]; intro H; cbn; [reflexivity|].
  rewrite (H x (or_introl eq_refl)). f_equal. apply IH. intros y Hy. apply H. right. exact Hy.
Qed.

Lemma filter_len_le {A} (f : A -> bool) (l : list A) : (List.length (filter f l) <= List.length l)%nat.
Proof. induction l as [|x r IH]; cbn; [lia|]. destruct (f x); cbn; lia. Qed.

Lemma firstn_S_nth {A} (l : list A) : forall d o,
  nth_error l d = Some o -> firstn (S d) l = firstn d l ++ [o].
Proof.
  induction l as [|x r IH]; intros [|d] o H; cbn in *; try discriminate.
  - injection H as ->. reflexivity.
  - f_equal. apply IH. exact H.
Qed.

Lemma nth_error_snoc {A} (l : list A) (x : A) k y :
  nth_error (l ++ [x]) k = Some y ->
  (nth_error l k = Some y /\ (k < List.length l)%nat) \/ (k = List.length l /\ y = x).
Proof.
  intro H. destruct (Nat.lt_ge_cases k (List.length l)) as [Hlt|Hge].
  - left. rewrite nth_error_app1 in H by exact Hlt. tauto.
  - right. rewrite nth_error_app2 in H by exact Hge.
    destruct (k - List.length l)%nat eqn:E; cbn in H.
    + injection H as <-. split; [lia|reflexivity].
    + destruct n; discriminate.
Qed.

Lemma list_sum_cons (x : nat) l : list_sum (x :: l) = (x + list_sum l)%nat.
Proof. reflexivity. Qed.

Lemma list_sum_map_add {A} (f g : A -> nat) (l : list A) :
  list_sum (map (fun i => (f i + g i)%nat) l) = (list_sum (map f l) + list_sum (map g l))%nat.
Proof. induction l as [|x r IH]; [reflexivity|]. cbn [map]. rewrite !list_sum_cons, IH. lia. Qed.

Lemma list_sum_map_ext_in {A} (f g : A -> nat) (l : list A) :
  (forall x, In x l -> f x = g x) -> list_sum (map f l) = list_sum (map g l).
Proof. intro H. f_equal. apply map_ext_in. exact H. Qed.

Lemma list_sum_map_le {A} (f g : A -> nat) (l : list A) :
  (forall x, In x l -> (f x <= g x)%nat) -> (list_sum (map f l) <= list_sum (map g l))%nat.
Proof.
  induction l as [|x r IH]; intro H; [cbn; lia|].
  cbn [map]. rewrite !list_sum_cons.
  pose proof (H x (or_introl eq_refl)). assert (list_sum (map f r) <= list_sum (map g r))%nat.
  { apply IH. intros y Hy. apply H. right. exact Hy. }
  lia.
Qed.

Lemma zero_sum {A} (l : list A) : list_sum (map (fun _ => O) l) = O.
Proof. induction l as [|x r IH]; [reflexivity|]. cbn [map]. rewrite list_sum_cons, IH. reflexivity. Qed.

Lemma indicator_sum (k v : nat) : forall n a,
  (a <= k < a + n)%nat ->
  list_sum (map (fun i => if Nat.eqb k i then v else O) (seq a n)) = v.
Proof.
  induction n as [|n IH]; intros a H; [lia|].
  cbn [seq map]. rewrite list_sum_cons. destruct (Nat.eqb k a) eqn:E.
  - apply Nat.eqb_eq in E. subst a.
    rewrite (list_sum_map_ext_in _ (fun _ => O)).
    + rewrite zero_sum. lia.
    + intros x Hx. apply in_seq in Hx. destruct (Nat.eqb k x) eqn:E; [apply Nat.eqb_eq in E; lia | reflexivity].
  - apply Nat.eqb_neq in E. rewrite IH; lia.
Qed.

Lemma seq_nth_map {A B} (g : A -> B) (d : A) (l : list A) :
  map (fun i => g (nth i l d)) (seq 0 (List.length l)) = map g l.
Proof.
  induction l as [|x r IH]; [reflexivity|].
  cbn [List.length seq map nth]. f_equal.
  rewrite <- seq_shift, map_map. exact IH.
Qed.

(* ---- counting channels ---- *)

Lemma copies_app c a b : copies c (a ++ b) = (copies c a + copies c b)%nat.
Proof. unfold copies. rewrite filter_app, app_length. reflexivity. Qed.

Lemma copies_not_in c l : ~ In c l -> copies c l = O.
Proof.
  unfold copies. induction l as [|x r IH]; intro H; cbn; [reflexivity|].
  destruct (N.eqb c x) eqn:E.
  - apply N.eqb_eq in E. subst x. exfalso. apply H. left. reflexivity.
  - apply IH. intro Hin. apply H. right. exact Hin.
Qed.

Lemma copies_pos_in c l : (0 < copies c l)%nat -> In c l.
Proof.
  intro H. destruct (in_dec N.eq_dec c l) as [Hin|Hn]; [exact Hin|].
  rewrite (copies_not_in _ _ Hn) in H. lia.
Qed.

Lemma copies_flat_map {A} c (f : A -> list N) (l : list A) :
  copies c (flat_map f l) = list_sum (map (fun x => copies c (f x)) l).
Proof.
  induction l as [|x r IH]; [reflexivity|].
  cbn [flat_map map]. rewrite copies_app, list_sum_cons, IH. reflexivity.
Qed.

Lemma copies_insert c x l : copies c (insert_sorted x l) = copies c (x :: l).
Proof.
  induction l as [|y r IH]; cbn [insert_sorted]; [reflexivity|].
  destruct (x <=? y); [reflexivity|].
  unfold copies in *. cbn [filter] in *.
  destruct (N.eqb c y), (N.eqb c x); cbn [List.length] in *; lia.
Qed.

Lemma copies_sort c l : copies c (sort l) = copies c l.
Proof.
  unfold sort. induction l as [|x r IH]; [reflexivity|].
  cbn [fold_right]. rewrite copies_insert.
  unfold copies in *. cbn [filter]. destruct (N.eqb c x); cbn [List.length]; rewrite IH; reflexivity.
Qed.

(* the (s, t, c) subscriptions of a live list, counted *)
Definition is_stc (s : string) (t : N) (c : N) (a : sub) : bool := sta_eqb s t a && N.eqb c (a_c a).

Lemma copies_spec s t c live :
  copies c (spec_subscribers s t live) = List.length (filter (is_stc s t c) live).
Proof.
  unfold copies, spec_subscribers, is_stc.
  induction live as [|a r IH]; [reflexivity|].
  cbn [filter map]. destruct (sta_eqb s t a); cbn [map filter andb]; [|exact IH].
  destruct (N.eqb c (a_c a)); cbn [List.length]; rewrite IH; reflexivity.
Qed.

Lemma counts_eqb_iff a b : counts_eqb a b = true <-> (forall c, copies c a = copies c b).
Proof.
  unfold counts_eqb. rewrite forallb_forall. split.
  - intros H c. destruct (in_dec N.eq_dec c (a ++ b)) as [Hin|Hn].
    + apply Nat.eqb_eq. apply H. exact Hin.
    + rewrite !copies_not_in; [reflexivity| |]; intro Hc; apply Hn, in_app_iff; tauto.
  - intros H c _. apply Nat.eqb_eq. apply H.
Qed.

(* ---- a thread's own history bounds what it can have live ---- *)

Lemma sub_chans_app s t a b : sub_chans s t (a ++ b) = sub_chans s t a ++ sub_chans s t b.
Proof. unfold sub_chans. apply flat_map_app. Qed.

Lemma live_le_subs s t c ops : forall st,
  (copies c (spec_subscribers s t (fst (run_a st ops))) <=
   copies c (spec_subscribers s t (fst st)) + copies c (sub_chans s t ops))%nat.
Proof.
  induction ops as [|o r IH]; intros [live next]; [cbn; lia|].
  cbn [run_a fold_left].
  change (fold_left step_a r ?x) with (run_a x r).
  specialize (IH (step_a (live, next) o)).
  change (o :: r) with ([o] ++ r). rewrite sub_chans_app, copies_app.
  enough (copies c (spec_subscribers s t (fst (step_a (live, next) o))) <=
          copies c (spec_subscribers s t live) + copies c (sub_chans s t [o]))%nat by (cbn [fst] in *; lia).
  destruct o as [s' t' u c'|k|s' t']; cbn [step_a fst].
  - rewrite !copies_spec, filter_app, app_length. cbn [filter sub_chans flat_map].
    unfold is_stc at 2, sta_eqb. cbn [a_s a_t a_c].
    rewrite app_nil_r. rewrite N.eqb_sym.
    destruct (N.eqb t t') eqn:Et; cbn.
    + rewrite andb_true_r. destruct (String.eqb s' s) eqn:Es; cbn.
      * unfold copies. cbn. destruct (N.eqb c c'); cbn; lia.
      * lia.
    + rewrite andb_false_r. cbn. lia.
  - rewrite !copies_spec. cbn.
    assert (List.length (filter (is_stc s t c) (filter (fun a => negb (Nat.eqb (a_k a) k)) live))
            <= List.length (filter (is_stc s t c) live))%nat; [|lia].
    rewrite filter_filter_comm. apply filter_len_le.
  - cbn. lia.
Qed.

Lemma sub_chans_firstn_le s t c ops d :
  (copies c (sub_chans s t (firstn d ops)) <= copies c (sub_chans s t ops))%nat.
Proof.
  rewrite <- (firstn_skipn d ops) at 2. rewrite sub_chans_app, copies_app. lia.
Qed.

Lemma own_le_subs s t c ops d :
  (copies c (spec_subscribers s t (fst (run_a a_init (firstn d ops)))) <= copies c (sub_chans s t ops))%nat.
Proof.
  pose proof (live_le_subs s t c (firstn d ops) a_init) as H. cbn in H.
  pose proof (sub_chans_firstn_le s t c ops d). lia.
Qed.

Lemma sub_chans_owns s t c ops : In c (sub_chans s t ops) -> owns ops c = true.
Proof.
  unfold sub_chans, owns. intro H. apply in_flat_map in H as [o [Ho Hc]].
  apply existsb_exists. exists o. split; [exact Ho|].
  destruct o as [s' t' u c'|k|s' t']; try contradiction.
  destruct (N.eqb t' t); [|contradiction]. destruct (String.eqb s' s); [|contradiction].
  destruct Hc as [<-|[]]. apply N.eqb_refl.
Qed.

Lemma not_owned_zero s t c ops d :
  owns ops c = false -> copies c (spec_subscribers s t (fst (run_a a_init (firstn d ops)))) = O.
Proof.
  intro H. pose proof (own_le_subs s t c ops d) as Hle.
  rewrite (copies_not_in c (sub_chans s t ops)) in Hle; [lia|].
  intro Hin. apply sub_chans_owns in Hin. congruence.
Qed.

Lemma mine_owned s t c ops d :
  In c (spec_subscribers s t (fst (run_a a_init (firstn d ops)))) -> owns ops c = true.
Proof.
  intro H. destruct (owns ops c) eqn:E; [reflexivity|].
  pose proof (not_owned_zero s t c ops d E) as Hz.
  destruct (in_dec N.eq_dec c (spec_subscribers s t (fst (run_a a_init (firstn d ops))))) as [Hin|Hn]; [|contradiction].
  exfalso. clear H. unfold copies in Hz.
  induction (spec_subscribers s t (fst (run_a a_init (firstn d ops)))) as [|x r IH]; [contradiction|].
  cbn in Hz. destruct Hin as [->|Hin].
  - rewrite N.eqb_refl in Hz. discriminate.
  - destruct (N.eqb c x); [discriminate|]. apply IH; assumption.
Qed.

(* ---- the invariant of the schedule model ---- *)

Definition hm_of (thrs : list thr) (i : nat) : list nat :=
  match nth_error thrs i with Some th => th_hm th | None => [] end.

(* a tagged live subscription (thread, thread-local entry) as the shared table's specification has it *)
Definition ren (thrs : list thr) (x : nat * sub) : sub :=
  mk_sub (nth (a_k (snd x)) (hm_of thrs (fst x)) O) (a_s (snd x)) (a_t (snd x)) (a_c (snd x)).

Definition tag_is (i : nat) (x : nat * sub) : bool := Nat.eqb (fst x) i.

Record GInv (ths : list (list op)) (g : gst) : Prop := mk_GInv {
  gi_ops : map th_ops (g_thr g) = ths;
  gi_run : run_a a_init (g_hist g) = (map (ren (g_thr g)) (g_tl g), g_next g);
  gi_thr : forall i th, nth_error (g_thr g) i = Some th ->
             run_a a_init (firstn (th_done th) (th_ops th)) =
               (map snd (filter (tag_is i) (g_tl g)), List.length (th_hm th))
             /\ (th_done th <= List.length (th_ops th))%nat;
  gi_tl : forall x, In x (g_tl g) -> (a_k (snd x) < List.length (hm_of (g_thr g) (fst x)))%nat;
  gi_lt : forall i k gk, nth_error (hm_of (g_thr g) i) k = Some gk -> (gk < g_next g)%nat;
  gi_inj : forall i k i' k' gk,
             nth_error (hm_of (g_thr g) i) k = Some gk -> nth_error (hm_of (g_thr g) i') k' = Some gk ->
             i = i' /\ k = k'
}.

Lemma hm_of_init ths i : hm_of (map (fun ops => mk_thr ops O [] []) ths) i = [].
Proof.
  unfold hm_of. rewrite nth_error_map. destruct (nth_error ths i); reflexivity.
Qed.

Lemma GInv_init ths : GInv ths (g_init ths).
Proof.
  unfold g_init. constructor; cbn [g_thr g_hist g_tl g_next].
  - rewrite map_map. cbn. apply map_id.
  - reflexivity.
  - intros i th H. rewrite nth_error_map in H. destruct (nth_error ths i); [|discriminate].
    injection H as <-. cbn. split; [reflexivity | lia].
  - intros x [].
  - intros i k gk H. rewrite hm_of_init in H. destruct k; discriminate.
  - intros i k i' k' gk H. rewrite hm_of_init in H. destruct k; discriminate.
Qed.

Lemma hm_of_upd thrs i th th' j :
  nth_error thrs i = Some th ->
  hm_of (upd thrs i th') j = if Nat.eqb j i then th_hm th' else hm_of thrs j.
Proof.
  intro H. unfold hm_of. destruct (Nat.eqb j i) eqn:E.
  - apply Nat.eqb_eq in E. subst j. rewrite (nth_error_upd_eq _ _ _ _ H). reflexivity.
  - apply Nat.eqb_neq in E. rewrite nth_error_upd_neq by congruence. reflexivity.
Qed.

Lemma step_a_snoc ops o : run_a a_init (ops ++ [o]) = step_a (run_a a_init ops) o.
Proof. rewrite run_a_app. reflexivity. Qed.

(* run_a on a prefix extended by the thread's next operation *)
Lemma own_next th o :
  nth_error (th_ops th) (th_done th) = Some o ->
  run_a a_init (firstn (S (th_done th)) (th_ops th)) =
  step_a (run_a a_init (firstn (th_done th) (th_ops th))) o.
Proof. intro H. rewrite (firstn_S_nth _ _ _ H). apply step_a_snoc. Qed.

Lemma nth_error_lt {A} (l : list A) k x : nth_error l k = Some x -> (k < List.length l)%nat.
Proof. intro H. apply nth_error_Some. congruence. Qed.

Lemma nth_of_nth_error {A} (l : list A) k x d : nth_error l k = Some x -> nth k l d = x.
Proof. intro H. apply nth_error_nth. exact H. Qed.

Lemma nth_error_of_lt {A} (l : list A) k d : (k < List.length l)%nat -> nth_error l k = Some (nth k l d).
Proof. intro H. apply nth_error_nth'. exact H. Qed.

Section Step.
  Variable ths : list (list op).
  Variable g : gst.
  Hypothesis HI : GInv ths g.
  Variable i : nat.
  Variable th : thr.
  Hypothesis Hth : nth_error (g_thr g) i = Some th.
  Variable o : op.
  Hypothesis Ho : nth_error (th_ops th) (th_done th) = Some o.

  Let live_i := map snd (filter (tag_is i) (g_tl g)).

  Lemma own_run : run_a a_init (firstn (th_done th) (th_ops th)) = (live_i, List.length (th_hm th)).
  Proof. exact (proj1 (gi_thr _ _ HI i th Hth)). Qed.

  Lemma done_lt : (S (th_done th) <= List.length (th_ops th))%nat.
  Proof. apply nth_error_lt in Ho. lia. Qed.

  Lemma hm_i : hm_of (g_thr g) i = th_hm th.
  Proof. unfold hm_of. rewrite Hth. reflexivity. Qed.

  (* the three kinds of step *)

  Lemma step_sub_GInv s t u c obs' :
    o = Sub s t u c ->
    GInv ths (mk_gst (g_hist g ++ [o]) (S (g_next g))
                     (upd (g_thr g) i (mk_thr (th_ops th) (S (th_done th)) (th_hm th ++ [g_next g]) obs'))
                     (g_tl g ++ [(i, mk_sub (List.length (th_hm th)) s t c)])).
  Proof.
    intro Eo. set (th' := mk_thr _ _ _ _).
    assert (Hhm : forall j, hm_of (upd (g_thr g) i th') j =
                            if Nat.eqb j i then th_hm th ++ [g_next g] else hm_of (g_thr g) j).
    { intro j. rewrite (hm_of_upd _ _ _ th' j Hth). reflexivity. }
    assert (Hren : forall x, In x (g_tl g) -> ren (upd (g_thr g) i th') x = ren (g_thr g) x).
    { intros x Hx. unfold ren. rewrite Hhm. destruct (Nat.eqb (fst x) i) eqn:E; [|reflexivity].
      apply Nat.eqb_eq in E. pose proof (gi_tl _ _ HI x Hx) as Hlt. rewrite E, hm_i in Hlt.
      rewrite E, hm_i. rewrite app_nth1 by exact Hlt. reflexivity. }
    constructor; cbn [g_thr g_hist g_tl g_next].
    - rewrite (map_upd_same th_ops _ _ _ _ Hth); [exact (gi_ops _ _ HI) | reflexivity].
    - rewrite step_a_snoc, (gi_run _ _ HI), Eo. cbn [step_a]. f_equal.
      rewrite map_app. f_equal; [symmetry; apply map_ext_in; exact Hren|].
      cbn [map]. unfold ren. cbn [fst snd a_k a_s a_t a_c]. rewrite Hhm, Nat.eqb_refl.
      rewrite nth_middle. reflexivity.
    - intros j thj Hj. destruct (Nat.eq_dec j i) as [->|Hne].
      + rewrite (nth_error_upd_eq _ _ _ _ Hth) in Hj. injection Hj as <-. cbn [th_ops th_done th_hm th'].
        split; [|exact done_lt].
        rewrite (own_next _ _ Ho), own_run, Eo. cbn [step_a].
        rewrite filter_app, map_app. cbn [filter]. unfold tag_is. cbn [fst]. rewrite Nat.eqb_refl.
        cbn [map snd]. rewrite app_length. cbn [List.length]. f_equal. lia.
      + rewrite nth_error_upd_neq in Hj by congruence.
        destruct (gi_thr _ _ HI j thj Hj) as [Hr Hd]. split; [|exact Hd].
        rewrite Hr. f_equal. rewrite filter_app. cbn [filter]. unfold tag_is. cbn [fst].
        replace (Nat.eqb i j) with false by (symmetry; apply Nat.eqb_neq; congruence).
        rewrite app_nil_r. reflexivity.
    - intros x Hx. apply in_app_iff in Hx as [Hx|[<-|[]]].
      + pose proof (gi_tl _ _ HI x Hx) as Hlt. rewrite Hhm.
        destruct (Nat.eqb (fst x) i) eqn:E; [|exact Hlt].
        apply Nat.eqb_eq in E. rewrite E, hm_i in Hlt. rewrite app_length. lia.
      + cbn [fst snd a_k]. rewrite Hhm, Nat.eqb_refl, app_length. cbn. lia.
    - intros j k gk Hk. rewrite Hhm in Hk. destruct (Nat.eqb j i) eqn:E.
      + apply nth_error_snoc in Hk as [[Hk _]|[_ ->]]; [|lia].
        rewrite <- hm_i in Hk. pose proof (gi_lt _ _ HI _ _ _ Hk). lia.
      + pose proof (gi_lt _ _ HI _ _ _ Hk). lia.
    - intros j k j' k' gk Hk Hk'. rewrite Hhm in Hk, Hk'.
      destruct (Nat.eqb j i) eqn:E; destruct (Nat.eqb j' i) eqn:E'.
      + apply Nat.eqb_eq in E, E'. subst j j'. split; [reflexivity|].
        apply nth_error_snoc in Hk as [[Hk Hl]|[-> ->]]; apply nth_error_snoc in Hk' as [[Hk' Hl']|[-> Hg]].
        * rewrite <- hm_i in Hk, Hk'. exact (proj2 (gi_inj _ _ HI _ _ _ _ _ Hk Hk')).
        * subst gk. rewrite <- hm_i in Hk. pose proof (gi_lt _ _ HI _ _ _ Hk). lia.
        * rewrite <- hm_i in Hk'. pose proof (gi_lt _ _ HI _ _ _ Hk'). lia.
        * reflexivity.
      + apply Nat.eqb_eq in E. subst j.
        apply nth_error_snoc in Hk as [[Hk Hl]|[-> ->]].
        * rewrite <- hm_i in Hk. exact (gi_inj _ _ HI _ _ _ _ _ Hk Hk').
        * pose proof (gi_lt _ _ HI _ _ _ Hk'). lia.
      + apply Nat.eqb_eq in E'. subst j'.
        apply nth_error_snoc in Hk' as [[Hk' Hl]|[-> ->]].
        * rewrite <- hm_i in Hk'. exact (gi_inj _ _ HI _ _ _ _ _ Hk Hk').
        * pose proof (gi_lt _ _ HI _ _ _ Hk). lia.
      + exact (gi_inj _ _ HI _ _ _ _ _ Hk Hk').
  Qed.

  (* a step that leaves the handle map of the thread as it is *)
  Lemma hm_same obs' d' j :
    hm_of (upd (g_thr g) i (mk_thr (th_ops th) d' (th_hm th) obs')) j = hm_of (g_thr g) j.
  Proof.
    rewrite (hm_of_upd _ _ _ _ _ Hth). destruct (Nat.eqb j i) eqn:E; [|reflexivity].
    apply Nat.eqb_eq in E. subst j. rewrite hm_i. reflexivity.
  Qed.

  Lemma ren_same obs' d' x :
    ren (upd (g_thr g) i (mk_thr (th_ops th) d' (th_hm th) obs')) x = ren (g_thr g) x.
  Proof. unfold ren. rewrite hm_same. reflexivity. Qed.

  Definition keep (j : nat) (x : nat * sub) : bool := negb (Nat.eqb (fst x) i && Nat.eqb (a_k (snd x)) j).

  Lemma step_unsub_GInv j obs' :
    o = Unsub j ->
    GInv ths (mk_gst (g_hist g ++ match nth_error (th_hm th) j with Some gj => [Unsub gj] | None => [] end)
                     (g_next g)
                     (upd (g_thr g) i (mk_thr (th_ops th) (S (th_done th)) (th_hm th) obs'))
                     (filter (keep j) (g_tl g))).
  Proof.
    intro Eo. set (th' := mk_thr _ _ _ _).
    constructor; cbn [g_thr g_hist g_tl g_next].
    - rewrite (map_upd_same th_ops _ _ _ _ Hth); [exact (gi_ops _ _ HI) | reflexivity].
    - rewrite (map_ext _ _ (ren_same obs' (S (th_done th)))).
      destruct (nth_error (th_hm th) j) as [gj|] eqn:Ej.
      + rewrite step_a_snoc, (gi_run _ _ HI). cbn [step_a]. f_equal.
        rewrite filter_map_comm. f_equal. apply filter_ext_in. intros x Hx.
        unfold keep, ren. cbn [a_k]. f_equal.
        pose proof (gi_tl _ _ HI x Hx) as Hlt.
        pose proof (nth_error_of_lt _ _ O Hlt) as Hn.
        destruct (Nat.eqb (nth (a_k (snd x)) (hm_of (g_thr g) (fst x)) O) gj) eqn:E.
        * apply Nat.eqb_eq in E. rewrite E in Hn. rewrite <- hm_i in Ej.
          destruct (gi_inj _ _ HI _ _ _ _ _ Hn Ej) as [-> ->]. rewrite !Nat.eqb_refl. reflexivity.
        * destruct (Nat.eqb (fst x) i && Nat.eqb (a_k (snd x)) j) eqn:E2; [|reflexivity].
          apply andb_true_iff in E2 as [E2 E3]. apply Nat.eqb_eq in E2, E3.
          rewrite E2, E3, hm_i in E. rewrite (nth_of_nth_error _ _ _ O Ej), Nat.eqb_refl in E. discriminate.
      + rewrite app_nil_r, (gi_run _ _ HI). f_equal. f_equal. symmetry. apply filter_id_in.
        intros x Hx. unfold keep. apply negb_true_iff.
        destruct (Nat.eqb (fst x) i) eqn:E; [|reflexivity]. apply Nat.eqb_eq in E. cbn.
        pose proof (gi_tl _ _ HI x Hx) as Hlt. rewrite E, hm_i in Hlt.
        apply nth_error_None in Ej. apply Nat.eqb_neq. lia.
    - intros j' thj Hj. destruct (Nat.eq_dec j' i) as [->|Hne].
      + rewrite (nth_error_upd_eq _ _ _ _ Hth) in Hj. injection Hj as <-. cbn [th_ops th_done th_hm th'].
        split; [|exact done_lt].
        rewrite (own_next _ _ Ho), own_run, Eo. cbn [step_a]. f_equal.
        unfold live_i. rewrite filter_filter_comm, filter_map_comm. f_equal.
        apply filter_ext_in. intros x Hx. apply filter_In in Hx as [_ Hx].
        unfold tag_is in Hx. unfold keep. rewrite Hx. reflexivity.
      + rewrite nth_error_upd_neq in Hj by congruence.
        destruct (gi_thr _ _ HI j' thj Hj) as [Hr Hd]. split; [|exact Hd].
        rewrite Hr. f_equal. f_equal. symmetry. rewrite filter_filter_comm. apply filter_id_in.
        intros x Hx. apply filter_In in Hx as [_ Hx]. unfold tag_is in Hx. apply Nat.eqb_eq in Hx.
        unfold keep. replace (Nat.eqb (fst x) i) with false; [reflexivity|].
        symmetry. apply Nat.eqb_neq. congruence.
    - subst th'. intros x Hx. apply filter_In in Hx as [Hx _]. rewrite hm_same. exact (gi_tl _ _ HI x Hx).
    - subst th'. intros j' k gk Hk. rewrite hm_same in Hk. exact (gi_lt _ _ HI _ _ _ Hk).
    - subst th'. intros j1 k1 j2 k2 gk H1 H2. rewrite hm_same in H1, H2. exact (gi_inj _ _ HI _ _ _ _ _ H1 H2).
  Qed.

  Lemma step_deliver_GInv s t obs' :
    o = Deliver s t ->
    GInv ths (mk_gst (g_hist g ++ [o]) (g_next g)
                     (upd (g_thr g) i (mk_thr (th_ops th) (S (th_done th)) (th_hm th) obs')) (g_tl g)).
  Proof.
    intro Eo. constructor; cbn [g_thr g_hist g_tl g_next].
    - rewrite (map_upd_same th_ops _ _ _ _ Hth); [exact (gi_ops _ _ HI) | reflexivity].
    - rewrite (map_ext _ _ (ren_same obs' (S (th_done th)))).
      rewrite step_a_snoc, (gi_run _ _ HI), Eo. reflexivity.
    - intros j' thj Hj. destruct (Nat.eq_dec j' i) as [->|Hne].
      + rewrite (nth_error_upd_eq _ _ _ _ Hth) in Hj. injection Hj as <-. cbn [th_ops th_done th_hm].
        split; [|exact done_lt].
        rewrite (own_next _ _ Ho), own_run, Eo. reflexivity.
      + rewrite nth_error_upd_neq in Hj by congruence. exact (gi_thr _ _ HI j' thj Hj).
    - intros x Hx. rewrite hm_same. exact (gi_tl _ _ HI x Hx).
    - intros j' k gk Hk. rewrite hm_same in Hk. exact (gi_lt _ _ HI _ _ _ Hk).
    - intros j1 k1 j2 k2 gk H1 H2. rewrite hm_same in H1, H2. exact (gi_inj _ _ HI _ _ _ _ _ H1 H2).
  Qed.
End Step.

Lemma sched_step_GInv ths g i : GInv ths g -> GInv ths (sched_step g i).
Proof.
  intro HI. unfold sched_step.
  destruct (nth_error (g_thr g) i) as [th|] eqn:Hth; [|exact HI].
  destruct (nth_error (th_ops th) (th_done th)) as [o|] eqn:Ho; [|exact HI].
  destruct o as [s t u c|j|s t].
  - exact (step_sub_GInv ths g HI i th Hth _ Ho s t u c _ eq_refl).
  - exact (step_unsub_GInv ths g HI i th Hth _ Ho j _ eq_refl).
  - exact (step_deliver_GInv ths g HI i th Hth _ Ho s t _ eq_refl).
Qed.

Lemma fold_GInv ths sigma : forall g, GInv ths g -> GInv ths (fold_left sched_step sigma g).
Proof.
  induction sigma as [|i r IH]; intros g HI; [exact HI|].
  cbn [fold_left]. apply IH. apply sched_step_GInv. exact HI.
Qed.

Lemma sched_GInv ths sigma : GInv ths (sched sigma ths).
Proof. apply fold_GInv. apply GInv_init. Qed.

(* ---- consequences: the shared table is the sum of the threads' own tables ---- *)

Lemma partition_count {A} (tag : A -> nat) (Q : A -> bool) (n : nat) (l : list A) :
  (forall x, In x l -> (tag x < n)%nat) ->
  List.length (filter Q l) =
  list_sum (map (fun i => List.length (filter Q (filter (fun x => Nat.eqb (tag x) i) l))) (seq 0 n)).
Proof.
  induction l as [|x r IH]; intro H.
  - cbn. rewrite zero_sum. reflexivity.
  - assert (Hr : forall y, In y r -> (tag y < n)%nat) by (intros y Hy; apply H; right; exact Hy).
    specialize (IH Hr).
    rewrite (list_sum_map_ext_in _
               (fun i => ((if Nat.eqb (tag x) i then (if Q x then 1 else 0) else 0) +
                          List.length (filter Q (filter (fun y => Nat.eqb (tag y) i) r)))%nat)).
    + rewrite list_sum_map_add, <- IH, indicator_sum by (pose proof (H x (or_introl eq_refl)); lia).
      cbn [filter]. destruct (Q x); reflexivity.
    + intros i _. cbn [filter]. destruct (Nat.eqb (tag x) i); cbn [filter]; [|reflexivity].
      destruct (Q x); reflexivity.
Qed.

Section Consequences.
  Variable ths : list (list op).
  Variable g : gst.
  Hypothesis HI : GInv ths g.

  Lemma thr_length : List.length (g_thr g) = List.length ths.
  Proof. rewrite <- (gi_ops _ _ HI). rewrite map_length. reflexivity. Qed.

  Lemma thr_at i : (i < List.length ths)%nat ->
    exists th, nth_error (g_thr g) i = Some th /\ th_ops th = nth i ths [] /\ th_done th = progress g i.
  Proof.
    intro Hi. rewrite <- thr_length in Hi.
    destruct (nth_error (g_thr g) i) as [th|] eqn:E; [|apply nth_error_None in E; lia].
    exists th. split; [reflexivity|]. split.
    - rewrite <- (gi_ops _ _ HI). symmetry. apply nth_of_nth_error. rewrite nth_error_map, E. reflexivity.
    - unfold progress. rewrite E. reflexivity.
  Qed.

  Lemma own_state_tl i : (i < List.length ths)%nat ->
    fst (own_state g ths i) = map snd (filter (tag_is i) (g_tl g)).
  Proof.
    intro Hi. destruct (thr_at i Hi) as [th [Hth [Hops Hd]]].
    unfold own_state. rewrite <- Hops, <- Hd. rewrite (proj1 (gi_thr _ _ HI i th Hth)). reflexivity.
  Qed.

  Lemma progress_le i : (progress g i <= List.length (nth i ths []))%nat.
  Proof.
    destruct (Nat.lt_ge_cases i (List.length ths)) as [Hi|Hi].
    - destruct (thr_at i Hi) as [th [Hth [Hops Hd]]]. rewrite <- Hops, <- Hd.
      exact (proj2 (gi_thr _ _ HI i th Hth)).
    - unfold progress. rewrite <- thr_length in Hi. apply nth_error_None in Hi. rewrite Hi. lia.
  Qed.

  (* for every (session, type) and channel: the shared table holds the channel as often as the
     threads' own tables together *)
  Lemma table_sum s t c :
    copies c (spec_subscribers s t (fst (run_a a_init (g_hist g)))) =
    list_sum (map (fun i => copies c (spec_subscribers s t (fst (own_state g ths i)))) (seq 0 (List.length ths))).
  Proof.
    rewrite (gi_run _ _ HI). cbn [fst]. rewrite copies_spec, filter_map_comm, map_length.
    rewrite (filter_ext _ (fun x => is_stc s t c (snd x))) by reflexivity.
    rewrite (partition_count fst (fun x => is_stc s t c (snd x)) (List.length ths)).
    - apply list_sum_map_ext_in. intros i Hi. apply in_seq in Hi.
      rewrite own_state_tl by lia. rewrite copies_spec, filter_map_comm, map_length. reflexivity.
    - intros x Hx. pose proof (gi_tl _ _ HI x Hx) as Hlt. rewrite <- thr_length.
      unfold hm_of in Hlt. destruct (nth_error (g_thr g) (fst x)) eqn:E; [|cbn in Hlt; lia].
      apply nth_error_lt in E. exact E.
  Qed.

  (* a channel subscribed by thread i only occurs exactly as thread i's own history says *)
  Lemma table_own s t c i :
    (i < List.length ths)%nat ->
    (forall j, j <> i -> owns (nth j ths []) c = false) ->
    copies c (spec_subscribers s t (fst (run_a a_init (g_hist g)))) =
    copies c (spec_subscribers s t (fst (own_state g ths i))).
  Proof.
    intros Hi Hother. rewrite table_sum.
    rewrite (list_sum_map_ext_in _
               (fun j => if Nat.eqb i j then copies c (spec_subscribers s t (fst (own_state g ths i))) else O)).
    - apply indicator_sum. lia.
    - intros j _. destruct (Nat.eqb i j) eqn:E.
      + apply Nat.eqb_eq in E. subst j. reflexivity.
      + apply Nat.eqb_neq in E. unfold own_state. apply not_owned_zero. apply Hother. congruence.
  Qed.

  (* no channel occurs more often than it is ever subscribed to that (session, type) *)
  Lemma table_bound s t c :
    (copies c (spec_subscribers s t (fst (run_a a_init (g_hist g)))) <=
     copies c (sub_chans s t (List.concat ths)))%nat.
  Proof.
    rewrite table_sum.
    replace (copies c (sub_chans s t (List.concat ths)))
      with (list_sum (map (fun i => copies c (sub_chans s t (nth i ths []))) (seq 0 (List.length ths)))).
    - apply list_sum_map_le. intros i _. unfold own_state. apply own_le_subs.
    - rewrite (seq_nth_map (fun ops => copies c (sub_chans s t ops)) [] ths).
      clear. induction ths as [|x r IH]; [reflexivity|].
      cbn [map List.concat]. rewrite list_sum_cons, sub_chans_app, copies_app, IH. reflexivity.
  Qed.
End Consequences.

(* ---- ownership ---- *)

Lemma owns_chans ops c : owns ops c = true -> In c (chans_of ops).
Proof.
  unfold owns, chans_of. intro H. apply existsb_exists in H as [o [Ho Hc]].
  apply in_flat_map. exists o. split; [exact Ho|].
  destruct o as [s t u c'|k|s t]; try discriminate. apply N.eqb_eq in Hc. left. exact Hc.
Qed.

Lemma owns_nil c : owns [] c = false.
Proof. reflexivity. Qed.

Lemma wf_ownb_head x r c j :
  forallb (fun c => forallb (fun y => negb (owns y c)) r) (chans_of x) = true ->
  owns x c = true -> owns (nth j r []) c = true -> False.
Proof.
  intros H Hx Hj. rewrite forallb_forall in H. specialize (H c (owns_chans _ _ Hx)).
  rewrite forallb_forall in H.
  destruct (nth_in_or_default j r []) as [Hin|Hd].
  - specialize (H _ Hin). rewrite Hj in H. discriminate.
  - rewrite Hd, owns_nil in Hj. discriminate.
Qed.

Lemma wf_ownb_sound ths : wf_ownb ths = true -> wf_own ths.
Proof.
  induction ths as [|x r IH]; intros H i j c Hne Hi Hj.
  - destruct i; cbn in Hi; discriminate.
  - cbn [wf_ownb] in H. apply andb_true_iff in H as [Hh Hr].
    destruct i as [|i], j as [|j]; cbn [nth] in Hi, Hj.
    + congruence.
    + exact (wf_ownb_head _ _ _ _ Hh Hi Hj).
    + exact (wf_ownb_head _ _ _ _ Hh Hj Hi).
    + apply (IH Hr i j c); [congruence | exact Hi | exact Hj].
Qed.

(* ---- the judge of one lookup ---- *)

Lemma look_ok_iff own cand mine v :
  look_ok own cand mine v = true <->
  (forall c, if owns own c then copies c v = copies c mine else (copies c v <= copies c cand)%nat).
Proof.
  unfold look_ok. rewrite forallb_forall. split.
  - intros H c. destruct (in_dec N.eq_dec c (v ++ mine)) as [Hin|Hn].
    + specialize (H c Hin). destruct (owns own c); [apply Nat.eqb_eq | apply Nat.leb_le]; exact H.
    + assert (copies c v = O) by (apply copies_not_in; intro; apply Hn, in_app_iff; tauto).
      assert (copies c mine = O) by (apply copies_not_in; intro; apply Hn, in_app_iff; tauto).
      destruct (owns own c); lia.
  - intros H c _. specialize (H c). destruct (owns own c); [apply Nat.eqb_eq | apply Nat.leb_le]; exact H.
Qed.

Section LookModel.
  Variable ths : list (list op).
  Variable g : gst.
  Hypothesis HI : GInv ths g.
  Hypothesis Hown : wf_own ths.

  (* whatever the schedule: anything that has the shared table's counts passes the judge of a
     lookup by thread i, against thread i's own state at that moment *)
  Lemma look_model i s t v :
    (i < List.length ths)%nat ->
    (forall c, copies c v = copies c (spec_subscribers s t (fst (run_a a_init (g_hist g))))) ->
    look_ok (nth i ths []) (sub_chans s t (List.concat ths))
            (spec_subscribers s t (fst (own_state g ths i))) v = true.
  Proof.
    intros Hi Hv. apply look_ok_iff. intro c. rewrite Hv.
    destruct (owns (nth i ths []) c) eqn:E.
    - apply (table_own ths g HI s t c i Hi). intros j Hne.
      destruct (owns (nth j ths []) c) eqn:Ej; [|reflexivity].
      exfalso. exact (Hown j i c Hne Ej E).
    - apply (table_bound ths g HI).
  Qed.

  Lemma final_model s t v :
    complete g ths ->
    (forall c, copies c v = copies c (spec_subscribers s t (fst (run_a a_init (g_hist g))))) ->
    counts_eqb v (conc_final s t ths) = true.
  Proof.
    intros Hc Hv. apply counts_eqb_iff. intro c. rewrite Hv, (table_sum ths g HI).
    unfold conc_final. rewrite copies_flat_map.
    rewrite <- (seq_nth_map (fun ops => copies c (spec_subscribers s t (fst (run_a a_init ops)))) [] ths).
    apply list_sum_map_ext_in. intros i Hi. apply in_seq in Hi.
    unfold own_state. rewrite Hc by lia. rewrite firstn_all. reflexivity.
  Qed.
End LookModel.

(* ---- the judge of a thread's whole trace ---- *)

Section Trace.
  Context {X : Type}.
  Variable stepX : X -> op -> X.
  Variable subsX : X -> string -> N -> list N.
  Variable candf : string -> N -> list N.
  Variable own : list op.

  Definition check_op (st : X) (o : op) (ob : list (list N)) : bool :=
    match op_pair own o with
    | Some (s, t) => negb (Nat.eqb (List.length ob) 0) && forallb (look_ok own (candf s t) (subsX (stepX st o) s t)) ob
    | None => true
    end.

  Lemma thread_ok_snoc ops : forall st impl o ob,
    thread_ok_gen stepX subsX candf own st ops impl = true ->
    thread_ok_gen stepX subsX candf own st (ops ++ [o]) (impl ++ [ob]) = check_op (fold_left stepX ops st) o ob.
  Proof.
    induction ops as [|p r IH]; intros st impl o ob H.
    - destruct impl; [|discriminate]. cbn. unfold check_op.
      destruct (op_pair own o) as [[s t]|]; [rewrite andb_true_r|]; reflexivity.
    - destruct impl as [|q impl]; [discriminate|].
      cbn [thread_ok_gen] in H. apply andb_true_iff in H as [H1 H2].
      cbn [app thread_ok_gen fold_left]. rewrite H1. cbn [andb]. apply IH. exact H2.
  Qed.
End Trace.

Lemma thread_ok_gen_ext {X} (stepX : X -> op -> X) subsX (f1 f2 : string -> N -> list N) own ops :
  (forall s t, f1 s t = f2 s t) ->
  forall st impl, thread_ok_gen stepX subsX f1 own st ops impl = thread_ok_gen stepX subsX f2 own st ops impl.
Proof.
  intro E. induction ops as [|o r IH]; intros st impl; destruct impl as [|ob impl]; cbn; try reflexivity.
  rewrite IH. destruct (op_pair own o) as [[s t]|]; [rewrite E|]; reflexivity.
Qed.

Lemma sched_step_id g i :
  (nth_error (g_thr g) i = None \/
   exists th, nth_error (g_thr g) i = Some th /\ nth_error (th_ops th) (th_done th) = None) ->
  sched_step g i = g.
Proof.
  intros [H|[th [H1 H2]]]; unfold sched_step; [rewrite H | rewrite H1, H2]; reflexivity.
Qed.

Lemma sched_step_shape g i th o :
  nth_error (g_thr g) i = Some th -> nth_error (th_ops th) (th_done th) = Some o ->
  exists hm' gops,
    g_hist (sched_step g i) = g_hist g ++ gops /\
    g_thr (sched_step g i) =
      upd (g_thr g) i (mk_thr (th_ops th) (S (th_done th)) hm'
                              (th_obs th ++ [obs_of (fst (run_c unwrap c_init (g_hist g ++ gops))) (th_ops th) o])).
Proof.
  intros H1 H2. unfold sched_step. rewrite H1, H2.
  destruct o as [s t u c|j|s t]; eexists; eexists; split; reflexivity.
Qed.

Definition subsA (st : astate) (s : string) (t : N) : list N := spec_subscribers s t (fst st).

Lemma sched_trace ths sigma :
  wf_own ths -> wf_ops (g_hist (sched sigma ths)) = true ->
  forall i th, nth_error (g_thr (sched sigma ths)) i = Some th ->
    thread_ok_gen step_a subsA (fun s t => sub_chans s t (List.concat ths)) (th_ops th) a_init
                  (firstn (th_done th) (th_ops th)) (th_obs th) = true.
Proof.
  intro Hown. induction sigma as [|k sigma IH] using rev_ind; intros Hwf i th Hth.
  - cbn in Hth. rewrite nth_error_map in Hth. destruct (nth_error ths i); [|discriminate].
    injection Hth as <-. reflexivity.
  - unfold sched in *. rewrite fold_left_app in *. cbn [fold_left] in *.
    set (g := fold_left sched_step sigma (g_init ths)) in *.
    assert (HI : GInv ths g) by (apply fold_GInv, GInv_init).
    destruct (nth_error (g_thr g) k) as [thk|] eqn:Hk.
    2:{ rewrite (sched_step_id g k) in * by (left; exact Hk). exact (IH Hwf i th Hth). }
    destruct (nth_error (th_ops thk) (th_done thk)) as [o|] eqn:Ho.
    2:{ rewrite (sched_step_id g k) in * by (right; exists thk; split; assumption). exact (IH Hwf i th Hth). }
    destruct (sched_step_shape g k thk o Hk Ho) as [hm' [gops [Hh Ht]]].
    rewrite Hh in Hwf. rewrite Ht in Hth.
    assert (Hwf0 : wf_ops (g_hist g) = true) by exact (wf_from_app _ _ _ Hwf).
    destruct (Nat.eq_dec i k) as [->|Hne].
    2:{ rewrite nth_error_upd_neq in Hth by congruence. exact (IH Hwf0 i th Hth). }
    rewrite (nth_error_upd_eq _ _ _ _ Hk) in Hth. injection Hth as <-. cbn [th_ops th_done th_obs].
    rewrite (firstn_S_nth _ _ _ Ho).
    rewrite (thread_ok_snoc step_a subsA _ (th_ops thk) _ _ _ _ _ (IH Hwf0 k thk Hk)).
    unfold check_op, obs_of.
    destruct (op_pair (th_ops thk) o) as [[s t]|] eqn:Ep; [|reflexivity].
    (* the state after the step *)
    pose proof (sched_step_GInv ths g k HI) as HI'.
    assert (Hklt : (k < List.length ths)%nat).
    { rewrite <- (thr_length ths g HI). apply nth_error_lt in Hk. exact Hk. }
    destruct (thr_at ths g HI k Hklt) as [th0 [Hth0 [Hops _]]].
    rewrite Hk in Hth0. injection Hth0 as <-.
    assert (Hown' : own_state (sched_step g k) ths k =
                    step_a (fold_left step_a (firstn (th_done thk) (th_ops thk)) a_init) o).
    { unfold own_state, progress. rewrite Ht, (nth_error_upd_eq _ _ _ _ Hk). cbn [th_done].
      rewrite <- Hops, (firstn_S_nth _ _ _ Ho). apply step_a_snoc. }
    assert (Hlook : look_ok (th_ops thk) (sub_chans s t (List.concat ths))
                      (subsA (step_a (fold_left step_a (firstn (th_done thk) (th_ops thk)) a_init) o) s t)
                      (sort (subscribers s t (fst (run_c unwrap c_init (g_hist g ++ gops))))) = true).
    { unfold subsA. rewrite <- Hown', Hops.
      apply (look_model ths (sched_step g k) HI' Hown k s t _ Hklt).
      intro c. rewrite copies_sort, Hh. rewrite (subscribers_spec _ s t Hwf). reflexivity. }
    destruct o; cbn [List.length Nat.eqb negb forallb andb]; rewrite Hlook; reflexivity.
Qed.

(* ---- the whole judge on the model's observation of a complete schedule ---- *)

Lemma all2_map_map {A B C} (f : B -> C -> bool) (a : A -> B) (b : A -> C) (l : list A) :
  all2 f (map a l) (map b l) = forallb (fun x => f (a x) (b x)) l.
Proof. induction l as [|x r IH]; cbn; [reflexivity|]. rewrite IH. reflexivity. Qed.

Lemma all2_ext_in {A B} (f g : A -> B -> bool) (la : list A) : forall lb,
  (forall a b, In a la -> f a b = g a b) -> all2 f la lb = all2 g la lb.
Proof.
  induction la as [|a r IH]; intros [|b lb] H; cbn; try reflexivity.
  rewrite (H a b (or_introl eq_refl)), IH; [reflexivity|]. intros a' b' Hin. apply H. right. exact Hin.
Qed.

Lemma conc_judge_model ths sigma U :
  wf_own ths -> wf_ops (g_hist (sched sigma ths)) = true -> complete (sched sigma ths) ths ->
  judge_conc ths (conc_obs (sched sigma ths)) U (conc_final_obs (sched sigma ths) U) false O = true.
Proof.
  intros Hown Hwf Hc. set (g := sched sigma ths) in *.
  assert (HI : GInv ths g) by apply sched_GInv.
  unfold judge_conc. cbn [negb Nat.eqb andb]. apply andb_true_iff. split.
  - unfold conc_obs. rewrite <- (gi_ops _ _ HI) at 1. rewrite all2_map_map. apply forallb_forall.
    intros th Hin. apply In_nth_error in Hin as [i Hi].
    pose proof (sched_trace ths sigma Hown Hwf i th Hi) as Ht.
    assert (Hilt : (i < List.length ths)%nat).
    { rewrite <- (thr_length ths g HI). apply nth_error_lt in Hi. exact Hi. }
    destruct (thr_at ths g HI i Hilt) as [th0 [Hth0 [Hops Hd]]].
    fold g in Hi. rewrite Hi in Hth0. injection Hth0 as <-.
    rewrite Hd, (Hc i Hilt), <- Hops, firstn_all in Ht.
    unfold thread_ok. exact Ht.
  - unfold conc_final_obs. rewrite <- (map_id U) at 1. rewrite all2_map_map. apply forallb_forall.
    intros p _. apply (final_model ths g HI (fst p) (snd p) _ Hc).
    intro c. rewrite copies_sort, (subscribers_spec _ _ _ Hwf). reflexivity.
Qed.

(* what the judge means: nothing but the per-lookup and final-table conditions *)
Lemma thread_ok_gen_sound {X} (stepX : X -> op -> X) subsX candf own ops : forall st impl,
  thread_ok_gen stepX subsX candf own st ops impl = true ->
  List.length impl = List.length ops /\
  forall k o ob, nth_error ops k = Some o -> nth_error impl k = Some ob ->
    check_op stepX subsX candf own (fold_left stepX (firstn k ops) st) o ob = true.
Proof.
  induction ops as [|p r IH]; intros st impl H.
  - destruct impl; [|discriminate]. split; [reflexivity|]. intros [|k] o ob Ho; discriminate.
  - destruct impl as [|q impl]; [discriminate|].
    cbn [thread_ok_gen] in H. apply andb_true_iff in H as [H1 H2].
    destruct (IH _ _ H2) as [Hl Hk]. split; [cbn; lia|].
    intros [|k] o ob Ho Hob; cbn in Ho, Hob.
    + injection Ho as <-. injection Hob as <-. exact H1.
    + cbn [firstn fold_left]. apply Hk; assumption.
Qed.

Lemma cache_get_eq U all s t : cache_get (build_cache U all) all s t = sub_chans s t all.
Proof.
  induction U as [|[s' t'] r IH]; [reflexivity|].
  cbn [build_cache map cache_get fst snd]. fold (build_cache r all).
  destruct (N.eqb t' t) eqn:Et; [|exact IH].
  destruct (String.eqb s' s) eqn:Es; [|exact IH].
  apply N.eqb_eq in Et. apply String.eqb_eq in Es. subst. reflexivity.
Qed.

Lemma judge_conc_fast_eq ths impl U final crashed races :
  judge_conc_fast ths impl U final crashed races = judge_conc ths impl U final crashed races.
Proof.
  unfold judge_conc_fast, judge_conc. f_equal. f_equal.
  apply all2_ext_in. intros own ob _. unfold thread_ok.
  apply thread_ok_gen_ext. intros s t. apply cache_get_eq.
Qed.

(* ---- the statements used in Properties/C12.v: about the model of the code (table with identifiers)
   under an arbitrary schedule ---- *)

Definition shared_table (sigma : list nat) (ths : list (list op)) : list entry :=
  fst (run_c unwrap c_init (g_hist (sched sigma ths))).

Lemma conc_table_sum ths sigma s t c :
  wf_ops (g_hist (sched sigma ths)) = true ->
  copies c (subscribers s t (shared_table sigma ths)) =
  list_sum (map (fun i => copies c (spec_subscribers s t (fst (own_state (sched sigma ths) ths i))))
                (seq 0 (List.length ths))).
Proof.
  intro Hwf. unfold shared_table. rewrite (subscribers_spec _ s t Hwf).
  apply table_sum. apply sched_GInv.
Qed.

Lemma conc_own_exact ths sigma s t c i :
  wf_ops (g_hist (sched sigma ths)) = true -> wf_ownb ths = true ->
  (i < List.length ths)%nat -> owns (nth i ths []) c = true ->
  copies c (subscribers s t (shared_table sigma ths)) =
  copies c (spec_subscribers s t (fst (own_state (sched sigma ths) ths i))).
Proof.
  intros Hwf Hown Hi Hc. unfold shared_table. rewrite (subscribers_spec _ s t Hwf).
  apply (table_own ths _ (sched_GInv ths sigma) s t c i Hi).
  intros j Hne. destruct (owns (nth j ths []) c) eqn:Ej; [|reflexivity].
  exfalso. exact (wf_ownb_sound ths Hown j i c Hne Ej Hc).
Qed.

Lemma conc_bound ths sigma s t c :
  wf_ops (g_hist (sched sigma ths)) = true ->
  (copies c (subscribers s t (shared_table sigma ths)) <= copies c (sub_chans s t (List.concat ths)))%nat.
Proof.
  intro Hwf. unfold shared_table. rewrite (subscribers_spec _ s t Hwf).
  apply table_bound. apply sched_GInv.
Qed.

Lemma conc_final_table ths sigma s t c :
  wf_ops (g_hist (sched sigma ths)) = true -> complete (sched sigma ths) ths ->
  copies c (subscribers s t (shared_table sigma ths)) = copies c (conc_final s t ths).
Proof.
  intros Hwf Hc. unfold shared_table. rewrite (subscribers_spec _ s t Hwf).
  apply counts_eqb_iff. apply (final_model ths _ (sched_GInv ths sigma) s t _ Hc). reflexivity.
Qed.

Lemma conc_judge_model_b ths sigma U :
  wf_ownb ths = true -> wf_ops (g_hist (sched sigma ths)) = true -> complete (sched sigma ths) ths ->
  judge_conc ths (conc_obs (sched sigma ths)) U (conc_final_obs (sched sigma ths) U) false O = true.
Proof. intros Hown. apply conc_judge_model. apply wf_ownb_sound. exact Hown. Qed.

Lemma progress_bounded ths sigma i : (progress (sched sigma ths) i <= List.length (nth i ths []))%nat.
Proof. apply progress_le. apply sched_GInv. Qed.

Lemma judge_conc_sound ths impl U final crashed races :
  judge_conc ths impl U final crashed races = true <->
  crashed = false /\ races = O /\
  Forall2 (fun own ob => thread_ok (List.concat ths) own ob = true) ths impl /\
  Forall2 (fun p v => forall c, copies c v = copies c (conc_final (fst p) (snd p) ths)) U final.
Proof.
  unfold judge_conc. rewrite !andb_true_iff, negb_true_iff, Nat.eqb_eq, !all2_Forall2.
  split.
  - intros [[[H1 H2] H3] H4]. repeat split; try assumption.
    eapply Forall2_weaken; [|exact H4]. intros p v Hpv. apply counts_eqb_iff. exact Hpv.
  - intros [H1 [H2 [H3 H4]]]. repeat split; try assumption.
    eapply Forall2_weaken; [|exact H4]. intros p v Hpv. apply counts_eqb_iff. exact Hpv.
Qed.

(* a thread's trace is accepted only if every lookup made after its k-th operation shows each of its
   own channels exactly as often as its own first k+1 operations leave it subscribed to the looked-up
   (session, type), and no foreign channel more often than it is ever subscribed to it *)
Lemma thread_ok_sound all own impl :
  thread_ok all own impl = true ->
  List.length impl = List.length own /\
  forall k o ob s t v, nth_error own k = Some o -> nth_error impl k = Some ob -> op_pair own o = Some (s, t) ->
    ob <> [] /\
    (In v ob -> forall c,
       if owns own c then copies c v = copies c (spec_subscribers s t (fst (run_a a_init (firstn (S k) own))))
       else (copies c v <= copies c (sub_chans s t all))%nat).
Proof.
  unfold thread_ok. intro H. apply thread_ok_gen_sound in H as [Hl Hk]. split; [exact Hl|].
  intros k o ob s t v Ho Hob Hp. specialize (Hk k o ob Ho Hob). unfold check_op in Hk. rewrite Hp in Hk.
  apply andb_true_iff in Hk as [Hne Hall]. split.
  - intro E. subst ob. discriminate.
  - intros Hv. rewrite forallb_forall in Hall. specialize (Hall v Hv).
    rewrite (firstn_S_nth _ _ _ Ho). unfold run_a. rewrite fold_left_app. cbn [fold_left].
    apply look_ok_iff. exact Hall.
Qed.

Lemma conc_look_model ths sigma i s t v :
  wf_ops (g_hist (sched sigma ths)) = true -> wf_ownb ths = true -> (i < List.length ths)%nat ->
  (forall c, copies c v = copies c (subscribers s t (shared_table sigma ths))) ->
  look_ok (nth i ths []) (sub_chans s t (List.concat ths))
          (spec_subscribers s t (fst (own_state (sched sigma ths) ths i))) v = true.
Proof.
  intros Hwf Hown Hi Hv.
  apply (look_model ths _ (sched_GInv ths sigma) (wf_ownb_sound ths Hown) i s t v Hi).
  intro c. rewrite Hv. unfold shared_table. rewrite (subscribers_spec _ s t Hwf). reflexivity.
Qed.
