From Coq Require Import List NArith Bool String Ascii Lia ZifyBool ZifyN ZifyNat Arith.
Import ListNotations.
From SygmaV Require Import Model.C12.
Local Open Scope string_scope.
Local Open Scope N_scope.
Local Open Scope list_scope.

(* ------------------------------------------------------------------------------------------ *)
(* strings *)

Lemma sapp_assoc (a b c : string) : ((a ++ b) ++ c = a ++ (b ++ c))%string.
Proof. induction a as [|x a IH]; cbn; [reflexivity | now rewrite IH]. Qed.

Lemma no_hy_app (a b : string) : no_hy (a ++ b)%string = no_hy a && no_hy b.
Proof. induction a as [|x a IH]; cbn; [reflexivity | now rewrite IH, andb_assoc]. Qed.

Lemma digit_not_hy n : Ascii.eqb (digit (n mod 10)) hy = false.
Proof.
  destruct (Ascii.eqb_spec (digit (n mod 10)) hy) as [He|]; [|reflexivity].
  exfalso. unfold digit, hy in He.
  assert (Hlt : n mod 10 < 10) by (apply N.mod_lt; discriminate).
  apply (f_equal N_of_ascii) in He.
  rewrite N_ascii_embedding in He by lia.
  change (N_of_ascii "-"%char) with 45 in He. lia.
Qed.

Lemma no_hy_dec_fuel f : forall n acc, no_hy acc = true -> no_hy (dec_fuel f n acc) = true.
Proof.
  induction f as [|f IH]; intros n acc Hacc; cbn [dec_fuel]; [exact Hacc|].
  assert (Hd : no_hy (String (digit (n mod 10)) acc) = true)
    by (cbn [no_hy]; rewrite digit_not_hy, Hacc; reflexivity).
  destruct (n / 10 =? 0); [exact Hd | apply IH; exact Hd].
Qed.

Lemma no_hy_dec n : no_hy (dec n) = true.
Proof. unfold dec. apply no_hy_dec_fuel. reflexivity. Qed.

Lemma rsplit_no_hy x : no_hy x = true -> rsplit x = None.
Proof.
  induction x as [|a x IH]; cbn; intro H; [reflexivity|].
  apply andb_true_iff in H as [Ha Hx]. rewrite (IH Hx).
  apply negb_true_iff in Ha. rewrite Ha. reflexivity.
Qed.

(* splitting at the last separator recovers any prefix, whatever it contains *)
Lemma rsplit_app s x : no_hy x = true -> rsplit (s ++ String hy x)%string = Some (s, x).
Proof.
  intro Hx. induction s as [|a s IH]; cbn.
  - rewrite (rsplit_no_hy x Hx). reflexivity.
  - change (rsplit (s ++ String hy x)%string) with (rsplit (s ++ String hy x)%string).
    rewrite IH. reflexivity.
Qed.

Lemma parse_type_dec_nat n :
  (n <= 13)%nat -> parse_type (dec (N.of_nat n)) = Some (N.of_nat n).
Proof. intro Hn. do 14 (destruct n as [|n]; [reflexivity|]). lia. Qed.

Lemma parse_type_dec t : t <= unknown_type -> parse_type (dec t) = Some t.
Proof.
  unfold unknown_type. intro Ht.
  rewrite <- (N2Nat.id t). apply parse_type_dec_nat. lia.
Qed.

Lemma unwrap_mk_id s t i :
  t <= unknown_type -> no_hy i = true -> unwrap (mk_id s t i) = Some (s, t, i).
Proof.
  intros Ht Hi. unfold unwrap, mk_id.
  replace (s ++ String hy (dec t ++ String hy i))%string
    with ((s ++ String hy (dec t)) ++ String hy i)%string
    by (rewrite sapp_assoc; reflexivity).
  rewrite (rsplit_app _ i Hi).
  rewrite (rsplit_app s (dec t) (no_hy_dec t)).
  rewrite (parse_type_dec t Ht). reflexivity.
Qed.

Lemma unwrap_sub_id s t u :
  t <= unknown_type -> unwrap (sub_id s t u) = Some (s, t, dec u).
Proof. intro Ht. apply unwrap_mk_id; [exact Ht | apply no_hy_dec]. Qed.

Lemma unwrap_ok_model s t u : unwrap_ok s t u (unwrap (sub_id s t u)) = true.
Proof.
  unfold unwrap_ok. destruct (t <=? unknown_type) eqn:Ht; [|reflexivity].
  apply N.leb_le in Ht. rewrite (unwrap_sub_id s t u Ht).
  rewrite !String.eqb_refl, N.eqb_refl. reflexivity.
Qed.

Lemma unwrap_ok_sound s t u r :
  t <= unknown_type -> unwrap_ok s t u r = true -> r = Some (s, t, dec u).
Proof.
  intros Ht H. unfold unwrap_ok in H.
  apply N.leb_le in Ht. rewrite Ht in H.
  destruct r as [[[s' t'] i']|]; [|discriminate].
  apply andb_true_iff in H as [H Hi]. apply andb_true_iff in H as [Hs Htt].
  apply String.eqb_eq in Hs, Hi. apply N.eqb_eq in Htt. subst. reflexivity.
Qed.

(* ---- the code as it was: Split on every separator ---- *)

Fixpoint count_hy (s : string) : nat :=
  match s with
  | EmptyString => O
  | String a r => if Ascii.eqb a hy then S (count_hy r) else count_hy r
  end.

Lemma split_hy_length s : List.length (split_hy s) = S (count_hy s).
Proof.
  induction s as [|a s IH]; cbn; [reflexivity|].
  destruct (Ascii.eqb a hy); cbn; [now rewrite IH|].
  destruct (split_hy s) as [|h tl]; [discriminate IH | exact IH].
Qed.

Lemma count_hy_app a b : count_hy (a ++ b)%string = (count_hy a + count_hy b)%nat.
Proof.
  induction a as [|x a IH]; cbn; [reflexivity|].
  destruct (Ascii.eqb x hy); rewrite IH; reflexivity.
Qed.

Lemma count_hy_no_hy s : no_hy s = true -> count_hy s = O.
Proof.
  induction s as [|a s IH]; cbn; intro H; [reflexivity|].
  apply andb_true_iff in H as [Ha Hs]. apply negb_true_iff in Ha. rewrite Ha. auto.
Qed.

Lemma count_hy_pos s : no_hy s = false -> (1 <= count_hy s)%nat.
Proof.
  induction s as [|a s IH]; cbn; intro H; [discriminate|].
  destruct (Ascii.eqb a hy); [lia|]. cbn in H. auto.
Qed.

(* every session id that contains the separator defeats the old Unwrap *)
Lemma old_unwrap_hyphen s t u : no_hy s = false -> old_unwrap (sub_id s t u) = None.
Proof.
  intro Hs. unfold old_unwrap.
  assert (Hl : (4 <= List.length (split_hy (sub_id s t u)))%nat).
  { rewrite split_hy_length. unfold sub_id, mk_id.
    rewrite count_hy_app. cbn [count_hy]. rewrite Ascii.eqb_refl.
    rewrite count_hy_app. cbn [count_hy]. rewrite Ascii.eqb_refl.
    pose proof (count_hy_pos s Hs). lia. }
  destruct (split_hy (sub_id s t u)) as [|a [|b [|c [|d l]]]]; cbn in Hl; try lia; reflexivity.
Qed.

(* ------------------------------------------------------------------------------------------ *)
(* lists *)

Lemma NoDup_snoc {A} (l : list A) x : NoDup l -> ~ In x l -> NoDup (l ++ [x]).
Proof.
  induction l as [|a l IH]; cbn; intros Hn Hx; [constructor; [tauto|constructor]|].
  inversion Hn as [|? ? Ha Hl]; subst. constructor.
  - rewrite in_app_iff; cbn. intros [H|[H|[]]]; [tauto | subst; tauto].
  - apply IH; tauto.
Qed.

Lemma NoDup_nth_eq {A} (l : list A) i j x :
  NoDup l -> nth_error l i = Some x -> nth_error l j = Some x -> i = j.
Proof.
  intros Hn Hi Hj. apply (proj1 (NoDup_nth_error l) Hn).
  - apply nth_error_Some. congruence.
  - congruence.
Qed.

Lemma Forall2_In_l {A B} (R : A -> B -> Prop) l1 l2 x :
  Forall2 R l1 l2 -> In x l1 -> exists y, In y l2 /\ R x y.
Proof.
  induction 1 as [|a b l1 l2 Hab _ IH]; cbn; [tauto|].
  intros [->|Hx]; [exists b; tauto|]. destruct (IH Hx) as [y [Hy Hr]]. exists y; tauto.
Qed.

Lemma Forall2_In_r {A B} (R : A -> B -> Prop) l1 l2 y :
  Forall2 R l1 l2 -> In y l2 -> exists x, In x l1 /\ R x y.
Proof.
  induction 1 as [|a b l1 l2 Hab _ IH]; cbn; [tauto|].
  intros [->|Hy]; [exists a; tauto|]. destruct (IH Hy) as [x [Hx Hr]]. exists x; tauto.
Qed.

Lemma Forall2_filter {A B} (R : A -> B -> Prop) f g l1 l2 :
  Forall2 R l1 l2 ->
  (forall x y, In x l1 -> In y l2 -> R x y -> f x = g y) ->
  Forall2 R (filter f l1) (filter g l2).
Proof.
  induction 1 as [|a b l1 l2 Hab Hl IH]; intro Hfg; cbn; [constructor|].
  rewrite (Hfg a b (or_introl eq_refl) (or_introl eq_refl) Hab).
  assert (IH' : Forall2 R (filter f l1) (filter g l2))
    by (apply IH; intros x y Hx Hy; apply Hfg; right; assumption).
  destruct (g b); [constructor; assumption | assumption].
Qed.

Lemma Forall2_map_filter {A B C} (R : A -> B -> Prop) f g (h1 : A -> C) (h2 : B -> C) l1 l2 :
  Forall2 R l1 l2 ->
  (forall x y, R x y -> f x = g y /\ h1 x = h2 y) ->
  map h1 (filter f l1) = map h2 (filter g l2).
Proof.
  induction 1 as [|a b l1 l2 Hab Hl IH]; intro Hfg; cbn; [reflexivity|].
  destruct (Hfg a b Hab) as [Hf Hh]. rewrite Hf.
  destruct (g b); cbn; [rewrite Hh; f_equal|]; apply IH; exact Hfg.
Qed.

Lemma Forall2_map {A B C} (R : A -> B -> Prop) (h1 : A -> C) (h2 : B -> C) l1 l2 :
  Forall2 R l1 l2 -> (forall x y, R x y -> h1 x = h2 y) -> map h1 l1 = map h2 l2.
Proof.
  induction 1 as [|a b l1 l2 Hab Hl IH]; intro Hh; cbn; [reflexivity|].
  rewrite (Hh a b Hab). f_equal. apply IH; exact Hh.
Qed.

Lemma Forall2_impl_in {A B} (R R' : A -> B -> Prop) l1 l2 :
  Forall2 R l1 l2 -> (forall x y, R x y -> R' x y) -> Forall2 R' l1 l2.
Proof. induction 1; intro H'; constructor; auto. Qed.

Lemma filter_true_id {A} (f : A -> bool) l : (forall x, In x l -> f x = true) -> filter f l = l.
Proof.
  induction l as [|a l IH]; cbn; intro H; [reflexivity|].
  rewrite (H a (or_introl eq_refl)). f_equal. apply IH. intros; apply H; right; assumption.
Qed.

Lemma mem_str_In x l : mem_str x l = true <-> In x l.
Proof.
  unfold mem_str. rewrite existsb_exists. split.
  - intros [y [Hy He]]. apply String.eqb_eq in He. subst. exact Hy.
  - intro H. exists x. split; [exact H | apply String.eqb_refl].
Qed.

Lemma put_absent s t i c l :
  (forall e, In e l -> key_eqb s t i e = false) -> put s t i c l = l ++ [mk_entry s t i c].
Proof.
  induction l as [|e l IH]; cbn; intro H; [reflexivity|].
  rewrite (H e (or_introl eq_refl)). f_equal. apply IH. intros; apply H; right; assumption.
Qed.

Lemma key_eqb_true s t i e :
  key_eqb s t i e = true <-> (e_s e = s /\ e_t e = t /\ e_i e = i).
Proof.
  unfold key_eqb. rewrite !andb_true_iff, !String.eqb_eq, N.eqb_eq. tauto.
Qed.

(* ------------------------------------------------------------------------------------------ *)
(* the simulation between the table and the specification *)

Definition canon (id : string) : Prop :=
  exists s t i, id = mk_id s t i /\ t <= unknown_type /\ no_hy i = true.

Definition rel (ids : list string) (e : entry) (a : sub) : Prop :=
  e_s e = a_s a /\ e_t e = a_t a /\ e_c e = a_c a /\
  nth_error ids (a_k a) = Some (mk_id (e_s e) (e_t e) (e_i e)) /\
  no_hy (e_i e) = true /\ e_t e <= unknown_type.

Record Inv (cs : cstate) (st : astate) : Prop := {
  inv_next : snd st = List.length (snd cs);
  inv_nodup : NoDup (snd cs);
  inv_canon : Forall canon (snd cs);
  inv_rel : Forall2 (rel (snd cs)) (fst cs) (fst st)
}.

Lemma Inv_init : Inv c_init a_init.
Proof. constructor; cbn; constructor. Qed.

Lemma rel_mono ids x e a : rel ids e a -> rel (ids ++ [x]) e a.
Proof.
  intros (H1 & H2 & H3 & H4 & H5 & H6). repeat split; try assumption.
  rewrite nth_error_app1; [exact H4|]. apply nth_error_Some. congruence.
Qed.

Lemma mk_id_inj s t i s' t' i' :
  t <= unknown_type -> no_hy i = true -> t' <= unknown_type -> no_hy i' = true ->
  mk_id s t i = mk_id s' t' i' -> s = s' /\ t = t' /\ i = i'.
Proof.
  intros Ht Hi Ht' Hi' He.
  pose proof (unwrap_mk_id s t i Ht Hi) as H1.
  pose proof (unwrap_mk_id s' t' i' Ht' Hi') as H2.
  rewrite He in H1. rewrite H1 in H2. inversion H2. tauto.
Qed.

Lemma step_sub_inv tbl ids live next s t u c :
  Inv (tbl, ids) (live, next) ->
  t <= unknown_type -> ~ In (sub_id s t u) ids ->
  Inv (step_c unwrap (tbl, ids) (Sub s t u c)) (step_a (live, next) (Sub s t u c)).
Proof.
  intros [Hnext Hnd Hcan Hrel] Ht Hfresh. cbn in Hnext, Hnd, Hcan, Hrel.
  cbn [step_c step_a]. unfold ident_of. rewrite (unwrap_sub_id s t u Ht).
  rewrite put_absent.
  2:{ intros e He. destruct (key_eqb s t (dec u) e) eqn:Hk; [|reflexivity].
      exfalso. apply key_eqb_true in Hk as (Hs & Htt & Hi).
      destruct (Forall2_In_l _ _ _ _ Hrel He) as [a [_ (_ & _ & _ & Hn & _ & _)]].
      rewrite Hs, Htt, Hi in Hn. apply Hfresh. eapply nth_error_In. exact Hn. }
  constructor; cbn.
  - rewrite List.app_length. cbn. lia.
  - apply NoDup_snoc; assumption.
  - apply Forall_app. split; [exact Hcan|]. constructor; [|constructor].
    exists s, t, (dec u). repeat split; [exact Ht | apply no_hy_dec].
  - apply Forall2_app.
    + eapply Forall2_impl_in; [exact Hrel|]. intros; apply rel_mono; assumption.
    + constructor; [|constructor]. unfold rel; cbn. repeat split; try assumption.
      * subst next. rewrite nth_error_app2 by lia. rewrite Nat.sub_diag. reflexivity.
      * apply no_hy_dec.
Qed.

Lemma step_unsub_inv tbl ids live next k :
  Inv (tbl, ids) (live, next) ->
  Inv (step_c unwrap (tbl, ids) (Unsub k)) (step_a (live, next) (Unsub k)).
Proof.
  intros [Hnext Hnd Hcan Hrel]. cbn in Hnext, Hnd, Hcan, Hrel.
  cbn [step_c step_a].
  destruct (nth_error ids k) as [id|] eqn:Hk.
  - assert (Hc : canon id) by (eapply Forall_forall; [exact Hcan | eapply nth_error_In; exact Hk]).
    destruct Hc as (s & t & i & -> & Ht & Hi).
    rewrite (unwrap_mk_id s t i Ht Hi).
    constructor; cbn; try assumption.
    unfold del. apply Forall2_filter; [exact Hrel|].
    intros e a _ _ (Hs & Htt & Hc & Hn & Hie & Hte).
    f_equal.
    destruct (key_eqb s t i e) eqn:Hkey.
    + apply key_eqb_true in Hkey as (Hs' & Ht' & Hi'). rewrite Hs', Ht', Hi' in Hn.
      symmetry. apply Nat.eqb_eq. eapply NoDup_nth_eq; eassumption.
    + symmetry. apply Nat.eqb_neq. intro Heq. rewrite Heq, Hk in Hn. inversion Hn as [Hid].
      destruct (mk_id_inj _ _ _ _ _ _ Ht Hi Hte Hie Hid) as (E1 & E2 & E3).
      assert (Hkt : key_eqb s t i e = true) by (apply key_eqb_true; auto).
      congruence.
  - rewrite filter_true_id; [constructor; cbn; assumption|].
    intros a Ha. apply negb_true_iff, Nat.eqb_neq. intro Heq.
    destruct (Forall2_In_r _ _ _ _ Hrel Ha) as [e [_ (_ & _ & _ & Hn & _ & _)]].
    rewrite Heq, Hk in Hn. discriminate.
Qed.

Lemma snd_step_c uw st o :
  snd (step_c uw st o) = match o with Sub s t u _ => snd st ++ [sub_id s t u] | _ => snd st end.
Proof.
  destruct st as [tbl ids]. destruct o as [s t u c|k|s t]; cbn; try reflexivity.
  destruct (nth_error ids k); [|reflexivity]. destruct (uw s) as [[[? ?] ?]|]; reflexivity.
Qed.

Lemma step_inv cs st o :
  Inv cs st -> wf_from (snd cs) [o] = true -> Inv (step_c unwrap cs o) (step_a st o).
Proof.
  destruct cs as [tbl ids], st as [live next]. intros HI Hwf.
  destruct o as [s t u c|k|s t].
  - cbn [wf_from snd] in Hwf. rewrite andb_true_r in Hwf. apply andb_true_iff in Hwf as [Ht Hf].
    apply N.leb_le in Ht. apply negb_true_iff in Hf.
    apply step_sub_inv; [exact HI | exact Ht|].
    intro Hin. apply mem_str_In in Hin. congruence.
  - apply step_unsub_inv; exact HI.
  - exact HI.
Qed.

Lemma wf_from_cons ids o r :
  wf_from ids (o :: r) = wf_from ids [o] &&
  wf_from (match o with Sub s t u _ => ids ++ [sub_id s t u] | _ => ids end) r.
Proof. destruct o; cbn; rewrite ?andb_true_r; reflexivity. Qed.

Lemma run_inv ops : forall cs st,
  Inv cs st -> wf_from (snd cs) ops = true -> Inv (run_c unwrap cs ops) (run_a st ops).
Proof.
  induction ops as [|o r IH]; intros cs st HI Hwf; [exact HI|].
  rewrite wf_from_cons in Hwf. apply andb_true_iff in Hwf as [Ho Hr].
  cbn [run_c run_a fold_left]. apply IH.
  - apply step_inv; assumption.
  - rewrite snd_step_c. exact Hr.
Qed.

(* consequences of the invariant *)

Lemma inv_abs cs st : Inv cs st -> abs_c (fst cs) = abs_a (fst st).
Proof.
  intros [_ _ _ Hrel]. unfold abs_c, abs_a. eapply Forall2_map; [exact Hrel|].
  intros e a (H1 & H2 & H3 & _). rewrite H1, H2, H3. reflexivity.
Qed.

Lemma inv_subscribers cs st s t :
  Inv cs st -> subscribers s t (fst cs) = spec_subscribers s t (fst st).
Proof.
  intros [_ _ _ Hrel]. unfold subscribers, spec_subscribers.
  eapply Forall2_map_filter; [exact Hrel|].
  intros e a (H1 & H2 & H3 & _). unfold st_eqb, sta_eqb. rewrite H1, H2, H3. split; reflexivity.
Qed.

Lemma inv_handles_lt cs st a : Inv cs st -> In a (fst st) -> (a_k a < snd st)%nat.
Proof.
  intros [Hnext _ _ Hrel] Ha.
  destruct (Forall2_In_r _ _ _ _ Hrel Ha) as [e [_ (_ & _ & _ & Hn & _ & _)]].
  rewrite Hnext. apply nth_error_Some. congruence.
Qed.

(* ---- theorems over arbitrary operation lists ---- *)

Lemma refinement ops :
  wf_ops ops = true ->
  abs_c (fst (run_c unwrap c_init ops)) = abs_a (fst (run_a a_init ops)).
Proof. intro H. apply inv_abs. apply run_inv; [apply Inv_init | exact H]. Qed.

Lemma subscribers_spec ops s t :
  wf_ops ops = true ->
  subscribers s t (fst (run_c unwrap c_init ops)) = spec_subscribers s t (fst (run_a a_init ops)).
Proof. intro H. apply inv_subscribers. apply run_inv; [apply Inv_init | exact H]. Qed.

Lemma wf_from_app ids ops1 : forall ops2,
  wf_from ids (ops1 ++ ops2) = true -> wf_from ids ops1 = true.
Proof.
  revert ids. induction ops1 as [|o r IH]; intros ids ops2 H; [reflexivity|].
  cbn [app] in H. rewrite wf_from_cons in H |- *. apply andb_true_iff in H as [Ho Hr].
  rewrite Ho. cbn. eapply IH. exact Hr.
Qed.

Lemma run_c_app uw st a b : run_c uw st (a ++ b) = run_c uw (run_c uw st a) b.
Proof. unfold run_c. apply fold_left_app. Qed.
Lemma run_a_app st a b : run_a st (a ++ b) = run_a (run_a st a) b.
Proof. unfold run_a. apply fold_left_app. Qed.

(* several subscribers coexist: a further subscription adds its channel and displaces nobody *)
Lemma coexist ops s t u c s' t' :
  wf_ops (ops ++ [Sub s t u c]) = true ->
  subscribers s' t' (fst (run_c unwrap c_init (ops ++ [Sub s t u c]))) =
  subscribers s' t' (fst (run_c unwrap c_init ops)) ++
  (if String.eqb s s' && N.eqb t t' then [c] else []).
Proof.
  intro Hwf.
  rewrite (subscribers_spec _ s' t' Hwf).
  rewrite (subscribers_spec ops s' t' (wf_from_app _ _ _ Hwf)).
  rewrite run_a_app. destruct (run_a a_init ops) as [live next]. cbn.
  unfold spec_subscribers. rewrite filter_app, map_app. f_equal.
  cbn. unfold sta_eqb; cbn. destruct (String.eqb s s' && N.eqb t t'); reflexivity.
Qed.

(* number of Sub operations = the next handle *)
Fixpoint nsubs (ops : list op) : nat :=
  match ops with
  | [] => O
  | Sub _ _ _ _ :: r => S (nsubs r)
  | _ :: r => nsubs r
  end.

Lemma run_a_next ops : forall st, snd (run_a st ops) = (snd st + nsubs ops)%nat.
Proof.
  induction ops as [|o r IH]; intros [live next]; cbn [run_a fold_left nsubs]; [cbn; lia|].
  change (fold_left step_a r (step_a (live, next) o)) with (run_a (step_a (live, next) o) r).
  rewrite IH. destruct o; cbn; lia.
Qed.

Lemma absent_preserved k ops : forall st,
  (k < snd st)%nat -> (forall a, In a (fst st) -> (a_k a < snd st)%nat) ->
  ~ In k (map a_k (fst st)) -> ~ In k (map a_k (fst (run_a st ops))).
Proof.
  induction ops as [|o r IH]; intros [live next] Hk Hlt Hout; [exact Hout|].
  cbn [run_a fold_left].
  change (fold_left step_a r (step_a (live, next) o)) with (run_a (step_a (live, next) o) r).
  cbn in Hk, Hlt, Hout.
  apply IH; destruct o as [s t u c|j|s t]; cbn; try assumption; try lia.
  - intros a Ha. apply in_app_iff in Ha as [Ha|[<-|[]]]; [specialize (Hlt a Ha); lia | cbn; lia].
  - intros a Ha. apply filter_In in Ha as [Ha _]. auto.
  - rewrite map_app, in_app_iff. cbn. intros [H|[H|[]]]; [tauto | lia].
  - intro Hin. apply in_map_iff in Hin as [a [Hak Ha]]. apply filter_In in Ha as [Ha _].
    apply Hout. apply in_map_iff. exists a; tauto.
Qed.

(* once cancelled, a subscription is not live any more, whatever happens afterwards, and the
   table's subscriber lists are those of the live subscriptions only *)
Lemma cancelled_not_live ops k ops' :
  wf_ops (ops ++ Unsub k :: ops') = true -> (k < nsubs ops)%nat ->
  ~ In k (map a_k (fst (run_a a_init (ops ++ Unsub k :: ops')))).
Proof.
  intros Hwf Hk.
  rewrite run_a_app. cbn [run_a fold_left].
  change (fold_left step_a ops' ?x) with (run_a x ops').
  assert (HI : Inv (run_c unwrap c_init ops) (run_a a_init ops))
    by (apply run_inv; [apply Inv_init | exact (wf_from_app _ _ _ Hwf)]).
  pose proof (run_a_next ops a_init) as Hn. cbn in Hn.
  destruct (run_a a_init ops) as [live next] eqn:Hr. cbn in Hn. subst next.
  apply absent_preserved; cbn.
  - exact Hk.
  - intros a Ha. apply filter_In in Ha as [Ha _].
    apply (inv_handles_lt _ _ a HI). exact Ha.
  - intro Hin. apply in_map_iff in Hin as [a [Hak Ha]]. apply filter_In in Ha as [_ Hf].
    apply negb_true_iff, Nat.eqb_neq in Hf. congruence.
Qed.

(* every live subscription stems from the Sub operation with its handle *)
Fixpoint nth_sub (ops : list op) (k : nat) : option (string * N * N) :=
  match ops with
  | [] => None
  | Sub s t _ c :: r => match k with O => Some (s, t, c) | S k' => nth_sub r k' end
  | _ :: r => nth_sub r k
  end.

Lemma nth_sub_app_l ops1 ops2 k x : nth_sub ops1 k = Some x -> nth_sub (ops1 ++ ops2) k = Some x.
Proof.
  revert k. induction ops1 as [|o r IH]; intros k H; [discriminate|].
  destruct o as [s t u c|j|s t]; cbn in *; auto. destruct k; auto.
Qed.

Lemma nth_sub_snoc ops s t u c : nth_sub (ops ++ [Sub s t u c]) (nsubs ops) = Some (s, t, c).
Proof. induction ops as [|o r IH]; cbn; [reflexivity|]. destruct o; cbn; exact IH. Qed.

Lemma live_origin ops :
  forall a, In a (fst (run_a a_init ops)) -> nth_sub ops (a_k a) = Some (a_s a, a_t a, a_c a).
Proof.
  induction ops as [|o r IH] using rev_ind; intros a Ha; [contradiction|].
  rewrite run_a_app in Ha. cbn [run_a fold_left] in Ha.
  pose proof (run_a_next r a_init) as Hn. cbn in Hn.
  destruct (run_a a_init r) as [live next] eqn:Hr. cbn in Hn. subst next.
  destruct o as [s t u c|j|s t]; cbn in Ha.
  - apply in_app_iff in Ha as [Ha|[<-|[]]].
    + apply nth_sub_app_l. apply IH. exact Ha.
    + cbn. apply nth_sub_snoc.
  - apply filter_In in Ha as [Ha _]. apply nth_sub_app_l. apply IH. exact Ha.
  - apply nth_sub_app_l. apply IH. exact Ha.
Qed.

(* a channel that was subscribed once only, and cancelled, receives nothing further *)
Lemma cancelled_gets_nothing ops k ops' c s t :
  let all := ops ++ Unsub k :: ops' in
  wf_ops all = true -> (k < nsubs ops)%nat ->
  (forall j s' t', nth_sub all j = Some (s', t', c) -> j = k) ->
  ~ In c (subscribers s t (fst (run_c unwrap c_init all))).
Proof.
  intros all Hwf Hk Honly Hin.
  rewrite (subscribers_spec all s t Hwf) in Hin.
  unfold spec_subscribers in Hin. apply in_map_iff in Hin as [a [Hc Ha]].
  apply filter_In in Ha as [Ha _].
  pose proof (live_origin all a Ha) as Ho. rewrite Hc in Ho.
  apply Honly in Ho.
  apply (cancelled_not_live ops k ops' Hwf Hk).
  apply in_map_iff. exists a. split; assumption.
Qed.

(* ---- traces and the judge ---- *)

Lemma view_eq U cs st : Inv cs st -> view_c U (fst cs) = view_a U (fst st).
Proof.
  intro HI. unfold view_c, view_a. apply map_ext. intros [s t]. cbn.
  rewrite (inv_subscribers cs st s t HI). reflexivity.
Qed.

Lemma trace_eq U ops : forall cs st,
  Inv cs st -> wf_from (snd cs) ops = true ->
  map (fun o => (o_view o, o_got o)) (trace_c unwrap U cs ops) = trace_a U st ops.
Proof.
  induction ops as [|o r IH]; intros cs st HI Hwf; [reflexivity|].
  rewrite wf_from_cons in Hwf. apply andb_true_iff in Hwf as [Ho Hr].
  pose proof (step_inv cs st o HI Ho) as HI'.
  cbn [trace_c trace_a map]. f_equal.
  - cbn. rewrite (view_eq U _ _ HI'). f_equal.
    destruct o as [s t u c|k|s t]; try reflexivity.
    rewrite (inv_subscribers _ _ s t HI'). reflexivity.
  - apply IH; [exact HI'|]. rewrite snd_step_c. exact Hr.
Qed.

Lemma listN_eqb_eq a : forall b, listN_eqb a b = true <-> a = b.
Proof.
  induction a as [|x a IH]; intros [|y b]; cbn; try (split; [discriminate|discriminate]); [tauto|].
  rewrite andb_true_iff, N.eqb_eq, IH. split; [intros [-> ->]; reflexivity | intro H; inversion H; tauto].
Qed.

Lemma view_eqb_eq a : forall b, view_eqb a b = true <-> a = b.
Proof.
  induction a as [|x a IH]; intros [|y b]; cbn; try (split; [discriminate|discriminate]); [tauto|].
  rewrite andb_true_iff, listN_eqb_eq, IH. split; [intros [-> ->]; reflexivity | intro H; inversion H; tauto].
Qed.

Lemma trace_ok_iff spec : forall impl,
  trace_ok spec impl = true <-> map (fun o => (o_view o, o_got o)) impl = spec.
Proof.
  induction spec as [|[v g] spec IH]; intros [|o impl]; cbn; try (split; [discriminate|discriminate]); [tauto|].
  rewrite !andb_true_iff, view_eqb_eq, listN_eqb_eq, IH.
  split; [intros [[-> ->] ->]; reflexivity | intro H; inversion H; tauto].
Qed.

Lemma judge_model U ops :
  wf_ops ops = true -> judge_ops U ops (trace_c unwrap U c_init ops) = true.
Proof.
  intro Hwf. unfold judge_ops. apply trace_ok_iff. apply trace_eq; [apply Inv_init | exact Hwf].
Qed.

(* ------------------------------------------------------------------------------------------ *)
(* several messages in flight: receipts per channel as multisets *)

Lemma msg_eqb_eq (a b : msg) : msg_eqb a b = true <-> a = b.
Proof.
  destruct a as [[[s t] p] f], b as [[[s' t'] p'] f']. cbn [msg_eqb].
  rewrite !andb_true_iff, !String.eqb_eq, !N.eqb_eq.
  split; [intros [[[-> ->] ->] ->]; reflexivity | intro H; inversion H; tauto].
Qed.

Lemma msg_eqb_refl (a : msg) : msg_eqb a a = true.
Proof. apply msg_eqb_eq. reflexivity. Qed.

Lemma count_m_app x a b : count_m x (a ++ b) = (count_m x a + count_m x b)%nat.
Proof. unfold count_m. rewrite filter_app, app_length. reflexivity. Qed.

Lemma count_m_repeat x m n :
  count_m x (repeat m n) = if msg_eqb x m then n else O.
Proof.
  unfold count_m. induction n as [|n IH]; cbn [repeat filter]; [destruct (msg_eqb x m); reflexivity|].
  destruct (msg_eqb x m) eqn:E; cbn [List.length]; rewrite IH; reflexivity.
Qed.

Lemma count_m_not_in x l : ~ In x l -> count_m x l = O.
Proof.
  unfold count_m. induction l as [|y l IH]; intro H; [reflexivity|].
  cbn [filter]. destruct (msg_eqb x y) eqn:E.
  - apply msg_eqb_eq in E. subst y. exfalso. apply H. left. reflexivity.
  - apply IH. intro Hin. apply H. right. exact Hin.
Qed.

(* the boolean multiset comparison decides "every message occurs equally often" *)
Lemma mset_eqb_iff a b : mset_eqb a b = true <-> (forall x, count_m x a = count_m x b).
Proof.
  unfold mset_eqb. rewrite forallb_forall. split.
  - intros H x. destruct (in_dec (fun u v => match bool_dec (msg_eqb u v) true with
                                             | left e => left (proj1 (msg_eqb_eq u v) e)
                                             | right n => right (fun e => n (proj2 (msg_eqb_eq u v) e))
                                             end) x (a ++ b)) as [Hin|Hout].
    + apply Nat.eqb_eq. apply H. exact Hin.
    + rewrite !count_m_not_in; [reflexivity | |]; intro Hin; apply Hout; apply in_or_app; tauto.
  - intros H x _. apply Nat.eqb_eq. apply H.
Qed.

Lemma mset_eqb_refl a : mset_eqb a a = true.
Proof. apply mset_eqb_iff. reflexivity. Qed.

Lemma all2_Forall2 {A B : Type} (f : A -> B -> bool) la : forall lb,
  all2 f la lb = true <-> Forall2 (fun a b => f a b = true) la lb.
Proof.
  induction la as [|a la IH]; intros [|b lb]; cbn [all2].
  - split; [constructor | reflexivity].
  - split; [discriminate | intro H; inversion H].
  - split; [discriminate | intro H; inversion H].
  - rewrite andb_true_iff, IH. split; [intros [H1 H2]; constructor; assumption | intro H; inversion H; tauto].
Qed.

Lemma Forall2_weaken {A B : Type} (P Q : A -> B -> Prop) la : forall lb,
  (forall a b, P a b -> Q a b) -> Forall2 P la lb -> Forall2 Q la lb.
Proof. intros lb HPQ H. induction H; constructor; auto. Qed.

Lemma recv_of_ext (f g : string -> N -> list N) msgs c :
  (forall s t, f s t = g s t) -> recv_of f msgs c = recv_of g msgs c.
Proof.
  intro H. unfold recv_of. induction msgs as [|m r IH]; [reflexivity|].
  cbn [flat_map]. rewrite H, IH. reflexivity.
Qed.

(* the spec, spelled out: channel c is entitled to message x (number of times x was sent) times
   (number of live subscriptions c holds on x's session and type) - in particular to nothing of a
   (session, type) it is not subscribed to *)
Lemma count_m_cons x m r :
  count_m x (m :: r) = ((if msg_eqb x m then 1 else 0) + count_m x r)%nat.
Proof. unfold count_m. cbn [filter]. destruct (msg_eqb x m); reflexivity. Qed.

Lemma recv_of_count subs msgs c s t p f :
  count_m (s, t, p, f) (recv_of subs msgs c) = (count_m (s, t, p, f) msgs * copies c (subs s t))%nat.
Proof.
  unfold recv_of. induction msgs as [|m r IH]; [reflexivity|].
  cbn [flat_map]. rewrite count_m_app, IH, count_m_repeat, count_m_cons.
  destruct (msg_eqb (s, t, p, f) m) eqn:E.
  - apply msg_eqb_eq in E. subst m. cbn [fst snd]. lia.
  - lia.
Qed.

Lemma fan_refinement ops msgs c :
  wf_ops ops = true ->
  recv_c (fst (run_c unwrap c_init ops)) msgs c = recv_a (fst (run_a a_init ops)) msgs c.
Proof.
  intro Hwf. unfold recv_c, recv_a. apply recv_of_ext. intros s t. apply subscribers_spec. exact Hwf.
Qed.

Lemma fan_judge_model ops msgs chans :
  wf_ops ops = true ->
  judge_fan ops msgs chans (map (recv_c (fst (run_c unwrap c_init ops)) msgs) chans) = true.
Proof.
  intro Hwf. unfold judge_fan, fan_ok. apply all2_Forall2.
  induction chans as [|c r IH]; cbn [map]; constructor; [|exact IH].
  rewrite (fan_refinement ops msgs c Hwf). apply mset_eqb_refl.
Qed.

Lemma fan_judge_sound ops msgs chans impl :
  judge_fan ops msgs chans impl = true <->
  Forall2 (fun c got => forall s t p f,
             count_m (s, t, p, f) got =
             (count_m (s, t, p, f) msgs * copies c (spec_subscribers s t (fst (run_a a_init ops))))%nat)
          chans impl.
Proof.
  unfold judge_fan, fan_ok. rewrite all2_Forall2.
  split; intro H; (eapply Forall2_weaken; [|exact H]); cbn beta; intros c got Hc.
  - intros s t p f. apply mset_eqb_iff with (x := (s, t, p, f)) in Hc. rewrite <- Hc.
    unfold recv_a. apply recv_of_count.
  - apply mset_eqb_iff. intros [[[s t] p] f]. rewrite Hc. unfold recv_a. apply recv_of_count.
Qed.

(* ------------------------------------------------------------------------------------------ *)
(* the table changes between the messages of a stream: interleaved scripts *)

Lemma fops_app e1 e2 : fops (e1 ++ e2) = fops e1 ++ fops e2.
Proof. unfold fops. apply flat_map_app. Qed.

Lemma fops_cons_op o r : fops (FOp o :: r) = o :: fops r.
Proof. reflexivity. Qed.

Lemma fops_cons_msg m r : fops (FMsg m :: r) = fops r.
Proof. reflexivity. Qed.

Lemma fops_map_op ops : fops (map FOp ops) = ops.
Proof. induction ops as [|o r IH]; [reflexivity|]. cbn [map]. rewrite fops_cons_op, IH. reflexivity. Qed.

Lemma recvi_of_app {X : Type} (stepX : X -> op -> X) subsX e1 : forall st e2 c,
  recvi_of stepX subsX st (e1 ++ e2) c =
  recvi_of stepX subsX st e1 c ++ recvi_of stepX subsX (fold_left stepX (fops e1) st) e2 c.
Proof.
  induction e1 as [|e r IH]; intros st e2 c; [reflexivity|].
  destruct e as [o|m]; cbn [app recvi_of].
  - rewrite IH, fops_cons_op. reflexivity.
  - rewrite IH, fops_cons_msg, app_assoc. reflexivity.
Qed.

Lemma recvi_c_app cs e1 e2 c :
  recvi_c cs (e1 ++ e2) c = recvi_c cs e1 c ++ recvi_c (run_c unwrap cs (fops e1)) e2 c.
Proof. unfold recvi_c, run_c. apply recvi_of_app. Qed.

Lemma recvi_a_app st e1 e2 c :
  recvi_a st (e1 ++ e2) c = recvi_a st e1 c ++ recvi_a (run_a st (fops e1)) e2 c.
Proof. unfold recvi_a, run_a. apply recvi_of_app. Qed.

(* refinement, from any pair of related states *)
Lemma recvi_refine evs : forall cs st c,
  Inv cs st -> wf_from (snd cs) (fops evs) = true -> recvi_c cs evs c = recvi_a st evs c.
Proof.
  induction evs as [|e r IH]; intros cs st c HI Hwf; [reflexivity|].
  destruct e as [o|m].
  - rewrite fops_cons_op, wf_from_cons in Hwf. apply andb_true_iff in Hwf as [Ho Hr].
    unfold recvi_c, recvi_a. cbn [recvi_of]. apply IH.
    + apply step_inv; assumption.
    + rewrite snd_step_c. exact Hr.
  - rewrite fops_cons_msg in Hwf.
    unfold recvi_c, recvi_a. cbn [recvi_of].
    rewrite (inv_subscribers cs st _ _ HI). f_equal. apply IH; assumption.
Qed.

Lemma fani_refinement evs c :
  wf_ops (fops evs) = true -> recvi_c c_init evs c = recvi_a a_init evs c.
Proof. intro Hwf. apply recvi_refine; [apply Inv_init | exact Hwf]. Qed.

Lemma fani_judge_model evs chans :
  wf_ops (fops evs) = true ->
  judge_fani evs chans (map (recvi_c c_init evs) chans) = true.
Proof.
  intro Hwf. unfold judge_fani, fan_ok. apply all2_Forall2.
  induction chans as [|c r IH]; cbn [map]; constructor; [|exact IH].
  rewrite (fani_refinement evs c Hwf). apply mset_eqb_refl.
Qed.

Lemma fani_judge_sound evs chans impl :
  judge_fani evs chans impl = true <->
  Forall2 (fun c got => forall x, count_m x got = count_m x (recvi_a a_init evs c)) chans impl.
Proof.
  unfold judge_fani, fan_ok. rewrite all2_Forall2.
  split; intro H; (eapply Forall2_weaken; [|exact H]); cbn beta; intros c got Hc.
  - intro x. symmetry. apply mset_eqb_iff. exact Hc.
  - apply mset_eqb_iff. intro x. symmetry. apply Hc.
Qed.

(* what the specification's receipts are, message by message: a script without messages hands out
   nothing, and every single message contributes - independently of everything before and after
   it - one copy per subscription the channel holds on the message's (session, type) at the moment
   of the message *)
Lemma fani_no_messages evs : forall st c,
  (forall m, ~ In (FMsg m) evs) -> recvi_a st evs c = [].
Proof.
  induction evs as [|e r IH]; intros st c H; [reflexivity|].
  destruct e as [o|m].
  - unfold recvi_a. cbn [recvi_of]. apply IH. intros m Hin. apply (H m). right. exact Hin.
  - exfalso. apply (H m). left. reflexivity.
Qed.

Lemma recvi_a_msg st m r c :
  recvi_a st (FMsg m :: r) c =
  repeat m (copies c (spec_subscribers (m_sess m) (m_type m) (fst st))) ++ recvi_a st r c.
Proof. reflexivity. Qed.

Lemma fani_each_message pre m post c x :
  count_m x (recvi_a a_init (pre ++ FMsg m :: post) c) =
  (count_m x (recvi_a a_init (pre ++ post) c) +
   (if msg_eqb x m
    then copies c (spec_subscribers (m_sess m) (m_type m) (fst (run_a a_init (fops pre))))
    else O))%nat.
Proof.
  rewrite !recvi_a_app, recvi_a_msg, !count_m_app, count_m_repeat. lia.
Qed.

(* the fixed-table burst is the special case "all table operations first" *)
Lemma recvi_a_msgs msgs : forall st c,
  recvi_a st (map FMsg msgs) c = recv_a (fst st) msgs c.
Proof.
  induction msgs as [|m r IH]; intros st c; [reflexivity|].
  cbn [map]. rewrite recvi_a_msg, IH. reflexivity.
Qed.

Lemma fani_fixed_table ops msgs c :
  recvi_a a_init (map FOp ops ++ map FMsg msgs) c = recv_a (fst (run_a a_init ops)) msgs c.
Proof.
  rewrite recvi_a_app, fops_map_op, recvi_a_msgs.
  rewrite fani_no_messages; [reflexivity|].
  intros m Hin. apply in_map_iff in Hin as [o [Ho _]]. discriminate.
Qed.

(* nothing further after cancellation, in the model of the code: a channel subscribed by one
   subscription only has, at the end of any script, received exactly what it had received when
   that subscription was cancelled *)
Lemma copies_not_in c l : ~ In c l -> copies c l = O.
Proof.
  unfold copies. induction l as [|y l IH]; intro H; [reflexivity|].
  cbn [filter]. destruct (N.eqb c y) eqn:E.
  - apply N.eqb_eq in E. subst y. exfalso. apply H. left. reflexivity.
  - apply IH. intro Hin. apply H. right. exact Hin.
Qed.

Lemma recvi_c_nil post : forall base c,
  (forall p1 p2, post = p1 ++ p2 ->
     forall s t, ~ In c (subscribers s t (fst (run_c unwrap c_init (base ++ fops p1))))) ->
  recvi_c (run_c unwrap c_init base) post c = [].
Proof.
  induction post as [|e r IH]; intros base c H; [reflexivity|].
  destruct e as [o|m]; unfold recvi_c; cbn [recvi_of].
  - change (step_c unwrap (run_c unwrap c_init base) o) with (run_c unwrap (run_c unwrap c_init base) [o]).
    rewrite <- run_c_app. apply IH.
    intros p1 p2 Hr s t. rewrite <- app_assoc. cbn [app].
    apply (H (FOp o :: p1) p2). rewrite Hr. reflexivity.
  - rewrite copies_not_in.
    + cbn [repeat app]. apply IH. intros p1 p2 Hr s t.
      apply (H (FMsg m :: p1) p2). rewrite Hr. reflexivity.
    + pose proof (H [] (FMsg m :: r) eq_refl (m_sess m) (m_type m)) as H0.
      cbn [fops flat_map] in H0. rewrite app_nil_r in H0. exact H0.
Qed.

Lemma fani_cancelled_nothing pre k post c :
  wf_ops (fops (pre ++ FOp (Unsub k) :: post)) = true -> (k < nsubs (fops pre))%nat ->
  (forall j s' t', nth_sub (fops (pre ++ FOp (Unsub k) :: post)) j = Some (s', t', c) -> j = k) ->
  recvi_c c_init (pre ++ FOp (Unsub k) :: post) c = recvi_c c_init pre c.
Proof.
  intros Hwf Hk Honly.
  change (pre ++ FOp (Unsub k) :: post) with (pre ++ [FOp (Unsub k)] ++ post).
  rewrite app_assoc, recvi_c_app, recvi_c_app.
  replace (recvi_c (run_c unwrap c_init (fops pre)) [FOp (Unsub k)] c) with (@nil msg) by reflexivity.
  rewrite fops_app. change (fops [FOp (Unsub k)]) with [Unsub k].
  rewrite recvi_c_nil; [rewrite !app_nil_r; reflexivity|].
  intros p1 p2 Hp s t.
  rewrite fops_app, fops_cons_op, Hp, fops_app in Hwf, Honly.
  rewrite <- app_assoc. cbn [app].
  apply (cancelled_gets_nothing (fops pre) k (fops p1) c s t).
  - replace (fops pre ++ Unsub k :: fops p1 ++ fops p2)
      with ((fops pre ++ Unsub k :: fops p1) ++ fops p2) in Hwf
      by (rewrite <- app_assoc; reflexivity).
    exact (wf_from_app _ _ _ Hwf).
  - exact Hk.
  - intros j s' t' Hn. apply (Honly j s' t').
    replace (fops pre ++ Unsub k :: fops p1 ++ fops p2)
      with ((fops pre ++ Unsub k :: fops p1) ++ fops p2)
      by (rewrite <- app_assoc; reflexivity).
    apply nth_sub_app_l. exact Hn.
Qed.
